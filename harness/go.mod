module verifharness

go 1.23.0

require (
	github.com/anishathalye/porcupine v1.3.0
	github.com/go-kit/log v0.2.1
	github.com/moov-io/ach v0.0.0
)

// C17 (server through httptest): versions as pinned by the ach module itself
require (
	github.com/go-kit/log v0.2.1
	github.com/beorn7/perks v1.0.1 // indirect
	github.com/cespare/xxhash/v2 v2.3.0 // indirect
	github.com/go-kit/kit v0.13.0 // indirect
	github.com/go-logfmt/logfmt v0.6.0 // indirect
	github.com/gorilla/mux v1.8.1 // indirect
	github.com/munnerz/goautoneg v0.0.0-20191010083416-a7dc8b61c822 // indirect
	github.com/prometheus/client_golang v1.22.0 // indirect
	github.com/prometheus/client_model v0.6.1 // indirect
	github.com/prometheus/common v0.62.0 // indirect
	github.com/prometheus/procfs v0.15.1 // indirect
	golang.org/x/sys v0.32.0 // indirect
	google.golang.org/protobuf v1.36.5 // indirect
)

require (
	github.com/beorn7/perks v1.0.1 // indirect
	github.com/cespare/xxhash/v2 v2.3.0 // indirect
	github.com/go-kit/kit v0.13.0 // indirect
	github.com/go-logfmt/logfmt v0.6.0 // indirect
	github.com/gorilla/mux v1.8.1 // indirect
	github.com/igrmk/treemap/v2 v2.0.1 // indirect
	github.com/moov-io/base v0.54.3 // indirect
	github.com/moov-io/iso3166 v0.2.1 // indirect
	github.com/moov-io/iso4217 v0.3.2 // indirect
	github.com/munnerz/goautoneg v0.0.0-20191010083416-a7dc8b61c822 // indirect
	github.com/prometheus/client_golang v1.22.0 // indirect
	github.com/prometheus/client_model v0.6.1 // indirect
	github.com/prometheus/common v0.62.0 // indirect
	github.com/prometheus/procfs v0.15.1 // indirect
	github.com/rickar/cal/v2 v2.1.22 // indirect
	golang.org/x/exp v0.0.0-20240707233637-46b078467d37 // indirect
	golang.org/x/net v0.39.0 // indirect
	golang.org/x/sync v0.13.0 // indirect
	golang.org/x/sys v0.32.0 // indirect
	golang.org/x/text v0.24.0 // indirect
	google.golang.org/protobuf v1.36.5 // indirect
)

replace github.com/moov-io/ach => /repo

module verifharness

go 1.23.0

require (
	github.com/anishathalye/porcupine v1.3.0
	github.com/moov-io/ach v0.0.0
)

require (
	github.com/igrmk/treemap/v2 v2.0.1 // indirect
	github.com/moov-io/base v0.54.3 // indirect
	github.com/moov-io/iso3166 v0.2.1 // indirect
	github.com/moov-io/iso4217 v0.3.2 // indirect
	github.com/rickar/cal/v2 v2.1.22 // indirect
	golang.org/x/exp v0.0.0-20240707233637-46b078467d37 // indirect
	golang.org/x/net v0.39.0 // indirect
	golang.org/x/sync v0.13.0 // indirect
	golang.org/x/text v0.24.0 // indirect
)

replace github.com/moov-io/ach => /repo

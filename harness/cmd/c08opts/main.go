// Command c08opts: correspondence cases and a direct oracle for the option part of
// property C08 (MergeFilesWith and ValidateOpts): which options the output files and
// batches carry, and what Batch.Create does to trace numbers under them.
//
//	corr   -out DIR -n N      cases.txt (model input), impl.txt (observations of ach.MergeFilesWith), cases.jsonl
//	oracle -out DIR -n N      properties evaluated directly on the real code; oracle.jsonl
//	replay FILE               re-run the oracle checks on the input of a replay / corpus file
package main

import (
	"encoding/json"
	"errors"
	"flag"
	"fmt"
	"os"
	"path/filepath"
	"reflect"
	"sort"
	"strconv"
	"strings"

	"github.com/moov-io/ach"

	"verifharness/internal/hx"
	"verifharness/internal/rng"
)

func main() {
	if len(os.Args) < 2 {
		fmt.Fprintln(os.Stderr, "usage: c08opts corr|oracle|replay ...")
		os.Exit(2)
	}
	switch os.Args[1] {
	case "corr":
		corr(os.Args[2:])
	case "oracle":
		oracle(os.Args[2:])
	case "replay":
		replay(os.Args[2:])
	default:
		fmt.Fprintln(os.Stderr, "unknown mode")
		os.Exit(2)
	}
}

// ---------------------------------------------------------------- option values

// boolFields: the names of the bool fields of ach.ValidateOpts in declaration order (by
// reflection on the struct of this build; the model's vectors use the same order, which the
// translator table pins).
var boolFields []string

func init() {
	t := reflect.TypeOf(ach.ValidateOpts{})
	for i := 0; i < t.NumField(); i++ {
		if t.Field(i).Type.Kind() == reflect.Bool {
			boolFields = append(boolFields, t.Field(i).Name)
		}
	}
}

func flagIx(name string) int {
	for i, n := range boolFields {
		if n == name {
			return i
		}
	}
	panic("no bool field " + name + " in ach.ValidateOpts")
}

func ctc1(code int) error {
	if code == -1 {
		return errors.New("ctc1")
	}
	return nil
}
func ctc2(code int) error {
	if code == -2 {
		return errors.New("ctc2")
	}
	return nil
}
func ctc3(code int) error {
	if code == -3 {
		return errors.New("ctc3")
	}
	return nil
}

var ctcs = []func(int) error{nil, ctc1, ctc2, ctc3}

func ctcID(f func(int) error) int {
	if f == nil {
		return 0
	}
	p := reflect.ValueOf(f).Pointer()
	for i := 1; i < len(ctcs); i++ {
		if reflect.ValueOf(ctcs[i]).Pointer() == p {
			return i
		}
	}
	return -1
}

// OptSpec describes a *ach.ValidateOpts value.
type OptSpec struct {
	Nil   bool  `json:"nil,omitempty"`
	Flags []int `json:"flags,omitempty"` // positions among the bool fields
	CTC   int   `json:"ctc,omitempty"`   // 0: no CheckTransactionCode, 1..3: one of three fixed functions
}

func (o OptSpec) has(name string) bool {
	if o.Nil {
		return false
	}
	ix := flagIx(name)
	for _, f := range o.Flags {
		if f == ix {
			return true
		}
	}
	return false
}

func (o *OptSpec) set(name string) {
	o.Nil = false
	if !o.has(name) {
		o.Flags = append(o.Flags, flagIx(name))
		sort.Ints(o.Flags)
	}
}

func mkOpts(o OptSpec) *ach.ValidateOpts {
	if o.Nil {
		return nil
	}
	v := &ach.ValidateOpts{}
	rv := reflect.ValueOf(v).Elem()
	for _, ix := range o.Flags {
		rv.FieldByName(boolFields[ix]).SetBool(true)
	}
	if o.CTC > 0 && o.CTC < len(ctcs) {
		v.CheckTransactionCode = ctcs[o.CTC]
	}
	return v
}

func bitsOf(v *ach.ValidateOpts) []bool {
	if v == nil {
		return nil
	}
	rv := reflect.ValueOf(v).Elem()
	out := make([]bool, len(boolFields))
	for i, n := range boolFields {
		out[i] = rv.FieldByName(n).Bool()
	}
	return out
}

// optToken renders an option value for the interchange: "-" = nil, else bits:ctc.
func optToken(v *ach.ValidateOpts) string {
	if v == nil {
		return "-"
	}
	var b strings.Builder
	for _, x := range bitsOf(v) {
		if x {
			b.WriteByte('1')
		} else {
			b.WriteByte('0')
		}
	}
	fmt.Fprintf(&b, ":%d", ctcID(v.CheckTransactionCode))
	return b.String()
}

func specToken(o OptSpec) string { return optToken(mkOpts(o)) }

// ---------------------------------------------------------------- input specification

type EntrySpec struct {
	Prefix   string `json:"prefix,omitempty"` // first 8 characters of the trace number when not the ODFI
	Seq      int    `json:"seq"`
	Amount   int    `json:"amount"`
	Addenda  int    `json:"addenda"`
	ID       int    `json:"id"`
	Debit    bool   `json:"debit,omitempty"`
	BadCheck bool   `json:"badCheck,omitempty"` // wrong check digit (AllowInvalidCheckDigit)
	Prenote  bool   `json:"prenote,omitempty"`  // prenote code with an amount (AllowInvalidAmounts)
	CatxOff  int    `json:"catxOff,omitempty"`  // CTX: addenda count of the entry record = addenda + CatxOff (UnequalAddendaCounts)
}

type BatchSpec struct {
	SCC     int         `json:"scc"`
	Name    string      `json:"name"`
	CID     string      `json:"cid"`
	SEC     string      `json:"sec"`
	Desc    string      `json:"desc"`
	EED     string      `json:"eed"`
	ODFI    string      `json:"odfi"`
	Rest    int         `json:"rest"`
	Mode    string      `json:"mode"` // options stored on the batch: "file" (the file's value), "nil", "own"
	Own     OptSpec     `json:"own"`
	Raw     bool        `json:"raw,omitempty"` // the batch is NOT valid under the options stored on it (foreign trace numbers without the option)
	Entries []EntrySpec `json:"entries"`
}

type FileSpec struct {
	Origin  string      `json:"origin"`
	Dest    string      `json:"dest"`
	HID     int         `json:"hid"`
	Opts    OptSpec     `json:"opts"`
	Batches []BatchSpec `json:"batches"`
}

type Case struct {
	Kind      string     `json:"kind"` // always "opts" (tells lib/c08.py which command replays it)
	Label     string     `json:"label,omitempty"`
	Files     []FileSpec `json:"files"`
	MaxLines  int        `json:"maxLines"`
	MaxDollar int64      `json:"maxDollar"`
}

func (b BatchSpec) stored(f FileSpec) OptSpec {
	switch b.Mode {
	case "file":
		return f.Opts
	case "own":
		return b.Own
	}
	return OptSpec{Nil: true}
}

// shortPrefix marks a trace number stored as the bare sequence number ("1001", not 15 characters): the
// written field is zero-padded, the string the merge code keys and compares is not.
const shortPrefix = "~"

func traceOf(b BatchSpec, e EntrySpec) string {
	p := e.Prefix
	if p == shortPrefix {
		return strconv.Itoa(e.Seq)
	}
	if p == "" {
		p = b.ODFI
	}
	return fmt.Sprintf("%s%07d", p, e.Seq)
}

// validated: every batch is valid under the options stored on it
func (c Case) validated() bool {
	for _, f := range c.Files {
		for _, b := range f.Batches {
			if b.Raw {
				return false
			}
		}
	}
	return true
}

// ---------------------------------------------------------------- building real files

func buildEntry(b BatchSpec, e EntrySpec, bo *ach.ValidateOpts) *ach.EntryDetail {
	ed := ach.NewEntryDetail()
	ed.SetValidation(bo)
	if e.Debit {
		ed.TransactionCode = ach.CheckingDebit
	} else {
		ed.TransactionCode = ach.CheckingCredit
	}
	if e.Prenote {
		ed.TransactionCode++ // 23 / 28: a prenote
	}
	ed.SetRDFI("231380104")
	if e.BadCheck {
		d, _ := strconv.Atoi(ed.CheckDigit)
		ed.CheckDigit = strconv.Itoa((d + 3) % 10)
	}
	ed.DFIAccountNumber = fmt.Sprintf("ACCT%d", e.ID%97)
	ed.Amount = e.Amount
	ed.IdentificationNumber = fmt.Sprintf("E%07d", e.ID)
	if b.SEC == ach.CTX {
		ed.SetCATXAddendaRecords(e.Addenda + e.CatxOff) // also sets the indicator to the count
		ed.SetCATXReceivingCompany(fmt.Sprintf("Receiver %d", e.ID%13))
		ed.AddendaRecordIndicator = 0
	} else {
		ed.IndividualName = fmt.Sprintf("Receiver %d", e.ID%13)
	}
	ed.TraceNumber = traceOf(b, e)
	ed.Category = ach.CategoryForward
	for k := 0; k < e.Addenda; k++ {
		a := ach.NewAddenda05()
		a.PaymentRelatedInformation = fmt.Sprintf("payment info %d/%d", e.ID, k)
		a.SequenceNumber = k + 1
		a.EntryDetailSequenceNumber = e.Seq
		ed.AddAddenda05(a)
		ed.AddendaRecordIndicator = 1
	}
	return ed
}

// rawBuildOpts: the options a raw batch is first created under (its own plus the two trace-number options)
func rawBuildOpts(bo *ach.ValidateOpts) *ach.ValidateOpts {
	v := ach.ValidateOpts{}
	if bo != nil {
		v = *bo
	}
	v.CustomTraceNumbers, v.BypassOriginValidation = true, true
	return &v
}

func buildBatch(b BatchSpec, bo *ach.ValidateOpts) (ach.Batcher, error) {
	bh := ach.NewBatchHeader()
	bh.SetValidation(bo) // as the Reader does: the header carries the options too
	bh.ServiceClassCode = b.SCC
	bh.CompanyName = b.Name
	bh.CompanyIdentification = b.CID
	bh.StandardEntryClassCode = b.SEC
	bh.CompanyEntryDescription = b.Desc
	bh.EffectiveEntryDate = b.EED
	bh.ODFIIdentification = b.ODFI
	bh.CompanyDiscretionaryData = fmt.Sprintf("REST %d", b.Rest)
	bt, err := ach.NewBatch(bh)
	if err != nil {
		return nil, err
	}
	if b.Raw {
		// built under permissive options, then left with the options of the specification
		bt.SetValidation(rawBuildOpts(bo))
	} else {
		bt.SetValidation(bo)
	}
	for _, e := range b.Entries {
		bt.AddEntry(buildEntry(b, e, bo))
	}
	if err := bt.Create(); err != nil {
		return nil, err
	}
	for i, e := range bt.GetEntries() {
		if e.TraceNumber != traceOf(b, b.Entries[i]) {
			return nil, fmt.Errorf("Create changed the trace number of an input entry (generator error)")
		}
	}
	if b.Raw {
		bt.SetValidation(bo)
	} else if err := bt.Validate(); err != nil {
		return nil, err
	}
	return bt, nil
}

func buildFile(fsp FileSpec) (*ach.File, error) {
	f := ach.NewFile()
	fo := mkOpts(fsp.Opts)
	if fo != nil {
		f.SetValidation(fo)
	}
	f.Header.ImmediateDestination = fsp.Dest
	f.Header.ImmediateOrigin = fsp.Origin
	f.Header.FileCreationDate = "190816"
	f.Header.FileCreationTime = "1055"
	f.Header.ImmediateDestinationName = "Federal Reserve Bank"
	f.Header.ImmediateOriginName = fmt.Sprintf("ORIGIN %d", fsp.HID)
	raw := false
	for _, b := range fsp.Batches {
		var bo *ach.ValidateOpts
		switch b.Mode {
		case "file":
			bo = fo
		case "own":
			bo = mkOpts(b.Own)
		}
		bt, err := buildBatch(b, bo)
		if err != nil {
			return nil, err
		}
		raw = raw || b.Raw
		f.AddBatch(bt)
	}
	if err := f.Create(); err != nil {
		return nil, err
	}
	if !raw {
		if err := f.Validate(); err != nil {
			return nil, err
		}
	}
	return f, nil
}

func buildFiles(c Case) (out []*ach.File, err error) {
	defer func() {
		if r := recover(); r != nil {
			err = fmt.Errorf("panic while building the inputs: %v", r)
		}
	}()
	for i, fsp := range c.Files {
		f, e := buildFile(fsp)
		if e != nil {
			return nil, fmt.Errorf("input file %d: %w", i, e)
		}
		out = append(out, f)
	}
	return out, nil
}

func mergeGuarded(files []*ach.File, c Case) (out []*ach.File, err error, panicked any) {
	defer func() {
		if r := recover(); r != nil {
			panicked = r
		}
	}()
	out, err = ach.MergeFilesWith(files, ach.Conditions{MaxLines: c.MaxLines, MaxDollarAmount: c.MaxDollar})
	return
}

// ---------------------------------------------------------------- interchange with the model

func caseLine(c Case) string {
	var b strings.Builder
	fmt.Fprintf(&b, "%d %d %d", c.MaxLines, c.MaxDollar, len(c.Files))
	for _, f := range c.Files {
		fmt.Fprintf(&b, " %s %s %d %s %d", hx.Enc(f.Origin), hx.Enc(f.Dest), f.HID, specToken(f.Opts), len(f.Batches))
		for _, bt := range f.Batches {
			fmt.Fprintf(&b, " %s %d %s %s %s %s %s %s %d %d", specToken(bt.stored(f)), bt.SCC, hx.Enc(bt.Name), hx.Enc(bt.CID),
				hx.Enc(bt.SEC), hx.Enc(bt.Desc), hx.Enc(bt.EED), hx.Enc(bt.ODFI), bt.Rest, len(bt.Entries))
			for _, e := range bt.Entries {
				fmt.Fprintf(&b, " %s %d %d %d", hx.Enc(traceOf(bt, e)), e.Amount, e.Addenda, e.ID)
			}
		}
	}
	return b.String()
}

func marker(s, prefix string) int {
	s = strings.TrimSpace(s)
	if !strings.HasPrefix(s, prefix) {
		return -1
	}
	n, err := strconv.Atoi(strings.TrimSpace(s[len(prefix):]))
	if err != nil {
		return -1
	}
	return n
}

// observe renders the implementation's result in the model's result format.
func observe(out []*ach.File, err error, panicked any) string {
	if panicked != nil {
		return "PANIC"
	}
	if err != nil {
		return "ERR"
	}
	var b strings.Builder
	fmt.Fprintf(&b, "%d", len(out))
	for _, f := range out {
		if f == nil {
			b.WriteString(" NILFILE")
			continue
		}
		fmt.Fprintf(&b, " F %s %s %d %s %d", hx.Enc(f.Header.ImmediateOrigin), hx.Enc(f.Header.ImmediateDestination),
			marker(f.Header.ImmediateOriginName, "ORIGIN"), optToken(f.GetValidation()), len(f.Batches))
		for _, bt := range f.Batches {
			h := bt.GetHeader()
			fmt.Fprintf(&b, " B %d %d %s %d", h.BatchNumber, marker(h.CompanyDiscretionaryData, "REST"),
				optToken(ach.VerifBatchValidation(bt)), len(bt.GetEntries()))
			for _, e := range bt.GetEntries() {
				fmt.Fprintf(&b, " %d %s", marker(e.IdentificationNumber, "E"), hx.Enc(e.TraceNumber))
			}
		}
	}
	return b.String()
}

// ---------------------------------------------------------------- generators

type route struct {
	origin, dest string
	need         string // option every file of this routing pair needs on the FILE ("" = none)
}

var routePool = []route{
	{"121042882", "231380104", ""},
	{"076401251", "231380104", ""},
	{"000000000", "231380104", "BypassOriginValidation"}, // an all-zero origin
	{"1234567890", "231380104", ""},                      // ten characters: written in full only under BypassOriginValidation
	{"1234567890", "231380104", ""},
	{"121042882", "123456789", "BypassDestinationValidation"}, // a destination whose check digit is wrong
}

func randOpts(r *rng.R) OptSpec {
	if r.Chance(3, 10) {
		return OptSpec{Nil: true}
	}
	var o OptSpec
	for i := range boolFields {
		if r.Chance(1, 7) {
			o.Flags = append(o.Flags, i)
		}
	}
	switch r.Intn(6) {
	case 0:
		o.set("BypassOriginValidation")
	case 1:
		o.set("CustomTraceNumbers")
	}
	if r.Chance(1, 5) {
		o.CTC = r.Range(1, 3)
	}
	return o
}

func baseHeader(r *rng.R) BatchSpec {
	return BatchSpec{
		SCC:  rng.Pick(r, []int{200, 200, 220, 225}),
		Name: rng.Pick(r, []string{"Acme Corp", "Beta LLC"}),
		CID:  rng.Pick(r, []string{"121042882", "987654321"}),
		SEC:  rng.Pick(r, []string{ach.PPD, ach.PPD, ach.CCD, ach.CTX}),
		Desc: rng.Pick(r, []string{"PAYROLL", "VENDOR"}),
		EED:  rng.Pick(r, []string{"190816", "190817"}),
		ODFI: rng.Pick(r, []string{"12104288", "07640125"}),
	}
}

func variant(r *rng.R, h BatchSpec) BatchSpec {
	v := h
	switch r.Intn(8) {
	case 0:
		v.Desc = "BONUS"
	case 1:
		v.EED = "190901"
	case 2:
		if r.Bool() {
			v.Name = strings.ToUpper(h.Name)
		} else {
			v.Name = strings.ToLower(h.Name)
		}
	case 3:
		v.CID = "555555555"
	}
	return v
}

const foreignPrefix = "99887766"

func genCase(r *rng.R) Case {
	c := Case{Kind: "opts"}
	nf := r.Range(1, 5)
	nroutes := r.Range(1, 2)
	var rts []route
	for i := 0; i < nroutes; i++ {
		rts = append(rts, routePool[r.Intn(len(routePool))])
	}
	pool := []BatchSpec{baseHeader(r)}
	if r.Bool() {
		pool = append(pool, baseHeader(r))
	}
	seqPool := r.Range(3, 9)
	nextID, nextRest := 1, 1
	for i := 0; i < nf; i++ {
		rt := rts[r.Intn(len(rts))]
		f := FileSpec{Origin: rt.origin, Dest: rt.dest, HID: i + 1, Opts: randOpts(r)}
		if rt.need != "" {
			f.Opts.set(rt.need)
		}
		nb := r.Range(1, 3)
		for j := 0; j < nb; j++ {
			h := variant(r, rng.Pick(r, pool))
			h.Rest = nextRest
			nextRest++
			switch r.Intn(20) {
			case 0, 1, 2, 3, 4, 5, 6, 7, 8:
				h.Mode = "file"
			case 9, 10, 11, 12:
				h.Mode = "nil"
			default:
				h.Mode = "own"
				h.Own = randOpts(r)
			}
			// features that need an option on the batch: decided first, the option is then added where the batch stores it
			wantForeign := r.Chance(1, 4)
			wantUnordered := r.Chance(1, 8)
			wantBadCheck := r.Chance(1, 8)
			wantZero := r.Chance(1, 10)
			wantSpecial := r.Chance(1, 10)
			need := func(name string) bool {
				st := h.stored(f)
				if st.has(name) {
					return true
				}
				switch h.Mode {
				case "file":
					f.Opts.set(name)
					return true
				case "own":
					h.Own.set(name)
					return true
				}
				return false
			}
			st := h.stored(f)
			foreign := false
			if wantForeign {
				if st.has("BypassOriginValidation") || st.has("CustomTraceNumbers") {
					foreign = true
				} else if r.Chance(1, 2) {
					foreign = need(rng.Pick(r, []string{"BypassOriginValidation", "CustomTraceNumbers"}))
				} else {
					// foreign trace numbers the batch is NOT validated for: MergeFilesWith renumbers them
					// unless the file-level options keep them
					foreign, h.Raw = true, true
				}
			} else if st.has("BypassOriginValidation") || st.has("CustomTraceNumbers") {
				foreign = r.Chance(1, 2)
			}
			unordered := wantUnordered && (st.has("CustomTraceNumbers") || need("CustomTraceNumbers"))
			badCheck := wantBadCheck && need("AllowInvalidCheckDigit")
			zero := wantZero && need("AllowZeroEntryAmount")
			prenote := h.SEC != ach.CTX && r.Chance(1, 10) && need("AllowInvalidAmounts")
			catxOff := h.SEC == ach.CTX && r.Chance(1, 4) && need("UnequalAddendaCounts")
			if wantSpecial && need("AllowSpecialCharacters") {
				h.Name = strings.Replace(h.Name, " ", "™ ", 1)
			}
			ne := r.Range(1, 4)
			seqs := map[int]bool{}
			for len(seqs) < ne && len(seqs) < seqPool {
				seqs[r.Range(1, seqPool)] = true
			}
			var ks []int
			for k := range seqs {
				ks = append(ks, k)
			}
			sort.Ints(ks)
			if unordered {
				for a, b := 0, len(ks)-1; a < b; a, b = a+1, b-1 {
					ks[a], ks[b] = ks[b], ks[a]
				}
			}
			short := foreign && !h.Raw && r.Chance(1, 3) // the whole batch numbers its entries "7", "12", ... (valid under the same options)
			for _, k := range ks {
				e := EntrySpec{Seq: k, ID: nextID, Amount: r.Range(1, 300)}
				nextID++
				if foreign && (h.Raw || r.Chance(3, 4)) {
					e.Prefix = foreignPrefix
				}
				if short {
					e.Prefix = shortPrefix
				}
				if h.Raw && r.Chance(1, 3) {
					e.Prefix = "" // a raw batch may mix native and foreign entries
				}
				switch h.SCC {
				case 225:
					e.Debit = true
				case 200:
					e.Debit = r.Chance(1, 3)
				}
				if r.Chance(1, 3) {
					e.Addenda = 1
					if h.SEC == ach.CTX {
						e.Addenda = r.Range(1, 3)
					}
				}
				e.BadCheck = badCheck && r.Bool()
				if zero && r.Chance(1, 2) {
					e.Amount = 0
				} else if prenote && r.Chance(1, 2) {
					e.Prenote = true
				}
				if catxOff && r.Chance(2, 3) {
					e.CatxOff = r.Range(1, 4)
				}
				h.Entries = append(h.Entries, e)
			}
			if !unordered {
				// ascending trace numbers (the foreign prefix sorts after the ODFIs used here)
				sort.SliceStable(h.Entries, func(a, b int) bool { return traceOf(h, h.Entries[a]) < traceOf(h, h.Entries[b]) })
			}
			if h.Raw {
				anyForeign := false
				for _, e := range h.Entries {
					anyForeign = anyForeign || e.Prefix != ""
				}
				if !anyForeign {
					h.Entries[0].Prefix = foreignPrefix
				}
				// raw batches keep ascending input order irrelevant: entries are sorted by the tree-map anyway
			}
			f.Batches = append(f.Batches, h)
		}
		c.Files = append(c.Files, f)
	}
	switch r.Intn(6) {
	case 0:
		c.MaxLines = r.Range(4, 12)
	case 1:
		c.MaxDollar = int64(r.Range(1, 600))
	case 2:
		c.MaxLines = ach.NACHAFileLineLimit
	}
	return c
}

// fixed cases: the witnesses of coq/Oblig/C08OptsObl.v and of the fixed defects
func fixedCases() []Case {
	h := BatchSpec{SCC: 220, Name: "Acme", CID: "121042882", SEC: ach.PPD, Desc: "PAYROLL", EED: "190816", ODFI: "12104288"}
	ent := func(prefix string, seq, id int) EntrySpec {
		return EntrySpec{Prefix: prefix, Seq: seq, Amount: 100, ID: id}
	}
	bat := func(rest int, mode string, own OptSpec, raw bool, es ...EntrySpec) BatchSpec {
		b := h
		b.Rest, b.Mode, b.Own, b.Raw, b.Entries = rest, mode, own, raw, es
		return b
	}
	file := func(hid int, o OptSpec, bs ...BatchSpec) FileSpec {
		return FileSpec{Origin: "121042882", Dest: "231380104", HID: hid, Opts: o, Batches: bs}
	}
	none := OptSpec{Nil: true}
	with := func(names ...string) OptSpec {
		var o OptSpec
		for _, n := range names {
			o.set(n)
		}
		return o
	}
	ctc := func(k int) OptSpec { return OptSpec{CTC: k} }
	mk := func(label string, ml int, fs ...FileSpec) Case {
		return Case{Kind: "opts", Label: label, Files: fs, MaxLines: ml}
	}
	by := with("BypassOriginValidation")
	cu := with("CustomTraceNumbers")
	am := with("AllowInvalidAmounts", "AllowZeroEntryAmount")
	bd := with("BypassDestinationValidation")
	four := file(1, bd, bat(1, "file", none, false, ent("", 1, 1), ent("", 2, 2), ent("", 3, 3), ent("", 4, 4)))
	four.Dest = "123456789"
	return []Case{
		mk("ex_bypass_joins_plain", 0, file(1, none, bat(1, "nil", none, false, ent("", 1, 1), ent("", 2, 2))), file(2, by, bat(2, "file", none, false, ent(foreignPrefix, 5, 3)))),
		mk("ex_traces_rewritten_without_opts", 0, file(1, none, bat(1, "nil", none, false, ent("", 1, 1), ent("", 2, 2))), file(2, none, bat(2, "nil", none, true, ent(foreignPrefix, 5, 3)))),
		mk("ex_rewrite_breaks_order", 0, file(1, none, bat(1, "nil", none, false, ent("", 7, 1), ent("", 9, 2))), file(2, none, bat(2, "nil", none, true, ent(foreignPrefix, 5, 3)))),
		mk("ex_overflow_files_keep_options", 6, four),
		mk("ex_batch_options_kept", 0, file(1, none, bat(1, "own", by, false, ent(foreignPrefix, 5, 1), ent(foreignPrefix, 7, 2)))),
		mk("ex_union", 0, file(1, am, bat(1, "file", none, false, ent("", 1, 1))), file(2, cu, bat(2, "file", none, false, ent("", 2, 2))), file(3, OptSpec{}, bat(3, "file", none, false, ent("", 2, 3)))),
		mk("ex_order_ctc", 0, file(1, ctc(1), bat(1, "file", none, false, ent("", 1, 1))), file(2, ctc(2), bat(2, "file", none, false, ent("", 2, 2)))),
		mk("ex_order_ctc_swapped", 0, file(2, ctc(2), bat(2, "file", none, false, ent("", 2, 2))), file(1, ctc(1), bat(1, "file", none, false, ent("", 1, 1)))),
		mk("ex_order_batch_flags", 0, file(1, am, bat(1, "file", none, false, ent("", 1, 1))), file(2, cu, bat(2, "file", none, false, ent("", 1, 2), ent("", 2, 3)))),
		mk("ex_order_batch_flags_swapped", 0, file(2, cu, bat(2, "file", none, false, ent("", 1, 2), ent("", 2, 3))), file(1, am, bat(1, "file", none, false, ent("", 1, 1)))),
	}
}

// ---------------------------------------------------------------- correspondence

func corr(args []string) {
	fs := flag.NewFlagSet("corr", flag.ExitOnError)
	out := fs.String("out", "", "output directory")
	n := fs.Int("n", 2000, "generated cases")
	fs.Parse(args)
	cases := hx.Create(filepath.Join(*out, "cases.txt"))
	impl := hx.Create(filepath.Join(*out, "impl.txt"))
	js := hx.Create(filepath.Join(*out, "cases.jsonl"))
	done, skipped := 0, 0
	dist := map[string]int{}
	emit := func(c Case) {
		files, err := buildFiles(c)
		if err != nil {
			skipped++
			why := err.Error()
			if i := strings.Index(why, ")"); i >= 0 && i+25 < len(why) {
				why = why[i+1 : i+25]
			} else if len(why) > 40 {
				why = why[len(why)-40:]
			}
			dist["skip:"+strings.TrimSpace(why)]++
			return
		}
		o, e, p := mergeGuarded(files, c)
		obs := observe(o, e, p)
		cases.Printf("%s\n", caseLine(c))
		impl.Printf("%s\n", obs)
		j, _ := json.Marshal(c)
		js.Printf("%s\n", j)
		done++
		for _, k := range classify(c, o, obs) {
			dist[k]++
		}
	}
	for _, c := range fixedCases() {
		emit(c)
	}
	r := rng.FromEnv(8808)
	for i := 0; i < *n; i++ {
		emit(genCase(r))
	}
	cases.Close()
	impl.Close()
	js.Close()
	j, _ := json.Marshal(map[string]any{"cases": done, "skipped": skipped, "distribution": dist})
	fmt.Println(string(j))
}

// classify names what a case exercises (evidence distribution)
func classify(c Case, out []*ach.File, obs string) []string {
	var ks []string
	if obs == "ERR" {
		ks = append(ks, "result:error")
	}
	if !c.validated() {
		ks = append(ks, "input:raw-foreign-traces")
	}
	seen := map[string]map[string]bool{}
	batchLevel, overflow := false, false
	for _, f := range c.Files {
		rt := f.Origin + ">" + f.Dest
		if seen[rt] == nil {
			seen[rt] = map[string]bool{}
		}
		seen[rt][specToken(f.Opts)] = true
		for _, b := range f.Batches {
			if b.Mode != "file" && specToken(b.stored(f)) != specToken(f.Opts) {
				batchLevel = true
			}
		}
	}
	for _, m := range seen {
		if len(m) > 1 {
			ks = append(ks, "input:different-options-in-one-routing-pair")
			break
		}
	}
	if batchLevel {
		ks = append(ks, "input:batch-options-differ-from-file")
	}
	if len(out) > len(seen) {
		overflow = true
	}
	if overflow {
		ks = append(ks, "result:limit-splits-a-file")
	}
	return ks
}

// ---------------------------------------------------------------- oracle

type failure struct {
	Kind string `json:"kind"`
	Key  string `json:"key"`
	What string `json:"what"`
	Case Case   `json:"case"`
}

func subset(a, b []bool) bool {
	for i := range a {
		if a[i] && (i >= len(b) || !b[i]) {
			return false
		}
	}
	return true
}

func orInto(acc []bool, x []bool) []bool {
	if acc == nil {
		acc = make([]bool, len(boolFields))
	}
	for i := range x {
		if x[i] {
			acc[i] = true
		}
	}
	return acc
}

func hkeyOf(h *ach.BatchHeader) string {
	return fmt.Sprintf("%d|%s|%s|%s|%s|%s|%s", h.ServiceClassCode, strings.ToUpper(h.CompanyName), h.CompanyIdentification,
		h.StandardEntryClassCode, h.CompanyEntryDescription, h.EffectiveEntryDate, h.ODFIIdentification)
}

type inEntry struct {
	route string
	trace string
	bits  []bool // boolean fields of file options merged with the batch's stored options
	any   bool   // some option value is not nil
	ctc   bool
}

// checkCase evaluates the option properties directly on the real MergeFilesWith.
func checkCase(c Case, r *rng.R) (fails []failure, trivial bool) {
	put := func(key, what string) {
		fails = append(fails, failure{Kind: "fail", Key: key, What: what, Case: c})
	}
	files, err := buildFiles(c)
	if err != nil {
		return nil, true // not an input of the property
	}
	// snapshot BEFORE the call
	ins := map[int]inEntry{}
	fileBits := map[string][]bool{}
	fileAny := map[string]bool{}
	keyBits := map[string][]bool{} // routing pair + header key -> union over the input batches
	for _, f := range files {
		rt := f.Header.ImmediateOrigin + ">" + f.Header.ImmediateDestination
		fo := f.GetValidation()
		fileBits[rt] = orInto(fileBits[rt], bitsOf(fo))
		fileAny[rt] = fileAny[rt] || fo != nil
		for _, bt := range f.Batches {
			bo := ach.VerifBatchValidation(bt)
			bits := orInto(orInto(nil, bitsOf(fo)), bitsOf(bo))
			if len(bt.GetEntries()) > 0 {
				k := rt + "|" + hkeyOf(bt.GetHeader())
				keyBits[k] = orInto(keyBits[k], bits)
			}
			for _, e := range bt.GetEntries() {
				ins[marker(e.IdentificationNumber, "E")] = inEntry{rt, e.TraceNumber, bits, fo != nil || bo != nil,
					(fo != nil && fo.CheckTransactionCode != nil) || (bo != nil && bo.CheckTransactionCode != nil)}
			}
		}
	}
	collision := false
	seenTrace := map[string]bool{}
	for _, f := range files {
		rt := f.Header.ImmediateOrigin + ">" + f.Header.ImmediateDestination
		for _, bt := range f.Batches {
			for _, e := range bt.GetEntries() {
				k := rt + "|" + hkeyOf(bt.GetHeader()) + "|" + e.TraceNumber
				collision = collision || seenTrace[k]
				seenTrace[k] = true
			}
		}
	}
	out, merr, p := mergeGuarded(files, c)
	if p != nil {
		put("merge:panic", fmt.Sprint(p))
		return
	}
	if merr != nil {
		if c.validated() {
			put("merge:error-on-valid-input-with-options", "MergeFilesWith fails on files that are valid under the options stored on them: "+merr.Error())
		}
		return
	}
	found := 0
	for _, g := range out {
		rt := g.Header.ImmediateOrigin + ">" + g.Header.ImmediateDestination
		go_ := g.GetValidation()
		if !subset(fileBits[rt], bitsOf(go_)) || (fileAny[rt] && go_ == nil) {
			put("opts:file-union", fmt.Sprintf("an output file of routing pair %s lacks options of an input file of that pair: has %s", rt, optToken(go_)))
		}
		if !subset(bitsOf(go_), fileBits[rt]) || (!fileAny[rt] && go_ != nil) {
			put("opts:file-invented", fmt.Sprintf("an output file of routing pair %s holds an option no input file of that pair holds: %s", rt, optToken(go_)))
		}
		if c.validated() {
			if err := g.Validate(); err != nil {
				put("opts:output-invalid", "an output file of valid inputs fails its own Validate(): "+err.Error())
			}
		}
		for _, bt := range g.Batches {
			bo := ach.VerifBatchValidation(bt)
			for _, e := range bt.GetEntries() {
				id := marker(e.IdentificationNumber, "E")
				in, ok := ins[id]
				if !ok {
					put("opts:unknown-entry", fmt.Sprintf("output entry %d is no input entry", id))
					continue
				}
				found++
				if in.route != rt {
					put("opts:route", fmt.Sprintf("entry %d moved to another routing pair", id))
				}
				if !subset(in.bits, bitsOf(bo)) || (in.any && bo == nil) || (in.ctc && (bo == nil || bo.CheckTransactionCode == nil)) {
					put("opts:batch-union", fmt.Sprintf("entry %d sits in an output batch that lacks options its input batch was validated with: batch has %s", id, optToken(bo)))
				}
				if c.validated() && e.TraceNumber != in.trace {
					put("opts:trace-changed", fmt.Sprintf("entry %d: trace number %s became %s although its batch was valid under the stored options", id, in.trace, e.TraceNumber))
				}
			}
			if !collision && !subset(keyBits[rt+"|"+hkeyOf(bt.GetHeader())], bitsOf(bo)) {
				put("opts:batch-incomplete-without-collision", fmt.Sprintf("no trace numbers collide, yet an output batch lacks an option of an input batch with its routing pair and header key: has %s", optToken(bo)))
			}
			if !subset(bitsOf(bo), keyBits[rt+"|"+hkeyOf(bt.GetHeader())]) {
				put("opts:batch-invented", fmt.Sprintf("an output batch holds an option no input batch of its routing pair and header key was validated with: %s", optToken(bo)))
			}
		}
	}
	if found != len(ins) {
		put("opts:entries-lost", fmt.Sprintf("%d input entries, %d found in the outputs", len(ins), found))
	}
	// the file options do not depend on the input order
	if len(c.Files) > 1 {
		pc := c
		pc.Files = append([]FileSpec(nil), c.Files...)
		for i := len(pc.Files) - 1; i > 0; i-- {
			j := r.Intn(i + 1)
			pc.Files[i], pc.Files[j] = pc.Files[j], pc.Files[i]
		}
		if pf, err := buildFiles(pc); err == nil {
			if po, perr, pp := mergeGuarded(pf, pc); perr == nil && pp == nil {
				a, b := map[string]string{}, map[string]string{}
				tok := func(v *ach.ValidateOpts) string {
					t := optToken(v)
					if i := strings.IndexByte(t, ':'); i >= 0 {
						has := "f"
						if v.CheckTransactionCode == nil {
							has = "n"
						}
						return t[:i] + ":" + has
					}
					return t
				}
				for _, g := range out {
					a[g.Header.ImmediateOrigin+">"+g.Header.ImmediateDestination] = tok(g.GetValidation())
				}
				for _, g := range po {
					b[g.Header.ImmediateOrigin+">"+g.Header.ImmediateDestination] = tok(g.GetValidation())
				}
				for k, v := range a {
					if b[k] != v {
						put("opts:file-order", fmt.Sprintf("routing pair %s: file options %s, after permuting the inputs %s", k, v, b[k]))
					}
				}
			} else if c.validated() && perr != nil {
				put("merge:error-on-valid-input-with-options", "after permuting the inputs: "+perr.Error())
			}
		}
	}
	return
}

// witnesses re-checks on the real code the two refutation witnesses of
// C08_opts_order_independent_refuted (coq/Oblig/C08OptsObl.v).
func witnesses() (fails []failure) {
	fc := map[string]Case{}
	for _, c := range fixedCases() {
		fc[c.Label] = c
	}
	run := func(label string) []*ach.File {
		c := fc[label]
		fs, err := buildFiles(c)
		if err != nil {
			return nil
		}
		out, err, p := mergeGuarded(fs, c)
		if err != nil || p != nil {
			return nil
		}
		return out
	}
	a, b := run("ex_order_ctc"), run("ex_order_ctc_swapped")
	if len(a) != 1 || len(b) != 1 || a[0].GetValidation() == nil || b[0].GetValidation() == nil ||
		ctcID(a[0].GetValidation().CheckTransactionCode) != 2 || ctcID(b[0].GetValidation().CheckTransactionCode) != 1 {
		fails = append(fails, failure{Kind: "fail", Key: "opts:refutation-witness-ctc-not-reproduced",
			What: "the model's witness (the CheckTransactionCode of the last file wins) does not show on the real code", Case: fc["ex_order_ctc"]})
	}
	flagAt := func(out []*ach.File, id int, name string) string {
		s := ""
		for _, g := range out {
			for _, bt := range g.Batches {
				for _, e := range bt.GetEntries() {
					if marker(e.IdentificationNumber, "E") == id {
						bits := bitsOf(ach.VerifBatchValidation(bt))
						if bits != nil && bits[flagIx(name)] {
							s += "1"
						} else {
							s += "0"
						}
					}
				}
			}
		}
		return s
	}
	x, y := run("ex_order_batch_flags"), run("ex_order_batch_flags_swapped")
	if flagAt(x, 1, "CustomTraceNumbers") != "1" || flagAt(y, 1, "CustomTraceNumbers") != "0" {
		fails = append(fails, failure{Kind: "fail", Key: "opts:refutation-witness-batch-not-reproduced",
			What: "the model's witness (colliding trace numbers: the options of an entry's batch depend on the input order) does not show on the real code", Case: fc["ex_order_batch_flags"]})
	}
	return
}

func corpusCases(dir string) []Case {
	var out []Case
	if dir == "" {
		return out
	}
	names, _ := filepath.Glob(filepath.Join(dir, "*.json"))
	sort.Strings(names)
	for _, p := range names {
		b, err := os.ReadFile(p)
		if err != nil {
			continue
		}
		var rp struct {
			Input *Case `json:"input"`
		}
		if json.Unmarshal(b, &rp) == nil && rp.Input != nil && rp.Input.Kind == "opts" {
			out = append(out, *rp.Input)
		}
	}
	return out
}

func oracle(args []string) {
	fs := flag.NewFlagSet("oracle", flag.ExitOnError)
	outDir := fs.String("out", "", "output directory")
	n := fs.Int("n", 1500, "generated cases")
	corpus := fs.String("corpus", "", "corpus directory (cases run first)")
	fs.Parse(args)
	w := hx.Create(filepath.Join(*outDir, "oracle.jsonl"))
	defer w.Close()
	evals, distinct := 0, 0
	dist := map[string]int{}
	var samples []map[string]any
	seen := map[string]bool{}
	r := rng.FromEnv(8818)
	pr := rng.FromEnv(8819)
	reported := map[string]int{}
	run := func(c Case) {
		fails, trivial := checkCase(c, pr)
		if trivial {
			dist["skipped-not-buildable"]++
			return
		}
		evals++
		line := caseLine(c)
		nontrivial := false
		for _, f := range c.Files {
			if !f.Opts.Nil {
				nontrivial = true
			}
			for _, b := range f.Batches {
				if !b.stored(f).Nil {
					nontrivial = true
				}
			}
		}
		if nontrivial && !seen[line] {
			seen[line] = true
			distinct++
		}
		if c.validated() {
			dist["validated-inputs"]++
		} else {
			dist["raw-inputs"]++
		}
		if c.MaxLines > 0 || c.MaxDollar > 0 {
			dist["with-limits"]++
		}
		if len(samples) < 3 && nontrivial {
			samples = append(samples, map[string]any{"label": c.Label, "files": len(c.Files), "case": line[:min(len(line), 300)]})
		}
		for _, f := range fails {
			if reported[f.Key] < 3 {
				reported[f.Key]++
				j, _ := json.Marshal(f)
				w.Printf("%s\n", j)
			}
			dist["fail:"+f.Key]++
		}
	}
	for _, c := range corpusCases(*corpus) {
		run(c)
	}
	for _, c := range fixedCases() {
		run(c)
	}
	for _, f := range witnesses() {
		j, _ := json.Marshal(f)
		w.Printf("%s\n", j)
	}
	for i := 0; i < *n; i++ {
		run(genCase(r))
	}
	sum := map[string]any{"kind": "summary", "evaluations": evals, "distinct_nontrivial": distinct,
		"rule":         "a case counts as non-trivial when some input file or batch carries a non-nil ValidateOpts value; distinct = different model input lines",
		"distribution": dist, "samples": samples}
	j, _ := json.Marshal(sum)
	w.Printf("%s\n", j)
}

func replay(args []string) {
	if len(args) < 1 {
		fmt.Fprintln(os.Stderr, "usage: c08opts replay <file>")
		os.Exit(2)
	}
	b, err := os.ReadFile(args[0])
	if err != nil {
		fmt.Fprintln(os.Stderr, err)
		os.Exit(2)
	}
	var rp struct {
		Input *Case `json:"input"`
	}
	if err := json.Unmarshal(b, &rp); err != nil || rp.Input == nil {
		fmt.Println("replay file carries no input (obligation / correspondence failure): nothing to run")
		os.Exit(0)
	}
	fails, trivial := checkCase(*rp.Input, rng.FromEnv(8819))
	if trivial {
		fmt.Println("the input files cannot be built under their options: not an input of the property")
		os.Exit(0)
	}
	fails = append(fails, witnesses()...)
	for _, f := range fails {
		j, _ := json.Marshal(f)
		fmt.Println(string(j))
	}
	if len(fails) > 0 {
		os.Exit(1)
	}
	fmt.Println("no failure on this input")
}

// Command c20enr: correspondence cases for the ENR / DNE payment-information path of
// property C20 (phase 2): the PaymentRelatedInformation cell that describe.File prints for
// the Addenda05 records of ENR and DNE batches - parse, mask the parsed fields, print
// String() - against the extracted Coq model (Model/PaymentInfo.v).
//
// Channels (first token of a case line):
//
//	E / D  describe.File on a generated valid ENR / DNE file whose Addenda05 records carry the
//	       case's payment information; the cell is cut out of the tabulated output
//	S / T  the public functions directly: Parse…PaymentInformation, the mask functions
//	       (verif hook) applied to the parsed fields as dumpAddenda05 does, String();
//	       this channel also carries bytes text/tabwriter would interpret (\t, 0xff)
package main

import (
	"bytes"
	"encoding/json"
	"flag"
	"fmt"
	"os"
	"path/filepath"
	"sort"
	"strings"

	"github.com/moov-io/ach"
	"github.com/moov-io/ach/cmd/achcli/describe"

	"verifharness/internal/gen"
	"verifharness/internal/hx"
	"verifharness/internal/rng"
)

func main() {
	if len(os.Args) < 2 {
		fmt.Fprintln(os.Stderr, "usage: c20enr corr|oracle|replay ...")
		os.Exit(2)
	}
	switch os.Args[1] {
	case "corr":
		corr(os.Args[2:])
	case "oracle":
		oracle(os.Args[2:])
	case "replay":
		replay(os.Args[2:])
	default:
		fmt.Fprintln(os.Stderr, "unknown mode")
		os.Exit(2)
	}
}

// ---------------------------------------------------------------- payment strings

// symbols for values; none of them is interpreted by text/tabwriter
var valueSyms = []string{"0", "1", "2", "3", "4", "5", "6", "7", "8", "9", "A", "B", "q", "Z", " ", " ", "-", ".", "é", "Ñ", "€", "\x93", "\xc3", "\xe2\x82"}

// additionally for the direct channel
var wildSyms = []string{"\t", "\xff", " ", " ", "\u0085", "\v", "\xa0", "\x85"}

type picker struct {
	r    *rng.R
	wild bool
}

func (p picker) sym() string {
	if p.wild && p.r.Chance(1, 6) {
		return rng.Pick(p.r, wildSyms)
	}
	return rng.Pick(p.r, valueSyms)
}

func (p picker) value(l int) string {
	var b strings.Builder
	shape := p.r.Intn(5)
	for j := 0; j < l; j++ {
		switch {
		case shape == 0 && j < 3:
			b.WriteString(" ")
		case shape == 1:
			b.WriteString(rng.Pick(p.r, valueSyms[:10]))
		default:
			b.WriteString(p.sym())
		}
	}
	return b.String()
}

// words: n words of 1..9 symbols separated by single (sometimes double) blanks
func (p picker) words(n int) string {
	var b strings.Builder
	for i := 0; i < n; i++ {
		if i > 0 {
			b.WriteString(" ")
			if p.r.Chance(1, 8) {
				b.WriteString(" ")
			}
		}
		wl := p.r.Range(1, 9)
		for j := 0; j < wl; j++ {
			s := p.sym()
			if s == " " {
				s = "x"
			}
			b.WriteString(s)
		}
	}
	return b.String()
}

// runesOf builds a string of exactly n symbols from the pattern (cycled), with one
// multi-byte symbol placed at position mb (if 0 <= mb < n).
func patterned(n int, mb int, multi string) string {
	var b strings.Builder
	for i := 0; i < n; i++ {
		switch {
		case i == mb:
			b.WriteString(multi)
		case i%6 == 5:
			b.WriteString(" ")
		default:
			b.WriteByte(byte('A' + i%26))
		}
	}
	return b.String()
}

func (p picker) txCode() string {
	if p.r.Chance(1, 6) {
		return rng.Pick(p.r, []string{"+5", "-0", "007", "", "x2", "2 2", "9223372036854775807", "9223372036854775808", "-9223372036854775808", "-9223372036854775809", "0000000000000000000022", "+", "-", "２２"})
	}
	return rng.Pick(p.r, []string{"22", "27", "32", "37"})
}

func (p picker) classCode() string {
	if p.r.Chance(1, 8) {
		return rng.Pick(p.r, []string{"", "BB", "é", "K", "Ｂ", " B", "0", "1"})
	}
	return rng.Pick(p.r, []string{"A", "B", "b", "A", "B"})
}

func assemble(parts []string, p picker) string {
	// occasionally a part too few / too many, a missing or doubled terminator
	switch {
	case p.r.Chance(1, 25):
		parts = parts[:len(parts)-1]
	case p.r.Chance(1, 25):
		parts = append(parts, "X")
	}
	s := strings.Join(parts, "*")
	switch {
	case p.r.Chance(1, 20):
		return s
	case p.r.Chance(1, 25):
		return s + `\\`
	}
	return s + `\`
}

func (p picker) enr() string {
	sur, first := p.words(p.r.Range(1, 3)), p.words(p.r.Range(0, 2))
	code := p.classCode()
	if p.r.Chance(1, 3) {
		// a business-style name stretched over the two fields (any split point)
		name := p.words(p.r.Range(1, 5))
		rs := []rune(name)
		cut := p.r.Range(0, len(rs))
		if p.r.Bool() && len(rs) > 15 {
			cut = 15
		}
		sur, first = string(rs[:cut]), string(rs[cut:])
		if p.r.Chance(3, 4) {
			code = rng.Pick(p.r, []string{"B", "b"})
		}
	}
	parts := []string{p.txCode(), p.value(p.r.Range(0, 9)), p.value(p.r.Range(0, 2)), p.value(p.r.Range(0, 20)), p.value(p.r.Range(0, 12)), sur, first, code}
	return assemble(parts, p)
}

func (p picker) date() string {
	if p.r.Chance(1, 3) {
		return rng.Pick(p.r, []string{"0102+5", "0102-5", "0229-4", "0229-5", "022900", "022901", "022996", "022997", "043118", "043018", "013118", "000118", "010018", "130118", "0102++", "0102 5", "01025", "0102185", "", "ABCDEF", "1231+0", "123169", "123168", "02296!", "0a0118"})
	}
	return fmt.Sprintf("%02d%02d%02d", p.r.Range(0, 13), p.r.Range(0, 32), p.r.Range(0, 99))
}

func (p picker) dne() string {
	parts := []string{"DATE OF DEATH", p.date(), "CUSTOMER SSN", p.value(p.r.Range(0, 12)), "AMOUNT", p.value(p.r.Range(0, 10))}
	if p.r.Chance(1, 10) {
		parts[0], parts[2], parts[4] = p.value(3), "", "amount"
	}
	return assemble(parts, p)
}

// sweepENR: every account / identification length, every name length around the 15 / 22
// column limits with a multi-byte character at each interesting position.
func sweepENR() []string {
	var out []string
	for l := 0; l <= 20; l++ {
		acct := "86429753108642975310"[:l]
		out = append(out, fmt.Sprintf(`22*12200004*3*%s*%s*DOE*JOHN*A\`, acct, "  "+acct))
		out = append(out, fmt.Sprintf(`27*12200004*3*%s*%sé*DOE*JOHN*B\`, "é"+acct, acct))
	}
	for n := 0; n <= 26; n++ {
		for _, mb := range []int{-1, 0, 1, 13, 14, 15, 16, 21} {
			for _, multi := range []string{"é", "€", "\x93"} {
				if mb < 0 && multi != "é" {
					continue
				}
				name := []rune(patterned(n, mb, multi))
				if multi == "\x93" {
					// keep the invalid byte: work on bytes around it
					s := patterned(n, mb, "\x00")
					cut := n
					if cut > 15 {
						cut = 15
					}
					a, b := s[:cut], s[cut:]
					a, b = strings.ReplaceAll(a, "\x00", multi), strings.ReplaceAll(b, "\x00", multi)
					out = append(out, fmt.Sprintf(`22*12200004*3*123456789*987654321*%s*%s*B\`, a, b))
					continue
				}
				cut := len(name)
				if cut > 15 {
					cut = 15
				}
				out = append(out, fmt.Sprintf(`22*12200004*3*123456789*987654321*%s*%s*B\`, string(name[:cut]), string(name[cut:])))
				out = append(out, fmt.Sprintf(`22*12200004*3*123456789*987654321*%s*%s*A\`, string(name[:cut]), string(name[cut:])))
			}
		}
	}
	// 1..5 words, consumer and business, plain and multi-byte
	ws := []string{"VANDERBILT", "Ñandú", "DE", "LA", "€uroland", "O", "Smith-Jones"}
	for n := 1; n <= 5; n++ {
		for k := 0; k <= n; k++ {
			sur, first := strings.Join(ws[:k], " "), strings.Join(ws[k:n], " ")
			for _, code := range []string{"A", "B", "1"} {
				out = append(out, fmt.Sprintf(`32*12200004*3*0012345678*123-45-6789*%s*%s*%s\`, sur, first, code))
			}
		}
	}
	return out
}

func sweepDNE() []string {
	var out []string
	for l := 0; l <= 12; l++ {
		for lead := 0; lead <= 3; lead++ {
			out = append(out, fmt.Sprintf(`DATE OF DEATH*010218*CUSTOMER SSN*%s%s*AMOUNT*$$$$.cc\`, strings.Repeat(" ", lead), "864297531086"[:l]))
		}
	}
	for m := 0; m <= 13; m++ {
		for _, d := range []int{0, 1, 28, 29, 30, 31, 32} {
			for _, y := range []string{"00", "01", "04", "68", "69", "96", "99", "-4", "+4", "-1"} {
				out = append(out, fmt.Sprintf(`DATE OF DEATH*%02d%02d%s*CUSTOMER SSN*123456789*AMOUNT*1.00\`, m, d, y))
			}
		}
	}
	return out
}

// ---------------------------------------------------------------- the implementation

func describeWith(f *ach.File, names, accts bool) (out string, panicked any) {
	defer func() {
		if r := recover(); r != nil {
			panicked = r
		}
	}()
	var buf bytes.Buffer
	describe.File(&buf, f, &describe.Opts{MaskNames: names, MaskAccountNumbers: accts})
	return buf.String(), nil
}

// cells returns the PaymentRelatedInformation cells of the output, in order, without the
// padding text/tabwriter adds (trailing blanks are dropped on both sides of the comparison).
func cells(out string) []string {
	var res []string
	lines := strings.Split(out, "\n")
	for i := 0; i+1 < len(lines); i++ {
		if !strings.HasPrefix(strings.TrimLeft(lines[i], " "), "PaymentRelatedInformation") {
			continue
		}
		l := lines[i+1]
		if len(l) < 6 {
			res = append(res, "?short")
			continue
		}
		l = strings.TrimRight(l[6:], " ")
		// the last two columns are numeric
		for k := 0; k < 2; k++ {
			j := strings.LastIndexByte(l, ' ')
			if j < 0 {
				break
			}
			l = strings.TrimRight(l[:j], " ")
		}
		res = append(res, l)
		i++
	}
	return res
}

func addenda05s(f *ach.File) []*ach.Addenda05 {
	var res []*ach.Addenda05
	for _, b := range f.Batches {
		for _, e := range b.GetEntries() {
			for _, a := range e.Addenda05 {
				if a != nil {
					res = append(res, a)
				}
			}
		}
	}
	return res
}

func wf(ok bool) int {
	if ok {
		return 1
	}
	return 0
}

func parsesENR(pri string) (ok bool) {
	defer func() { recover() }()
	a := ach.NewAddenda05()
	a.PaymentRelatedInformation = pri
	info, _ := ach.ParseENRPaymentInformation(a)
	return info != nil
}

func parsesDNE(pri string) (ok bool) {
	defer func() { recover() }()
	a := ach.NewAddenda05()
	a.PaymentRelatedInformation = pri
	info, _ := ach.ParseDNEPaymentInformation(a)
	return info != nil
}

// directENR: the public functions with the masks applied to the parsed fields.
func directENR(pri string, names, accts bool) (res string) {
	defer func() {
		if r := recover(); r != nil {
			res = "panic"
		}
	}()
	a := ach.NewAddenda05()
	a.PaymentRelatedInformation = pri
	info, _ := ach.ParseENRPaymentInformation(a)
	if info == nil {
		return "0 -"
	}
	if names {
		info.IndividualName = describe.VerifMaskName(info.IndividualName)
	}
	if accts {
		info.IndividualIdentification = describe.VerifMaskNumber(info.IndividualIdentification)
		info.DFIAccountNumber = describe.VerifMaskNumber(info.DFIAccountNumber)
	}
	return "1 " + hx.Enc(info.String())
}

func directDNE(pri string, names, accts bool) (res string) {
	defer func() {
		if r := recover(); r != nil {
			res = "panic"
		}
	}()
	a := ach.NewAddenda05()
	a.PaymentRelatedInformation = pri
	info, _ := ach.ParseDNEPaymentInformation(a)
	if info == nil {
		return "0 -"
	}
	if names || accts {
		info.CustomerSSN = describe.VerifMaskNumber(info.CustomerSSN)
	}
	return "1 " + hx.Enc(info.String())
}

// ---------------------------------------------------------------- corr

type stats struct {
	Cases    int            `json:"cases"`
	Distinct int            `json:"distinct"`
	Dist     map[string]int `json:"distribution"`
	Files    int            `json:"files"`
}

func corr(args []string) {
	fs := flag.NewFlagSet("corr", flag.ExitOnError)
	out := fs.String("out", "", "output directory")
	random := fs.Int("random", 1500, "random payment strings per SEC code and channel")
	fs.Parse(args)
	casesW := hx.Create(filepath.Join(*out, "cases.txt"))
	implW := hx.Create(filepath.Join(*out, "impl.txt"))
	st := stats{Dist: map[string]int{}}
	seen := map[string]bool{}
	r := rng.FromEnv(2021)

	classify := func(sec, pri string) {
		st.Cases++
		if !seen[sec+pri] {
			seen[sec+pri] = true
			st.Distinct++
		}
		switch {
		case sec == "ENR" && !parsesENR(pri), sec == "DNE" && !parsesDNE(pri):
			st.Dist[sec+":malformed"]++
		case sec == "ENR":
			parts := strings.Split(strings.TrimSuffix(pri, `\`), "*")
			if strings.EqualFold(parts[7], "B") {
				st.Dist["ENR:business"]++
			} else {
				st.Dist["ENR:consumer"]++
			}
			if len(pri) != len([]rune(pri)) {
				st.Dist["ENR:multibyte"]++
			}
		default:
			st.Dist["DNE:wellformed"]++
		}
	}

	// describe channel: groups of payment strings are placed on the Addenda05 records of
	// generated valid files of the SEC code
	runDescribe := func(sec string, pris []string) {
		tag := "E"
		if sec == "DNE" {
			tag = "D"
		}
		for len(pris) > 0 {
			f := gen.FileOfSEC(r.Fork(), sec, gen.Opts{Addenda: true, MaxEntries: 6, MinBatches: 1, MaxBatches: 3})
			st.Files++
			as := addenda05s(f)
			if len(as) == 0 {
				continue
			}
			n := len(as)
			if n > len(pris) {
				n = len(pris)
			}
			group := pris[:n]
			pris = pris[n:]
			for i := range as {
				// records beyond the group repeat its last string
				k := i
				if k >= n {
					k = n - 1
				}
				as[i].PaymentRelatedInformation = group[k]
			}
			for m := 0; m < 4; m++ {
				names, accts := m&1 != 0, m&2 != 0
				outText, p := describeWith(f, names, accts)
				cs := cells(outText)
				for i := 0; i < n; i++ {
					pri := group[i]
					casesW.Printf("%s %d%d %s\n", tag, wf(names), wf(accts), hx.Enc(pri))
					ok := parsesENR(pri)
					if sec == "DNE" {
						ok = parsesDNE(pri)
					}
					switch {
					case p != nil:
						implW.Printf("panic\n")
					case len(cs) != len(as):
						implW.Printf("?cells=%d addenda=%d\n", len(cs), len(as))
					default:
						implW.Printf("%d %s\n", wf(ok), hx.Enc(cs[i]))
					}
					if m == 0 {
						classify(sec, pri)
					}
				}
			}
		}
	}

	runDirect := func(sec string, pris []string) {
		for _, pri := range pris {
			for m := 0; m < 4; m++ {
				names, accts := m&1 != 0, m&2 != 0
				if sec == "ENR" {
					casesW.Printf("S %d%d %s\n", wf(names), wf(accts), hx.Enc(pri))
					implW.Printf("%s\n", directENR(pri, names, accts))
				} else {
					casesW.Printf("T %d%d %s\n", wf(names), wf(accts), hx.Enc(pri))
					implW.Printf("%s\n", directDNE(pri, names, accts))
				}
			}
			classify(sec, pri)
			st.Dist["direct"]++
		}
	}

	// the payment strings the generator itself puts on valid files (unchanged records)
	var own []string
	for i := 0; i < 6; i++ {
		for _, a := range addenda05s(gen.FileOfSEC(r.Fork(), "ENR", gen.Opts{Addenda: true})) {
			own = append(own, a.PaymentRelatedInformation)
		}
	}
	plain := picker{r: r}
	wild := picker{r: r, wild: true}
	enr := append(sweepENR(), own...)
	dne := sweepDNE()
	for i := 0; i < 6; i++ {
		for _, a := range addenda05s(gen.FileOfSEC(r.Fork(), "DNE", gen.Opts{Addenda: true})) {
			dne = append(dne, a.PaymentRelatedInformation)
		}
	}
	for i := 0; i < *random; i++ {
		enr = append(enr, plain.enr())
		dne = append(dne, plain.dne())
	}
	runDescribe("ENR", enr)
	runDescribe("DNE", dne)

	var enrW, dneW []string
	enrW = append(enrW, sweepENR()...)
	for i := 0; i < *random; i++ {
		enrW = append(enrW, wild.enr())
		dneW = append(dneW, wild.dne())
	}
	runDirect("ENR", enrW)
	runDirect("DNE", dneW)

	casesW.Close()
	implW.Close()
	fmt.Printf("{\"cases\":%d,\"distinct\":%d,\"files\":%d,\"distribution\":%s}\n", st.Cases, st.Distinct, st.Files, jsonMap(st.Dist))
}

func jsonMap(m map[string]int) string {
	var keys []string
	for k := range m {
		keys = append(keys, k)
	}
	// deterministic order
	for i := range keys {
		for j := i + 1; j < len(keys); j++ {
			if keys[j] < keys[i] {
				keys[i], keys[j] = keys[j], keys[i]
			}
		}
	}
	var b strings.Builder
	b.WriteString("{")
	for i, k := range keys {
		if i > 0 {
			b.WriteString(",")
		}
		fmt.Fprintf(&b, "%q:%d", k, m[k])
	}
	b.WriteString("}")
	return b.String()
}

// ---------------------------------------------------------------- oracle

// The property evaluated directly on the real code, for well-formed payment strings of both
// ENR branches (consumer / business) and DNE: with its flag on, no word (>= 3 bytes) of the
// name and its two components, no account / identification / SSN value with >= 5
// significant bytes may occur in the printed cell - unless it also occurs in the cell of the
// same payment string with the protected component replaced by a placeholder (then it is
// shown by another field).

type priCase struct {
	Class string `json:"class"` // pri-enr | pri-dne
	Value string `json:"value"` // the PaymentRelatedInformation text
}

type priFailure struct {
	Kind   string  `json:"kind"`
	Key    string  `json:"key"`
	What   string  `json:"what"`
	Flags  [2]bool `json:"flags"` // names, accounts
	Case   priCase `json:"case"`
	Secret string  `json:"secret"`
	Cell   string  `json:"cell"`
}

type cellPrinter struct {
	enr, dne *ach.File
}

func newCellPrinter(r *rng.R) *cellPrinter {
	mk := func(sec string) *ach.File {
		for {
			f := gen.FileOfSEC(r.Fork(), sec, gen.Opts{Addenda: true, MinBatches: 1, MaxBatches: 1, MaxEntries: 1})
			if len(addenda05s(f)) > 0 {
				return f
			}
		}
	}
	return &cellPrinter{enr: mk("ENR"), dne: mk("DNE")}
}

// cell prints the file with the payment string on its first Addenda05 and cuts the cell out.
func (cp *cellPrinter) cell(class, pri string, names, accts bool) (string, bool) {
	f := cp.enr
	if class == "pri-dne" {
		f = cp.dne
	}
	for _, a := range addenda05s(f) {
		a.PaymentRelatedInformation = pri
	}
	out, p := describeWith(f, names, accts)
	if p != nil {
		return fmt.Sprint(p), false
	}
	cs := cells(out)
	if len(cs) == 0 {
		return "no cell", false
	}
	return cs[0], true
}

func sigCount(s string) int {
	n := 0
	for i := 0; i < len(s); i++ {
		if s[i] != ' ' && s[i] != '*' {
			n++
		}
	}
	return n
}

func nameWords(parts ...string) []string {
	seen := map[string]bool{}
	var out []string
	for _, p := range parts {
		for _, w := range strings.Fields(p) {
			if len(w) >= 3 && !seen[w] {
				seen[w] = true
				out = append(out, w)
			}
		}
	}
	return out
}

func withParts(parts []string, repl map[int]string) string {
	cp := append([]string{}, parts...)
	for i, v := range repl {
		cp[i] = v
	}
	return strings.Join(cp, "*") + `\`
}

func checkPRI(cp *cellPrinter, c priCase) (fails []priFailure, secrets int) {
	parts := strings.Split(strings.TrimSuffix(c.Value, `\`), "*")
	type secret struct {
		s     string
		key   string
		flags [][2]bool
		ref   map[int]string
	}
	var ss []secret
	nameFlags := [][2]bool{{true, false}, {true, true}}
	acctFlags := [][2]bool{{false, true}, {true, true}}
	switch c.Class {
	case "pri-enr":
		if !parsesENR(c.Value) {
			return nil, 0
		}
		name := parts[6] + " " + parts[5]
		if strings.EqualFold(parts[7], "B") {
			name = parts[5] + parts[6]
		}
		for _, w := range nameWords(parts[5], parts[6], name) {
			ss = append(ss, secret{w, "mask:enr:name-visible", nameFlags, map[int]string{5: "ww", 6: "vv"}})
		}
		if v := strings.TrimSpace(parts[3]); sigCount(v) >= 5 {
			ss = append(ss, secret{v, "mask:enr:number-visible", acctFlags, map[int]string{3: "xx"}})
		}
		if v := strings.TrimSpace(parts[4]); sigCount(v) >= 5 {
			ss = append(ss, secret{v, "mask:enr:number-visible", acctFlags, map[int]string{4: "xx"}})
		}
	case "pri-dne":
		if !parsesDNE(c.Value) {
			return nil, 0
		}
		if v := strings.TrimSpace(parts[3]); sigCount(v) >= 5 {
			ss = append(ss, secret{v, "mask:dne:ssn-visible", [][2]bool{{true, false}, {false, true}, {true, true}}, map[int]string{3: "xx"}})
		}
	}
	for _, x := range ss {
		for _, fl := range x.flags {
			cell, ok := cp.cell(c.Class, c.Value, fl[0], fl[1])
			if !ok {
				fails = append(fails, priFailure{Kind: "fail", Key: "describe:panic", What: cell, Flags: fl, Case: c})
				continue
			}
			if !strings.Contains(cell, x.s) {
				continue
			}
			ref, _ := cp.cell(c.Class, withParts(parts, x.ref), fl[0], fl[1])
			if strings.Contains(ref, x.s) {
				continue // shown by another field
			}
			fails = append(fails, priFailure{Kind: "fail", Key: x.key, What: "protected component of the payment information visible in the describe cell with its mask flag on", Flags: fl, Case: c, Secret: x.s, Cell: cell})
		}
	}
	return fails, len(ss)
}

func oracle(args []string) {
	fs := flag.NewFlagSet("oracle", flag.ExitOnError)
	out := fs.String("out", "", "output directory")
	n := fs.Int("n", 1500, "generated payment strings per SEC code")
	corpus := fs.String("corpus", "", "corpus directory (cases run first)")
	fs.Parse(args)
	res := hx.Create(filepath.Join(*out, "oracle.jsonl"))
	enc := func(v any) {
		b, _ := json.Marshal(v)
		res.Printf("%s\n", b)
	}
	r := rng.FromEnv(2022)
	cp := newCellPrinter(r)
	evals, distinct := 0, 0
	dist := map[string]int{}
	seen := map[string]bool{}
	var samples []priCase
	run := func(c priCase) {
		evals++
		fails, ns := checkPRI(cp, c)
		kind := c.Class + ":no-secret-or-malformed"
		if ns > 0 {
			kind = c.Class
			if c.Class == "pri-enr" {
				parts := strings.Split(strings.TrimSuffix(c.Value, `\`), "*")
				if strings.EqualFold(parts[7], "B") {
					kind += ":business"
				} else {
					kind += ":consumer"
				}
			}
			if !seen[c.Class+c.Value] {
				seen[c.Class+c.Value] = true
				distinct++
			}
		}
		dist[kind]++
		for _, f := range fails {
			enc(f)
		}
		if len(samples) < 5 && evals%211 == 1 {
			samples = append(samples, c)
		}
	}
	for _, c := range corpusPRI(*corpus) {
		run(c)
	}
	for _, s := range sweepENR() {
		run(priCase{"pri-enr", s})
	}
	for _, s := range sweepDNE() {
		run(priCase{"pri-dne", s})
	}
	p := picker{r: r}
	for i := 0; i < *n; i++ {
		run(priCase{"pri-enr", p.enr()})
		run(priCase{"pri-dne", p.dne()})
	}
	enc(map[string]any{
		"kind": "summary", "evaluations": evals, "distinct_nontrivial": distinct,
		"rule":         "one ENR / DNE payment string per case on a generated valid file, describe.File under the flag sets that protect it; secrets: words (>= 3 bytes) of surname, first name and parsed name, trimmed account / identification / SSN with >= 5 significant bytes; non-trivial = well-formed with at least one secret; distinct by (class, string)",
		"distribution": dist, "samples": samples,
	})
	res.Close()
}

func corpusPRI(dir string) []priCase {
	var out []priCase
	if dir == "" {
		return out
	}
	names, _ := filepath.Glob(filepath.Join(dir, "*.json"))
	sort.Strings(names)
	for _, p := range names {
		b, err := os.ReadFile(p)
		if err != nil {
			continue
		}
		var rp struct {
			Input priCase `json:"input"`
		}
		if json.Unmarshal(b, &rp) == nil && strings.HasPrefix(rp.Input.Class, "pri-") {
			out = append(out, rp.Input)
		}
	}
	return out
}

func replay(args []string) {
	if len(args) < 1 {
		fmt.Fprintln(os.Stderr, "usage: c20enr replay <file>")
		os.Exit(2)
	}
	b, err := os.ReadFile(args[0])
	if err != nil {
		fmt.Fprintln(os.Stderr, err)
		os.Exit(2)
	}
	var rp struct {
		Input priCase `json:"input"`
	}
	if err := json.Unmarshal(b, &rp); err != nil || !strings.HasPrefix(rp.Input.Class, "pri-") {
		fmt.Println("replay file carries no payment-information input: nothing to run")
		os.Exit(0)
	}
	fails, _ := checkPRI(newCellPrinter(rng.FromEnv(2022)), rp.Input)
	for _, f := range fails {
		j, _ := json.Marshal(f)
		fmt.Println(string(j))
	}
	if len(fails) > 0 {
		os.Exit(1)
	}
	fmt.Println("no failure on this input")
}

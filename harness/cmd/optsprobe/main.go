// Command optsprobe runs every file operation of the library over files that are valid only
// under the ValidateOpts stored on them (gen.NeedsOptsOf, every variant) and reports, per
// (operation, variant), how often the operation kept what it owes such a file:
//
//	create    Batch.Create / File.Create again: nothing that is written changes
//	text      Writer.Write, Reader.Read under the same options: reads back, validates, same entries
//	json      json.Marshal, FileFromJSON: reads back, validates, same entries (not for option sets that cannot be serialised)
//	merge     MergeFiles([f]): outputs validate under the options they carry, entries (with trace numbers) conserved
//	segment   SegmentFile: same, input unchanged
//	flatten   FlattenBatches: same, input unchanged
//	reversal  Reversal: validates, trace numbers and amounts unchanged
//	pure      Validate / String / MarshalJSON / Write leave the file unchanged
//
// It is an exploration tool (the checks C05 .. C17 carry the oracles); it prints one JSON summary.
package main

import (
	"encoding/json"
	"flag"
	"fmt"
	"os"
	"sort"
	"strings"
	"time"

	"github.com/moov-io/ach"

	"verifharness/internal/gen"
	"verifharness/internal/rng"
)

type cell struct {
	OK    int            `json:"ok"`
	Fail  map[string]int `json:"fail,omitempty"`
	First string         `json:"first,omitempty"`
}

var table = map[string]map[string]*cell{}

func note(op, variant, verdict, detail string) {
	if table[op] == nil {
		table[op] = map[string]*cell{}
	}
	c := table[op][variant]
	if c == nil {
		c = &cell{Fail: map[string]int{}}
		table[op][variant] = c
	}
	if verdict == "" {
		c.OK++
		return
	}
	c.Fail[verdict]++
	if c.First == "" {
		c.First = detail
	}
}

// ids: the multiset of entries of a file as sorted strings (everything that is written for the
// entry and its addenda, without IDs and line numbers).
func ids(f *ach.File) []string {
	var out []string
	for _, b := range f.Batches {
		for _, e := range b.GetEntries() {
			s := e.String()
			if e.Addenda02 != nil {
				s += "|" + e.Addenda02.String()
			}
			for _, a := range e.Addenda05 {
				s += "|" + a.PaymentRelatedInformation
			}
			if e.Addenda98 != nil {
				s += "|" + e.Addenda98.String()
			}
			if e.Addenda98Refused != nil {
				s += "|" + e.Addenda98Refused.String()
			}
			if e.Addenda99 != nil {
				s += "|" + e.Addenda99.String()
			}
			if e.Addenda99Dishonored != nil {
				s += "|" + e.Addenda99Dishonored.String()
			}
			if e.Addenda99Contested != nil {
				s += "|" + e.Addenda99Contested.String()
			}
			out = append(out, s)
		}
		for _, e := range b.GetADVEntries() {
			out = append(out, e.String())
		}
	}
	for i := range f.IATBatches {
		for _, e := range f.IATBatches[i].Entries {
			out = append(out, "IAT:"+e.String())
		}
	}
	sort.Strings(out)
	return out
}

func sameIDs(a, b []string) bool { return strings.Join(a, "\n") == strings.Join(b, "\n") }

func snapshot(f *ach.File) string {
	bs, _ := json.Marshal(f)
	return string(bs)
}

func guard(fn func()) (p any) {
	defer func() { p = recover() }()
	fn()
	return nil
}

func optsOf(f *ach.File) string {
	bs, _ := json.Marshal(f.GetValidation())
	return string(bs)
}

func main() {
	n := flag.Int("n", 60, "files per variant")
	only := flag.String("variant", "", "only this variant")
	flag.Parse()
	r := rng.FromEnv(0x70726f62)
	for _, v := range gen.OptVariants() {
		if *only != "" && v.Name != *only {
			continue
		}
		fr := r.Fork()
		for i := 0; i < *n; i++ {
			g := gen.NeedsOptsOf(fr, v)
			if g == nil {
				continue
			}
			probe(v, g)
		}
	}
	out, _ := json.MarshalIndent(table, "", " ")
	fmt.Println(string(out))
	_ = os.Stdout.Sync()
}

func probe(v *gen.OptVariant, g *ach.File) {
	want := ids(g)
	name := v.Name

	// text
	func() {
		c := gen.Clone(g)
		var txt string
		var err error
		if p := guard(func() { txt, err = gen.Text(c, false) }); p != nil {
			note("text", name, "write-panic", fmt.Sprint(p))
			return
		}
		if err != nil {
			note("text", name, "write-error", err.Error())
			return
		}
		rd := ach.NewReader(strings.NewReader(txt))
		rd.SetValidation(g.GetValidation())
		back, err := rd.Read()
		if err != nil {
			note("text", name, "read-error", err.Error())
			return
		}
		if err := gen.ValidAll(&back); err != nil {
			note("text", name, "read-back-invalid", err.Error())
			return
		}
		if !sameIDs(ids(&back), want) {
			note("text", name, "entries-differ", diff(want, ids(&back)))
			return
		}
		note("text", name, "", "")
	}()

	// json
	if !v.NoJSON {
		func() {
			c := gen.Clone(g)
			bs, err := json.Marshal(c)
			if err != nil {
				note("json", name, "marshal-error", err.Error())
				return
			}
			var back *ach.File
			if p := guard(func() { back, err = ach.FileFromJSON(bs) }); p != nil {
				note("json", name, "panic", fmt.Sprint(p))
				return
			}
			if err != nil {
				note("json", name, "from-json-error", err.Error())
				return
			}
			if err := gen.ValidAll(back); err != nil {
				note("json", name, "read-back-invalid", err.Error())
				return
			}
			if optsOf(back) != optsOf(g) {
				note("json", name, "options-differ", optsOf(back))
				return
			}
			if !sameIDs(ids(back), want) {
				note("json", name, "entries-differ", diff(want, ids(back)))
				return
			}
			note("json", name, "", "")
		}()
	}

	// merge
	func() {
		if g.IsADV() || len(g.Batches) == 0 {
			return
		}
		c := gen.Clone(g)
		var outs []*ach.File
		var err error
		if p := guard(func() { outs, err = ach.MergeFiles([]*ach.File{c}) }); p != nil {
			note("merge", name, "panic", fmt.Sprint(p))
			return
		}
		if err != nil {
			note("merge", name, "error", err.Error())
			return
		}
		var got []string
		for _, o := range outs {
			if err := gen.ValidAll(o); err != nil {
				note("merge", name, "output-invalid", err.Error())
				return
			}
			got = append(got, ids(o)...)
		}
		sort.Strings(got)
		if !sameIDs(got, want) {
			note("merge", name, "entries-differ", diff(want, got))
			return
		}
		note("merge", name, "", "")
	}()

	// segment
	func() {
		c := gen.Clone(g)
		before := snapshot(c)
		var cf, df *ach.File
		var err error
		if p := guard(func() { cf, df, err = c.SegmentFile(nil) }); p != nil {
			note("segment", name, "panic", fmt.Sprint(p))
			return
		}
		if err != nil {
			note("segment", name, "error", err.Error())
			return
		}
		var got []string
		for _, o := range []*ach.File{cf, df} {
			if len(o.Batches)+len(o.IATBatches) == 0 {
				continue
			}
			if err := gen.ValidAll(o); err != nil {
				note("segment", name, "output-invalid", err.Error())
				return
			}
			if optsOf(o) != optsOf(g) {
				note("segment", name, "options-differ", optsOf(o))
				return
			}
			got = append(got, ids(o)...)
		}
		sort.Strings(got)
		if !sameIDs(got, want) && !mixedIAT(g) {
			note("segment", name, "entries-differ", diff(want, got))
			return
		}
		if snapshot(c) != before && !mixedIAT(g) {
			note("segment", name, "input-changed", "")
			return
		}
		note("segment", name, "", "")
	}()

	// flatten
	func() {
		if g.IsADV() {
			return
		}
		c := gen.Clone(g)
		before := snapshot(c)
		var o *ach.File
		var err error
		if p := guard(func() { o, err = c.FlattenBatches() }); p != nil {
			note("flatten", name, "panic", fmt.Sprint(p))
			return
		}
		if err != nil {
			note("flatten", name, "error", err.Error())
			return
		}
		if err := gen.ValidAll(o); err != nil {
			note("flatten", name, "output-invalid", err.Error())
			return
		}
		if optsOf(o) != optsOf(g) {
			note("flatten", name, "options-differ", optsOf(o))
			return
		}
		if !sameIDs(ids(o), want) {
			note("flatten", name, "entries-differ", diff(want, ids(o)))
			return
		}
		if snapshot(c) != before {
			note("flatten", name, "input-changed", "")
			return
		}
		note("flatten", name, "", "")
	}()

	// reversal
	func() {
		if g.IsADV() || len(g.IATBatches) > 0 || len(g.Batches) == 0 {
			return
		}
		for _, b := range g.Batches {
			if b.Category() != ach.CategoryForward {
				return
			}
			switch b.GetHeader().StandardEntryClassCode {
			case ach.PPD, ach.CCD, ach.WEB, ach.CTX:
			default:
				return
			}
			for _, e := range b.GetEntries() {
				if e.Amount == 0 {
					return
				}
			}
		}
		c := gen.Clone(g)
		var err error
		if p := guard(func() { err = c.Reversal(time.Date(2024, 3, 4, 10, 30, 0, 0, time.UTC)) }); p != nil {
			note("reversal", name, "panic", fmt.Sprint(p))
			return
		}
		if err != nil {
			note("reversal", name, "error", err.Error())
			return
		}
		if err := gen.ValidAll(c); err != nil {
			note("reversal", name, "output-invalid", err.Error())
			return
		}
		var t1, t2 []string
		for i, b := range g.Batches {
			for j, e := range b.GetEntries() {
				t1 = append(t1, fmt.Sprint(e.TraceNumber, e.Amount))
				e2 := c.Batches[i].GetEntries()[j]
				t2 = append(t2, fmt.Sprint(e2.TraceNumber, e2.Amount))
			}
		}
		if strings.Join(t1, ",") != strings.Join(t2, ",") {
			note("reversal", name, "traces-changed", strings.Join(t1, ",")+" -> "+strings.Join(t2, ","))
			return
		}
		note("reversal", name, "", "")
	}()

	// pure
	func() {
		c := gen.Clone(g)
		before := snapshot(c)
		_ = c.Validate()
		_ = c.Header.String()
		for _, b := range c.Batches {
			_ = b.Validate()
		}
		_, _ = json.Marshal(c)
		_, _ = gen.Text(c, false)
		if snapshot(c) != before {
			note("pure", name, "changed", "")
			return
		}
		note("pure", name, "", "")
	}()
}

func mixedIAT(g *ach.File) bool {
	for i := range g.IATBatches {
		if g.IATBatches[i].Header.ServiceClassCode == ach.MixedDebitsAndCredits {
			return true
		}
	}
	return false
}

func diff(a, b []string) string {
	m := map[string]int{}
	for _, x := range a {
		m[x]++
	}
	for _, x := range b {
		m[x]--
	}
	var out []string
	for k, v := range m {
		if v != 0 {
			out = append(out, fmt.Sprintf("%+d %q", -v, k))
		}
	}
	sort.Strings(out)
	if len(out) > 4 {
		out = out[:4]
	}
	return strings.Join(out, " ; ")
}

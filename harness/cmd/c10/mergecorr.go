package main

// Phase 2 of C10: MergeDir's RESULT against the Merge model.
//
//	c10 mergecorr -out DIR -n N -corpus D
//
// writes cases.txt / impl.txt for the extracted model of coq/Proto/MergeDirMerge.v (driver
// ocaml/c10merge) and oracle.jsonl (direct statements on the implementation).
//
// Forced-arrival runs ("M" lines).  The AcceptFile callback of MergeDirOptions blocks every parse
// worker on the path it has just taken; a controller releases one blocked path at a time and
// waits until the released worker has come back with its NEXT path before releasing another one.
// A worker only takes a next path after its send on mergableFiles has been received, and the
// merger only receives again after sorted.add has returned, so the files reach the merger in
// exactly the release order (no timing assumption; the directory ends in as many skipped marker
// files as there are workers, so a next path always exists).  The model rebuilds a schedule from
// the observed events, runs it through the extended transition system and must print the same
// arrival order and the same output structure (files, batches, numbers, entry order).
//
// Free-running runs ("E" lines): the existing gated fs.FS with PRNG release order; the observed
// result must be the model's result for SOME seeding file and arrival order (C10_output_exact).
//
// Directories are made of marked files as in harness/cmd/c08 (IdentificationNumber /
// CompanyDiscretionaryData / ImmediateOriginName carry ids), written as Nacha text or JSON.

import (
	"bytes"
	"encoding/json"
	"flag"
	"fmt"
	"path"
	"path/filepath"
	"sort"
	"strconv"
	"strings"
	"sync"
	"time"

	"github.com/moov-io/ach"

	"verifharness/internal/hx"
	"verifharness/internal/rng"
)

// ---------------------------------------------------------------- marked files (after harness/cmd/c08)

type mEntry struct {
	Seq, Amount, Addenda, ID int
	Debit                    bool
}

type mBatch struct {
	SCC                             int
	Name, CID, SEC, Desc, EED, ODFI string
	Rest                            int
	Entries                         []mEntry
}

type mFile struct {
	Origin, Dest string
	HID          int
	Batches      []mBatch
}

var mRoutes = [][2]string{{"121042882", "231380104"}, {"121042882", "091400606"}, {"076401251", "231380104"}}

func mBuildFile(fsp mFile) (*ach.File, error) {
	f := ach.NewFile()
	f.Header.ImmediateDestination = fsp.Dest
	f.Header.ImmediateOrigin = fsp.Origin
	f.Header.FileCreationDate = "190816"
	f.Header.FileCreationTime = "1055"
	f.Header.ImmediateDestinationName = "Federal Reserve Bank"
	f.Header.ImmediateOriginName = fmt.Sprintf("ORIGIN %d", fsp.HID)
	for _, b := range fsp.Batches {
		bh := ach.NewBatchHeader()
		bh.ServiceClassCode = b.SCC
		bh.CompanyName = b.Name
		bh.CompanyIdentification = b.CID
		bh.StandardEntryClassCode = b.SEC
		bh.CompanyEntryDescription = b.Desc
		bh.EffectiveEntryDate = b.EED
		bh.ODFIIdentification = b.ODFI
		bh.CompanyDiscretionaryData = fmt.Sprintf("REST %d", b.Rest)
		bt, err := ach.NewBatch(bh)
		if err != nil {
			return nil, err
		}
		for _, e := range b.Entries {
			ed := ach.NewEntryDetail()
			if e.Debit {
				ed.TransactionCode = ach.CheckingDebit
			} else {
				ed.TransactionCode = ach.CheckingCredit
			}
			ed.SetRDFI("231380104")
			ed.DFIAccountNumber = fmt.Sprintf("ACCT%d", e.ID%97)
			ed.Amount = e.Amount
			ed.IdentificationNumber = fmt.Sprintf("E%07d", e.ID)
			if b.SEC == ach.CTX {
				ed.SetCATXAddendaRecords(e.Addenda)
				ed.SetCATXReceivingCompany(fmt.Sprintf("Receiver %d", e.ID%13))
			} else {
				ed.IndividualName = fmt.Sprintf("Receiver %d", e.ID%13)
			}
			ed.TraceNumber = fmt.Sprintf("%s%07d", b.ODFI, e.Seq)
			ed.Category = ach.CategoryForward
			for k := 0; k < e.Addenda; k++ {
				a := ach.NewAddenda05()
				a.PaymentRelatedInformation = fmt.Sprintf("payment info %d/%d", e.ID, k)
				a.SequenceNumber = k + 1
				a.EntryDetailSequenceNumber = e.Seq
				ed.AddAddenda05(a)
				ed.AddendaRecordIndicator = 1
			}
			bt.AddEntry(ed)
		}
		if err := bt.Create(); err != nil {
			return nil, err
		}
		f.AddBatch(bt)
	}
	if err := f.Create(); err != nil {
		return nil, err
	}
	if err := f.Validate(); err != nil {
		return nil, err
	}
	return f, nil
}

func mBaseHeader(r *rng.R) mBatch {
	return mBatch{
		SCC:  rng.Pick(r, []int{200, 200, 220, 225}),
		Name: rng.Pick(r, []string{"Acme Corp", "Beta LLC"}),
		CID:  rng.Pick(r, []string{"121042882", "987654321"}),
		SEC:  rng.Pick(r, []string{ach.PPD, ach.PPD, ach.CCD, ach.CTX}),
		Desc: rng.Pick(r, []string{"PAYROLL", "VENDOR"}),
		EED:  rng.Pick(r, []string{"190816", "190817"}),
		ODFI: rng.Pick(r, []string{"12104288", "07640125"}),
	}
}

// mVariant changes one of the seven compared fields, only the letter case of the name, or nothing.
func mVariant(r *rng.R, h mBatch) mBatch {
	v := h
	switch r.Intn(11) {
	case 0:
		if v.SCC == 200 {
			v.SCC = rng.Pick(r, []int{220, 225})
		} else {
			v.SCC = 200
		}
	case 1:
		v.Name = h.Name + " Inc"
	case 2:
		v.CID = "555555555"
	case 3:
		if v.SEC == ach.PPD {
			v.SEC = ach.CCD
		} else {
			v.SEC = ach.PPD
		}
	case 4:
		v.Desc = "BONUS"
	case 5:
		v.EED = "190901"
	case 6:
		v.ODFI = "09140060"
	case 7, 8:
		if r.Bool() {
			v.Name = strings.ToUpper(h.Name)
		} else {
			v.Name = strings.ToLower(h.Name)
		}
	}
	return v
}

func mGenFiles(r *rng.R, nf int) []mFile {
	nroutes := r.Range(1, 3)
	maxBatches, maxEntries, seqPool := r.Range(1, 3), r.Range(1, 4), r.Range(3, 8)
	pool := []mBatch{mBaseHeader(r)}
	if r.Bool() {
		pool = append(pool, mBaseHeader(r))
	}
	nextID, nextRest, nextHID := 1, 1, 1
	var files []mFile
	for i := 0; i < nf; i++ {
		if i > 0 && r.Chance(1, 10) { // an identical copy under another name
			files = append(files, files[r.Intn(i)])
			continue
		}
		rt := mRoutes[r.Intn(nroutes)]
		f := mFile{Origin: rt[0], Dest: rt[1], HID: nextHID}
		nextHID++
		nb := r.Range(1, maxBatches)
		for j := 0; j < nb; j++ {
			h := mVariant(r, rng.Pick(r, pool))
			if r.Chance(1, 5) {
				pool = append(pool, h)
			}
			h.Rest = nextRest
			nextRest++
			n := r.Range(1, maxEntries)
			if n > seqPool {
				n = seqPool
			}
			seqs := map[int]bool{}
			for len(seqs) < n {
				seqs[r.Range(1, seqPool)] = true
			}
			var ks []int
			for k := range seqs {
				ks = append(ks, k)
			}
			sort.Ints(ks)
			for _, k := range ks {
				e := mEntry{Seq: k, ID: nextID}
				nextID++
				if r.Chance(1, 8) {
					e.Amount = r.Range(1000, 100000)
				} else {
					e.Amount = r.Range(1, 300)
				}
				switch h.SCC {
				case 225:
					e.Debit = true
				case 200:
					e.Debit = r.Chance(1, 3)
				}
				maxAdd := 1
				if h.SEC == ach.CTX {
					maxAdd = 3
				}
				if r.Bool() {
					e.Addenda = r.Range(0, maxAdd)
				}
				h.Entries = append(h.Entries, e)
			}
			f.Batches = append(f.Batches, h)
		}
		files = append(files, f)
	}
	return files
}

// ---------------------------------------------------------------- directories

const markerPrefix = "~m"

func isMarker(p string) bool { return strings.HasPrefix(path.Base(p), markerPrefix) }

var mExts = []string{".ach", ".ach", ".txt", "", ".json", ".json", ".ACH", ".Json"}

// mDirCase writes the files under generated names (walk order = name order), adds a few skipped
// files and the trailing markers.
func mDirCase(r *rng.R, specs []mFile, workers int) *Case {
	c := &Case{Files: map[string]string{}, Dir: ".", Workers: workers, ReleaseSeed: r.U64(), Forced: true}
	c.Sub = r.Chance(2, 3)
	useSub := r.Chance(1, 2)
	for i, sp := range specs {
		f, err := mBuildFile(sp)
		if err != nil {
			return nil
		}
		ext := mExts[r.Intn(len(mExts))]
		name := fmt.Sprintf("f%02d%s", r.Intn(90), ext)
		if useSub && r.Chance(1, 3) {
			name = rng.Pick(r, []string{"d1/", "sub/", "in.ach/"}) + name
		}
		if _, clash := c.Files[name]; clash {
			name = fmt.Sprintf("g%02d%s", i, ext)
		}
		var data string
		if specAccept(name) == ach.AcceptAsJSON {
			bs, err := json.Marshal(f)
			if err != nil {
				return nil
			}
			data = string(bs)
		} else {
			var buf bytes.Buffer
			if err := ach.NewWriter(&buf).Write(f); err != nil {
				return nil
			}
			data = buf.String()
		}
		c.Files[name] = data
	}
	for i, k := 0, r.Intn(3); i < k; i++ {
		c.Files[fmt.Sprintf("f%02d.xml", r.Intn(90))] = "skipped\n"
	}
	n := workers
	if n <= 0 {
		n = 50
	}
	for i := 0; i < n; i++ {
		c.Files[fmt.Sprintf("%s%02d.skp", markerPrefix, i)] = "marker\n"
	}
	return c
}

// ---------------------------------------------------------------- forced-arrival run

const stallAfter = 8 * time.Second

type fblocked struct {
	path string
	ch   chan struct{}
}

type forced struct {
	outcome
	Release []string // every path in the order in which the controller released it
	Stalled bool     // a released worker did not come back for its next path
}

func runForced(c *Case) forced {
	if hangs >= 1 {
		return forced{outcome: outcome{Hang: true, Skipped: true}}
	}
	rec := &recorder{}
	rec.cond = sync.NewCond(&rec.mu)
	prefix := path.Clean(c.Dir)
	if prefix == "." {
		prefix = ""
	}
	g := &gateFS{inner: c.mapFS(), rec: rec, optsExt: c.OptsExt, gate: false, prefix: prefix}
	walk := c.specWalk()
	var mu sync.Mutex
	var blocked []fblocked
	stop := false
	arrived := make(chan struct{}, len(walk)+64)
	opts := &ach.MergeDirOptions{FS: g, ParseWorkers: c.Workers, SubDirectories: c.Sub, ValidateOptsExtension: c.OptsExt}
	opts.AcceptFile = func(p string) ach.FileAcceptance {
		rec.add("S", p)
		mu.Lock()
		if !stop {
			ch := make(chan struct{})
			blocked = append(blocked, fblocked{p, ch})
			mu.Unlock()
			arrived <- struct{}{}
			<-ch
		} else {
			mu.Unlock()
		}
		a := ach.DefaultFileAcceptor(p)
		if a == ach.SkipFile {
			rec.add("D", p)
		}
		return a
	}
	type res struct {
		files []*ach.File
		err   error
		pan   string
	}
	done := make(chan res, 1)
	fin := make(chan struct{})
	t0 := time.Now()
	go func() {
		var r res
		defer func() {
			if x := recover(); x != nil {
				r.pan = fmt.Sprint(x)
			}
			done <- r
			close(fin)
		}()
		r.files, r.err = ach.MergeDir(c.Dir, ach.Conditions{MaxLines: c.MaxLines, MaxDollarAmount: c.MaxDollar}, opts)
	}()

	var fo forced
	rg := rng.New(c.ReleaseSeed)
	nworkers := c.Workers
	if nworkers <= 0 {
		nworkers = 50
	}
	expect := nworkers
	if len(walk) < expect {
		expect = len(walk)
	}
	waitArrival := func() bool { // false: MergeDir returned or the worker never came back
		select {
		case <-arrived:
			return true
		case <-fin:
			return false
		case <-time.After(stallAfter):
			fo.Stalled = true
			return false
		}
	}
	ok := true
	for held := 0; held < expect && ok; held++ {
		ok = waitArrival()
	}
	for ok {
		mu.Lock()
		var cands []int
		for i, b := range blocked {
			if !isMarker(b.path) {
				cands = append(cands, i)
			}
		}
		if len(cands) == 0 {
			mu.Unlock()
			break
		}
		i := cands[rg.Intn(len(cands))]
		b := blocked[i]
		blocked = append(blocked[:i], blocked[i+1:]...)
		mu.Unlock()
		fo.Release = append(fo.Release, b.path)
		close(b.ch)
		ok = waitArrival()
	}
	mu.Lock()
	stop = true
	for _, b := range blocked {
		close(b.ch)
	}
	blocked = nil
	mu.Unlock()

	select {
	case r := <-done:
		fo.Files, fo.Err, fo.Panic = r.files, r.err, r.pan
	case <-time.After(watchdog):
		fo.Hang = true
		hangs++
	}
	fo.Elapsed = time.Since(t0)
	rec.mu.Lock()
	rec.stop = true
	fo.Events = append([]event{}, rec.events...)
	rec.mu.Unlock()
	return fo
}

// ---------------------------------------------------------------- interchange with the model

func mMarker(s, prefix string) int {
	s = strings.TrimSpace(s)
	if !strings.HasPrefix(s, prefix) {
		return -1
	}
	n, err := strconv.Atoi(strings.TrimSpace(s[len(prefix):]))
	if err != nil {
		return -1
	}
	return n
}

func mAddenda(e *ach.EntryDetail) int {
	n := 0
	if e.Addenda02 != nil {
		n++
	}
	for _, a := range e.Addenda05 {
		if a != nil {
			n++
		}
	}
	for _, p := range []bool{e.Addenda98 != nil, e.Addenda98Refused != nil, e.Addenda99 != nil, e.Addenda99Dishonored != nil, e.Addenda99Contested != nil} {
		if p {
			n++
		}
	}
	return n
}

// mInput renders a parsed input file as the model's ifile.
func mInput(b *strings.Builder, f *ach.File) {
	fmt.Fprintf(b, " %s %s %d %d", hx.Enc(f.Header.ImmediateOrigin), hx.Enc(f.Header.ImmediateDestination),
		mMarker(f.Header.ImmediateOriginName, "ORIGIN"), len(f.Batches))
	for _, bt := range f.Batches {
		h := bt.GetHeader()
		es := bt.GetEntries()
		fmt.Fprintf(b, " %d %s %s %s %s %s %s %d %d", h.ServiceClassCode, hx.Enc(h.CompanyName), hx.Enc(h.CompanyIdentification),
			hx.Enc(h.StandardEntryClassCode), hx.Enc(h.CompanyEntryDescription), hx.Enc(h.EffectiveEntryDate),
			hx.Enc(h.ODFIIdentification), mMarker(h.CompanyDiscretionaryData, "REST"), len(es))
		for _, e := range es {
			fmt.Fprintf(b, " %s %d %d %d", hx.Enc(e.TraceNumber), e.Amount, mAddenda(e), mMarker(e.IdentificationNumber, "E"))
		}
	}
}

// mObserve renders MergeDir's (or MergeFiles') result in the model's result format (that of harness/cmd/c08).
func mObserve(out []*ach.File) string {
	var b strings.Builder
	fmt.Fprintf(&b, "%d", len(out))
	for _, f := range out {
		if f == nil {
			b.WriteString(" NILFILE")
			continue
		}
		lines := 2
		for _, bt := range f.Batches {
			lines += 2 + bt.GetControl().EntryAddendaCount
		}
		amount := f.Control.TotalDebitEntryDollarAmountInFile + f.Control.TotalCreditEntryDollarAmountInFile
		fmt.Fprintf(&b, " F %s %s %d %d %d %d", hx.Enc(f.Header.ImmediateOrigin), hx.Enc(f.Header.ImmediateDestination),
			mMarker(f.Header.ImmediateOriginName, "ORIGIN"), lines, amount, len(f.Batches))
		for _, bt := range f.Batches {
			h := bt.GetHeader()
			fmt.Fprintf(&b, " B %d %d %s %s %s %s %s %s %d %d", h.BatchNumber, h.ServiceClassCode, hx.Enc(h.CompanyName),
				hx.Enc(h.CompanyIdentification), hx.Enc(h.StandardEntryClassCode), hx.Enc(h.CompanyEntryDescription),
				hx.Enc(h.EffectiveEntryDate), hx.Enc(h.ODFIIdentification), mMarker(h.CompanyDiscretionaryData, "REST"), len(bt.GetEntries()))
			for _, e := range bt.GetEntries() {
				fmt.Fprintf(&b, " %d", mMarker(e.IdentificationNumber, "E"))
			}
		}
	}
	return b.String()
}

// mDir is what the harness knows about a directory independently of MergeDir.
type mDir struct {
	walk     []string
	id       map[string]int // path -> 1..k in walk order
	outcomes string
	files    string // " nFiles { fid file }" for the model
	parsed   map[string]*ach.File
	ndata    int
	ok       bool
}

func mDescribe(c *Case) mDir {
	d := mDir{walk: c.specWalk(), id: map[string]int{}, parsed: map[string]*ach.File{}, ok: true}
	var oc []string
	var fb strings.Builder
	for i, p := range d.walk {
		d.id[p] = i + 1
		if specAccept(p) == ach.SkipFile {
			oc = append(oc, fmt.Sprintf("%d:S", i+1))
			continue
		}
		f, err := c.specRead(p)
		if err != nil || f == nil {
			d.ok = false
			return d
		}
		d.parsed[p] = f
		d.ndata++
		oc = append(oc, fmt.Sprintf("%d:O%d", i+1, 100+i+1))
		fmt.Fprintf(&fb, " %d", 100+i+1)
		mInput(&fb, f)
	}
	d.outcomes = strings.Join(oc, ",")
	if d.outcomes == "" {
		d.outcomes = "-"
	}
	d.files = fmt.Sprintf(" %d%s", d.ndata, fb.String())
	return d
}

func idList(ids []int) string {
	if len(ids) == 0 {
		return "-"
	}
	var s []string
	for _, i := range ids {
		s = append(s, strconv.Itoa(i))
	}
	return strings.Join(s, ",")
}

// forcedLines runs c with forced arrivals; returns the model case line, the implementation's
// observation and the failures of the direct oracle.
func forcedLines(c *Case) (caseLine, implLine string, fails []failure, arrival []string, ok bool) {
	d := mDescribe(c)
	if !d.ok {
		return "", "", nil, nil, false
	}
	fo := runForced(c)
	if fo.Skipped {
		return "", "", nil, nil, false
	}
	cl := class(c)
	fail := func(key, what string) { fails = append(fails, failure{key, what + " [forced:" + cl + "]"}) }
	var tr []string
	for _, e := range fo.Events {
		switch e.Kind {
		case "S":
			tr = append(tr, fmt.Sprintf("S%d", d.id[e.Path]))
		case "D":
			tr = append(tr, fmt.Sprintf("D%d", d.id[e.Path]))
		}
	}
	t := strings.Join(tr, ",")
	if t == "" {
		t = "-"
	}
	n := c.Workers
	if n <= 0 {
		n = 50
	}
	caseLine = fmt.Sprintf("M %d %d %s %s %d %d%s", n, len(d.walk), d.outcomes, t, c.MaxLines, c.MaxDollar, d.files)
	var arrIDs []int
	var arrFiles []*ach.File
	for _, p := range fo.Release {
		if f, isData := d.parsed[p]; isData {
			arrival = append(arrival, p)
			arrIDs = append(arrIDs, 100+d.id[p])
			arrFiles = append(arrFiles, f)
		}
	}
	switch {
	case fo.Hang:
		implLine = "hang"
		fail("mergedir:hang", fmt.Sprintf("MergeDir did not return within %s after every path had been released", watchdog))
	case fo.Panic != "":
		implLine = "panic"
		fail("mergedir:panic", "MergeDir panicked: "+fo.Panic)
	case fo.Stalled:
		implLine = "stalled"
		fail("mergedir:released-worker-did-not-return", fmt.Sprintf("after path %q was let through AcceptFile no worker asked for a further path within %s although %d paths were still to come",
			fo.Release[len(fo.Release)-1], stallAfter, len(d.walk)-len(fo.Release)))
	case fo.Err != nil:
		implLine = "accept ERR"
		fail("mergedir:error-on-parseable-directory", "every accepted file parses, MergeDir returned: "+fo.Err.Error())
	default:
		seed := "-"
		if len(arrIDs) > 0 {
			seed = strconv.Itoa(arrIDs[0])
		}
		got := mObserve(fo.Files)
		implLine = fmt.Sprintf("accept A%s S%s %s", idList(arrIDs), seed, got)
		// direct oracle (C10_first_arrival_seeds on the implementation): the result is exactly
		// MergeFilesWith over the files in the order in which they reached the merger
		want, err := ach.MergeFilesWith(arrFiles, ach.Conditions{MaxLines: c.MaxLines, MaxDollarAmount: c.MaxDollar})
		if err != nil {
			fail("mergedir:ok-where-mergefiles-fails", "MergeFilesWith fails on the files in arrival order ("+err.Error()+") but MergeDir returned no error")
		} else if w := mObserve(want); w != got {
			fail("mergedir:differs-from-mergefiles-in-arrival-order", fmt.Sprintf("files reached the merger in the order %v; MergeDir returned\n  %s\nMergeFilesWith on the same files in that order returns\n  %s", arrival, got, w))
		}
	}
	return caseLine, implLine, fails, arrival, true
}

// freeLines runs c on the PRNG-gated fs.FS (arrival order unobserved) and renders the envelope case.
func freeLines(c *Case) (caseLine, implLine string, ok bool) {
	d := mDescribe(c)
	if !d.ok || d.ndata > 5 {
		return "", "", false
	}
	o := runMergeDir(c, true, ach.DefaultFileAcceptor)
	if o.Skipped || o.Hang || o.Panic != "" || o.Err != nil {
		return "", "", false // reported by the oracle of the first phase
	}
	return fmt.Sprintf("E %d %d%s | %s", c.MaxLines, c.MaxDollar, d.files, mObserve(o.Files)), "in", true
}

// mLimits picks conditions around the size of the merged content so that they often bind.
func mLimits(r *rng.R, c *Case, d mDir) {
	c.MaxLines, c.MaxDollar = 0, 0
	lines, amount := 2, 0
	for _, f := range d.parsed {
		for _, bt := range f.Batches {
			lines += 2
			for _, e := range bt.GetEntries() {
				lines += 1 + mAddenda(e)
				amount += e.Amount
			}
		}
	}
	switch r.Intn(6) {
	case 0, 1:
		c.MaxLines = r.Range(5, lines+1)
	case 2:
		if amount > 2 {
			c.MaxDollar = int64(r.Range(1, amount+1))
		}
	case 3:
		c.MaxLines = r.Range(5, lines+1)
		if amount > 2 {
			c.MaxDollar = int64(r.Range(1, amount+1))
		}
	case 4:
		c.MaxLines = ach.NACHAFileLineLimit
	}
}

func mergecorr(args []string) {
	fl := flag.NewFlagSet("mergecorr", flag.ExitOnError)
	out := fl.String("out", "", "output directory")
	n := fl.Int("n", 300, "number of generated directories")
	corpus := fl.String("corpus", "", "corpus directory")
	salt := fl.Uint64("salt", 1011, "stream salt")
	fl.Parse(args)
	cases := hx.Create(filepath.Join(*out, "cases.txt"))
	impl := hx.Create(filepath.Join(*out, "impl.txt"))
	w := hx.Create(filepath.Join(*out, "oracle.jsonl"))
	defer cases.Close()
	defer impl.Close()
	defer w.Close()
	r := rng.FromEnv(*salt)
	dist := map[string]int{}
	sigs := map[string]bool{}
	var samples []map[string]any
	evals := 0
	runF := func(c *Case, src string) {
		if hangs >= 1 {
			return
		}
		cl, il, fails, arrival, ok := forcedLines(c)
		if !ok {
			dist["skipped"]++
			return
		}
		evals++
		cases.Printf("%s\n", cl)
		impl.Printf("%s\n", il)
		dist["forced:"+class(c)]++
		if c.MaxLines > 0 || c.MaxDollar > 0 {
			dist["forced:with-limit"]++
		}
		walkData := []string{}
		for _, p := range c.specWalk() {
			if specAccept(p) != ach.SkipFile {
				walkData = append(walkData, p)
			}
		}
		if strings.Join(walkData, "\x00") != strings.Join(arrival, "\x00") {
			dist["forced:arrival-order-differs-from-directory-order"]++
			// how often does the order show in the result?  (MergeFiles over the directory order, structure compared)
			d := mDescribe(c)
			var dirFiles []*ach.File
			for _, p := range walkData {
				dirFiles = append(dirFiles, d.parsed[p])
			}
			if want, err := ach.MergeFilesWith(dirFiles, ach.Conditions{MaxLines: c.MaxLines, MaxDollarAmount: c.MaxDollar}); err == nil {
				if i := strings.Index(il, " S"); i >= 0 && !strings.HasSuffix(il, " "+mObserve(want)) {
					dist["forced:result-structure-differs-from-mergefiles-in-directory-order"]++
				}
			}
		}
		if len(arrival) >= 2 {
			sigs[fmt.Sprintf("%s|%d|%v|%v|%s", class(c), len(arrival), c.MaxLines > 0, c.MaxDollar > 0, strings.Join(arrival, ","))] = true
		}
		if len(samples) < 3 && len(arrival) >= 3 {
			samples = append(samples, map[string]any{"source": src, "class": class(c), "directory_order": walkData, "arrival_order": arrival, "maxLines": c.MaxLines, "maxDollar": c.MaxDollar})
		}
		for _, f := range fails {
			bs, _ := json.Marshal(map[string]any{"kind": "fail", "key": f.Key, "what": f.What, "case": c})
			w.Printf("%s\n", bs)
		}
	}
	for _, c := range loadCorpus(*corpus) {
		if c.Forced {
			runF(c, "corpus")
		}
	}
	free := 0
	for i := 0; i < *n; i++ {
		workers := []int{1, 2, 3, 4, 2, 3, 0}[i%7]
		nf := r.Range(0, 6)
		if r.Chance(3, 4) && nf < 2 {
			nf = r.Range(2, 6)
		}
		c := mDirCase(r, mGenFiles(r, nf), workers)
		if c == nil {
			dist["skipped"]++
			continue
		}
		d := mDescribe(c)
		if !d.ok {
			dist["skipped"]++
			continue
		}
		mLimits(r, c, d)
		runF(c, "generated")
		// the same directory, free-running (markers removed), every other case
		if i%2 == 0 && hangs == 0 {
			fc := *c
			fc.Forced = false
			fc.Files = map[string]string{}
			for p, s := range c.Files {
				if !isMarker(p) {
					fc.Files[p] = s
				}
			}
			fc.ReleaseSeed = r.U64()
			if cl, il, ok := freeLines(&fc); ok {
				cases.Printf("%s\n", cl)
				impl.Printf("%s\n", il)
				free++
			}
		}
	}
	dist["free-running"] = free
	bs, _ := json.Marshal(map[string]any{"kind": "summary", "evaluations": evals, "distinct_nontrivial": len(sigs),
		"rule":         "distinct (workers, SubDirectories, #files>=2, limit kinds, forced arrival order) signatures of MergeDir runs whose arrival order at the merger is forced through the AcceptFile callback; each compared exactly (files, batches, numbers, entry order) with MergeFilesWith over the files in arrival order and with the extracted MergeDir-over-Merge model",
		"distribution": dist, "samples": samples})
	w.Printf("%s\n", bs)
}

// replayForced re-runs a forced-arrival case (a few release orders) with the direct oracle.
func replayForced(c *Case) int {
	bad := 0
	for i := 0; i < 5; i++ {
		_, il, fails, arrival, ok := forcedLines(c)
		if !ok {
			fmt.Println("run", i, ": case cannot be evaluated (an accepted file does not parse, or an earlier hang)")
			break
		}
		fmt.Printf("run %d: arrival order %v\n  observed: %s\n", i, arrival, il)
		for _, f := range fails {
			fmt.Printf("  FAIL %s: %s\n", f.Key, f.What)
			bad++
		}
		c.ReleaseSeed++
	}
	return bad
}

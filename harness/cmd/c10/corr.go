package main

import (
	"flag"
	"fmt"
	"path/filepath"
	"sort"
	"strings"

	"github.com/moov-io/ach"

	"verifharness/internal/hx"
	"verifharness/internal/rng"
)

// ---------------------------------------------------------------- correspondence
//
// cases.txt (one case per line) / impl.txt (the implementation's observation, same line):
//
//	A <hex path>                       -> "<v> <v>"   DefaultFileAcceptor(path): 0 accept, 1 json, 2 skip
//	                                       (the model prints table-driven and documented acceptor)
//	W <sub> <tree tokens>              -> paths handed to AcceptFile by MergeDir, in order (1 worker)
//	V <sub> <tree tokens>              -> data files opened by MergeDir with the default acceptor (1 worker)
//	T <n> <k> <outcomes> <trace> <res> -> "accept": the trace recorded on the real MergeDir must be
//	                                       accepted by the extracted transition relation
//
// tree tokens: "F <hexname>" | "D <hexname> <#children> children…", listing in fs.ReadDir order.

type tnode struct {
	name string
	dir  bool
	kids []*tnode
}

func genTree(r *rng.R, depth, maxDepth int) []*tnode {
	n := r.Intn(5)
	if depth == 0 {
		n = r.Intn(6)
	}
	used := map[string]bool{}
	var out []*tnode
	for i := 0; i < n; i++ {
		if depth < maxDepth && r.Chance(1, 3) {
			dn := dirNames[r.Intn(len(dirNames))]
			if used[dn] {
				continue
			}
			used[dn] = true
			out = append(out, &tnode{name: dn, dir: true, kids: genTree(r, depth+1, maxDepth)})
			continue
		}
		name := stems[r.Intn(len(stems))] + exts[r.Intn(len(exts))]
		if name == "" || name == "." || used[name] {
			continue
		}
		used[name] = true
		out = append(out, &tnode{name: name})
	}
	sort.Slice(out, func(i, j int) bool { return out[i].name < out[j].name })
	return out
}

func tokens(ns []*tnode, b *strings.Builder) {
	for _, n := range ns {
		if n.dir {
			fmt.Fprintf(b, " D %s %d", hx.Enc(n.name), len(n.kids))
			tokens(n.kids, b)
		} else {
			fmt.Fprintf(b, " F %s", hx.Enc(n.name))
		}
	}
}

func treeCase(ns []*tnode, sub bool, good content) *Case {
	c := &Case{Files: map[string]string{}, Dir: ".", Sub: sub, Workers: 1}
	var rec func(prefix string, ns []*tnode)
	rec = func(prefix string, ns []*tnode) {
		for _, n := range ns {
			p := n.name
			if prefix != "" {
				p = prefix + "/" + n.name
			}
			if n.dir {
				c.Dirs = append(c.Dirs, p)
				rec(p, n.kids)
				continue
			}
			switch specAccept(n.name) {
			case ach.AcceptAsJSON:
				c.Files[p] = good.jsonT
			default:
				c.Files[p] = good.text
			}
		}
	}
	rec("", ns)
	return c
}

func pathList(ps []string) string {
	if len(ps) == 0 {
		return "none"
	}
	var hs []string
	for _, p := range ps {
		hs = append(hs, hx.Enc(p))
	}
	return strings.Join(hs, " ")
}

func acceptCode(a ach.FileAcceptance) int {
	switch a {
	case ach.AcceptFile:
		return 0
	case ach.AcceptAsJSON:
		return 1
	case ach.SkipFile:
		return 2
	}
	return 9
}

func corr(args []string) {
	fl := flag.NewFlagSet("corr", flag.ExitOnError)
	out := fl.String("out", "", "output directory")
	n := fl.Int("n", 200, "number of trees / traces")
	maxlen := fl.Int("maxlen", 5, "exhaustive acceptor sweep up to this many symbols")
	fl.Parse(args)
	cases := hx.Create(filepath.Join(*out, "cases.txt"))
	impl := hx.Create(filepath.Join(*out, "impl.txt"))
	defer cases.Close()
	defer impl.Close()
	r := rng.FromEnv(1010)
	p := newPool(r.Fork(), 24)

	// ---- acceptor: exhaustive over a small alphabet + curated + composed names
	emitA := func(s string) {
		cases.Printf("A %s\n", hx.Enc(s))
		v := acceptCode(ach.DefaultFileAcceptor(s))
		impl.Printf("%d %d\n", v, v)
	}
	alpha := []string{".", "a", "c", "h", "A", "/", "t"}
	var sweep func(prefix string, d int)
	sweep = func(prefix string, d int) {
		emitA(prefix)
		if d == *maxlen {
			return
		}
		for _, a := range alpha {
			sweep(prefix+a, d+1)
		}
	}
	sweep("", 0)
	for _, s := range []string{".ach", ".txt", ".json", "x.ACH", "x.tXt", "a.JSON", "a.JsOn", "a.b/c", "a.ach/b", "a.ach/b.xml", "x.ach.bak", "x.", "x..ach",
		"é.ach", "x.ach\xcc", "x.Kson", "dir.json/", "/", "a/", "noext", "UPPER.TXT", "a.txtx", "a.jso", "a.jsonl", ".json.ach", "a.ach ", " .ach", "x.ACh"} {
		emitA(s)
	}
	for i := 0; i < 400; i++ {
		s := ""
		if r.Chance(1, 2) {
			s = dirNames[r.Intn(len(dirNames))] + "/"
		}
		emitA(s + stems[r.Intn(len(stems))] + exts[r.Intn(len(exts))])
	}

	// ---- walk and accepted files
	good := p.files[0]
	for i := 0; i < *n; i++ {
		tree := genTree(r, 0, 3)
		for _, sub := range []bool{true, false} {
			var b strings.Builder
			tokens(tree, &b)
			s := 0
			if sub {
				s = 1
			}
			c := treeCase(tree, sub, good)
			// every path the walker sends, via an acceptor that records and skips
			o := runMergeDir(c, false, func(string) ach.FileAcceptance { return ach.SkipFile })
			var seen []string
			for _, e := range o.Events {
				if e.Kind == "S" {
					seen = append(seen, e.Path)
				}
			}
			cases.Printf("W %d%s\n", s, b.String())
			if o.Hang || o.Err != nil || o.Panic != "" {
				impl.Printf("failed hang=%v err=%v panic=%s\n", o.Hang, o.Err, o.Panic)
			} else {
				impl.Printf("%s\n", pathList(seen))
			}
			// the files the default acceptor lets through
			o = runMergeDir(c, false, nil)
			var opened []string
			for _, e := range o.Events {
				if e.Kind == "O" {
					opened = append(opened, e.Path)
				}
			}
			cases.Printf("V %d%s\n", s, b.String())
			if o.Hang || o.Err != nil || o.Panic != "" {
				impl.Printf("failed hang=%v err=%v panic=%s\n", o.Hang, o.Err, o.Panic)
			} else {
				impl.Printf("%s\n", pathList(opened))
			}
		}
	}

	// ---- protocol traces
	for i := 0; i < *n; i++ {
		g := genOpts{maxFiles: 6, badRate: 35, depth: 2}
		c := genCase(r, p, g)
		c.NilAccept = false
		c.OptsExt = ""
		c.Workers = []int{1, 2, 3, 0}[i%4]
		line, ok := traceLine(c)
		if !ok {
			continue
		}
		cases.Printf("%s\n", line)
		impl.Printf("accept\n")
	}
}

// traceLine runs the real MergeDir on c (gated fs.FS, recording acceptor) and renders what was seen.
// Path ids are 1..k in walk order; the file parsed from path i has id 100+i.
func traceLine(c *Case) (string, bool) {
	// make every file's entries recognisable: distinct files of the pool may share entries, so use
	// each pool file at most once per case
	seen := map[string]bool{}
	for p, s := range c.Files {
		if specAccept(p) == ach.SkipFile {
			continue
		}
		if seen[s] {
			delete(c.Files, p)
			continue
		}
		seen[s] = true
	}
	walk := c.specWalk()
	id := map[string]int{}
	var outcomes []string
	parsed := map[int][]string{} // path id -> its entries in canonical form
	for i, p := range walk {
		id[p] = i + 1
		if specAccept(p) == ach.SkipFile {
			outcomes = append(outcomes, fmt.Sprintf("%d:S", i+1))
			continue
		}
		f, err := c.specRead(p)
		if err != nil || f == nil {
			outcomes = append(outcomes, fmt.Sprintf("%d:E", i+1))
			continue
		}
		outcomes = append(outcomes, fmt.Sprintf("%d:O%d", i+1, 100+i+1))
		for _, es := range canon([]*ach.File{f}) {
			parsed[i+1] = append(parsed[i+1], es...)
		}
		if len(parsed[i+1]) == 0 {
			return "", false // nothing to recognise the file by (IAT only)
		}
	}
	o := runMergeDir(c, true, ach.DefaultFileAcceptor)
	if o.Hang || o.Panic != "" {
		return "", false // the oracle reports these
	}
	var tr []string
	for _, e := range o.Events {
		switch e.Kind {
		case "S":
			tr = append(tr, fmt.Sprintf("S%d", id[e.Path]))
		case "D":
			tr = append(tr, fmt.Sprintf("D%d", id[e.Path]))
		}
	}
	res := "E"
	if o.Err == nil {
		have := map[string]int{}
		for _, es := range canon(o.Files) {
			for _, e := range es {
				have[e]++
			}
		}
		var ids []string
		for i := range walk {
			es := parsed[i+1]
			if len(es) == 0 {
				continue
			}
			all := true
			for _, e := range es {
				if have[e] == 0 {
					all = false
				}
			}
			if all {
				for _, e := range es {
					have[e]--
				}
				ids = append(ids, fmt.Sprint(100+i+1))
			}
		}
		left := 0
		for _, n := range have {
			if n > 0 {
				left += n
			}
		}
		if left > 0 {
			ids = append(ids, "999") // entries no input file accounts for
		}
		res = "O:" + strings.Join(ids, ",")
		if len(ids) == 0 {
			res = "O:-"
		}
	}
	n := c.Workers
	if n <= 0 {
		n = 50
	}
	t := strings.Join(tr, ",")
	if t == "" {
		t = "-"
	}
	oc := strings.Join(outcomes, ",")
	if oc == "" {
		oc = "-"
	}
	return fmt.Sprintf("T %d %d %s %s %s", n, len(walk), oc, t, res), true
}

// Command c10: correspondence cases, trace recording and direct oracle for property C10
// (MergeDir equals MergeFiles over the directory, under every schedule).
//
//	c10 corr   -out DIR -n N            cases.txt + impl.txt (walk, acceptor, protocol traces)
//	c10 oracle -out DIR -n N -corpus D  oracle.jsonl (failures + summary)
//	c10 replay FILE                     re-run one case (evidence/replays/*.json or corpus/C10/*.json)
//	c10 mergecorr -out DIR -n N         phase 2: forced-arrival runs against the MergeDir-over-Merge model (mergecorr.go)
package main

import (
	"bytes"
	"encoding/json"
	"flag"
	"fmt"
	"io"
	"io/fs"
	"os"
	"path"
	"path/filepath"
	"sort"
	"strings"
	"sync"
	"testing/fstest"
	"time"

	"github.com/moov-io/ach"

	"verifharness/internal/gen"
	"verifharness/internal/hx"
	"verifharness/internal/rng"
)

func main() {
	if len(os.Args) < 2 {
		fmt.Fprintln(os.Stderr, "usage: c10 corr|oracle|replay ...")
		os.Exit(2)
	}
	// MergeDir must never look at the operating system's directories when an fs.FS is given:
	// run from a scratch directory that holds an unparseable decoy.
	if d, err := os.MkdirTemp("", "c10_cwd_"); err == nil {
		os.WriteFile(filepath.Join(d, "decoy.ach"), []byte("decoy: not an ACH file\n"), 0o644)
		os.Mkdir(filepath.Join(d, "sub"), 0o755)
		os.WriteFile(filepath.Join(d, "sub", "decoy.ach"), []byte("decoy: not an ACH file\n"), 0o644)
		abs := func(p *string) {
			if *p != "" && !filepath.IsAbs(*p) {
				if a, err := filepath.Abs(*p); err == nil {
					*p = a
				}
			}
		}
		for i := range os.Args {
			if i > 0 && (os.Args[i-1] == "-out" || os.Args[i-1] == "-corpus" || os.Args[1] == "replay" && i == 2) {
				abs(&os.Args[i])
			}
		}
		os.Chdir(d)
		defer os.RemoveAll(d)
		cleanup = func() { os.Chdir("/"); os.RemoveAll(d) }
	}
	switch os.Args[1] {
	case "corr":
		corr(os.Args[2:])
	case "oracle":
		oracle(os.Args[2:])
	case "replay":
		replay(os.Args[2:])
	case "mergecorr":
		mergecorr(os.Args[2:])
	default:
		fmt.Fprintln(os.Stderr, "unknown mode")
		cleanup()
		os.Exit(2)
	}
	cleanup()
}

var cleanup = func() {}

// ---------------------------------------------------------------- cases

// Case is one MergeDir invocation: an in-memory directory tree plus options.
type Case struct {
	Files       map[string]string `json:"files"`          // slash path -> content
	Dirs        []string          `json:"dirs,omitempty"` // directories (needed for empty ones)
	Dir         string            `json:"dir"`            // the dir argument of MergeDir
	Sub         bool              `json:"sub"`
	Workers     int               `json:"workers"`          // 0 = default
	OptsExt     string            `json:"optsExt,omitempty"` // ValidateOptsExtension
	NilAccept   bool              `json:"nilAccept"`        // leave MergeDirOptions.AcceptFile nil
	MaxLines    int               `json:"maxLines"`
	MaxDollar   int64             `json:"maxDollar,omitempty"`
	ReleaseSeed uint64            `json:"releaseSeed"`
	Note        string            `json:"note,omitempty"`
	Forced      bool              `json:"forced,omitempty"` // phase 2: arrival order at the merger forced through AcceptFile (mergecorr.go)
}

const watchdog = 25 * time.Second

func (c *Case) mapFS() fstest.MapFS {
	m := fstest.MapFS{}
	m[path.Clean(c.Dir)] = &fstest.MapFile{Mode: fs.ModeDir | 0o755} // the directory itself exists even when empty
	for _, d := range c.Dirs {
		m[d] = &fstest.MapFile{Mode: fs.ModeDir | 0o755}
	}
	for p, s := range c.Files {
		m[p] = &fstest.MapFile{Data: []byte(s), Mode: 0o644}
	}
	return m
}

// specWalk lists, independently of the library, the files below dir in directory order
// (names sorted, a sub-directory's files at the position of the directory), relative to dir.
func (c *Case) specWalk() []string {
	type ent struct {
		name string
		dir  bool
	}
	kids := map[string]map[string]bool{} // dir -> name -> isDir
	add := func(p string, isDir bool) {
		for {
			d, n := path.Split(p)
			d = strings.TrimSuffix(d, "/")
			if d == "" {
				d = "."
			}
			if kids[d] == nil {
				kids[d] = map[string]bool{}
			}
			kids[d][n] = kids[d][n] || isDir
			if d == "." {
				return
			}
			p, isDir = d, true
		}
	}
	for _, d := range c.Dirs {
		add(d, true)
	}
	for p := range c.Files {
		add(p, false)
	}
	var out []string
	var rec func(abs, rel string, top bool)
	rec = func(abs, rel string, top bool) {
		var es []ent
		for n, d := range kids[abs] {
			es = append(es, ent{n, d})
		}
		sort.Slice(es, func(i, j int) bool { return es[i].name < es[j].name })
		for _, e := range es {
			a := e.name
			if abs != "." {
				a = abs + "/" + e.name
			}
			r := e.name
			if rel != "" {
				r = rel + "/" + e.name
			}
			if e.dir {
				if c.Sub {
					rec(a, r, false)
				}
				continue
			}
			out = append(out, r)
		}
	}
	rec(path.Clean(c.Dir), "", true)
	return out
}

// specAccept is the documented DefaultFileAcceptor.
func specAccept(p string) ach.FileAcceptance {
	name := p[strings.LastIndex(p, "/")+1:]
	ext := ""
	if i := strings.LastIndex(name, "."); i >= 0 {
		ext = name[i:]
	}
	switch strings.ToLower(ext) {
	case "", ".ach", ".txt":
		return ach.AcceptFile
	case ".json":
		return ach.AcceptAsJSON
	}
	return ach.SkipFile
}

func (c *Case) abs(rel string) string {
	d := path.Clean(c.Dir)
	if d == "." {
		return rel
	}
	return d + "/" + rel
}

// specRead parses one accepted file the way a caller of MergeFiles would.
func (c *Case) specRead(rel string) (*ach.File, error) {
	data := c.Files[c.abs(rel)]
	var vo *ach.ValidateOpts
	if c.OptsExt != "" {
		side := strings.TrimSuffix(c.abs(rel), path.Ext(rel)) + c.OptsExt
		if s, ok := c.Files[side]; ok {
			var v ach.ValidateOpts
			json.NewDecoder(strings.NewReader(s)).Decode(&v)
			vo = &v
		}
	}
	switch specAccept(rel) {
	case ach.AcceptFile:
		r := ach.NewReader(strings.NewReader(data))
		r.SetValidation(vo)
		f, err := r.Read()
		if err != nil {
			return nil, err
		}
		return &f, nil
	case ach.AcceptAsJSON:
		return ach.FileFromJSONWith([]byte(data), vo)
	}
	return nil, fmt.Errorf("skipped")
}

// ---------------------------------------------------------------- instrumented fs.FS

type event struct {
	Kind string // S = AcceptFile(p) called, D = read of p finished, O = open of data file p
	Path string
}

type recorder struct {
	mu      sync.Mutex
	events  []event
	blocked []chan struct{}
	cond    *sync.Cond
	stop    bool
}

func (r *recorder) add(k, p string) {
	r.mu.Lock()
	r.events = append(r.events, event{k, p})
	r.mu.Unlock()
}

type gateFS struct {
	inner   fs.FS
	rec     *recorder
	optsExt string
	gate    bool
	prefix  string // events are recorded relative to the MergeDir directory
}

func (g *gateFS) rel(name string) string {
	if g.prefix != "" && strings.HasPrefix(name, g.prefix+"/") {
		return name[len(g.prefix)+1:]
	}
	return name
}

func (g *gateFS) Open(name string) (fs.File, error) {
	f, err := g.inner.Open(name)
	if err != nil {
		return f, err
	}
	st, err2 := f.Stat()
	if err2 != nil || st.IsDir() || (g.optsExt != "" && strings.HasSuffix(name, g.optsExt)) {
		return f, err
	}
	r := g.rel(name)
	g.rec.add("O", r)
	if g.gate {
		ch := make(chan struct{})
		g.rec.mu.Lock()
		if !g.rec.stop {
			g.rec.blocked = append(g.rec.blocked, ch)
			g.rec.cond.Broadcast()
			g.rec.mu.Unlock()
			<-ch
		} else {
			g.rec.mu.Unlock()
		}
	}
	return &gateFile{File: f, g: g, name: r}, nil
}

func (g *gateFS) ReadDir(name string) ([]fs.DirEntry, error) { return fs.ReadDir(g.inner, name) }

type gateFile struct {
	fs.File
	g    *gateFS
	name string
	once sync.Once
}

func (f *gateFile) Close() error {
	f.once.Do(func() { f.g.rec.add("D", f.name) })
	return f.File.Close()
}

// controller releases blocked opens one at a time, in an order drawn from the PRNG, after
// letting the other workers reach the gate.
func (r *recorder) controller(rg *rng.R, settle time.Duration, done <-chan struct{}) {
	for {
		r.mu.Lock()
		for len(r.blocked) == 0 && !r.stop {
			r.cond.Wait()
		}
		if r.stop {
			for _, ch := range r.blocked {
				close(ch)
			}
			r.blocked = nil
			r.mu.Unlock()
			return
		}
		r.mu.Unlock()
		select {
		case <-done:
		case <-time.After(settle):
		}
		r.mu.Lock()
		if n := len(r.blocked); n > 0 {
			i := rg.Intn(n)
			ch := r.blocked[i]
			r.blocked = append(r.blocked[:i], r.blocked[i+1:]...)
			close(ch)
		}
		r.mu.Unlock()
	}
}

// ---------------------------------------------------------------- running one case

type outcome struct {
	Skipped bool // not run: the process already saw a hang
	Hang    bool
	Panic   string
	Err     error
	Files   []*ach.File
	Events  []event
	Elapsed time.Duration
}

// hangs counts watchdog expiries of this process; after the first, further runs are not attempted
// (each costs the full watchdog and leaks the goroutines of the stuck MergeDir).
var hangs int

func runMergeDir(c *Case, gate bool, accept func(string) ach.FileAcceptance) outcome {
	if hangs >= 1 {
		return outcome{Hang: true, Skipped: true}
	}
	rec := &recorder{}
	rec.cond = sync.NewCond(&rec.mu)
	prefix := path.Clean(c.Dir)
	if prefix == "." {
		prefix = ""
	}
	g := &gateFS{inner: c.mapFS(), rec: rec, optsExt: c.OptsExt, gate: gate, prefix: prefix}
	opts := &ach.MergeDirOptions{FS: g, ParseWorkers: c.Workers, SubDirectories: c.Sub, ValidateOptsExtension: c.OptsExt}
	if accept != nil {
		opts.AcceptFile = func(p string) ach.FileAcceptance {
			a := accept(p)
			rec.mu.Lock()
			rec.events = append(rec.events, event{"S", p})
			if a == ach.SkipFile {
				rec.events = append(rec.events, event{"D", p})
			}
			rec.mu.Unlock()
			return a
		}
	}
	type res struct {
		files []*ach.File
		err   error
		pan   string
	}
	done := make(chan res, 1)
	fin := make(chan struct{})
	t0 := time.Now()
	go func() {
		var r res
		defer func() {
			if x := recover(); x != nil {
				r.pan = fmt.Sprint(x)
			}
			done <- r
			close(fin)
		}()
		r.files, r.err = ach.MergeDir(c.Dir, ach.Conditions{MaxLines: c.MaxLines, MaxDollarAmount: c.MaxDollar}, opts)
	}()
	if gate {
		go rec.controller(rng.New(c.ReleaseSeed), 150*time.Microsecond, fin)
	}
	var o outcome
	select {
	case r := <-done:
		o.Files, o.Err, o.Panic = r.files, r.err, r.pan
	case <-time.After(watchdog):
		o.Hang = true
		hangs++
	}
	o.Elapsed = time.Since(t0)
	rec.mu.Lock()
	rec.stop = true
	rec.cond.Broadcast()
	o.Events = append([]event{}, rec.events...)
	rec.mu.Unlock()
	return o
}

// ---------------------------------------------------------------- canonical content

func bhKey(bh *ach.BatchHeader) string {
	if bh == nil {
		return "nil"
	}
	c := *bh
	c.BatchNumber = 0
	return c.String()
}

// canon maps "origin|destination" to the sorted multiset of (batch header sans number, entry, addenda).
func canon(files []*ach.File) map[string][]string {
	out := map[string][]string{}
	for _, f := range files {
		if f == nil {
			out["nil-file"] = append(out["nil-file"], "nil")
			continue
		}
		k := f.Header.ImmediateOrigin + "|" + f.Header.ImmediateDestination
		for _, b := range f.Batches {
			hk := bhKey(b.GetHeader())
			for _, e := range b.GetEntries() {
				out[k] = append(out[k], hk+"\n"+entryText(e))
			}
		}
		if _, ok := out[k]; !ok {
			out[k] = nil
		}
	}
	for k := range out {
		sort.Strings(out[k])
	}
	return out
}

func entryText(e *ach.EntryDetail) string {
	var b strings.Builder
	b.WriteString(e.String())
	if e.Addenda02 != nil {
		b.WriteString("\n" + e.Addenda02.String())
	}
	for _, a := range e.Addenda05 {
		b.WriteString("\n" + a.String())
	}
	if e.Addenda98 != nil {
		b.WriteString("\n" + e.Addenda98.String())
	}
	if e.Addenda98Refused != nil {
		b.WriteString("\n" + e.Addenda98Refused.String())
	}
	if e.Addenda99 != nil {
		b.WriteString("\n" + e.Addenda99.String())
	}
	if e.Addenda99Contested != nil {
		b.WriteString("\n" + e.Addenda99Contested.String())
	}
	if e.Addenda99Dishonored != nil {
		b.WriteString("\n" + e.Addenda99Dishonored.String())
	}
	return b.String()
}

func lineCount(f *ach.File) int {
	n := 2
	for _, b := range f.Batches {
		n += 2
		for _, e := range b.GetEntries() {
			n += 1 + strings.Count(entryText(e), "\n")
		}
	}
	return n
}

func diffCanon(got, want map[string][]string) (kind string, detail string) {
	for k, w := range want {
		g, ok := got[k]
		if !ok {
			if len(w) == 0 {
				continue
			}
			return "missing-entries", fmt.Sprintf("no output for origin|destination %s (%d entries expected)", k, len(w))
		}
		if len(g) < len(w) {
			return "missing-entries", fmt.Sprintf("%s: %d entries, MergeFiles has %d", k, len(g), len(w))
		}
		if len(g) > len(w) {
			return "extra-entries", fmt.Sprintf("%s: %d entries, MergeFiles has %d", k, len(g), len(w))
		}
		for i := range w {
			if g[i] != w[i] {
				return "different-entries", fmt.Sprintf("%s: entry %d differs:\n%s\n--- MergeFiles:\n%s", k, i, g[i], w[i])
			}
		}
	}
	for k, g := range got {
		if _, ok := want[k]; !ok && len(g) > 0 {
			return "extra-entries", fmt.Sprintf("output for origin|destination %s which MergeFiles does not produce", k)
		}
	}
	return "", ""
}

// ---------------------------------------------------------------- the oracle on one case

type failure struct {
	Key  string
	What string
}

type verdict struct {
	Fails     []failure
	Accepted  int
	Bad       int
	Nested    bool
	Overlap   int // maximum number of data files open at the same time
	Signature string
	Result    string
}

func class(c *Case) string {
	w := "default"
	if c.Workers > 0 {
		w = fmt.Sprintf("w%d", c.Workers)
	}
	s := "flat"
	if c.Sub {
		s = "sub"
	}
	return w + ":" + s
}

func evaluate(c *Case) verdict {
	var v verdict
	walk := c.specWalk()
	var acc []string
	for _, p := range walk {
		if strings.Contains(p, "/") {
			v.Nested = true
		}
		if specAccept(p) != ach.SkipFile {
			acc = append(acc, p)
		}
	}
	v.Accepted = len(acc)
	var files []*ach.File
	var firstBad string
	for _, p := range acc {
		f, err := c.specRead(p)
		if err != nil || f == nil {
			v.Bad++
			if firstBad == "" {
				firstBad = p
			}
			continue
		}
		files = append(files, f)
	}
	var want []*ach.File
	var wantErr error
	if v.Bad == 0 {
		want, wantErr = ach.MergeFilesWith(files, ach.Conditions{MaxLines: c.MaxLines, MaxDollarAmount: c.MaxDollar})
	}
	var accept func(string) ach.FileAcceptance
	if !c.NilAccept {
		accept = ach.DefaultFileAcceptor
	}
	o := runMergeDir(c, true, accept)
	cl := class(c)
	fail := func(key, what string) { v.Fails = append(v.Fails, failure{key, what + " [" + cl + "]"}) }
	// overlap of opens
	open, max := 0, 0
	opened := map[string]int{}
	for _, e := range o.Events {
		switch e.Kind {
		case "O":
			open++
			opened[e.Path]++
			if open > max {
				max = open
			}
		case "D":
			if opened[e.Path] > 0 {
				open--
			}
		}
	}
	v.Overlap = max
	switch {
	case o.Skipped:
		v.Result = "skipped-after-hangs"
		return v
	case o.Hang:
		v.Result = "hang"
		k := "mergedir:hang"
		if v.Bad > 0 {
			k = "mergedir:hang:unparseable-files"
		}
		fail(k, fmt.Sprintf("MergeDir did not return within %s (%d accepted files, %d unparseable)", watchdog, v.Accepted, v.Bad))
		return v
	case o.Panic != "":
		v.Result = "panic"
		fail("mergedir:panic", "MergeDir panicked: "+o.Panic)
		return v
	}
	nworkers := c.Workers
	if nworkers <= 0 {
		nworkers = 50
	}
	if max > nworkers {
		fail("mergedir:more-readers-than-workers", fmt.Sprintf("%d files open at once with %d parse workers", max, nworkers))
	}
	// files that must not be read / must be read
	accSet := map[string]bool{}
	for _, p := range acc {
		accSet[p] = true
	}
	for p, n := range opened {
		if !accSet[p] {
			fail("mergedir:opened-unaccepted-file", fmt.Sprintf("MergeDir opened %q which the acceptor skips or which is outside the walk", p))
		} else if n > 1 {
			fail("mergedir:file-read-twice", fmt.Sprintf("MergeDir opened %q %d times", p, n))
		}
	}
	if v.Bad > 0 {
		v.Result = "err"
		if o.Err == nil {
			fail("mergedir:unparseable-file-ignored", fmt.Sprintf("accepted file %q cannot be parsed but MergeDir returned no error (%d output files)", firstBad, len(o.Files)))
		}
		return v
	}
	if wantErr != nil {
		v.Result = "mergefiles-err"
		if o.Err == nil {
			fail("mergedir:ok-where-mergefiles-fails", "MergeFiles fails on the accepted files ("+wantErr.Error()+") but MergeDir returned no error")
		}
		return v
	}
	if o.Err != nil {
		v.Result = "unexpected-err"
		fail("mergedir:error-on-parseable-directory", "every accepted file parses and MergeFiles succeeds, MergeDir returned: "+o.Err.Error())
		return v
	}
	v.Result = "ok"
	for p := range accSet {
		if opened[p] == 0 {
			fail("mergedir:accepted-file-not-read", fmt.Sprintf("MergeDir returned no error but never opened accepted file %q", p))
			break
		}
	}
	if k, d := diffCanon(canon(o.Files), canon(want)); k != "" {
		fail("mergedir:"+k, d)
	}
	// validity and limits, relative to MergeFiles on the same input
	wantValid, wantMax := true, 0
	for _, f := range want {
		if f.Validate() != nil {
			wantValid = false
		}
		if n := lineCount(f); n > wantMax {
			wantMax = n
		}
	}
	for i, f := range o.Files {
		if f == nil {
			continue
		}
		if err := f.Validate(); err != nil && wantValid {
			fail("mergedir:invalid-output", fmt.Sprintf("output file %d does not validate (%v) while every MergeFiles output does", i, err))
			break
		}
		if n := lineCount(f); c.MaxLines > 0 && n > c.MaxLines && wantMax <= c.MaxLines {
			fail("mergedir:line-limit-exceeded", fmt.Sprintf("output file %d has %d lines, limit %d (MergeFiles stays within it)", i, n, c.MaxLines))
			break
		}
	}
	return v
}

// ---------------------------------------------------------------- generators

var stems = []string{"a", "b", "c", "m1", "data", "File", "x.y", "", "zz"}
var exts = []string{"", ".ach", ".txt", ".json", ".ACH", ".Txt", ".JSON", ".xml", ".csv", ".ach.bak", ".", ".achx", ".Json"}
var dirNames = []string{"d1", "sub", "in.ach", "z", "K", "nested.json", "2024.10", "batch.d", "v1.2.old"}

type content struct {
	text  string
	jsonT string
}

// pool of valid files sharing a few origin/destination pairs, so that merging really groups
type pool struct {
	heads []ach.FileHeader
	// JSON documents of files valid only under the validateOpts member they carry (no side-car involved)
	optsJSON []string
	files    []content
	empty content // a file without batches: parses only with allowZeroBatches
}

func newPool(r *rng.R, n int) *pool {
	p := &pool{}
	o := gen.Opts{ForwardOnly: true, SECs: []string{"PPD", "CCD", "WEB", "TEL"}, MaxBatches: 2, MaxEntries: 3}
	for i := 0; i < 3; i++ {
		p.heads = append(p.heads, gen.Header(r, o))
	}
	for len(p.files) < n {
		oo := o
		if r.Chance(1, 4) {
			oo.Addenda = true
		}
		if r.Chance(1, 6) {
			oo.IAT = true
		}
		f := gen.File(r, oo)
		h := p.heads[r.Intn(len(p.heads))]
		f.Header.ImmediateOrigin, f.Header.ImmediateDestination = h.ImmediateOrigin, h.ImmediateDestination
		f.Header.ImmediateOriginName, f.Header.ImmediateDestinationName = h.ImmediateOriginName, h.ImmediateDestinationName
		if err := f.Create(); err != nil {
			continue
		}
		t, err := gen.Text(f, r.Chance(1, 5))
		if err != nil {
			continue
		}
		if _, err := gen.Parse(t); err != nil {
			continue
		}
		j, err := json.Marshal(f)
		if err != nil {
			continue
		}
		if _, err := ach.FileFromJSON(j); err != nil {
			continue
		}
		p.files = append(p.files, content{t, string(j)})
		if len(p.optsJSON) < 6 {
			if g, _ := gen.NeedsOpts(r, f); g != nil && g.GetValidation() != nil && g.GetValidation().CheckTransactionCode == nil {
				if gj, err := json.Marshal(g); err == nil {
					_, e1 := ach.FileFromJSON(gj)
					_, e2 := ach.FileFromJSONWith(gj, &ach.ValidateOpts{})
					if e1 == nil && e2 != nil {
						p.optsJSON = append(p.optsJSON, string(gj))
					}
				}
			}
		}
	}
	// header + control only
	f := ach.NewFile()
	f.Header = p.heads[0]
	f.SetValidation(&ach.ValidateOpts{AllowZeroBatches: true})
	if err := f.Create(); err == nil {
		var buf bytes.Buffer
		if err := ach.NewWriter(&buf).Write(f); err == nil {
			p.empty.text = buf.String()
		}
	}
	return p
}

// needsOpts damages a valid Nacha text so that it only parses under a ValidateOpts setting, and
// returns that setting as the JSON of a side-car file.
func needsOpts(r *rng.R, text string) (string, string) {
	return needsOptsKind(r.Bool(), text)
}

func needsOptsKind(dest bool, text string) (string, string) {
	b := []byte(text)
	if dest && len(b) > 13 && b[0] == '1' {
		// break the check digit of ImmediateDestination (columns 5-13 of the file header)
		if b[12] == '4' {
			b[12] = '5'
		} else {
			b[12] = '4'
		}
		return string(b), `{"bypassDestinationValidation":true}`
	}
	// trace numbers that do not start with the batch's ODFI
	lines := strings.Split(text, "\n")
	for i, l := range lines {
		if len(l) == 94 && l[0] == '6' {
			lb := []byte(l)
			if lb[79] == '9' {
				lb[79] = '8'
			} else {
				lb[79] = '9'
			}
			lines[i] = string(lb)
		}
	}
	return strings.Join(lines, "\n"), `{"customTraceNumbers":true}`
}

// needsOptsJSON: the JSON document of a file that is valid only under the options of its side-car file: the text of
// needsOptsKind read under those options and encoded, with the document's own validateOpts member taken out again
// (so that the side-car is the only place the options come from).  "" when the library refuses any step.
func needsOptsJSON(dest bool, text string) (string, string) {
	t, oj := needsOptsKind(dest, text)
	var o ach.ValidateOpts
	if json.Unmarshal([]byte(oj), &o) != nil {
		return "", ""
	}
	rd := ach.NewReader(strings.NewReader(t))
	rd.SetValidation(&o)
	f, err := rd.Read()
	if err != nil {
		return "", ""
	}
	bs, err := json.Marshal(&f)
	if err != nil {
		return "", ""
	}
	var m map[string]json.RawMessage
	if json.Unmarshal(bs, &m) != nil {
		return "", ""
	}
	delete(m, "validateOpts")
	out, err := json.Marshal(m)
	if err != nil {
		return "", ""
	}
	return string(out), oj
}

var garbage = []string{"garbage\n", "", "101 not a header\n", "{\"fileHeader\":", "9999999999999999999999999999999999999999999999999999999999999999999999999999999999999999999999\n"}

func (p *pool) bad(r *rng.R) string {
	if r.Chance(1, 3) {
		t := p.files[r.Intn(len(p.files))].text
		return t[:len(t)/2+r.Intn(40)] // truncated in the middle of a record or before the control records
	}
	return garbage[r.Intn(len(garbage))]
}

// badJSON is a JSON document that decodes into a file but does not pass Create / Validate (FileFromJSON
// returns the partially built file together with the error): descending batch numbers, or a lower-case
// file ID modifier.  MergeDir must report it like any other unreadable file.
func (p *pool) badJSON(r *rng.R) string {
	c := p.files[r.Intn(len(p.files))]
	var doc map[string]any
	if json.Unmarshal([]byte(c.jsonT), &doc) != nil {
		return garbage[3]
	}
	bs, _ := doc["batches"].([]any)
	if len(bs) >= 2 && r.Bool() {
		n := len(bs)
		for i, b := range bs {
			m, _ := b.(map[string]any)
			for _, k := range []string{"batchHeader", "batchControl"} {
				if h, ok := m[k].(map[string]any); ok {
					h["batchNumber"] = n - i + 1
				}
			}
		}
	} else if h, ok := doc["fileHeader"].(map[string]any); ok {
		h["fileIDModifier"] = "a"
	}
	out, err := json.Marshal(doc)
	if err != nil {
		return garbage[3]
	}
	return string(out)
}

type genOpts struct {
	maxFiles int
	badRate  int // of 100 accepted files
	depth    int
}

func genCase(r *rng.R, p *pool, g genOpts) *Case {
	c := &Case{Files: map[string]string{}, Dir: ".", ReleaseSeed: r.U64()}
	switch r.Intn(5) {
	case 0:
		c.Dir = "in"
	case 1:
		c.Dir = "root/inbox"
	}
	c.Sub = r.Chance(3, 5)
	c.Workers = []int{1, 2, 3, 0, 1, 2}[r.Intn(6)]
	c.NilAccept = r.Chance(1, 3)
	if r.Chance(1, 3) {
		c.OptsExt = ".opts"
	}
	switch r.Intn(6) {
	case 0:
		c.MaxLines = 10 + r.Intn(30)
	case 1:
		c.MaxLines = ach.NACHAFileLineLimit
	case 2:
		c.MaxDollar = int64(1000 + r.Intn(1000000))
	}
	budget := 2 + r.Intn(g.maxFiles-1)
	if r.Chance(1, 10) {
		budget = r.Intn(2)
	}
	bad := r.Intn(100) < g.badRate
	usedPool := map[int]bool{}
	pick := func() content { // mostly without replacement: the same file under two names is the rarer case
		for try := 0; try < 8; try++ {
			i := r.Intn(len(p.files))
			if !usedPool[i] || r.Chance(1, 8) {
				usedPool[i] = true
				return p.files[i]
			}
		}
		return p.files[r.Intn(len(p.files))]
	}
	var fill func(dir string, depth int)
	fill = func(dir string, depth int) {
		used := map[string]bool{}
		n := 1 + r.Intn(4)
		if depth == 0 {
			n = 2 + r.Intn(6)
		}
		if (depth > 0 && r.Chance(1, 10)) || (depth == 0 && r.Chance(1, 40)) {
			n = 0
		}
		if n == 0 {
			c.Dirs = append(c.Dirs, dir)
		}
		for i := 0; i < n; i++ {
			if depth < g.depth && r.Chance(1, 4) {
				dn := dirNames[r.Intn(len(dirNames))]
				if used[dn] {
					continue
				}
				used[dn] = true
				c.Dirs = append(c.Dirs, dir+"/"+dn)
				fill(dir+"/"+dn, depth+1)
				continue
			}
			if budget <= 0 {
				continue
			}
			name := stems[r.Intn(len(stems))] + exts[r.Intn(len(exts))]
			if name == "" || name == "." || used[name] {
				continue
			}
			used[name] = true
			budget--
			full := dir + "/" + name
			var data string
			switch specAccept(name) {
			case ach.AcceptFile:
				data = pick().text
				if bad && r.Chance(1, 3) {
					data = p.bad(r)
				} else if c.OptsExt != "" && r.Chance(1, 4) {
					// a file that parses only with the ValidateOpts of its side-car file
					var optsJSON string
					data, optsJSON = needsOpts(r, data)
					side := strings.TrimSuffix(full, path.Ext(name)) + c.OptsExt
					if _, clash := c.Files[side]; !clash && !used[path.Base(side)] && !r.Chance(1, 8) {
						used[path.Base(side)] = true
						c.Files[side] = optsJSON
					}
				}
			case ach.AcceptAsJSON:
				data = pick().jsonT
				if len(p.optsJSON) > 0 && r.Chance(1, 5) {
					data = p.optsJSON[r.Intn(len(p.optsJSON))] // valid under the options the document itself carries
				} else if c.OptsExt != "" && r.Chance(1, 4) {
					// a JSON document that parses only with the ValidateOpts of its side-car file
					if dj, oj := needsOptsJSON(r.Bool(), pick().text); dj != "" {
						side := strings.TrimSuffix(full, path.Ext(name)) + c.OptsExt
						if _, clash := c.Files[side]; !clash && !used[path.Base(side)] {
							used[path.Base(side)] = true
							c.Files[side] = oj
							data = dj
						}
					}
				}
				if bad && r.Chance(1, 3) {
					if r.Bool() {
						data = p.badJSON(r)
					} else {
						data = p.bad(r)
					}
				}
			default:
				data = garbage[r.Intn(len(garbage))]
				if r.Chance(1, 3) {
					data = p.files[r.Intn(len(p.files))].text // a good file the acceptor must still skip
				}
			}
			c.Files[full] = data
		}
	}
	root := path.Clean(c.Dir)
	fill(root, 0)
	if c.OptsExt != "" && r.Chance(1, 3) {
		// options must not travel between files: a file with a side-car, and (later in directory order) one or
		// two files that need the very same options but have no side-car of their own
		kind := r.Bool()
		d1, oj := needsOptsKind(kind, pick().text)
		c.Files[root+"/aa_opts.ach"] = d1
		c.Files[root+"/aa_opts"+c.OptsExt] = oj
		for _, n := range []string{"zy_noopts.ach", "zz_noopts.txt"}[:1+r.Intn(2)] {
			d2, _ := needsOptsKind(kind, pick().text)
			c.Files[root+"/"+n] = d2
		}
	}
	// strip the "./" prefix of paths below "."
	if root == "." {
		nf := map[string]string{}
		for k, v := range c.Files {
			nf[strings.TrimPrefix(k, "./")] = v
		}
		c.Files = nf
		var nd []string
		for _, d := range c.Dirs {
			if d = strings.TrimPrefix(d, "./"); d != "." && d != "" {
				nd = append(nd, d)
			}
		}
		c.Dirs = nd
	}
	sort.Strings(c.Dirs)
	return c
}

// ---------------------------------------------------------------- oracle mode

func loadCorpus(dir string) []*Case {
	var out []*Case
	ents, _ := os.ReadDir(dir)
	for _, e := range ents {
		if !strings.HasSuffix(e.Name(), ".json") {
			continue
		}
		if c := loadCase(filepath.Join(dir, e.Name())); c != nil {
			out = append(out, c)
		}
	}
	return out
}

func loadCase(p string) *Case {
	bs, err := os.ReadFile(p)
	if err != nil {
		return nil
	}
	var wrap struct {
		Input *Case `json:"input"`
	}
	if json.Unmarshal(bs, &wrap) == nil && wrap.Input != nil && wrap.Input.Files != nil {
		return wrap.Input
	}
	var c Case
	if json.Unmarshal(bs, &c) == nil && c.Dir != "" {
		if c.Files == nil {
			c.Files = map[string]string{}
		}
		return &c
	}
	return nil
}

func oracle(args []string) {
	fl := flag.NewFlagSet("oracle", flag.ExitOnError)
	out := fl.String("out", "", "output directory")
	n := fl.Int("n", 300, "number of generated cases")
	corpus := fl.String("corpus", "", "corpus directory")
	salt := fl.Uint64("salt", 10, "stream salt")
	fl.Parse(args)
	w := hx.Create(filepath.Join(*out, "oracle.jsonl"))
	defer w.Close()
	r := rng.FromEnv(*salt)
	p := newPool(r.Fork(), 24)
	dist := map[string]int{}
	sigs := map[string]bool{}
	var samples []map[string]any
	evals := 0
	run := func(c *Case, src string) {
		if hangs >= 1 {
			return
		}
		v := evaluate(c)
		evals++
		dist["result:"+v.Result]++
		dist["class:"+class(c)]++
		if v.Nested {
			dist["nested"]++
		}
		if v.Overlap >= 2 {
			dist["overlapping-reads"]++
		}
		if v.Accepted >= 2 {
			sig := fmt.Sprintf("%s|%d|%d|%v|%s|%v|%d", class(c), v.Accepted, v.Bad, v.Nested, v.Result, c.NilAccept, c.MaxLines)
			sigs[sig] = true
		}
		if len(samples) < 4 && v.Accepted >= 2 {
			samples = append(samples, map[string]any{"source": src, "class": class(c), "accepted": v.Accepted, "unparseable": v.Bad, "result": v.Result, "paths": c.specWalk()})
		}
		for _, f := range v.Fails {
			bs, _ := json.Marshal(map[string]any{"kind": "fail", "key": f.Key, "what": f.What, "case": c})
			w.Printf("%s\n", bs)
		}
	}
	for _, c := range loadCorpus(*corpus) {
		run(c, "corpus")
	}
	for i := 0; i < *n; i++ {
		g := genOpts{maxFiles: 7, badRate: 25, depth: 3}
		if i%5 == 4 {
			g.badRate = 100 // several unparseable files relative to the worker count
		}
		run(genCase(r, p, g), "generated")
	}
	bs, _ := json.Marshal(map[string]any{"kind": "summary", "evaluations": evals, "distinct_nontrivial": len(sigs),
		"rule":         "distinct (workers, SubDirectories, #accepted>=2, #unparseable, nested, result, AcceptFile nil, MaxLines) signatures of MergeDir runs over a gated in-memory fs.FS, each compared with MergeFilesWith over the accepted files",
		"distribution": dist, "samples": samples})
	w.Printf("%s\n", bs)
}

// ---------------------------------------------------------------- replay

func replay(args []string) {
	if len(args) < 1 {
		fmt.Println("usage: c10 replay FILE")
		cleanup()
		os.Exit(2)
	}
	c := loadCase(args[0])
	if c == nil {
		fmt.Println("cannot read a case from", args[0])
		cleanup()
		os.Exit(2)
	}
	fmt.Printf("case: dir=%q sub=%v workers=%d optsExt=%q nilAccept=%v maxLines=%d\nwalk (spec): %v\n", c.Dir, c.Sub, c.Workers, c.OptsExt, c.NilAccept, c.MaxLines, c.specWalk())
	bad := 0
	if c.Forced {
		bad += replayForced(c)
	}
	for i := 0; i < 5; i++ { // a few release orders
		v := evaluate(c)
		fmt.Printf("run %d: result=%s accepted=%d unparseable=%d overlap=%d\n", i, v.Result, v.Accepted, v.Bad, v.Overlap)
		for _, f := range v.Fails {
			fmt.Printf("  FAIL %s: %s\n", f.Key, f.What)
			bad++
		}
		if v.Result == "hang" {
			break
		}
		c.ReleaseSeed++
	}
	cleanup()
	if bad > 0 {
		os.Exit(1)
	}
	fmt.Println("property holds on this case")
}

var _ = io.EOF

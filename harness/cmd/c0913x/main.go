// Command c0913x: phase-5 correspondence and oracle for C09 (merge outputs valid under the options
// they carry) and C13 (Reversal of a file valid only under its stored options), on inputs drawn from
// gen.NeedsOptsVariant (one variant per relaxation flag of ValidateOpts).
//
//	c0913x merge -out DIR -n N [-corpus DIR]
//	c0913x rev   -out DIR -n N [-corpus DIR]
//	c0913x replay FILE
//
// Each mode writes cases.txt (input of the extracted model, ocaml/c09opts resp. ocaml/c13opts),
// impl.txt (what the real code did, in the format the driver prints), specs.jsonl (one replayable
// case per line) and oracle.jsonl (failure records + one summary).
//
// merge: the inputs as the validator model under options sees them (file / batch / record options,
// header fields, control records, entries), MergeFilesWith under random Conditions; compared: the three
// validity verdicts of every input file (as stored / file and batch options removed / all options
// removed; exact for the variants whose damage the model sees), and for every output file routing pair,
// header id, option value, file control, per batch number, header id, option value, control record,
// (entry id, trace number after Create), the verdict of File.Validate() under the carried options and
// (model-visible variants) of the same file with every option taken away.
//
// rev: a file of forward PPD / CCD / CTX / WEB batches damaged by one variant; File.Reversal; compared:
// option values of file, batches and entry records, date / time, file control, per batch numbers of header
// and control, both classes, description, date, control totals / count / hash, per entry code, amount,
// trace number; the verdict of Validate() of the result (reversible files); a second Reversal.
package main

import (
	"encoding/json"
	"flag"
	"fmt"
	"os"
	"path/filepath"
	"reflect"
	"sort"
	"strconv"
	"strings"
	"time"
	"unsafe"

	"github.com/moov-io/ach"

	"verifharness/internal/gen"
	"verifharness/internal/hx"
	"verifharness/internal/optsdom"
	"verifharness/internal/rng"
)

// ---------------------------------------------------------------- option values

func ctc1(code int) error {
	if code == 91 {
		return fmt.Errorf("refused by function 1")
	}
	return nil
}

// ctcID identifies a CheckTransactionCode function by behaviour: 0 nil, 1 refuses 91 only,
// 4 gen.AnyTransactionCode (two digit codes), 9 anything else.  ocaml drivers: csem.
func ctcID(f func(int) error) int {
	if f == nil {
		return 0
	}
	if f(91) != nil && f(92) == nil && f(5) == nil {
		return 1
	}
	if f(5) != nil && f(100) != nil && f(10) == nil && f(91) == nil && f(99) == nil {
		return 4
	}
	return 9
}

func token(o *ach.ValidateOpts) string {
	if o == nil {
		return "-"
	}
	var b strings.Builder
	v := reflect.ValueOf(*o)
	for i := 0; i < v.NumField(); i++ {
		if v.Field(i).Kind() == reflect.Bool {
			if v.Field(i).Bool() {
				b.WriteByte('1')
			} else {
				b.WriteByte('0')
			}
		}
	}
	return fmt.Sprintf("%s:%d", b.String(), ctcID(o.CheckTransactionCode))
}

// entryOpts reads the unexported validateOpts of an entry record.
func entryOpts(e *ach.EntryDetail) *ach.ValidateOpts {
	v := reflect.ValueOf(e).Elem().FieldByName("validateOpts")
	if !v.IsValid() {
		return nil
	}
	return *(**ach.ValidateOpts)(unsafe.Pointer(v.UnsafeAddr()))
}

type interner struct{ m map[string]int }

func (i *interner) of(s string) int {
	if v, ok := i.m[s]; ok {
		return v
	}
	v := len(i.m) + 1
	i.m[s] = v
	return v
}

func guard(fn func()) (p any) {
	defer func() { p = recover() }()
	fn()
	return nil
}

func b2i(b bool) int {
	if b {
		return 1
	}
	return 0
}

// cloneKeep clones a file keeping the options stored on every batch (gen.Clone gives every batch
// the file's).
func cloneKeep(f *ach.File) *ach.File {
	c := gen.Clone(f)
	for i := range f.Batches {
		c.Batches[i].SetValidation(optsdom.BatchOpts(f.Batches[i]))
	}
	return c
}

// visible: the variants whose damage the validator model under options sees (ArithOpts.v).
var visible = map[string]bool{
	"bypass-origin": true, "bypass-origin-traces": true, "bypass-destination": true, "custom-trace-numbers": true,
	"allow-zero-batches": true, "allow-missing-file-header": true, "unordered-batch-numbers": true,
	"unequal-service-class": true, "unequal-addenda-counts-control": true, "invalid-check-digit": true,
	"check-transaction-code": true, "plain": true, "short-traces": true,
}

// verdicts: File.Validate() (+ nothing else: no IAT / ADV here) as stored, with the options of file and
// batches removed, with every option removed.
func verdicts(f *ach.File) string {
	v := func(c *ach.File) int {
		var err error
		if p := guard(func() { err = gen.ValidAll(c) }); p != nil {
			return 0
		}
		return b2i(err == nil)
	}
	a := cloneKeep(f)
	b := cloneKeep(f)
	b.SetValidation(nil)
	for _, x := range b.Batches {
		x.SetValidation(nil)
	}
	c := cloneKeep(f)
	gen.ApplyOptsDeep(c, nil)
	return fmt.Sprintf("%d%d%d", v(a), v(b), v(c))
}

// dropIAT removes IAT batches (MergeFilesWith ignores them, Reversal leaves them alone).
func dropIAT(f *ach.File) bool {
	if len(f.IATBatches) == 0 {
		return true
	}
	f.IATBatches = nil
	return f.Create() == nil
}

// narrow moves the option set to the batches only or to the file only when the file stays valid.
func narrow(r *rng.R, f *ach.File) {
	fo := f.GetValidation()
	var bo []*ach.ValidateOpts
	for _, b := range f.Batches {
		bo = append(bo, optsdom.BatchOpts(b))
	}
	switch r.Intn(4) {
	case 0:
		for _, b := range f.Batches {
			b.SetValidation(nil)
		}
	case 1:
		f.SetValidation(nil)
	default:
		return
	}
	if gen.ValidAll(f) != nil {
		f.SetValidation(fo)
		for i, b := range f.Batches {
			b.SetValidation(bo[i])
		}
	}
}

type spec struct {
	X    string `json:"x"` // "c09opts" | "c13opts"
	Seed uint64 `json:"seed"`
}

type failure struct {
	Kind string `json:"kind"`
	Key  string `json:"key"`
	What string `json:"what"`
	Case spec   `json:"case"`
}

// ---------------------------------------------------------------- merge

type mergeInput struct {
	f       *ach.File
	variant string
}

func variantOf(r *rng.R) *gen.OptVariant {
	vs := gen.OptVariants()
	return vs[r.Intn(len(vs))]
}

// shifted: a clone whose standard entries get trace numbers 5000 higher (same prefix), so that it
// joins the batches of the original.
func shifted(f *ach.File) *ach.File {
	c := cloneKeep(f)
	for _, b := range c.Batches {
		for _, e := range b.GetEntries() {
			if len(e.TraceNumber) != 15 {
				return nil
			}
			var seq int
			if _, err := fmt.Sscanf(e.TraceNumber[8:], "%d", &seq); err != nil {
				return nil
			}
			e.TraceNumber = e.TraceNumber[:8] + fmt.Sprintf("%07d", (seq+5000)%10000000)
		}
	}
	return c
}

// shortTraces: a forward file under BypassOriginValidation whose trace numbers are short decimal
// strings of mixed width ("9", "10", "113"): Go's string order (what the tree-map of the merge and
// isSequenceAscending use) and the order of the zero padded fields differ.  Kept only if it validates.
func shortTraces(r *rng.R) *ach.File {
	f := gen.File(r, gen.Opts{SECs: []string{ach.PPD, ach.CCD, ach.WEB}, ForwardOnly: true, MaxBatches: 2, MaxEntries: 4})
	if f == nil || len(f.IATBatches) > 0 {
		return nil
	}
	byValue := r.Chance(1, 3)
	for _, b := range f.Batches {
		es := b.GetEntries()
		seen := map[int]bool{}
		var nums []int
		for len(nums) < len(es) {
			if n := 1 + r.Intn(1200); !seen[n] {
				seen[n] = true
				nums = append(nums, n)
			}
		}
		strs := make([]string, len(nums))
		sort.Ints(nums)
		for i, n := range nums {
			strs[i] = strconv.Itoa(n)
		}
		if !byValue {
			sort.Strings(strs)
		}
		for i, e := range es {
			e.TraceNumber = strs[i]
		}
	}
	gen.ApplyOpts(f, &ach.ValidateOpts{BypassOriginValidation: true})
	for _, b := range f.Batches {
		if b.Create() != nil {
			return nil
		}
	}
	if f.Create() != nil || gen.ValidAll(f) != nil {
		return nil
	}
	return f
}

func mergeInputs(r *rng.R) []mergeInput {
	v := variantOf(r)
	g := gen.NeedsOptsOf(r, v)
	if g == nil || g.IsADV() {
		return nil
	}
	ins := []mergeInput{{g, v.Name}}
	if r.Chance(2, 3) {
		v2 := v
		if r.Bool() {
			v2 = variantOf(r)
		}
		if h := gen.NeedsOptsOf(r, v2); h != nil && !h.IsADV() {
			name := v2.Name
			if r.Bool() {
				h.Header.ImmediateOrigin, h.Header.ImmediateDestination = g.Header.ImmediateOrigin, g.Header.ImmediateDestination
				_ = h.Create()
				if name == "allow-missing-file-header" {
					// the routing fields are filled now; what is still missing is outside the validator model
					name += "+routed"
				}
			}
			ins = append(ins, mergeInput{h, name})
		}
	}
	if r.Chance(1, 3) {
		p := gen.File(r, gen.Opts{ForwardOnly: true, MaxBatches: 2})
		p.Header.ImmediateOrigin, p.Header.ImmediateDestination = g.Header.ImmediateOrigin, g.Header.ImmediateDestination
		if p.Create() == nil {
			ins = append(ins, mergeInput{p, "plain"})
		}
	}
	if r.Chance(1, 4) {
		if c := shifted(g); c != nil {
			ins = append(ins, mergeInput{c, v.Name})
		}
	}
	if r.Chance(1, 5) {
		if s := shortTraces(r); s != nil {
			if r.Bool() {
				s.Header.ImmediateOrigin, s.Header.ImmediateDestination = g.Header.ImmediateOrigin, g.Header.ImmediateDestination
				_ = s.Create()
			}
			ins = append(ins, mergeInput{s, "short-traces"})
			if r.Bool() {
				if s2 := shortTraces(r); s2 != nil {
					s2.Header.ImmediateOrigin, s2.Header.ImmediateDestination = s.Header.ImmediateOrigin, s.Header.ImmediateDestination
					for i, b := range s2.Batches {
						if i < len(s.Batches) {
							// the same batch header: the entries join one tree-map
							h := *s.Batches[i].GetHeader()
							h.BatchNumber = b.GetHeader().BatchNumber
							b.SetHeader(&h)
							_ = b.Create()
						}
					}
					_ = s2.Create()
					ins = append(ins, mergeInput{s2, "short-traces"})
				}
			}
		}
	}
	if r.Chance(1, 5) {
		// one routing pair for all inputs, its origin ten characters long: the header field shows it in full only
		// under BypassOriginValidation, so inputs of one pair render it differently depending on their options
		// (the validator model under options knows no rule about the origin's length: the variant is marked as one it does not see)
		for i := range ins {
			ins[i].f.Header.ImmediateOrigin, ins[i].f.Header.ImmediateDestination = "1234567890", g.Header.ImmediateDestination
			_ = ins[i].f.Create()
			ins[i].variant += "+origin10"
		}
	}
	var out []mergeInput
	for _, in := range ins {
		if !dropIAT(in.f) {
			continue
		}
		narrow(r, in.f)
		// only inputs that validate under their options and that Batch.Create leaves alone
		if gen.ValidAll(in.f) != nil {
			continue
		}
		out = append(out, in)
	}
	if len(out) == 0 || out[0].f != g {
		return nil
	}
	if r.Chance(1, 3) && len(out) > 1 {
		out[0], out[len(out)-1] = out[len(out)-1], out[0]
	}
	return out
}

func hdrRest(h *ach.BatchHeader) string {
	return strings.Join([]string{h.CompanyDiscretionaryData, h.CompanyDescriptiveDate, h.SettlementDate, fmt.Sprint(h.OriginatorStatusCode)}, "\x00")
}

func fileRest(h *ach.FileHeader) string {
	return strings.Join([]string{h.ImmediateDestinationName, h.ImmediateOriginName, h.FileCreationDate, h.FileCreationTime, h.FileIDModifier, h.ReferenceCode}, "\x00")
}

type mergeRun struct {
	caseLine, implLine string
	fails              []failure
	label              string
	skipped            string
	notes              []string // replay only: what Validate() said
}

func runMerge(c spec) (res mergeRun) {
	defer func() {
		if p := recover(); p != nil {
			res = mergeRun{skipped: fmt.Sprint("generator panic: ", p)}
		}
	}()
	r := rng.New(c.Seed)
	ins := mergeInputs(r)
	if ins == nil {
		return mergeRun{skipped: "no-input"}
	}
	total := 2
	for _, in := range ins {
		for _, b := range in.f.Batches {
			total += 2
			for _, e := range b.GetEntries() {
				total += 1 + ach.VerifAddendaCount(e)
			}
		}
	}
	cond := ach.Conditions{}
	switch r.Intn(4) {
	case 0:
		cond.MaxLines = ach.NACHAFileLineLimit
	case 1, 2:
		cond.MaxLines = 5 + r.Intn(total+2)
	}
	if r.Chance(1, 5) {
		cond.MaxDollarAmount = int64(1 + r.Intn(200000))
	}
	ids := map[*ach.EntryDetail]int{}
	hin := &interner{m: map[string]int{}}
	fin := &interner{m: map[string]int{}}
	var cl, il strings.Builder
	fmt.Fprintf(&cl, "%d %d %d", cond.MaxLines, cond.MaxDollarAmount, len(ins))
	label := ins[0].variant
	vis := true
	for _, in := range ins {
		if !visible[in.variant] {
			vis = false
		}
	}
	fmt.Fprintf(&cl, " %d", b2i(vis))
	il.WriteString("I")
	files := make([]*ach.File, 0, len(ins))
	for _, in := range ins {
		f := in.f
		files = append(files, f)
		vd := verdicts(f)
		if vis {
			il.WriteString(" " + vd)
		} else {
			il.WriteString(" " + vd[:1] + "??")
		}
		fc := f.Control
		fmt.Fprintf(&cl, " %s %s %d %s %d %d %d %d %d %d", hx.Enc(f.Header.ImmediateOrigin), hx.Enc(f.Header.ImmediateDestination),
			fin.of(fileRest(&f.Header)), token(f.GetValidation()),
			fc.BatchCount, fc.EntryAddendaCount, fc.EntryHash, fc.TotalDebitEntryDollarAmountInFile, fc.TotalCreditEntryDollarAmountInFile,
			len(f.Batches))
		for _, b := range f.Batches {
			h := b.GetHeader()
			ctl := b.GetControl()
			if ctl == nil {
				return mergeRun{skipped: "batch-without-control"}
			}
			fmt.Fprintf(&cl, " %s %d %s %s %s %s %s %s %d %d %d %d %d %d %d %s %d %d", token(optsdom.BatchOpts(b)), h.ServiceClassCode,
				hx.Enc(h.CompanyName), hx.Enc(h.CompanyIdentification), hx.Enc(h.StandardEntryClassCode), hx.Enc(h.CompanyEntryDescription),
				hx.Enc(h.EffectiveEntryDate), hx.Enc(h.ODFIIdentification), hin.of(hdrRest(h)), h.BatchNumber,
				ctl.ServiceClassCode, ctl.EntryAddendaCount, ctl.EntryHash, ctl.TotalDebitEntryDollarAmount, ctl.TotalCreditEntryDollarAmount,
				hx.Enc(ctl.ODFIIdentification), ctl.BatchNumber, len(b.GetEntries()))
			for _, e := range b.GetEntries() {
				id := len(ids) + 1
				ids[e] = id
				fmt.Fprintf(&cl, " %s %d %d %d %d %s %s %s", hx.Enc(e.TraceNumber), e.Amount, ach.VerifAddendaCount(e), id,
					e.TransactionCode, hx.Enc(e.RDFIIdentification), hx.Enc(e.CheckDigit), token(entryOpts(e)))
			}
		}
	}
	res.caseLine = cl.String()
	res.label = label
	add := func(key, what string) {
		res.fails = append(res.fails, failure{Kind: "fail", Key: key, What: what, Case: c})
	}
	var outs []*ach.File
	var err error
	if p := guard(func() { outs, err = ach.MergeFilesWith(files, cond) }); p != nil {
		add("merge:opts5:panic", fmt.Sprint("MergeFilesWith panicked: ", p))
		res.implLine = il.String() + " | PANIC"
		return
	}
	if err != nil {
		// the model predicts an error only when a trace-number rule of Batch.Create fails
		res.implLine = il.String() + " | ERR"
		add("merge:opts5:error", fmt.Sprintf("MergeFilesWith (MaxLines %d, MaxDollarAmount %d) fails on files that validate under their options (%s): %v",
			cond.MaxLines, cond.MaxDollarAmount, label, err))
		return
	}
	fmt.Fprintf(&il, " | %d", len(outs))
	if cond.MaxLines == 0 && cond.MaxDollarAmount == 0 {
		// no limit binds: all inputs of one origin / destination pair are merged into exactly one file
		pairs := map[string]int{}
		for _, o := range outs {
			pairs[o.Header.ImmediateOrigin+"\x00"+o.Header.ImmediateDestination]++
		}
		for k, n := range pairs {
			if n > 1 {
				add("merge:opts5:pair-split", fmt.Sprintf("without limits MergeFilesWith returns %d files for the routing pair %q (inputs: %s)", n, strings.ReplaceAll(k, "\x00", " > "), label))
			}
		}
	}
	for _, o := range outs {
		var verr error
		if p := guard(func() { verr = gen.ValidAll(o) }); p != nil {
			verr = fmt.Errorf("panic: %v", p)
		}
		if verr != nil {
			add("merge:opts5:output-invalid", fmt.Sprintf("a merged file (MaxLines %d, MaxDollarAmount %d, variant %s) fails Validate() under the options it carries: %v",
				cond.MaxLines, cond.MaxDollarAmount, label, verr))
		}
		// the same file with every option taken away (model-visible variants only)
		stripped := "?"
		if vis {
			c := cloneKeep(o)
			gen.ApplyOptsDeep(c, nil)
			var serr error
			if p := guard(func() { serr = gen.ValidAll(c) }); p != nil {
				serr = fmt.Errorf("panic: %v", p)
			}
			stripped = strconv.Itoa(b2i(serr == nil))
		}
		fc := o.Control
		fmt.Fprintf(&il, " F %s %s %d %s V%dS%s %d %d %d %d %d %d", hx.Enc(o.Header.ImmediateOrigin), hx.Enc(o.Header.ImmediateDestination),
			fin.of(fileRest(&o.Header)), token(o.GetValidation()), b2i(verr == nil), stripped,
			fc.BatchCount, fc.EntryAddendaCount, fc.EntryHash, fc.TotalDebitEntryDollarAmountInFile, fc.TotalCreditEntryDollarAmountInFile,
			len(o.Batches))
		for _, b := range o.Batches {
			h := b.GetHeader()
			ctl := b.GetControl()
			fmt.Fprintf(&il, " B %d %d %s %d %d %d %d %d", h.BatchNumber, hin.of(hdrRest(h)), token(optsdom.BatchOpts(b)),
				ctl.EntryAddendaCount, ctl.EntryHash, ctl.TotalDebitEntryDollarAmount, ctl.TotalCreditEntryDollarAmount, len(b.GetEntries()))
			for _, e := range b.GetEntries() {
				id, ok := ids[e]
				if !ok {
					add("merge:opts5:foreign-entry", "an output batch holds an entry record that is none of the inputs'")
				}
				fmt.Fprintf(&il, " %d %s", id, hx.Enc(e.TraceNumber))
			}
		}
	}
	res.implLine = il.String()
	return
}

// ---------------------------------------------------------------- reversal

func revInput(r *rng.R) (*ach.File, string) {
	v := variantOf(r)
	for i := 0; i < 6; i++ {
		f := gen.File(r, gen.Opts{SECs: []string{ach.PPD, ach.CCD, ach.CTX, ach.WEB}, ForwardOnly: true, Addenda: true, MinBatches: 1, MaxBatches: 3, MaxEntries: 4})
		g := gen.NeedsOptsVariant(r, f, v)
		if g == nil || g.IsADV() || len(g.IATBatches) > 0 {
			continue
		}
		narrow(r, g)
		if gen.ValidAll(g) != nil {
			continue
		}
		return g, v.Name
	}
	return nil, v.Name
}

func allPositive(g *ach.File) bool {
	for _, b := range g.Batches {
		for _, e := range b.GetEntries() {
			if e.Amount <= 0 {
				return false
			}
		}
	}
	return true
}

func revDumpIn(f *ach.File, cl *strings.Builder) bool {
	fc := f.Control
	fmt.Fprintf(cl, " %s %s %s %d %d %d %d %d %d", token(f.GetValidation()), hx.Enc(f.Header.ImmediateOrigin), hx.Enc(f.Header.ImmediateDestination),
		fc.BatchCount, fc.EntryAddendaCount, fc.EntryHash, fc.TotalDebitEntryDollarAmountInFile, fc.TotalCreditEntryDollarAmountInFile, len(f.Batches))
	id := 0
	for _, b := range f.Batches {
		h, c := b.GetHeader(), b.GetControl()
		if c == nil {
			return false
		}
		fmt.Fprintf(cl, " %s %d %d %s %s %d %d %s %d %d %d %s %d %d", token(optsdom.BatchOpts(b)), h.ServiceClassCode, c.ServiceClassCode,
			hx.Enc(h.CompanyEntryDescription), hx.Enc(h.EffectiveEntryDate), c.TotalDebitEntryDollarAmount, c.TotalCreditEntryDollarAmount,
			hx.Enc(h.ODFIIdentification), h.BatchNumber, c.EntryAddendaCount, c.EntryHash, hx.Enc(c.ODFIIdentification), c.BatchNumber, len(b.GetEntries()))
		for _, e := range b.GetEntries() {
			id++
			fmt.Fprintf(cl, " %d %d %d %s %s %s %s %d", e.TransactionCode, e.Amount, id, token(entryOpts(e)),
				hx.Enc(e.RDFIIdentification), hx.Enc(e.CheckDigit), hx.Enc(e.TraceNumber), ach.VerifAddendaCount(e))
		}
	}
	return true
}

func revDumpOut(f *ach.File, b *strings.Builder) {
	fc := f.Control
	fmt.Fprintf(b, " %s %s %s %d %d %d %d %d %d", token(f.GetValidation()), hx.Enc(f.Header.FileCreationDate), hx.Enc(f.Header.FileCreationTime),
		fc.BatchCount, fc.EntryAddendaCount, fc.EntryHash, fc.TotalDebitEntryDollarAmountInFile, fc.TotalCreditEntryDollarAmountInFile, len(f.Batches))
	for _, x := range f.Batches {
		h, c := x.GetHeader(), x.GetControl()
		fmt.Fprintf(b, " B %s %d %d %d %d %s %s %d %d %d %d %d", token(optsdom.BatchOpts(x)), h.BatchNumber, c.BatchNumber, h.ServiceClassCode, c.ServiceClassCode,
			hx.Enc(h.CompanyEntryDescription), hx.Enc(h.EffectiveEntryDate), c.TotalDebitEntryDollarAmount, c.TotalCreditEntryDollarAmount,
			c.EntryAddendaCount, c.EntryHash, len(x.GetEntries()))
		for _, e := range x.GetEntries() {
			fmt.Fprintf(b, " %d %d %s %s", e.TransactionCode, e.Amount, hx.Enc(e.TraceNumber), token(entryOpts(e)))
		}
	}
}

func runRev(c spec) (res mergeRun) {
	defer func() {
		if p := recover(); p != nil {
			res = mergeRun{skipped: fmt.Sprint("generator panic: ", p)}
		}
	}()
	r := rng.New(c.Seed)
	g, variant := revInput(r)
	if g == nil {
		return mergeRun{skipped: "no-input"}
	}
	res.label = variant
	when := time.Date(2024, 3, 4, 10, 30, 0, 0, time.UTC)
	when2 := time.Date(2024, 3, 5, 11, 45, 0, 0, time.UTC)
	// V is compared whenever the variant's damage is visible to the validator model and no entry has a zero
	// amount (the amount rule of ValidAmountForCodes is SEC level, outside the model: a zero amount under a
	// PRENOTE description or a prenote code is the territory of the known finding of C13); the oracle
	// statements (success, validity) are owed by reversible files only
	compareV := visible[variant] && allPositive(g)
	reversible := optsdom.Reversible(g) && compareV
	var cl strings.Builder
	fmt.Fprintf(&cl, "%s %s %s %s %d", hx.Enc(when.Format("060102")), hx.Enc(when.Format("1504")),
		hx.Enc(when2.Format("060102")), hx.Enc(when2.Format("1504")), b2i(compareV))
	if !revDumpIn(g, &cl) {
		return mergeRun{skipped: "batch-without-control"}
	}
	res.caseLine = cl.String()
	add := func(key, what string) {
		res.fails = append(res.fails, failure{Kind: "fail", Key: key, What: what, Case: c})
	}
	x := cloneKeep(g)
	var err error
	if p := guard(func() { err = x.Reversal(when) }); p != nil {
		add("reversal:opts5:panic", fmt.Sprint("Reversal panicked: ", p))
		res.implLine = "PANIC"
		return
	}
	if err != nil {
		res.implLine = "ERR"
		if reversible {
			add("reversal:opts5:error", "Reversal fails on a reversible file that validates under its options ("+variant+"): "+err.Error())
		}
		return
	}
	var il strings.Builder
	il.WriteString("OK")
	revDumpOut(x, &il)
	v1 := gen.ValidAll(x)
	if v1 != nil {
		res.notes = append(res.notes, "Validate() of the reversal: "+v1.Error())
	}
	if compareV {
		fmt.Fprintf(&il, " V%d", b2i(v1 == nil))
		if v1 != nil && reversible {
			add("reversal:opts5:output-invalid", "the reversal of a reversible file ("+variant+") fails Validate() under its unchanged options: "+v1.Error())
		}
	} else {
		il.WriteString(" V-")
	}
	// trace numbers and options
	for i, b := range g.Batches {
		if token(optsdom.BatchOpts(b)) != token(optsdom.BatchOpts(x.Batches[i])) {
			add("reversal:opts5:options-changed", "the options stored on a batch changed")
		}
		for j, e := range b.GetEntries() {
			y := x.Batches[i].GetEntries()[j]
			if y.TraceNumber != e.TraceNumber {
				add("reversal:opts5:trace-number-changed", fmt.Sprintf("trace number %q became %q (%s)", e.TraceNumber, y.TraceNumber, variant))
			}
			if token(entryOpts(e)) != token(entryOpts(y)) {
				add("reversal:opts5:options-changed", "the options stored on an entry record changed")
			}
		}
	}
	if token(g.GetValidation()) != token(x.GetValidation()) {
		add("reversal:opts5:options-changed", "the options stored on the file changed")
	}
	// second reversal
	if p := guard(func() { err = x.Reversal(when2) }); p != nil || err != nil {
		il.WriteString(" | ERR")
		if reversible {
			add("reversal:opts5:twice-error", fmt.Sprint("the second Reversal fails: ", p, err))
		}
		res.implLine = il.String()
		return
	}
	il.WriteString(" | OK")
	revDumpOut(x, &il)
	v2 := gen.ValidAll(x)
	if compareV {
		fmt.Fprintf(&il, " V%d", b2i(v2 == nil))
	} else {
		il.WriteString(" V-")
	}
	if reversible {
		if v2 != nil {
			add("reversal:opts5:twice-invalid", "after two reversals the file fails Validate() under its options: "+v2.Error())
		}
		for i, b := range g.Batches {
			for j, e := range b.GetEntries() {
				y := x.Batches[i].GetEntries()[j]
				if y.TransactionCode != e.TransactionCode || y.TraceNumber != e.TraceNumber || y.Amount != e.Amount {
					add("reversal:opts5:twice-differs", "two reversals do not restore code, amount and trace number")
				}
			}
		}
	}
	res.implLine = il.String()
	return
}

// ---------------------------------------------------------------- the witness of C13_opts_valid_refuted (1) on the real code

func creditsOnly(code int) error {
	if code%10 >= 5 {
		return fmt.Errorf("debit codes are refused")
	}
	return nil
}

// witnessCTC: a PPD credit whose entry record carries a CheckTransactionCode accepting credit codes
// only validates; its Reversal does not (the function refuses 27).  true = reproduced.
func witnessCTC() (bool, string) {
	r := rng.New(7)
	for i := 0; i < 50; i++ {
		f := gen.File(r, gen.Opts{SECs: []string{ach.PPD}, ForwardOnly: true, MinBatches: 1, MaxBatches: 1, MaxEntries: 2})
		if f == nil || !optsdom.Reversible(f) {
			continue
		}
		credit := true
		for _, e := range f.Batches[0].GetEntries() {
			if e.TransactionCode%10 >= 5 {
				credit = false
			}
		}
		if !credit {
			continue
		}
		o := &ach.ValidateOpts{CheckTransactionCode: creditsOnly}
		for _, e := range f.Batches[0].GetEntries() {
			e.SetValidation(o)
		}
		if err := f.Validate(); err != nil {
			return false, "the witness does not validate: " + err.Error()
		}
		if err := f.Reversal(time.Date(2024, 3, 4, 10, 30, 0, 0, time.UTC)); err != nil {
			return true, "Reversal (File.Create) refuses: " + err.Error()
		}
		if err := f.Validate(); err == nil {
			return false, "the reversed witness validates"
		}
		return true, ""
	}
	return false, "no credit-only PPD file drawn"
}

// witnessCount: C13_opts_valid_refuted (2) on the real code — file and batch under UnequalAddendaCounts,
// the batch control says 0 entries, the file control the true count: the file validates; Reversal
// (File.Create) sums the batch controls into a file control of 0 entries while money moves, which
// FileControl.Validate refuses.  true = reproduced.
func witnessCount() (bool, string) {
	r := rng.New(11)
	for i := 0; i < 50; i++ {
		f := gen.File(r, gen.Opts{SECs: []string{ach.PPD}, ForwardOnly: true, MinBatches: 1, MaxBatches: 1, MaxEntries: 2})
		if f == nil || !optsdom.Reversible(f) {
			continue
		}
		gen.ApplyOpts(f, &ach.ValidateOpts{UnequalAddendaCounts: true})
		f.Batches[0].GetControl().EntryAddendaCount = 0
		if err := f.Validate(); err != nil {
			return false, "the witness does not validate: " + err.Error()
		}
		if err := f.Reversal(time.Date(2024, 3, 4, 10, 30, 0, 0, time.UTC)); err != nil {
			return true, "Reversal refuses: " + err.Error()
		}
		if err := f.Validate(); err == nil {
			return false, "the reversed witness validates"
		}
		return true, ""
	}
	return false, "no PPD file drawn"
}

// ---------------------------------------------------------------- driver

func corpusSpecs(dir, x string) []spec {
	var out []spec
	if dir == "" {
		return out
	}
	names, _ := filepath.Glob(filepath.Join(dir, "*.json"))
	sort.Strings(names)
	for _, p := range names {
		if s, ok := loadSpec(p); ok && s.X == x {
			out = append(out, s)
		}
	}
	return out
}

func loadSpec(path string) (spec, bool) {
	raw, err := os.ReadFile(path)
	if err != nil {
		return spec{}, false
	}
	var doc struct {
		Input *spec `json:"input"`
		Case  *spec `json:"case"`
	}
	if json.Unmarshal(raw, &doc) != nil {
		return spec{}, false
	}
	s := doc.Input
	if s == nil {
		s = doc.Case
	}
	if s == nil || (s.X != "c09opts" && s.X != "c13opts") {
		return spec{}, false
	}
	return *s, true
}

func run(mode string, args []string) {
	fs := flag.NewFlagSet(mode, flag.ExitOnError)
	out := fs.String("out", "", "output directory")
	n := fs.Int("n", 1800, "cases to draw")
	corpus := fs.String("corpus", "", "directory of committed seed cases (run first)")
	fs.Parse(args)
	x := map[string]string{"merge": "c09opts", "rev": "c13opts"}[mode]
	cases := hx.Create(filepath.Join(*out, "cases.txt"))
	impl := hx.Create(filepath.Join(*out, "impl.txt"))
	specs := hx.Create(filepath.Join(*out, "specs.jsonl"))
	orc := hx.Create(filepath.Join(*out, "oracle.jsonl"))
	r := rng.New(rng.FromEnv(map[string]uint64{"merge": 0x0909, "rev": 0x1313}[mode]).U64())
	todo := corpusSpecs(*corpus, x)
	for i := 0; i < *n; i++ {
		todo = append(todo, spec{X: x, Seed: r.U64() >> 1})
	}
	count, evals := 0, 0
	dist := map[string]int{}
	samples := []any{}
	for _, c := range todo {
		var res mergeRun
		if mode == "merge" {
			res = runMerge(c)
		} else {
			res = runRev(c)
		}
		for _, f := range res.fails {
			js, _ := json.Marshal(f)
			orc.Printf("%s\n", js)
		}
		if res.caseLine == "" {
			dist["skipped:"+res.skipped]++
			continue
		}
		evals++
		if res.skipped != "" {
			// the operation's own failure: outside the correspondence (optsdom reports it)
			dist["skipped:"+res.skipped]++
			continue
		}
		dist[res.label]++
		js, _ := json.Marshal(c)
		cases.Printf("%s\n", res.caseLine)
		impl.Printf("%s\n", res.implLine)
		specs.Printf("%s\n", js)
		count++
		if len(samples) < 3 && count%11 == 1 {
			samples = append(samples, map[string]any{"case": c, "variant": res.label, "failures": len(res.fails)})
		}
	}
	if mode == "rev" {
		if ok, why := witnessCTC(); !ok {
			js, _ := json.Marshal(failure{Kind: "fail", Key: "reversal:opts5:refutation-witness-ctc-not-reproduced",
				What: "C13_opts_valid_refuted (1) does not show on the real code: " + why, Case: spec{X: x}})
			orc.Printf("%s\n", js)
		}
		if ok, why := witnessCount(); !ok {
			js, _ := json.Marshal(failure{Kind: "fail", Key: "reversal:opts5:refutation-witness-count-not-reproduced",
				What: "C13_opts_valid_refuted (2) does not show on the real code: " + why, Case: spec{X: x}})
			orc.Printf("%s\n", js)
		}
	}
	rule := map[string]string{
		"merge": "inputs drawn from gen.NeedsOptsVariant (narrowed to file-only / batch-only options when still valid), merged under random Conditions: every output file validates under the options it carries; outputs hold input entry records only",
		"rev":   "forward PPD/CCD/CTX/WEB files damaged by one variant: Reversal succeeds on reversible files, the result and the double reversal validate under the unchanged options, trace numbers and stored options untouched",
	}[mode]
	summ := map[string]any{"kind": "summary", "evaluations": evals, "distinct_nontrivial": count, "rule": rule, "distribution": dist, "samples": samples}
	js, _ := json.Marshal(summ)
	orc.Printf("%s\n", js)
	cases.Close()
	impl.Close()
	specs.Close()
	orc.Close()
	dj, _ := json.Marshal(dist)
	fmt.Printf("{\"cases\":%d,\"evaluations\":%d,\"distribution\":%s}\n", count, evals, dj)
}

func replay(args []string) {
	if len(args) < 1 {
		fmt.Fprintln(os.Stderr, "usage: c0913x replay FILE")
		os.Exit(2)
	}
	s, ok := loadSpec(args[0])
	if !ok {
		fmt.Fprintln(os.Stderr, "not a c0913x case")
		os.Exit(2)
	}
	var res mergeRun
	if s.X == "c09opts" {
		res = runMerge(s)
	} else {
		res = runRev(s)
	}
	fmt.Println("case:", s.X, "seed:", s.Seed, "variant:", res.label)
	if res.caseLine == "" {
		fmt.Println("the seed gives no input on this tree:", res.skipped)
		return
	}
	fmt.Println("model input :", res.caseLine)
	fmt.Println("observation :", res.implLine)
	for _, n := range res.notes {
		fmt.Println("note        :", n)
	}
	if len(res.fails) == 0 {
		fmt.Println("the oracle statements hold on this input (a correspondence mismatch shows as a difference between the model's line and the observation)")
		return
	}
	for _, f := range res.fails {
		fmt.Printf("FAIL %s: %s\n", f.Key, f.What)
	}
	os.Exit(1)
}

func main() {
	if len(os.Args) < 2 {
		fmt.Fprintln(os.Stderr, "usage: c0913x merge|rev|replay ...")
		os.Exit(2)
	}
	switch os.Args[1] {
	case "merge", "rev":
		run(os.Args[1], os.Args[2:])
	case "replay":
		replay(os.Args[2:])
	default:
		fmt.Fprintln(os.Stderr, "unknown mode", os.Args[1])
		os.Exit(2)
	}
}

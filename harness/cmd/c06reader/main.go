// Command c06reader: correspondence between the shape model of ach.Reader's state machine
// (coq/Model/ReaderShape.v) and the real Reader on structure-aware line sequences.
//
//	corr   -out DIR -n N [-orders K] [-all] [-corpus DIR]   write cases.txt / impl.txt / cases.jsonl / fails.jsonl
//	replay FILE                                             re-run one case (JSON: lines (hex), opts, skip, join)
//	witnesses DIR                                           (re)write the corpus cases reader-*.json (line orders a valid file never has)
//
// A case is a list of 94-character lines.  The implementation is observed twice:
//
//	A. line by line through the verif hook Reader.VerifStep (what the loop of Read does with a line): the
//	   verdict of every line (accepted / record-level error / error of Batch.Validate) and the reader's
//	   state afterwards (currentBatch, IATCurrentBatch, File) read back by reflection;
//	B. Reader.Read on the text: accept / reject, the number of errors, the shape of the returned file.
//
// The model receives, per line, what the control flow reads from it (record type, which header parser
// parseBH selects, SEC code, service class, transaction code, OFFSET name, AddendaRecordIndicator, addenda
// type and code class — computed here with the library's own record parsers) and the verdict of the
// data-dependent checks of that line (from A); it must reproduce the verdict of every line whose error
// is structural, the state after the last line, accept / reject and the shape of the returned file.
package main

import (
	"encoding/json"
	"flag"
	"fmt"
	"os"
	"path/filepath"
	"runtime/debug"
	"sort"
	"strings"

	"github.com/moov-io/ach"
	"github.com/moov-io/base"

	"verifharness/internal/gen"
	"verifharness/internal/hx"
	"verifharness/internal/rng"
)

// Case is the replayable unit.
type Case struct {
	Lines  []string `json:"lines"` // hex
	Opts   string   `json:"opts"`  // nil | skipall | lax
	Skip   bool     `json:"skip"`  // skipBatchAccumulation
	Join   string   `json:"join"`  // lf | crlf | none
	Family string   `json:"family,omitempty"`
	Kind   string   `json:"kind"` // "reader"
}

func optsOf(name string) *ach.ValidateOpts {
	switch name {
	case "skipall":
		return &ach.ValidateOpts{SkipAll: true}
	case "lax":
		return &ach.ValidateOpts{AllowMissingFileHeader: true, AllowMissingFileControl: true, BypassOriginValidation: true,
			CustomTraceNumbers: true, UnequalServiceClassCode: true, AllowZeroBatches: true, UnequalAddendaCounts: true}
	}
	return nil
}

func joinOf(name string) string {
	switch name {
	case "crlf":
		return "\r\n"
	case "none":
		return ""
	}
	return "\n"
}

func main() {
	if len(os.Args) < 2 {
		fmt.Fprintln(os.Stderr, "usage: c06reader corr|replay ...")
		os.Exit(2)
	}
	switch os.Args[1] {
	case "corr":
		corr(os.Args[2:])
	case "replay":
		replay(os.Args[2:])
	case "witnesses":
		witnesses(os.Args[2:])
	default:
		fmt.Fprintln(os.Stderr, "unknown mode")
		os.Exit(2)
	}
}

// ---- describing a line for the model

var addendaTags = map[string]bool{"02": true, "05": true, "10": true, "11": true, "12": true, "13": true, "14": true,
	"15": true, "16": true, "17": true, "18": true}

// describe returns the tokens of one line: what reader.go reads from it to decide its control flow.
func describe(line string, opts *ach.ValidateOpts) string {
	if len(line) == 0 {
		return "UN"
	}
	switch line[:1] {
	case "1":
		return "FH"
	case "5":
		// parseBH
		rs := []rune(line)
		if len(rs) >= 53 && (string(rs[50:53]) == ach.IAT || strings.TrimSpace(string(rs[4:20])) == ach.IATCOR) {
			bh := ach.NewIATBatchHeader()
			bh.Parse(line)
			return fmt.Sprintf("BI %d %s", sccIndex(bh.ServiceClassCode), bit(bh.IATIndicator == ach.IATCOR && bh.StandardEntryClassCode == ach.COR))
		}
		bh := ach.NewBatchHeader()
		bh.SetValidation(opts)
		bh.Parse(line)
		return fmt.Sprintf("BH %d %d %s", secIndex(bh.StandardEntryClassCode), sccIndex(bh.ServiceClassCode), bit(bh.CompanyName == ach.IATCOR))
	case "6":
		ed := ach.NewEntryDetail()
		ed.SetValidation(opts)
		ed.Parse(line)
		adv := ach.NewADVEntryDetail()
		adv.Parse(line)
		ie := ach.NewIATEntryDetail()
		ie.SetValidation(opts)
		ie.Parse(line)
		return fmt.Sprintf("ED %d %s %s %d %s %d %s", codeOf(ed.TransactionCode), bit(offNamed(ed.IndividualName)), bit(ed.AddendaRecordIndicator == 1),
			codeOf(adv.TransactionCode), bit(adv.AddendaRecordIndicator == 1), codeOf(ie.TransactionCode), bit(ie.AddendaRecordIndicator == 1))
	case "7":
		if len(line) < 6 {
			return "UN"
		}
		tag := line[1:3]
		switch {
		case addendaTags[tag]:
			return "AD " + tag
		case tag == "98":
			if ach.IsRefusedChangeCode(line[3:6]) {
				return "AD 98R"
			}
			return "AD 98"
		case tag == "99":
			if ach.IsDishonoredReturnCode(line[3:6]) {
				return "AD 99D"
			}
			if ach.IsContestedReturnCode(line[3:6]) {
				return "AD 99C"
			}
			return "AD 99"
		}
		return "AD XX"
	case "8":
		return "BC"
	case "9":
		if strings.HasPrefix(line, "99") {
			return "PD"
		}
		return "FC"
	}
	return "UN"
}

// ---- observing the implementation

type obs struct {
	caseLine string // tokens for the model
	implLine string // what the model must print
	panicked bool
	frame    string
	stack    string
	nontriv  bool
}

func firstFrame(stack string) string {
	for _, l := range strings.Split(stack, "\n") {
		l = strings.TrimSpace(l)
		if strings.HasPrefix(l, "github.com/moov-io/ach") && !strings.Contains(l, "VerifStep") && !strings.Contains(l, "verifharness") {
			if i := strings.LastIndex(l, "("); i > 0 {
				l = l[:i]
			}
			return strings.TrimPrefix(l, "github.com/moov-io/")
		}
	}
	return "?"
}

func observe(id int, c Case) (o obs) {
	lines := make([]string, len(c.Lines))
	for i, h := range c.Lines {
		lines[i] = hx.Dec(h)
	}
	opts := optsOf(c.Opts)
	bv := opts == nil || !opts.SkipAll
	defer func() {
		if r := recover(); r != nil {
			o.panicked = true
			o.stack = string(debug.Stack())
			o.frame = firstFrame(o.stack)
			o.implLine = fmt.Sprintf("%d PANIC", id)
			if o.caseLine == "" {
				o.caseLine = buildCaseLine(id, c, lines, nil, bv, true, opts)
			}
		}
	}()
	// A: line by line
	ra := ach.NewReader(strings.NewReader(""))
	ra.SetValidation(opts)
	ra.VerifSkipBatchAccumulation(c.Skip)
	hints := make([]byte, len(lines))
	nA := 0
	var verdicts strings.Builder
	for i, l := range lines {
		err := ra.VerifStep(l)
		switch {
		case err == nil:
			hints[i] = '.'
			verdicts.WriteByte('1')
		default:
			nA++
			verdicts.WriteByte('0')
			hints[i] = 'r'
			if pe, ok := err.(*base.ParseError); ok && pe.Record == "Batches" {
				hints[i] = 'b'
			}
		}
	}
	cur, iat := ra.VerifCurrent()
	stateA := encodeState(cur, iat, &ra.File)
	o.caseLine = buildCaseLine(id, c, lines, hints, bv, true, opts)

	// B: Read on the text
	rb := ach.NewReader(strings.NewReader(strings.Join(lines, joinOf(c.Join)) + joinOf(c.Join)))
	rb.SetValidation(opts)
	rb.VerifSkipBatchAccumulation(c.Skip)
	f, err := rb.Read()
	nB := 0
	if err != nil {
		if el, ok := err.(base.ErrorList); ok {
			nB = len(el)
		} else {
			nB = 1
		}
	}
	finOK := nB == nA
	if nB < nA {
		// Read reported fewer errors than the lines produced one by one: the two observations disagree
		o.implLine = fmt.Sprintf("%d INCONSISTENT lines=%d read=%d", id, nA, nB)
		return o
	}
	o.caseLine = buildCaseLine(id, c, lines, hints, bv, finOK, opts)
	v := verdicts.String()
	if v == "" {
		v = "."
	}
	o.implLine = fmt.Sprintf("%d %s %s | %s | %s", id, bit(err == nil), v, stateA, encodeFile(&f))
	o.nontriv = len(f.Batches)+len(f.IATBatches) > 0 || nA > 0
	return o
}

// <id> <skip> <bv> <finok> <n> { <desc…> <hint> }*
func buildCaseLine(id int, c Case, lines []string, hints []byte, bv, finOK bool, opts *ach.ValidateOpts) string {
	var t []string
	t = append(t, fmt.Sprint(id), bit(c.Skip), bit(bv), bit(finOK), fmt.Sprint(len(lines)))
	for i, l := range lines {
		h := "."
		if hints != nil {
			h = string(hints[i])
		}
		t = append(t, describe(l, opts), h)
	}
	return strings.Join(t, " ")
}

// ---- line pools and case generation

type pools struct {
	fh, bh, ba, bi, ed, ea, ei, ad, ai, bc, fc []string
	files                                      [][]string
}

func splitLines(text string) []string {
	var out []string
	for _, l := range strings.Split(strings.ReplaceAll(text, "\r", ""), "\n") {
		if len(l) == 94 {
			out = append(out, l)
		}
	}
	return out
}

func (p *pools) addFile(f *ach.File) {
	if f == nil {
		return
	}
	text, err := gen.Text(f, false)
	if err != nil {
		return
	}
	ls := splitLines(text)
	if len(ls) == 0 {
		return
	}
	p.files = append(p.files, ls)
	ctx := ""
	for _, l := range ls {
		switch l[0] {
		case '1':
			p.fh = append(p.fh, l)
		case '5':
			switch {
			case l[50:53] == "IAT" || strings.TrimSpace(l[4:20]) == "IATCOR":
				ctx = "iat"
				p.bi = append(p.bi, l)
			case l[50:53] == "ADV":
				ctx = "adv"
				p.ba = append(p.ba, l)
			default:
				ctx = "std"
				p.bh = append(p.bh, l)
			}
		case '6':
			switch ctx {
			case "iat":
				p.ei = append(p.ei, l)
			case "adv":
				p.ea = append(p.ea, l)
			default:
				p.ed = append(p.ed, l)
			}
		case '7':
			if ctx == "iat" {
				p.ai = append(p.ai, l)
			} else {
				p.ad = append(p.ad, l)
			}
		case '8':
			p.bc = append(p.bc, l)
		case '9':
			if !strings.HasPrefix(l, "99") {
				p.fc = append(p.fc, l)
			}
		}
	}
}

func buildPools(r *rng.R) (p *pools, err error) {
	defer func() {
		if x := recover(); x != nil {
			err = fmt.Errorf("building seed files panicked: %v", x)
		}
	}()
	p = &pools{}
	for _, sec := range gen.AllSECs() {
		p.addFile(gen.FileOfSEC(r, sec, gen.Opts{Addenda: true, Returns: true, NOC: true}))
	}
	p.addFile(gen.ADVFile(r))
	p.addFile(gen.ADVFile(r))
	for i := 0; i < 3; i++ {
		p.addFile(gen.FileOfSEC(r, ach.IAT, gen.Opts{IAT: true, Addenda: true, Returns: true, NOC: true}))
	}
	for i := 0; i < 8; i++ {
		p.addFile(gen.File(r, gen.Opts{IAT: true, Addenda: true, Returns: true, NOC: true, MaxBatches: 4}))
	}
	for _, l := range [][]string{p.fh, p.bh, p.ba, p.bi, p.ed, p.ea, p.ei, p.ad, p.ai, p.bc, p.fc} {
		if len(l) == 0 {
			return p, fmt.Errorf("a line pool is empty (generators produced no such record)")
		}
	}
	return p, nil
}

// the 9 kinds of the exhaustive orders
const nKinds = 9

var kindNames = []string{"FH", "BH", "BA", "BI", "ED", "EA", "AD", "BC", "FC"}

func (p *pools) pick(r *rng.R, kind int) string {
	switch kind {
	case 0:
		return rng.Pick(r, p.fh)
	case 1:
		return rng.Pick(r, p.bh)
	case 2:
		return rng.Pick(r, p.ba)
	case 3:
		return rng.Pick(r, p.bi)
	case 4:
		if r.Chance(1, 3) {
			return rng.Pick(r, p.ei)
		}
		return rng.Pick(r, p.ed)
	case 5:
		return rng.Pick(r, p.ea)
	case 6:
		if r.Chance(1, 2) {
			return rng.Pick(r, p.ai)
		}
		return rng.Pick(r, p.ad)
	case 7:
		return rng.Pick(r, p.bc)
	}
	return rng.Pick(r, p.fc)
}

func setCols(l string, lo int, s string) string {
	if lo+len(s) > len(l) {
		return l
	}
	return l[:lo] + s + l[lo+len(s):]
}

var mutSECs = []string{"PPD", "CCD", "WEB", "COR", "ADV", "IAT", "MTE", "POS", "CTX", "XXX", "   ", "TRC", "ENR"}
var mutTags = []string{"02", "05", "10", "11", "12", "13", "14", "15", "16", "17", "18", "98", "99", "03", "00"}
var mutCodes = []string{"R01", "R61", "R71", "C01", "C61", "R99", "   "}

func (p *pools) mutate(r *rng.R, ls []string) []string {
	out := append([]string(nil), ls...)
	n := r.Range(1, 4)
	for k := 0; k < n; k++ {
		if len(out) == 0 {
			out = append(out, p.pick(r, r.Intn(nKinds)))
			continue
		}
		i := r.Intn(len(out))
		switch r.Intn(12) {
		case 0: // delete
			out = append(out[:i], out[i+1:]...)
		case 1: // duplicate
			out = append(out[:i+1], out[i:]...)
		case 2: // swap
			j := r.Intn(len(out))
			out[i], out[j] = out[j], out[i]
		case 3, 4: // insert a line of any kind
			l := p.pick(r, r.Intn(nKinds))
			out = append(out[:i], append([]string{l}, out[i:]...)...)
		case 5: // record type
			out[i] = setCols(out[i], 0, string("156789x "[r.Intn(8)]))
		case 6: // SEC code of a batch header
			for d := 0; d < len(out); d++ {
				j := (i + d) % len(out)
				if out[j][0] == '5' {
					out[j] = setCols(out[j], 50, rng.Pick(r, mutSECs))
					break
				}
			}
		case 7: // addenda record indicator of an entry
			for d := 0; d < len(out); d++ {
				j := (i + d) % len(out)
				if out[j][0] == '6' {
					out[j] = setCols(out[j], 78, string("01"[r.Intn(2)]))
					break
				}
			}
		case 8: // addenda type code / return code
			for d := 0; d < len(out); d++ {
				j := (i + d) % len(out)
				if out[j][0] == '7' {
					if r.Bool() {
						out[j] = setCols(out[j], 1, rng.Pick(r, mutTags))
					} else {
						out[j] = setCols(out[j], 3, rng.Pick(r, mutCodes))
					}
					break
				}
			}
		case 9: // blank a span (breaks record validation)
			lo := r.Range(1, 80)
			out[i] = setCols(out[i], lo, strings.Repeat(" ", r.Range(1, 12)))
		case 10: // company name IATCOR / service class of a header
			for d := 0; d < len(out); d++ {
				j := (i + d) % len(out)
				if out[j][0] == '5' {
					if r.Bool() {
						out[j] = setCols(out[j], 4, "IATCOR          ")
					} else {
						out[j] = setCols(out[j], 1, rng.Pick(r, []string{"200", "220", "225", "280", "999"}))
					}
					break
				}
			}
		default: // truncate
			out = out[:i]
		}
	}
	return out
}

func hexAll(ls []string) []string {
	out := make([]string, len(ls))
	for i, l := range ls {
		out[i] = hx.Enc(l)
	}
	return out
}

func corr(args []string) {
	fs := flag.NewFlagSet("corr", flag.ExitOnError)
	out := fs.String("out", "", "output directory")
	n := fs.Int("n", 5000, "number of random longer sequences")
	orders := fs.Int("orders", 4, "exhaustive record-type orders up to this length")
	sample := fs.Int("sample", 1500, "sampled orders of the lengths above -orders, up to 6")
	corpus := fs.String("corpus", "", "corpus directory (reader-*.json)")
	_ = fs.Parse(args)
	if *out == "" {
		fmt.Fprintln(os.Stderr, "c06reader corr: -out is required")
		os.Exit(2)
	}
	r := rng.FromEnv(0xC06EAD)
	casesW := hx.Create(filepath.Join(*out, "cases.txt"))
	implW := hx.Create(filepath.Join(*out, "impl.txt"))
	jsonW := hx.Create(filepath.Join(*out, "cases.jsonl"))
	failsW := hx.Create(filepath.Join(*out, "fails.jsonl"))
	defer func() { casesW.Close(); implW.Close(); jsonW.Close(); failsW.Close() }()

	p, err := buildPools(r)
	if err != nil {
		b, _ := json.Marshal(map[string]any{"kind": "fail", "key": "seed:reader-pools", "what": err.Error(), "input": map[string]any{"kind": "reader", "lines": []string{}}})
		failsW.Printf("%s\n", b)
		return
	}

	id := 0
	dist := map[string]int{}
	distinct := map[string]bool{}
	panics := map[string]int{}
	nontriv := 0
	var samples []map[string]any
	optNames := []string{"nil", "nil", "nil", "skipall", "skipall", "lax"}
	joins := []string{"lf", "lf", "lf", "crlf", "none"}
	run := func(family string, lines []string, optName string, skip bool, join string) {
		c := Case{Lines: hexAll(lines), Opts: optName, Skip: skip, Join: join, Family: family, Kind: "reader"}
		o := observe(id, c)
		casesW.Printf("%s\n", o.caseLine)
		implW.Printf("%s\n", o.implLine)
		dist[family]++
		key := o.caseLine[strings.Index(o.caseLine, " ")+1:]
		if !distinct[key] {
			distinct[key] = true
			if o.nontriv {
				nontriv++
			}
		}
		if o.panicked {
			panics[o.frame]++
			if panics[o.frame] <= 20 {
				b, _ := json.Marshal(map[string]any{"kind": "fail", "key": "panic:reader:" + o.frame,
					"what": fmt.Sprintf("the Reader panicked in %s on a sequence of %d lines (%s, opts %s)", o.frame, len(lines), family, optName), "input": c})
				failsW.Printf("%s\n", b)
			}
		}
		if o.panicked || id%97 == 0 {
			b, _ := json.Marshal(map[string]any{"id": id, "case": c, "impl": o.implLine})
			jsonW.Printf("%s\n", b)
		}
		if len(samples) < 4 && id%1301 == 7 {
			samples = append(samples, map[string]any{"family": family, "opts": optName, "tokens": o.caseLine, "impl": o.implLine})
		}
		id++
	}

	// corpus first
	if *corpus != "" {
		files, _ := filepath.Glob(filepath.Join(*corpus, "reader-*.json"))
		sort.Strings(files)
		for _, fn := range files {
			if c, ok := loadCase(fn); ok {
				ls := make([]string, len(c.Lines))
				for i, h := range c.Lines {
					ls[i] = hx.Dec(h)
				}
				run("corpus", ls, c.Opts, c.Skip, c.Join)
			}
		}
	}
	// every generated file as it is (valid files, every SEC code)
	for _, ls := range p.files {
		run("valid", ls, "nil", false, "lf")
		run("valid", ls, "skipall", false, "crlf")
	}
	// every order of the 9 kinds up to length *orders, exhaustively
	for length := 1; length <= *orders; length++ {
		total := 1
		for i := 0; i < length; i++ {
			total *= nKinds
		}
		for code := 0; code < total; code++ {
			ls := make([]string, length)
			x := code
			for i := 0; i < length; i++ {
				ls[i] = p.pick(r, x%nKinds)
				x /= nKinds
			}
			run(fmt.Sprintf("orders-%d", length), ls, rng.Pick(r, optNames), r.Chance(1, 25), "lf")
		}
	}
	// sampled orders of the remaining lengths up to 6
	for i := 0; i < *sample && *orders < 6; i++ {
		length := r.Range(*orders+1, 6)
		ls := make([]string, length)
		for j := range ls {
			ls[j] = p.pick(r, r.Intn(nKinds))
		}
		run(fmt.Sprintf("orders-%d-sampled", length), ls, rng.Pick(r, optNames), r.Chance(1, 25), "lf")
	}
	// random longer sequences: real files with mutated / moved / foreign lines
	for i := 0; i < *n; i++ {
		ls := rng.Pick(r, p.files)
		if r.Chance(1, 5) {
			ls = append(append([]string(nil), ls...), rng.Pick(r, p.files)...)
		}
		ls = p.mutate(r, ls)
		run("mutated", ls, rng.Pick(r, optNames), r.Chance(1, 25), rng.Pick(r, joins))
	}

	names := make([]string, 0, len(panics))
	for k := range panics {
		names = append(names, k)
	}
	sort.Strings(names)
	summ := map[string]any{"kind": "summary", "evaluations": id, "distinct_nontrivial": nontriv,
		"rule": "distinct (line descriptors, verdict hints, options) sequences on which the reader built at least one batch or reported an error",
		"distribution": dist, "samples": samples, "panics": panics}
	b, _ := json.Marshal(summ)
	failsW.Printf("%s\n", b)
	fmt.Printf("c06reader: %d cases, %d distinct non-trivial, panics %v\n", id, nontriv, names)
}

func loadCase(path string) (Case, bool) {
	raw, err := os.ReadFile(path)
	if err != nil {
		return Case{}, false
	}
	var rp struct {
		Input *Case `json:"input"`
		Case
	}
	if err := json.Unmarshal(raw, &rp); err != nil {
		return Case{}, false
	}
	if rp.Input != nil && rp.Input.Lines != nil {
		return *rp.Input, true
	}
	if rp.Case.Lines != nil {
		return rp.Case, true
	}
	return Case{}, false
}

func replay(args []string) {
	if len(args) < 1 {
		fmt.Fprintln(os.Stderr, "usage: c06reader replay FILE")
		os.Exit(2)
	}
	c, ok := loadCase(args[0])
	if !ok {
		fmt.Fprintln(os.Stderr, "c06reader replay: not a reader case")
		os.Exit(2)
	}
	for i, h := range c.Lines {
		fmt.Printf("%3d %s\n", i+1, hx.Dec(h))
	}
	o := observe(0, c)
	fmt.Println("case:", o.caseLine)
	fmt.Println("impl:", o.implLine)
	if o.panicked {
		fmt.Println("PANIC in", o.frame)
		fmt.Println(o.stack)
		os.Exit(1)
	}
}

// witnesses writes the committed corpus cases: one per structural situation the invariant is about.
func witnesses(args []string) {
	if len(args) < 1 {
		fmt.Fprintln(os.Stderr, "usage: c06reader witnesses DIR")
		os.Exit(2)
	}
	r := rng.New(0xC06EAD)
	p, err := buildPools(r)
	if err != nil {
		fmt.Fprintln(os.Stderr, err)
		os.Exit(1)
	}
	unknownSEC := setCols(p.bh[0], 50, "XXX")
	iatcorName := setCols(p.bh[0], 4, "IATCOR          ")
	ari1 := setCols(p.ed[0], 78, "1")
	cases := map[string][]string{
		"addenda-outside-batch":        {p.fh[0], p.ad[0]},
		"addenda-without-entry":        {p.fh[0], p.bh[0], p.ad[0]},
		"adv-addenda-without-entry":    {p.fh[0], p.ba[0], p.ad[0]},
		"iat-addenda-nil-entries":      {p.fh[0], p.bi[0], p.ai[0]},
		"iat-addenda-no-batch":         {p.ai[0]},
		"control-without-header":       {p.fh[0], p.bc[0], p.fc[0]},
		"iat-control-without-entries":  {p.fh[0], p.bi[0], p.bc[0]},
		"entry-outside-batch":          {p.fh[0], p.ed[0]},
		"consecutive-headers":          {p.fh[0], p.bh[0], p.bh[0], ari1, p.ad[0], p.bc[0]},
		"adv-then-header":              {p.fh[0], p.ba[0], p.ea[0], p.bh[0], ari1, p.bc[0]},
		"unknown-sec-header":           {p.fh[0], unknownSEC, ari1, p.ad[0], p.bc[0]},
		"iat-header-shadows-standard":  {p.fh[0], p.bi[0], p.ei[0], p.bh[0], ari1, p.ad[0], p.bc[0], p.bc[0], p.fc[0]},
		"iatcor-named-standard-header": {p.fh[0], iatcorName, ari1, p.ad[0], p.bc[0]},
		"lingering-batch-no-control":   {p.fh[0], p.bh[0], ari1, p.ad[0], p.ad[0]},
		"control-twice":                {p.fh[0], p.bh[0], ari1, p.bc[0], p.bc[0], p.fc[0], p.fc[0]},
	}
	for name, ls := range cases {
		c := Case{Lines: hexAll(ls), Opts: "nil", Join: "lf", Family: name, Kind: "reader"}
		b, _ := json.MarshalIndent(c, "", " ")
		if err := os.WriteFile(filepath.Join(args[0], "reader-"+name+".json"), append(b, '\n'), 0o644); err != nil {
			fmt.Fprintln(os.Stderr, err)
			os.Exit(1)
		}
	}
}

package main

// Shapes of what the reader holds and returns: the token stream of harness/cmd/c06ops/shape.go
// (the input syntax of the Coq shapes of coq/Model/TotalOps.v), with one difference: an entry counts as
// "named OFFSET" the way the reader's setOffsetCategory tests it (isOffsetEntry: TrimSpace + EqualFold) —
// EntryDetail.Parse keeps the padding of IndividualName.

import (
	"fmt"
	"reflect"
	"strings"

	"github.com/moov-io/ach"
)

var secNames = []string{"ACK", "ADV", "ARC", "ATX", "BOC", "CCD", "CIE", "COR", "CTX", "DNE", "ENR", "IAT",
	"MTE", "POP", "POS", "PPD", "RCK", "SHR", "TEL", "TRC", "TRX", "WEB", "XCK"}

const secUnknown = 23
const kindBase = 24

func secIndex(s string) int {
	for i, n := range secNames {
		if n == s {
			return i
		}
	}
	return secUnknown
}

func kindOf(b ach.Batcher) int {
	t := reflect.TypeOf(b)
	if t.Kind() == reflect.Ptr {
		n := t.Elem().Name()
		if n == "Batch" {
			return kindBase
		}
		if strings.HasPrefix(n, "Batch") {
			if i := secIndex(strings.TrimPrefix(n, "Batch")); i != secUnknown {
				return i
			}
		}
	}
	return -1
}

func sccIndex(c int) int {
	switch c {
	case ach.MixedDebitsAndCredits:
		return 0
	case ach.CreditsOnly:
		return 1
	case ach.DebitsOnly:
		return 2
	case ach.AutomatedAccountingAdvices:
		return 3
	}
	return 4
}

func catIndex(c string) int {
	switch c {
	case ach.CategoryForward:
		return 0
	case ach.CategoryNOC:
		return 1
	case ach.CategoryReturn:
		return 2
	case ach.CategoryDishonoredReturn:
		return 3
	case ach.CategoryDishonoredReturnContested:
		return 4
	}
	return 5
}

func codeOf(c int) int {
	if c < 0 || c > 99 {
		return 0
	}
	return c
}

func bit(b bool) string {
	if b {
		return "1"
	}
	return "0"
}

func bits(bs []bool) string {
	if len(bs) == 0 {
		return "."
	}
	var sb strings.Builder
	for _, b := range bs {
		sb.WriteString(bit(b))
	}
	return sb.String()
}

func ptrList[T any](xs []*T) []bool {
	out := make([]bool, len(xs))
	for i, x := range xs {
		out[i] = x != nil
	}
	return out
}

func offNamed(name string) bool { return strings.EqualFold(strings.TrimSpace(name), "OFFSET") }

func isNilBatcher(b ach.Batcher) bool {
	if b == nil {
		return true
	}
	v := reflect.ValueOf(b)
	return v.Kind() == reflect.Ptr && v.IsNil()
}

//	batch    := N | B <kind> hdr <ctl> <adv> <off> <ne> entry* <na> adventry*
func encodeBatch(b ach.Batcher, add func(...string)) {
	if isNilBatcher(b) {
		add("N")
		return
	}
	add("B", fmt.Sprint(kindOf(b)))
	if h := b.GetHeader(); h == nil {
		add("N")
	} else {
		add("H", fmt.Sprint(secIndex(h.StandardEntryClassCode)), fmt.Sprint(sccIndex(h.ServiceClassCode)))
	}
	add(bit(b.GetControl() != nil), bit(b.GetADVControl() != nil), "0")
	es := b.GetEntries()
	add(fmt.Sprint(len(es)))
	for _, e := range es {
		if e == nil {
			add("N")
			continue
		}
		add("E", fmt.Sprint(catIndex(e.Category)), fmt.Sprint(codeOf(e.TransactionCode)),
			bit(e.Addenda02 != nil)+bit(e.Addenda98 != nil)+bit(e.Addenda98Refused != nil)+bit(e.Addenda99 != nil)+bit(e.Addenda99Dishonored != nil)+bit(e.Addenda99Contested != nil)+bit(offNamed(e.IndividualName)),
			bits(ptrList(e.Addenda05)))
	}
	as := b.GetADVEntries()
	add(fmt.Sprint(len(as)))
	for _, e := range as {
		if e == nil {
			add("N")
			continue
		}
		add("A", fmt.Sprint(catIndex(e.Category)), fmt.Sprint(codeOf(e.TransactionCode)), bit(e.Addenda99 != nil))
	}
}

func encodeIATEntries(es []*ach.IATEntryDetail, add func(...string)) {
	for _, e := range es {
		if e == nil {
			add("N")
			continue
		}
		add("J", fmt.Sprint(catIndex(e.Category)), fmt.Sprint(codeOf(e.TransactionCode)),
			bit(e.Addenda10 != nil)+bit(e.Addenda11 != nil)+bit(e.Addenda12 != nil)+bit(e.Addenda13 != nil)+bit(e.Addenda14 != nil)+bit(e.Addenda15 != nil)+bit(e.Addenda16 != nil)+bit(e.Addenda98 != nil)+bit(e.Addenda99 != nil),
			bits(ptrList(e.Addenda17)), bits(ptrList(e.Addenda18)))
	}
}

func encodeIATHeader(h *ach.IATBatchHeader, add func(...string)) {
	if h == nil {
		add("N")
		return
	}
	add("H", fmt.Sprint(sccIndex(h.ServiceClassCode)), bit(h.IATIndicator == ach.IATCOR && h.StandardEntryClassCode == ach.COR))
}

//	F <nb> batch* <ni> iatbatch*        iatbatch := I ihdr <ctl> <ne> ientry*
func encodeFile(f *ach.File) string {
	var t []string
	add := func(s ...string) { t = append(t, s...) }
	add("F", fmt.Sprint(len(f.Batches)))
	for _, b := range f.Batches {
		encodeBatch(b, add)
	}
	add(fmt.Sprint(len(f.IATBatches)))
	for i := range f.IATBatches {
		b := &f.IATBatches[i]
		add("I")
		encodeIATHeader(b.Header, add)
		add(bit(b.Control != nil), fmt.Sprint(len(b.Entries)))
		encodeIATEntries(b.Entries, add)
	}
	return strings.Join(t, " ")
}

// the reader's state between two lines:
//
//	S cur iatcur file      cur := N | batch      iatcur := ihdr <ctl> (N | <ne> ientry*)   — N: the nil slice
func encodeState(cur ach.Batcher, iat *ach.IATBatch, f *ach.File) string {
	var t []string
	add := func(s ...string) { t = append(t, s...) }
	add("S")
	encodeBatch(cur, add)
	encodeIATHeader(iat.Header, add)
	add(bit(iat.Control != nil))
	if iat.Entries == nil {
		add("N")
	} else {
		add(fmt.Sprint(len(iat.Entries)))
		encodeIATEntries(iat.Entries, add)
	}
	return strings.Join(t, " ") + " " + encodeFile(f)
}

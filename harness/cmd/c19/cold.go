package main

import (
	"bufio"
	"encoding/json"
	"flag"
	"fmt"
	"os"
	"os/exec"
	"path/filepath"
	"strings"

	"verifharness/internal/rng"
)

// Cold starts by record family.  Whatever the library initialises on first use (a lookup table built lazily, a
// sync.Once, a cache) is first used exactly once per process; the oracle's own cold round uses it concurrently only
// if two of its 24 random inputs happen to need it at the same moment.  Here the oracle starts one child PROCESS per
// family of inputs (notifications of change, returns, IAT, ADV, ENR/DNE, corporate addenda, JSON documents): in each
// child the very first library calls are concurrent calls on inputs of that family, one goroutine per input.
var coldFamilies = [][]string{
	{"cor", "noc", "addenda98", "refused"},
	{"return", "addenda99", "dishonor", "contested"},
	{"iat"},
	{"adv"},
	{"enr", "dne"},
	{"ctx", "atx", "ack"},
	{".json"},
	{"ppd", "web", "ccd", "tel"},
}

func familyInputs(fam int, salt uint64) []input {
	var names []string
	for _, n := range fixtures() {
		l := strings.ToLower(n)
		for _, pat := range coldFamilies[fam] {
			if strings.Contains(l, pat) {
				names = append(names, n)
				break
			}
		}
	}
	if len(names) == 0 {
		return nil
	}
	r := rng.FromEnv(salt + uint64(fam)*131)
	var ins []input
	for i := 0; len(ins) < 12 && i < 200; i++ {
		name := names[i%len(names)]
		var v uint64
		if i >= len(names) {
			v = uint64(r.Range(1, 1<<20))
		}
		if in, err := loadInput(name, v); err == nil {
			ins = append(ins, in)
		}
	}
	return ins
}

// cold: child process — one concurrent cold round on the inputs of a family; failures as JSON lines on stdout
func cold(args []string) {
	fs := flag.NewFlagSet("cold", flag.ExitOnError)
	fam := fs.Int("family", 0, "index into the family table")
	salt := fs.Uint64("salt", 1902, "stream salt")
	fs.Parse(args)
	if *fam < 0 || *fam >= len(coldFamilies) {
		os.Exit(2)
	}
	ins := familyInputs(*fam, *salt)
	rn := newRunner()
	if len(ins) >= 2 {
		rn.concurrentLib(ins, len(ins), 1, true)
	}
	w := bufio.NewWriter(os.Stdout)
	for _, f := range rn.fails {
		b, _ := json.Marshal(f)
		fmt.Fprintf(w, "%s\n", b)
	}
	fmt.Fprintf(w, "{\"kind\":\"cold-summary\",\"family\":%d,\"inputs\":%d,\"evaluations\":%d}\n", *fam, len(ins), rn.evals)
	w.Flush()
}

// coldStarts runs every family in a child process of this very binary (so a -race build stays a -race build);
// the children's stderr (race detector reports) goes to this process's stderr
func (rn *runner) coldStarts(salt uint64) {
	exe, err := os.Executable()
	if err != nil {
		return
	}
	exe, _ = filepath.Abs(exe)
	for fam := range coldFamilies {
		cmd := exec.Command(exe, "cold", "-family", fmt.Sprint(fam), "-salt", fmt.Sprint(salt))
		cmd.Stderr = os.Stderr
		outb, err := cmd.Output()
		if err != nil {
			if ee, ok := err.(*exec.ExitError); ok && ee.ExitCode() == 66 {
				rn.dist["cold-family-race-exit"]++ // GORACE exitcode: the report is on stderr
			} else {
				rn.dist["cold-family-failed"]++
			}
		}
		for _, line := range strings.Split(string(outb), "\n") {
			if !strings.HasPrefix(line, "{") {
				continue
			}
			var probe struct {
				Kind        string `json:"kind"`
				Evaluations int    `json:"evaluations"`
			}
			if json.Unmarshal([]byte(line), &probe) != nil {
				continue
			}
			if probe.Kind == "cold-summary" {
				rn.evals += probe.Evaluations
				rn.dist["cold-start-families"]++
				continue
			}
			var f failure
			if json.Unmarshal([]byte(line), &f) == nil && f.Key != "" {
				rn.keys[f.Key]++
				if rn.keys[f.Key] <= 3 {
					rn.fails = append(rn.fails, f)
				}
			}
		}
	}
}

// Command c19: correspondence cases and direct oracle for property C19
// (concurrent work on distinct files never interferes).
//
//	corr   -out d -n N        random disciplined pool programs run by real goroutines on the real
//	                          getBuffer/saveBuffer; observed reads -> impl.txt, programs -> cases.txt
//	oracle -out d -n N ...    library operations and HTTP sessions on independent inputs, concurrent
//	                          vs sequential in the same binary, plus the pooled-memory alias check
//	replay file               re-runs the configuration of a recorded failure
package main

import (
	"bytes"
	"crypto/sha256"
	"encoding/hex"
	"encoding/json"
	"flag"
	"fmt"
	"io"
	"net/http"
	"net/http/httptest"
	"os"
	"path/filepath"
	"regexp"
	"sort"
	"strings"
	"sync"
	"time"

	kitlog "github.com/go-kit/log"
	"github.com/moov-io/ach"
	"github.com/moov-io/ach/server"

	"verifharness/internal/hx"
	"verifharness/internal/rng"
)

func main() {
	if len(os.Args) < 2 {
		fmt.Fprintln(os.Stderr, "usage: c19 corr|oracle|replay ...")
		os.Exit(2)
	}
	switch os.Args[1] {
	case "corr":
		corr(os.Args[2:])
	case "oracle":
		oracle(os.Args[2:])
	case "replay":
		replay(os.Args[2:])
	case "cold":
		cold(os.Args[2:])
	default:
		fmt.Fprintln(os.Stderr, "unknown mode")
		os.Exit(2)
	}
}

func repoDir() string {
	if v := os.Getenv("VERIF_REPO"); v != "" {
		return v
	}
	return "/repo"
}

// ---------------------------------------------------------------- correspondence
//
// A case is a set of 1..6 straight-line programs over the instructions
//   G r | W r hex | R r | Z r | P r        (Get, Write, Read, Reset, Put = saveBuffer's Put)
// generated so that they satisfy the static discipline of the model (Put only right
// after Reset, registers used only between Get and Put, everything returned at the end).
// Each program is executed by its own goroutine on the real pool; the sequence of
// strings it reads must be the model's solo result.

type pinstr struct {
	op  byte
	reg int
	arg string
}

func genProgram(r *rng.R) []pinstr {
	var p []pinstr
	live := map[int]bool{}
	steps := r.Range(3, 40)
	alphabet := "ABCDEFGHIJKLMNOPQRSTUVWXYZ0123456789 "
	for i := 0; i < steps; i++ {
		reg := r.Intn(3)
		if !live[reg] {
			p = append(p, pinstr{op: 'G', reg: reg})
			live[reg] = true
			continue
		}
		switch r.Intn(8) {
		case 0, 1, 2, 3:
			n := r.Range(0, 12)
			if r.Chance(1, 10) {
				n = r.Range(90, 300) // beyond the 94 bytes newBuffer reserves: forces a reallocation
			}
			var b strings.Builder
			for j := 0; j < n; j++ {
				b.WriteByte(alphabet[r.Intn(len(alphabet))])
			}
			p = append(p, pinstr{op: 'W', reg: reg, arg: b.String()})
		case 4, 5:
			p = append(p, pinstr{op: 'R', reg: reg})
		case 6:
			p = append(p, pinstr{op: 'Z', reg: reg})
		case 7:
			p = append(p, pinstr{op: 'Z', reg: reg}, pinstr{op: 'P', reg: reg})
			live[reg] = false
		}
	}
	for reg := 0; reg < 3; reg++ {
		if live[reg] {
			p = append(p, pinstr{op: 'R', reg: reg}, pinstr{op: 'Z', reg: reg}, pinstr{op: 'P', reg: reg})
		}
	}
	return p
}

func progText(p []pinstr) string {
	parts := make([]string, len(p))
	for i, in := range p {
		if in.op == 'W' {
			parts[i] = fmt.Sprintf("W%d:%s", in.reg, hx.Enc(in.arg))
		} else {
			parts[i] = fmt.Sprintf("%c%d", in.op, in.reg)
		}
	}
	return strings.Join(parts, " ")
}

// runProgram executes p on the real pool.  `Z r; P r` is saveBuffer(r) (the only way the
// library returns a buffer); a lone Z is buf.Reset().
func runProgram(p []pinstr) (reads []string) {
	defer func() {
		if r := recover(); r != nil {
			reads = append(reads, fmt.Sprintf("panic:%v", r))
		}
	}()
	var regs [3]*bytes.Buffer
	for i := 0; i < len(p); i++ {
		in := p[i]
		switch in.op {
		case 'G':
			regs[in.reg] = ach.VerifGetBuffer()
		case 'W':
			regs[in.reg].WriteString(in.arg)
		case 'R':
			reads = append(reads, regs[in.reg].String())
		case 'Z':
			if i+1 < len(p) && p[i+1].op == 'P' && p[i+1].reg == in.reg {
				ach.VerifSaveBuffer(regs[in.reg])
				regs[in.reg] = nil
				i++
			} else {
				regs[in.reg].Reset()
			}
		}
	}
	return reads
}

func corr(args []string) {
	fs := flag.NewFlagSet("corr", flag.ExitOnError)
	out := fs.String("out", "", "output directory")
	n := fs.Int("n", 300, "number of cases (sets of concurrent programs)")
	fs.Parse(args)
	cases := hx.Create(filepath.Join(*out, "cases.txt"))
	impl := hx.Create(filepath.Join(*out, "impl.txt"))
	r := rng.FromEnv(1901)
	lines := 0
	for c := 0; c < *n; c++ {
		k := r.Range(1, 6)
		progs := make([][]pinstr, k)
		for i := range progs {
			progs[i] = genProgram(r)
		}
		results := make([][]string, k)
		var wg sync.WaitGroup
		start := make(chan struct{})
		for i := range progs {
			wg.Add(1)
			go func(i int) {
				defer wg.Done()
				<-start
				results[i] = runProgram(progs[i])
			}(i)
		}
		close(start)
		wg.Wait()
		for i := range progs {
			cases.Printf("%s\n", progText(progs[i]))
			enc := make([]string, len(results[i]))
			for j, s := range results[i] {
				enc[j] = hx.Enc(s)
			}
			impl.Printf("D1 %s\n", strings.Join(enc, ","))
			lines++
		}
	}
	cases.Close()
	impl.Close()
	fmt.Printf("{\"cases\":%d}\n", lines)
}

// ---------------------------------------------------------------- inputs

type input struct {
	Name string `json:"name"` // path relative to $VERIF_REPO/test
	Var  uint64 `json:"var"`  // variation seed, 0 = the fixture itself
	data []byte
}

func (in input) isJSON() bool { return strings.HasSuffix(in.Name, ".json") }

var fixtureCache = map[string][]byte{}

func fixtures() []string {
	root := filepath.Join(repoDir(), "test")
	var names []string
	for _, pat := range []string{"testdata/*.ach", "testdata/*.json", "ach-*/*.ach", "issues/testdata/*.ach"} {
		ms, _ := filepath.Glob(filepath.Join(root, pat))
		for _, m := range ms {
			st, err := os.Stat(m)
			if err != nil || st.IsDir() || st.Size() == 0 || st.Size() > 40000 {
				continue
			}
			rel, _ := filepath.Rel(root, m)
			names = append(names, rel)
		}
	}
	sort.Strings(names)
	return names
}

func loadInput(name string, v uint64) (input, error) {
	data, ok := fixtureCache[name]
	if !ok {
		var err error
		data, err = os.ReadFile(filepath.Join(repoDir(), "test", name))
		if err != nil {
			return input{}, err
		}
		fixtureCache[name] = data
	}
	in := input{Name: name, Var: v}
	in.data = vary(data, in.isJSON(), v)
	return in, nil
}

// vary derives an independent input from a fixture: mostly edits that keep the file
// parseable (names, amounts), sometimes damage (byte flips, truncation).
func vary(data []byte, isJSON bool, seed uint64) []byte {
	if seed == 0 {
		return data
	}
	r := rng.New(seed)
	out := append([]byte(nil), data...)
	letters := "ABCDEFGHIJKLMNOPQRSTUVWXYZ"
	edits := r.Range(1, 4)
	for e := 0; e < edits; e++ {
		if isJSON {
			// replace a letter by a letter / a digit by a digit somewhere
			for try := 0; try < 50; try++ {
				i := r.Intn(len(out))
				c := out[i]
				if c >= '0' && c <= '9' {
					out[i] = byte('0' + r.Intn(10))
					break
				}
				if c >= 'A' && c <= 'Z' && r.Chance(1, 2) {
					out[i] = letters[r.Intn(26)]
					break
				}
			}
			continue
		}
		lines := bytes.Split(out, []byte("\n"))
		switch k := r.Intn(10); {
		case k < 6: // individual name of an entry detail (columns 55-76)
			for try := 0; try < 20; try++ {
				l := lines[r.Intn(len(lines))]
				if len(l) >= 94 && l[0] == '6' {
					for j := 54; j < 54+r.Range(1, 22); j++ {
						l[j] = letters[r.Intn(26)]
					}
					break
				}
			}
		case k < 8: // amount digits (columns 30-39): control totals no longer match
			for try := 0; try < 20; try++ {
				l := lines[r.Intn(len(lines))]
				if len(l) >= 94 && l[0] == '6' {
					l[29+r.Intn(10)] = byte('0' + r.Intn(10))
					break
				}
			}
		case k < 9: // damage one byte
			i := r.Intn(len(out))
			out[i] = byte(32 + r.Intn(95))
			continue
		default: // truncate
			if len(out) > 200 {
				out = out[:r.Range(95, len(out)-1)]
				continue
			}
		}
		out = bytes.Join(lines, []byte("\n"))
	}
	return out
}

// ---------------------------------------------------------------- library operations

type section struct {
	Op   string
	Text string
}

var idRe = regexp.MustCompile(`[0-9a-f]{40}`)

// the file header's creation date/time columns (24-33) show the wall clock when the
// fields are empty, and segment files are stamped with it: the clock is an input of
// those operations, not interference, so these columns / JSON fields are blanked
var headerClockRe = regexp.MustCompile(`(?m)^(1.{22}).{10}`)
var dateRe = regexp.MustCompile(`"fileCreation(Date|Time)":"[^"]*"`)

func canon(s string) string {
	s = idRe.ReplaceAllString(s, "<id>")
	s = headerClockRe.ReplaceAllString(s, "${1}<datetime>")
	return dateRe.ReplaceAllString(s, `"fileCreation$1":"<t>"`)
}

func errText(err error) string {
	if err == nil {
		return "<nil>"
	}
	return canon(err.Error())
}

func guard(op string, secs *[]section, f func() string) {
	defer func() {
		if r := recover(); r != nil {
			*secs = append(*secs, section{op, canon(fmt.Sprintf("panic:%v", r))})
		}
	}()
	*secs = append(*secs, section{op, f()})
}

func writeFile(f *ach.File) string {
	var buf bytes.Buffer
	err := ach.NewWriter(&buf).Write(f)
	return canon(buf.String()) + "|err=" + errText(err)
}

func parseInput(in input) (*ach.File, error) {
	if in.isJSON() {
		return ach.FileFromJSON(in.data)
	}
	f, err := ach.NewReader(bytes.NewReader(in.data)).Read()
	return &f, err
}

func fixTimes(f *ach.File) {
	if f != nil {
		f.Header.FileCreationDate = "190816"
		f.Header.FileCreationTime = "1055"
	}
}

// sharedOpts is one ValidateOpts value handed to the library for every input, by every goroutine, the way a
// caller that configures validation once does; the library must only read it (sharedOptsPristine is its copy).
var sharedOptsPristine = ach.ValidateOpts{AllowInvalidAmounts: true}
var sharedOpts = func() *ach.ValidateOpts { c := sharedOptsPristine; return &c }()

// sharedOptsState: "" while the shared options still equal the pristine copy
func sharedOptsState() string {
	a, b := *sharedOpts, sharedOptsPristine
	fa, fb := a.CheckTransactionCode != nil, b.CheckTransactionCode != nil
	a.CheckTransactionCode, b.CheckTransactionCode = nil, nil
	sa, sb := fmt.Sprintf("%+v", a), fmt.Sprintf("%+v", b)
	if sa != sb || fa != fb {
		return sa
	}
	return ""
}

// withOwnOpts gives a JSON file document a validateOpts member of its own (every other input by content)
func withOwnOpts(js []byte) []byte {
	if len(js)%2 == 0 {
		return js
	}
	var m map[string]json.RawMessage
	if json.Unmarshal(js, &m) != nil {
		return js
	}
	m["validateOpts"] = json.RawMessage(`{"bypassOriginValidation":true,"customTraceNumbers":true}`)
	out, err := json.Marshal(m)
	if err != nil {
		return js
	}
	return out
}

// process performs every library operation of the property on one input and returns the
// outputs as text sections (IDs drawn from the random source are blanked).
func process(in input) []section {
	var secs []section
	var f *ach.File
	guard("parse", &secs, func() string {
		var err error
		f, err = parseInput(in)
		return errText(err)
	})
	if f == nil {
		return secs
	}
	guard("validate", &secs, func() string { return errText(f.Validate()) })
	guard("write", &secs, func() string { return writeFile(f) })
	var js []byte
	guard("json", &secs, func() string {
		var err error
		js, err = json.Marshal(f)
		return canon(string(js)) + "|err=" + errText(err)
	})
	guard("fromjson", &secs, func() string {
		g, err := ach.FileFromJSON(js)
		if g == nil {
			return "nil|err=" + errText(err)
		}
		return writeFile(g) + "|err=" + errText(err)
	})
	guard("create", &secs, func() string {
		g, _ := parseInput(in)
		if g == nil {
			return "nil"
		}
		err := g.Create()
		return writeFile(g) + "|err=" + errText(err)
	})
	guard("flatten", &secs, func() string {
		g, err := f.FlattenBatches()
		if g == nil {
			return "nil|err=" + errText(err)
		}
		return writeFile(g) + "|err=" + errText(err)
	})
	guard("segment", &secs, func() string {
		c, d, err := f.SegmentFile(nil)
		fixTimes(c)
		fixTimes(d)
		var b strings.Builder
		for _, g := range []*ach.File{c, d} {
			if g == nil {
				b.WriteString("nil;")
			} else {
				b.WriteString(writeFile(g) + ";")
			}
		}
		return b.String() + "|err=" + errText(err)
	})
	guard("merge", &secs, func() string {
		a, _ := parseInput(in)
		b2, _ := parseInput(in)
		if a == nil || b2 == nil {
			return "nil"
		}
		outs, err := ach.MergeFiles([]*ach.File{a, b2})
		var b strings.Builder
		for _, g := range outs {
			b.WriteString(writeFile(g) + ";")
		}
		return b.String() + "|err=" + errText(err)
	})
	guard("records", &secs, func() string { return canon(strings.Join(recordStrings(f), "\n")) })
	// the same input under the options value every goroutine shares: decoded (a document with options of its own
	// every other time), validated, consolidated, split and merged with a copy read under the shared options too
	guard("shared-opts", &secs, func() string {
		var g, h *ach.File
		var err error
		if in.isJSON() || js != nil {
			src := js
			if in.isJSON() {
				src = in.data
			}
			g, err = ach.FileFromJSONWith(withOwnOpts(src), sharedOpts)
			h, _ = ach.FileFromJSONWith(src, sharedOpts)
		}
		if g == nil {
			return "nil|err=" + errText(err)
		}
		var b strings.Builder
		b.WriteString(writeFile(g) + "|err=" + errText(err) + "|validate=" + errText(g.ValidateWith(sharedOpts)))
		if fl, ferr := g.FlattenBatches(); fl != nil {
			b.WriteString("|flatten=" + writeFile(fl))
		} else {
			b.WriteString("|flatten-err=" + errText(ferr))
		}
		c, d, serr := g.SegmentFile(nil)
		fixTimes(c)
		fixTimes(d)
		for _, x := range []*ach.File{c, d} {
			if x != nil {
				b.WriteString("|seg=" + writeFile(x))
			}
		}
		b.WriteString("|seg-err=" + errText(serr))
		if h != nil {
			outs, merr := ach.MergeFiles([]*ach.File{g, h})
			for _, x := range outs {
				b.WriteString("|merged=" + writeFile(x))
			}
			b.WriteString("|merge-err=" + errText(merr))
		}
		return b.String()
	})
	return secs
}

// recordStrings calls String() of every record directly (the getBuffer users).
func recordStrings(f *ach.File) []string {
	var out []string
	out = append(out, f.Header.String())
	for _, b := range f.Batches {
		if h := b.GetHeader(); h != nil {
			out = append(out, h.String())
		}
		for _, e := range b.GetEntries() {
			out = append(out, e.String())
			if e.Addenda02 != nil {
				out = append(out, e.Addenda02.String())
			}
			for _, a := range e.Addenda05 {
				out = append(out, a.String())
			}
			if e.Addenda98 != nil {
				out = append(out, e.Addenda98.String())
			}
			if e.Addenda98Refused != nil {
				out = append(out, e.Addenda98Refused.String())
			}
			if e.Addenda99 != nil {
				out = append(out, e.Addenda99.String())
			}
			if e.Addenda99Contested != nil {
				out = append(out, e.Addenda99Contested.String())
			}
			if e.Addenda99Dishonored != nil {
				out = append(out, e.Addenda99Dishonored.String())
			}
		}
		for _, e := range b.GetADVEntries() {
			out = append(out, e.String())
		}
		if c := b.GetControl(); c != nil {
			out = append(out, c.String())
		}
		if c := b.GetADVControl(); c != nil {
			out = append(out, c.String())
		}
	}
	for _, b := range f.IATBatches {
		if b.Header != nil {
			out = append(out, b.Header.String())
		}
		for _, e := range b.Entries {
			out = append(out, e.String())
			for _, s := range []fmt.Stringer{e.Addenda10, e.Addenda11, e.Addenda12, e.Addenda13, e.Addenda14, e.Addenda15, e.Addenda16} {
				if !isNilStringer(s) {
					out = append(out, s.String())
				}
			}
			for _, a := range e.Addenda17 {
				out = append(out, a.String())
			}
			for _, a := range e.Addenda18 {
				out = append(out, a.String())
			}
			if e.Addenda98 != nil {
				out = append(out, e.Addenda98.String())
			}
			if e.Addenda99 != nil {
				out = append(out, e.Addenda99.String())
			}
		}
		if b.Control != nil {
			out = append(out, b.Control.String())
		}
	}
	out = append(out, f.Control.String())
	out = append(out, f.ADVControl.String())
	return out
}

func isNilStringer(s fmt.Stringer) bool {
	if s == nil {
		return true
	}
	switch v := s.(type) {
	case *ach.Addenda10:
		return v == nil
	case *ach.Addenda11:
		return v == nil
	case *ach.Addenda12:
		return v == nil
	case *ach.Addenda13:
		return v == nil
	case *ach.Addenda14:
		return v == nil
	case *ach.Addenda15:
		return v == nil
	case *ach.Addenda16:
		return v == nil
	}
	return false
}

func digest(secs []section) string {
	h := sha256.New()
	for _, s := range secs {
		fmt.Fprintf(h, "%s\x00%d\x00%s\x00", s.Op, len(s.Text), s.Text)
	}
	return hex.EncodeToString(h.Sum(nil))[:24]
}

func firstDiff(a, b []section) (string, string, string) {
	for i := 0; i < len(a) && i < len(b); i++ {
		if a[i] != b[i] {
			return a[i].Op, clip(a[i].Text), clip(b[i].Text)
		}
	}
	if len(a) != len(b) {
		return "sections", fmt.Sprint(len(a)), fmt.Sprint(len(b))
	}
	return "", "", ""
}

func clip(s string) string {
	if len(s) > 300 {
		return s[:300] + "..."
	}
	return s
}

// ---------------------------------------------------------------- pooled-memory alias check

var garbage = bytes.Repeat([]byte("#~"), 4096)

// scribble overwrites the backing arrays of the buffers currently in the pool.
// A Go string is immutable; a result that changes afterwards shares memory with a
// pooled buffer.
func scribble() {
	var held []*bytes.Buffer
	for i := 0; i < 48; i++ {
		b := ach.VerifGetBuffer()
		if n := b.Cap() - b.Len(); n > 0 && n <= len(garbage) {
			b.Write(garbage[:n])
		}
		held = append(held, b)
	}
	for _, b := range held {
		ach.VerifSaveBuffer(b)
	}
}

// aliasCheck: results of String()/Parse held across a scribble must not change.
func aliasCheck(in input) (op string, before string, after string) {
	defer func() {
		if r := recover(); r != nil {
			op = ""
		}
	}()
	f, _ := parseInput(in)
	if f == nil {
		return "", "", ""
	}
	strs := recordStrings(f)
	clones := make([]string, len(strs))
	for i, s := range strs {
		clones[i] = strings.Clone(s)
	}
	j1, _ := json.Marshal(f)
	scribble()
	for i := range strs {
		if strs[i] != clones[i] {
			return "string", clones[i], strs[i]
		}
	}
	j2, _ := json.Marshal(f)
	if !bytes.Equal(j1, j2) {
		return "parse", clip(string(j1)), clip(string(j2))
	}
	return "", "", ""
}

// ---------------------------------------------------------------- HTTP sessions

func newHandler() http.Handler {
	repo := server.NewRepositoryInMemory(0, nil)
	svc := server.NewService(repo)
	return server.MakeHTTPHandler(svc, repo, kitlog.NewNopLogger())
}

func do(h http.Handler, method, path, ctype string, body []byte) string {
	req := httptest.NewRequest(method, path, bytes.NewReader(body))
	if ctype != "" {
		req.Header.Set("Content-Type", ctype)
	}
	rec := httptest.NewRecorder()
	func() {
		defer func() {
			if r := recover(); r != nil {
				rec.WriteString(fmt.Sprintf("panic:%v", r))
			}
		}()
		h.ServeHTTP(rec, req)
	}()
	b, _ := io.ReadAll(rec.Result().Body)
	return fmt.Sprintf("%d %s", rec.Code, canon(string(b)))
}

// session: every request addresses file `id` only (files created by flatten/segment get
// random ids nobody else knows).  The list-all endpoint is out of scope.
func session(h http.Handler, id string, in input) []section {
	ctype := "text/plain"
	if in.isJSON() {
		ctype = "application/json"
	}
	var secs []section
	add := func(op, res string) { secs = append(secs, section{op, strings.ReplaceAll(res, id, "<fid>")}) }
	add("http-create", do(h, "POST", "/files/"+id, ctype, in.data))
	add("http-get", do(h, "GET", "/files/"+id, "", nil))
	add("http-contents", do(h, "GET", "/files/"+id+"/contents", "", nil))
	add("http-validate", do(h, "GET", "/files/"+id+"/validate", "", nil))
	add("http-batches", do(h, "GET", "/files/"+id+"/batches", "", nil))
	add("http-build", do(h, "GET", "/files/"+id+"/build", "", nil))
	add("http-flatten", do(h, "POST", "/files/"+id+"/flatten", "", nil))
	add("http-segment", do(h, "POST", "/files/"+id+"/segment", "", nil))
	add("http-contents2", do(h, "GET", "/files/"+id+"/contents", "", nil))
	add("http-delete", do(h, "DELETE", "/files/"+id, "", nil))
	add("http-get-deleted", do(h, "GET", "/files/"+id, "", nil))
	return secs
}

// ---------------------------------------------------------------- oracle

type failure struct {
	Kind string   `json:"kind"`
	Key  string   `json:"key"`
	What string   `json:"what"`
	Case failCase `json:"case"`
}

type failCase struct {
	Mode       string  `json:"mode"` // lib | http | alias | seq
	Inputs     []input `json:"inputs"`
	Goroutines int     `json:"goroutines"`
	Reps       int     `json:"reps"`
	Victim     input   `json:"victim"`
	Op         string  `json:"op"`
	Sequential string  `json:"sequential,omitempty"`
	Concurrent string  `json:"concurrent,omitempty"`
}

type runner struct {
	seq     map[string][]section // sequential library transcripts by input key
	seqHTTP map[string][]section
	fails   []failure
	keys    map[string]int
	evals   int
	dist    map[string]int
	nontriv map[string]bool
	samples []any
}

func ikey(in input) string { return fmt.Sprintf("%s#%d", in.Name, in.Var) }

func (rn *runner) fail(key, what string, c failCase) {
	rn.keys[key]++
	if rn.keys[key] > 3 {
		return
	}
	for i := range c.Inputs {
		c.Inputs[i].data = nil
	}
	rn.fails = append(rn.fails, failure{Kind: "fail", Key: key, What: what, Case: c})
}

// sequential reference (computed twice: the operations themselves must be deterministic)
func (rn *runner) reference(in input) []section {
	k := ikey(in)
	if s, ok := rn.seq[k]; ok {
		return s
	}
	a := process(in)
	b := process(in)
	if op, x, y := firstDiff(a, b); op != "" {
		rn.fail("lib:"+op+":sequential-run-not-repeatable", "the same operation on the same input gave two different results in one goroutine",
			failCase{Mode: "seq", Inputs: []input{in}, Victim: in, Op: op, Sequential: x, Concurrent: y})
	}
	rn.seq[k] = a
	parsedOK := len(a) > 0 && a[0].Op == "parse" && a[0].Text == "<nil>"
	if parsedOK {
		rn.dist["input-parses"]++
	} else {
		rn.dist["input-rejected"]++
	}
	if op, x, y := aliasCheck(in); op != "" {
		rn.fail("lib:"+op+":result-shares-memory-with-pooled-buffer", "a returned string / parsed field changed after the pooled scratch buffers were overwritten",
			failCase{Mode: "alias", Inputs: []input{in}, Victim: in, Op: op, Sequential: x, Concurrent: y})
	}
	rn.evals++
	return a
}

func (rn *runner) referenceHTTP(in input) []section {
	k := ikey(in)
	if s, ok := rn.seqHTTP[k]; ok {
		return s
	}
	h := newHandler()
	a := session(h, "c19sess-seq-a", in)
	b := session(h, "c19sess-seq-b", in)
	if op, x, y := firstDiff(a, b); op != "" {
		rn.fail("http:"+op+":sequential-run-not-repeatable", "the same HTTP session on the same input gave two different results sequentially",
			failCase{Mode: "seq", Inputs: []input{in}, Victim: in, Op: op, Sequential: x, Concurrent: y})
	}
	rn.seqHTTP[k] = a
	return a
}

// concurrentLib runs `process` on every input from g goroutines (input j belongs to
// goroutine j mod g), reps times each, and compares with the sequential reference.
// cold: the goroutines go first and the sequential reference is computed afterwards, so
// that whatever the library initialises on first use is first used concurrently.
func (rn *runner) concurrentLib(ins []input, g, reps int, cold bool) bool {
	refs := make([][]section, len(ins))
	if !cold {
		for i, in := range ins {
			refs[i] = rn.reference(in)
		}
	}
	type res struct {
		idx  int
		secs []section
	}
	results := make([][]res, g)
	var wg sync.WaitGroup
	start := make(chan struct{})
	for w := 0; w < g; w++ {
		wg.Add(1)
		go func(w int) {
			defer wg.Done()
			<-start
			for rep := 0; rep < reps; rep++ {
				for j := w; j < len(ins); j += g {
					s := process(ins[j])
					if cold || digest(s) != digest(refs[j]) {
						results[w] = append(results[w], res{j, s})
					}
				}
			}
		}(w)
	}
	close(start)
	wg.Wait()
	if cold {
		for i, in := range ins {
			refs[i] = rn.reference(in)
		}
	}
	ok := true
	if st := sharedOptsState(); st != "" {
		ok = false
		rn.fail("lib:shared-options-modified", "the ValidateOpts value the caller shares between all files was written to by the library: it now reads "+st,
			failCase{Mode: "lib", Inputs: append([]input(nil), ins...), Goroutines: g, Reps: reps, Victim: ins[0], Op: "shared-opts", Sequential: fmt.Sprintf("%+v", sharedOptsPristine), Concurrent: st})
		*sharedOpts = sharedOptsPristine
	}
	for w := range results {
		for _, r := range results[w] {
			if digest(r.secs) == digest(refs[r.idx]) {
				continue
			}
			ok = false
			op, x, y := firstDiff(refs[r.idx], r.secs)
			rn.fail("lib:"+op+":concurrent-differs-from-sequential", "an operation on an independent input gave a different result when other goroutines were working",
				failCase{Mode: "lib", Inputs: append([]input(nil), ins...), Goroutines: g, Reps: reps, Victim: ins[r.idx], Op: op, Sequential: x, Concurrent: y})
		}
	}
	n := 0
	for j := range ins {
		n += reps
		if len(refs[j]) > 0 && refs[j][0].Text == "<nil>" {
			rn.nontriv[ikey(ins[j])] = true
		}
	}
	rn.evals += n
	return ok
}

func (rn *runner) concurrentHTTP(ins []input, g int) bool {
	refs := make([][]section, len(ins))
	for i, in := range ins {
		refs[i] = rn.referenceHTTP(in)
	}
	h := newHandler()
	got := make([][]section, len(ins))
	var wg sync.WaitGroup
	start := make(chan struct{})
	for w := 0; w < g; w++ {
		wg.Add(1)
		go func(w int) {
			defer wg.Done()
			<-start
			for j := w; j < len(ins); j += g {
				got[j] = session(h, fmt.Sprintf("c19sess-%d-x", j), ins[j])
			}
		}(w)
	}
	close(start)
	wg.Wait()
	ok := true
	for j := range ins {
		if op, x, y := firstDiff(refs[j], got[j]); op != "" {
			ok = false
			rn.fail("http:"+op+":concurrent-differs-from-sequential", "an HTTP session on its own file id gave different responses when other sessions ran concurrently",
				failCase{Mode: "http", Inputs: append([]input(nil), ins...), Goroutines: g, Reps: 1, Victim: ins[j], Op: op, Sequential: x, Concurrent: y})
		}
	}
	rn.evals += len(ins)
	rn.dist["http-sessions"] += len(ins)
	return ok
}

func newRunner() *runner {
	return &runner{seq: map[string][]section{}, seqHTTP: map[string][]section{}, keys: map[string]int{}, dist: map[string]int{}, nontriv: map[string]bool{}}
}

func pickInputs(r *rng.R, names []string, m int) []input {
	seen := map[string]bool{}
	var ins []input
	for len(ins) < m {
		name := rng.Pick(r, names)
		var v uint64
		if r.Chance(2, 3) {
			v = uint64(r.Range(1, 1<<20))
		}
		in, err := loadInput(name, v)
		if err != nil || seen[ikey(in)] {
			if err != nil {
				continue
			}
			// same fixture unchanged twice is still two independent inputs, but keep keys distinct
			in, _ = loadInput(name, uint64(r.Range(1, 1<<20)))
			if seen[ikey(in)] {
				continue
			}
		}
		seen[ikey(in)] = true
		ins = append(ins, in)
	}
	return ins
}

func oracle(args []string) {
	fs := flag.NewFlagSet("oracle", flag.ExitOnError)
	out := fs.String("out", "", "output directory")
	n := fs.Int("n", 2000, "number of concurrent evaluations (input x repetition) to aim for")
	corpus := fs.String("corpus", "", "directory of committed seed cases")
	noHTTP := fs.Bool("nohttp", false, "skip the HTTP sessions")
	salt := fs.Uint64("salt", 1902, "stream salt")
	fs.Parse(args)
	rn := newRunner()
	names := fixtures()
	if len(names) < 10 {
		fmt.Fprintf(os.Stderr, "c19: only %d fixtures under %s/test\n", len(names), repoDir())
		os.Exit(3)
	}
	// cold start: the very first use of the library in this process is concurrent
	{
		r0 := rng.FromEnv(*salt + 7)
		ins := pickInputs(r0, names, 24)
		rn.concurrentLib(ins, 12, 1, true)
		if !*noHTTP {
			rn.concurrentHTTP(ins[:12], 12)
		}
		rn.dist["cold-start-round"] = 1
	}
	// … and one cold start per family of inputs, each in a process of its own
	rn.coldStarts(*salt)
	// committed cases
	if *corpus != "" {
		ms, _ := filepath.Glob(filepath.Join(*corpus, "*.json"))
		sort.Strings(ms)
		for _, m := range ms {
			c, err := readCase(m)
			if err != nil {
				fmt.Fprintf(os.Stderr, "c19: corpus %s: %v\n", m, err)
				continue
			}
			rn.runCase(c, 2)
			rn.dist["corpus-cases"]++
		}
	}
	r := rng.FromEnv(*salt)
	rounds := 0
	for rn.evals < *n {
		m := r.Range(2, 64)
		g := r.Range(2, 32)
		if r.Chance(1, 3) {
			m = r.Range(2, 12) // few inputs, many goroutines: short windows, much contention
		}
		ins := pickInputs(r, names, m)
		reps := 1
		if m < 16 {
			reps = r.Range(1, 4)
		}
		rn.concurrentLib(ins, g, reps, false)
		rn.dist[fmt.Sprintf("goroutines-%s", bucket(g))]++
		rn.dist[fmt.Sprintf("inputs-%s", bucket(m))]++
		if !*noHTTP && rounds%2 == 0 {
			hm := m
			if hm > 24 {
				hm = 24
			}
			rn.concurrentHTTP(ins[:hm], g)
		}
		if len(rn.samples) < 4 {
			rn.samples = append(rn.samples, map[string]any{"inputs": len(ins), "goroutines": g, "reps": reps, "first": ikey(ins[0]), "digest": digest(rn.seq[ikey(ins[0])])})
		}
		rounds++
	}
	rn.dist["rounds"] = rounds
	w := hx.Create(filepath.Join(*out, "oracle.jsonl"))
	for _, f := range rn.fails {
		b, _ := json.Marshal(f)
		w.Printf("%s\n", b)
	}
	summ := map[string]any{
		"kind": "summary", "evaluations": rn.evals, "distinct_nontrivial": len(rn.nontriv),
		"rule":         "evaluations = operation bundles (parse, validate, write, JSON, create, flatten, segment, merge, record strings) run concurrently and compared byte-for-byte with the sequential run + HTTP sessions compared + sequential/alias checks; distinct = distinct inputs (fixture, variation) that parse without error and were processed while other goroutines worked",
		"distribution": rn.dist, "samples": rn.samples,
	}
	b, _ := json.Marshal(summ)
	w.Printf("%s\n", b)
	w.Close()
	fmt.Printf("{\"evaluations\":%d,\"fails\":%d}\n", rn.evals, len(rn.fails))
}

func bucket(n int) string {
	switch {
	case n <= 4:
		return "2-4"
	case n <= 8:
		return "5-8"
	case n <= 16:
		return "9-16"
	case n <= 32:
		return "17-32"
	}
	return "33-64"
}

// ---------------------------------------------------------------- replay

func readCase(path string) (failCase, error) {
	var c failCase
	raw, err := os.ReadFile(path)
	if err != nil {
		return c, err
	}
	// accept a bare case, a failure record, or the replay file written by the check
	var wrap struct {
		Input   *failCase `json:"input"`
		Case    *failCase `json:"case"`
		Failure *struct {
			Case *failCase `json:"case"`
		} `json:"failure"`
	}
	if err := json.Unmarshal(raw, &wrap); err == nil {
		switch {
		case wrap.Input != nil && wrap.Input.Mode != "":
			c = *wrap.Input
		case wrap.Case != nil && wrap.Case.Mode != "":
			c = *wrap.Case
		case wrap.Failure != nil && wrap.Failure.Case != nil:
			c = *wrap.Failure.Case
		}
	}
	if c.Mode == "" {
		if err := json.Unmarshal(raw, &c); err != nil {
			return c, err
		}
	}
	if c.Mode == "" {
		return c, fmt.Errorf("no case in %s", path)
	}
	load := func(in *input) error {
		x, err := loadInput(in.Name, in.Var)
		if err != nil {
			return err
		}
		*in = x
		return nil
	}
	for i := range c.Inputs {
		if err := load(&c.Inputs[i]); err != nil {
			return c, err
		}
	}
	if c.Victim.Name != "" {
		if err := load(&c.Victim); err != nil {
			return c, err
		}
	}
	return c, nil
}

// runCase re-runs a recorded configuration `attempts` times; true if it failed again.
func (rn *runner) runCase(c failCase, attempts int) bool {
	before := len(rn.fails)
	for a := 0; a < attempts && len(rn.fails) == before; a++ {
		switch c.Mode {
		case "http":
			if len(c.Inputs) > 0 {
				g := c.Goroutines
				if g < 1 {
					g = 2
				}
				rn.concurrentHTTP(c.Inputs, g)
			}
		case "lib":
			if len(c.Inputs) > 0 {
				g, reps := c.Goroutines, c.Reps
				if g < 1 {
					g = 2
				}
				if reps < 1 {
					reps = 1
				}
				rn.concurrentLib(c.Inputs, g, reps, false)
			}
		default: // alias, seq: deterministic single-goroutine checks
			delete(rn.seq, ikey(c.Victim))
			delete(rn.seqHTTP, ikey(c.Victim))
			rn.reference(c.Victim)
			rn.referenceHTTP(c.Victim)
		}
	}
	return len(rn.fails) > before
}

func replay(args []string) {
	if len(args) < 1 {
		fmt.Fprintln(os.Stderr, "usage: c19 replay <file>")
		os.Exit(2)
	}
	c, err := readCase(args[0])
	if err != nil {
		fmt.Println("replay:", err)
		os.Exit(2)
	}
	rn := newRunner()
	t0 := time.Now()
	attempts := 300
	if c.Mode != "lib" && c.Mode != "http" {
		attempts = 1
	}
	if rn.runCase(c, attempts) {
		f := rn.fails[len(rn.fails)-1]
		b, _ := json.MarshalIndent(f, "", " ")
		fmt.Printf("REPRODUCED (%s, %.1fs)\n%s\n", f.Key, time.Since(t0).Seconds(), b)
		os.Exit(1)
	}
	fmt.Printf("not reproduced in %d attempt(s) (%.1fs): mode=%s inputs=%d goroutines=%d\n", attempts, time.Since(t0).Seconds(), c.Mode, len(c.Inputs), c.Goroutines)
}

package main

import (
	"encoding/json"
	"fmt"
	"runtime/debug"
	"strings"

	"github.com/moov-io/ach"

	"verifharness/internal/gen"
	"verifharness/internal/rng"
)

func try(name string, f func()) {
	defer func() {
		if r := recover(); r != nil {
			st := string(debug.Stack())
			for _, l := range strings.Split(st, "\n") {
				if strings.HasPrefix(l, "github.com/moov-io/ach") {
					fmt.Println(name, "PANIC", r, l)
					return
				}
			}
			fmt.Println(name, "PANIC", r)
		}
	}()
	f()
}

func main() {
	r := rng.New(3)
	f := gen.ADVFile(r)
	bs, _ := json.Marshal(f)
	s := string(bs)
	s = strings.ReplaceAll(s, `"standardEntryClassCode":"ADV"`, `"standardEntryClassCode":"PPD"`)
	s = strings.ReplaceAll(s, `"serviceClassCode":280`, `"serviceClassCode":200`)
	s = strings.ReplaceAll(s, `"originatorStatusCode":0`, `"originatorStatusCode":1`)
	fmt.Printf("HEX %x\n", s)
	try("FileFromJSON", func() {
		g, err := ach.FileFromJSON([]byte(s))
		fmt.Println("FileFromJSON returned", g != nil, err)
	})
}

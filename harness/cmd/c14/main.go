// Command c14: correspondence cases and direct oracle for property C14
// (validating, rendering and serialising never modify the file).
package main

import (
	"bytes"
	"encoding/hex"
	"encoding/json"
	"flag"
	"fmt"
	"os"
	"path/filepath"
	"sort"
	"strings"
	"time"

	"github.com/moov-io/ach"
	"github.com/moov-io/ach/server"

	"verifharness/internal/gen"
	"verifharness/internal/hx"
	"verifharness/internal/rng"
)

func main() {
	if len(os.Args) < 2 {
		fmt.Fprintln(os.Stderr, "usage: c14 corr|oracle|replay ...")
		os.Exit(2)
	}
	// watchdog: nothing here should take long; a hang in the library must not hang the check
	go func() {
		time.Sleep(25 * time.Minute)
		fmt.Fprintln(os.Stderr, "c14: watchdog timeout")
		os.Exit(3)
	}()
	switch os.Args[1] {
	case "corr":
		corr(os.Args[2:])
	case "oracle":
		oracle(os.Args[2:])
	case "replay":
		replay(os.Args[2:])
	case "srvcorr": // phase 5: the server's validate operation against the extracted store model (srvcorr.go)
		srvcorr(os.Args[2:])
	default:
		fmt.Fprintln(os.Stderr, "unknown mode")
		os.Exit(2)
	}
}

// ---------------------------------------------------------------- cases

// opCase is one operation of a history.
type opCase struct {
	Op   string `json:"op"`             // validate | validateWith | batchValidate | string | json | writeBypass | write
	Arg  int    `json:"arg,omitempty"`  // batch index / record index (taken modulo what the file has)
	Opts uint32 `json:"opts,omitempty"` // ValidateOpts bit mask for validateWith (0 with Nil = nil pointer)
	Nil  bool   `json:"nil,omitempty"`  // validateWith(nil)
}

// fileCase says how the file under test is obtained.
type fileCase struct {
	Kind    string `json:"kind"`              // reader | json | api | api-adv | api-padded | gen | genmut | gentext
	Name    string `json:"name,omitempty"`    // provenance (fixture path, mutation), informational
	TextHex string `json:"textHex,omitempty"` // reader / json: the exact input bytes
	Opts    uint32 `json:"opts,omitempty"`    // reader / json: ValidateOpts mask given to the reader; api: SetValidation mask
	NoOpts  bool   `json:"noOpts,omitempty"`  // no SetValidation at all
	Seed    uint64 `json:"seed,omitempty"`    // api: generator seed
}

type testCase struct {
	File fileCase `json:"file"`
	Ops  []opCase `json:"ops"`
}

type failure struct {
	Kind string   `json:"kind"`
	Key  string   `json:"key"`
	What string   `json:"what"`
	Case testCase `json:"case"`
}

// ---------------------------------------------------------------- ValidateOpts <-> bit mask (by reflection: new bool fields are picked up)

func optsFromMask(m uint32) *ach.ValidateOpts {
	o := &ach.ValidateOpts{}
	setBoolFields(o, m)
	return o
}

// ---------------------------------------------------------------- building the file

func buildFile(fc fileCase) (f *ach.File, panicked any) {
	defer func() {
		if r := recover(); r != nil {
			f, panicked = nil, r
		}
	}()
	switch fc.Kind {
	case "reader":
		text, _ := hex.DecodeString(fc.TextHex)
		r := ach.NewReader(bytes.NewReader(text))
		if !fc.NoOpts {
			r.SetValidation(optsFromMask(fc.Opts))
		}
		file, _ := r.Read() // the (possibly partial) file is the subject whatever the error
		return &file, nil
	case "json":
		text, _ := hex.DecodeString(fc.TextHex)
		var file *ach.File
		if fc.NoOpts {
			file, _ = ach.FileFromJSON(text)
		} else {
			file, _ = ach.FileFromJSONWith(text, optsFromMask(fc.Opts))
		}
		return file, nil
	case "api":
		return genAPIFile(fc), nil
	case "api-adv": // NewFile + AddBatch(NewBatch(ADV header)), File.Create not called
		f := ach.NewFile()
		f.Header.ImmediateDestination = "231380104"
		f.Header.ImmediateOrigin = "121042882"
		f.Header.FileCreationDate = "190816"
		f.Header.ImmediateDestinationName = "Federal Reserve Bank"
		f.Header.ImmediateOriginName = "My Bank Name"
		addADVBatch(rng.New(fc.Seed), f, 1)
		return f, nil
	case "api-padded": // routing numbers written the way the record shows them: a blank, then nine digits
		f := gen.File(rng.New(fc.Seed), gen.Opts{})
		f.Header.ImmediateDestination = " " + strings.TrimSpace(f.Header.ImmediateDestination)
		f.Header.ImmediateOrigin = " " + strings.TrimSpace(f.Header.ImmediateOrigin) + " "
		return f, nil
	case "gen": // valid file from the shared generator (built with the constructors, Create, Validate)
		return genValidFile(fc), nil
	case "genmut": // a generator file with one or two exported scalar fields changed afterwards
		f := genValidFile(fc)
		r := rng.New(fc.Seed ^ 0x5bd1e995)
		mutateFields(r, f, r.Range(1, 2))
		return f, nil
	case "gencodes": // a generator file with returns whose addenda reason codes carry a leading letter
		f := genValidFile(fc)
		prefixCodes(rng.New(fc.Seed^0x9e3779b9), f)
		return f, nil
	case "gendates": // a generator file whose date / time fields are RFC 3339 timestamps, as an API user may set them
		f := genValidFile(fc)
		r := rng.New(fc.Seed ^ 0x2545f491)
		stamp := func() string {
			return fmt.Sprintf("20%02d-%02d-%02dT%02d:%02d:00Z", r.Range(10, 40), r.Range(1, 12), r.Range(1, 28), r.Range(0, 23), r.Range(0, 59))
		}
		f.Header.FileCreationDate = stamp()
		if r.Bool() {
			f.Header.FileCreationTime = stamp()
		}
		for _, b := range f.Batches {
			if h := b.GetHeader(); h != nil && r.Chance(1, 3) {
				h.EffectiveEntryDate = stamp()
				if r.Bool() {
					h.CompanyDescriptiveDate = stamp()
				}
			}
		}
		for i := range f.IATBatches {
			if h := f.IATBatches[i].Header; h != nil && r.Chance(1, 3) {
				h.EffectiveEntryDate = stamp()
			}
		}
		return f, nil
	case "needsopts": // gen.NeedsOpts: valid only under the options stored on file / batches / records
		r := rng.New(fc.Seed)
		vs := gen.OptVariants()
		if g := gen.NeedsOptsOf(r, vs[int(fc.Seed>>3)%len(vs)]); g != nil {
			return g, nil
		}
		return genValidFile(fc), nil
	case "readercut": // phase 5: the Reader stopped by a caller-set line limit (SetMaxLines(Seed)): Read returns ErrFileTooLong before File.IsADV
		text, _ := hex.DecodeString(fc.TextHex)
		r := ach.NewReader(bytes.NewReader(text))
		r.SetMaxLines(int(fc.Seed))
		file, _ := r.Read()
		return &file, nil
	case "newbatch": // phase 5: NewFile + AddBatch(NewBatch(header with this SEC code)) for the SEC codes in Name, nothing else
		return newBatchFile(strings.Split(fc.Name, ",")), nil
	case "gentext": // the same file written out and read back by the Reader under the case's options
		g := genValidFile(fc)
		text, err := gen.Text(g, fc.Seed&1 == 0)
		if err != nil {
			return nil, "gen.Text: " + err.Error()
		}
		r := ach.NewReader(strings.NewReader(text))
		if !fc.NoOpts {
			r.SetValidation(optsFromMask(fc.Opts))
		}
		file, _ := r.Read()
		return &file, nil
	}
	return nil, "unknown file kind " + fc.Kind
}

// ---------------------------------------------------------------- operations

type stringer interface{ String() string }

// records lists every record of the file in file order.
func records(f *ach.File) []stringer {
	var out []stringer
	add := func(s stringer) { out = append(out, s) }
	add(&f.Header)
	for _, b := range f.Batches {
		if b == nil {
			continue
		}
		if h := b.GetHeader(); h != nil {
			add(h)
		}
		for _, e := range b.GetEntries() {
			if e == nil {
				continue
			}
			add(e)
			if e.Addenda02 != nil {
				add(e.Addenda02)
			}
			for _, a := range e.Addenda05 {
				if a != nil {
					add(a)
				}
			}
			if e.Addenda98 != nil {
				add(e.Addenda98)
			}
			if e.Addenda98Refused != nil {
				add(e.Addenda98Refused)
			}
			if e.Addenda99 != nil {
				add(e.Addenda99)
			}
			if e.Addenda99Contested != nil {
				add(e.Addenda99Contested)
			}
			if e.Addenda99Dishonored != nil {
				add(e.Addenda99Dishonored)
			}
		}
		for _, e := range b.GetADVEntries() {
			if e == nil {
				continue
			}
			add(e)
			if e.Addenda99 != nil {
				add(e.Addenda99)
			}
		}
		if c := b.GetControl(); c != nil {
			add(c)
		}
		if c := b.GetADVControl(); c != nil {
			add(c)
		}
	}
	for i := range f.IATBatches {
		b := &f.IATBatches[i]
		if h := b.GetHeader(); h != nil {
			add(h)
		}
		for _, e := range b.GetEntries() {
			if e == nil {
				continue
			}
			add(e)
			for _, a := range []stringer{e.Addenda10, e.Addenda11, e.Addenda12, e.Addenda13, e.Addenda14, e.Addenda15, e.Addenda16} {
				if !isNilPtr(a) {
					add(a)
				}
			}
			for _, a := range e.Addenda17 {
				if a != nil {
					add(a)
				}
			}
			for _, a := range e.Addenda18 {
				if a != nil {
					add(a)
				}
			}
			if e.Addenda98 != nil {
				add(e.Addenda98)
			}
			if e.Addenda99 != nil {
				add(e.Addenda99)
			}
		}
		if c := b.GetControl(); c != nil {
			add(c)
		}
	}
	add(&f.Control)
	add(&f.ADVControl)
	return out
}

type opResult struct {
	Err      bool // the operation returned an error
	Panicked bool
}

func writeFile(f *ach.File, bypass bool) (out []byte, err error) {
	var buf bytes.Buffer
	w := ach.NewWriter(&buf)
	w.BypassValidation = bypass
	err = w.Write(f)
	return buf.Bytes(), err
}

func runOp(f *ach.File, o opCase) (res opResult) {
	defer func() {
		if r := recover(); r != nil {
			res.Panicked = true
		}
	}()
	switch o.Op {
	case "validate":
		res.Err = f.Validate() != nil
	case "validateWith":
		var opts *ach.ValidateOpts
		if !o.Nil {
			opts = optsFromMask(o.Opts)
		}
		res.Err = f.ValidateWith(opts) != nil
	case "batchValidate":
		n := len(f.Batches) + len(f.IATBatches)
		if n == 0 {
			return
		}
		i := o.Arg % n
		if i < len(f.Batches) {
			if f.Batches[i] != nil {
				res.Err = f.Batches[i].Validate() != nil
			}
		} else {
			res.Err = f.IATBatches[i-len(f.Batches)].Validate() != nil
		}
	case "string":
		rs := records(f)
		_ = rs[o.Arg%len(rs)].String()
	case "json":
		_, err := json.Marshal(f)
		res.Err = err != nil
	case "writeBypass":
		_, err := writeFile(f, true)
		res.Err = err != nil
	case "write":
		_, err := writeFile(f, false)
		res.Err = err != nil
	case "serverValidate":
		// GET/POST /files/{id}/validate: the service validates the stored *ach.File with the request's options
		id := f.ID
		if f.ID == "" {
			f.ID = "c14-stored"
		}
		repo := server.NewRepositoryInMemory(0, nil)
		svc := server.NewService(repo)
		if repo.StoreFile(f) == nil {
			var opts *ach.ValidateOpts
			if !o.Nil {
				opts = optsFromMask(o.Opts)
			}
			res.Err = svc.ValidateFile(f.ID, opts) != nil
		}
		f.ID = id
	default:
		panic("unknown op " + o.Op)
	}
	return
}

// genOpsWithServer: the oracle's histories also go through the server's validate route (an observation point of
// the property); the correspondence keeps the library operations the model knows.
func genOpsWithServer(r *rng.R, max int) []opCase {
	ops := genOps(r, max)
	for i := range ops {
		if r.Chance(1, 5) {
			o := opCase{Op: "serverValidate"}
			switch r.Intn(4) {
			case 0:
				o.Nil = true
			case 1:
				o.Opts = 1 << uint(r.Intn(numBoolOpts()))
			default:
				o.Opts = randMask(r)
			}
			ops[i] = o
		}
	}
	return ops
}

var opNames = []string{"validate", "validateWith", "batchValidate", "string", "json", "writeBypass", "write"}

func genOps(r *rng.R, max int) []opCase {
	n := r.Range(1, max)
	ops := make([]opCase, 0, n)
	for i := 0; i < n; i++ {
		o := opCase{Op: rng.Pick(r, opNames)}
		switch o.Op {
		case "validateWith":
			switch r.Intn(4) {
			case 0:
				o.Nil = true
			case 1:
				o.Opts = 1 << uint(r.Intn(numBoolOpts()))
			default:
				o.Opts = randMask(r)
			}
		case "batchValidate":
			o.Arg = r.Intn(8)
		case "string":
			o.Arg = r.Intn(400)
		}
		ops = append(ops, o)
	}
	return ops
}

func randMask(r *rng.R) uint32 {
	n := numBoolOpts()
	switch r.Intn(4) {
	case 0:
		return 0
	case 1:
		return uint32(r.U64()) & (1<<uint(n) - 1)
	default: // sparse
		var m uint32
		for k := r.Range(1, 3); k > 0; k-- {
			m |= 1 << uint(r.Intn(n))
		}
		return m
	}
}

// ---------------------------------------------------------------- the property on one case

type snapshot struct {
	dump  []string
	json  string
	jerr  bool
	nacha string
	werr  bool
}

func marshal(f *ach.File) (s string, failed bool) {
	defer func() {
		if r := recover(); r != nil {
			s, failed = fmt.Sprint("panic: ", r), true
		}
	}()
	b, err := json.Marshal(f)
	return string(b), err != nil
}

func render(f *ach.File) (s string, failed bool) {
	defer func() {
		if r := recover(); r != nil {
			s, failed = "panic", true
		}
	}()
	b, err := writeFile(f, true)
	// an empty FileCreationDate / FileCreationTime is written as the wall clock (time.Now in the field accessors):
	// those columns of the file header are not a function of the file and are masked
	if len(b) >= 33 && b[0] == '1' && f != nil {
		if f.Header.FileCreationDate == "" {
			copy(b[23:29], "DDDDDD")
		}
		if f.Header.FileCreationTime == "" {
			copy(b[29:33], "TTTT")
		}
	}
	return string(b), err != nil
}

// checkCase evaluates the property on the real code.  Returns failures and whether the
// case was non-trivial (the file has at least one batch).
func checkCase(tc testCase) (fails []failure, nontrivial bool, fingerprint string) {
	fail := func(key, what string) {
		fails = append(fails, failure{Kind: "fail", Key: key, What: what, Case: tc})
	}
	f, p := buildFile(tc.File)
	if p != nil || f == nil {
		// a panic / nil result of the reader is another property's business (C06); nothing to observe here
		return nil, false, ""
	}
	nontrivial = len(f.Batches)+len(f.IATBatches) > 0
	// The model's condition for purity — no nil header / control up to and including the
	// first ADV batch — must hold for what the Reader returns and for what File.Create
	// leaves.  Where it does not, the operations do write (IsADV installs defaults): that is
	// reported, the file is then normalised the way File.Create / Reader.Read do it
	// (f.IsADV()) and the check goes on, so that any other modification is still seen.
	if !prefixInv(f) {
		cause := prefixInvCause(f)
		key := "condition:" + kindClass(tc.File.Kind) + ":" + cause
		what := "a file of kind " + tc.File.Kind + " has " + cause + " before its first ADV batch ends the IsADV scan"
		j0, _ := marshal(f)
		func() {
			defer func() { recover() }()
			_ = f.ValidateWith(&ach.ValidateOpts{AllowMissingFileHeader: true})
		}()
		j1, _ := marshal(f)
		if j0 != j1 {
			what += "; ValidateWith changed its JSON encoding: " + strDiff(j0, j1)
		} else {
			what += "; (ValidateWith did not change the JSON encoding)"
		}
		// a file put together by hand from JSON may hold explicit nulls; only the Reader,
		// the generators and the constructors are in the property's quantifier
		if tc.File.Kind != "json" {
			fail(key, what)
		}
		func() {
			defer func() { recover() }()
			f.IsADV()
		}()
	}
	d0 := dump(f)
	fingerprint = strings.Join(d0, "\n")
	// reference observations; taking them must itself not modify the file
	j0, _ := marshal(f)
	d := dump(f)
	changedBy := ""
	if path := firstDiff(d0, d); path != "" {
		fail("modified:json:"+path, "json.Marshal changed the file at "+path)
		changedBy = "json"
	}
	w0, _ := render(f)
	d2 := dump(f)
	if path := firstDiff(d, d2); path != "" {
		fail("modified:writeBypass:"+path, "Writer.Write (bypassing validation) changed the file at "+path)
		if changedBy == "" {
			changedBy = "writeBypass"
		}
	}
	prev := d2
	for _, o := range tc.Ops {
		runOp(f, o)
		cur := dump(f)
		if path := firstDiff(prev, cur); path != "" {
			fail("modified:"+o.Op+":"+path, o.Op+" changed the file at "+path)
			if changedBy == "" {
				changedBy = o.Op
			}
		}
		prev = cur
	}
	j1, _ := marshal(f)
	w1, _ := render(f)
	// the two observations the property names, against the reference taken first
	jref, _ := marshal(f) // stable under repetition?
	if j1 != jref {
		fail("json:unstable", "two consecutive json.Marshal calls differ")
	}
	if j1 != j0 {
		if changedBy == "" {
			changedBy = "unattributed"
		}
		fail("json-differs:"+changedBy, "JSON encoding after the history differs from before: "+strDiff(j0, j1))
	}
	if w1 != w0 {
		if changedBy == "" {
			changedBy = "unattributed"
		}
		fail("nacha-differs:"+changedBy, "NACHA rendering after the history differs from before: "+strDiff(w0, w1))
	}
	return fails, nontrivial, fingerprint
}

func strDiff(a, b string) string {
	i := 0
	for i < len(a) && i < len(b) && a[i] == b[i] {
		i++
	}
	lo := i - 30
	if lo < 0 {
		lo = 0
	}
	cut := func(s string) string {
		hi := i + 40
		if hi > len(s) {
			hi = len(s)
		}
		if lo > len(s) {
			return ""
		}
		return s[lo:hi]
	}
	return fmt.Sprintf("at byte %d: %q vs %q", i, cut(a), cut(b))
}

// kindClass groups the file kinds by how the file came to be.
func kindClass(kind string) string {
	switch kind {
	case "reader", "gentext":
		return "reader"
	case "api", "api-adv", "api-padded", "gen", "genmut", "gendates", "gencodes", "newbatch":
		return "api"
	}
	return kind
}

// invViolation: "" if every element of File.Batches has a header and a control.
func invViolation(f *ach.File) string {
	for _, b := range f.Batches {
		if b == nil {
			return "nil-batch"
		}
		if b.GetHeader() == nil {
			return "nil-header"
		}
		if b.GetControl() == nil {
			return "nil-control"
		}
	}
	return ""
}

// ---------------------------------------------------------------- oracle

type summary struct {
	Kind        string         `json:"kind"`
	Evaluations int            `json:"evaluations"`
	Distinct    int            `json:"distinct_nontrivial"`
	Rule        string         `json:"rule"`
	Dist        map[string]int `json:"distribution"`
	Samples     []any          `json:"samples"`
}

func oracle(args []string) {
	fs := flag.NewFlagSet("oracle", flag.ExitOnError)
	out := fs.String("out", "", "output directory")
	n := fs.Int("n", 1500, "generated cases")
	corpus := fs.String("corpus", "", "corpus directory (cases run first)")
	repo := fs.String("repo", os.Getenv("VERIF_REPO"), "moov-io/ach tree (fixtures)")
	fs.Parse(args)
	res := hx.Create(filepath.Join(*out, "oracle.jsonl"))
	enc := func(v any) {
		b, _ := json.Marshal(v)
		res.Printf("%s\n", b)
	}
	sum := summary{Kind: "summary", Dist: map[string]int{}, Rule: "one file (Reader on a fixture / mutated fixture / arbitrary bytes under a random ValidateOpts set, FileFromJSON on a fixture, or built with the constructors) and a history of <= 5 operations; after every operation a reflective deep dump of the file is compared with the one before, at the end json.Marshal and the NACHA rendering are compared with those taken first; non-trivial = the file has at least one batch; distinct by (deep dump of the file, history)"}
	seen := map[string]bool{}
	perKey := map[string]int{}
	run := func(tc testCase) {
		sum.Evaluations++
		sum.Dist[tc.File.Kind]++
		fails, nontrivial, fp := checkCase(tc)
		if nontrivial {
			ob, _ := json.Marshal(tc.Ops)
			k := hashStr(fp + string(ob))
			if !seen[k] {
				seen[k] = true
				sum.Distinct++
			}
		}
		for _, f := range fails {
			perKey[f.Key]++
			if perKey[f.Key] <= 3 { // a few witnesses per key are enough
				enc(f)
			}
		}
		if len(sum.Samples) < 5 && sum.Evaluations%211 == 1 {
			s := tc
			if len(s.File.TextHex) > 200 {
				s.File.TextHex = s.File.TextHex[:200] + "..."
			}
			sum.Samples = append(sum.Samples, s)
		}
	}
	for _, tc := range corpusCases(*corpus) {
		run(tc)
	}
	fx := loadFixtures(*repo)
	r := rng.FromEnv(1414)
	// every fixture once with a fixed rich history, then random cases
	for _, fxt := range fx {
		fc := fileCase{Kind: fxt.kind, Name: fxt.name, TextHex: hex.EncodeToString(fxt.data), NoOpts: true}
		run(testCase{File: fc, Ops: []opCase{{Op: "validate"}, {Op: "write"}, {Op: "string", Arg: 0}, {Op: "json"}, {Op: "writeBypass"}}})
	}
	for i := 0; i < *n; i++ {
		run(testCase{File: genFileCase(r, fx), Ops: genOpsWithServer(r, 5)})
	}
	enc(sum)
	res.Close()
}

func hashStr(s string) string {
	// FNV-1a 64 twice with different offsets is plenty for de-duplication
	var h1, h2 uint64 = 14695981039346656037, 1099511628211
	for i := 0; i < len(s); i++ {
		h1 = (h1 ^ uint64(s[i])) * 1099511628211
		h2 = (h2 + uint64(s[i])) * 0x9E3779B97F4A7C15
	}
	return fmt.Sprintf("%016x%016x", h1, h2)
}

func corpusCases(dir string) []testCase {
	var out []testCase
	if dir == "" {
		return out
	}
	names, _ := filepath.Glob(filepath.Join(dir, "*.json"))
	sort.Strings(names)
	for _, p := range names {
		b, err := os.ReadFile(p)
		if err != nil {
			continue
		}
		var rp struct {
			Input testCase `json:"input"`
		}
		if json.Unmarshal(b, &rp) == nil && rp.Input.File.Kind != "" {
			out = append(out, rp.Input)
		}
	}
	return out
}

func replay(args []string) {
	if len(args) < 1 {
		fmt.Fprintln(os.Stderr, "usage: c14 replay <file>")
		os.Exit(2)
	}
	b, err := os.ReadFile(args[0])
	if err != nil {
		fmt.Fprintln(os.Stderr, err)
		os.Exit(2)
	}
	var rp struct {
		Input testCase `json:"input"`
	}
	if err := json.Unmarshal(b, &rp); err != nil || rp.Input.File.Kind == "" {
		fmt.Println("replay file carries no input (obligation / correspondence failure): nothing to run")
		os.Exit(0)
	}
	fails, _, _ := checkCase(rp.Input)
	for _, f := range fails {
		f.Case.File.TextHex = "" // keep the output readable
		j, _ := json.Marshal(f)
		fmt.Println(string(j))
	}
	if len(fails) > 0 {
		os.Exit(1)
	}
	fmt.Println("no failure on this input")
}

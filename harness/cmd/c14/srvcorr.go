package main

// Mode srvcorr (phase 5): the server's validate operation against the extracted store model
// (coq/Model/PurityAlias.v: run_srqs / serve_x / store_observe).
//
// A case is a store of 1-3 real files (abstract states with nil headers / controls, generator
// files of every SEC code, files valid only under their stored options, ADV files before
// Create, reader fixtures; with and without ValidateOpts on the file) held by the real
// server.NewRepositoryInMemory, and a history of
//   * validate requests for known and unknown ids, through Service.ValidateFile or through the
//     real HTTP route GET /files/{id}/validate?<flags> of server.MakeHTTPHandler, with any options,
//   * library operations on the stored *File (the store shares the pointer).
// After every request the projection of every stored file — per batch header nil / SEC code and
// control nil, plus the bool fields of the ValidateOpts the file carries — is written out; the
// model predicts the same lines.  Independently of the model a reflective deep dump of every
// stored file is compared around each validate request (key modified:serverValidate:<path>).

import (
	"encoding/hex"
	"encoding/json"
	"flag"
	"fmt"
	"net/http/httptest"
	"net/url"
	"os"
	"path/filepath"
	"reflect"
	"strings"
	"unicode"

	kitlog "github.com/go-kit/log"
	"github.com/moov-io/ach"
	"github.com/moov-io/ach/server"

	"verifharness/internal/gen"
	"verifharness/internal/hx"
	"verifharness/internal/rng"
)

func optsBits(o *ach.ValidateOpts) string {
	if o == nil {
		return "n"
	}
	v := reflect.ValueOf(o).Elem()
	var b strings.Builder
	for _, fi := range boolOptFields {
		b.WriteString(b01(v.Field(fi).Bool()))
	}
	return b.String()
}

func projectX(f *ach.File) string { return project(f) + "/" + optsBits(f.GetValidation()) }

// queryOf renders the option mask as the query string of the validate route
// (lower-camel field names, which readValidateOpts accepts for every option).
func queryOf(mask uint32) string {
	t := reflect.TypeOf(ach.ValidateOpts{})
	q := url.Values{}
	for bit, fi := range boolOptFields {
		if bit < 32 && mask&(1<<uint(bit)) != 0 {
			n := []rune(t.Field(fi).Name)
			// lower the leading upper-case run the way the server spells its parameters (SkipAll -> skipAll, RequireABAOrigin -> requireABAOrigin)
			n[0] = unicode.ToLower(n[0])
			q.Set(string(n), "true")
		}
	}
	return q.Encode()
}

type storedFile struct {
	id   string
	f    *ach.File
	fc   *fileCase // nil for abstract states
	ops  []opCase  // what has been done to it so far (for the replayable oracle case)
	pinv bool
}

func srvcorr(args []string) {
	fs := flag.NewFlagSet("srvcorr", flag.ExitOnError)
	out := fs.String("out", "", "output directory")
	n := fs.Int("n", 1800, "cases")
	repo := fs.String("repo", os.Getenv("VERIF_REPO"), "moov-io/ach tree (fixtures)")
	fs.Parse(args)
	cases := hx.Create(filepath.Join(*out, "srvcases.txt"))
	impl := hx.Create(filepath.Join(*out, "srvimpl.txt"))
	res := hx.Create(filepath.Join(*out, "srvoracle.jsonl"))
	fx := loadFixtures(*repo)
	var achFx []fixture
	for _, f := range fx {
		if f.kind == "reader" {
			achFx = append(achFx, f)
		}
	}
	r := rng.FromEnv(141414)
	secs := []string{ach.PPD, ach.CCD, ach.ADV, ach.WEB, "", ach.COR, "adv", "ADV "}
	skipAll, allowMissing := optBitByName("SkipAll"), optBitByName("AllowMissingFileHeader")
	dist := map[string]int{}
	requests, viaHTTP, withOpts, distinct := 0, 0, 0, map[string]bool{}
	perKey := map[string]int{}
	var samples []any

	mkFile := func() (*ach.File, *fileCase, string) {
		switch pick := r.Intn(100); {
		case pick < 40: // abstract state, nil headers / controls included
			nb := r.Intn(5)
			bats := make([]absBat, nb)
			for k := range bats {
				bats[k] = absBat{nilHdr: r.Chance(1, 5), sec: rng.Pick(r, secs), ctl: r.Chance(3, 4)}
			}
			mask := randMask(r)
			if r.Chance(1, 5) {
				mask |= rng.Pick(r, []uint32{skipAll, allowMissing})
			}
			return buildAbstract(bats, r.Chance(3, 4), mask, r.Chance(1, 2)), nil, "abstract"
		case pick < 60:
			fc := fileCase{Kind: "gen", Seed: r.U64() | 1, Opts: randMask(r), NoOpts: r.Chance(1, 2)}
			f, _ := buildFile(fc)
			return f, &fc, fc.Kind
		case pick < 72:
			fc := fileCase{Kind: "needsopts", Seed: r.U64() | 1, NoOpts: true}
			f, _ := buildFile(fc)
			return f, &fc, fc.Kind
		case pick < 80:
			fc := fileCase{Kind: "api-adv", Seed: r.U64() | 1}
			f, _ := buildFile(fc)
			return f, &fc, fc.Kind
		case pick < 90 && len(achFx) > 0:
			x := rng.Pick(r, achFx)
			fc := fileCase{Kind: "reader", Name: x.name, TextHex: hex.EncodeToString(x.data), Opts: randMask(r), NoOpts: r.Chance(1, 2)}
			f, _ := buildFile(fc)
			return f, &fc, fc.Kind
		default:
			fc := fileCase{Kind: "api", Seed: r.U64() | 1, Opts: randMask(r), NoOpts: r.Chance(1, 3)}
			f, _ := buildFile(fc)
			return f, &fc, fc.Kind
		}
	}

	for c := 0; c < *n; c++ {
		rp := server.NewRepositoryInMemory(0, nil)
		svc := server.NewService(rp)
		handler := server.MakeHTTPHandler(svc, rp, kitlog.NewNopLogger())
		var st []*storedFile
		for k, nf := 0, r.Range(1, 3); k < nf; k++ {
			f, fc, kind := mkFile()
			if f == nil {
				continue
			}
			sf := &storedFile{id: fmt.Sprintf("f%d", k), f: f, fc: fc, pinv: prefixInv(f)}
			f.ID = sf.id
			if rp.StoreFile(f) != nil {
				continue
			}
			dist[kind]++
			if f.GetValidation() != nil {
				withOpts++
			}
			st = append(st, sf)
		}
		if len(st) == 0 {
			continue
		}
		show := func() string {
			parts := make([]string, len(st))
			for i, sf := range st {
				parts[i] = hx.Enc(sf.id) + "=" + projectX(sf.f)
			}
			return strings.Join(parts, ";")
		}
		init := show()
		var toks, states []string
		for k, nr := 0, r.Range(1, 6); k < nr; k++ {
			if r.Chance(1, 4) { // a library operation on a stored file
				sf := rng.Pick(r, st)
				o := genOps(r, 1)[0]
				if o.Op == "write" {
					o.Op = "writeBypass"
				}
				tok := runObserved(sf.f, o, func() bool { return true })
				sf.ops = append(sf.ops, o)
				toks = append(toks, "L"+hx.Enc(sf.id)+":"+tok)
				states = append(states, show())
				continue
			}
			// a validate request
			id := rng.Pick(r, st).id
			if r.Chance(1, 8) {
				id = "nosuchfile"
			}
			var target *storedFile
			for _, sf := range st {
				if sf.id == id {
					target = sf
				}
			}
			var mask uint32
			isNil := false
			switch r.Intn(5) {
			case 0:
				isNil = true
			case 1:
				mask = 1 << uint(r.Intn(numBoolOpts()))
			case 2:
				mask = randMask(r) | rng.Pick(r, []uint32{skipAll, allowMissing})
			default:
				mask = randMask(r)
			}
			http := r.Chance(1, 3)
			if http {
				isNil = false // the route always builds an option set
			}
			var opts *ach.ValidateOpts
			if !isNil {
				opts = optsFromMask(mask)
			}
			eff := opts
			if eff == nil {
				eff = &ach.ValidateOpts{}
			}
			pre := "000"
			var before [][]string
			for _, sf := range st {
				before = append(before, dump(sf.f))
			}
			if target != nil {
				hdrOk := func() (ok bool) {
					defer func() {
						if rec := recover(); rec != nil {
							ok = false
						}
					}()
					return target.f.Header.ValidateWith(eff) == nil
				}()
				pre = b01(eff.SkipAll) + b01(eff.AllowMissingFileHeader) + b01(hdrOk)
			}
			ok := func() (ok bool) {
				defer func() {
					if rec := recover(); rec != nil {
						ok = false
					}
				}()
				if http {
					viaHTTP++
					path := "/files/" + id + "/validate"
					if q := queryOf(mask); q != "" {
						path += "?" + q
					}
					method := "GET"
					if r.Chance(1, 2) {
						method = "POST"
					}
					w := httptest.NewRecorder()
					handler.ServeHTTP(w, httptest.NewRequest(method, path, strings.NewReader("")))
					return w.Code == 200
				}
				return svc.ValidateFile(id, opts) == nil
			}()
			requests++
			toks = append(toks, "R"+hx.Enc(id)+":"+pre+b01(ok))
			states = append(states, show())
			if target != nil {
				target.ops = append(target.ops, opCase{Op: "serverValidate", Opts: mask, Nil: isNil})
			}
			// oracle: a validate request leaves every stored file as it was (files that still need
			// IsADV's fix-ups are the model's business: the correspondence above compares them)
			for i, sf := range st {
				if !sf.pinv {
					continue
				}
				if path := firstDiff(before[i], dump(sf.f)); path != "" {
					key := "modified:serverValidate:" + path
					perKey[key]++
					if perKey[key] <= 3 && sf.fc != nil {
						tc := testCase{File: *sf.fc, Ops: sf.ops}
						if sf != target {
							tc.Ops = append(append([]opCase{}, sf.ops...), opCase{Op: "serverValidate", Opts: mask, Nil: isNil})
						}
						b, _ := json.Marshal(failure{Kind: "fail", Key: key, What: "a validate request (id " + id + ") changed the stored file " + sf.id + " at " + path, Case: tc})
						res.Printf("%s\n", b)
					}
				}
			}
		}
		cases.Printf("%s | %s\n", init, strings.Join(toks, " "))
		allOk := true
		for _, sf := range st {
			allOk = allOk && sf.pinv
		}
		impl.Printf("%s ok=%s\n", strings.Join(states, " ; "), b01(allOk))
		k := hashStr(init + strings.Join(toks, " "))
		distinct[k] = true
		if len(samples) < 4 && c%401 == 7 {
			samples = append(samples, map[string]any{"store": init, "requests": strings.Join(toks, " ")})
		}
	}
	// the constructions, by the regenerated tables: NewBatch + AddBatch for every SEC code the generator knows,
	// IAT, unknown codes and odd spellings, singly and in random sequences
	allSecs := append(append([]string{}, gen.AllSECs()...), ach.IAT, ach.ADV, "ZZZ", "", "adv", "ADV ", "PPD ")
	kcase := func(ks []string) {
		f := newBatchFile(ks)
		hs := make([]string, len(ks))
		for i, sec := range ks {
			hs[i] = hx.Enc(sec)
		}
		// oracle: what the constructors build needs no fix-up by IsADV, an ADV batch aside (known finding)
		if !prefixInv(f) {
			if cause := prefixInvCause(f); cause != "adv-batch-control-nil" {
				key := "condition:api:" + cause
				perKey[key]++
				if perKey[key] <= 3 {
					tc := testCase{File: fileCase{Kind: "newbatch", Name: strings.Join(ks, ",")}, Ops: []opCase{{Op: "validateWith", Opts: allowMissing}}}
					b, _ := json.Marshal(failure{Kind: "fail", Key: key, What: "NewBatch + AddBatch for SEC codes " + strings.Join(ks, ",") + " leaves a batch with " + cause, Case: tc})
					res.Printf("%s\n", b)
				}
			}
		}
		cases.Printf("K %s\n", strings.Join(hs, ","))
		impl.Printf("%s\n", project(f))
		dist["constructions"]++
	}
	for _, sec := range allSecs {
		kcase([]string{sec})
	}
	for i := 0; i < 200; i++ {
		ks := make([]string, r.Range(1, 6))
		for k := range ks {
			ks[k] = rng.Pick(r, allSecs)
		}
		kcase(ks)
	}
	// Reader.Read cut short by a line limit (an ErrNonNil return of the isadv_returns table that IsADV does not
	// dominate): every line limit on every fixture with an ADV batch and on a sample of the others
	ncut := 0
	for _, x := range achFx {
		isADV := strings.Contains(strings.ToLower(x.name), "adv")
		if !isADV && !r.Chance(1, 12) {
			continue
		}
		lines := strings.Count(string(x.data), "\n") + 1
		if lines > 40 {
			lines = 40
		}
		for k := 1; k <= lines; k++ {
			tc := testCase{File: fileCase{Kind: "readercut", Name: x.name, TextHex: hex.EncodeToString(x.data), Seed: uint64(k)},
				Ops: []opCase{{Op: "serverValidate", Opts: allowMissing}, {Op: "validate"}, {Op: "writeBypass"}}}
			fails, _, _ := checkCase(tc)
			ncut++
			for _, f := range fails {
				perKey[f.Key]++
				if perKey[f.Key] <= 2 {
					b, _ := json.Marshal(f)
					res.Printf("%s\n", b)
				}
			}
		}
	}
	dist["reader-cut-short"] = ncut
	requests += ncut + dist["constructions"]
	sum := summary{Kind: "summary", Evaluations: requests, Distinct: len(distinct), Dist: dist, Samples: samples,
		Rule: "validate requests (Service.ValidateFile, a third through the HTTP route GET/POST /files/{id}/validate) on stores of 1-3 real files, interleaved with library operations on the stored pointers; the projection of every stored file (batch headers / controls, stored ValidateOpts) after each request is compared with the extracted store model, a reflective deep dump of every stored file is compared around each request; distinct by (store, request history)"}
	sum.Dist["requests-via-http"] = viaHTTP
	sum.Dist["stored-files-with-options"] = withOpts
	b, _ := json.Marshal(sum)
	res.Printf("%s\n", b)
	cases.Close()
	impl.Close()
	res.Close()
	fmt.Printf("{\"cases\":%d,\"requests\":%d}\n", len(distinct), requests)
}

// newBatchFile: NewFile, then AddBatch(NewBatch(bh)) for a header carrying each SEC code (a failed NewBatch adds nothing).
func newBatchFile(secs []string) *ach.File {
	f := ach.NewFile()
	for i, sec := range secs {
		bh := ach.NewBatchHeader()
		bh.StandardEntryClassCode = sec
		bh.BatchNumber = i + 1
		if b, err := ach.NewBatch(bh); err == nil {
			f.AddBatch(b)
		}
	}
	return f
}

package main

import (
	"encoding/hex"
	"os"
	"path/filepath"
	"reflect"
	"sort"
	"strings"

	"github.com/moov-io/ach"

	"verifharness/internal/gen"
	"verifharness/internal/rng"
)

// mutateFields changes k exported scalar fields of the file in place (chosen through
// reflection, so new fields are covered without listing them): the file stays "built
// through the API" but is invalid in one spot, which lets validation run far.
func mutateFields(r *rng.R, f *ach.File, k int) {
	var fields []reflect.Value
	var walk func(v reflect.Value, depth int)
	walk = func(v reflect.Value, depth int) {
		if depth > 16 {
			return
		}
		switch v.Kind() {
		case reflect.Pointer, reflect.Interface:
			if !v.IsNil() {
				walk(v.Elem(), depth+1)
			}
		case reflect.Struct:
			t := v.Type()
			for i := 0; i < v.NumField(); i++ {
				if !t.Field(i).IsExported() && !t.Field(i).Anonymous {
					continue
				}
				walk(v.Field(i), depth+1)
			}
		case reflect.Slice:
			for i := 0; i < v.Len(); i++ {
				walk(v.Index(i), depth+1)
			}
		case reflect.Int, reflect.String:
			if v.CanSet() {
				fields = append(fields, v)
			}
		}
	}
	walk(reflect.ValueOf(f), 0)
	for ; k > 0 && len(fields) > 0; k-- {
		v := fields[r.Intn(len(fields))]
		switch v.Kind() {
		case reflect.Int:
			switch r.Intn(3) {
			case 0:
				v.SetInt(0)
			case 1:
				v.SetInt(v.Int() + 1)
			default:
				v.SetInt(int64(r.Intn(1000)))
			}
		case reflect.String:
			s := v.String()
			switch r.Intn(5) {
			case 0:
				v.SetString("")
			case 1:
				v.SetString(" " + s)
			case 2:
				v.SetString(s + " ")
			case 3:
				v.SetString(strings.ToLower(s))
			default:
				v.SetString(s + "x")
			}
		}
	}
}

// genValidFile: a valid file from the shared generator; the seed also picks the content options.
// prefixCodes: the code fields of return / change addenda written the way people say them ("R01" in a two-column
// reason code, "C01" is already the form of a change code): formatters that normalise such a value must do so on a
// copy.  Every string field whose name ends in ReasonCode of every return addenda gets an "R" in front, one time in two.
func prefixCodes(r *rng.R, f *ach.File) {
	var walk func(v reflect.Value, depth int)
	walk = func(v reflect.Value, depth int) {
		if depth > 16 {
			return
		}
		switch v.Kind() {
		case reflect.Pointer, reflect.Interface:
			if !v.IsNil() {
				walk(v.Elem(), depth+1)
			}
		case reflect.Struct:
			t := v.Type()
			for i := 0; i < v.NumField(); i++ {
				fl := t.Field(i)
				if !fl.IsExported() && !fl.Anonymous {
					continue
				}
				if fl.Type.Kind() == reflect.String && strings.HasSuffix(fl.Name, "ReasonCode") && v.Field(i).CanSet() && r.Bool() {
					v.Field(i).SetString("R" + v.Field(i).String())
					continue
				}
				walk(v.Field(i), depth+1)
			}
		case reflect.Slice:
			for i := 0; i < v.Len(); i++ {
				walk(v.Index(i), depth+1)
			}
		}
	}
	walk(reflect.ValueOf(f), 0)
}

func genValidFile(fc fileCase) *ach.File {
	r := rng.New(fc.Seed)
	b := fc.Seed >> 8
	var f *ach.File
	if b&0xf == 0 {
		f = gen.ADVFile(r)
	} else {
		f = gen.File(r, gen.Opts{IAT: b&16 != 0, Returns: b&32 != 0, NOC: b&64 != 0, Addenda: b&128 != 0, Offset: b&256 != 0, NonASCII: b&512 != 0 && b&1024 != 0})
	}
	if !fc.NoOpts && fc.Kind != "gentext" {
		f.SetValidation(optsFromMask(fc.Opts))
	}
	return f
}

type fixture struct {
	kind string // reader | json
	name string
	data []byte
}

// loadFixtures reads the .ach and .json fixtures of the repository (test/testdata and the
// per-SEC example directories).
func loadFixtures(repo string) []fixture {
	var out []fixture
	if repo == "" {
		return out
	}
	root := filepath.Join(repo, "test")
	filepath.WalkDir(root, func(p string, d os.DirEntry, err error) error {
		if err != nil || d.IsDir() {
			return nil
		}
		ext := strings.ToLower(filepath.Ext(p))
		if ext != ".ach" && ext != ".json" && ext != ".txt" {
			return nil
		}
		if strings.Contains(p, "crashers") || strings.Contains(p, "fuzz") {
			return nil
		}
		b, err := os.ReadFile(p)
		if err != nil || len(b) > 120000 {
			return nil
		}
		rel, _ := filepath.Rel(repo, p)
		kind := "reader"
		if ext == ".json" {
			kind = "json"
		}
		out = append(out, fixture{kind: kind, name: rel, data: b})
		return nil
	})
	sort.Slice(out, func(i, j int) bool { return out[i].name < out[j].name })
	return out
}

func genFileCase(r *rng.R, fx []fixture) fileCase {
	var ach []fixture
	var js []fixture
	for _, f := range fx {
		if f.kind == "reader" {
			ach = append(ach, f)
		} else {
			js = append(js, f)
		}
	}
	pick := r.Intn(100)
	switch {
	case pick < 20 && len(ach) > 0: // fixture under random options
		f := rng.Pick(r, ach)
		return fileCase{Kind: "reader", Name: f.name, TextHex: hex.EncodeToString(f.data), Opts: randMask(r), NoOpts: r.Chance(1, 4)}
	case pick < 45 && len(ach) > 0: // mutated fixture
		f := rng.Pick(r, ach)
		data := mutate(r, f.data)
		return fileCase{Kind: "reader", Name: f.name + " (mutated)", TextHex: hex.EncodeToString(data), Opts: randMask(r), NoOpts: r.Chance(1, 4)}
	case pick < 52: // arbitrary bytes / record-shaped noise
		return fileCase{Kind: "reader", Name: "noise", TextHex: hex.EncodeToString(noise(r)), Opts: randMask(r), NoOpts: r.Chance(1, 4)}
	case pick < 57 && len(js) > 0:
		f := rng.Pick(r, js)
		return fileCase{Kind: "json", Name: f.name, TextHex: hex.EncodeToString(f.data), Opts: randMask(r), NoOpts: r.Chance(1, 2)}
	case pick < 66:
		return fileCase{Kind: "gen", Seed: r.U64() | 1, Opts: randMask(r), NoOpts: r.Chance(1, 2)}
	case pick < 67:
		// return addenda whose reason codes carry the letter ("R01" in a two-column field); returns forced on
		return fileCase{Kind: "gencodes", Seed: (r.U64()|1|32<<8)&^(0xf<<8) | 1<<8, Opts: randMask(r), NoOpts: r.Chance(2, 3)}
	case pick < 69:
		// the date and time fields given as RFC 3339 timestamps (FileCreationDateField / FileCreationTimeField accept them)
		return fileCase{Kind: "gendates", Seed: r.U64() | 1, Opts: randMask(r), NoOpts: r.Chance(2, 3)}
	case pick < 78:
		return fileCase{Kind: "genmut", Seed: r.U64() | 1, Opts: randMask(r), NoOpts: r.Chance(2, 3)}
	case pick < 84:
		return fileCase{Kind: "gentext", Seed: r.U64() | 1, Opts: randMask(r), NoOpts: r.Chance(1, 2)}
	case pick < 92:
		// a file valid only under the option set stored on it (file, batches and, for some variants, records)
		return fileCase{Kind: "needsopts", Seed: r.U64() | 1, NoOpts: true}
	default:
		return fileCase{Kind: "api", Seed: r.U64() | 1, Opts: randMask(r), NoOpts: r.Chance(1, 3)}
	}
}

func mutate(r *rng.R, data []byte) []byte {
	lines := strings.Split(string(data), "\n")
	for k := r.Range(1, 3); k > 0; k-- {
		if len(lines) == 0 {
			break
		}
		i := r.Intn(len(lines))
		switch r.Intn(8) {
		case 0: // delete a line
			lines = append(lines[:i:i], lines[i+1:]...)
		case 1: // duplicate a line
			lines = append(lines[:i+1:i+1], append([]string{lines[i]}, lines[i+1:]...)...)
		case 2: // swap two lines
			j := r.Intn(len(lines))
			lines[i], lines[j] = lines[j], lines[i]
		case 3: // change one character
			if len(lines[i]) > 0 {
				b := []byte(lines[i])
				b[r.Intn(len(b))] = rng.Pick(r, []byte("0123456789 AZaz*-\t\xe9"))
				lines[i] = string(b)
			}
		case 4: // blank out a span
			if len(lines[i]) > 4 {
				b := []byte(lines[i])
				s := r.Intn(len(b) - 3)
				for j := s; j < s+r.Range(1, 12) && j < len(b); j++ {
					b[j] = ' '
				}
				lines[i] = string(b)
			}
		case 5: // truncate the file
			lines = lines[:i+1]
		case 6: // change the record type
			if len(lines[i]) > 0 {
				lines[i] = string(rng.Pick(r, []byte("156789"))) + lines[i][1:]
			}
		case 7: // cut or extend a line
			if len(lines[i]) > 10 {
				if r.Bool() {
					lines[i] = lines[i][:r.Intn(len(lines[i]))]
				} else {
					lines[i] += "XX"
				}
			}
		}
	}
	sep := "\n"
	if r.Chance(1, 6) {
		sep = "\r\n"
	}
	return []byte(strings.Join(lines, sep))
}

func noise(r *rng.R) []byte {
	var b strings.Builder
	n := r.Range(0, 12)
	for i := 0; i < n; i++ {
		if r.Chance(1, 5) {
			l := r.Range(0, 120)
			for j := 0; j < l; j++ {
				b.WriteByte(byte(r.Intn(256)))
			}
		} else {
			b.WriteByte(rng.Pick(r, []byte("1566789")))
			for j := 1; j < 94; j++ {
				b.WriteByte(rng.Pick(r, []byte("0000111223456789   ABCDEFPW ")))
			}
		}
		b.WriteString("\n")
	}
	return []byte(b.String())
}

// ---------------------------------------------------------------- files built with the constructors

var routingVariants = []string{"231380104", "121042882", " 231380104", "231380104 ", " 121042882 ", "0231380104", "\t231380104", "23138010", "", "   ", "1234567890", " 1234567890"}

var simpleSECs = []string{ach.PPD, ach.PPD, ach.CCD, ach.WEB, ach.TEL, ach.ARC, ach.BOC, ach.POP, ach.RCK, ach.CIE, ach.CTX, ach.COR}

// genAPIFile builds a file only through the exported constructors and setters
// (NewFile, NewBatchHeader, NewBatch, NewEntryDetail, AddEntry, AddBatch, Create, SetValidation).
func genAPIFile(fc fileCase) *ach.File {
	r := rng.New(fc.Seed)
	f := ach.NewFile()
	f.ID = "api"
	f.Header.ImmediateDestination = rng.Pick(r, routingVariants)
	f.Header.ImmediateOrigin = rng.Pick(r, routingVariants)
	f.Header.FileCreationDate = "190816"
	f.Header.FileCreationTime = "1055"
	f.Header.ImmediateDestinationName = "Federal Reserve Bank"
	f.Header.ImmediateOriginName = "My Bank Name"
	if r.Chance(1, 8) {
		f.Header.FileIDModifier = rng.Pick(r, []string{"", "a", "AB", "1"})
	}
	if !fc.NoOpts {
		f.SetValidation(optsFromMask(fc.Opts))
		if r.Bool() {
			f.Header.SetValidation(optsFromMask(fc.Opts))
		}
	}
	nb := r.Intn(4)
	for i := 0; i < nb; i++ {
		if r.Chance(1, 6) {
			addIATBatch(r, f)
			continue
		}
		if r.Chance(1, 8) {
			addADVBatch(r, f, i+1)
			continue
		}
		sec := rng.Pick(r, simpleSECs)
		bh := ach.NewBatchHeader()
		bh.ServiceClassCode = rng.Pick(r, []int{ach.MixedDebitsAndCredits, ach.CreditsOnly, ach.DebitsOnly})
		bh.CompanyName = "Payee Co"
		bh.CompanyIdentification = "121042882"
		bh.StandardEntryClassCode = sec
		bh.CompanyEntryDescription = "PAYROLL"
		bh.EffectiveEntryDate = "190816"
		bh.ODFIIdentification = "12104288"
		bh.BatchNumber = i + 1
		b, err := ach.NewBatch(bh)
		if err != nil {
			continue
		}
		ne := r.Range(1, 3)
		for k := 0; k < ne; k++ {
			e := ach.NewEntryDetail()
			e.TransactionCode = rng.Pick(r, []int{ach.CheckingCredit, ach.CheckingDebit, ach.SavingsCredit, ach.SavingsDebit, ach.CheckingPrenoteCredit})
			e.SetRDFI("231380104")
			e.DFIAccountNumber = rng.Pick(r, []string{"12345678", "  1234", "744-5678-99"})
			e.Amount = r.Intn(200000)
			e.IdentificationNumber = rng.Pick(r, []string{"", "ID0001", "    ID2"})
			e.IndividualName = rng.Pick(r, []string{"Wade Arnold", "  padded name ", "ACME Corp"})
			e.DiscretionaryData = rng.Pick(r, []string{"", "R", "S", " r", "xy"})
			e.SetTraceNumber(bh.ODFIIdentification, k+1)
			if r.Chance(1, 3) {
				a := ach.NewAddenda05()
				a.PaymentRelatedInformation = "invoice " + rng.Pick(r, []string{"1", "2  ", " 3"})
				a.SequenceNumber = 1
				a.EntryDetailSequenceNumber = k + 1
				e.AddAddenda05(a)
				e.AddendaRecordIndicator = 1
			}
			if sec == ach.COR {
				a := ach.NewAddenda98()
				a.ChangeCode = "C01"
				a.OriginalTrace = "121042880000001"
				a.OriginalDFI = "12104288"
				a.CorrectedData = "1918171614"
				a.TraceNumber = "121042880000001"
				e.Addenda98 = a
				e.Category = ach.CategoryNOC
				e.AddendaRecordIndicator = 1
				e.Amount = 0
				e.TransactionCode = ach.CheckingReturnNOCCredit
			}
			b.AddEntry(e)
		}
		if r.Chance(1, 4) {
			b.SetValidation(optsFromMask(randMask(r)))
		}
		if r.Chance(3, 4) {
			func() {
				defer func() { recover() }()
				_ = b.Create()
			}()
		}
		f.AddBatch(b)
	}
	if r.Chance(3, 4) {
		func() {
			defer func() { recover() }()
			_ = f.Create()
		}()
	}
	return f
}

func addADVBatch(r *rng.R, f *ach.File, num int) {
	bh := ach.NewBatchHeader()
	bh.ServiceClassCode = ach.AutomatedAccountingAdvices
	bh.CompanyName = "Company Name, Inc"
	bh.CompanyIdentification = "121042882"
	bh.StandardEntryClassCode = ach.ADV
	bh.CompanyEntryDescription = "Accounting"
	bh.EffectiveEntryDate = "190816"
	bh.ODFIIdentification = "12104288"
	bh.OriginatorStatusCode = 0
	bh.BatchNumber = num
	b, err := ach.NewBatch(bh)
	if err != nil {
		return
	}
	e := ach.NewADVEntryDetail()
	e.TransactionCode = ach.CreditForDebitsOriginated
	e.SetRDFI("231380104")
	e.DFIAccountNumber = "744-5678-99"
	e.Amount = 50000
	e.AdviceRoutingNumber = "121042882"
	e.FileIdentification = "11131"
	e.ACHOperatorData = ""
	e.IndividualName = "Name"
	e.DiscretionaryData = ""
	e.AddendaRecordIndicator = 0
	e.ACHOperatorRoutingNumber = "01100001"
	e.JulianDay = 50
	e.SequenceNumber = 1
	b.AddADVEntry(e)
	if r.Chance(3, 4) {
		func() {
			defer func() { recover() }()
			_ = b.Create()
		}()
	}
	f.AddBatch(b)
}

func addIATBatch(r *rng.R, f *ach.File) {
	bh := ach.NewIATBatchHeader()
	bh.ServiceClassCode = ach.CreditsOnly
	bh.ForeignExchangeIndicator = "FF"
	bh.ForeignExchangeReferenceIndicator = 3
	bh.ISODestinationCountryCode = "US"
	bh.OriginatorIdentification = "123456789"
	bh.StandardEntryClassCode = ach.IAT
	bh.CompanyEntryDescription = "TRADEPAYMT"
	bh.ISOOriginatingCurrencyCode = "CAD"
	bh.ISODestinationCurrencyCode = "USD"
	bh.ODFIIdentification = "23138010"
	b := ach.NewIATBatch(bh)
	e := ach.NewIATEntryDetail()
	e.TransactionCode = ach.CheckingCredit
	e.SetRDFI("121042882")
	e.AddendaRecords = 7
	e.DFIAccountNumber = "123456789"
	e.Amount = 100000
	e.SetTraceNumber("23138010", 1)
	e.Category = ach.CategoryForward
	if r.Bool() {
		a10 := ach.NewAddenda10()
		a10.TransactionTypeCode = "ANN"
		a10.ForeignPaymentAmount = 100000
		a10.ForeignTraceNumber = "928383-23938"
		a10.Name = "BEK Enterprises"
		a10.EntryDetailSequenceNumber = 1
		e.Addenda10 = a10
	}
	b.AddEntry(e)
	if r.Bool() {
		func() {
			defer func() { recover() }()
			_ = b.Create()
		}()
	}
	f.AddIATBatch(b)
}

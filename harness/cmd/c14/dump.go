package main

import (
	"fmt"
	"reflect"
	"regexp"
	"sort"
	"strconv"

	"github.com/moov-io/ach"
)

// dump is a reflective deep dump of a value: one "path=value" line per scalar, nil
// pointer, length.  It reads the memory of the file directly (exported and unexported
// fields alike) and calls no method of the library, so it is an observation that is
// independent of the code under test.
func dump(f *ach.File) []string {
	d := &dumper{seen: map[uintptr]bool{}}
	d.walk("File", reflect.ValueOf(f).Elem(), 0)
	return d.out
}

type dumper struct {
	out  []string
	seen map[uintptr]bool
}

func (d *dumper) emit(path, v string) { d.out = append(d.out, path+"="+v) }

func (d *dumper) walk(path string, v reflect.Value, depth int) {
	if depth > 14 {
		d.emit(path, "<depth>")
		return
	}
	switch v.Kind() {
	case reflect.Bool:
		d.emit(path, strconv.FormatBool(v.Bool()))
	case reflect.Int, reflect.Int8, reflect.Int16, reflect.Int32, reflect.Int64:
		d.emit(path, strconv.FormatInt(v.Int(), 10))
	case reflect.Uint, reflect.Uint8, reflect.Uint16, reflect.Uint32, reflect.Uint64, reflect.Uintptr:
		d.emit(path, strconv.FormatUint(v.Uint(), 10))
	case reflect.Float32, reflect.Float64:
		d.emit(path, strconv.FormatFloat(v.Float(), 'g', -1, 64))
	case reflect.String:
		d.emit(path, strconv.Quote(v.String()))
	case reflect.Pointer:
		if v.IsNil() {
			d.emit(path, "nil")
			return
		}
		p := v.Pointer()
		if d.seen[p] && v.Elem().Kind() == reflect.Struct && depth > 6 {
			d.emit(path, "<seen>")
			return
		}
		d.seen[p] = true
		d.walk(path, v.Elem(), depth+1)
	case reflect.Interface:
		if v.IsNil() {
			d.emit(path, "nil")
			return
		}
		d.emit(path+".(type)", v.Elem().Type().String())
		d.walk(path, v.Elem(), depth+1)
	case reflect.Struct:
		t := v.Type()
		for i := 0; i < v.NumField(); i++ {
			d.walk(path+"."+t.Field(i).Name, v.Field(i), depth+1)
		}
	case reflect.Slice:
		if v.IsNil() {
			d.emit(path, "nil")
			return
		}
		d.emit(path+".len", strconv.Itoa(v.Len()))
		for i := 0; i < v.Len(); i++ {
			d.walk(path+"["+strconv.Itoa(i)+"]", v.Index(i), depth+1)
		}
	case reflect.Array:
		for i := 0; i < v.Len(); i++ {
			d.walk(path+"["+strconv.Itoa(i)+"]", v.Index(i), depth+1)
		}
	case reflect.Map:
		if v.IsNil() {
			d.emit(path, "nil")
			return
		}
		keys := v.MapKeys()
		ks := make([]string, len(keys))
		byKey := map[string]reflect.Value{}
		for i, k := range keys {
			ks[i] = fmt.Sprint(k)
			byKey[ks[i]] = v.MapIndex(k)
		}
		sort.Strings(ks)
		d.emit(path+".len", strconv.Itoa(len(ks)))
		for _, k := range ks {
			d.walk(path+"["+strconv.Quote(k)+"]", byKey[k], depth+1)
		}
	case reflect.Func, reflect.Chan, reflect.UnsafePointer:
		if v.IsNil() {
			d.emit(path, "nil")
		} else {
			d.emit(path, "<"+v.Kind().String()+">")
		}
	default:
		d.emit(path, "<"+v.Kind().String()+">")
	}
}

var idx = regexp.MustCompile(`\[[0-9]+\]`)

// firstDiff returns the path (indices removed) of the first line that differs, "" if none.
func firstDiff(a, b []string) string {
	n := len(a)
	if len(b) < n {
		n = len(b)
	}
	for i := 0; i < n; i++ {
		if a[i] != b[i] {
			return idx.ReplaceAllString(pathOf(a[i]), "[]")
		}
	}
	if len(a) != len(b) {
		var l string
		if len(a) > n {
			l = a[n]
		} else {
			l = b[n]
		}
		return idx.ReplaceAllString(pathOf(l), "[]")
	}
	return ""
}

func pathOf(line string) string {
	for i := 0; i < len(line); i++ {
		if line[i] == '=' {
			return line[:i]
		}
	}
	return line
}

func isNilPtr(s stringer) bool {
	if s == nil {
		return true
	}
	v := reflect.ValueOf(s)
	return v.Kind() == reflect.Pointer && v.IsNil()
}

// bool fields of ach.ValidateOpts in declaration order
var boolOptFields = func() []int {
	var out []int
	t := reflect.TypeOf(ach.ValidateOpts{})
	for i := 0; i < t.NumField(); i++ {
		if t.Field(i).Type.Kind() == reflect.Bool && t.Field(i).IsExported() {
			out = append(out, i)
		}
	}
	return out
}()

func numBoolOpts() int { return len(boolOptFields) }

func setBoolFields(o *ach.ValidateOpts, m uint32) {
	v := reflect.ValueOf(o).Elem()
	for bit, fi := range boolOptFields {
		if bit < 32 && m&(1<<uint(bit)) != 0 {
			v.Field(fi).SetBool(true)
		}
	}
}

func optBitByName(name string) uint32 {
	t := reflect.TypeOf(ach.ValidateOpts{})
	for bit, fi := range boolOptFields {
		if t.Field(fi).Name == name {
			return 1 << uint(bit)
		}
	}
	return 0
}

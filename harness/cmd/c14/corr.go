package main

import (
	"encoding/hex"
	"flag"
	"fmt"
	"os"
	"path/filepath"
	"strings"

	"github.com/moov-io/ach"

	"verifharness/internal/hx"
	"verifharness/internal/rng"
)

// ---------------------------------------------------------------- correspondence: model vs implementation
//
// The model's state is, per element of File.Batches, (header nil? / its SEC code, control nil?).
// Each case is a real file, a history of real operations and — per validating operation —
// what was observed of it (the option bits, the header verdict, the overall verdict).  The
// extracted model predicts the state after every operation; here the same projection is
// taken from the real file.  Files with nil headers / controls (built with struct literals)
// are included on purpose: on them the operations do write, and the model says where.

type absBat struct {
	nilHdr bool
	sec    string
	ctl    bool
}

func project(f *ach.File) string {
	if len(f.Batches) == 0 {
		return "-"
	}
	parts := make([]string, len(f.Batches))
	for i, b := range f.Batches {
		h := "N"
		if hd := b.GetHeader(); hd != nil {
			h = "H" + hx.Enc(hd.StandardEntryClassCode)
		}
		c := "0"
		if b.GetControl() != nil {
			c = "1"
		}
		parts[i] = h + ":" + c
	}
	return strings.Join(parts, ",")
}

func prefixInv(f *ach.File) bool {
	for _, b := range f.Batches {
		if b.GetHeader() == nil || b.GetControl() == nil {
			return false
		}
		if b.GetHeader().StandardEntryClassCode == ach.ADV {
			return true
		}
	}
	return true
}

// prefixInvCause names the first thing that breaks prefixInv.
func prefixInvCause(f *ach.File) string {
	for _, b := range f.Batches {
		if b == nil {
			return "nil-batch"
		}
		h := b.GetHeader()
		if h == nil {
			return "nil-header"
		}
		if b.GetControl() == nil {
			if h.StandardEntryClassCode == ach.ADV {
				return "adv-batch-control-nil" // NewBatchADV sets only ADVControl
			}
			return "nil-control"
		}
		if h.StandardEntryClassCode == ach.ADV {
			return ""
		}
	}
	return ""
}

func b01(b bool) string {
	if b {
		return "1"
	}
	return "0"
}

func buildAbstract(bats []absBat, hdrValid bool, optsMask uint32, noOpts bool) *ach.File {
	f := ach.NewFile()
	f.ID = "corr"
	f.Header.ImmediateDestination = "231380104"
	f.Header.ImmediateOrigin = "121042882"
	f.Header.FileCreationDate = "190816"
	f.Header.FileCreationTime = "1055"
	f.Header.ImmediateDestinationName = "Federal Reserve Bank"
	f.Header.ImmediateOriginName = "My Bank Name"
	if !hdrValid {
		f.Header.ImmediateDestination = "231380105" // bad check digit
	}
	if !noOpts {
		f.SetValidation(optsFromMask(optsMask))
	}
	for i, a := range bats {
		var bh *ach.BatchHeader
		if !a.nilHdr {
			bh = ach.NewBatchHeader()
			bh.ServiceClassCode = ach.MixedDebitsAndCredits
			bh.CompanyName = "Payee Co"
			bh.CompanyIdentification = "121042882"
			bh.StandardEntryClassCode = a.sec
			bh.CompanyEntryDescription = "PAYROLL"
			bh.EffectiveEntryDate = "190816"
			bh.ODFIIdentification = "12104288"
			bh.BatchNumber = i + 1
		}
		if bh != nil && a.ctl {
			if b, err := ach.NewBatch(bh); err == nil {
				if a.sec != ach.ADV {
					e := ach.NewEntryDetail()
					e.TransactionCode = ach.CheckingCredit
					e.SetRDFI("231380104")
					e.DFIAccountNumber = "12345678"
					e.Amount = 100
					e.IndividualName = "Wade Arnold"
					e.SetTraceNumber(bh.ODFIIdentification, 1)
					b.AddEntry(e)
					func() {
						defer func() { recover() }()
						_ = b.Create()
					}()
				}
				f.AddBatch(b)
				continue
			}
		}
		lit := &ach.Batch{Header: bh}
		if a.ctl {
			lit.Control = ach.NewBatchControl()
		}
		f.Batches = append(f.Batches, lit)
	}
	// make the file control consistent when possible so that Validate gets past the counts
	func() {
		defer func() { recover() }()
		if invViolation(f) == "" {
			_ = f.Create()
		} else {
			f.Control.BatchCount = len(f.Batches)
		}
	}()
	return f
}

// runObserved executes one operation and returns the token handed to the model.
// validateVerdict tells whether file.Validate() — the first thing a validating Write does —
// returns nil in the file's current state; it is evaluated on a twin of the file (same
// construction, same history so far) so that asking does not disturb the file under test.
func runObserved(f *ach.File, o opCase, validateVerdict func() bool) string {
	flagsFor := func(opts *ach.ValidateOpts) (string, func(ok bool) string) {
		if opts == nil {
			opts = &ach.ValidateOpts{}
		}
		hdrOk := func() (ok bool) {
			defer func() {
				if r := recover(); r != nil {
					ok = false
				}
			}()
			return f.Header.ValidateWith(opts) == nil
		}()
		pre := b01(opts.SkipAll) + b01(opts.AllowMissingFileHeader) + b01(hdrOk)
		return pre, func(ok bool) string { return pre + b01(ok) }
	}
	switch o.Op {
	case "validate":
		_, fin := flagsFor(f.GetValidation())
		res := runOp(f, o)
		return "V" + fin(!res.Err && !res.Panicked)
	case "validateWith":
		var opts *ach.ValidateOpts
		if !o.Nil {
			opts = optsFromMask(o.Opts)
		}
		_, fin := flagsFor(opts)
		res := runOp(f, o)
		return "W" + fin(!res.Err && !res.Panicked)
	case "write":
		_, fin := flagsFor(f.GetValidation())
		ok := validateVerdict()
		runOp(f, o)
		return "X" + fin(ok)
	case "batchValidate":
		runOp(f, o)
		return fmt.Sprintf("B%d", o.Arg)
	case "string":
		runOp(f, o)
		return fmt.Sprintf("S%d", o.Arg)
	case "json":
		runOp(f, o)
		return "J"
	case "writeBypass":
		runOp(f, o)
		return "P"
	}
	panic("unknown op")
}

func corr(args []string) {
	fs := flag.NewFlagSet("corr", flag.ExitOnError)
	out := fs.String("out", "", "output directory")
	maxb := fs.Int("maxb", 3, "exhaustive sweep: states of up to this many batches")
	random := fs.Int("random", 3000, "random abstract cases")
	repo := fs.String("repo", os.Getenv("VERIF_REPO"), "moov-io/ach tree (fixtures)")
	fs.Parse(args)
	cases := hx.Create(filepath.Join(*out, "cases.txt"))
	impl := hx.Create(filepath.Join(*out, "impl.txt"))
	n := 0
	runCase := func(mk func() *ach.File, ops []opCase) {
		f := mk()
		if f == nil {
			return
		}
		init := project(f)
		inv := invViolation(f) == ""
		pinv := prefixInv(f)
		var toks, states []string
		for k, o := range ops {
			verdict := func() (ok bool) {
				defer func() {
					if r := recover(); r != nil {
						ok = false
					}
				}()
				twin := mk()
				for _, prev := range ops[:k] {
					runOp(twin, prev)
				}
				return twin.Validate() == nil
			}
			toks = append(toks, runObserved(f, o, verdict))
			states = append(states, project(f))
		}
		cases.Printf("%s | %s\n", init, strings.Join(toks, " "))
		impl.Printf("%s inv=%s pinv=%s\n", strings.Join(states, ";"), b01(inv), b01(pinv))
		n++
	}

	// (a) exhaustive sweep over small states x every single operation x option sets x header verdict
	alphabet := []absBat{{nilHdr: true}, {nilHdr: true, ctl: true}, {sec: ach.PPD}, {sec: ach.PPD, ctl: true}, {sec: ach.ADV}, {sec: ach.ADV, ctl: true}}
	skipAll, allowMissing := optBitByName("SkipAll"), optBitByName("AllowMissingFileHeader")
	if skipAll == 0 || allowMissing == 0 {
		fmt.Fprintln(os.Stderr, "ValidateOpts no longer has SkipAll / AllowMissingFileHeader")
		os.Exit(1)
	}
	type optv struct {
		mask uint32
		none bool
	}
	optSets := []optv{{none: true}, {mask: skipAll}, {mask: allowMissing}}
	singles := []opCase{{Op: "validate"}, {Op: "validateWith", Nil: true}, {Op: "validateWith", Opts: allowMissing}, {Op: "batchValidate", Arg: 0},
		{Op: "string", Arg: 0}, {Op: "json"}, {Op: "writeBypass"}, {Op: "write"}}
	var rec func(prefix []absBat)
	rec = func(prefix []absBat) {
		for _, os := range optSets {
			for _, hv := range []bool{true, false} {
				for _, o := range singles {
					runCase(func() *ach.File { return buildAbstract(prefix, hv, os.mask, os.none) }, []opCase{o})
				}
				// and one two-step history: an operation that may stop early, then a write
				runCase(func() *ach.File { return buildAbstract(prefix, hv, os.mask, os.none) }, []opCase{{Op: "validate"}, {Op: "writeBypass"}, {Op: "validate"}})
				runCase(func() *ach.File { return buildAbstract(prefix, hv, os.mask, os.none) }, []opCase{{Op: "write"}, {Op: "validateWith", Opts: skipAll}, {Op: "write"}})
			}
		}
		if len(prefix) == *maxb {
			return
		}
		for _, a := range alphabet {
			rec(append(append([]absBat{}, prefix...), a))
		}
	}
	rec(nil)

	// (b) random abstract states and histories
	r := rng.FromEnv(14)
	secs := []string{ach.PPD, ach.CCD, ach.ADV, ach.WEB, "", ach.COR, "adv", "ADV "}
	for i := 0; i < *random; i++ {
		nb := r.Intn(6)
		bats := make([]absBat, nb)
		for k := range bats {
			bats[k] = absBat{nilHdr: r.Chance(1, 4), sec: rng.Pick(r, secs), ctl: r.Chance(3, 4)}
		}
		mask := randMask(r)
		if r.Chance(1, 4) {
			mask |= rng.Pick(r, []uint32{skipAll, allowMissing})
		}
		ops := genOps(r, 5)
		for k := range ops {
			if ops[k].Op == "validateWith" && r.Chance(1, 3) {
				ops[k].Opts |= rng.Pick(r, []uint32{skipAll, allowMissing})
			}
		}
		hv, none := r.Chance(3, 4), r.Chance(1, 3)
		runCase(func() *ach.File { return buildAbstract(bats, hv, mask, none) }, ops)
	}

	// (c) real files: every fixture through the Reader, random histories
	for _, fx := range loadFixtures(*repo) {
		if fx.kind != "reader" {
			continue
		}
		for k := 0; k < 2; k++ {
			fc := fileCase{Kind: "reader", TextHex: hex.EncodeToString(fx.data), Opts: randMask(r), NoOpts: k == 0}
			runCase(func() *ach.File {
				f, p := buildFile(fc)
				if p != nil {
					return nil
				}
				return f
			}, genOps(r, 5))
		}
	}
	// (d) the model of the constructions: NewBatch per SEC code (mode b), then File.Create
	// (mode c); and for every fixture the Reader's result against reader_file of its SEC codes (mode r)
	ksecs := []string{ach.PPD, ach.CCD, ach.ADV, ach.WEB, ach.COR, ach.CTX, ach.ADV, ach.TEL}
	kline := func(mode string, secs []string, f *ach.File) {
		hs := make([]string, len(secs))
		for i, s := range secs {
			hs[i] = hx.Enc(s)
		}
		cases.Printf("K %s %s\n", mode, strings.Join(hs, ","))
		impl.Printf("%s inv=%s pinv=%s\n", project(f), b01(invViolation(f) == ""), b01(prefixInv(f)))
		n++
	}
	for i := 0; i < 400; i++ {
		nb := r.Range(1, 5)
		secs := make([]string, nb)
		for k := range secs {
			secs[k] = rng.Pick(r, ksecs)
		}
		for _, mode := range []string{"b", "c"} {
			f := ach.NewFile()
			f.Header.ImmediateDestination = "231380104"
			f.Header.ImmediateOrigin = "121042882"
			f.Header.FileCreationDate = "190816"
			f.Header.ImmediateDestinationName = "Federal Reserve Bank"
			f.Header.ImmediateOriginName = "My Bank Name"
			for k, sec := range secs {
				bh := ach.NewBatchHeader()
				bh.ServiceClassCode = ach.MixedDebitsAndCredits
				bh.CompanyName = "Payee Co"
				bh.CompanyIdentification = "121042882"
				bh.StandardEntryClassCode = sec
				bh.CompanyEntryDescription = "PAYROLL"
				bh.EffectiveEntryDate = "190816"
				bh.ODFIIdentification = "12104288"
				bh.BatchNumber = k + 1
				b, err := ach.NewBatch(bh)
				if err != nil {
					panic(err)
				}
				f.AddBatch(b)
			}
			if mode == "c" {
				func() {
					defer func() { recover() }()
					_ = f.Create()
				}()
			}
			kline(mode, secs, f)
		}
	}
	for _, fx := range loadFixtures(*repo) {
		if fx.kind != "reader" {
			continue
		}
		f, p := buildFile(fileCase{Kind: "reader", TextHex: hex.EncodeToString(fx.data), NoOpts: true})
		if p != nil || f == nil || len(f.Batches) == 0 {
			continue
		}
		secs := make([]string, len(f.Batches))
		for i, b := range f.Batches {
			secs[i] = b.GetHeader().StandardEntryClassCode
		}
		kline("r", secs, f)
	}
	cases.Close()
	impl.Close()
	fmt.Printf("{\"cases\":%d}\n", n)
}

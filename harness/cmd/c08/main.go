// Command c08: correspondence cases and direct oracles for properties
// C08 (merging conserves entries) and C09 (merged files are valid and respect
// the line and dollar limits).  Both properties share the generators and the
// model; the oracle mode takes -prop C08|C09.
package main

import (
	"bytes"
	"encoding/json"
	"flag"
	"fmt"
	"os"
	"path/filepath"
	"sort"
	"strconv"
	"strings"

	"github.com/moov-io/ach"

	"verifharness/internal/gen"
	"verifharness/internal/hx"
	"verifharness/internal/rng"
)

func main() {
	if len(os.Args) < 2 {
		fmt.Fprintln(os.Stderr, "usage: c08 corr|oracle|replay ...")
		os.Exit(2)
	}
	switch os.Args[1] {
	case "corr":
		corr(os.Args[2:])
	case "oracle":
		oracle(os.Args[2:])
	case "replay":
		replay(os.Args[2:])
	default:
		fmt.Fprintln(os.Stderr, "unknown mode")
		os.Exit(2)
	}
}

// ---------------------------------------------------------------- input specification

type EntrySpec struct {
	Seq     int `json:"seq"`     // trace number = ODFI + 7 digit seq
	Amount  int `json:"amount"`  // cents
	Addenda int `json:"addenda"` // number of Addenda05 records
	ID      int `json:"id"`      // identity marker stored in IdentificationNumber
	Debit   bool `json:"debit,omitempty"`
}

type BatchSpec struct {
	SCC     int         `json:"scc"`
	Name    string      `json:"name"`
	CID     string      `json:"cid"`
	SEC     string      `json:"sec"`
	Desc    string      `json:"desc"`
	EED     string      `json:"eed"`
	ODFI    string      `json:"odfi"`
	Rest    int         `json:"rest"` // marker stored in CompanyDiscretionaryData (not compared by Equal)
	Prefix  string      `json:"prefix,omitempty"` // trace number prefix when it is not the ODFI (file with BypassOriginValidation)
	Entries []EntrySpec `json:"entries"`
}

type FileSpec struct {
	Origin  string      `json:"origin"`
	Dest    string      `json:"dest"`
	HID     int         `json:"hid"` // marker stored in ImmediateOriginName
	Batches []BatchSpec `json:"batches"`
	Ref     int         `json:"ref"` // >= 0: the very same *File as files[Ref] (repeated file)
	Bypass  bool        `json:"bypass,omitempty"` // the file carries ValidateOpts{BypassOriginValidation: true}
}

// GenSpec describes a file list drawn from the shared generator internal/gen (all standard
// SEC codes, forward / return / NOC batches, optional addenda); it is rebuilt from the seed on replay.
type GenSpec struct {
	Seed   uint64 `json:"seed"`
	N      int    `json:"n"`
	Routes int    `json:"routes"`
}

type Case struct {
	Files     []FileSpec `json:"files"`
	Gen       *GenSpec   `json:"gen,omitempty"`
	MaxLines  int        `json:"maxLines"`
	MaxDollar int64      `json:"maxDollar"`
}

func (c Case) resolve(i int) FileSpec {
	f := c.Files[i]
	for f.Ref >= 0 && f.Ref < i {
		i = f.Ref
		f = c.Files[i]
	}
	return f
}

func traceOf(b BatchSpec, e EntrySpec) string {
	if b.Prefix != "" {
		return fmt.Sprintf("%s%07d", b.Prefix, e.Seq)
	}
	// an ODFI given without its leading zero is written zero-filled to eight columns (SetTraceNumber, ODFIIdentificationField)
	return fmt.Sprintf("%s%s%07d", strings.Repeat("0", max(0, 8-len(b.ODFI))), b.ODFI, e.Seq)
}

// ---------------------------------------------------------------- building real files

func buildEntry(b BatchSpec, e EntrySpec) *ach.EntryDetail {
	ed := ach.NewEntryDetail()
	if e.Debit {
		ed.TransactionCode = ach.CheckingDebit
	} else {
		ed.TransactionCode = ach.CheckingCredit
	}
	ed.SetRDFI("231380104")
	ed.DFIAccountNumber = fmt.Sprintf("ACCT%d", e.ID%97)
	ed.Amount = e.Amount
	ed.IdentificationNumber = fmt.Sprintf("E%07d", e.ID)
	if b.SEC == ach.CTX {
		ed.SetCATXAddendaRecords(e.Addenda)
		ed.SetCATXReceivingCompany(fmt.Sprintf("Receiver %d", e.ID%13))
	} else {
		ed.IndividualName = fmt.Sprintf("Receiver %d", e.ID%13)
	}
	ed.TraceNumber = traceOf(b, e)
	ed.Category = ach.CategoryForward
	for k := 0; k < e.Addenda; k++ {
		a := ach.NewAddenda05()
		a.PaymentRelatedInformation = fmt.Sprintf("payment info %d/%d", e.ID, k)
		a.SequenceNumber = k + 1
		a.EntryDetailSequenceNumber = e.Seq
		ed.AddAddenda05(a)
		ed.AddendaRecordIndicator = 1
	}
	return ed
}

func buildBatch(b BatchSpec, opts *ach.ValidateOpts) (ach.Batcher, error) {
	bh := ach.NewBatchHeader()
	bh.ServiceClassCode = b.SCC
	bh.CompanyName = b.Name
	bh.CompanyIdentification = b.CID
	bh.StandardEntryClassCode = b.SEC
	bh.CompanyEntryDescription = b.Desc
	bh.EffectiveEntryDate = b.EED
	bh.ODFIIdentification = b.ODFI
	bh.CompanyDiscretionaryData = fmt.Sprintf("REST %d", b.Rest)
	bt, err := ach.NewBatch(bh)
	if err != nil {
		return nil, err
	}
	if opts != nil {
		bt.SetValidation(opts)
	}
	for _, e := range b.Entries {
		bt.AddEntry(buildEntry(b, e))
	}
	if err := bt.Create(); err != nil {
		return nil, err
	}
	return bt, nil
}

func buildFile(fsp FileSpec) (*ach.File, error) {
	f := ach.NewFile()
	f.Header.ImmediateDestination = fsp.Dest
	f.Header.ImmediateOrigin = fsp.Origin
	f.Header.FileCreationDate = "190816"
	f.Header.FileCreationTime = "1055"
	f.Header.ImmediateDestinationName = "Federal Reserve Bank"
	f.Header.ImmediateOriginName = fmt.Sprintf("ORIGIN %d", fsp.HID)
	var opts *ach.ValidateOpts
	if fsp.Bypass {
		opts = &ach.ValidateOpts{BypassOriginValidation: true}
		f.SetValidation(opts)
	}
	for _, b := range fsp.Batches {
		bt, err := buildBatch(b, opts)
		if err != nil {
			return nil, err
		}
		f.AddBatch(bt)
	}
	if err := f.Create(); err != nil {
		return nil, err
	}
	if err := f.Validate(); err != nil {
		return nil, err
	}
	return f, nil
}

// buildFiles constructs fresh *ach.File values for the case (repeated files share the pointer).
func buildFiles(c Case) ([]*ach.File, error) {
	if c.Gen != nil {
		return buildGenFiles(*c.Gen)
	}
	out := make([]*ach.File, len(c.Files))
	for i, fsp := range c.Files {
		if fsp.Ref >= 0 && fsp.Ref < i {
			out[i] = out[fsp.Ref]
			continue
		}
		f, err := buildFile(fsp)
		if err != nil {
			return nil, fmt.Errorf("input file %d: %w", i, err)
		}
		out[i] = f
	}
	return out, nil
}

func buildGenFiles(g GenSpec) (fs []*ach.File, err error) {
	defer func() {
		if r := recover(); r != nil {
			err = fmt.Errorf("generator panic: %v", r)
		}
	}()
	r := rng.New(g.Seed)
	o := gen.Opts{Returns: true, NOC: true, Addenda: true, Offset: true, OffsetReturns: true, MaxBatches: 3, MaxEntries: 4}
	for i := 0; i < g.N; i++ {
		switch {
		case i > 0 && r.Chance(1, 6):
			fs = append(fs, fs[r.Intn(i)]) // the same *File again
		case i > 0 && r.Chance(1, 5):
			fs = append(fs, gen.Clone(fs[r.Intn(i)])) // an equal copy
		default:
			f := gen.File(r, o)
			if f == nil {
				return nil, fmt.Errorf("generator returned nil")
			}
			rt := routes[r.Intn(g.Routes)]
			f.Header.ImmediateOrigin, f.Header.ImmediateDestination = rt[0], rt[1]
			if len(f.IATBatches) > 0 || f.IsADV() {
				return nil, fmt.Errorf("out of scope file")
			}
			if err := f.Validate(); err != nil {
				return nil, err
			}
			fs = append(fs, f)
		}
	}
	return fs, nil
}

func caseKey(c Case) string {
	if c.Gen != nil {
		return fmt.Sprintf("gen %d %d %d | %d %d", c.Gen.Seed, c.Gen.N, c.Gen.Routes, c.MaxLines, c.MaxDollar)
	}
	return caseLine(c)
}

func mergeGuarded(files []*ach.File, c Case) (out []*ach.File, err error, panicked any) {
	defer func() {
		if r := recover(); r != nil {
			panicked = r
		}
	}()
	out, err = ach.MergeFilesWith(files, ach.Conditions{MaxLines: c.MaxLines, MaxDollarAmount: c.MaxDollar})
	return
}

// ---------------------------------------------------------------- interchange with the model

func caseLine(c Case) string {
	var b strings.Builder
	fmt.Fprintf(&b, "%d %d %d", c.MaxLines, c.MaxDollar, len(c.Files))
	for i := range c.Files {
		f := c.resolve(i)
		fmt.Fprintf(&b, " %s %s %d %d", hx.Enc(f.Origin), hx.Enc(f.Dest), f.HID, len(f.Batches))
		for _, bt := range f.Batches {
			fmt.Fprintf(&b, " %d %s %s %s %s %s %s %d %d", bt.SCC, hx.Enc(bt.Name), hx.Enc(bt.CID), hx.Enc(bt.SEC),
				hx.Enc(bt.Desc), hx.Enc(bt.EED), hx.Enc(bt.ODFI), bt.Rest, len(bt.Entries))
			for _, e := range bt.Entries {
				fmt.Fprintf(&b, " %s %d %d %d", hx.Enc(traceOf(bt, e)), e.Amount, e.Addenda, e.ID)
			}
		}
	}
	return b.String()
}

func marker(s, prefix string) int {
	s = strings.TrimSpace(s)
	if !strings.HasPrefix(s, prefix) {
		return -1
	}
	n, err := strconv.Atoi(strings.TrimSpace(s[len(prefix):]))
	if err != nil {
		return -1
	}
	return n
}

// observe renders the implementation's result in the model's result format.
func observe(out []*ach.File, err error, panicked any) string {
	if panicked != nil {
		return "PANIC"
	}
	if err != nil {
		return "ERR"
	}
	var b strings.Builder
	fmt.Fprintf(&b, "%d", len(out))
	for _, f := range out {
		if f == nil {
			b.WriteString(" NILFILE")
			continue
		}
		lines := 2
		for _, bt := range f.Batches {
			lines += 2 + bt.GetControl().EntryAddendaCount
		}
		amount := f.Control.TotalDebitEntryDollarAmountInFile + f.Control.TotalCreditEntryDollarAmountInFile
		fmt.Fprintf(&b, " F %s %s %d %d %d %d", hx.Enc(f.Header.ImmediateOrigin), hx.Enc(f.Header.ImmediateDestination),
			marker(f.Header.ImmediateOriginName, "ORIGIN"), lines, amount, len(f.Batches))
		for _, bt := range f.Batches {
			h := bt.GetHeader()
			fmt.Fprintf(&b, " B %d %d %s %s %s %s %s %s %d %d", h.BatchNumber, h.ServiceClassCode, hx.Enc(h.CompanyName),
				hx.Enc(h.CompanyIdentification), hx.Enc(h.StandardEntryClassCode), hx.Enc(h.CompanyEntryDescription),
				hx.Enc(h.EffectiveEntryDate), hx.Enc(h.ODFIIdentification), marker(h.CompanyDiscretionaryData, "REST"), len(bt.GetEntries()))
			for _, e := range bt.GetEntries() {
				fmt.Fprintf(&b, " %d", marker(e.IdentificationNumber, "E"))
			}
		}
	}
	return b.String()
}

// ---------------------------------------------------------------- generators

var routes = [][2]string{{"121042882", "231380104"}, {"121042882", "091400606"}, {"076401251", "231380104"}}

type genOpts struct {
	maxFiles   int
	maxBatches int
	maxEntries int
	seqPool    int
	bigAmounts bool
	bypass     bool // some files carry ValidateOpts{BypassOriginValidation} and foreign trace prefixes
}

func baseHeaderSpec(r *rng.R) BatchSpec {
	odfis := []string{"12104288", "07640125", "7640125"}
	return BatchSpec{
		SCC:  rng.Pick(r, []int{200, 200, 220, 225}),
		Name: rng.Pick(r, []string{"Acme Corp", "Beta LLC"}),
		CID:  rng.Pick(r, []string{"121042882", "987654321"}),
		SEC:  rng.Pick(r, []string{ach.PPD, ach.PPD, ach.CCD, ach.CTX}),
		Desc: rng.Pick(r, []string{"PAYROLL", "VENDOR"}),
		EED:  rng.Pick(r, []string{"190816", "190817"}),
		ODFI: rng.Pick(r, odfis),
	}
}

// variant changes exactly one of the seven compared fields (or only the letter case of the
// name, or nothing), so that every single field is decisive in some generated pair.
func variant(r *rng.R, h BatchSpec) BatchSpec {
	v := h
	switch r.Intn(13) {
	case 11, 12:
		// the boundary between two adjacent compared fields moved by one character: the headers differ
		// although name followed by identification read the same
		if len(h.CID) >= 2 && len(h.Name) < 16 {
			v.Name = h.Name + h.CID[:1]
			v.CID = h.CID[1:]
		}
	case 0:
		if v.SCC == 200 {
			v.SCC = rng.Pick(r, []int{220, 225})
		} else {
			v.SCC = 200
		}
	case 1:
		v.Name = h.Name + " Inc"
	case 2:
		v.CID = "555555555"
	case 3:
		if v.SEC == ach.PPD {
			v.SEC = ach.CCD
		} else {
			v.SEC = ach.PPD
		}
	case 4:
		v.Desc = "BONUS"
	case 5:
		v.EED = "190901"
	case 6:
		v.ODFI = rng.Pick(r, []string{"09140060", "9140060"})
	case 7, 8:
		if r.Bool() {
			v.Name = strings.ToUpper(h.Name)
		} else {
			v.Name = strings.ToLower(h.Name)
		}
	default:
	}
	return v
}

func genEntries(r *rng.R, h BatchSpec, o genOpts, nextID *int) []EntrySpec {
	n := r.Range(1, o.maxEntries)
	if n > o.seqPool {
		n = o.seqPool
	}
	seqs := map[int]bool{}
	for len(seqs) < n {
		seqs[r.Range(1, o.seqPool)] = true
	}
	var ks []int
	for k := range seqs {
		ks = append(ks, k)
	}
	sort.Ints(ks)
	var es []EntrySpec
	for _, k := range ks {
		e := EntrySpec{Seq: k, ID: *nextID}
		*nextID++
		switch {
		case o.bigAmounts && r.Chance(1, 2):
			e.Amount = 9999999999 - r.Intn(3)
		case r.Chance(1, 8):
			e.Amount = r.Range(1000, 100000)
		default:
			e.Amount = r.Range(1, 300)
		}
		switch h.SCC {
		case 225:
			e.Debit = true
		case 200:
			e.Debit = r.Chance(1, 3)
		}
		maxAdd := 1
		if h.SEC == ach.CTX {
			maxAdd = 3
		}
		if r.Chance(1, 2) {
			e.Addenda = r.Range(0, maxAdd)
		}
		es = append(es, e)
	}
	return es
}

func genFiles(r *rng.R, o genOpts) []FileSpec {
	nf := r.Range(0, o.maxFiles)
	if r.Chance(3, 4) && nf < 2 {
		nf = r.Range(2, o.maxFiles)
	}
	nroutes := r.Range(1, 3)
	nbase := r.Range(1, 2)
	var pool []BatchSpec
	for i := 0; i < nbase; i++ {
		pool = append(pool, baseHeaderSpec(r))
	}
	nextID, nextRest, nextHID := 1, 1, 1
	var files []FileSpec
	for i := 0; i < nf; i++ {
		if i > 0 && r.Chance(1, 6) { // the same *File again
			files = append(files, FileSpec{Ref: r.Intn(i)})
			continue
		}
		if i > 0 && r.Chance(1, 8) { // an identical copy (different pointer, same content)
			cp := files[r.Intn(i)]
			if cp.Ref < 0 {
				files = append(files, cp)
				continue
			}
		}
		rt := routes[r.Intn(nroutes)]
		f := FileSpec{Origin: rt[0], Dest: rt[1], HID: nextHID, Ref: -1, Bypass: o.bypass && r.Chance(1, 3)}
		nextHID++
		nb := r.Range(1, o.maxBatches)
		for j := 0; j < nb; j++ {
			h := variant(r, rng.Pick(r, pool))
			if r.Chance(1, 5) {
				pool = append(pool, h)
			}
			h.Rest = nextRest
			nextRest++
			if f.Bypass {
				h.Prefix = "99999999" // trace numbers of a foreign ODFI, admitted by BypassOriginValidation
			}
			h.Entries = genEntries(r, h, o, &nextID)
			f.Batches = append(f.Batches, h)
		}
		files = append(files, f)
	}
	return files
}

// boundaries lists the limit values around every entry/batch boundary of the unlimited merge.
func boundaries(c Case) (lines []int, dollars []int64) {
	c.MaxLines, c.MaxDollar = 0, 0
	files, err := buildFiles(c)
	if err != nil {
		return nil, nil
	}
	out, err, p := mergeGuarded(files, c)
	if err != nil || p != nil {
		return nil, nil
	}
	ls := map[int]bool{0: true, 1: true, 4: true, 5: true, 6: true, 7: true}
	ds := map[int64]bool{0: true, 1: true, -1: true}
	for _, f := range out {
		l, d := 2, int64(0)
		for _, bt := range f.Batches {
			l += 2
			ls[l] = true
			for _, e := range bt.GetEntries() {
				n := 1 + addendaCount(e)
				l += n
				d += int64(e.Amount)
				for _, x := range []int{l - 1, l, l + 1, 4 + n, 3 + n} {
					ls[x] = true
				}
				for _, x := range []int64{d - 1, d, d + 1, int64(e.Amount), int64(e.Amount) - 1} {
					ds[x] = true
				}
			}
		}
	}
	for k := range ls {
		if k >= 0 {
			lines = append(lines, k)
		}
	}
	for k := range ds {
		dollars = append(dollars, k)
	}
	sort.Ints(lines)
	sort.Slice(dollars, func(i, j int) bool { return dollars[i] < dollars[j] })
	return
}

// sweep returns the conditions to try for a file list: every line limit (dollar 0), every dollar
// limit (lines 0), and a few combinations.
func sweep(r *rng.R, c Case, maxPer int) []Case {
	ls, ds := boundaries(c)
	var out []Case
	add := func(l int, d int64) {
		k := c
		k.MaxLines, k.MaxDollar = l, d
		out = append(out, k)
	}
	for _, l := range ls {
		add(l, 0)
	}
	for _, d := range ds {
		add(0, d)
	}
	for i := 0; i < 4 && len(ls) > 0 && len(ds) > 0; i++ {
		add(rng.Pick(r, ls), rng.Pick(r, ds))
	}
	add(ach.NACHAFileLineLimit, 0)
	if maxPer > 0 && len(out) > maxPer {
		// keep a deterministic random subset
		for i := len(out) - 1; i > 0; i-- {
			j := r.Intn(i + 1)
			out[i], out[j] = out[j], out[i]
		}
		out = out[:maxPer]
	}
	return out
}

func defaultGen(r *rng.R) genOpts {
	return genOpts{maxFiles: r.Range(2, 5), maxBatches: r.Range(1, 3), maxEntries: r.Range(1, 4), seqPool: r.Range(3, 8)}
}

// capCase: enough maximal amounts to make the forced Nacha cap (999,999,999,999) bind with MaxDollarAmount 0.
func capCase(r *rng.R) Case {
	h := BatchSpec{SCC: 220, Name: "Acme Corp", CID: "121042882", SEC: ach.PPD, Desc: "PAYROLL", EED: "190816", ODFI: "12104288", Rest: 1}
	id := 1
	var files []FileSpec
	for k := 0; k < 3; k++ {
		b := h
		b.Rest = k + 1
		for i := 0; i < 40; i++ {
			b.Entries = append(b.Entries, EntrySpec{Seq: k*40 + i + 1, Amount: 9999999999 - r.Intn(2), ID: id})
			id++
		}
		files = append(files, FileSpec{Origin: routes[0][0], Dest: routes[0][1], HID: k + 1, Ref: -1, Batches: []BatchSpec{b}})
	}
	return Case{Files: files}
}

// capCase2: the same amounts under three different batch headers (each batch total fits its 12 digits, the
// file total does not): a cap above the Nacha limit must still be forced down to it.
func capCase2(r *rng.R) Case {
	c := capCase(r)
	for k := range c.Files {
		c.Files[k].Batches[0].Desc = fmt.Sprintf("PAYROLL%d", k)
	}
	return c
}

// ---------------------------------------------------------------- correspondence

func corr(args []string) {
	fs := flag.NewFlagSet("corr", flag.ExitOnError)
	out := fs.String("out", "", "output directory")
	lists := fs.Int("lists", 150, "generated file lists")
	per := fs.Int("per", 60, "maximum conditions per file list (0 = all)")
	fs.Parse(args)
	cases := hx.Create(filepath.Join(*out, "cases.txt"))
	impl := hx.Create(filepath.Join(*out, "impl.txt"))
	n, skipped := 0, 0
	emit := func(c Case) {
		files, err := buildFiles(c)
		if err != nil {
			skipped++
			return
		}
		cases.Printf("%s\n", caseLine(c))
		o, e, p := mergeGuarded(files, c)
		impl.Printf("%s\n", observe(o, e, p))
		n++
	}
	r := rng.FromEnv(808)
	emit(Case{})
	emit(Case{MaxLines: 5})
	cc := capCase(r)
	for _, d := range []int64{0, 999999999999, 999999999998, 1000000000000, 99999999990} {
		k := cc
		k.MaxDollar = d
		emit(k)
	}
	cc2 := capCase2(r)
	for _, d := range []int64{0, 1000000000000, 1199999999880, 2000000000000} {
		k := cc2
		k.MaxDollar = d
		emit(k)
	}
	for i := 0; i < *lists; i++ {
		o := defaultGen(r)
		if i%25 == 24 {
			o.bigAmounts = true
		}
		o.bypass = i%4 == 3
		c := Case{Files: genFiles(r, o)}
		for _, k := range sweep(r, c, *per) {
			emit(k)
		}
	}
	cases.Close()
	impl.Close()
	fmt.Printf("{\"cases\":%d,\"skipped\":%d}\n", n, skipped)
}

// ---------------------------------------------------------------- oracle

type failure struct {
	Kind string `json:"kind"`
	Key  string `json:"key"`
	What string `json:"what"`
	Case Case   `json:"case"`
}

type ident struct {
	route  string
	hkey   string
	core   string
	trace  string
	amount int
}

func hkeyOf(h *ach.BatchHeader) string {
	return fmt.Sprintf("%d|%s|%s|%s|%s|%s|%s", h.ServiceClassCode, strings.ToUpper(h.CompanyName), h.CompanyIdentification,
		h.StandardEntryClassCode, h.CompanyEntryDescription, h.EffectiveEntryDate, h.ODFIIdentification)
}

// coreOf is the identity projection of Appendix B: every entry field and addenda payload
// except the sequence numbers Batch.build rewrites by design.
func coreOf(e *ach.EntryDetail) string {
	var b strings.Builder
	fmt.Fprintf(&b, "%d|%s|%s|%s|%d|%s|%s|%s|%d|%s", e.TransactionCode, e.RDFIIdentification, e.CheckDigit, e.DFIAccountNumber,
		e.Amount, e.IdentificationNumber, e.IndividualName, e.DiscretionaryData, e.AddendaRecordIndicator, e.Category)
	if e.Addenda02 != nil {
		fmt.Fprintf(&b, "|02:%s", e.Addenda02.String())
	}
	for _, a := range e.Addenda05 {
		if a != nil {
			fmt.Fprintf(&b, "|05:%s", a.PaymentRelatedInformation)
		}
	}
	if e.Addenda98 != nil {
		fmt.Fprintf(&b, "|98:%s", e.Addenda98.String())
	}
	if e.Addenda98Refused != nil {
		fmt.Fprintf(&b, "|98R:%s", e.Addenda98Refused.String())
	}
	if e.Addenda99 != nil {
		fmt.Fprintf(&b, "|99:%s", e.Addenda99.String())
	}
	if e.Addenda99Dishonored != nil {
		fmt.Fprintf(&b, "|99D:%s", e.Addenda99Dishonored.String())
	}
	if e.Addenda99Contested != nil {
		fmt.Fprintf(&b, "|99C:%s", e.Addenda99Contested.String())
	}
	return b.String()
}

func snapshot(files []*ach.File) []ident {
	var ids []ident
	for _, f := range files {
		if f == nil {
			continue
		}
		rt := f.Header.ImmediateOrigin + ">" + f.Header.ImmediateDestination
		for _, bt := range f.Batches {
			hk := hkeyOf(bt.GetHeader())
			for _, e := range bt.GetEntries() {
				ids = append(ids, ident{rt, hk, coreOf(e), e.TraceNumber, e.Amount})
			}
		}
	}
	return ids
}

func multiset(ids []ident, level int) map[string]int {
	m := map[string]int{}
	for _, i := range ids {
		k := i.trace + "#" + i.core
		if level >= 1 {
			k += "#" + i.route
		}
		if level >= 2 {
			k += "#" + i.hkey
		}
		m[k]++
	}
	return m
}

func diffMultiset(in, out map[string]int) (lost, extra int) {
	for k, n := range in {
		if out[k] < n {
			lost += n - out[k]
		}
	}
	for k, n := range out {
		if in[k] < n {
			extra += n - in[k]
		}
	}
	return
}

func renderedLines(f *ach.File) (int, error) {
	var buf bytes.Buffer
	w := ach.NewWriter(&buf)
	if err := w.Write(f); err != nil {
		return 0, err
	}
	w.Flush()
	n := 0
	filler := strings.Repeat("9", 94)
	for _, l := range strings.Split(buf.String(), "\n") {
		l = strings.TrimRight(l, "\r")
		if l == "" || l == filler {
			continue
		}
		n++
	}
	return n, nil
}

type stats struct {
	outFiles, splits, collisions, mergeErrors int
}

func addendaCount(e *ach.EntryDetail) int {
	n := 0
	if e.Addenda02 != nil {
		n++
	}
	for _, a := range e.Addenda05 {
		if a != nil {
			n++
		}
	}
	for _, p := range []bool{e.Addenda98 != nil, e.Addenda98Refused != nil, e.Addenda99 != nil, e.Addenda99Dishonored != nil, e.Addenda99Contested != nil} {
		if p {
			n++
		}
	}
	return n
}

// checkCase evaluates the property directly on the implementation.
func checkCase(c Case, prop string, r *rng.R, st *stats) []failure {
	var fails []failure
	fail := func(key, what string) {
		fails = append(fails, failure{Kind: "fail", Key: key, What: what, Case: c})
	}
	files, err := buildFiles(c)
	if err != nil {
		return nil // not a valid input list (generator), nothing to check
	}
	in := snapshot(files) // BEFORE the call: merge mutates the shared entries
	out, merr, p := mergeGuarded(files, c)
	if p != nil {
		fail("merge:panic", fmt.Sprint(p))
		return fails
	}
	if merr != nil {
		if c.Gen != nil {
			// arbitrary SEC mixes may legitimately fail in Batch.Create (the properties speak about
			// the files that ARE returned); counted, not reported
			if st != nil {
				st.mergeErrors++
			}
			return fails
		}
		fail("merge:error-on-valid-input", merr.Error())
		return fails
	}
	for _, f := range out {
		if f == nil {
			fail("merge:nil-file", "nil file in result")
			return fails
		}
	}
	outIDs := snapshot(out)
	if st != nil {
		st.outFiles += len(out)
	}
	if prop == "C08" {
		lost, extra := diffMultiset(multiset(in, 0), multiset(outIDs, 0))
		if lost > 0 {
			fail("conservation:entry-lost-or-altered", fmt.Sprintf("%d input entries (trace+content) missing from the outputs", lost))
		}
		if extra > 0 {
			fail("conservation:entry-duplicated-or-invented", fmt.Sprintf("%d output entries (trace+content) not among the inputs", extra))
		}
		if lost == 0 && extra == 0 {
			l1, e1 := diffMultiset(multiset(in, 1), multiset(outIDs, 1))
			if l1+e1 > 0 {
				fail("mixing:entry-under-other-routing-pair", fmt.Sprintf("%d entries left their origin/destination pair", l1))
			} else {
				l2, e2 := diffMultiset(multiset(in, 2), multiset(outIDs, 2))
				if l2+e2 > 0 {
					fail("conservation:batch-header-identity-changed", fmt.Sprintf("%d entries ended under a batch header that differs in a field compared by BatchHeader.Equal", l2))
				}
			}
		}
		// no two routing pairs inside one output file is implied by the above (route of an output
		// entry = route of its file); independence of input order:
		if len(files) > 1 && r != nil {
			pf, err := buildFiles(c) // fresh structures, then a permutation of the list
			if err == nil {
				for i := len(pf) - 1; i > 0; i-- {
					j := r.Intn(i + 1)
					pf[i], pf[j] = pf[j], pf[i]
				}
				po, perr, pp := mergeGuarded(pf, c)
				if pp != nil || perr != nil {
					fail("order:permuted-list-fails", fmt.Sprint(pp, perr))
				} else {
					l, e := diffMultiset(multiset(outIDs, 2), multiset(snapshot(po), 2))
					if l+e > 0 {
						fail("order:result-depends-on-input-order", fmt.Sprintf("entry multisets differ by %d after permuting the inputs", l+e))
					}
				}
			}
		}
		return fails
	}
	// ---- C09
	effDollar := c.MaxDollar
	if effDollar == 0 || effDollar > 999999999999 {
		effDollar = 999999999999
	}
	prevRoute := map[string]int{}
	for fi, f := range out {
		if err := f.Validate(); err != nil {
			fail("valid:output-file-fails-validation", fmt.Sprintf("file %d: %v", fi, err))
		}
		last := 0
		nent, amount := 0, int64(0)
		for bi, bt := range f.Batches {
			if err := bt.Validate(); err != nil {
				fail("valid:output-batch-fails-validation", fmt.Sprintf("file %d batch %d: %v", fi, bi, err))
			}
			bn := bt.GetHeader().BatchNumber
			if bn <= last {
				fail("order:batch-numbers-not-ascending", fmt.Sprintf("file %d: batch number %d after %d", fi, bn, last))
			}
			last = bn
			prev := ""
			for ei, e := range bt.GetEntries() {
				if ei > 0 && e.TraceNumber <= prev {
					fail("order:trace-numbers-not-ascending-unique", fmt.Sprintf("file %d batch %d: trace %s after %s", fi, bi, e.TraceNumber, prev))
				}
				prev = e.TraceNumber
				nent++
				amount += int64(e.Amount)
			}
		}
		lines, err := renderedLines(f)
		if err != nil {
			fail("valid:output-file-not-writable", err.Error())
		}
		if c.MaxLines > 0 && lines > c.MaxLines && nent != 1 {
			fail("limit:lines-exceeded", fmt.Sprintf("file %d has %d records > MaxLines %d with %d entries", fi, lines, c.MaxLines, nent))
		}
		if effDollar > 0 && amount > effDollar && nent != 1 {
			fail("limit:dollar-exceeded", fmt.Sprintf("file %d totals %d > MaxDollarAmount %d with %d entries", fi, amount, effDollar, nent))
		}
		rt := f.Header.ImmediateOrigin + ">" + f.Header.ImmediateDestination
		prevRoute[rt]++
		if st != nil && prevRoute[rt] > 1 {
			st.splits++
		}
		// batches under equal headers must collide on a trace number (every trace of the later
		// batch is present in the earlier one) -- otherwise they should have been one batch.
		// Only meaningful inside a file that was not split.
		for bi := range f.Batches {
			for bj := bi + 1; bj < len(f.Batches); bj++ {
				if hkeyOf(f.Batches[bi].GetHeader()) != hkeyOf(f.Batches[bj].GetHeader()) {
					continue
				}
				if st != nil {
					st.collisions++
				}
			}
		}
	}
	// maximality when no limit can bind: MaxLines 0 (or beyond the whole content) and the dollar
	// cap beyond the whole content
	totalLines, totalAmount := 2, int64(0)
	for _, id := range in {
		totalAmount += int64(id.amount)
	}
	for _, f := range files {
		for _, bt := range f.Batches {
			totalLines += 2 + bt.GetControl().EntryAddendaCount
		}
	}
	// repeated pointers are counted once per occurrence above (files lists them twice): fine, upper bound
	// the same per routing pair (output files never span pairs, so a limit the content of ONE pair stays below cannot
	// bind for that pair, whatever the other pairs hold): exactly one output file carries the pair
	{
		routeLines, routeAmount, routeOut := map[string]int{}, map[string]int64{}, map[string]int{}
		for _, id := range in {
			routeAmount[id.route] += int64(id.amount)
		}
		for _, f := range files {
			rt := f.Header.ImmediateOrigin + ">" + f.Header.ImmediateDestination
			if routeLines[rt] == 0 {
				routeLines[rt] = 2
			}
			for _, bt := range f.Batches {
				routeLines[rt] += 2 + bt.GetControl().EntryAddendaCount
			}
		}
		for _, f := range out {
			routeOut[f.Header.ImmediateOrigin+">"+f.Header.ImmediateDestination]++
		}
		for rt, n := range routeOut {
			if n > 1 && routeLines[rt] > 0 && (c.MaxLines <= 0 || c.MaxLines >= routeLines[rt]) && (c.MaxDollar < 0 || routeAmount[rt] <= effDollar) {
				fail("maximal:pair-split-though-no-limit-binds-for-it", fmt.Sprintf("%d output files for the routing pair %s whose whole content (at most %d records, %d cents) is within MaxLines %d / MaxDollarAmount %d", n, rt, routeLines[rt], routeAmount[rt], c.MaxLines, effDollar))
			}
		}
	}
	if (c.MaxLines <= 0 || c.MaxLines >= totalLines) && (c.MaxDollar < 0 || totalAmount <= effDollar) {
		want := map[string]bool{}
		for _, id := range in {
			want[id.route] = true
		}
		if len(out) != len(want) {
			fail("maximal:file-count-differs-from-routing-pairs", fmt.Sprintf("%d output files for %d routing pairs though no limit binds", len(out), len(want)))
		}
		for fi, f := range out {
			for bi := range f.Batches {
				for bj := bi + 1; bj < len(f.Batches); bj++ {
					if hkeyOf(f.Batches[bi].GetHeader()) != hkeyOf(f.Batches[bj].GetHeader()) {
						continue
					}
					have := map[string]bool{}
					for _, e := range f.Batches[bi].GetEntries() {
						have[e.TraceNumber] = true
					}
					for _, e := range f.Batches[bj].GetEntries() {
						if !have[e.TraceNumber] {
							fail("maximal:equal-headers-split-without-trace-collision", fmt.Sprintf("file %d batches %d and %d have equal headers, trace %s of the later is absent from the earlier", fi, bi, bj, e.TraceNumber))
							break
						}
					}
				}
			}
		}
	}
	return fails
}

type summary struct {
	Kind        string         `json:"kind"`
	Evaluations int            `json:"evaluations"`
	Distinct    int            `json:"distinct_nontrivial"`
	Rule        string         `json:"rule"`
	Dist        map[string]int `json:"distribution"`
	Samples     []Case         `json:"samples"`
}

func countEntries(c Case) int {
	n := 0
	for i := range c.Files {
		for _, b := range c.resolve(i).Batches {
			n += len(b.Entries)
		}
	}
	return n
}

func oracle(args []string) {
	fs := flag.NewFlagSet("oracle", flag.ExitOnError)
	out := fs.String("out", "", "output directory")
	prop := fs.String("prop", "C08", "C08 or C09")
	n := fs.Int("n", 200, "generated file lists")
	per := fs.Int("per", 25, "conditions per file list")
	ngen := fs.Int("gen", 40, "file lists drawn from internal/gen")
	corpus := fs.String("corpus", "", "corpus directory (cases run first)")
	fs.Parse(args)
	res := hx.Create(filepath.Join(*out, "oracle.jsonl"))
	enc := func(v any) {
		b, _ := json.Marshal(v)
		res.Printf("%s\n", b)
	}
	rule := "a case = list of valid files (PPD/CCD/CTX batches built with the public constructors, 0..3 Addenda05 per entry, repeated and copied files, headers differing in one compared field, small trace pool so traces collide, 1..3 routing pairs) x Conditions swept over every entry/batch boundary of the unlimited merge (b-1,b,b+1); plus lists of files from internal/gen (all standard SEC codes, forward/return/NOC batches, optional addenda, repeated/cloned files); non-trivial = at least two input entries; distinct by (file list, conditions)"
	sum := summary{Kind: "summary", Dist: map[string]int{}, Rule: rule}
	seen := map[string]bool{}
	var st stats
	r := rng.FromEnv(809)
	pr := rng.FromEnv(8090)
	nfail := 0
	run := func(c Case) {
		sum.Evaluations++
		if c.Gen != nil || countEntries(c) >= 2 {
			k := caseKey(c)
			if !seen[k] {
				seen[k] = true
				sum.Distinct++
			}
		}
		if c.Gen != nil {
			sum.Dist["source=internal/gen"]++
		} else {
			sum.Dist[fmt.Sprintf("files=%d", len(c.Files))]++
		}
		switch {
		case c.MaxLines > 0 && c.MaxDollar != 0:
			sum.Dist["cond=both"]++
		case c.MaxLines > 0:
			sum.Dist["cond=lines"]++
		case c.MaxDollar != 0:
			sum.Dist["cond=dollar"]++
		default:
			sum.Dist["cond=none"]++
		}
		for _, f := range checkCase(c, *prop, pr, &st) {
			if nfail < 200 {
				enc(f)
			}
			nfail++
		}
		if len(sum.Samples) < 4 && sum.Evaluations%211 == 5 && c.Gen == nil && countEntries(c) <= 8 {
			sum.Samples = append(sum.Samples, c)
		}
	}
	for _, c := range corpusCases(*corpus) {
		run(c)
	}
	cc := capCase(r)
	for _, d := range []int64{0, 999999999998, 99999999990} {
		k := cc
		k.MaxDollar = d
		run(k)
	}
	cc2 := capCase2(r)
	for _, d := range []int64{0, 1199999999880, 2000000000000} {
		k := cc2
		k.MaxDollar = d
		run(k)
	}
	for i := 0; i < *n; i++ {
		o := defaultGen(r)
		if i%10 == 9 {
			o.maxFiles, o.maxBatches, o.maxEntries, o.seqPool = 8, 4, 8, 12
		}
		if i%25 == 24 {
			o.bigAmounts = true
		}
		o.bypass = i%4 == 3
		c := Case{Files: genFiles(r, o)}
		for _, k := range sweep(r, c, *per) {
			run(k)
		}
	}
	gr := rng.FromEnv(8091)
	for i := 0; i < *ngen; i++ {
		c := Case{Gen: &GenSpec{Seed: gr.U64(), N: gr.Range(2, 5), Routes: gr.Range(1, 2)}}
		for _, k := range sweep(r, c, *per) {
			run(k)
		}
	}
	sum.Dist["merge_errors_tolerated(gen)"] = st.mergeErrors
	sum.Dist["output_files"] = st.outFiles
	sum.Dist["files_split_by_a_limit"] = st.splits
	sum.Dist["equal_header_batch_pairs_in_one_file"] = st.collisions
	enc(sum)
	res.Close()
}

func corpusCases(dir string) []Case {
	var out []Case
	if dir == "" {
		return out
	}
	names, _ := filepath.Glob(filepath.Join(dir, "*.json"))
	sort.Strings(names)
	for _, p := range names {
		b, err := os.ReadFile(p)
		if err != nil {
			continue
		}
		var rp struct {
			Input *Case `json:"input"`
		}
		if json.Unmarshal(b, &rp) == nil && rp.Input != nil {
			out = append(out, *rp.Input)
		}
	}
	return out
}

func replay(args []string) {
	fs := flag.NewFlagSet("replay", flag.ExitOnError)
	prop := fs.String("prop", "C08", "C08 or C09")
	fs.Parse(args)
	if fs.NArg() < 1 {
		fmt.Fprintln(os.Stderr, "usage: c08 replay -prop C08|C09 <file>")
		os.Exit(2)
	}
	b, err := os.ReadFile(fs.Arg(0))
	if err != nil {
		fmt.Fprintln(os.Stderr, err)
		os.Exit(2)
	}
	var rp struct {
		Input *Case `json:"input"`
	}
	if err := json.Unmarshal(b, &rp); err != nil || rp.Input == nil {
		fmt.Println("replay file carries no input (obligation / correspondence failure): nothing to run")
		os.Exit(0)
	}
	fails := checkCase(*rp.Input, *prop, rng.FromEnv(8090), nil)
	for _, f := range fails {
		j, _ := json.Marshal(f)
		fmt.Println(string(j))
	}
	if len(fails) > 0 {
		os.Exit(1)
	}
	fmt.Println("no failure on this input")
}

// Command c06: correspondence cases and direct oracle for property C06
// (no input makes the library or the HTTP server panic or hang).
//
// Every call on the implementation runs in its own goroutine under recover()
// and a generous per-case watchdog.  A panic is keyed by the first stack frame
// inside github.com/moov-io/ach ("panic:ach.(*EntryDetail).ProcessControlField");
// a watchdog expiry by the same frame of the still running goroutine ("hang:…").
package main

import (
	"encoding/json"
	"flag"
	"fmt"
	"os"
	"path/filepath"
	"sort"
	"strings"

	"verifharness/internal/hx"
	"verifharness/internal/rng"
)

func main() {
	if len(os.Args) < 2 {
		fmt.Fprintln(os.Stderr, "usage: c06 corr|oracle|replay ...")
		os.Exit(2)
	}
	switch os.Args[1] {
	case "corr":
		corr(os.Args[2:])
	case "oracle":
		oracle(os.Args[2:])
	case "replay":
		replay(os.Args[2:])
	default:
		fmt.Fprintln(os.Stderr, "unknown mode")
		os.Exit(2)
	}
}

type failure struct {
	Kind  string `json:"kind"`
	Key   string `json:"key"`
	What  string `json:"what"`
	Case  Case   `json:"case"`
	Stack string `json:"stack,omitempty"`
}

func (f *failure) hung() bool { return strings.HasPrefix(f.Key, "hang:") || strings.HasPrefix(f.What, "no answer within") }

type summary struct {
	Kind        string         `json:"kind"`
	Evaluations int            `json:"evaluations"`
	Distinct    int            `json:"distinct_nontrivial"`
	Rule        string         `json:"rule"`
	Dist        map[string]int `json:"distribution"`
	Samples     []Case         `json:"samples"`
}

func oracle(args []string) {
	fs := flag.NewFlagSet("oracle", flag.ExitOnError)
	out := fs.String("out", "", "output directory")
	n := fs.Int("n", 2000, "generated cases per generator family")
	corpus := fs.String("corpus", "", "corpus directory (cases run first)")
	watchdog := fs.Int("watchdog", 20, "per-case watchdog in seconds")
	thorough := fs.Bool("thorough", false, "full boundary-value set in the JSON leaf sweep")
	fs.Parse(args)
	watchdogSeconds = *watchdog
	res := hx.Create(filepath.Join(*out, "oracle.jsonl"))
	enc := func(v any) {
		b, _ := json.Marshal(v)
		res.Printf("%s\n", b)
	}
	sum := summary{Kind: "summary", Dist: map[string]int{},
		Rule: "one case = one input (bytes / JSON document / accessor string / HTTP request list) with a ValidateOpts bit set and a call sequence, run under recover()+watchdog; non-trivial = the reader or JSON decoder returned a file with at least one batch or the case reached a route handler / accessor; distinct by SHA-256 of the canonical case"}
	seen := map[string]bool{}
	hangs := 0
	perKey := map[string]int{}
	run := func(c Case) {
		if hangs >= 3 {
			return // leaked spinning goroutines would distort every later timing
		}
		sum.Evaluations++
		sum.Dist[c.Kind]++
		o := execCase(c)
		if o.nontrivial {
			k := caseHash(c)
			if !seen[k] {
				seen[k] = true
				sum.Distinct++
			}
		}
		if o.fail != nil {
			if strings.HasPrefix(o.fail.Key, "hang:") || o.hung {
				hangs++
			}
			perKey[o.fail.Key]++
			if perKey[o.fail.Key] <= 5 {
				enc(o.fail)
			}
		}
		if len(sum.Samples) < 6 && sum.Evaluations%211 == 1 {
			sum.Samples = append(sum.Samples, c.brief())
		}
	}
	for _, c := range corpusCases(*corpus) {
		run(c)
	}
	seeds := loadSeeds()
	for _, f := range seeds.fails {
		sum.Evaluations++
		sum.Dist["seed"]++
		perKey[f.Key]++
		if f.hung() {
			hangs++
		}
		enc(f)
	}
	if len(seeds.ach) == 0 || len(seeds.json) == 0 || len(seeds.valid) == 0 || len(seeds.batchJ) == 0 {
		enc(sum)
		res.Close()
		return
	}
	r := rng.FromEnv(606)
	for _, c := range deterministicCases(seeds, *thorough) {
		run(c)
	}
	for i := 0; i < *n; i++ {
		run(genRead(r, seeds))
		run(genJSONLeaf(r, seeds))
		run(genSeq(r, seeds))
		run(genHTTP(r, seeds))
		if i%4 == 0 {
			run(genAccessor(r))
		}
	}
	sum.Dist["failures_by_key_total"] = 0
	for _, v := range perKey {
		sum.Dist["failures_by_key_total"] += v
	}
	enc(sum)
	res.Close()
}

func corpusCases(dir string) []Case {
	var out []Case
	if dir == "" {
		return out
	}
	names, _ := filepath.Glob(filepath.Join(dir, "*.json"))
	sort.Strings(names)
	for _, p := range names {
		b, err := os.ReadFile(p)
		if err != nil {
			continue
		}
		var rp struct {
			Input Case `json:"input"`
		}
		if json.Unmarshal(b, &rp) == nil && rp.Input.Kind != "" {
			out = append(out, rp.Input)
		}
	}
	return out
}

func replay(args []string) {
	if len(args) < 1 {
		fmt.Fprintln(os.Stderr, "usage: c06 replay <file>")
		os.Exit(2)
	}
	b, err := os.ReadFile(args[0])
	if err != nil {
		fmt.Fprintln(os.Stderr, err)
		os.Exit(2)
	}
	var rp struct {
		Input Case `json:"input"`
	}
	if err := json.Unmarshal(b, &rp); err != nil || rp.Input.Kind == "" {
		fmt.Println("replay file carries no input (obligation / correspondence failure): nothing to run")
		os.Exit(0)
	}
	o := execCase(rp.Input)
	if o.fail != nil {
		j, _ := json.Marshal(o.fail)
		fmt.Println(string(j))
		os.Exit(1)
	}
	fmt.Println("no failure on this input")
}

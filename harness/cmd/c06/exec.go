package main

import (
	"bytes"
	"crypto/sha256"
	"encoding/hex"
	"encoding/json"
	"fmt"
	"io"
	"net/http"
	"net/http/httptest"
	"reflect"
	"regexp"
	"runtime"
	"runtime/debug"
	"strings"
	"time"

	kitlog "github.com/go-kit/log"
	"github.com/moov-io/ach"
	"github.com/moov-io/ach/server"

	"verifharness/internal/hx"
)

// Req is one HTTP request of an "http" case.  A path may contain the
// placeholder {ID}, replaced by the file ID returned by the case's first
// request (POST /files/create) when that succeeded, else by "missing".
type Req struct {
	Method string `json:"method"`
	Path   string `json:"path"`
	CT     string `json:"ct,omitempty"`
	Body   string `json:"body,omitempty"` // hex
}

// Case is the replayable unit of the oracle.
type Case struct {
	Kind string   `json:"kind"`           // read | json | accessor | http
	Data string   `json:"data,omitempty"` // hex: input bytes (read/json), field value (accessor)
	Opts int64    `json:"opts"`           // -1: nil *ValidateOpts, else bit i = i-th bool field of ach.ValidateOpts
	Ops  []string `json:"ops,omitempty"`  // call sequence on the returned file
	Acc  string   `json:"acc,omitempty"`  // accessor name
	Reqs []Req    `json:"reqs,omitempty"`
	Note string   `json:"note,omitempty"`
}

func (c Case) brief() Case {
	b := c
	if len(b.Data) > 400 {
		b.Data = b.Data[:400]
		b.Note += " (data truncated in sample)"
	}
	for i := range b.Reqs {
		if len(b.Reqs[i].Body) > 200 {
			b.Reqs = append([]Req{}, b.Reqs...)
			b.Reqs[i].Body = b.Reqs[i].Body[:200]
		}
	}
	return b
}

func caseHash(c Case) string {
	c.Note = ""
	b, _ := json.Marshal(c)
	h := sha256.Sum256(b)
	return hex.EncodeToString(h[:8])
}

var watchdogSeconds = 20

type outcome struct {
	fail       *failure
	nontrivial bool
	hung       bool
}

type done struct {
	panicked   any
	stack      string
	nontrivial bool
}

// execCase runs the case in its own goroutine under recover() and the watchdog.
func execCase(c Case) outcome {
	if c.Kind == "seed" {
		// a failure while building the seed set: rebuild it (every step is guarded) and report the same step
		s := loadSeeds()
		for _, f := range s.fails {
			if f.Case.Note == c.Note {
				return outcome{nontrivial: true, fail: f}
			}
		}
		return outcome{}
	}
	return execFunc(c, func() bool { return runCase(c) })
}

// execFunc runs f in its own goroutine under recover() and the watchdog; c labels the failure.
func execFunc(c Case, f func() bool) outcome {
	ch := make(chan done, 1)
	go caseGoroutine(f, ch)
	select {
	case d := <-ch:
		if d.panicked != nil {
			key := "panic:" + topFrame(d.stack)
			return outcome{nontrivial: true, fail: &failure{Kind: "fail", Key: canonKey(key), What: fmt.Sprintf("panic: %v", d.panicked), Case: c, Stack: trimStack(d.stack)}}
		}
		return outcome{nontrivial: d.nontrivial}
	case <-time.After(time.Duration(watchdogSeconds) * time.Second):
		buf := make([]byte, 1<<20)
		buf = buf[:runtime.Stack(buf, true)]
		st := ""
		for _, blk := range strings.Split(string(buf), "\n\n") {
			if strings.Contains(blk, "main.caseGoroutine") {
				st = blk
				break
			}
		}
		key := "hang:" + topFrame(st)
		return outcome{nontrivial: true, hung: true, fail: &failure{Kind: "fail", Key: canonKey(key), What: fmt.Sprintf("no answer within %d s (watchdog)", watchdogSeconds), Case: c, Stack: trimStack(st)}}
	}
}

func caseGoroutine(f func() bool, ch chan done) {
	var d done
	defer func() {
		if r := recover(); r != nil {
			d.panicked = r
			d.stack = string(debug.Stack())
		}
		ch <- d
	}()
	d.nontrivial = f()
}

var frameRe = regexp.MustCompile(`(?m)^(github\.com/moov-io/ach[^\s(]*(?:\([^)]*\))?[^\s(]*)\(`)

// topFrame returns the innermost function of github.com/moov-io/ach on the stack,
// e.g. "ach.(*EntryDetail).ProcessControlField".
func topFrame(stack string) string {
	for _, line := range strings.Split(stack, "\n") {
		if !strings.HasPrefix(line, "github.com/moov-io/ach") {
			continue
		}
		// strip the argument list: the last '(' that is followed by args and ')'
		fn := line
		if i := strings.LastIndex(fn, "("); i > 0 {
			fn = fn[:i]
		}
		fn = strings.TrimPrefix(fn, "github.com/moov-io/")
		fn = strings.TrimSuffix(fn, "(...)")
		// closures: ach/server.segmentFileEndpoint.func1 stays as is
		return fn
	}
	return "outside-ach"
}

// canonKey maps frames of one known defect to its finding key.
func canonKey(k string) string {
	if strings.Contains(k, ".upsertOffsets") {
		return "offset:upsert"
	}
	return k
}

func trimStack(s string) string {
	lines := strings.Split(s, "\n")
	var keep []string
	for _, l := range lines {
		if strings.HasPrefix(l, "github.com/moov-io/ach") || strings.HasPrefix(l, "panic(") || strings.HasPrefix(l, "runtime.") {
			keep = append(keep, strings.TrimSpace(l))
		}
		if len(keep) >= 12 {
			break
		}
	}
	return strings.Join(keep, " | ")
}

// ---------------------------------------------------------------- ValidateOpts

var optFields = func() []int {
	var idx []int
	t := reflect.TypeOf(ach.ValidateOpts{})
	for i := 0; i < t.NumField(); i++ {
		if t.Field(i).Type.Kind() == reflect.Bool && t.Field(i).IsExported() {
			idx = append(idx, i)
		}
	}
	return idx
}()

func mkOpts(mask int64) *ach.ValidateOpts {
	if mask < 0 {
		return nil
	}
	o := &ach.ValidateOpts{}
	v := reflect.ValueOf(o).Elem()
	for bit, i := range optFields {
		if mask&(1<<uint(bit)) != 0 {
			v.Field(i).SetBool(true)
		}
	}
	return o
}

// ---------------------------------------------------------------- case execution

func runCase(c Case) bool {
	switch c.Kind {
	case "read":
		data := []byte(hx.Dec(c.Data))
		r := ach.NewReader(bytes.NewReader(data))
		r.SetValidation(mkOpts(c.Opts))
		f, _ := r.Read()
		runOps(&f, c.Ops)
		return len(f.Batches)+len(f.IATBatches) > 0
	case "json":
		data := []byte(hx.Dec(c.Data))
		f, _ := ach.FileFromJSONWith(data, mkOpts(c.Opts))
		if f == nil {
			// the other public entry point
			var g ach.File
			_ = g.UnmarshalJSON(data)
			return false
		}
		runOps(f, c.Ops)
		return len(f.Batches)+len(f.IATBatches) > 0
	case "accessor":
		runAccessor(c.Acc, hx.Dec(c.Data))
		return true
	case "http":
		return runHTTP(c)
	}
	return false
}

var fixedTime = time.Date(2024, time.March, 14, 10, 30, 0, 0, time.UTC)

// runOps applies the call sequence; every operation continues on "whatever file was returned".
func runOps(f *ach.File, ops []string) {
	cur := f
	for _, op := range ops {
		if cur == nil {
			return
		}
		name, arg, _ := strings.Cut(op, ":")
		switch name {
		case "Validate":
			_ = cur.Validate()
		case "ValidateWith":
			var m int64 = -1
			fmt.Sscanf(arg, "%d", &m)
			_ = cur.ValidateWith(mkOpts(m))
		case "SetValidation":
			var m int64 = -1
			fmt.Sscanf(arg, "%d", &m)
			cur.SetValidation(mkOpts(m))
		case "Create":
			_ = cur.Create()
		case "Write":
			_ = ach.NewWriter(io.Discard).Write(cur)
		case "MarshalJSON":
			_, _ = cur.MarshalJSON()
		case "JSONRoundTrip":
			if bs, err := json.Marshal(cur); err == nil {
				if g, _ := ach.FileFromJSON(bs); g != nil {
					cur = g
				}
			}
		case "SegmentFile":
			cf, df, _ := cur.SegmentFile(ach.NewSegmentFileConfiguration())
			if arg == "d" {
				if df != nil {
					cur = df
				}
			} else if cf != nil {
				cur = cf
			}
		case "FlattenBatches":
			g, _ := cur.FlattenBatches()
			if g != nil {
				cur = g
			}
		case "MergeFiles":
			out, _ := ach.MergeFiles([]*ach.File{cur, f})
			if len(out) > 0 && out[0] != nil {
				cur = out[0]
			}
		case "Reversal":
			_ = cur.Reversal(fixedTime)
		case "WithOffset":
			off := &ach.Offset{RoutingNumber: "121042882", AccountNumber: "123456789", AccountType: ach.OffsetChecking, Description: "OFFSET"}
			switch arg {
			case "s":
				off.AccountType = ach.OffsetSavings
			case "bad":
				off.RoutingNumber, off.Description = "1", "01"
			}
			for _, b := range cur.Batches {
				if b != nil {
					b.WithOffset(off)
				}
			}
		case "BatchCreate":
			for _, b := range cur.Batches {
				if b != nil {
					_ = b.Create()
				}
			}
			for i := range cur.IATBatches {
				_ = cur.IATBatches[i].Create()
			}
		case "BatchValidate":
			for _, b := range cur.Batches {
				if b != nil {
					_ = b.Validate()
				}
			}
			for i := range cur.IATBatches {
				_ = cur.IATBatches[i].Validate()
			}
		}
	}
}

// accessors: the value-dependent slicers reachable through the public API.
var accessorNames = []string{
	"ProcessControlField", "ItemResearchNumber",
	"POPCheckSerialNumberField", "POPTerminalCityField", "POPTerminalStateField",
	"SHRCardExpirationDateField", "SHRDocumentReferenceNumberField",
	"CATXAddendaRecordsField", "CATXReceivingCompanyField", "CATXReservedField",
	"SetCATXAddendaRecords", "SetCATXReceivingCompany",
	"IATPaymentAmountField", "IATAddendaInformationField",
	"AddendaInformationReturnTraceNumber", "AddendaInformationReturnSettlementDate",
	"AddendaInformationReturnReasonCode", "AddendaInformationExtra",
	"SetRDFI", "ADVSetRDFI", "IATSetRDFI", "Aba8", "First22", "ParseCorrectedData",
	"TransactionDate", "CreditOrDebit",
}

func runAccessor(name, s string) string {
	ed := ach.NewEntryDetail()
	ed.IndividualName = s
	ed.IdentificationNumber = s
	a99 := ach.NewAddenda99()
	a99.AddendaInformation = s
	switch name {
	case "ProcessControlField":
		return ed.ProcessControlField()
	case "ItemResearchNumber":
		return ed.ItemResearchNumber()
	case "POPCheckSerialNumberField":
		return ed.POPCheckSerialNumberField()
	case "POPTerminalCityField":
		return ed.POPTerminalCityField()
	case "POPTerminalStateField":
		return ed.POPTerminalStateField()
	case "SHRCardExpirationDateField":
		return ed.SHRCardExpirationDateField()
	case "SHRDocumentReferenceNumberField":
		return ed.SHRDocumentReferenceNumberField()
	case "CATXAddendaRecordsField":
		return ed.CATXAddendaRecordsField()
	case "CATXReceivingCompanyField":
		return ed.CATXReceivingCompanyField()
	case "CATXReservedField":
		return ed.CATXReservedField()
	case "SetCATXAddendaRecords":
		ed.SetCATXAddendaRecords(7)
		return ed.IndividualName
	case "SetCATXReceivingCompany":
		ed.SetCATXReceivingCompany("Receiver")
		return ed.IndividualName
	case "IATPaymentAmountField":
		return fmt.Sprint(a99.IATPaymentAmountField())
	case "IATAddendaInformationField":
		return a99.IATAddendaInformationField()
	case "AddendaInformationReturnTraceNumber":
		return a99.AddendaInformationReturnTraceNumber()
	case "AddendaInformationReturnSettlementDate":
		return a99.AddendaInformationReturnSettlementDate()
	case "AddendaInformationReturnReasonCode":
		return a99.AddendaInformationReturnReasonCode()
	case "AddendaInformationExtra":
		return a99.AddendaInformationExtra()
	case "SetRDFI":
		ed.SetRDFI(s)
		return ed.RDFIIdentification + "|" + ed.CheckDigit
	case "ADVSetRDFI":
		e := ach.NewADVEntryDetail()
		e.SetRDFI(s)
		return e.RDFIIdentification + "|" + e.CheckDigit
	case "IATSetRDFI":
		e := ach.NewIATEntryDetail()
		e.SetRDFI(s)
		return e.RDFIIdentification + "|" + e.CheckDigit
	case "Aba8":
		return ach.VerifAba8(s)
	case "First22":
		return ach.VerifFirst(22, s)
	case "ParseCorrectedData":
		a := ach.NewAddenda98()
		if len(s) >= 3 {
			a.ChangeCode = s[:3]
			a.CorrectedData = s[3:]
		}
		_ = a.ParseCorrectedData()
		return ""
	case "TransactionDate":
		a := ach.NewAddenda02()
		a.TransactionDate = s
		_ = a.Validate()
		return ""
	case "CreditOrDebit":
		ed.TransactionCode = len(s)*7 - 3
		return ed.CreditOrDebit()
	}
	return ""
}

// ---------------------------------------------------------------- HTTP

func runHTTP(c Case) bool {
	repo := server.NewRepositoryInMemory(0, nil)
	svc := server.NewService(repo)
	h := server.MakeHTTPHandler(svc, repo, kitlog.NewNopLogger())
	id := "missing"
	reached := false
	for i, rq := range c.Reqs {
		path := strings.ReplaceAll(rq.Path, "{ID}", id)
		body := []byte(hx.Dec(orDash(rq.Body)))
		req, err := http.NewRequest(rq.Method, "http://ach.test"+path, bytes.NewReader(body))
		if err != nil {
			continue
		}
		if rq.CT != "" {
			req.Header.Set("Content-Type", rq.CT)
		}
		req.Header.Set("Origin", "https://moov.io")
		w := httptest.NewRecorder()
		h.ServeHTTP(w, req)
		if w.Code != http.StatusNotFound && w.Code != http.StatusMethodNotAllowed {
			reached = true
		}
		if i == 0 && rq.Method == "POST" {
			var resp struct {
				ID string `json:"id"`
			}
			if json.Unmarshal(w.Body.Bytes(), &resp) == nil && resp.ID != "" {
				id = resp.ID
			}
		}
	}
	return reached
}

func orDash(s string) string {
	if s == "" {
		return "-"
	}
	return s
}

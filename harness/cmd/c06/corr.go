package main

import (
	"flag"
	"fmt"
	"path/filepath"
	"strings"

	"github.com/moov-io/ach"

	"verifharness/internal/gen"
	"verifharness/internal/hx"
	"verifharness/internal/rng"
)

// modelled accessors: name in the case file -> real code
var corrAccessors = []string{
	"process_control", "item_research", "pop_check_serial", "pop_terminal_city", "pop_terminal_state",
	"shr_card_exp", "shr_doc_ref", "catx_addenda_records", "catx_receiving", "catx_reserved",
	"set_catx_addenda_records", "set_catx_receiving", "set_rdfi", "set_rdfi_adv", "set_rdfi_iat",
	"iat_payment_amount", "iat_addenda_information", "a99_return_trace", "a99_settlement_date",
	"a99_reason_code", "a99_extra", "aba8", "first9", "first22", "trim_long", "right_pad",
}

func observe(f func() string) (out string) {
	defer func() {
		if r := recover(); r != nil {
			out = "PANIC"
		}
	}()
	return f()
}

func implAccessor(name, s string) string {
	return observe(func() string {
		ed := ach.NewEntryDetail()
		ed.IndividualName = s
		ed.IdentificationNumber = s
		a99 := ach.NewAddenda99()
		a99.AddendaInformation = s
		ok := func(v string) string { return "OK " + hx.Enc(v) }
		switch name {
		case "process_control":
			return ok(ed.ProcessControlField())
		case "item_research":
			return ok(ed.ItemResearchNumber())
		case "pop_check_serial":
			return ok(ed.POPCheckSerialNumberField())
		case "pop_terminal_city":
			return ok(ed.POPTerminalCityField())
		case "pop_terminal_state":
			return ok(ed.POPTerminalStateField())
		case "shr_card_exp":
			return ok(ed.SHRCardExpirationDateField())
		case "shr_doc_ref":
			return ok(ed.SHRDocumentReferenceNumberField())
		case "catx_addenda_records":
			return ok(ed.CATXAddendaRecordsField())
		case "catx_receiving":
			return ok(ed.CATXReceivingCompanyField())
		case "catx_reserved":
			return ok(ed.CATXReservedField())
		case "set_catx_addenda_records":
			ed.SetCATXAddendaRecords(7)
			return ok(ed.IndividualName)
		case "set_catx_receiving":
			ed.SetCATXReceivingCompany("Receiver Co")
			return ok(ed.IndividualName)
		case "set_rdfi":
			ed.SetRDFI(s)
			return "OK " + hx.Enc(ed.RDFIIdentification) + " " + hx.Enc(ed.CheckDigit)
		case "set_rdfi_adv":
			e := ach.NewADVEntryDetail()
			e.SetRDFI(s)
			return "OK " + hx.Enc(e.RDFIIdentification) + " " + hx.Enc(e.CheckDigit)
		case "set_rdfi_iat":
			e := ach.NewIATEntryDetail()
			e.SetRDFI(s)
			return "OK " + hx.Enc(e.RDFIIdentification) + " " + hx.Enc(e.CheckDigit)
		case "iat_payment_amount":
			return fmt.Sprintf("OK %d", a99.IATPaymentAmountField())
		case "iat_addenda_information":
			return ok(a99.IATAddendaInformationField())
		case "a99_return_trace":
			return ok(a99.AddendaInformationReturnTraceNumber())
		case "a99_settlement_date":
			return ok(a99.AddendaInformationReturnSettlementDate())
		case "a99_reason_code":
			return ok(a99.AddendaInformationReturnReasonCode())
		case "a99_extra":
			return ok(a99.AddendaInformationExtra())
		case "aba8":
			return ok(ach.VerifAba8(s))
		case "first9":
			return ok(ach.VerifFirst(9, s))
		case "first22":
			return ok(ach.VerifFirst(22, s))
		case "trim_long":
			return ok(ach.VerifTrimSpacesFromLongLine(s))
		case "right_pad":
			v, err := ach.VerifRightPadShortLine(s)
			if err != nil {
				return "ERR"
			}
			return ok(v)
		}
		return "?"
	})
}

func implReadLine(first bool, line string) (obs string, rline string) {
	obs = observe(func() string {
		n := 2
		if first {
			n = 1
		}
		l, _ := ach.VerifReadLine(n, line)
		rline = l
		if l == "" {
			return "ERR"
		}
		return "OK " + hx.Enc(l)
	})
	return obs, rline
}

func validatorBatch(sec string) ach.Batcher {
	var f *ach.File
	o := execFunc(Case{Kind: "seed"}, func() bool {
		f = gen.FileOfSEC(rng.New(77), sec, gen.Opts{ForwardOnly: true, MaxBatches: 1, MinBatches: 1})
		return true
	})
	if o.fail != nil || f == nil || len(f.Batches) == 0 {
		return nil
	}
	return f.Batches[0]
}

func implValidator(b ach.Batcher, sec, s string) string {
	if b == nil {
		return "?"
	}
	return observe(func() string {
		e := b.GetEntries()[0]
		oldN, oldI := e.IndividualName, e.IdentificationNumber
		defer func() { e.IndividualName, e.IdentificationNumber = oldN, oldI }()
		if sec == "SHR" {
			e.IdentificationNumber = s
		} else {
			e.IndividualName = s
		}
		_ = b.Validate()
		return "NOPANIC"
	})
}

func corr(args []string) {
	fs := flag.NewFlagSet("corr", flag.ExitOnError)
	out := fs.String("out", "", "output directory")
	random := fs.Int("random", 1500, "random strings per family")
	fs.Parse(args)
	cases := hx.Create(filepath.Join(*out, "cases.txt"))
	impl := hx.Create(filepath.Join(*out, "impl.txt"))
	n := 0
	var values []string
	for l := 0; l <= 48; l++ {
		values = append(values, strings.Repeat("7", l))
	}
	for _, l := range []int{1, 2, 3, 4, 5, 6, 7, 8, 9, 10, 11, 12, 21, 22, 23, 44, 45, 93, 94, 95} {
		values = append(values, strings.Repeat("é", l), strings.Repeat(" ", l), "0"+strings.Repeat("9", l), " "+strings.Repeat("A", l)+" ", strings.Repeat("€", l)+" ")
	}
	r := rng.FromEnv(66)
	// no U+0085 / U+00A0 etc.: both sides implement unicode.IsSpace, but keep the alphabet to what fields can hold
	alpha := []string{"0", "1", "7", "9", "A", "z", " ", " ", "é", "€", "\xff", "\xc3", "\t", "-"}
	for i := 0; i < *random; i++ {
		l := r.Range(0, 30)
		if r.Chance(1, 6) {
			l = r.Range(85, 100)
		}
		var b strings.Builder
		for j := 0; j < l; j++ {
			b.WriteString(rng.Pick(r, alpha))
		}
		values = append(values, b.String())
	}
	for _, v := range values {
		for _, a := range corrAccessors {
			cases.Printf("A %s %s\n", a, hx.Enc(v))
			impl.Printf("%s\n", implAccessor(a, v))
			n++
		}
	}
	// validators (panic status only)
	bs := map[string]ach.Batcher{"TRC": validatorBatch("TRC"), "XCK": validatorBatch("XCK"), "SHR": validatorBatch("SHR")}
	for _, v := range values {
		if len(v) > 40 {
			continue
		}
		for _, sec := range []string{"TRC", "XCK", "SHR"} {
			cases.Printf("V %s %s\n", sec, hx.Enc(v))
			impl.Printf("%s\n", implValidator(bs[sec], sec, v))
			n++
		}
	}
	// reader lines: every record type character, lengths around 94, multi-byte runes, fixed-width first lines
	var lines []string
	for _, t := range []string{"1", "5", "6", "7", "8", "9", "X", " ", "é"} {
		for _, l := range []int{0, 1, 2, 3, 5, 19, 20, 49, 50, 52, 53, 92, 93, 94, 95, 96, 150, 187, 188, 189, 282} {
			lines = append(lines, t+strings.Repeat("0", l))
			lines = append(lines, t+strings.Repeat("é", l/2)+strings.Repeat(" ", l-l/2))
			lines = append(lines, t+strings.Repeat("9", l)+" ")
		}
	}
	lines = append(lines, "5"+strings.Repeat(" ", 49)+"IAT"+strings.Repeat(" ", 41), "5   IATCOR"+strings.Repeat(" ", 84), "5"+strings.Repeat("é", 49)+"IAT")
	for i := 0; i < *random; i++ {
		l := r.Range(0, 99)
		if r.Chance(1, 5) {
			l = r.Range(180, 300)
		}
		var b strings.Builder
		b.WriteString(rng.Pick(r, []string{"1", "5", "6", "7", "8", "9", "9", "x"}))
		for j := 0; j < l; j++ {
			b.WriteString(rng.Pick(r, alpha))
		}
		lines = append(lines, b.String())
	}
	for _, l := range lines {
		for _, first := range []bool{false, true} {
			obs, rline := implReadLine(first, l)
			fb := 0
			if first {
				fb = 1
			}
			cases.Printf("L %d %s %s\n", fb, hx.Enc(l), hx.Enc(rline))
			impl.Printf("%s\n", obs)
			n++
		}
	}
	cases.Close()
	impl.Close()
	fmt.Printf("{\"cases\":%d}\n", n)
}

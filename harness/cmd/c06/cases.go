package main

import (
	"bytes"
	"encoding/json"
	"fmt"
	"os"
	"path/filepath"
	"sort"
	"strconv"
	"strings"

	"github.com/moov-io/ach"

	"verifharness/internal/gen"
	"verifharness/internal/hx"
	"verifharness/internal/rng"
)

type seedSet struct {
	ach    [][]byte // NACHA text (fixtures, fuzz corpus, generated valid files)
	json   [][]byte // JSON documents (fixtures, JSON of every readable ach seed, generated valid files)
	valid  [][]byte // NACHA text of generated valid files of every SEC code (call-sequence seeds)
	batchJ [][]byte // JSON of single batches (bodies for POST /files/{id}/batches)
	genJ   [][]byte // JSON of the generated valid files only (leaf sweep)
	fails  []*failure // panics / hangs of the implementation while the seeds were built
	hangs  int
}

// guard runs one seed-building step under recover() and the watchdog: generating or
// re-reading a VALID file must not panic or hang either.
func (s *seedSet) guard(step string, f func()) {
	if s.hangs >= 3 {
		return // three leaked spinning goroutines already: stop, the failures are reported
	}
	o := execFunc(Case{Kind: "seed", Opts: -1, Note: step}, func() bool { f(); return true })
	if o.fail != nil {
		s.fails = append(s.fails, o.fail)
		if o.hung {
			s.hangs++
		}
	}
}

func loadSeeds() *seedSet {
	s := &seedSet{}
	repo := os.Getenv("VERIF_REPO")
	if repo == "" {
		repo = "/repo"
	}
	achFiles, jsonFiles := gen.Fixtures(repo)
	// plus *.txt fixtures and the upstream crashers / fuzz corpus
	extra, _ := filepath.Glob(filepath.Join(repo, "test/testdata/*.txt"))
	achFiles = append(achFiles, extra...)
	crash, _ := filepath.Glob(filepath.Join(repo, "test/testdata/crashers/*"))
	achFiles = append(achFiles, crash...)
	sort.Strings(achFiles)
	for _, p := range achFiles {
		if b, err := os.ReadFile(p); err == nil && len(b) > 0 && len(b) < 200000 {
			s.ach = append(s.ach, b)
		}
	}
	for _, p := range jsonFiles {
		if b, err := os.ReadFile(p); err == nil && len(b) > 0 && len(b) < 200000 && json.Valid(b) {
			s.json = append(s.json, b)
		}
	}
	fz, _ := filepath.Glob(filepath.Join(repo, "test/fuzz/testdata/*/*/*"))
	fz2, _ := filepath.Glob(filepath.Join(repo, "test/fuzz/testdata/*/*"))
	for _, p := range append(fz, fz2...) {
		b, err := os.ReadFile(p)
		if err != nil {
			continue
		}
		for _, line := range strings.Split(string(b), "\n") {
			line = strings.TrimSpace(line)
			for _, pre := range []string{"[]byte(", "string("} {
				if strings.HasPrefix(line, pre) && strings.HasSuffix(line, ")") {
					if v, err := strconv.Unquote(line[len(pre) : len(line)-1]); err == nil && v != "" {
						s.ach = append(s.ach, []byte(v))
					}
				}
			}
		}
	}
	// generated valid files: one per SEC code plus mixed files with every feature switched on
	r := rng.New(60606) // fixed: seeds are the same for every VERIF_SEED, mutations vary
	add := func(f *ach.File) {
		if f == nil {
			return
		}
		func() {
			if t, err := gen.Text(f, false); err == nil {
				s.valid = append(s.valid, []byte(t))
				s.ach = append(s.ach, []byte(t))
			}
			if b, err := json.Marshal(f); err == nil {
				s.json = append(s.json, b)
				s.genJ = append(s.genJ, b)
			}
		}()
	}
	for _, sec := range gen.AllSECs() {
		s.guard("generate valid "+sec+" file", func() { add(gen.FileOfSEC(r.Fork(), sec, gen.Opts{Addenda: true})) })
	}
	s.guard("generate valid ADV file", func() { add(gen.ADVFile(r.Fork())) })
	for i := 0; i < 6; i++ {
		i := i
		s.guard(fmt.Sprintf("generate valid mixed file %d", i), func() {
			add(gen.File(r.Fork(), gen.Opts{IAT: true, Returns: true, NOC: true, Addenda: true, NonASCII: i%2 == 0, MaxBatches: 4}))
		})
	}
	s.guard("generate valid file with offset", func() {
		add(gen.File(r.Fork(), gen.Opts{Offset: true, SECs: []string{"PPD", "CCD"}, ForwardOnly: true}))
	})
	// JSON of every fixture the reader accepts at least partially
	for ai, a := range s.ach {
		a := a
		s.guard(fmt.Sprintf("read seed %d and render it as JSON", ai), func() {
			f, _ := ach.NewReader(bytes.NewReader(a)).Read()
			if len(f.Batches)+len(f.IATBatches) == 0 {
				return
			}
			if b, err := json.Marshal(&f); err == nil && len(b) < 300000 {
				s.json = append(s.json, b)
			}
		})
	}
	// single-batch JSON bodies
	for _, j := range s.json {
		var doc map[string]json.RawMessage
		if json.Unmarshal(j, &doc) != nil {
			continue
		}
		var bs []json.RawMessage
		if json.Unmarshal(doc["batches"], &bs) == nil {
			for _, b := range bs {
				if len(s.batchJ) < 60 {
					s.batchJ = append(s.batchJ, b)
				}
			}
		}
	}
	return s
}

var allOps = []string{"Validate", "Create", "Write", "MarshalJSON", "SegmentFile:c", "SegmentFile:d", "FlattenBatches", "MergeFiles", "Reversal", "BatchCreate", "BatchValidate", "JSONRoundTrip", "WithOffset:c", "WithOffset:s", "WithOffset:bad"}

func randOpts(r *rng.R) int64 {
	switch r.Intn(6) {
	case 0:
		return -1
	case 1:
		return 0
	case 2:
		return (1 << uint(len(optFields))) - 1
	case 3:
		return 1 << uint(r.Intn(len(optFields)))
	default:
		return int64(r.U64() & ((1 << uint(len(optFields))) - 1))
	}
}

func randOps(r *rng.R, max int) []string {
	n := r.Range(0, max)
	ops := make([]string, 0, n)
	for i := 0; i < n; i++ {
		op := rng.Pick(r, allOps)
		if r.Chance(1, 8) {
			op = fmt.Sprintf("ValidateWith:%d", randOpts(r))
		} else if r.Chance(1, 12) {
			op = fmt.Sprintf("SetValidation:%d", randOpts(r))
		}
		ops = append(ops, op)
	}
	return ops
}

// ---------------------------------------------------------------- (a) byte level

var fillers = []string{" ", "0", "9", "A", "\xc3\xa9", "\xe2\x82\xac", "\xff", "\x00", "\t", "*", "-", "R", "C"}

func mutateBytes(r *rng.R, b []byte) []byte {
	b = append([]byte{}, b...)
	k := r.Range(1, 4)
	for ; k > 0 && len(b) > 0; k-- {
		switch r.Intn(12) {
		case 0: // bit flip
			i := r.Intn(len(b))
			b[i] ^= 1 << uint(r.Intn(8))
		case 1: // truncate
			b = b[:r.Intn(len(b)+1)]
		case 2: // duplicate a line
			lines := bytes.SplitAfter(b, []byte("\n"))
			i := r.Intn(len(lines))
			out := append([][]byte{}, lines[:i+1]...)
			out = append(out, lines[i])
			out = append(out, lines[i+1:]...)
			b = bytes.Join(out, nil)
		case 3: // delete a line
			lines := bytes.SplitAfter(b, []byte("\n"))
			i := r.Intn(len(lines))
			b = bytes.Join(append(append([][]byte{}, lines[:i]...), lines[i+1:]...), nil)
		case 4: // swap two lines
			lines := bytes.SplitAfter(b, []byte("\n"))
			i, j := r.Intn(len(lines)), r.Intn(len(lines))
			lines[i], lines[j] = lines[j], lines[i]
			b = bytes.Join(lines, nil)
		case 5, 6: // overwrite a span inside one line with a filler (field boundary values)
			i := r.Intn(len(b))
			l := r.Range(1, 22)
			f := rng.Pick(r, fillers)
			var span []byte
			for len(span) < l {
				span = append(span, f...)
			}
			end := i + l
			if end > len(b) {
				end = len(b)
			}
			for j := i; j < end; j++ {
				if b[j] == '\n' {
					end = j
					break
				}
			}
			b = append(append(append([]byte{}, b[:i]...), span...), b[end:]...)
		case 7: // change a record type / code at a line start
			lines := bytes.SplitAfter(b, []byte("\n"))
			i := r.Intn(len(lines))
			if len(lines[i]) > 3 {
				lines[i] = append([]byte{}, lines[i]...)
				lines[i][0] = "1567899 X"[r.Intn(9)]
				if r.Bool() {
					copy(lines[i][1:3], []string{"02", "05", "10", "11", "12", "13", "14", "15", "16", "17", "18", "98", "99", "  "}[r.Intn(14)])
				}
			}
			b = bytes.Join(lines, nil)
		case 8: // insert bytes
			i := r.Intn(len(b) + 1)
			ins := strings.Repeat(rng.Pick(r, fillers), r.Range(1, 100))
			b = append(append(append([]byte{}, b[:i]...), ins...), b[i:]...)
		case 9: // remove newlines in a region (long lines) or turn into CRLF
			if r.Bool() {
				b = bytes.ReplaceAll(b, []byte("\n"), nil)
			} else {
				b = bytes.ReplaceAll(b, []byte("\n"), []byte("\r\n"))
			}
		case 10: // SEC code swap in batch headers
			secs := gen.AllSECs()
			lines := bytes.SplitAfter(b, []byte("\n"))
			for i := range lines {
				if len(lines[i]) >= 53 && lines[i][0] == '5' && r.Bool() {
					lines[i] = append([]byte{}, lines[i]...)
					copy(lines[i][50:53], rng.Pick(r, append(secs, "IAT", "ADV", "COR")))
				}
			}
			b = bytes.Join(lines, nil)
		case 11: // delete a byte (shifts every later column of the line)
			i := r.Intn(len(b))
			b = append(append([]byte{}, b[:i]...), b[i+1:]...)
		}
	}
	return b
}

func genRead(r *rng.R, s *seedSet) Case {
	seed := rng.Pick(r, s.ach)
	data := seed
	if !r.Chance(1, 10) {
		data = mutateBytes(r, seed)
	}
	c := Case{Kind: "read", Data: hx.Enc(string(data)), Opts: randOpts(r), Ops: randOps(r, 3)}
	if r.Chance(1, 10) { // the same bytes through the JSON entry point
		c.Kind = "json"
	}
	return c
}

// ---------------------------------------------------------------- (b) JSON leaves

type leafRef struct {
	set func(v any)
	old any
	key string
}

func collectLeaves(v any, key string, set func(any), out *[]leafRef) {
	switch x := v.(type) {
	case map[string]any:
		keys := make([]string, 0, len(x))
		for k := range x {
			keys = append(keys, k)
		}
		sort.Strings(keys) // map order must not leak into the case stream
		for _, k := range keys {
			k := k
			collectLeaves(x[k], k, func(n any) { x[k] = n }, out)
		}
		*out = append(*out, leafRef{set: set, old: v, key: key + "{}"})
	case []any:
		for i := range x {
			i := i
			collectLeaves(x[i], key, func(n any) { x[i] = n }, out)
		}
		*out = append(*out, leafRef{set: set, old: v, key: key + "[]"})
	default:
		*out = append(*out, leafRef{set: set, old: v, key: key})
	}
}

var stringBoundary = []string{"", " ", "A", "12", "1234", "12345", "123456789", strings.Repeat("9", 15), strings.Repeat("X", 21), strings.Repeat("X", 23),
	strings.Repeat("Z", 95), strings.Repeat("W", 300), "é", "éééééé", "€12345", "\xff\xfe", "OFFSET", "R01", "C01", "IAT", "ADV", "0000000", "-1", "2024-03-14T10:30:00Z", "\x00", "1 2 3 4"}

func boundaryFor(r *rng.R, old any) any {
	switch old.(type) {
	case string:
		return rng.Pick(r, stringBoundary)
	case json.Number, float64:
		return rng.Pick(r, []any{json.Number("0"), json.Number("-1"), json.Number("1"), json.Number("99"), json.Number("2147483648"), json.Number("9223372036854775807"),
			json.Number("99999999999999999999"), json.Number("-9223372036854775808"), json.Number("1.5"), json.Number("1e3"), "12", nil})
	case bool:
		return rng.Pick(r, []any{true, false, nil, "true"})
	case nil:
		return rng.Pick(r, []any{"", json.Number("0"), map[string]any{}, []any{}})
	case map[string]any:
		return rng.Pick(r, []any{nil, map[string]any{}, []any{}, "x", json.Number("0")})
	case []any:
		return rng.Pick(r, []any{nil, []any{}, []any{nil}, []any{map[string]any{}}, map[string]any{}, "x"})
	}
	return nil
}

func mutateJSON(r *rng.R, seed []byte, nrepl int) ([]byte, string) {
	dec := json.NewDecoder(bytes.NewReader(seed))
	dec.UseNumber()
	var tree any
	if dec.Decode(&tree) != nil {
		return seed, ""
	}
	var note []string
	for i := 0; i < nrepl; i++ {
		var leaves []leafRef
		collectLeaves(tree, "", func(n any) { tree = n }, &leaves)
		if len(leaves) == 0 {
			break
		}
		l := rng.Pick(r, leaves)
		if r.Chance(1, 12) {
			// delete / duplicate structure instead of replacing a leaf
			l.set(nil)
			note = append(note, l.key+"=null")
			continue
		}
		nv := boundaryFor(r, l.old)
		l.set(nv)
		note = append(note, fmt.Sprintf("%s=%.20v", l.key, nv))
	}
	out, err := json.Marshal(tree)
	if err != nil {
		return seed, ""
	}
	return out, strings.Join(note, ",")
}

func genJSONLeaf(r *rng.R, s *seedSet) Case {
	seed := rng.Pick(r, s.json)
	n := 1
	if r.Chance(1, 4) {
		n = r.Range(2, 4)
	}
	data, note := mutateJSON(r, seed, n)
	if r.Chance(1, 6) {
		// give every batch of the document an "offset" object (FileFromJSON then balances it)
		var doc map[string]any
		if json.Unmarshal(data, &doc) == nil {
			if bs, ok := doc["batches"].([]any); ok {
				for _, b := range bs {
					if m, ok := b.(map[string]any); ok {
						m["offset"] = map[string]any{"routingNumber": "121042882", "accountNumber": "123456789", "accountType": rng.Pick(r, []string{"checking", "savings"}), "description": rng.Pick(r, []string{"OFFSET", "01", ""})}
					}
				}
				if out, err := json.Marshal(doc); err == nil {
					data, note = out, note+"+offset"
				}
			}
		}
	}
	return Case{Kind: "json", Data: hx.Enc(string(data)), Opts: randOpts(r), Ops: randOps(r, 3), Note: note}
}

// ---------------------------------------------------------------- (c) call sequences

func genSeq(r *rng.R, s *seedSet) Case {
	ops := randOps(r, 6)
	if len(ops) == 0 {
		ops = []string{"Create"}
	}
	if r.Bool() {
		seed := rng.Pick(r, s.valid)
		if r.Chance(1, 3) {
			seed = mutateBytes(r, seed)
		}
		return Case{Kind: "read", Data: hx.Enc(string(seed)), Opts: randOpts(r), Ops: ops}
	}
	seed := rng.Pick(r, s.json)
	note := ""
	if r.Chance(1, 3) {
		seed, note = mutateJSON(r, seed, 1)
	}
	return Case{Kind: "json", Data: hx.Enc(string(seed)), Opts: randOpts(r), Ops: ops, Note: note}
}

// ---------------------------------------------------------------- (d) HTTP

type route struct{ method, path string }

var routes = []route{
	{"GET", "/ping"}, {"GET", "/files"}, {"GET", "/files/{ID}/build"}, {"POST", "/files/{ID}"}, {"POST", "/files/create"},
	{"GET", "/files/{ID}"}, {"GET", "/files/{ID}/contents"}, {"GET", "/files/{ID}/validate"}, {"POST", "/files/{ID}/validate"},
	{"DELETE", "/files/{ID}"}, {"POST", "/files/{ID}/batches"}, {"GET", "/files/{ID}/batches"}, {"GET", "/files/{ID}/batches/{BID}"},
	{"DELETE", "/files/{ID}/batches/{BID}"}, {"POST", "/files/{ID}/balance"}, {"POST", "/files/{ID}/segment"}, {"POST", "/segment"},
	{"POST", "/files/{ID}/flatten"}, {"OPTIONS", "/files/{ID}"},
}

var contentTypes = []string{"", "application/json", "application/json; charset=utf-8", "text/plain", "APPLICATION/JSON", "application/xml", "multipart/form-data"}

var queries = []string{"", "", "?skipAll=true", "?requireABAOrigin=true&bypassOrigin=true&bypassDestination=true", "?customTraceNumbers=true&allowZeroBatches=true&allowMissingFileHeader=true&allowMissingFileControl=true",
	"?bypassCompanyIdentificationMatch=true&customReturnCodes=true&unequalServiceClassCode=true&unorderedBatchNumbers=true&allowInvalidCheckDigit=true&unequalAddendaCounts=true&preserveSpaces=true&allowInvalidAmounts=true",
	"?skipAll=maybe", "?lineEnding=crlf", "?skipAll=true&skipAll=false"}

var fixedBodies = []string{"", "{}", "null", "[]", "[{}]", `"x"`, "0", `{"file":null}`, `{"file":{}}`, `{"opts":{}}`, `{"opts":null,"validateOpts":null}`, `{"validateOpts":{"skipAll":true}}`,
	`{"file":{"batches":[null]}}`, `{"file":{"batches":[{}]}}`, `{"file":{"IATBatches":[{}]}}`, `{"batches":[null]}`, `{"batchHeader":{}}`, `{"batchHeader":null,"entryDetails":[null]}`,
	`{"routingNumber":"121042882","accountNumber":"123456","accountType":"checking","description":"OFFSET"}`, `{"routingNumber":"1","accountNumber":"","accountType":"x","description":""}`,
	`{"routingNumber":"121042882","accountNumber":"123456","accountType":"savings","description":"x"}`, "{", "\xff\xfe", "101 "}

func batchIDOf(batchJSON []byte) string {
	var b struct {
		BatchHeader struct {
			ID string `json:"id"`
		} `json:"batchHeader"`
	}
	if json.Unmarshal(batchJSON, &b) == nil && b.BatchHeader.ID != "" {
		return b.BatchHeader.ID
	}
	return "b1"
}

func randBody(r *rng.R, s *seedSet) []byte {
	switch r.Intn(8) {
	case 0:
		return []byte(rng.Pick(r, fixedBodies))
	case 1:
		return rng.Pick(r, s.ach)
	case 2:
		return rng.Pick(r, s.json)
	case 3:
		return rng.Pick(r, s.batchJ)
	case 4:
		b, _ := mutateJSON(r, rng.Pick(r, s.batchJ), r.Range(1, 2))
		return b
	case 5:
		b, _ := mutateJSON(r, rng.Pick(r, s.json), r.Range(1, 2))
		return b
	case 6: // wrapper for POST /segment
		f := rng.Pick(r, s.json)
		if r.Chance(1, 3) {
			f, _ = mutateJSON(r, f, 1)
		}
		keys := [][2]string{{"file", string(f)}, {"opts", "{}"}, {"validateOpts", `{"skipAll":true}`}}
		var parts []string
		for _, kv := range keys {
			if r.Chance(3, 4) {
				parts = append(parts, fmt.Sprintf("%q:%s", kv[0], kv[1]))
			}
		}
		return []byte("{" + strings.Join(parts, ",") + "}")
	default:
		return mutateBytes(r, rng.Pick(r, s.ach))
	}
}

func genHTTP(r *rng.R, s *seedSet) Case {
	var reqs []Req
	bid := "b1"
	if r.Chance(5, 6) { // first store a file so that the {ID} routes find something
		var body []byte
		ct := "text/plain"
		if r.Bool() {
			body = rng.Pick(r, s.json)
			ct = "application/json"
			var doc struct {
				Batches []json.RawMessage `json:"batches"`
			}
			if json.Unmarshal(body, &doc) == nil && len(doc.Batches) > 0 {
				bid = batchIDOf(doc.Batches[0])
			}
		} else {
			body = rng.Pick(r, s.ach)
		}
		if r.Chance(1, 4) {
			body = randBody(r, s)
		}
		reqs = append(reqs, Req{Method: "POST", Path: "/files/f1" + rng.Pick(r, queries), CT: ct, Body: hx.Enc(string(body))})
	}
	n := r.Range(1, 3)
	for i := 0; i < n; i++ {
		rt := rng.Pick(r, routes)
		path := strings.ReplaceAll(rt.path, "{ID}", rng.Pick(r, []string{"f1", "f1", "f1", "nope", "create", "%20"}))
		path = strings.ReplaceAll(path, "{BID}", rng.Pick(r, []string{bid, bid, "nope"}))
		method := rt.method
		if r.Chance(1, 15) {
			method = rng.Pick(r, []string{"GET", "POST", "PUT", "DELETE", "PATCH", "OPTIONS", "HEAD"})
		}
		reqs = append(reqs, Req{Method: method, Path: path + rng.Pick(r, queries), CT: rng.Pick(r, contentTypes), Body: hx.Enc(string(randBody(r, s)))})
	}
	return Case{Kind: "http", Opts: -1, Reqs: reqs}
}

// ---------------------------------------------------------------- accessors

var accAlphabet = []string{"0", "7", "A", "z", " ", " ", "é", "€", "\xff", "\t"}

func genAccessor(r *rng.R) Case {
	l := r.Range(0, 48)
	var b strings.Builder
	for i := 0; i < l; i++ {
		b.WriteString(rng.Pick(r, accAlphabet))
	}
	return Case{Kind: "accessor", Acc: rng.Pick(r, accessorNames), Data: hx.Enc(b.String()), Opts: -1}
}

// ---------------------------------------------------------------- deterministic part

// leafSweep replaces every leaf of every generated valid file's JSON, one at a time, by each
// boundary value of its type (a subset in the quick tier).
func leafSweep(s *seedSet, thorough bool) []Case {
	var out []Case
	strs := []string{"", "A", "1234567", strings.Repeat("Z", 95)}
	nums := []any{json.Number("0"), json.Number("-1"), json.Number("99999999999999999999")}
	if thorough {
		strs = stringBoundary
		nums = []any{json.Number("0"), json.Number("-1"), json.Number("1"), json.Number("99"), json.Number("2147483648"), json.Number("9223372036854775807"),
			json.Number("99999999999999999999"), json.Number("-9223372036854775808"), json.Number("1.5"), nil}
	}
	for si, seed := range s.genJ {
		dec := json.NewDecoder(bytes.NewReader(seed))
		dec.UseNumber()
		var tree any
		if dec.Decode(&tree) != nil {
			continue
		}
		var leaves []leafRef
		collectLeaves(tree, "", func(n any) { tree = n }, &leaves)
		for li, l := range leaves {
			var vals []any
			switch l.old.(type) {
			case string:
				for _, v := range strs {
					vals = append(vals, v)
				}
			case json.Number:
				vals = nums
			case bool:
				vals = []any{nil}
			case []any:
				vals = []any{[]any{nil}, nil}
			case map[string]any:
				vals = []any{nil, map[string]any{}}
			default:
				continue
			}
			for vi, v := range vals {
				l.set(v)
				if b, err := json.Marshal(tree); err == nil {
					ops := [][]string{{"Validate", "Create"}, {"Write", "Reversal"}, {"FlattenBatches", "SegmentFile:c"}, {"MarshalJSON", "MergeFiles"}}[(si+li+vi)%4]
					out = append(out, Case{Kind: "json", Data: hx.Enc(string(b)), Opts: -1, Ops: ops, Note: fmt.Sprintf("sweep %s=%.12v", l.key, v)})
				}
			}
			l.set(l.old)
		}
	}
	return out
}

func deterministicCases(s *seedSet, thorough bool) []Case {
	var out []Case
	out = append(out, leafSweep(s, thorough)...)
	full := (int64(1) << uint(len(optFields))) - 1
	seqA := []string{"Validate", "Create", "Write", "MarshalJSON", "SegmentFile:c", "FlattenBatches"}
	seqB := []string{"Reversal", "MergeFiles", "BatchCreate", "SegmentFile:d", "JSONRoundTrip", "Create"}
	seqC := []string{"FlattenBatches", "Reversal", "Write", "BatchValidate", "MergeFiles", "Validate"}
	for i, a := range s.ach {
		for j, o := range []int64{-1, full} {
			ops := [][]string{seqA, seqB, seqC}[(i+j)%3]
			out = append(out, Case{Kind: "read", Data: hx.Enc(string(a)), Opts: o, Ops: ops})
		}
	}
	for i, a := range s.json {
		for j, o := range []int64{-1, full} {
			ops := [][]string{seqB, seqC, seqA}[(i+j)%3]
			out = append(out, Case{Kind: "json", Data: hx.Enc(string(a)), Opts: o, Ops: ops})
		}
	}
	// accessors on every length 0..24 (ASCII) and on multi-byte strings around each bound
	for _, acc := range accessorNames {
		for l := 0; l <= 24; l++ {
			out = append(out, Case{Kind: "accessor", Acc: acc, Data: hx.Enc(strings.Repeat("7", l)), Opts: -1})
		}
		for _, l := range []int{2, 3, 4, 5, 7, 8, 11, 21, 22, 44, 45} {
			out = append(out, Case{Kind: "accessor", Acc: acc, Data: hx.Enc(strings.Repeat("é", l)), Opts: -1})
			out = append(out, Case{Kind: "accessor", Acc: acc, Data: hx.Enc(strings.Repeat(" ", l)), Opts: -1})
		}
	}
	// every route with every fixed body under JSON and text content types, on an existing and a missing file
	var store Req
	if len(s.json) > 0 {
		store = Req{Method: "POST", Path: "/files/f1", CT: "application/json", Body: hx.Enc(string(s.json[0]))}
	}
	for _, rt := range routes {
		for bi, body := range fixedBodies {
			ct := contentTypes[1+bi%3]
			path := strings.ReplaceAll(strings.ReplaceAll(rt.path, "{ID}", "f1"), "{BID}", "b1")
			rq := Req{Method: rt.method, Path: path, CT: ct, Body: hx.Enc(body)}
			if bi%2 == 0 && store.Method != "" {
				out = append(out, Case{Kind: "http", Opts: -1, Reqs: []Req{store, rq}})
			} else {
				out = append(out, Case{Kind: "http", Opts: -1, Reqs: []Req{rq}})
			}
		}
	}
	return out
}

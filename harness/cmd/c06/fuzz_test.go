package main

import (
	"testing"

	"verifharness/internal/hx"
)

// Go native fuzz targets (thorough tier): coverage guided search over the bytes given to
// the reader and to FileFromJSON, each followed by a fixed call sequence.  Seeds: every
// fixture and generated valid file of loadSeeds().  Known findings are filtered by key.

var fuzzKnown = map[string]bool{"offset:upsert": true, "panic:ach.mergeableBatcher.Consume": true}

func fuzzOne(t *testing.T, kind string, data []byte, opts int64) {
	if len(data) > 1<<16 {
		return
	}
	c := Case{Kind: kind, Data: hx.Enc(string(data)), Opts: opts, Ops: []string{"Validate", "Create", "Write", "MarshalJSON", "SegmentFile:c", "FlattenBatches", "Reversal"}}
	o := execCase(c)
	if o.fail != nil && !fuzzKnown[o.fail.Key] {
		t.Fatalf("%s: %s\n%s", o.fail.Key, o.fail.What, o.fail.Stack)
	}
}

func FuzzRead(f *testing.F) {
	s := loadSeeds()
	for _, a := range s.ach {
		f.Add(a, int64(-1))
	}
	f.Fuzz(func(t *testing.T, data []byte, opts int64) { fuzzOne(t, "read", data, opts%(1<<18)) })
}

func FuzzJSON(f *testing.F) {
	s := loadSeeds()
	for _, a := range s.json {
		f.Add(a, int64(-1))
	}
	f.Fuzz(func(t *testing.T, data []byte, opts int64) { fuzzOne(t, "json", data, opts%(1<<18)) })
}

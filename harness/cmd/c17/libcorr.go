// C17, phase 2: correspondence of the CONCRETE interpretation (coq/Proto/ServerLib.v, extracted) with
// the code.
//
//	libcorr -out d -n N
//
// A case = a file object (parsed from a pool body, optionally given one of the validateOpts that
// File.Create reads and one small edit: batch numbers zeroed, file control made stale, batches
// dropped, trace numbers cleared, file header broken, a batch control set to nil) and one call
// of the service layer on a repository that holds that object: File.Create itself,
// GetFileContents, BuildFile, ValidateFile, GetFile, FlattenBatches, SegmentFileID, BalanceFile.
// The object is projected onto the model's view before and after (d/cases.txt, d/impl.txt); the
// extracted lcreate / lcontents / lbuild / lvalidate / lmarshal / lflatsrc / lsegsrc / lbal
// compute the view afterwards from the view before (d/model.txt).  Labels (verdicts of header
// and file validation, positions of the receiver's entries in the new batches by POINTER
// identity, which batches were handed over whole) come from an independent copy of the object
// and from the returned files.
package main

import (
	"encoding/hex"
	"encoding/json"
	"flag"
	"fmt"
	"path/filepath"
	"strconv"
	"strings"

	"github.com/moov-io/ach"
	"github.com/moov-io/ach/server"

	"verifharness/internal/hx"
	"verifharness/internal/rng"
)

func atoi0(s string) int {
	n, err := strconv.Atoi(strings.TrimSpace(s))
	if err != nil {
		return 0
	}
	return n
}

func first8(s string) int {
	if len(s) > 8 {
		s = s[:8]
	}
	return atoi0(s)
}

func lcEntry(code, amount int, off bool, trace string, addenda int, rdfi string) string {
	return fmt.Sprintf("%d:%d:%s:%d:%d:%d", code, amount, b01(off), atoi0(trace), addenda, first8(rdfi))
}

func addendaCountOf(e *ach.EntryDetail) (n int) {
	if e.Addenda02 != nil {
		n++
	}
	for _, a := range e.Addenda05 {
		if a != nil {
			n++
		}
	}
	for _, p := range []bool{e.Addenda98 != nil, e.Addenda98Refused != nil, e.Addenda99 != nil, e.Addenda99Dishonored != nil, e.Addenda99Contested != nil} {
		if p {
			n++
		}
	}
	return
}

// a nil *BatchControl is shown as the NewBatchControl() File.IsADV installs in its place
func lcCtl(c *ach.BatchControl) string {
	if c == nil {
		return "200,1,0,1,0,0"
	}
	return fmt.Sprintf("%d,%d,%d,%d,%d,%d", c.ServiceClassCode, c.BatchNumber, c.EntryAddendaCount, c.EntryHash,
		c.TotalCreditEntryDollarAmount, c.TotalDebitEntryDollarAmount)
}

func lcOffset(o *ach.Offset, sep string) string {
	if o == nil {
		return "none"
	}
	kind := "bad"
	switch o.AccountType {
	case ach.OffsetChecking:
		kind = "checking"
	case ach.OffsetSavings:
		kind = "savings"
	}
	return strings.Join([]string{b01(ach.CheckRoutingNumber(o.RoutingNumber) == nil), kind, strconv.Itoa(first8(o.RoutingNumber))}, sep)
}

func join(xs []string, sep string) string {
	if len(xs) == 0 {
		return "-"
	}
	return strings.Join(xs, sep)
}

// viewOf: the model's view of the object; ok=false when the object is outside it (nil batch header)
func viewOf(f *ach.File, id string) (string, bool) {
	var pur, bs []string
	for _, b := range f.Batches {
		h := b.GetHeader()
		if h == nil {
			return "", false
		}
		c := "0"
		if b.GetControl() != nil {
			c = "1"
		}
		pur = append(pur, "H"+hex.EncodeToString([]byte(h.StandardEntryClassCode))+":"+c)
		var es []string
		for _, e := range b.GetEntries() {
			es = append(es, lcEntry(e.TransactionCode, e.Amount, strings.EqualFold(e.IndividualName, "OFFSET"), e.TraceNumber, addendaCountOf(e), e.RDFIIdentification))
		}
		var off *ach.Offset
		if vo, ok := b.(interface{ VerifOffset() *ach.Offset }); ok {
			off = vo.VerifOffset()
		}
		bs = append(bs, strings.Join([]string{b01(h.Validate() == nil), strconv.Itoa(first8(h.ODFIIdentificationField())),
			strconv.Itoa(h.ServiceClassCode), strconv.Itoa(h.BatchNumber), lcCtl(b.GetControl()), lcOffset(off, "."), join(es, ";")}, "~"))
	}
	for i := range f.IATBatches {
		b := &f.IATBatches[i]
		if b.Header == nil || b.Control == nil {
			return "", false
		}
		var es []string
		for _, e := range b.Entries {
			es = append(es, lcEntry(e.TransactionCode, e.Amount, false, e.TraceNumber, e.AddendaRecords, e.RDFIIdentification))
		}
		bs = append(bs, strings.Join([]string{b01(b.Header.Validate() == nil), strconv.Itoa(first8(b.Header.ODFIIdentificationField())),
			strconv.Itoa(b.Header.ServiceClassCode), strconv.Itoa(b.Header.BatchNumber), lcCtl(b.Control), "none", join(es, ";")}, "~"))
	}
	o := f.GetValidation()
	if o == nil {
		o = &ach.ValidateOpts{}
	}
	c := &f.Control
	return strings.Join([]string{id, b01(o.SkipAll) + b01(o.AllowMissingFileHeader) + b01(o.AllowZeroBatches), b01(f.Header.Validate() == nil),
		fmt.Sprintf("%d,%d,%d,%d,%d,%d", c.BatchCount, c.BlockCount, c.EntryAddendaCount, c.EntryHash, c.TotalDebitEntryDollarAmountInFile, c.TotalCreditEntryDollarAmountInFile),
		join(pur, ","), join(bs, "|")}, "/"), true
}

type lcCase struct {
	f    string // T | J
	body int
	opts int // index into lcOpts
	edit int
	op   string
	arg  int
}

var lcOpts = []func() *ach.ValidateOpts{
	func() *ach.ValidateOpts { return nil },
	func() *ach.ValidateOpts { return &ach.ValidateOpts{SkipAll: true} },
	func() *ach.ValidateOpts { return &ach.ValidateOpts{AllowMissingFileHeader: true} },
	func() *ach.ValidateOpts { return &ach.ValidateOpts{AllowZeroBatches: true} },
	func() *ach.ValidateOpts {
		return &ach.ValidateOpts{AllowMissingFileHeader: true, AllowZeroBatches: true}
	},
	func() *ach.ValidateOpts { return &ach.ValidateOpts{} },
}

var lcOps = []string{"create", "contents", "build", "validate", "get", "flatten", "segment", "balance"}

const nEdits = 8

// object builds the case's file object; every call gives a fresh, identical object
func (c lcCase) object(p *pools) (f *ach.File) {
	defer func() {
		if r := recover(); r != nil {
			f = nil
		}
	}()
	if c.f == "T" {
		g, _ := ach.NewReader(strings.NewReader(p.text[c.body])).Read()
		f = &g
	} else {
		f, _ = ach.FileFromJSON([]byte(p.jsonB[c.body]))
	}
	if f == nil {
		return nil
	}
	f.ID = "c1"
	if o := lcOpts[c.opts](); o != nil {
		f.SetValidation(o)
	}
	hdrs := func(k func(i int, h *ach.BatchHeader, c *ach.BatchControl)) {
		for i, b := range f.Batches {
			if b.GetHeader() != nil {
				k(i, b.GetHeader(), b.GetControl())
			}
		}
	}
	switch c.edit {
	case 1: // batch numbers not yet assigned
		hdrs(func(i int, h *ach.BatchHeader, c *ach.BatchControl) {
			h.BatchNumber = 0
			if c != nil {
				c.BatchNumber = 0
			}
		})
		for i := range f.IATBatches {
			if f.IATBatches[i].Header != nil && f.IATBatches[i].Control != nil {
				f.IATBatches[i].Header.BatchNumber, f.IATBatches[i].Control.BatchNumber = 0, 0
			}
		}
	case 2: // stale file control
		f.Control.BatchCount += 1
		f.Control.EntryAddendaCount += 3
		f.Control.TotalCreditEntryDollarAmountInFile += 5
	case 3: // no batches
		f.Batches, f.IATBatches = nil, nil
	case 4: // trace numbers not yet assigned
		for _, b := range f.Batches {
			for j, e := range b.GetEntries() {
				if j%2 == 0 {
					e.TraceNumber = ""
				}
			}
		}
		for i := range f.IATBatches {
			for _, e := range f.IATBatches[i].Entries {
				e.TraceNumber = ""
			}
		}
	case 5: // file header does not validate
		f.Header.ImmediateOrigin = ""
	case 6: // one batch without a control record
		if len(f.Batches) > 0 && f.Batches[len(f.Batches)-1].GetHeader() != nil {
			f.Batches[len(f.Batches)-1].SetControl(nil)
		}
	case 7: // batch numbers provided out of order, one of them 1
		hdrs(func(i int, h *ach.BatchHeader, c *ach.BatchControl) {
			h.BatchNumber = 7 - 3*i
			if c != nil {
				c.BatchNumber = 7 - 3*i
			}
		})
	}
	return f
}

func bits(o *ach.ValidateOpts, hdrOk, ok bool) string {
	if o == nil {
		o = &ach.ValidateOpts{}
	}
	return b01(o.SkipAll) + b01(o.AllowMissingFileHeader) + b01(hdrOk) + b01(ok)
}

type entryRef struct{ i, j int }

// index of the receiver's entries and batches by pointer
func indexObject(f *ach.File) (ents map[interface{}]entryRef, bats map[interface{}]int, counts []int) {
	ents, bats = map[interface{}]entryRef{}, map[interface{}]int{}
	for i, b := range f.Batches {
		bats[b] = i
		for j, e := range b.GetEntries() {
			ents[e] = entryRef{i, j}
		}
		counts = append(counts, len(b.GetEntries()))
	}
	n := len(f.Batches)
	for i := range f.IATBatches {
		bats[f.IATBatches[i].Header] = n + i
		for j, e := range f.IATBatches[i].Entries {
			ents[e] = entryRef{n + i, j}
		}
		counts = append(counts, len(f.IATBatches[i].Entries))
	}
	return
}

type touchLab struct {
	reset bool
	sel   []bool
	pos   []int
}

func touchString(t map[int]*touchLab) string {
	var items []string
	for i := 0; i < 1000 && len(items) < len(t); i++ {
		l, ok := t[i]
		if !ok {
			continue
		}
		var es []string
		for j := range l.sel {
			es = append(es, b01(l.sel[j])+"."+strconv.Itoa(l.pos[j]))
		}
		items = append(items, fmt.Sprintf("%d:%s:%s", i, b01(l.reset), join(es, ",")))
	}
	return strings.Join(items, "+")
}

// labelsFrom reads, from the files a successful flatten / segment returned, where the receiver's
// entries sit in the new batches (position = seq of Batch.build) and which batches were handed over whole
func labelsFrom(f *ach.File, halves []*ach.File, t map[int]*touchLab, counts []int) (share, in string) {
	ents, bats, _ := indexObject(f)
	get := func(i int) *touchLab {
		if t[i] == nil {
			t[i] = &touchLab{sel: make([]bool, counts[i]), pos: make([]int, counts[i])}
		}
		return t[i]
	}
	var hs, ins []string
	for hi, h := range halves {
		if h == nil {
			continue
		}
		contrib := map[int]bool{}
		visit := func(key interface{}, n int, at func(k int) interface{}) {
			if i, whole := bats[key]; whole {
				hs = append(hs, fmt.Sprintf("%d:%s", i, b01(hi == 0)))
				contrib[i] = true
				return
			}
			for k := 0; k < n; k++ {
				if r, ok := ents[at(k)]; ok {
					l := get(r.i)
					l.sel[r.j], l.pos[r.j] = true, k+1
					contrib[r.i] = true
				}
			}
		}
		for _, b := range h.Batches {
			es := b.GetEntries()
			visit(b, len(es), func(k int) interface{} { return es[k] })
		}
		for i := range h.IATBatches {
			es := h.IATBatches[i].Entries
			visit(h.IATBatches[i].Header, len(es), func(k int) interface{} { return es[k] })
		}
		var l []string
		for i := 0; i < len(counts); i++ {
			if contrib[i] {
				l = append(l, strconv.Itoa(i))
			}
		}
		if len(l) > 0 {
			ins = append(ins, b01(hi == 0)+":"+strings.Join(l, ","))
		}
	}
	return strings.Join(hs, "+"), strings.Join(ins, "+")
}

// observedTouch: the call failed and returned no files — the labels say which trace numbers were
// seen to change (selection and position are then not independent of the observation)
func observedTouch(before, after [][]string, t map[int]*touchLab) {
	for i := range before {
		if i >= len(after) || len(before[i]) != len(after[i]) {
			continue
		}
		for j := range before[i] {
			if before[i][j] != after[i][j] {
				if t[i] == nil {
					t[i] = &touchLab{sel: make([]bool, len(before[i])), pos: make([]int, len(before[i]))}
				}
				t[i].sel[j], t[i].pos[j] = true, atoi0(after[i][j])%10000000
			}
		}
	}
}

func tracesOf(f *ach.File) (out [][]string) {
	for _, b := range f.Batches {
		var l []string
		for _, e := range b.GetEntries() {
			l = append(l, e.TraceNumber)
		}
		out = append(out, l)
	}
	for i := range f.IATBatches {
		var l []string
		for _, e := range f.IATBatches[i].Entries {
			l = append(l, e.TraceNumber)
		}
		out = append(out, l)
	}
	return
}

func safe(k func()) (panicked bool) {
	defer func() {
		if r := recover(); r != nil {
			panicked = true
		}
	}()
	k()
	return
}

// run performs the case; returns the case line, the implementation's line and a class for the evidence
func (c lcCase) run(p *pools) (caseLine, implLine, class string) {
	a := c.object(p)
	b := c.object(p) // independent copy for the labels
	if a == nil || b == nil {
		return "", "", ""
	}
	before, ok := viewOf(a, "c1")
	if !ok {
		return "", "", ""
	}
	repo := server.NewRepositoryInMemory(0, nil)
	if err := repo.StoreFile(a); err != nil {
		return "", "", ""
	}
	svc := server.NewService(repo)
	labels := map[string]string{}
	arg := "-"
	status := "-"
	// verdicts on the copy, after the Create the service runs first
	var bCreateErr error
	createdCopy := func() bool {
		if safe(func() { bCreateErr = b.Create() }) {
			return false
		}
		return bCreateErr == nil
	}
	fileBits := func(o *ach.ValidateOpts, own bool) string {
		var hdrOk, vok bool
		safe(func() {
			oo := o
			if oo == nil {
				oo = &ach.ValidateOpts{}
			}
			hdrOk = b.Header.ValidateWith(oo) == nil
			if own {
				vok = b.Validate() == nil
			} else {
				vok = b.ValidateWith(o) == nil
			}
		})
		return bits(o, hdrOk, vok)
	}
	touches := map[int]*touchLab{}
	_, _, counts := indexObject(a)
	tr0 := tracesOf(a)
	panicked := false
	switch c.op {
	case "create":
		var err error
		panicked = safe(func() { err = a.Create() })
		switch {
		case panicked:
			status = "panic"
		case err != nil:
			status = "err"
		default:
			status = "ok"
		}
		class = "create-" + status
	case "contents":
		if createdCopy() {
			labels["wf"] = fileBits(b.GetValidation(), true)
		}
		var err error
		panicked = safe(func() { _, err = svc.GetFileContents("c1", nil) })
		class = "contents-" + b01(err == nil)
	case "build":
		var err error
		panicked = safe(func() { _, err = svc.BuildFile("c1") })
		class = "build-" + b01(err == nil)
	case "validate":
		o := optsOf(c.arg)
		labels["vf"] = fileBits(o, false)
		var err error
		panicked = safe(func() { err = svc.ValidateFile("c1", o) })
		class = fmt.Sprintf("validate-%d-%s", c.arg, b01(err == nil))
	case "get":
		panicked = safe(func() {
			g, _ := svc.GetFile("c1")
			json.Marshal(g)
		})
		class = "get"
	case "flatten":
		var ff *ach.File
		var err error
		panicked = safe(func() { ff, err = svc.FlattenBatches("c1") })
		if err == nil && ff != nil {
			labelsFrom(a, []*ach.File{ff}, touches, counts)
			class = "flatten-ok"
		} else {
			observedTouch(tr0, tracesOf(a), touches)
			class = "flatten-err"
		}
	case "segment":
		svOK := false
		if createdCopy() {
			labels["sv"] = fileBits(b.GetValidation(), true)
			svOK = labels["sv"][3] == '1'
		}
		var cf, df *ach.File
		var err error
		panicked = safe(func() { cf, df, err = svc.SegmentFileID("c1", nil) })
		if svOK {
			n := len(a.Batches)
			for i := range a.IATBatches {
				if a.IATBatches[i].Header != nil && a.IATBatches[i].Header.ServiceClassCode == ach.MixedDebitsAndCredits {
					touches[n+i] = &touchLab{reset: true, sel: make([]bool, counts[n+i]), pos: make([]int, counts[n+i])}
				}
			}
		}
		if err == nil && cf != nil && df != nil {
			h, in := labelsFrom(a, []*ach.File{cf, df}, touches, counts)
			if h != "" {
				labels["H"] = h
			}
			if in != "" {
				labels["IN"] = in
			}
			class = "segment-ok"
		} else {
			// a failing segment after the split: which entries the halves' Create reached is read off the object
			t1 := tracesOf(a)
			for i, l := range touches {
				if l.reset && i < len(tr0) {
					for j := range tr0[i] {
						tr0[i][j] = ""
					}
				}
			}
			observedTouch(tr0, t1, touches)
			class = "segment-err"
		}
	case "balance":
		off := &ach.Offset{}
		json.Unmarshal([]byte(p.offsets[c.arg%len(p.offsets)]), off)
		if c.arg >= len(p.offsets) {
			off.AccountType = "loan"
		}
		arg = lcOffset(off, ":")
		if createdCopy() {
			bv := ""
			for i := range b.Batches {
				okv := false
				built := false
				safe(func() {
					b.Batches[i].WithOffset(off)
					if vb, ok := b.Batches[i].(interface{ VerifBuild() error }); ok {
						built = vb.VerifBuild() == nil
					}
					if built {
						okv = b.Batches[i].Validate() == nil
					}
				})
				bv += b01(okv)
				if !built || !okv {
					break
				}
			}
			labels["BV"] = bv
		}
		var err error
		panicked = safe(func() { _, err = svc.BalanceFile("c1", off) })
		class = "balance-" + b01(err == nil)
	}
	if ts := touchString(touches); ts != "" {
		labels["T"] = ts
	}
	if panicked && c.op != "create" {
		return "", "", c.op + "-panic" // the oracle's business
	}
	after, ok := viewOf(a, "c1")
	if !ok {
		return "", "", ""
	}
	if c.op == "balance" {
		// the new ID is random: the model is given g0
		if i := strings.Index(after, "/"); i >= 0 && a.ID != "c1" {
			after = "g0" + after[i:]
		}
	}
	var kv []string
	for _, k := range []string{"wf", "vf", "sv", "T", "H", "IN", "BV"} {
		if v, ok := labels[k]; ok {
			kv = append(kv, k+"="+v)
		}
	}
	return fmt.Sprintf("%s %s %s %s", c.op, arg, before, join(kv, "&")), status + " " + after, class
}

// balance is modelled with Batch.build of C05: standard batches only, no batch level validateOpts
func balanceInView(f *ach.File) bool {
	if len(f.IATBatches) > 0 {
		return false
	}
	for _, b := range f.Batches {
		h := b.GetHeader()
		if h == nil || h.StandardEntryClassCode == ach.ADV || b.GetControl() == nil {
			return false
		}
		for _, e := range b.GetEntries() {
			if _, err := strconv.Atoi(e.TraceNumberField()); err != nil {
				return false
			}
		}
	}
	return true
}

func libCorr(args []string) {
	fs := flag.NewFlagSet("libcorr", flag.ExitOnError)
	out := fs.String("out", "", "output directory")
	n := fs.Int("n", 2000, "cases")
	fs.Parse(args)
	p := loadPools()
	tv, jv := classifyPools(p)
	r := rng.FromEnv(1718)
	cases := hx.Create(filepath.Join(*out, "libcases.txt"))
	impl := hx.Create(filepath.Join(*out, "libimpl.txt"))
	dist := map[string]int{}
	lines := 0
	emit := func(c lcCase) {
		// a body that carries BypassOriginValidation / CustomTraceNumbers itself (the needs-opts JSON bodies)
		// keeps its trace numbers in Batch.build; the option-free C05 view of ServerLib renumbers them:
		// such stored objects are the subject of the optsdom oracle (lib/optsdom.py), not of this view
		if f := c.object(p); f != nil {
			keeps := func(o *ach.ValidateOpts) bool { return o != nil && (o.BypassOriginValidation || o.CustomTraceNumbers) }
			k := keeps(f.GetValidation())
			for _, b := range f.Batches {
				k = k || keeps(ach.VerifBatchValidation(b))
			}
			if k {
				dist["skipped:body-carries-trace-keeping-options"]++
				return
			}
		}
		if c.op == "balance" {
			if f := c.object(p); f == nil || !balanceInView(f) || c.opts == 1 {
				dist["skipped:balance-outside-the-C05-view"]++
				return
			}
		}
		cl, il, class := c.run(p)
		if cl == "" {
			if class == "" {
				class = "outside-view"
			}
			dist["skipped:"+class]++
			return
		}
		cases.Printf("%s\n", cl)
		impl.Printf("%s\n", il)
		dist[class]++
		lines++
	}
	// sweep: every readable text body with every op, unedited; then random cases
	for _, b := range tv {
		for _, op := range lcOps {
			emit(lcCase{f: "T", body: b, op: op})
		}
	}
	for i := 0; i < *n; i++ {
		c := lcCase{op: rng.Pick(r, lcOps), arg: r.Intn(len(optQueries))}
		if r.Chance(2, 3) {
			c.f, c.body = "T", rng.Pick(r, tv)
		} else {
			c.f, c.body = "J", rng.Pick(r, jv)
		}
		if r.Chance(1, 3) {
			c.opts = r.Intn(len(lcOpts))
		}
		if r.Chance(1, 2) {
			c.edit = r.Intn(nEdits)
		}
		if c.op == "balance" {
			c.arg = r.Intn(len(p.offsets) + 1)
		}
		emit(c)
	}
	cases.Close()
	impl.Close()
	b, _ := json.Marshal(map[string]interface{}{"cases": lines, "distribution": dist})
	sum := hx.Create(filepath.Join(*out, "libcorr.json"))
	sum.Printf("%s\n", b)
	sum.Close()
	fmt.Printf("libcorr: %d cases\n", lines)
}

package main

import (
	"fmt"
	"io"
	"net/http"
	"net/http/httptest"
	"os"
	"path/filepath"
	"strings"

	"github.com/moov-io/ach/server"
	kitlog "github.com/go-kit/log"
)

func do(h http.Handler, method, path, ctype, body string, hdr map[string]string) (int, string) {
	req := httptest.NewRequest(method, path, strings.NewReader(body))
	if ctype != "" {
		req.Header.Set("Content-Type", ctype)
	}
	for k, v := range hdr {
		req.Header.Set(k, v)
	}
	w := httptest.NewRecorder()
	h.ServeHTTP(w, req)
	b, _ := io.ReadAll(w.Result().Body)
	return w.Code, string(b)
}

func main() {
	repo := server.NewRepositoryInMemory(0, nil)
	svc := server.NewService(repo)
	h := server.MakeHTTPHandler(svc, repo, kitlog.NewNopLogger())
	root := os.Getenv("VERIF_REPO")
	bs, _ := os.ReadFile(filepath.Join(root, "test/testdata/ppd-debit.ach"))
	show := func(m, p, ct, b string, hd map[string]string) {
		c, r := do(h, m, p, ct, b, hd)
		if len(r) > 300 {
			r = r[:300] + "..."
		}
		fmt.Printf("%s %s -> %d %s\n", m, p, c, r)
	}
	show("POST", "/files/create", "text/plain", string(bs), nil)
	show("POST", "/files/A", "text/plain", string(bs), nil)
	show("POST", "/files/A", "text/plain", string(bs), nil)
	show("GET", "/files/A", "", "", nil)
	show("GET", "/files/A/contents", "", "", nil)
	show("GET", "/files/A/contents", "", "", map[string]string{"X-Line-Ending": "CRLF"})
	show("GET", "/files/Z/contents", "", "", nil)
	show("GET", "/files/Z", "", "", nil)
	show("GET", "/files/Z/validate", "", "", nil)
	show("GET", "/files/Z/build", "", "", nil)
	show("GET", "/files/A/validate", "", "", nil)
	show("GET", "/files/A/build", "", "", nil)
	show("POST", "/files/A/flatten", "", "", nil)
	show("POST", "/files/Z/flatten", "", "", nil)
	show("POST", "/files/A/segment", "", "", nil)
	show("POST", "/files/Z/segment", "", "", nil)
	show("GET", "/files/A/batches", "", "", nil)
	show("GET", "/files/Z/batches", "", "", nil)
	show("GET", "/files/A/batches/xx", "", "", nil)
	show("DELETE", "/files/A/batches/xx", "", "", nil)
	show("DELETE", "/files/Z/batches/xx", "", "", nil)
	show("POST", "/files/A/balance", "application/json", `{"routingNumber":"987654320","accountNumber":"123","accountType":"checking","description":"OFFSET"}`, nil)
	show("GET", "/files/A", "", "", nil)
	show("GET", "/files", "", "", nil)
	show("DELETE", "/files/A", "", "", nil)
	show("DELETE", "/files/A", "", "", nil)
	show("GET", "/files/A", "", "", nil)
	show("POST", "/files/B", "text/plain", "garbage", nil)
	show("GET", "/files/B", "", "", nil)
	show("POST", "/files/C", "application/json", "{garbage", nil)
	show("GET", "/files/C", "", "", nil)
	show("GET", "/files/C/contents", "", "", nil)
}

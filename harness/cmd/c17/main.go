// Command c17: correspondence cases, term evaluation and direct oracle for property C17
// (the HTTP server is a faithful store: what goes in comes out).
//
//	corr   -out d -n N     random request histories through the real server.MakeHTTPHandler;
//	                       writes d/cases.txt (labelled requests) and d/raw.txt (status, projected body)
//	eval   -out d          reads d/cases.txt, d/model.txt (responses of the extracted Coq machine, as
//	                       terms over library calls), evaluates every term with the real library on
//	                       independently parsed copies; writes d/expect.txt and d/impl.txt
//	oracle -out d -n N     the property evaluated directly: real server against an ideal map whose
//	                       entries are replayed with the library on independent copies
//	replay file            re-runs one recorded history in oracle mode
package main

import (
	"bytes"
	"crypto/sha256"
	"encoding/hex"
	"encoding/json"
	"flag"
	"fmt"
	"io"
	"net/http"
	"net/http/httptest"
	"os"
	"path/filepath"
	"reflect"
	"regexp"
	"sort"
	"strconv"
	"strings"
	"time"

	kitlog "github.com/go-kit/log"
	"github.com/moov-io/ach"
	"github.com/moov-io/ach/server"

	"verifharness/internal/gen"
	"verifharness/internal/hx"
	"verifharness/internal/rng"
)

func main() {
	if len(os.Args) < 2 {
		fmt.Fprintln(os.Stderr, "usage: c17 corr|eval|oracle|replay ...")
		os.Exit(2)
	}
	switch os.Args[1] {
	case "corr":
		corr(os.Args[2:])
	case "eval":
		evalMode(os.Args[2:])
	case "oracle":
		oracle(os.Args[2:])
	case "replay":
		replay(os.Args[2:])
	case "lib":
		libMode(os.Args[2:])
	case "libcorr":
		libCorr(os.Args[2:])
	case "share":
		shareMode(os.Args[2:])
	case "pools":
		p := loadPools()
		for i, n := range p.textN {
			fmt.Printf("T %d %s\n", i, n)
		}
		for i, n := range p.jsonN {
			fmt.Printf("J %d %s\n", i, n)
		}
		for i, n := range p.batches {
			fmt.Printf("B %d %.80s\n", i, n)
		}
	default:
		fmt.Fprintln(os.Stderr, "unknown mode")
		os.Exit(2)
	}
}

// ---------------------------------------------------------------- pools (stable: sorted file names)

type pools struct {
	text    []string // NACHA text bodies
	textN   []string
	jsonB   []string // JSON file bodies (index = base*4 + id variant)
	jsonN   []string
	batches []string // JSON batch bodies; batch i carries id "b<i>"
	offsets []string
}

var optQueries = []string{
	"",
	"bypassOriginValidation=true&bypassDestinationValidation=true",
	"allowZeroBatches=true",
	"customTraceNumbers=true&allowInvalidCheckDigit=true",
	"skipAll=true",
	"allowMissingFileHeader=true&allowMissingFileControl=true",
}

func optsOf(o int) *ach.ValidateOpts { return optsOver(&ach.ValidateOpts{}, o) }

// createOpts: the create route reads ValidateOpts from the body as JSON first, then from the query
func createOpts(body string, o int) *ach.ValidateOpts {
	v := &ach.ValidateOpts{}
	json.Unmarshal([]byte(body), v)
	return optsOver(v, o)
}

func optsOver(v *ach.ValidateOpts, o int) *ach.ValidateOpts {
	switch o {
	case 1:
		v.BypassOriginValidation, v.BypassDestinationValidation = true, true
	case 2:
		v.AllowZeroBatches = true
	case 3:
		v.CustomTraceNumbers, v.AllowInvalidCheckDigit = true, true
	case 4:
		v.SkipAll = true
	case 5:
		v.AllowMissingFileHeader, v.AllowMissingFileControl = true, true
	}
	return v
}

func optsJSON(o int) string {
	b, _ := json.Marshal(optsOf(o))
	return string(b)
}

func repoRoot() string {
	r := os.Getenv("VERIF_REPO")
	if r == "" {
		r = "/repo"
	}
	return r
}

func loadPools() *pools {
	p := &pools{}
	var needsOptsJSON, needsOptsNames []string
	root := repoRoot()
	var tfiles []string
	a, _ := filepath.Glob(filepath.Join(root, "test/testdata/*.ach"))
	b, _ := filepath.Glob(filepath.Join(root, "test/ach-*-read/*.ach"))
	tfiles = append(append(tfiles, a...), b...)
	sort.Strings(tfiles)
	p.text = append(p.text, "garbage that is no ACH file\n")
	p.textN = append(p.textN, "garbage")
	for _, f := range tfiles {
		bs, err := os.ReadFile(f)
		if err != nil || len(bs) > 40000 {
			continue
		}
		p.text = append(p.text, string(bs))
		p.textN = append(p.textN, filepath.Base(f))
	}
	// generated valid files: every SEC code, then mixed files with IAT / returns / NOC / addenda
	// (fixed generator seed: pool indices must not depend on VERIF_SEED)
	func() {
		defer func() { recover() }()
		gr := rng.New(0xC17)
		add := func(name string, f *ach.File) {
			if f == nil {
				return
			}
			if t, err := gen.Text(f, false); err == nil && len(t) < 40000 {
				p.text = append(p.text, t)
				p.textN = append(p.textN, name)
			}
		}
		for _, sec := range gen.AllSECs() {
			add("gen-"+sec, gen.FileOfSEC(gr, sec, gen.Opts{MaxBatches: 2, MaxEntries: 3}))
		}
		for i := 0; i < 8; i++ {
			add(fmt.Sprintf("gen-mixed-%d", i), gen.File(gr, gen.Opts{MinBatches: 2, MaxBatches: 4, IAT: true, Returns: i%2 == 0, NOC: i%3 == 0, Addenda: true}))
		}
		// files valid only under the options stored on them (gen.NeedsOpts), for the flag sets of
		// optQueries: as text they are accepted by the create route with the matching query only, as
		// JSON (appended to the JSON bodies below) they carry their own validateOpts member
		for _, name := range []string{"bypass-origin", "bypass-destination", "custom-trace-numbers", "invalid-check-digit",
			"allow-zero-batches", "bypass-origin-traces", "custom-trace-numbers", "bypass-destination"} {
			// standard forward batches of SEC codes without Addenda02: the C05 view of the library oracle
			// (storelib) models the trace number an entry gets from Batch.build, not its copy in Addenda02
			base := gen.File(gr, gen.Opts{SECs: []string{ach.PPD, ach.CCD, ach.WEB, ach.CTX, ach.TEL, ach.CIE}, ForwardOnly: true, Addenda: true, MinBatches: 1, MaxBatches: 3, MaxEntries: 3})
			g := gen.NeedsOptsVariant(gr, base, gen.OptVariantByName(name))
			if g == nil {
				continue
			}
			add("needs-opts-"+name, g)
			if bs, err := json.Marshal(g); err == nil && len(bs) < 60000 {
				needsOptsJSON = append(needsOptsJSON, string(bs))
				needsOptsNames = append(needsOptsNames, "needs-opts-"+name+".json")
			}
		}
	}()
	// JSON bodies: fixtures, plus the JSON form of every text fixture the reader accepts
	var bases, names []string
	bases = append(bases, "{garbage")
	names = append(names, "garbage")
	js, _ := filepath.Glob(filepath.Join(root, "test/testdata/*.json"))
	sort.Strings(js)
	for _, f := range js {
		bs, err := os.ReadFile(f)
		if err != nil || !json.Valid(bs) {
			continue
		}
		bases = append(bases, string(bs))
		names = append(names, filepath.Base(f))
	}
	for i, t := range p.text {
		func() {
			defer func() { recover() }()
			f, err := ach.NewReader(strings.NewReader(t)).Read()
			if err != nil {
				return
			}
			bs, err := json.Marshal(&f)
			if err != nil {
				return
			}
			bases = append(bases, string(bs))
			names = append(names, p.textN[i]+".json")
		}()
	}
	bases = append(bases, needsOptsJSON...)
	names = append(names, needsOptsNames...)
	for i, bs := range bases {
		for v := 0; v < 4; v++ {
			p.jsonB = append(p.jsonB, setTopID(bs, v))
			p.jsonN = append(p.jsonN, fmt.Sprintf("%s#%d", names[i], v))
		}
	}
	// batch bodies taken from the JSON files
	n := 0
	for _, bs := range bases {
		var top map[string]json.RawMessage
		if json.Unmarshal([]byte(bs), &top) != nil {
			continue
		}
		var arr []map[string]interface{}
		if json.Unmarshal(top["batches"], &arr) != nil {
			continue
		}
		for _, b := range arr {
			if n >= 24 {
				break
			}
			bh, ok := b["batchHeader"].(map[string]interface{})
			if !ok {
				continue
			}
			bh["id"] = fmt.Sprintf("b%d", len(p.batches))
			out, _ := json.Marshal(b)
			p.batches = append(p.batches, string(out))
			n++
		}
	}
	// the same batch content under a second ID (a client posting a batch twice): equal header and entries, two batches
	for i := 0; i < 4 && i < n; i++ {
		var b map[string]interface{}
		if json.Unmarshal([]byte(p.batches[i]), &b) != nil {
			continue
		}
		if bh, ok := b["batchHeader"].(map[string]interface{}); ok {
			bh["id"] = fmt.Sprintf("b%d", len(p.batches))
			out, _ := json.Marshal(b)
			p.batches = append(p.batches, string(out))
		}
	}
	p.batches = append(p.batches, `{"batchHeader":{"id":"b`+strconv.Itoa(len(p.batches))+`"}}`) // decodes to nothing valid
	p.batches = append(p.batches, `{nonsense`)
	thePools = p
	p.offsets = []string{
		`{"routingNumber":"987654320","accountNumber":"123456","accountType":"checking","description":"OFFSET"}`,
		`{"routingNumber":"121042882","accountNumber":"99","accountType":"savings","description":"OFF"}`,
	}
	return p
}

// setTopID rewrites the top-level "id" of a JSON file body: variant 0 = "", v = "c<v>"
func setTopID(bs string, v int) string {
	var top map[string]json.RawMessage
	if json.Unmarshal([]byte(bs), &top) != nil {
		return bs
	}
	id := ""
	if v > 0 {
		id = fmt.Sprintf("c%d", v)
	}
	top["id"], _ = json.Marshal(id)
	keys := make([]string, 0, len(top))
	for k := range top {
		keys = append(keys, k)
	}
	sort.Strings(keys)
	var b bytes.Buffer
	b.WriteString("{")
	for i, k := range keys {
		if i > 0 {
			b.WriteString(",")
		}
		kb, _ := json.Marshal(k)
		b.Write(kb)
		b.WriteString(":")
		b.Write(top[k])
	}
	b.WriteString("}")
	return b.String()
}

// ---------------------------------------------------------------- s-expressions (terms, payloads)

type node struct {
	atom string
	kids []*node
}

func A(s string) *node             { return &node{atom: s} }
func L(h string, k ...*node) *node { return &node{kids: append([]*node{A(h)}, k...)} }
func (n *node) head() string {
	if len(n.kids) > 0 {
		return n.kids[0].atom
	}
	return n.atom
}
func (n *node) arg(i int) *node { return n.kids[i+1] }
func (n *node) String() string {
	if n.kids == nil {
		return n.atom
	}
	s := make([]string, len(n.kids))
	for i, k := range n.kids {
		s[i] = k.String()
	}
	return "(" + strings.Join(s, " ") + ")"
}

func parseSexp(s string) *node {
	toks := strings.Fields(strings.NewReplacer("(", " ( ", ")", " ) ").Replace(s))
	pos := 0
	var rec func() *node
	rec = func() *node {
		if pos >= len(toks) {
			panic("sexp: eof")
		}
		t := toks[pos]
		pos++
		if t != "(" {
			return A(t)
		}
		n := &node{kids: []*node{}}
		for pos < len(toks) && toks[pos] != ")" {
			n.kids = append(n.kids, rec())
		}
		pos++
		return n
	}
	return rec()
}

func atoi(s string) int { n, _ := strconv.Atoi(s); return n }

// ---------------------------------------------------------------- evaluation of terms with the library

const batchShim = `{"fileHeader": {
  "immediateOriginName": "Test Sender",
  "immediateDestinationName": "Test Dest",
  "fileIDModifier": "1",
  "fileCreationTime": "0437",
  "fileCreationDate": "200217",
  "immediateOrigin": "123456780",
  "immediateDestination": "987654320",
  "id": ""
}, "batches":[%v] }`

// decodeBatch is what the add-batch route requires of a body before it reaches the store
func decodeBatch(body string) (b ach.Batcher, ok bool) {
	defer func() {
		if recover() != nil {
			b, ok = nil, false
		}
	}()
	file, err := ach.FileFromJSON([]byte(fmt.Sprintf(batchShim, body)))
	if err != nil || file == nil || len(file.Batches) != 1 {
		return nil, false
	}
	if file.Batches[0].Validate() != nil {
		return nil, false
	}
	return file.Batches[0], true
}

type evalCtx struct {
	p   *pools
	ren map[string]string // random ID of this evaluation -> symbolic name
}

type val struct {
	f        *ach.File
	parseErr error
	bad      string // the term has no value (a derived file whose derivation failed)
}

func (e *evalCtx) eval(t *node) (v val) {
	defer func() {
		if r := recover(); r != nil {
			v = val{bad: fmt.Sprintf("panic: %v", r)}
		}
	}()
	switch t.head() {
	case "Parsed":
		b, o := atoi(t.arg(1).atom), atoi(t.arg(2).atom)
		if t.arg(0).atom == "T" {
			if b >= len(e.p.text) {
				return val{bad: "body index"}
			}
			opts := createOpts(e.p.text[b], o)
			r := ach.NewReader(strings.NewReader(e.p.text[b]))
			r.SetValidation(opts)
			f, err := r.Read()
			f.SetValidation(opts)
			return val{f: &f, parseErr: err}
		}
		if b >= len(e.p.jsonB) {
			return val{bad: "body index"}
		}
		opts := createOpts(e.p.jsonB[b], o)
		// decodeCreateFileRequest (since bf7be12b): without a flag in the query or at the top level of
		// the body the validateOpts member of the File document applies and is what gets stored
		use := opts
		if reflect.DeepEqual(*opts, ach.ValidateOpts{}) {
			use = nil
		}
		f, err := ach.FileFromJSONWith([]byte(e.p.jsonB[b]), use)
		if f == nil {
			f = ach.NewFile()
		}
		if use == nil && f.GetValidation() != nil {
			opts = f.GetValidation()
		}
		f.SetValidation(opts)
		return val{f: f, parseErr: err}
	case "ParsedBody":
		b := atoi(t.arg(1).atom)
		if t.arg(0).atom == "T" {
			f, err := ach.NewReader(strings.NewReader(e.p.text[b])).Read()
			if err != nil {
				return val{bad: "segment body does not parse"}
			}
			return val{f: &f}
		}
		f, err := ach.FileFromJSONWith([]byte(e.p.jsonB[b]), nil)
		if err != nil || f == nil {
			return val{bad: "segment body does not parse"}
		}
		return val{f: f}
	}
	v = e.eval(t.arg(0))
	if v.bad != "" {
		return v
	}
	f := v.f
	switch t.head() {
	case "WithID":
		f.ID = t.arg(1).atom
	case "Created":
		_ = f.Create()
	case "FlatSrc": // body of service.FlattenBatches with f as receiver, result dropped
		if f.Create() == nil {
			f.FlattenBatches()
		}
	case "SegSrc": // body of service.SegmentFile
		if f.Create() == nil {
			f.SegmentFile(nil)
		}
	case "WithBatch":
		b, ok := decodeBatch(e.p.batches[atoi(t.arg(1).atom)])
		if !ok {
			return val{bad: "batch body does not decode"}
		}
		// service.CreateBatch
		if b.GetHeader().ID == "" {
			return val{bad: "batch without id"}
		}
		b.SetID(b.GetHeader().ID)
		b.GetControl().ID = b.GetHeader().ID
		f.AddBatch(b)
	case "WithoutBatch":
		k := "b" + t.arg(1).atom
		for i := len(f.Batches) - 1; i >= 0; i-- {
			if f.Batches[i].ID() == k {
				f.Batches = append(f.Batches[:i], f.Batches[i+1:]...)
				break
			}
		}
	case "Flattened":
		ff, err := f.FlattenBatches()
		if err != nil || ff == nil {
			return val{bad: "flatten failed"}
		}
		e.ren[ff.ID] = t.arg(1).atom
		return val{f: ff}
	case "CreditOf", "DebitOf":
		c, d, err := f.SegmentFile(nil)
		if err != nil {
			return val{bad: "segment failed"}
		}
		r := c
		if t.head() == "DebitOf" {
			r = d
		}
		if r.ID == "" {
			return val{bad: "empty half"}
		}
		e.ren[r.ID] = t.arg(1).atom
		return val{f: r}
	case "Balanced":
		e.balance(f, atoi(t.arg(1).atom), t.arg(2).atom)
	default:
		return val{bad: "unknown term " + t.head()}
	}
	return val{f: f, parseErr: v.parseErr}
}

// balance runs the statements of service.BalanceFile on f
func (e *evalCtx) balance(f *ach.File, off int, newID string) bool {
	var o ach.Offset
	json.Unmarshal([]byte(e.p.offsets[off]), &o)
	if f.Create() != nil {
		return false
	}
	for i := range f.Batches {
		f.Batches[i].WithOffset(&o)
		if f.Batches[i].Create() != nil {
			return false
		}
	}
	f.ID = newID
	return f.Create() == nil
}

// ---------------------------------------------------------------- canonical projections

var hex40 = regexp.MustCompile(`^[0-9a-f]{40}$`)

// canon renames IDs, blanks unknown random IDs and the clock of derived files; with loose
// it also drops record IDs below the top level and line numbers (never part of the property)
func canon(x interface{}, ren map[string]string, loose bool, top bool) interface{} {
	switch v := x.(type) {
	case map[string]interface{}:
		out := map[string]interface{}{}
		derived := false
		if fh, ok := v["fileHeader"].(map[string]interface{}); ok {
			if s, ok := fh["id"].(string); ok && hex40.MatchString(s) {
				derived = true
			}
		}
		for k, w := range v {
			if loose && !top && k == "id" {
				continue
			}
			if loose && k == "lineNumber" {
				continue
			}
			c := canon(w, ren, loose, false)
			if derived && k == "fileHeader" {
				m := c.(map[string]interface{})
				m["fileCreationDate"], m["fileCreationTime"] = "<clock>", "<clock>"
			}
			out[k] = c
		}
		return out
	case []interface{}:
		out := make([]interface{}, len(v))
		for i, w := range v {
			out[i] = canon(w, ren, loose, false)
		}
		return out
	case string:
		if r, ok := ren[v]; ok {
			return r
		}
		if hex40.MatchString(v) {
			return "<rnd>"
		}
		return v
	}
	return x
}

func digestJSON(x interface{}, ren map[string]string, loose bool) string {
	if x == nil {
		return "null"
	}
	c := canon(x, ren, loose, true)
	b, _ := json.Marshal(c) // map keys sorted
	h := sha256.Sum256(b)
	s := hex.EncodeToString(h[:6])
	if m, ok := c.(map[string]interface{}); ok {
		if id, ok := m["id"].(string); ok {
			s += ":id=" + id
		}
		if bs, ok := m["batches"].([]interface{}); ok {
			s += fmt.Sprintf(":b=%d", len(bs))
		}
		if fc, ok := m["fileControl"].(map[string]interface{}); ok {
			s += fmt.Sprintf(":ec=%v:d=%v:c=%v", fc["entryAddendaCount"], fc["totalDebit"], fc["totalCredit"])
		}
	}
	return s
}

func toGeneric(v interface{}) interface{} {
	b, err := json.Marshal(v)
	if err != nil {
		return "marshal error"
	}
	var x interface{}
	if json.Unmarshal(b, &x) != nil {
		return "unmarshal error"
	}
	return x
}

// digestText: derived files carry the clock of the moment they were derived in columns 24-33
// of the file header record, and a text body does not say whether it is derived: those ten
// columns are never compared in text form (the JSON projections compare them for stored files)
func digestText(b []byte, _ string) string {
	if len(b) > 33 && b[0] == '1' {
		c := append([]byte{}, b...)
		for i := 23; i < 33; i++ {
			c[i] = 'X'
		}
		return digestBytes(c)
	}
	return digestBytes(b)
}

func digestBytes(b []byte) string {
	h := sha256.Sum256(b)
	return fmt.Sprintf("%s:len=%d", hex.EncodeToString(h[:6]), len(b))
}

// ---------------------------------------------------------------- expected observation of a payload

// obs is (ok, projection): ok = the library reported no error, projection = canonical body
type obs struct {
	ok   bool
	proj string
}

func findBatch(f *ach.File, id string) ach.Batcher {
	for _, b := range f.Batches {
		if b.ID() == id {
			return b
		}
	}
	return nil
}

func (e *evalCtx) expect(cls string, p *node, loose bool) obs {
	dg := func(v interface{}) string { return digestJSON(toGeneric(v), e.ren, loose) }
	switch p.head() {
	case "PNone":
		return obs{true, "-"}
	case "PNoBatches":
		return obs{true, "batches=null"}
	case "PFile":
		v := e.eval(p.arg(0))
		if v.bad != "" {
			return obs{false, "no-value:" + v.bad}
		}
		return obs{v.parseErr == nil && cls != "refused", dg(v.f)}
	case "PFiles":
		var parts []string
		for _, kv := range p.kids[1:] {
			v := e.eval(kv.kids[1])
			if v.bad != "" {
				return obs{false, "no-value:" + v.bad}
			}
			parts = append(parts, dg(v.f))
		}
		sort.Strings(parts)
		return obs{true, "[" + strings.Join(parts, ",") + "]"}
	}
	ti := 0 // position of the term: first argument, except (PText le t)
	if p.head() == "PText" {
		ti = 1
	}
	v := e.eval(p.arg(ti))
	if v.bad != "" {
		return obs{false, "no-value:" + v.bad}
	}
	f := v.f
	switch p.head() {
	case "PText":
		if f.Create() != nil {
			return obs{false, "-"}
		}
		var buf bytes.Buffer
		le := "\n"
		if p.arg(0).atom == "CRLF" {
			le = "\r\n"
		}
		w := ach.NewWriterWithOpts(&buf, &ach.WriteOpts{LineEnding: le})
		if w.Write(f) != nil || w.Flush() != nil || buf.Len() == 0 {
			return obs{false, "-"}
		}
		sym := f.ID
		if r, ok := e.ren[sym]; ok {
			sym = r
		}
		return obs{true, digestText(buf.Bytes(), sym)}
	case "PValid":
		return obs{f.ValidateWith(optsOf(atoi(p.arg(1).atom))) == nil, "-"}
	case "PBuild":
		err := f.Create()
		return obs{err == nil, dg(f)}
	case "PFlat":
		if f.Create() != nil {
			return obs{false, "-"}
		}
		ff, err := f.FlattenBatches()
		if err != nil {
			return obs{false, "-"}
		}
		e.ren[ff.ID] = p.arg(1).atom
		d0 := dg(ff)
		// File.FlattenBatches orders batches of equal batch number by map iteration: when
		// repeated runs on fresh copies disagree, there is no single library answer
		for i := 0; i < 15; i++ {
			v2 := e.eval(p.arg(0))
			if v2.bad != "" || v2.f.Create() != nil {
				break
			}
			f2, err := v2.f.FlattenBatches()
			if err != nil {
				break
			}
			e.ren[f2.ID] = p.arg(1).atom
			if dg(f2) != d0 {
				return obs{true, "NONDET"}
			}
		}
		return obs{true, d0}
	case "PSeg":
		if f.Create() != nil {
			return obs{false, "-"}
		}
		c, d, err := f.SegmentFile(nil)
		if err != nil {
			return obs{false, "-"}
		}
		next := p.arg(1).atom
		cs, ds := "null", "null"
		if c.ID != "" {
			e.ren[c.ID] = next
			cs = dg(c)
			next = p.arg(2).atom
			if p.arg(2).atom == p.arg(1).atom { // the model was told "no credit half"
				next = "g?"
			}
		}
		if d.ID != "" {
			e.ren[d.ID] = next
			ds = dg(d)
		}
		return obs{true, "credit=" + cs + " debit=" + ds}
	case "PBal":
		ok := e.balance(f, atoi(p.arg(1).atom), p.arg(2).atom)
		if !ok {
			return obs{false, "-"}
		}
		return obs{true, "id=" + p.arg(2).atom}
	case "PAddBatch":
		id := "b" + p.arg(1).atom
		if findBatch(f, id) != nil {
			return obs{false, "dup"}
		}
		return obs{true, "id=" + id}
	case "PBatch":
		b := findBatch(f, "b"+p.arg(1).atom)
		if b == nil {
			return obs{false, "-"}
		}
		return obs{true, dg(b)}
	case "PBatches":
		return obs{true, dg(append([]ach.Batcher{}, f.Batches...))}
	case "PDelBatch":
		return obs{findBatch(f, "b"+p.arg(1).atom) != nil, "-"}
	}
	return obs{false, "unknown payload " + p.head()}
}

// ---------------------------------------------------------------- the real server

type srv struct {
	h     http.Handler
	p     *pools
	gens  []string          // random file IDs in order of first appearance: g0, g1, …
	ren   map[string]string // real random ID -> g<k>
	known map[string]bool
	hung  bool
}

func newSrv(p *pools) *srv {
	repo := server.NewRepositoryInMemory(0, nil)
	svc := server.NewService(repo)
	return &srv{h: server.MakeHTTPHandler(svc, repo, kitlog.NewNopLogger()), p: p, ren: map[string]string{}, known: map[string]bool{}}
}

func (s *srv) realID(sym string) string {
	if strings.HasPrefix(sym, "g") {
		k := atoi(sym[1:])
		if k < len(s.gens) {
			return s.gens[k]
		}
		return "unknown-generated-" + sym
	}
	return sym
}

func (s *srv) learn(id string) {
	if id == "" || s.known[id] || !hex40.MatchString(id) {
		return
	}
	s.known[id] = true
	s.ren[id] = fmt.Sprintf("g%d", len(s.gens))
	s.gens = append(s.gens, id)
}

func (s *srv) do(method, path, ctype, body string, hdr map[string]string) (int, []byte) {
	type res struct {
		code int
		out  []byte
	}
	ch := make(chan res, 1)
	go func() {
		defer func() {
			if r := recover(); r != nil {
				ch <- res{599, []byte(fmt.Sprintf("panic: %v", r))}
			}
		}()
		req := httptest.NewRequest(method, path, strings.NewReader(body))
		if ctype != "" {
			req.Header.Set("Content-Type", ctype)
		}
		for k, v := range hdr {
			req.Header.Set(k, v)
		}
		w := httptest.NewRecorder()
		s.h.ServeHTTP(w, req)
		b, _ := io.ReadAll(w.Result().Body)
		ch <- res{w.Code, b}
	}()
	select {
	case r := <-ch:
		return r.code, r.out
	case <-time.After(20 * time.Second): // watchdog: the handler does not return
		s.hung = true
		return 598, []byte("watchdog: no answer within 20s")
	}
}

// request lines:  KIND args…   (labels that come from the library/response are filled in by run)
type request struct {
	kind   string
	id     string // symbolic file id
	f      string // T | J
	body   int
	opts   int
	url    string // "-" or c<n>
	le     string
	k      int // batch id / offset index
	post   bool
	labels []string
}

func (r *request) line() string {
	switch r.kind {
	case "CREATE":
		return fmt.Sprintf("CREATE %s %d %d %s %s", r.f, r.body, r.opts, r.url, r.labels[0])
	case "GET", "BUILD", "DELETE", "LISTBATCHES":
		return r.kind + " " + r.id
	case "LIST":
		return "LIST"
	case "CONTENTS":
		return "CONTENTS " + r.id + " " + r.le
	case "VALIDATE":
		return fmt.Sprintf("VALIDATE %s %d", r.id, r.opts)
	case "ADDBATCH":
		return fmt.Sprintf("ADDBATCH %s %d %s", r.id, r.body, strings.Join(r.labels, " "))
	case "GETBATCH", "DELBATCH":
		return fmt.Sprintf("%s %s %d", r.kind, r.id, r.k)
	case "FLATTEN", "SEGMENT":
		return fmt.Sprintf("%s %s %s", r.kind, r.id, strings.Join(r.labels, " "))
	case "SEGBODY":
		return fmt.Sprintf("SEGBODY %s %d %s", r.f, r.body, strings.Join(r.labels, " "))
	case "BALANCE":
		return fmt.Sprintf("BALANCE %s %d %s", r.id, r.k, r.labels[0])
	}
	return "?"
}

var thePools *pools

// body arguments of corpus lines may name a fixture instead of its pool index: @ppd-debit.ach
func resolveNames(w []string) {
	if thePools == nil {
		return
	}
	for i, t := range w {
		if !strings.HasPrefix(t, "@") {
			continue
		}
		names := thePools.textN
		if len(w) > 1 && w[1] == "J" {
			names = thePools.jsonN
		}
		for k, n := range names {
			if n == t[1:] {
				w[i] = strconv.Itoa(k)
				break
			}
		}
	}
}

func parseRequest(line string) *request {
	w := strings.Fields(line)
	if len(w) == 0 {
		return nil
	}
	resolveNames(w)
	r := &request{kind: w[0]}
	switch w[0] {
	case "CREATE":
		r.f, r.body, r.opts, r.url = w[1], atoi(w[2]), atoi(w[3]), w[4]
	case "GET", "BUILD", "DELETE", "LISTBATCHES", "FLATTEN", "SEGMENT":
		r.id = w[1]
	case "LIST":
	case "CONTENTS":
		r.id, r.le = w[1], w[2]
	case "VALIDATE":
		r.id, r.opts = w[1], atoi(w[2])
	case "ADDBATCH":
		r.id, r.body = w[1], atoi(w[2])
	case "GETBATCH", "DELBATCH":
		r.id, r.k = w[1], atoi(w[2])
	case "SEGBODY":
		r.f, r.body = w[1], atoi(w[2])
	case "BALANCE":
		r.id, r.k = w[1], atoi(w[2])
	default:
		return nil
	}
	return r
}

func b01(b bool) string {
	if b {
		return "1"
	}
	return "0"
}

func jsonObj(b []byte) map[string]interface{} {
	var m map[string]interface{}
	json.Unmarshal(b, &m)
	return m
}

func pick(m map[string]interface{}, keys ...string) interface{} {
	for _, k := range keys {
		if v, ok := m[k]; ok {
			return v
		}
	}
	return nil
}

// run sends the request, fills in its labels and returns (status, projection)
func (s *srv) run(r *request, loose bool) (int, string) {
	dg := func(v interface{}) string { return digestJSON(v, s.ren, loose) }
	rid := s.realID(r.id)
	switch r.kind {
	case "CREATE":
		path := "/files/create"
		if r.url != "-" {
			path = "/files/" + r.url
		}
		if q := optQueries[r.opts]; q != "" {
			path += "?" + q
		}
		ct, body := "text/plain", ""
		bodyid := "-"
		if r.f == "J" {
			ct, body = "application/json", s.p.jsonB[r.body]
			// label: the ID the library reads from the body (independent call)
			func() {
				defer func() { recover() }()
				if f, _ := ach.FileFromJSONWith([]byte(body), createOpts(body, r.opts)); f != nil && f.ID != "" {
					bodyid = f.ID
				}
			}()
		} else {
			body = s.p.text[r.body]
		}
		r.labels = []string{bodyid}
		code, out := s.do("POST", path, ct, body, nil)
		m := jsonObj(out)
		if id, ok := pick(m, "id", "ID").(string); ok {
			s.learn(id)
		}
		if fo, ok := pick(m, "file", "File").(map[string]interface{}); ok {
			if id, ok := fo["id"].(string); ok {
				s.learn(id)
			}
			return code, dg(fo)
		}
		return code, "no-file"
	case "GET":
		code, out := s.do("GET", "/files/"+rid, "", "", nil)
		if code != 200 {
			return code, "-"
		}
		return code, dg(pick(jsonObj(out), "file"))
	case "LIST":
		code, out := s.do("GET", "/files", "", "", nil)
		arr, _ := jsonObj(out)["files"].([]interface{})
		var parts []string
		for _, f := range arr {
			fo, _ := f.(map[string]interface{})
			parts = append(parts, dg(fo))
		}
		sort.Strings(parts)
		return code, "[" + strings.Join(parts, ",") + "]"
	case "CONTENTS":
		hdr := map[string]string{}
		if r.le == "CRLF" {
			hdr["X-Line-Ending"] = "CRLF"
		}
		code, out := s.do("GET", "/files/"+rid+"/contents", "", "", hdr)
		if code != 200 {
			return code, "-"
		}
		return code, digestText(out, r.id)
	case "VALIDATE":
		var code int
		if r.post {
			code, _ = s.do("POST", "/files/"+rid+"/validate", "application/json", optsJSON(r.opts), nil)
		} else {
			path := "/files/" + rid + "/validate"
			if q := optQueries[r.opts]; q != "" {
				path += "?" + q
			}
			code, _ = s.do("GET", path, "", "", nil)
		}
		return code, "-"
	case "BUILD":
		code, out := s.do("GET", "/files/"+rid+"/build", "", "", nil)
		fo := pick(jsonObj(out), "file", "File")
		if fo == nil {
			return code, "-"
		}
		return code, dg(fo)
	case "DELETE":
		code, _ := s.do("DELETE", "/files/"+rid, "", "", nil)
		return code, "-"
	case "ADDBATCH":
		_, dec := decodeBatch(s.p.batches[r.body])
		code, out := s.do("POST", "/files/"+rid+"/batches", "application/json", s.p.batches[r.body], nil)
		dup := dec && code == 400 && strings.Contains(string(out), "already exists")
		r.labels = []string{b01(dec), b01(dup)}
		if code == 200 {
			id, _ := jsonObj(out)["id"].(string)
			return code, "id=" + id
		}
		if dup {
			return code, "dup"
		}
		return code, "-"
	case "GETBATCH":
		code, out := s.do("GET", fmt.Sprintf("/files/%s/batches/b%d", rid, r.k), "", "", nil)
		if code != 200 {
			return code, "-"
		}
		return code, dg(pick(jsonObj(out), "batch"))
	case "LISTBATCHES":
		code, out := s.do("GET", "/files/"+rid+"/batches", "", "", nil)
		v := pick(jsonObj(out), "batches")
		if v == nil {
			return code, "batches=null"
		}
		return code, dg(v)
	case "DELBATCH":
		code, _ := s.do("DELETE", fmt.Sprintf("/files/%s/batches/b%d", rid, r.k), "", "", nil)
		return code, "-"
	case "FLATTEN":
		code, out := s.do("POST", "/files/"+rid+"/flatten", "", "", nil)
		m := jsonObj(out)
		fo, _ := pick(m, "file").(map[string]interface{})
		ok := code == 200 && fo != nil
		r.labels = []string{b01(ok)}
		if !ok {
			return code, "-"
		}
		if id, ok := fo["id"].(string); ok {
			s.learn(id)
		}
		return code, dg(fo)
	case "SEGMENT", "SEGBODY":
		var code int
		var out []byte
		if r.kind == "SEGMENT" {
			code, out = s.do("POST", "/files/"+rid+"/segment", "application/json", "{}", nil)
		} else if r.f == "T" {
			code, out = s.do("POST", "/segment", "text/plain", s.p.text[r.body], nil)
		} else {
			code, out = s.do("POST", "/segment", "application/json", `{"file":`+s.p.jsonB[r.body]+`}`, nil)
		}
		m := jsonObj(out)
		_, has := m["creditFileID"]
		ok := code == 200 && has
		cs, ds := "null", "null"
		hc, hd := false, false
		if ok {
			if fo, _ := m["creditFile"].(map[string]interface{}); fo != nil {
				hc = true
				if id, ok := fo["id"].(string); ok {
					s.learn(id)
				}
				cs = dg(fo)
			}
			if fo, _ := m["debitFile"].(map[string]interface{}); fo != nil {
				hd = true
				if id, ok := fo["id"].(string); ok {
					s.learn(id)
				}
				ds = dg(fo)
			}
		}
		r.labels = []string{b01(ok), b01(hc), b01(hd)}
		if !ok {
			return code, "-"
		}
		return code, "credit=" + cs + " debit=" + ds
	case "BALANCE":
		code, out := s.do("POST", "/files/"+rid+"/balance", "application/json", s.p.offsets[r.k], nil)
		id, _ := jsonObj(out)["id"].(string)
		ok := code == 200 && id != ""
		r.labels = []string{b01(ok)}
		if !ok {
			return code, "-"
		}
		s.learn(id)
		return code, "id=" + s.ren[id]
	}
	return 0, "?"
}

// ---------------------------------------------------------------- generation of histories

type genState struct {
	r     *rng.R
	p     *pools
	ids   []string // file ids in play
	ngen  int
	valid []int // text bodies that read without error (preferred)
	jsonV []int
	// ids whose file shares batch headers / entries with another stored file (source or
	// result of flatten/segment): balance mutates those shared records, which the
	// per-object terms do not describe
	related map[string]bool
	added   map[string][]int // batch bodies sent to an id so far (so that get/delete/duplicate hit them)
	flatSrc map[string]bool // sources of a flatten
	flatRel map[string]bool // sources and results of a flatten
}

func classifyPools(p *pools) (tv, jv []int) {
	for i, t := range p.text {
		func() {
			defer func() { recover() }()
			if _, err := ach.NewReader(strings.NewReader(t)).Read(); err == nil {
				tv = append(tv, i)
			}
		}()
	}
	for i, t := range p.jsonB {
		func() {
			defer func() { recover() }()
			if f, err := ach.FileFromJSON([]byte(t)); err == nil && f != nil {
				jv = append(jv, i)
			}
		}()
	}
	return
}

func (g *genState) anyID(s *srv) string {
	// mostly ids in play, sometimes a generated one, sometimes unknown
	n := g.r.Intn(10)
	switch {
	case n < 6:
		return rng.Pick(g.r, g.ids)
	case n < 9 && len(s.gens) > 0:
		return fmt.Sprintf("g%d", g.r.Intn(len(s.gens)))
	case n == 9:
		return fmt.Sprintf("g%d", len(s.gens)+1) // never generated
	}
	return rng.Pick(g.r, g.ids)
}

func (g *genState) next(s *srv, allowBalance bool) *request {
	r := g.r
	k := r.Intn(100)
	switch {
	case k < 22:
		q := &request{kind: "CREATE", url: "-"}
		if r.Chance(2, 3) {
			q.url = rng.Pick(r, g.ids)
		}
		if r.Bool() {
			q.f = "T"
			q.body = r.Intn(len(g.p.text))
			if r.Chance(3, 4) && len(g.valid) > 0 {
				q.body = rng.Pick(r, g.valid)
			}
		} else {
			q.f = "J"
			q.body = r.Intn(len(g.p.jsonB))
			if r.Chance(3, 4) && len(g.jsonV) > 0 {
				q.body = rng.Pick(r, g.jsonV)
			}
		}
		if r.Chance(1, 4) {
			q.opts = r.Intn(len(optQueries))
		}
		return q
	case k < 32:
		return &request{kind: "GET", id: g.anyID(s)}
	case k < 36:
		return &request{kind: "LIST"}
	case k < 46:
		le := "LF"
		if r.Bool() {
			le = "CRLF"
		}
		return &request{kind: "CONTENTS", id: g.anyID(s), le: le}
	case k < 52:
		q := &request{kind: "VALIDATE", id: g.anyID(s), post: r.Bool()}
		if r.Chance(1, 3) {
			q.opts = r.Intn(len(optQueries))
		}
		return q
	case k < 57:
		return &request{kind: "BUILD", id: g.anyID(s)}
	case k < 62:
		return &request{kind: "DELETE", id: g.anyID(s)}
	case k < 72:
		q := &request{kind: "ADDBATCH", id: g.anyID(s), body: r.Intn(len(g.p.batches))}
		if a := g.added[q.id]; len(a) > 0 && r.Chance(1, 4) {
			q.body = rng.Pick(r, a)
		}
		g.added[q.id] = append(g.added[q.id], q.body)
		return q
	case k < 76:
		q := &request{kind: "GETBATCH", id: g.anyID(s), k: r.Intn(len(g.p.batches))}
		if a := g.added[q.id]; len(a) > 0 && r.Chance(3, 4) {
			q.k = rng.Pick(r, a)
		}
		return q
	case k < 79:
		return &request{kind: "LISTBATCHES", id: g.anyID(s)}
	case k < 83:
		q := &request{kind: "DELBATCH", id: g.anyID(s), k: r.Intn(len(g.p.batches))}
		if a := g.added[q.id]; len(a) > 0 && r.Chance(3, 4) {
			q.k = rng.Pick(r, a)
		}
		return q
	case k < 94:
		// flatten / segment / balance rewrite batch headers and entries that a derived file
		// shares with its source; only files with no such relative are sent there
		id := g.anyID(s)
		if g.related[id] {
			return &request{kind: "GET", id: id}
		}
		if k < 89 {
			return &request{kind: "FLATTEN", id: id}
		}
		return &request{kind: "SEGMENT", id: id}
	case k < 97:
		q := &request{kind: "SEGBODY"}
		if r.Bool() {
			q.f, q.body = "T", rng.Pick(r, g.valid)
		} else {
			q.f, q.body = "J", rng.Pick(r, g.jsonV)
		}
		return q
	default:
		id := g.anyID(s)
		if allowBalance && !g.related[id] {
			return &request{kind: "BALANCE", id: id, k: r.Intn(len(g.p.offsets))}
		}
		return &request{kind: "GET", id: id}
	}
}

// mark records the sharing that a successful flatten/segment creates
func (g *genState) mark(q *request, before int, s *srv) {
	if g == nil || (q.kind != "FLATTEN" && q.kind != "SEGMENT") || len(s.gens) == before {
		return
	}
	g.related[q.id] = true
	if q.kind == "FLATTEN" {
		g.flatSrc[q.id] = true
		g.flatRel[q.id] = true
	}
	for k := before; k < len(s.gens); k++ {
		id := fmt.Sprintf("g%d", k)
		g.related[id] = true
		if q.kind == "FLATTEN" {
			g.flatRel[id] = true
		}
	}
}

// admissible replaces requests that would rewrite records shared between a derived file and
// its source by a GET of the same file (see docs/C17.md, "not modelled")
func (g *genState) admissible(q *request) *request {
	bad := false
	switch q.kind {
	case "FLATTEN", "SEGMENT", "BALANCE":
		bad = g.related[q.id]
	case "ADDBATCH", "DELBATCH":
		// SegmentFile hands credits-only / debits-only batches (IAT: header and control pointers) to the half
		// as the same object: renumbering by a later Create depends on positions (FlattenBatches no longer
		// shares headers, its relatives stay excluded as before)
		bad = g.flatRel[q.id] || g.related[q.id]
	case "CONTENTS", "BUILD":
		bad = g.flatSrc[q.id]
	}
	if bad {
		return &request{kind: "GET", id: q.id}
	}
	return q
}

func newGen(r *rng.R, p *pools, tv, jv []int) *genState {
	g := &genState{r: r, p: p, valid: tv, jsonV: jv, related: map[string]bool{}, flatSrc: map[string]bool{}, flatRel: map[string]bool{}, added: map[string][]int{}}
	n := r.Range(1, 3)
	for i := 1; i <= n; i++ {
		g.ids = append(g.ids, fmt.Sprintf("c%d", i))
	}
	return g
}

// ---------------------------------------------------------------- corr

var curGen *genState

func corr(args []string) {
	fs := flag.NewFlagSet("corr", flag.ExitOnError)
	out := fs.String("out", "", "output directory")
	n := fs.Int("n", 150, "histories")
	corpus := fs.String("corpus", "", "corpus directory")
	fs.Parse(args)
	p := loadPools()
	tv, jv := classifyPools(p)
	cases := hx.Create(filepath.Join(*out, "cases.txt"))
	raw := hx.Create(filepath.Join(*out, "raw.txt"))
	emit := func(s *srv, q *request) {
		before := len(s.gens)
		code, proj := s.run(q, false)
		curGen.mark(q, before, s)
		cases.Printf("%s\n", q.line())
		raw.Printf("%d %s\n", code, proj)
	}
	for _, h := range corpusHistories(*corpus) {
		s := newSrv(p)
		cases.Printf("S\n")
		raw.Printf("S\n")
		for _, l := range h {
			if q := parseRequest(l); q != nil {
				emit(s, q)
			}
		}
	}
	r := rng.FromEnv(17)
	for i := 0; i < *n; i++ {
		s := newSrv(p)
		g := newGen(r.Fork(), p, tv, jv)
		curGen = g
		cases.Printf("S\n")
		raw.Printf("S\n")
		steps := g.r.Range(4, 12)
		for j := 0; j < steps; j++ {
			emit(s, g.admissible(g.next(s, true)))
		}
	}
	cases.Close()
	raw.Close()
}

func corpusHistories(dir string) [][]string {
	var out [][]string
	if dir == "" {
		return out
	}
	fsn, _ := filepath.Glob(filepath.Join(dir, "*.json"))
	sort.Strings(fsn)
	for _, f := range fsn {
		bs, err := os.ReadFile(f)
		if err != nil {
			continue
		}
		var c struct {
			Requests []string `json:"requests"`
		}
		if json.Unmarshal(bs, &c) == nil && len(c.Requests) > 0 {
			out = append(out, c.Requests)
		}
	}
	return out
}

// ---------------------------------------------------------------- eval

func readLines(path string) []string {
	bs, err := os.ReadFile(path)
	if err != nil {
		fmt.Fprintln(os.Stderr, err)
		os.Exit(2)
	}
	return strings.Split(strings.TrimRight(string(bs), "\n"), "\n")
}

func statusClass(code int) string {
	if code >= 200 && code < 300 {
		return "2xx"
	}
	return "err"
}

func evalMode(args []string) {
	fs := flag.NewFlagSet("eval", flag.ExitOnError)
	out := fs.String("out", "", "directory with cases.txt raw.txt model.txt")
	fs.Parse(args)
	p := loadPools()
	cases := readLines(filepath.Join(*out, "cases.txt"))
	raws := readLines(filepath.Join(*out, "raw.txt"))
	model := readLines(filepath.Join(*out, "model.txt"))
	exp := hx.Create(filepath.Join(*out, "expect.txt"))
	imp := hx.Create(filepath.Join(*out, "impl.txt"))
	if len(model) != len(cases) || len(raws) != len(cases) {
		exp.Printf("line counts differ: cases %d raw %d model %d\n", len(cases), len(raws), len(model))
		imp.Printf("-\n")
		exp.Close()
		imp.Close()
		return
	}
	skip := false
	for i := range cases {
		if cases[i] == "S" {
			skip = false
			exp.Printf("S\n")
			imp.Printf("%s\n", model[i])
			continue
		}
		if skip {
			exp.Printf("skipped (flatten has no unique answer earlier in this history)\n")
			imp.Printf("skipped (flatten has no unique answer earlier in this history)\n")
			continue
		}
		ml := strings.SplitN(model[i], "\t", 2)[0]
		w := strings.SplitN(ml, " ", 3)
		if len(w) < 3 {
			exp.Printf("unreadable model line %q\n", model[i])
			imp.Printf("%s\n", raws[i])
			continue
		}
		cls, st, pay := w[0], atoi(w[1]), parseSexp(w[2])
		e := &evalCtx{p: p, ren: map[string]string{}}
		o := e.expect(cls, pay, false)
		if o.proj == "NONDET" {
			skip = true
			exp.Printf("skipped (flatten has no unique answer)\n")
			imp.Printf("skipped (flatten has no unique answer)\n")
			continue
		}
		rw := strings.SplitN(raws[i], " ", 2)
		code := atoi(rw[0])
		// status: exact where the machine fixes it, else 2xx iff the library reports no error
		var es, is string
		if st != 0 {
			es, is = strconv.Itoa(st), strconv.Itoa(code)
		} else {
			is = statusClass(code)
			es = "err"
			if o.ok && cls != "refused" && cls != "badbody" {
				es = "2xx"
			}
		}
		proj := o.proj
		if es != "2xx" && es != "200" {
			proj = "-"
			// error responses of create/build echo the file: keep that projection
			if pay.head() == "PFile" || pay.head() == "PBuild" {
				proj = o.proj
			}
			if cls == "refused" && pay.head() == "PAddBatch" {
				proj = "dup"
			}
		}
		exp.Printf("%s %s %s\n", cls2(cls), es, proj)
		imp.Printf("%s %s %s\n", cls2(cls), is, rw[1])
	}
	exp.Close()
	imp.Close()
}

func cls2(c string) string { return c }

// ---------------------------------------------------------------- oracle

type failure struct {
	Kind string      `json:"kind"`
	Key  string      `json:"key"`
	What string      `json:"what"`
	Case interface{} `json:"case"`
}

// ideal store of the property: id -> term (replayed with the library on every use); next to it
// the term of the code as it is, to name the cause when the two differ
type ostore struct {
	ideal, actual map[string]*node
	cause         map[string]string
	ngen          int
}

func idealResponse(o *ostore, q *request, actual bool) (cls string, status int, pay *node) {
	m := o.ideal
	if actual {
		m = o.actual
	}
	t, found := m[q.id]
	nf := func(code int) (string, int, *node) { return "notfound", code, L("PNone") }
	g := func(k int) *node { return A(fmt.Sprintf("g%d", o.ngen+k)) }
	switch q.kind {
	case "GET":
		if !found {
			return nf(404)
		}
		return "found", 200, L("PFile", t)
	case "CONTENTS":
		if !found {
			return nf(-1)
		}
		return "found", 0, L("PText", A(q.le), t)
	case "VALIDATE":
		if !found {
			return nf(-1)
		}
		return "found", 0, L("PValid", t, A(strconv.Itoa(q.opts)))
	case "BUILD":
		if !found {
			return nf(-1)
		}
		return "found", 0, L("PBuild", t)
	case "GETBATCH":
		if !found {
			return nf(-1)
		}
		return "found", 0, L("PBatch", t, A(strconv.Itoa(q.k)))
	case "LISTBATCHES":
		if !found {
			return "found", 200, L("PNoBatches")
		}
		return "found", 200, L("PBatches", t)
	case "DELBATCH":
		if !found {
			return nf(-1)
		}
		return "found", 0, L("PDelBatch", t, A(strconv.Itoa(q.k)))
	case "FLATTEN":
		if !found {
			return nf(-1)
		}
		return "found", 0, L("PFlat", t, g(0))
	case "SEGMENT":
		if !found {
			return nf(-1)
		}
		return "found", 0, L("PSeg", t, g(0), g(1))
	case "BALANCE":
		if !found {
			return nf(-1)
		}
		return "found", 0, L("PBal", t, A(strconv.Itoa(q.k)), g(0))
	}
	return "?", 0, L("PNone")
}

type orun struct {
	p     *pools
	fails []failure
	evals int
	dist  map[string]int
	nontr map[string]bool
}

func (o *orun) fail(key, what string, hist []string) {
	o.fails = append(o.fails, failure{"fail", key, what, map[string]interface{}{"requests": append([]string{}, hist...)}})
}

// history runs one request history against a fresh server; gen == nil replays lines
func (o *orun) history(g *genState, lines []string, steps int) {
	s := newSrv(o.p)
	st := &ostore{ideal: map[string]*node{}, actual: map[string]*node{}, cause: map[string]string{}}
	var hist []string
	nondet := false
	check := func(q *request, code int, proj string) {
		o.evals++
		o.dist[q.kind]++
		e := &evalCtx{p: o.p, ren: map[string]string{}}
		cmp := func(actual bool) (bool, string) {
			cls, stt, pay := idealResponse(st, q, actual)
			if cls == "notfound" {
				// "after DELETE the ID is not found": any error status, never a 2xx answer
				if code >= 200 && code < 300 {
					return false, fmt.Sprintf("unknown id answered %d %s", code, proj)
				}
				return true, ""
			}
			ob := e.expect(cls, pay, true)
			if ob.proj == "NONDET" {
				nondet = true
				return true, ""
			}
			if stt != 0 {
				if code != stt {
					return false, fmt.Sprintf("status %d, expected %d", code, stt)
				}
			} else if (statusClass(code) == "2xx") != ob.ok {
				return false, fmt.Sprintf("status %d but the library says ok=%v on this file", code, ob.ok)
			}
			want := ob.proj
			if statusClass(code) != "2xx" && pay.head() != "PBuild" {
				return true, ""
			}
			if want != proj {
				return false, fmt.Sprintf("body %s, the library gives %s", proj, want)
			}
			return true, ""
		}
		okI, whyI := cmp(false)
		if okI {
			return
		}
		okA, _ := cmp(true)
		if okA && st.cause[q.id] != "" {
			o.fail("server:"+st.cause[q.id]+"-alters-stored-file",
				fmt.Sprintf("%s %s after %s: %s; the answer equals the library's on the object as the %s endpoint left it (it runs File.Create%s on the stored object itself)", q.kind, q.id, st.cause[q.id], whyI, st.cause[q.id],
					map[string]string{"contents": "", "flatten": " and FlattenBatches", "segment": " and SegmentFile", "failed-balance": ", WithOffset and Batch.Create"}[st.cause[q.id]]), hist)
			st.ideal[q.id] = st.actual[q.id]
			st.cause[q.id] = ""
			return
		}
		o.fail("server:"+strings.ToLower(q.kind)+":differs-from-library", fmt.Sprintf("%s %s: %s", q.kind, q.id, whyI), hist)
		if a, ok := st.actual[q.id]; ok {
			st.ideal[q.id] = a
		}
	}
	for j := 0; j < steps; j++ {
		var q *request
		if g != nil {
			q = g.admissible(g.next(s, true))
		} else {
			if j >= len(lines) {
				break
			}
			q = parseRequest(lines[j])
			if q == nil {
				continue
			}
		}
		ngenBefore := len(s.gens)
		code, proj := s.run(q, true)
		hist = append(hist, q.line())
		g.mark(q, ngenBefore, s)
		if code == 598 || code == 599 {
			what := "the handler panicked"
			if code == 598 {
				what = "the handler did not return within 20s"
			}
			o.fail("server:"+strings.ToLower(q.kind)+":"+map[int]string{598: "hang", 599: "panic"}[code], fmt.Sprintf("%s %s: %s", q.kind, q.id, what), hist)
			return
		}
		ok := statusClass(code) == "2xx"
		sym := func(k int) string { return fmt.Sprintf("g%d", ngenBefore+k) }
		st.ngen = ngenBefore
		switch q.kind {
		case "CREATE":
			o.evals++
			o.dist[q.kind]++
			id := q.url
			if id == "-" {
				id = q.labels[0]
			}
			if id == "-" {
				id = sym(0)
				if len(s.gens) != ngenBefore+1 {
					o.fail("server:create:no-generated-id", fmt.Sprintf("create without id answered %d %s and no new id", code, proj), hist)
					return
				}
			}
			t := L("WithID", L("Parsed", A(q.f), A(strconv.Itoa(q.body)), A(strconv.Itoa(q.opts))), A(id))
			e := &evalCtx{p: o.p, ren: map[string]string{}}
			_, exists := st.ideal[id]
			cls := "found"
			if exists {
				cls = "refused"
			}
			ob := e.expect(cls, L("PFile", t), true)
			if exists && ok {
				o.fail("server:create:existing-id-accepted", fmt.Sprintf("create on existing id %s answered %d", id, code), hist)
			} else if ok != ob.ok {
				o.fail("server:create:status-differs-from-library", fmt.Sprintf("create answered %d, the library parse ok=%v", code, ob.ok), hist)
			} else if proj != ob.proj {
				o.fail("server:create:echo-differs-from-library", fmt.Sprintf("create echoed %s, the library parses %s", proj, ob.proj), hist)
			}
			if !exists {
				st.ideal[id], st.actual[id] = t, t
				o.nontr["create-"+q.f+"-"+b01(ob.ok)] = true
			} else {
				o.nontr["create-existing"] = true
			}
			continue
		case "LIST":
			o.evals++
			o.dist[q.kind]++
			e := &evalCtx{p: o.p, ren: map[string]string{}}
			var kids []*node
			for id, t := range st.ideal {
				kids = append(kids, &node{kids: []*node{A(id), t}})
			}
			ob := e.expect("found", L("PFiles", kids...), true)
			if code != 200 || ob.proj != proj {
				// name the cause if the code's own terms explain it
				kids = nil
				for id, t := range st.actual {
					kids = append(kids, &node{kids: []*node{A(id), t}})
				}
				oa := e.expect("found", L("PFiles", kids...), true)
				if code == 200 && oa.proj == proj {
					c := ""
					for id, cs := range st.cause {
						if cs != "" {
							c = cs
							st.ideal[id] = st.actual[id]
							st.cause[id] = ""
						}
					}
					o.fail("server:"+c+"-alters-stored-file", fmt.Sprintf("GET /files after %s: %s, the ideal store gives %s", c, proj, ob.proj), hist)
				} else {
					o.fail("server:list:differs-from-library", fmt.Sprintf("GET /files: %d %s, expected %s", code, proj, ob.proj), hist)
				}
			}
			continue
		case "DELETE":
			o.evals++
			o.dist[q.kind]++
			if code != 200 {
				o.fail("server:delete:status", fmt.Sprintf("DELETE answered %d", code), hist)
			}
			delete(st.ideal, q.id)
			delete(st.actual, q.id)
			delete(st.cause, q.id)
			// the property's own clause: after DELETE the id is not found
			c2, _ := s.do("GET", "/files/"+s.realID(q.id), "", "", nil)
			if c2 != 404 {
				o.fail("server:delete:still-found", fmt.Sprintf("GET after DELETE answered %d", c2), hist)
			}
			o.nontr["delete"] = true
			continue
		case "SEGBODY":
			o.evals++
			o.dist[q.kind]++
			e := &evalCtx{p: o.p, ren: map[string]string{}}
			ob := e.expect("found", L("PSeg", L("ParsedBody", A(q.f), A(strconv.Itoa(q.body))), A(sym(0)), A(sym(1))), true)
			if ok != ob.ok || (ok && ob.proj != proj) {
				o.fail("server:segbody:differs-from-library", fmt.Sprintf("POST /segment: %d %s, the library gives ok=%v %s", code, proj, ob.ok, ob.proj), hist)
			}
			if ok {
				k := 0
				base := L("Created", L("ParsedBody", A(q.f), A(strconv.Itoa(q.body))))
				if q.labels[1] == "1" {
					st.ideal[sym(k)], st.actual[sym(k)] = L("CreditOf", base, A(sym(k))), L("CreditOf", base, A(sym(k)))
					k++
				}
				if q.labels[2] == "1" {
					st.ideal[sym(k)], st.actual[sym(k)] = L("DebitOf", base, A(sym(k))), L("DebitOf", base, A(sym(k)))
				}
				o.nontr["segbody"] = true
			}
			continue
		case "ADDBATCH":
			o.evals++
			o.dist[q.kind]++
			t, found := st.ideal[q.id]
			switch {
			case q.labels[0] == "0":
				if ok {
					o.fail("server:addbatch:undecodable-accepted", "a batch body the library rejects was stored", hist)
				}
			case !found:
				if ok {
					o.fail("server:addbatch:unknown-file-accepted", "batch added to an unknown file", hist)
				}
			default:
				e := &evalCtx{p: o.p, ren: map[string]string{}}
				ob := e.expect("found", L("PAddBatch", t, A(strconv.Itoa(q.body))), true)
				if ob.ok != ok {
					o.fail("server:addbatch:differs-from-library", fmt.Sprintf("add batch answered %d, batch id already present=%v", code, !ob.ok), hist)
				}
				if ok {
					st.ideal[q.id] = L("WithBatch", t, A(strconv.Itoa(q.body)))
					st.actual[q.id] = L("WithBatch", st.actual[q.id], A(strconv.Itoa(q.body)))
					o.nontr["addbatch"] = true
				}
			}
			continue
		}
		// file-addressed requests compared through idealResponse
		check(q, code, proj)
		if nondet {
			o.dist["flatten-without-unique-answer(history cut)"]++
			return
		}
		tI, found := st.ideal[q.id]
		if !found {
			continue
		}
		tA := st.actual[q.id]
		touch := func(cause string) {
			st.actual[q.id] = L(map[string]string{"contents": "Created", "flatten": "FlatSrc", "segment": "SegSrc"}[cause], tA)
			if st.cause[q.id] == "" {
				st.cause[q.id] = cause
			}
		}
		switch q.kind {
		case "CONTENTS":
			touch("contents")
			o.nontr["contents-"+q.le+"-"+b01(ok)] = true
		case "BUILD":
			st.ideal[q.id] = L("Created", tI)
			st.actual[q.id] = L("Created", tA)
			o.nontr["build-"+b01(ok)] = true
		case "DELBATCH":
			st.ideal[q.id] = L("WithoutBatch", tI, A(strconv.Itoa(q.k)))
			st.actual[q.id] = L("WithoutBatch", tA, A(strconv.Itoa(q.k)))
			if ok {
				o.nontr["delbatch"] = true
			}
		case "FLATTEN":
			touch("flatten")
			if ok {
				st.ideal[sym(0)] = L("Flattened", L("Created", tI), A(sym(0)))
				st.actual[sym(0)] = L("Flattened", L("Created", tA), A(sym(0)))
				o.nontr["flatten"] = true
			}
		case "SEGMENT":
			touch("segment")
			if ok {
				k := 0
				if q.labels[1] == "1" {
					st.ideal[sym(k)] = L("CreditOf", L("Created", tI), A(sym(k)))
					st.actual[sym(k)] = L("CreditOf", L("Created", tA), A(sym(k)))
					k++
				}
				if q.labels[2] == "1" {
					st.ideal[sym(k)] = L("DebitOf", L("Created", tI), A(sym(k)))
					st.actual[sym(k)] = L("DebitOf", L("Created", tA), A(sym(k)))
				}
				o.nontr["segment-"+q.labels[1]+q.labels[2]] = true
			}
		case "VALIDATE":
			o.nontr["validate-"+b01(ok)] = true
		case "GET":
			o.nontr["get"] = true
		case "GETBATCH":
			if ok {
				o.nontr["getbatch"] = true
			}
		case "BALANCE":
			if !ok {
				// the attempt ran File.Create and maybe more on the stored object
				st.actual[q.id] = L("Balanced", tA, A(strconv.Itoa(q.k)), A(sym(0)))
				if st.cause[q.id] == "" {
					st.cause[q.id] = "failed-balance"
				}
				continue
			}
			o.nontr["balance"] = true
			// the property: the original file is still stored under its own ID
			c2, out := s.do("GET", "/files/"+s.realID(q.id), "", "", nil)
			fo, _ := pick(jsonObj(out), "file").(map[string]interface{})
			got, _ := fo["id"].(string)
			if n, ok := s.ren[got]; ok {
				got = n
			}
			if c2 != 200 || got != q.id {
				o.fail("server:balance-overwrites-id",
					fmt.Sprintf("after POST /files/%s/balance, GET /files/%s answers %d with file id %q: BalanceFile sets the new ID on the stored object and stores the same object again", q.id, q.id, c2, got), hist)
			}
			return // both IDs now share one object; the ideal store has no such thing
		}
	}
}

func oracle(args []string) {
	fs := flag.NewFlagSet("oracle", flag.ExitOnError)
	out := fs.String("out", "", "output directory")
	n := fs.Int("n", 300, "histories")
	corpus := fs.String("corpus", "", "corpus directory")
	fs.Parse(args)
	p := loadPools()
	tv, jv := classifyPools(p)
	o := &orun{p: p, dist: map[string]int{}, nontr: map[string]bool{}}
	var samples []interface{}
	for _, h := range corpusHistories(*corpus) {
		o.history(nil, h, len(h))
	}
	r := rng.FromEnv(1700)
	for i := 0; i < *n; i++ {
		g := newGen(r.Fork(), p, tv, jv)
		before := len(o.fails)
		o.history(g, nil, g.r.Range(4, 12))
		_ = before
	}
	w := hx.Create(filepath.Join(*out, "oracle.jsonl"))
	seen := map[string]int{}
	for _, f := range o.fails {
		seen[f.Key]++
		if seen[f.Key] > 20 {
			continue
		}
		b, _ := json.Marshal(f)
		w.Printf("%s\n", b)
	}
	var classes []string
	for k := range o.nontr {
		classes = append(classes, k)
	}
	sort.Strings(classes)
	samples = append(samples, map[string]interface{}{"classes_seen": classes})
	for i, f := range o.fails {
		if i >= 2 {
			break
		}
		samples = append(samples, f.Case)
	}
	sum := map[string]interface{}{
		"kind": "summary", "evaluations": o.evals, "distinct_nontrivial": len(o.nontr),
		"rule":         "evaluation = one request whose answer was compared with the library on an independent copy of the stored file; distinct = (endpoint, outcome) classes reached with a stored file",
		"distribution": o.dist, "samples": samples,
		"pools": map[string]int{"text": len(p.text), "json": len(p.jsonB), "batches": len(p.batches), "text_valid": len(tv), "json_valid": len(jv)},
	}
	b, _ := json.Marshal(sum)
	w.Printf("%s\n", b)
	w.Close()
	fmt.Printf("oracle: %d histories, %d evaluations, %d failures\n", *n, o.evals, len(o.fails))
}

func replay(args []string) {
	if len(args) < 1 {
		fmt.Fprintln(os.Stderr, "usage: c17 replay file")
		os.Exit(2)
	}
	bs, err := os.ReadFile(args[0])
	if err != nil {
		fmt.Fprintln(os.Stderr, err)
		os.Exit(2)
	}
	var c struct {
		Input struct {
			Requests []string `json:"requests"`
			Mode     string   `json:"mode"`
		} `json:"input"`
		Requests []string `json:"requests"`
		Mode     string   `json:"mode"`
	}
	json.Unmarshal(bs, &c)
	reqs := c.Input.Requests
	if len(reqs) == 0 {
		reqs = c.Requests
	}
	p := loadPools()
	if c.Input.Mode == "lib" || c.Mode == "lib" {
		libReplay(p, reqs)
		return
	}
	if c.Input.Mode == "share" || c.Mode == "share" {
		shareReplay(p, reqs)
		return
	}
	o := &orun{p: p, dist: map[string]int{}, nontr: map[string]bool{}}
	o.history(nil, reqs, len(reqs))
	for _, l := range reqs {
		fmt.Println("  " + l)
	}
	if len(o.fails) == 0 {
		fmt.Println("replay: no failure")
		return
	}
	for _, f := range o.fails {
		fmt.Printf("FAIL %s: %s\n", f.Key, f.What)
	}
	os.Exit(1)
}

// C17, phase 2: the discharged library claims as direct checks on the STORED OBJECT.
//
//	lib -out d -n N -corpus dir
//
// The repository behind the real server.MakeHTTPHandler is kept at hand; before and after every
// request each stored *ach.File is photographed (json.Marshal of the object and the String()
// rendering of every record in writer order — both read-only by C14) and the two photographs are
// diffed field by field.  What the theorems of coq/Props/C17Lib.v say about the model is asked of
// the code, per request class:
//
//	read class (get, list, validate, get batch, list batches): the stored objects are byte-identical
//	    afterwards, whatever they were (C17_readonly_discharged)
//	create class (contents, build): the only fields that may change are the ones File.Create writes
//	    (file control, batch numbers <= 1) — and nothing at all when the object went through Create
//	    since its last edit (C17_create_idempotent_discharged); the same request a second time
//	    never changes anything (Create twice = Create once)
//	derive class (flatten, segment): as the create class for the file level; below it exactly the
//	    fields Batch.build writes through the *EntryDetail pointers the derived file shares with
//	    its source may change (known findings server:flatten/segment-alters-stored-file)
//	balance: reported only (known findings)
package main

import (
	"encoding/json"
	"flag"
	"fmt"
	"os"
	"path/filepath"
	"reflect"
	"regexp"
	"sort"
	"strings"

	kitlog "github.com/go-kit/log"
	"github.com/moov-io/ach"
	"github.com/moov-io/ach/server"

	"verifharness/internal/hx"
	"verifharness/internal/rng"
)

type libSrv struct {
	*srv
	repo server.Repository
	keep []*ach.File // every object ever seen in the store stays reachable: "%p" identifies it for the whole history
}

func newLibSrv(p *pools) *libSrv {
	repo := server.NewRepositoryInMemory(0, nil)
	svc := server.NewService(repo)
	return &libSrv{srv: &srv{h: server.MakeHTTPHandler(svc, repo, kitlog.NewNopLogger()), p: p, ren: map[string]string{}, known: map[string]bool{}}, repo: repo}
}

// photo of one stored object: flat map path -> value, of the JSON tree and of the record lines
type photo map[string]string

func flatten(prefix string, v interface{}, out photo) {
	switch x := v.(type) {
	case map[string]interface{}:
		for k, w := range x {
			flatten(prefix+"."+k, w, out)
		}
	case []interface{}:
		out[prefix+".#"] = fmt.Sprint(len(x))
		for i, w := range x {
			flatten(fmt.Sprintf("%s[%d]", prefix, i), w, out)
		}
	default:
		b, _ := json.Marshal(x)
		out[prefix] = string(b)
	}
}

func nilPtr(v interface{}) bool {
	rv := reflect.ValueOf(v)
	return !rv.IsValid() || (rv.Kind() == reflect.Ptr && rv.IsNil())
}

// recordLines renders every record of f in writer order with its own String(); neither the
// Writer nor IsADV is called (they install missing headers/controls), nil records are skipped
func recordLines(f *ach.File) (lines []string) {
	add := func(tag string, v interface{}) {
		if nilPtr(v) {
			return
		}
		s, ok := v.(interface{ String() string })
		if !ok {
			return
		}
		func() {
			defer func() {
				if r := recover(); r != nil {
					lines = append(lines, tag+":panic")
				}
			}()
			lines = append(lines, tag+":"+s.String())
		}()
	}
	add("FH", &f.Header)
	for bi, b := range f.Batches {
		t := fmt.Sprintf("B%d", bi)
		add(t+".H", b.GetHeader())
		for ei, e := range b.GetEntries() {
			u := fmt.Sprintf("%s.E%d", t, ei)
			add(u, e)
			if e == nil {
				continue
			}
			add(u+".a02", e.Addenda02)
			for ai, a := range e.Addenda05 {
				add(fmt.Sprintf("%s.a05_%d", u, ai), a)
			}
			add(u+".a98", e.Addenda98)
			add(u+".a98r", e.Addenda98Refused)
			add(u+".a99", e.Addenda99)
			add(u+".a99d", e.Addenda99Dishonored)
			add(u+".a99c", e.Addenda99Contested)
		}
		for ei, e := range b.GetADVEntries() {
			add(fmt.Sprintf("%s.V%d", t, ei), e)
		}
		add(t+".C", b.GetControl())
		add(t+".VC", b.GetADVControl())
	}
	for bi := range f.IATBatches {
		b := &f.IATBatches[bi]
		t := fmt.Sprintf("I%d", bi)
		add(t+".H", b.Header)
		for ei, e := range b.Entries {
			u := fmt.Sprintf("%s.E%d", t, ei)
			add(u, e)
			if e == nil {
				continue
			}
			add(u+".a10", e.Addenda10)
			add(u+".a11", e.Addenda11)
			add(u+".a12", e.Addenda12)
			add(u+".a13", e.Addenda13)
			add(u+".a14", e.Addenda14)
			add(u+".a15", e.Addenda15)
			add(u+".a16", e.Addenda16)
			for ai, a := range e.Addenda17 {
				add(fmt.Sprintf("%s.a17_%d", u, ai), a)
			}
			for ai, a := range e.Addenda18 {
				add(fmt.Sprintf("%s.a18_%d", u, ai), a)
			}
			add(u+".a98", e.Addenda98)
			add(u+".a99", e.Addenda99)
		}
		add(t+".C", b.Control)
	}
	add("FC", &f.Control)
	add("FVC", &f.ADVControl)
	return
}

func takePhoto(f *ach.File) (ph photo) {
	ph = photo{}
	defer func() {
		if r := recover(); r != nil {
			ph["panic"] = fmt.Sprint(r)
		}
	}()
	bs, err := json.Marshal(f)
	if err != nil {
		ph["json.error"] = "1"
	} else {
		var tree interface{}
		json.Unmarshal(bs, &tree)
		flatten("json", tree, ph)
	}
	for _, l := range recordLines(f) {
		i := strings.Index(l, ":")
		ph["text."+l[:i]] = l[i+1:]
	}
	// File.validateOpts is not part of the JSON form but steers Create and Validate
	if o := f.GetValidation(); o != nil {
		ob, _ := json.Marshal(o)
		var tree interface{}
		json.Unmarshal(ob, &tree)
		flatten("validateOpts", tree, ph)
	} else {
		ph["validateOpts"] = "nil"
	}
	return
}

// all stored objects, by pointer identity as well as by ID (balance stores one object twice)
func (s *libSrv) photos() map[string]photo {
	out := map[string]photo{}
	for _, f := range s.repo.FindAllFiles() {
		if f == nil {
			continue
		}
		s.keep = append(s.keep, f)
		out[fmt.Sprintf("%p", f)] = takePhoto(f)
	}
	return out
}

// ID -> object identity
func (s *libSrv) storeMap() map[string]string {
	out := map[string]string{}
	for _, f := range s.repo.FindAllFiles() {
		if f != nil {
			if g, err := s.repo.FindFile(f.ID); err == nil && g != nil {
				out[f.ID] = fmt.Sprintf("%p", g)
			}
		}
	}
	return out
}

func (s *libSrv) ptrOf(sym string) string {
	f, err := s.repo.FindFile(s.realID(sym))
	if err != nil || f == nil {
		return ""
	}
	return fmt.Sprintf("%p", f)
}

var numRe = regexp.MustCompile(`^json\.(batches|IATBatches)\[\d+\]\.(batchHeader|IATBatchHeader)\.batchNumber$`)

var idxRe = regexp.MustCompile(`\[\d+\]|_\d+|(\.[BIEV])\d+`)

// field classes of a changed path: indices dropped, JSON and text views kept apart
func pathClass(p string) string {
	return idxRe.ReplaceAllString(p, "$1")
}

func diffPhoto(a, b photo) (changed []string) {
	seen := map[string]bool{}
	for k, v := range a {
		if w, ok := b[k]; !ok || w != v {
			seen[pathClass(k)] = true
		}
	}
	for k := range b {
		if _, ok := a[k]; !ok {
			seen[pathClass(k)] = true
		}
	}
	for k := range seen {
		changed = append(changed, k)
	}
	sort.Strings(changed)
	return
}

// ---- what each layer of the library is modelled to write

// File.Create (Model/Offsets.v file_create + Proto/ServerLib.v lcreate): the file control and batch numbers
var fileCreateWrites = []*regexp.Regexp{
	regexp.MustCompile(`^json\.fileControl\.`),
	regexp.MustCompile(`^json\.fileADVControl\.`),
	regexp.MustCompile(`^text\.(FC|FVC)$`),
	regexp.MustCompile(`^json\.(batches|IATBatches|NotificationOfChange|ReturnEntries)\.(batchHeader|IATBatchHeader|batchControl|advBatchControl)\.batchNumber$`),
	regexp.MustCompile(`^text\.[BI]\.(H|C|VC)$`),
}

// Batch.build through shared *EntryDetail pointers (Model/Offsets.v retrace; addenda sequence numbers)
var batchBuildEntryWrites = []*regexp.Regexp{
	regexp.MustCompile(`^json\.(batches|IATBatches|NotificationOfChange|ReturnEntries)\.(entryDetails|IATEntryDetails)\.traceNumber$`),
	regexp.MustCompile(`^json\.(batches|IATBatches|NotificationOfChange|ReturnEntries)\.(entryDetails|IATEntryDetails)\.addenda\w*\.(entryDetailSequenceNumber|sequenceNumber)$`),
	regexp.MustCompile(`^json\.(batches|NotificationOfChange|ReturnEntries)\.advEntryDetails\.sequenceNumber$`),
	regexp.MustCompile(`^text\.[BI]\.[EV]`),
}

func within(changed []string, sets ...[]*regexp.Regexp) (outside []string) {
	for _, c := range changed {
		ok := false
		for _, set := range sets {
			for _, re := range set {
				if re.MatchString(c) {
					ok = true
				}
			}
		}
		if !ok {
			outside = append(outside, c)
		}
	}
	return
}

func reqClass(kind string) string {
	switch kind {
	case "GET", "LIST", "VALIDATE", "GETBATCH", "LISTBATCHES":
		return "read"
	case "CONTENTS", "BUILD":
		return "create"
	case "FLATTEN", "SEGMENT":
		return "derive"
	case "SEGBODY":
		return "read" // addresses no stored file
	case "BALANCE":
		return "balance"
	}
	return "edit" // CREATE, DELETE, ADDBATCH, DELBATCH
}

type librun struct {
	p         *pools
	fails     []failure
	evals     int
	dist      map[string]int
	nontr     map[string]bool
	changes   map[string]map[string]int // request kind -> field class -> count
	firsts    map[string][]string       // situation -> first history that showed it
	replaying bool                      // the history already holds the repeated requests
}

func (o *librun) fail(key, what string, hist []string) {
	o.fails = append(o.fails, failure{"fail", key, what, map[string]interface{}{"requests": append([]string{}, hist...), "mode": "lib"}})
}

func (o *librun) sample(kind string, created bool, changed []string, hist []string) {
	var lv []string
	for _, c := range changed {
		if strings.HasPrefix(c, "json.") && !strings.HasPrefix(c, "json.fileControl.") && !strings.HasPrefix(c, "json.fileADVControl.") {
			lv = append(lv, c[5:])
		} else if strings.HasPrefix(c, "json.file") {
			lv = append(lv, "fileControl")
		}
	}
	sort.Strings(lv)
	var u []string
	for i, c := range lv {
		if i == 0 || lv[i-1] != c {
			u = append(u, c)
		}
	}
	k := fmt.Sprintf("%s on a file that went through Create=%v: %s", kind, created, strings.Join(u, " "))
	if _, ok := o.firsts[k]; !ok && len(o.firsts) < 200 {
		o.firsts[k] = append([]string{}, hist...)
	}
}

func (o *librun) note(kind string, changed []string) {
	m := o.changes[kind]
	if m == nil {
		m = map[string]int{}
		o.changes[kind] = m
	}
	for _, c := range changed {
		m[c]++
	}
}

// history: gen == nil replays lines
func (o *librun) history(g *genState, lines []string, steps int) {
	s := newLibSrv(o.p)
	var hist []string
	created := map[string]bool{} // pointer -> the object went through a successful File.Create since its last edit
	shared := map[string]bool{}  // pointer -> shares entries with another stored object (flatten/segment relatives)
	for j := 0; j < steps; j++ {
		var q *request
		if g != nil {
			q = g.next(s.srv, true)
		} else {
			if j >= len(lines) {
				break
			}
			q = parseRequest(lines[j])
			if q == nil {
				continue
			}
		}
		before := s.photos()
		mapBefore := s.storeMap()
		target := s.ptrOf(q.id)
		ngenBefore := len(s.gens)
		code, _ := s.run(q, true)
		hist = append(hist, q.line())
		if code == 598 || code == 599 {
			return // hangs and panics are the oracle's business
		}
		ok := statusClass(code) == "2xx"
		after := s.photos()
		cls := reqClass(q.kind)
		o.evals++
		o.dist[q.kind]++
		if cls == "read" || cls == "create" || cls == "derive" {
			// these handlers never assign to the map: an ID keeps its object (new IDs may appear)
			mapAfter := s.storeMap()
			for id, ptr := range mapBefore {
				if mapAfter[id] != ptr {
					o.fail("storelib:"+strings.ToLower(q.kind)+":store-map-changed",
						fmt.Sprintf("%s %s: ID %s was bound to another object (or dropped) by a request that is modelled to leave the map alone", q.kind, q.id, id), hist)
				}
			}
		}
		for ptr, ph0 := range before {
			ph1, still := after[ptr]
			if !still {
				continue
			}
			changed := diffPhoto(ph0, ph1)
			if len(changed) == 0 {
				continue
			}
			self := ptr == target
			tag := q.kind
			if !self {
				tag += "(other file)"
			}
			o.note(tag, changed)
			if cls == "edit" || cls == "balance" {
				continue
			}
			o.sample(tag, created[ptr], changed, hist)
			// File.Create replaces a batch number only when it is <= 1 (Offsets.renumber)
			if cls == "create" || cls == "derive" {
				for k, v0 := range ph0 {
					if numRe.MatchString(k) && ph1[k] != v0 && atoi(v0) > 1 {
						if _, present := ph1[k]; present {
							o.fail("storelib:"+strings.ToLower(q.kind)+":provided-batch-number-rewritten",
								fmt.Sprintf("%s %s rewrote batch number %s (%s) to %s: File.Create keeps every number > 1", q.kind, q.id, v0, k, ph1[k]), hist)
							break
						}
					}
				}
			}
			where := "the addressed stored file"
			if !self {
				where = "ANOTHER stored file"
			}
			switch {
			case cls == "read":
				o.fail("storelib:"+strings.ToLower(q.kind)+":stored-file-changed",
					fmt.Sprintf("%s %s changed %s: %v (Validate/JSON/batch lookups are read-only: C17_readonly_discharged)", q.kind, q.id, where, changed), hist)
			case !self || shared[ptr]:
				// records shared with a relative: only what Batch.build writes through entry pointers (+ Create on itself)
				if out := within(changed, fileCreateWrites, batchBuildEntryWrites); len(out) > 0 {
					o.fail("storelib:"+strings.ToLower(q.kind)+":shared-records:unmodelled-field-changed",
						fmt.Sprintf("%s %s changed %s outside what File.Create and Batch.build write: %v", q.kind, q.id, where, out), hist)
				} else if !self {
					o.nontr[strings.ToLower(q.kind)+"-rewrites-entries-of-a-relative"] = true
				}
			case cls == "create":
				if out := within(changed, fileCreateWrites); len(out) > 0 {
					o.fail("storelib:"+strings.ToLower(q.kind)+":unmodelled-field-changed",
						fmt.Sprintf("%s %s changed fields of the stored file that File.Create is not modelled to write: %v", q.kind, q.id, out), hist)
				} else if created[ptr] {
					o.fail("storelib:"+strings.ToLower(q.kind)+":created-file-changed",
						fmt.Sprintf("%s %s changed a stored file that went through File.Create since its last edit: %v (C17_create_idempotent_discharged)", q.kind, q.id, changed), hist)
				} else {
					o.nontr[strings.ToLower(q.kind)+"-retabulates-untabulated"] = true
				}
			case cls == "derive":
				top := within(changed, batchBuildEntryWrites) // what is left is file level
				if out := within(top, fileCreateWrites); len(out) > 0 {
					o.fail("storelib:"+strings.ToLower(q.kind)+":unmodelled-field-changed",
						fmt.Sprintf("%s %s changed fields of the stored file that neither File.Create nor Batch.build (through shared entries) is modelled to write: %v", q.kind, q.id, out), hist)
				} else if created[ptr] && len(top) > 0 {
					o.fail("storelib:"+strings.ToLower(q.kind)+":created-file-changed",
						fmt.Sprintf("%s %s changed file-level fields of a stored file that went through File.Create since its last edit: %v", q.kind, q.id, top), hist)
				}
				if len(top) < len(changed) {
					o.nontr[strings.ToLower(q.kind)+"-rewrites-shared-entries"] = true
				}
			}
		}
		// bookkeeping
		switch q.kind {
		case "BUILD", "CONTENTS":
			if target != "" {
				if ok {
					created[target] = true
					o.nontr[strings.ToLower(q.kind)+"-ok"] = true
				} else if q.kind == "BUILD" {
					created[target] = false
				}
			}
		case "FLATTEN", "SEGMENT":
			if target != "" && ok {
				created[target] = true
				if len(s.gens) > ngenBefore {
					shared[target] = true
					for k := ngenBefore; k < len(s.gens); k++ {
						if p := s.ptrOf(fmt.Sprintf("g%d", k)); p != "" {
							shared[p] = true
						}
					}
				}
				o.nontr[strings.ToLower(q.kind)+"-ok"] = true
			}
		case "ADDBATCH", "DELBATCH", "BALANCE":
			if target != "" {
				created[target] = false
			}
		case "VALIDATE", "GET", "GETBATCH", "LISTBATCHES":
			if target != "" {
				o.nontr[strings.ToLower(q.kind)+"-on-stored-"+b01(created[target])] = true
			}
		}
		// Create twice = Create once: the same create-running request again changes nothing at all
		if (cls == "create" || cls == "derive") && target != "" && ok && !shared[target] && !o.replaying {
			mid := s.photos()
			q2 := *q
			s.run(&q2, true)
			hist = append(hist, q2.line())
			o.evals++
			o.dist[q.kind+"(again)"]++
			end := s.photos()
			if ch := diffPhoto(mid[target], end[target]); len(ch) > 0 && end[target] != nil {
				o.fail("storelib:"+strings.ToLower(q.kind)+":second-call-changed-stored-file",
					fmt.Sprintf("%s %s a second time changed the stored file: %v (File.Create twice = once: C17_create_idempotent_discharged)", q.kind, q.id, ch), hist)
			}
			if cls == "derive" && len(s.gens) > ngenBefore {
				shared[target] = true
			}
		}
	}
}

func libMode(args []string) {
	fs := flag.NewFlagSet("lib", flag.ExitOnError)
	out := fs.String("out", "", "output directory")
	n := fs.Int("n", 300, "histories")
	corpus := fs.String("corpus", "", "corpus directory")
	fs.Parse(args)
	p := loadPools()
	tv, jv := classifyPools(p)
	o := &librun{p: p, dist: map[string]int{}, nontr: map[string]bool{}, changes: map[string]map[string]int{}, firsts: map[string][]string{}}
	for _, h := range corpusHistories(*corpus) {
		o.history(nil, h, len(h))
	}
	r := rng.FromEnv(1717)
	for i := 0; i < *n; i++ {
		g := newGen(r.Fork(), p, tv, jv)
		o.history(g, nil, g.r.Range(4, 12))
	}
	w := hx.Create(filepath.Join(*out, "lib.jsonl"))
	seen := map[string]int{}
	for _, f := range o.fails {
		seen[f.Key]++
		if seen[f.Key] > 20 {
			continue
		}
		b, _ := json.Marshal(f)
		w.Printf("%s\n", b)
	}
	var classes []string
	for k := range o.nontr {
		classes = append(classes, k)
	}
	sort.Strings(classes)
	sum := map[string]interface{}{
		"kind": "summary", "evaluations": o.evals, "distinct_nontrivial": len(o.nontr),
		"rule":         "evaluation = one request with all stored objects photographed (JSON tree + record lines) before and after; distinct = (request class, situation) classes reached",
		"distribution": o.dist, "samples": []interface{}{map[string]interface{}{"classes_seen": classes}},
		"changes": o.changes, "change_samples": o.firsts,
	}
	b, _ := json.Marshal(sum)
	w.Printf("%s\n", b)
	w.Close()
	fmt.Printf("lib: %d histories, %d evaluations, %d failures\n", *n, o.evals, len(o.fails))
}

// libReplay re-runs one recorded history with the stored objects photographed
func libReplay(p *pools, reqs []string) {
	o := &librun{p: p, dist: map[string]int{}, nontr: map[string]bool{}, changes: map[string]map[string]int{}, firsts: map[string][]string{}}
	o.replaying = true
	o.history(nil, reqs, len(reqs))
	for _, l := range reqs {
		fmt.Println("  " + l)
	}
	if len(o.fails) == 0 {
		fmt.Println("replay: no failure")
		return
	}
	for _, f := range o.fails {
		fmt.Printf("FAIL %s: %s\n", f.Key, f.What)
	}
	os.Exit(1)
}

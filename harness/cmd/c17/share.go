// C17, phase 4: records shared BETWEEN stored files (coq/Proto/ServerShare.v).
//
//	share -out d -n N -corpus dir
//
// Random request histories — derive files (flatten, segment), then operate on the derived ones
// and on their sources, no admissibility filter — go through the real server.MakeHTTPHandler.
// The repository behind the handler is kept at hand.  After EVERY request every stored file is
// written down twice over: what its JSON shows of the modelled fields (File.ID, file control,
// per batch header number / ODFI / service class / control, per entry the trace number) and
// the POINTER GRAPH below it (which *ach.File, which Batcher / IAT batch header, which
// *EntryDetail — renamed in order of first appearance, so equal lines = isomorphic graphs).
// The extracted machine of ServerShare.v must print the same line after the same request.
//
// What only the library can know labels the request and is read off the real objects: how a
// body decodes (an independent parse), which receiver entries a consolidated / split batch
// holds and in which order (by pointer identity; by content when no pointer matches, so that
// a copying implementation still gets its labels and then differs in the graph), the control
// record a Batch.Create computed, header verdicts.  Everything else — which cells exist, who
// shares what, every batch number, every trace number, every file control, which IDs are
// bound to which object — is the model's prediction.
//
//	d/sharecases.txt  labelled requests      d/shareimpl.txt  observations of the implementation
//	d/share.json      counts for the evidence
package main

import (
	"encoding/json"
	"flag"
	"fmt"
	"os"
	"path/filepath"
	"reflect"
	"sort"
	"strconv"
	"strings"

	"github.com/moov-io/ach"

	"verifharness/internal/hx"
	"verifharness/internal/rng"
)

// ---------------------------------------------------------------- cells of a real object

// a batch cell: a Batcher (pointer inside the interface) or what an IATBatch value points to
type shBat struct {
	std ach.Batcher
	iat *ach.IATBatch
}

func shBats(f *ach.File) (out []shBat) {
	for _, b := range f.Batches {
		out = append(out, shBat{std: b})
	}
	for i := range f.IATBatches {
		out = append(out, shBat{iat: &f.IATBatches[i]})
	}
	return
}

func (b shBat) key() interface{} {
	if b.std != nil {
		return b.std
	}
	return b.iat.Header
}

func (b shBat) ok() bool {
	if b.std != nil {
		return b.std.GetHeader() != nil
	}
	return b.iat.Header != nil
}

func (b shBat) ents() (out []interface{}) {
	if b.std != nil {
		for _, e := range b.std.GetEntries() {
			out = append(out, e)
		}
		return
	}
	for _, e := range b.iat.Entries {
		out = append(out, e)
	}
	return
}

func (b shBat) advEnts() (out []interface{}) {
	if b.std != nil {
		for _, e := range b.std.GetADVEntries() {
			out = append(out, e)
		}
	}
	return
}

func entTrace(e interface{}) int {
	switch x := e.(type) {
	case *ach.EntryDetail:
		return atoi0(x.TraceNumber)
	case *ach.IATEntryDetail:
		return atoi0(x.TraceNumber)
	}
	return 0
}

// content of an entry without its trace number (the only field a handler rewrites)
func entContent(e interface{}) string {
	switch x := e.(type) {
	case *ach.EntryDetail:
		c := *x
		c.TraceNumber = ""
		return "E" + c.String()
	case *ach.IATEntryDetail:
		c := *x
		c.TraceNumber = ""
		return "I" + c.String()
	}
	return "?"
}

// content of an ADV entry without the sequence number Batch.build assigns
func advContent(e interface{}) string {
	if x, ok := e.(*ach.ADVEntryDetail); ok {
		c := *x
		c.SequenceNumber = 0
		return "A" + c.String()
	}
	return "?"
}

func keepOf(o *ach.ValidateOpts) bool {
	return o != nil && (o.BypassOriginValidation || o.CustomTraceNumbers)
}

// IATBatch.validateOpts is unexported and has no accessor: read through reflection
func iatKeep(b *ach.IATBatch) bool {
	v := reflect.ValueOf(b).Elem().FieldByName("validateOpts")
	if !v.IsValid() || v.IsNil() {
		return false
	}
	o := v.Elem()
	return o.FieldByName("BypassOriginValidation").Bool() || o.FieldByName("CustomTraceNumbers").Bool()
}

func (b shBat) adv() bool { return b.std != nil && b.std.GetHeader().StandardEntryClassCode == ach.ADV }
func (b shBat) keep() bool {
	if b.std != nil {
		return keepOf(ach.VerifBatchValidation(b.std))
	}
	return iatKeep(b.iat)
}
func (b shBat) hdrOK() bool {
	if b.std != nil {
		return b.std.GetHeader().Validate() == nil
	}
	return b.iat.Header.Validate() == nil
}
func (b shBat) odfi() int {
	if b.std != nil {
		return first8(b.std.GetHeader().ODFIIdentificationField())
	}
	return first8(b.iat.Header.ODFIIdentificationField())
}
func (b shBat) svc() int {
	if b.std != nil {
		return b.std.GetHeader().ServiceClassCode
	}
	return b.iat.Header.ServiceClassCode
}
func (b shBat) num() int {
	if b.std != nil {
		return b.std.GetHeader().BatchNumber
	}
	return b.iat.Header.BatchNumber
}
func (b shBat) ctlPtr() *ach.BatchControl {
	if b.std != nil {
		return b.std.GetControl()
	}
	return b.iat.Control
}
func (b shBat) ctl() string { return lcCtl(b.ctlPtr()) }

func b3(a, b, c bool) string { return b01(a) + b01(b) + b01(c) }

func joinInts(xs []int, sep string) string {
	if len(xs) == 0 {
		return "_"
	}
	s := make([]string, len(xs))
	for i, x := range xs {
		s[i] = strconv.Itoa(x)
	}
	return strings.Join(s, sep)
}

func joinU(xs []string, sep string) string {
	if len(xs) == 0 {
		return "_"
	}
	return strings.Join(xs, sep)
}

func fctlOf(f *ach.File) string {
	c := &f.Control
	return fmt.Sprintf("%d,%d,%d,%d,%d,%d", c.BatchCount, c.BlockCount, c.EntryAddendaCount, c.EntryHash, c.TotalDebitEntryDollarAmountInFile, c.TotalCreditEntryDollarAmountInFile)
}

func optBits(f *ach.File) string {
	o := f.GetValidation()
	if o == nil {
		o = &ach.ValidateOpts{}
	}
	return b3(o.SkipAll, o.AllowMissingFileHeader, o.AllowZeroBatches)
}

// inView: every batch has its header (a nil header is C14's business, outside this model)
func inView(f *ach.File) bool {
	for _, b := range shBats(f) {
		if !b.ok() {
			return false
		}
	}
	return true
}

// ---------------------------------------------------------------- labels: decoded bodies

func pbatchOf(b shBat) string {
	var ts []int
	for _, e := range b.ents() {
		ts = append(ts, entTrace(e))
	}
	return strings.Join([]string{b01(b.adv()), b01(b.hdrOK()), strconv.Itoa(b.odfi()), b01(b.keep()), strconv.Itoa(b.svc()),
		strconv.Itoa(b.num()), b.ctl(), joinInts(ts, ";")}, ":")
}

func pfileOf(f *ach.File) string {
	var bs, js []string
	for _, b := range shBats(f) {
		if b.std != nil {
			bs = append(bs, pbatchOf(b))
		} else {
			js = append(js, pbatchOf(b))
		}
	}
	return strings.Join([]string{optBits(f), b01(keepOf(f.GetValidation())), b01(f.Header.Validate() == nil), fctlOf(f)}, ":") +
		"|" + joinU(bs, "+") + "|" + joinU(js, "+")
}

const noBatch = "0:0:0:0:0:0:0,0,0,0,0,0:_"
const noFile = "000:0:0:0,0,0,0,0,0|_|_"

// ---------------------------------------------------------------- a photograph of the receiver before the request

type shSnap struct {
	bats    []shBat
	keys    map[interface{}]int // batch identity -> position
	entPos  map[interface{}][2]int
	advPos  map[interface{}]int
	advCont [][]string
	advUsed [][]bool
	ents    [][]interface{}
	traces  [][]int
	nums    [][2]int
	content [][]string
	used    [][]bool
	ctlPtr  []*ach.BatchControl
	offPtr  []*ach.Offset
}

func offsetOf(b shBat) *ach.Offset {
	if b.std == nil {
		return nil
	}
	if vo, ok := b.std.(interface{ VerifOffset() *ach.Offset }); ok {
		return vo.VerifOffset()
	}
	return nil
}

func snapOf(f *ach.File) *shSnap {
	s := &shSnap{keys: map[interface{}]int{}, entPos: map[interface{}][2]int{}, advPos: map[interface{}]int{}}
	if f == nil {
		return s
	}
	s.bats = shBats(f)
	for k, b := range s.bats {
		s.keys[b.key()] = k
		es := b.ents()
		s.ents = append(s.ents, es)
		var ts []int
		var cs []string
		for j, e := range es {
			s.entPos[e] = [2]int{k, j}
			ts = append(ts, entTrace(e))
			cs = append(cs, entContent(e))
		}
		var ac []string
		for _, e := range b.advEnts() {
			s.advPos[e] = k
			ac = append(ac, advContent(e))
		}
		s.advCont = append(s.advCont, ac)
		s.advUsed = append(s.advUsed, make([]bool, len(ac)))
		s.traces = append(s.traces, ts)
		s.content = append(s.content, cs)
		s.used = append(s.used, make([]bool, len(es)))
		cn := 0
		if c := b.ctlPtr(); c != nil {
			cn = c.BatchNumber
		}
		s.nums = append(s.nums, [2]int{b.num(), cn})
		s.ctlPtr = append(s.ctlPtr, b.ctlPtr())
		s.offPtr = append(s.offPtr, offsetOf(b))
	}
	return s
}

// where the entries of a new batch sit in the receiver: by pointer, else by content
func (s *shSnap) match(nb shBat) (srcs []int, refs [][2]int, byContent int) {
	seen := map[int]bool{}
	for _, e := range nb.ents() {
		r, ok := s.entPos[e]
		if !ok {
			c := entContent(e)
		search:
			for k := range s.content {
				for j := range s.content[k] {
					if !s.used[k][j] && s.content[k][j] == c {
						r, ok = [2]int{k, j}, true
						byContent++
						break search
					}
				}
			}
		}
		if ok {
			s.used[r[0]][r[1]] = true
			refs = append(refs, r)
			seen[r[0]] = true
		}
	}
	for _, e := range nb.advEnts() {
		if k, ok := s.advPos[e]; ok {
			seen[k] = true
			continue
		}
		c := advContent(e)
	advSearch:
		for k := range s.advCont {
			for j := range s.advCont[k] {
				if !s.advUsed[k][j] && s.advCont[k][j] == c {
					s.advUsed[k][j] = true
					seen[k] = true
					byContent++
					break advSearch
				}
			}
		}
	}
	for k := range seen {
		srcs = append(srcs, k)
	}
	sort.Ints(srcs)
	return
}

// trace numbers / batch numbers of the receiver that differ from the photograph
func (s *shSnap) writes(nums bool) (ws []string) {
	for k, b := range s.bats {
		es := b.ents()
		for j := range s.ents[k] {
			if j < len(es) && es[j] == s.ents[k][j] {
				if t := entTrace(es[j]); t != s.traces[k][j] {
					ws = append(ws, fmt.Sprintf("T.%d.%d.%d", k, j, t))
				}
			}
		}
		if nums {
			cn := 0
			if c := b.ctlPtr(); c != nil {
				cn = c.BatchNumber
			}
			if b.num() != s.nums[k][0] || cn != s.nums[k][1] {
				ws = append(ws, fmt.Sprintf("N.%d.%d.%d", k, b.num(), cn))
			}
		}
	}
	return
}

// how far the trace loop of the Batch.Create of nb got: up to the first entry that still does
// not carry the ODFI (the loop assigns one to every entry it reaches unless the options say keep)
func reachOf(nb shBat) int {
	es := nb.ents()
	if nb.keep() {
		return len(es)
	}
	for j, e := range es {
		var field string
		switch x := e.(type) {
		case *ach.EntryDetail:
			field = x.TraceNumberField()
		case *ach.IATEntryDetail:
			field = x.TraceNumberField()
		}
		n, err := strconv.Atoi(field[:8])
		if err != nil || n != nb.odfi() {
			return j
		}
	}
	return len(es)
}

// ---------------------------------------------------------------- the observation line

type shareRun struct {
	p         *pools
	steps     int
	dist      map[string]int
	onRel     map[string]int // requests whose target shares cells with another stored file
	byContent int            // label entries found by content only
	outside   int            // histories cut short: an object left the view (nil batch header)
	httpDiff  int            // GET body != json.Marshal(stored object)
	hung      int
	sharedMax int
	samples   []string
	// direct oracle on the implementation (independent of the Coq model)
	keep     []*ach.File // every object ever seen in the store
	fails    []failure
	cross    map[string]int // request kind -> times it changed what another stored object shows
	crossEx  map[string]string
	evals    int
}

func (o *shareRun) symIDs(s *libSrv, clients []string) []string {
	ids := append([]string{}, clients...)
	for k := range s.gens {
		ids = append(ids, fmt.Sprintf("g%d", k))
	}
	sort.Strings(ids)
	return ids
}

func (o *shareRun) observe(s *libSrv, clients []string) (line string, ok bool) {
	fileN, batN, entN := map[*ach.File]int{}, map[interface{}]int{}, map[interface{}]int{}
	entOwners := map[interface{}]map[*ach.File]bool{}
	var items []string
	for _, sym := range o.symIDs(s, clients) {
		f, err := s.repo.FindFile(s.realID(sym))
		if err != nil || f == nil {
			continue
		}
		if !inView(f) {
			return "", false
		}
		if _, seen := fileN[f]; !seen {
			fileN[f] = len(fileN)
		}
		id := f.ID
		if r, ok := s.ren[id]; ok {
			id = r
		}
		var bs, js []string
		for _, b := range shBats(f) {
			if _, seen := batN[b.key()]; !seen {
				batN[b.key()] = len(batN)
			}
			var cells []string
			for _, e := range b.ents() {
				if _, seen := entN[e]; !seen {
					entN[e] = len(entN)
					entOwners[e] = map[*ach.File]bool{}
				}
				entOwners[e][f] = true
				cells = append(cells, fmt.Sprintf("E%d=%d", entN[e], entTrace(e)))
			}
			t := fmt.Sprintf("B%d:%s:%d:%d:%d:%s:[%s]", batN[b.key()], b3(b.adv(), b.keep(), b.hdrOK()), b.odfi(), b.svc(), b.num(), b.ctl(), strings.Join(cells, ","))
			if b.std != nil {
				bs = append(bs, t)
			} else {
				js = append(js, t)
			}
		}
		items = append(items, fmt.Sprintf("%s F%d id=%s o=%s k=%s h=%s c=%s B[%s] I[%s]", sym, fileN[f], id, optBits(f),
			b01(keepOf(f.GetValidation())), b01(f.Header.Validate() == nil), fctlOf(f), strings.Join(bs, " "), strings.Join(js, " ")))
		// the JSON the server answers with is the JSON of this object
		code, out := s.do("GET", "/files/"+s.realID(sym), "", "", nil)
		want, _ := json.Marshal(f)
		var a, b interface{}
		json.Unmarshal(want, &b)
		if code != 200 || json.Unmarshal(out, &a) != nil {
			o.httpDiff++
		} else if m, isMap := a.(map[string]interface{}); !isMap || !reflect.DeepEqual(m["file"], b) {
			o.httpDiff++
		}
	}
	n := 0
	for _, ow := range entOwners {
		if len(ow) > 1 {
			n++
		}
	}
	if n > o.sharedMax {
		o.sharedMax = n
	}
	if len(items) == 0 {
		return "-", true
	}
	return strings.Join(items, " ; "), true
}

// sharesWithOther: the object under sym holds an entry or batch that another stored object holds too
func (o *shareRun) sharesWithOther(s *libSrv, clients []string, sym string) bool {
	tgt, err := s.repo.FindFile(s.realID(sym))
	if err != nil || tgt == nil {
		return false
	}
	mine := map[interface{}]bool{}
	for _, b := range shBats(tgt) {
		if !b.ok() {
			return false
		}
		mine[b.key()] = true
		for _, e := range b.ents() {
			mine[e] = true
		}
	}
	for _, other := range o.symIDs(s, clients) {
		f, err := s.repo.FindFile(s.realID(other))
		if err != nil || f == nil || f == tgt {
			continue
		}
		for _, b := range shBats(f) {
			if !b.ok() {
				continue
			}
			if mine[b.key()] {
				return true
			}
			for _, e := range b.ents() {
				if mine[e] {
					return true
				}
			}
		}
	}
	return false
}

// ---------------------------------------------------------------- one request: labels, then the request

func groupLabel(snap *shSnap, nb shBat, o *shareRun) string {
	srcs, refs, bc := snap.match(nb)
	o.byContent += bc
	var rs []string
	for _, r := range refs {
		rs = append(rs, fmt.Sprintf("%d.%d", r[0], r[1]))
	}
	return joinInts(srcs, ";") + "/" + joinU(rs, ";") + "/" + nb.ctl()
}

// the split labels of a successful SegmentFile: per receiver batch what went to the credit / debit file
func splitLabels(snap *shSnap, credit, debit *ach.File, o *shareRun) string {
	type half struct {
		js    []int
		has   bool
		hdr   bool
		reach int
		ctl   string
	}
	n := len(snap.bats)
	cs, ds := make([]half, n), make([]half, n)
	fill := func(f *ach.File, into []half) {
		if f == nil {
			return
		}
		for _, nb := range shBats(f) {
			if !nb.ok() {
				continue
			}
			if _, whole := snap.keys[nb.key()]; whole {
				continue
			}
			srcs, refs, bc := snap.match(nb)
			o.byContent += bc
			if len(srcs) == 0 {
				continue
			}
			k := srcs[0]
			h := half{has: true, hdr: nb.hdrOK(), reach: reachOf(nb), ctl: nb.ctl()}
			for _, r := range refs {
				if r[0] == k {
					h.js = append(h.js, r[1])
				}
			}
			into[k] = h
		}
	}
	fill(credit, cs)
	fill(debit, ds)
	var out []string
	for k := 0; k < n; k++ {
		c, d := cs[k], ds[k]
		if c.ctl == "" {
			c.ctl = "0,0,0,0,0,0"
		}
		if d.ctl == "" {
			d.ctl = "0,0,0,0,0,0"
		}
		out = append(out, strings.Join([]string{joinInts(c.js, ";"), joinInts(d.js, ";"), b01(c.has), b01(d.has), b01(c.hdr), b01(d.hdr),
			strconv.Itoa(c.reach), strconv.Itoa(d.reach), c.ctl, d.ctl}, "/"))
	}
	return joinU(out, "+")
}

func hdrOKOf(f *ach.File) bool { return f != nil && f.Header.Validate() == nil }

// step sends q; returns the labelled case line and the nf status the model must print
func (o *shareRun) step(s *libSrv, q *request) (caseLine string, nf int) {
	tgt, _ := s.repo.FindFile(s.realID(q.id))
	found := tgt != nil
	snap := snapOf(tgt)
	nfOf := func(code int) int {
		if found {
			return 0
		}
		return code
	}
	switch q.kind {
	case "CREATE":
		e := &evalCtx{p: o.p, ren: map[string]string{}}
		v := e.eval(L("Parsed", A(q.f), A(strconv.Itoa(q.body)), A(strconv.Itoa(q.opts))))
		pf := noFile
		if v.bad == "" && v.f != nil && inView(v.f) {
			pf = pfileOf(v.f)
		}
		s.run(q, true)
		return fmt.Sprintf("CREATE %s %s %s", q.url, q.labels[0], pf), 0
	case "GET", "CONTENTS", "VALIDATE", "BUILD", "DELETE", "GETBATCH":
		code, _ := s.run(q, true)
		if q.kind == "DELETE" {
			return "DELETE " + q.id, 0
		}
		return q.kind + " " + q.id, nfOf(code)
	case "LIST":
		s.run(q, true)
		return "LIST", 0
	case "LISTBATCHES":
		s.run(q, true)
		return "LISTBATCHES " + q.id, 0
	case "ADDBATCH":
		b, dec := decodeBatch(o.p.batches[q.body])
		pb := noBatch
		if dec && b.GetHeader() != nil {
			pb = pbatchOf(shBat{std: b})
		}
		code, _ := s.run(q, true)
		if !dec {
			code = 0
		}
		return fmt.Sprintf("ADDBATCH %s %s %s", q.id, strings.Join(q.labels, " "), pb), nfOf(code)
	case "DELBATCH":
		pos := "-"
		if found {
			for i := len(tgt.Batches) - 1; i >= 0; i-- {
				if tgt.Batches[i].ID() == fmt.Sprintf("b%d", q.k) {
					pos = strconv.Itoa(i)
					break
				}
			}
		}
		code, _ := s.run(q, true)
		return fmt.Sprintf("DELBATCH %s %s", q.id, pos), nfOf(code)
	case "FLATTEN":
		before := len(s.gens)
		code, _ := s.run(q, true)
		if !found {
			return "FLATTEN " + q.id + " ERR _", code
		}
		if q.labels[0] == "1" && len(s.gens) > before {
			nf, _ := s.repo.FindFile(s.gens[before])
			if nf != nil && inView(nf) {
				var gs []string
				for _, nb := range shBats(nf) {
					gs = append(gs, groupLabel(snap, nb, o))
				}
				return fmt.Sprintf("FLATTEN %s OK %s %s", q.id, b01(hdrOKOf(nf)), joinU(gs, "+")), 0
			}
		}
		return fmt.Sprintf("FLATTEN %s ERR %s", q.id, joinU(snap.writes(false), "+")), 0
	case "SEGMENT", "SEGBODY":
		var body *ach.File
		head := "SEGMENT " + q.id
		if q.kind == "SEGBODY" {
			e := &evalCtx{p: o.p, ren: map[string]string{}}
			v := e.eval(L("ParsedBody", A(q.f), A(strconv.Itoa(q.body))))
			if v.bad != "" || v.f == nil || !inView(v.f) {
				// the decoder rejects the body before the endpoint runs: nothing happens
				s.run(q, true)
				return "LIST", 0
			}
			body = v.f
			head = "SEGBODY " + pfileOf(body)
			body.Create()
			snap = snapOf(body)
			found = true
		}
		before := len(s.gens)
		code, _ := s.run(q, true)
		if !found {
			return head + " ERR 0 _", code
		}
		if q.labels[0] == "1" {
			var credit, debit *ach.File
			k := before
			if q.labels[1] == "1" && k < len(s.gens) {
				credit, _ = s.repo.FindFile(s.gens[k])
				k++
			}
			if q.labels[2] == "1" && k < len(s.gens) {
				debit, _ = s.repo.FindFile(s.gens[k])
			}
			if (credit == nil || inView(credit)) && (debit == nil || inView(debit)) {
				return fmt.Sprintf("%s OK %s %s %s", head, b01(hdrOKOf(credit)), b01(hdrOKOf(debit)), splitLabels(snap, credit, debit, o)), 0
			}
		}
		if body != nil {
			return head + " ERR " + b01(body.Validate() == nil) + " _", 0
		}
		ws := snap.writes(true)
		valid := len(ws) > 0
		if !valid {
			valid = safe(func() {
				if tgt.Validate() != nil {
					panic("invalid")
				}
			}) == false
		}
		return fmt.Sprintf("%s ERR %s %s", head, b01(valid), joinU(ws, "+")), 0
	case "BALANCE":
		code, _ := s.run(q, true)
		if !found {
			return "BALANCE " + q.id + " _", code
		}
		var ls []string
		n := 0
		for k, b := range snap.bats {
			if b.std == nil {
				break
			}
			if offsetOf(b) == snap.offPtr[k] {
				break // WithOffset did not reach this batch
			}
			n = k + 1
		}
		for k := 0; k < n; k++ {
			b := snap.bats[k]
			res := "-"
			reach := reachOf(shBat{std: b.std})
			if b.ctlPtr() != snap.ctlPtr[k] {
				// build got to the control record: the trace loop ran over the entries as they were
				reach = len(snap.ents[k])
				var es []string
				for _, e := range b.ents() {
					if r, old := snap.entPos[e]; old && r[0] == k {
						es = append(es, fmt.Sprintf("o%d", r[1]))
					} else {
						es = append(es, fmt.Sprintf("f%d", entTrace(e)))
					}
				}
				res = joinU(es, ";") + "~" + b.ctl() + "~" + strconv.Itoa(b.svc())
			} else if len(snap.ents[k]) < reach {
				reach = len(snap.ents[k])
			}
			ok := q.labels[0] == "1" || k < n-1
			ls = append(ls, fmt.Sprintf("%d/%s/%s", reach, res, b01(ok)))
		}
		return fmt.Sprintf("BALANCE %s %s", q.id, joinU(ls, "+")), 0
	}
	s.run(q, true)
	return "LIST", 0
}

// ---------------------------------------------------------------- the direct oracle

// what an object shows of the modelled fields (no pointer names)
func objView(f *ach.File) string {
	var bs []string
	for _, b := range shBats(f) {
		if !b.ok() {
			bs = append(bs, "nil-header")
			continue
		}
		var ts []string
		for _, e := range b.ents() {
			ts = append(ts, strconv.Itoa(entTrace(e)))
		}
		bs = append(bs, fmt.Sprintf("%s:%d:%d:%d:%s:[%s]", b3(b.adv(), b.keep(), b.hdrOK()), b.odfi(), b.svc(), b.num(), b.ctl(), strings.Join(ts, ",")))
	}
	return fmt.Sprintf("id=%s o=%s c=%s [%s]", f.ID, optBits(f), fctlOf(f), strings.Join(bs, " "))
}

func cellsOf(f *ach.File) (bats, ents map[interface{}]bool) {
	bats, ents = map[interface{}]bool{}, map[interface{}]bool{}
	for _, b := range shBats(f) {
		if !b.ok() {
			continue
		}
		bats[b.key()] = true
		for _, e := range b.ents() {
			ents[e] = true
		}
		for _, e := range b.advEnts() {
			ents[e] = true
		}
	}
	return
}

func overlap(a, b map[interface{}]bool) bool {
	for k := range a {
		if b[k] {
			return true
		}
	}
	return false
}

type storePhoto struct {
	bound map[string]*ach.File // symbolic id -> object
	views map[*ach.File]string
}

func (o *shareRun) photo(s *libSrv, clients []string) storePhoto {
	ph := storePhoto{bound: map[string]*ach.File{}, views: map[*ach.File]string{}}
	for _, sym := range o.symIDs(s, clients) {
		f, err := s.repo.FindFile(s.realID(sym))
		if err != nil || f == nil {
			continue
		}
		ph.bound[sym] = f
		if _, ok := ph.views[f]; !ok {
			ph.views[f] = objView(f)
			known := false
			for _, k := range o.keep {
				if k == f {
					known = true
					break
				}
			}
			if !known {
				o.keep = append(o.keep, f)
			}
		}
	}
	return ph
}

// related: the objects connected to tgt through shared batch / entry pointers, over every object ever stored
func (o *shareRun) related(tgt *ach.File) map[*ach.File]bool {
	type cells struct{ b, e map[interface{}]bool }
	cs := map[*ach.File]cells{}
	for _, f := range o.keep {
		b, e := cellsOf(f)
		cs[f] = cells{b, e}
	}
	rel := map[*ach.File]bool{tgt: true}
	for changed := true; changed; {
		changed = false
		for _, f := range o.keep {
			if rel[f] {
				continue
			}
			for g := range rel {
				if overlap(cs[f].b, cs[g].b) || overlap(cs[f].e, cs[g].e) {
					rel[f] = true
					changed = true
					break
				}
			}
		}
	}
	return rel
}

func shareClass(kind string) string {
	switch kind {
	case "GET", "LIST", "VALIDATE", "GETBATCH", "LISTBATCHES", "CREATE", "SEGBODY":
		return "pure"
	case "DELETE", "ADDBATCH", "DELBATCH":
		return "edit"
	case "CONTENTS", "BUILD":
		return "create"
	}
	return "derive"
}

func (o *shareRun) fail(key, what string, hist []string) {
	o.fails = append(o.fails, failure{"fail", key, what, map[string]interface{}{"requests": append([]string{}, hist...), "mode": "share"}})
}

// judge: the statements of coq/Props/C17Share.v asked of the implementation, with the pointer
// graph read off the real objects:
//
//	no request but DELETE of that very ID unbinds or rebinds an ID                     (C17_delete_derived_keeps_source)
//	get/list/validate/batch lookups/create/segment-of-body change no stored object  (C17_pure_requests_change_nothing)
//	delete / add batch / delete batch change no object but the one addressed         (C17_edit_stays_in_object)
//	contents / build change only objects holding a batch of the one addressed       (C17_create_stays_in_batches)
//	flatten / segment / balance change only objects connected to it by shared records (C17_derive_stays_in_family)
//
// A change the statements allow in an object other than the one addressed is the known finding
// (the derive routes share records) and is reported under its key.
func (o *shareRun) judge(q *request, before, after storePhoto, hist []string) {
	o.evals++
	tgt := before.bound[q.id]
	for sym, f := range before.bound {
		g, still := after.bound[sym]
		if q.kind == "DELETE" && sym == q.id {
			if still {
				o.fail("share:delete:still-bound", fmt.Sprintf("DELETE %s: the ID is still bound", sym), hist)
			}
			continue
		}
		if !still {
			o.fail("share:"+strings.ToLower(q.kind)+":unbound-another-id",
				fmt.Sprintf("%s %s unbound ID %s", q.kind, q.id, sym), hist)
		} else if g != f {
			o.fail("share:"+strings.ToLower(q.kind)+":rebound-another-id",
				fmt.Sprintf("%s %s bound ID %s to another object", q.kind, q.id, sym), hist)
		}
	}
	cls := shareClass(q.kind)
	var tb map[interface{}]bool
	var rel map[*ach.File]bool
	if tgt != nil {
		tb, _ = cellsOf(tgt)
		if cls == "derive" {
			rel = o.related(tgt)
		}
	}
	for f, v0 := range before.views {
		v1, still := after.views[f]
		if !still || v1 == v0 || f == tgt {
			continue
		}
		allowed := false
		switch cls {
		case "create":
			fb, _ := cellsOf(f)
			allowed = tgt != nil && overlap(tb, fb)
		case "derive":
			allowed = rel[f]
		}
		if !allowed {
			o.fail("share:"+strings.ToLower(q.kind)+":changed-unrelated-file",
				fmt.Sprintf("%s %s changed what a stored file shows that shares nothing with it (class %s): %s -> %s", q.kind, q.id, cls, v0, v1), hist)
			continue
		}
		o.cross[q.kind]++
		if o.crossEx[q.kind] == "" {
			o.crossEx[q.kind] = strings.Join(hist, " / ")
		}
		key := "server:flatten-alters-stored-file"
		fb, _ := cellsOf(f)
		if q.kind == "SEGMENT" || (tgt != nil && overlap(tb, fb)) {
			key = "server:segment-alters-stored-file"
		}
		o.fail(key, fmt.Sprintf("%s %s changed what another stored file shows through the records the two share: %s -> %s", q.kind, q.id, v0, v1), hist)
	}
}

// ---------------------------------------------------------------- histories

// next: the generator of the oracle without its admissibility filter, biased towards
// deriving files and then operating on the derived ones and on their sources
func shareNext(g *genState, s *libSrv, j int) *request {
	r := g.r
	if j < 2 && r.Chance(3, 4) {
		q := &request{kind: "CREATE", url: rng.Pick(r, g.ids)}
		if r.Bool() {
			q.f, q.body = "T", rng.Pick(r, g.valid)
		} else {
			q.f, q.body = "J", rng.Pick(r, g.jsonV)
		}
		if r.Chance(1, 5) {
			q.opts = r.Intn(len(optQueries))
		}
		return q
	}
	any := func() string {
		if len(s.gens) > 0 && r.Chance(1, 2) {
			return fmt.Sprintf("g%d", r.Intn(len(s.gens)))
		}
		return rng.Pick(r, g.ids)
	}
	switch k := r.Intn(100); {
	case k < 16:
		return &request{kind: "FLATTEN", id: any()}
	case k < 32:
		return &request{kind: "SEGMENT", id: any()}
	case k < 40:
		return &request{kind: "BALANCE", id: any(), k: r.Intn(len(g.p.offsets))}
	case k < 48:
		return &request{kind: "BUILD", id: any()}
	case k < 54:
		return &request{kind: "CONTENTS", id: any(), le: "LF"}
	case k < 58:
		return &request{kind: "DELETE", id: any()}
	case k < 64:
		q := &request{kind: "ADDBATCH", id: any(), body: r.Intn(len(g.p.batches))}
		g.added[q.id] = append(g.added[q.id], q.body)
		return q
	case k < 68:
		q := &request{kind: "DELBATCH", id: any(), k: r.Intn(len(g.p.batches))}
		if a := g.added[q.id]; len(a) > 0 && r.Chance(3, 4) {
			q.k = rng.Pick(r, a)
		}
		return q
	}
	return g.next(s.srv, true)
}

func (o *shareRun) history(g *genState, lines []string, steps int, cases, impl *hx.W) {
	s := newLibSrv(o.p)
	clients := []string{"c1", "c2", "c3"}
	cases.Printf("S\n")
	impl.Printf("S\n")
	var hist []string
	for j := 0; j < steps; j++ {
		var q *request
		if g != nil {
			q = shareNext(g, s, j)
		} else {
			if j >= len(lines) {
				break
			}
			if q = parseRequest(lines[j]); q == nil {
				continue
			}
		}
		rel := q.id != "" && o.sharesWithOther(s, clients, q.id)
		var before storePhoto
		if safe(func() { before = o.photo(s, clients) }) {
			o.outside++
			return
		}
		var line string
		var nf int
		if safe(func() { line, nf = o.step(s, q) }) {
			o.outside++
			return
		}
		if s.hung {
			o.hung++
			return
		}
		obs, ok := o.observe(s, clients)
		if !ok {
			o.outside++
			return
		}
		hist = append(hist, q.line())
		safe(func() { o.judge(q, before, o.photo(s, clients), hist) })
		cases.Printf("%s\n", line)
		impl.Printf("nf=%d\t%s\n", nf, obs)
		o.steps++
		o.dist[q.kind]++
		if rel {
			o.onRel[q.kind]++
			if len(o.samples) < 4 && (q.kind == "FLATTEN" || q.kind == "SEGMENT" || q.kind == "BALANCE") {
				o.samples = append(o.samples, strings.Join(hist, " / "))
			}
		}
	}
}

func shareMode(args []string) {
	fs := flag.NewFlagSet("share", flag.ExitOnError)
	out := fs.String("out", "", "output directory")
	n := fs.Int("n", 200, "histories")
	corpus := fs.String("corpus", "", "corpus directory")
	fs.Parse(args)
	p := loadPools()
	tv, jv := classifyPools(p)
	o := &shareRun{p: p, dist: map[string]int{}, onRel: map[string]int{}, cross: map[string]int{}, crossEx: map[string]string{}}
	cases := hx.Create(filepath.Join(*out, "sharecases.txt"))
	impl := hx.Create(filepath.Join(*out, "shareimpl.txt"))
	for _, h := range corpusHistories(*corpus) {
		o.history(nil, h, len(h), cases, impl)
	}
	r := rng.FromEnv(1704)
	for i := 0; i < *n; i++ {
		g := newGen(r.Fork(), p, tv, jv)
		o.history(g, nil, g.r.Range(8, 16), cases, impl)
	}
	cases.Close()
	impl.Close()
	summ := map[string]interface{}{
		"steps": o.steps, "distribution": o.dist, "requests_on_files_sharing_cells": o.onRel,
		"label_entries_found_by_content_only": o.byContent, "histories_cut_object_outside_view": o.outside,
		"get_body_differs_from_stored_object": o.httpDiff, "hung": o.hung, "max_entries_shared_between_stored_files": o.sharedMax,
		"samples": o.samples,
	}
	summ["requests_that_changed_another_stored_file"] = o.cross
	summ["first_history_per_kind"] = o.crossEx
	bs, _ := json.MarshalIndent(summ, "", " ")
	os.WriteFile(filepath.Join(*out, "share.json"), bs, 0o644)
	w := hx.Create(filepath.Join(*out, "share.jsonl"))
	seenKey := map[string]int{}
	for _, f := range o.fails {
		seenKey[f.Key]++
		if seenKey[f.Key] > 20 {
			continue
		}
		b, _ := json.Marshal(f)
		w.Printf("%s\n", b)
	}
	nontr := 0
	for _, n := range o.onRel {
		nontr += n
	}
	sb, _ := json.Marshal(map[string]interface{}{"kind": "summary", "evaluations": o.evals, "distinct_nontrivial": len(o.onRel),
		"rule": "request kinds that were sent to a stored file sharing batch or entry records with another stored file",
		"distribution": o.dist, "samples": o.samples})
	w.Printf("%s\n", sb)
	w.Close()
}

// shareReplay re-runs one history with the direct oracle of the share mode
func shareReplay(p *pools, reqs []string) {
	o := &shareRun{p: p, dist: map[string]int{}, onRel: map[string]int{}, cross: map[string]int{}, crossEx: map[string]string{}}
	d, _ := os.MkdirTemp("", "c17share")
	defer os.RemoveAll(d)
	cases := hx.Create(filepath.Join(d, "c"))
	impl := hx.Create(filepath.Join(d, "i"))
	o.history(nil, reqs, len(reqs), cases, impl)
	cases.Close()
	impl.Close()
	for _, l := range reqs {
		fmt.Println("  " + l)
	}
	if len(o.fails) == 0 {
		fmt.Println("replay: no failure")
		return
	}
	for _, f := range o.fails {
		fmt.Printf("FAIL %s: %s\n", f.Key, f.What)
	}
	os.Exit(1)
}

// Command gentest is the self test of internal/gen: it generates N files per SEC code
// (21 standard + IAT + ADV) and N mixed files per option set, checks each one
// (Create / Validate were run by the generator; here: Validate again, write with LF and
// CRLF, read back, clone equality) and prints a JSON summary.  Exit status 1 when
// anything failed.
package main

import (
	"encoding/json"
	"flag"
	"fmt"
	"os"
	"sort"
	"strings"
	"unicode/utf8"

	"github.com/moov-io/ach"

	"verifharness/internal/gen"
	"verifharness/internal/rng"
)

type group struct {
	Files          int            `json:"files"`
	Failures       int            `json:"failures"`
	Batches        int            `json:"batches"`
	Entries        int            `json:"entries"`
	TxCodes        map[int]int    `json:"-"`
	TxCodesSeen    []int          `json:"transaction_codes_seen"`
	ServiceClasses map[int]int    `json:"service_classes"`
	Categories     map[string]int `json:"entry_categories"`
	Addenda        map[string]int `json:"addenda_records"`
	Residues       [10]int        `json:"record_count_residues_mod10"`
	NonASCIIFiles  int            `json:"files_with_non_ascii"`
	OffsetEntries  int            `json:"offset_entries"`
	ZeroAmounts    int            `json:"zero_amount_entries"`
	MaxAmount      int            `json:"max_amount"`
	ReadBackValid  int            `json:"read_back_file_validate_ok"`
}

type failure struct {
	Group string `json:"group"`
	Index int    `json:"index"`
	Stage string `json:"stage"`
	Err   string `json:"error"`
}

type summary struct {
	Seed            uint64            `json:"seed"`
	N               int               `json:"n_per_group"`
	Files           int               `json:"files"`
	Failures        int               `json:"failures"`
	Retries         int64             `json:"retries"`
	LastRetry       string            `json:"last_retry"`
	ResiduesSeen    [10]int           `json:"record_count_residues_mod10"`
	AllResiduesSeen bool              `json:"all_residues_seen"`
	Fixtures        map[string]int    `json:"fixtures"`
	Groups          map[string]*group `json:"groups"`
	FirstFailures   []failure         `json:"first_failures"`
}

func newGroup() *group {
	return &group{TxCodes: map[int]int{}, ServiceClasses: map[int]int{}, Categories: map[string]int{}, Addenda: map[string]int{}}
}

var sum summary

func fail(g *group, name string, i int, stage string, err any) {
	g.Failures++
	sum.Failures++
	if len(sum.FirstFailures) < 25 {
		sum.FirstFailures = append(sum.FirstFailures, failure{Group: name, Index: i, Stage: stage, Err: fmt.Sprint(err)})
	}
}

func main() {
	n := flag.Int("n", 200, "files per SEC code / per mixed option set")
	dump := flag.String("dump", "", "write the first file of every group below this directory")
	flag.Parse()

	sum = summary{Seed: rng.Seed(), N: *n, Groups: map[string]*group{}, Fixtures: map[string]int{}}
	r := rng.FromEnv(0x67656e) // "gen"

	type job struct {
		name string
		make func(r *rng.R, i int) *ach.File
	}
	var jobs []job
	secs := append(gen.AllSECs(), ach.IAT, ach.ADV)
	for _, s := range secs {
		sec := s
		jobs = append(jobs, job{sec, func(r *rng.R, i int) *ach.File {
			// cycle through the option combinations so that each SEC sees all of them
			o := gen.Opts{
				Addenda:    i%2 == 1,
				NonASCII:   i%4 >= 2,
				Offset:     i%8 >= 4,
				MaxBatches: 1 + i%3,
				MaxEntries: 1 + i%5,
				NOC:        sec == ach.COR && i%3 == 0,
			}
			if sec == ach.ADV && i%2 == 0 {
				return gen.ADVFile(r)
			}
			o.OFAC = i%16 == 15
			return gen.FileOfSEC(r, sec, o)
		}})
	}
	jobs = append(jobs,
		job{"sec+returns", func(r *rng.R, i int) *ach.File {
			sec := secs[i%len(secs)]
			return gen.FileOfSEC(r, sec, gen.Opts{Returns: true, NOC: true, Addenda: i%2 == 0, NonASCII: i%3 == 0, MaxBatches: 4})
		}},
		job{"mixed-forward", func(r *rng.R, i int) *ach.File {
			return gen.File(r, gen.Opts{ForwardOnly: true, Addenda: true, Offset: true, IAT: i%2 == 0, NonASCII: i%4 == 0, MaxBatches: 5, MaxEntries: 6})
		}},
		job{"mixed-all", func(r *rng.R, i int) *ach.File {
			return gen.File(r, gen.Opts{IAT: true, Returns: true, NOC: true, Addenda: true, Offset: true, NonASCII: i%2 == 0, MinBatches: 1, MaxBatches: 6})
		}},
		job{"mixed-default", func(r *rng.R, i int) *ach.File { return gen.File(r, gen.Opts{}) }},
		job{"mixed-subset", func(r *rng.R, i int) *ach.File {
			return gen.File(r, gen.Opts{SECs: []string{ach.PPD, ach.CCD, ach.WEB, ach.COR}, Returns: true, Offset: true, MaxBatches: 3})
		}},
	)

	for _, j := range jobs {
		g := newGroup()
		sum.Groups[j.name] = g
		fr := r.Fork()
		for i := 0; i < *n; i++ {
			check(g, j.name, i, fr, j.make, *dump)
		}
		for c := range g.TxCodes {
			g.TxCodesSeen = append(g.TxCodesSeen, c)
		}
		sort.Ints(g.TxCodesSeen)
		for k, v := range g.Residues {
			sum.ResiduesSeen[k] += v
		}
	}
	sum.AllResiduesSeen = true
	for _, v := range sum.ResiduesSeen {
		if v == 0 {
			sum.AllResiduesSeen = false
		}
	}
	sum.Retries = gen.Retries()
	sum.LastRetry = gen.LastRetry()

	if repo := os.Getenv("VERIF_REPO"); repo != "" {
		a, js := gen.Fixtures(repo)
		sum.Fixtures["ach"] = len(a)
		sum.Fixtures["json"] = len(js)
		ok := 0
		for _, p := range a {
			if _, err := ach.ReadFile(p); err == nil {
				ok++
			}
		}
		sum.Fixtures["ach_parse_ok"] = ok
	}

	out, _ := json.MarshalIndent(sum, "", " ")
	fmt.Println(string(out))
	if sum.Failures > 0 {
		os.Exit(1)
	}
}

func check(g *group, name string, i int, r *rng.R, mk func(*rng.R, int) *ach.File, dump string) {
	g.Files++
	sum.Files++
	var f *ach.File
	func() {
		defer func() {
			if p := recover(); p != nil {
				fail(g, name, i, "generate(panic)", p)
				f = nil
			}
		}()
		f = mk(r, i)
	}()
	if f == nil {
		return
	}
	defer func() {
		if p := recover(); p != nil {
			fail(g, name, i, "check(panic)", p)
		}
	}()
	if err := f.Validate(); err != nil {
		fail(g, name, i, "validate", err)
		return
	}
	account(g, f)

	lf, err := gen.Text(f, false)
	if err != nil {
		fail(g, name, i, "write", err)
		return
	}
	crlf, err := gen.Text(f, true)
	if err != nil {
		fail(g, name, i, "write-crlf", err)
		return
	}
	if dump != "" && i == 0 {
		_ = os.MkdirAll(dump, 0o755)
		_ = os.WriteFile(dump+"/"+name+".ach", []byte(lf), 0o644)
	}
	lines := strings.Split(strings.TrimSuffix(lf, "\n"), "\n")
	if len(lines)%10 != 0 {
		fail(g, name, i, "blocking", fmt.Sprintf("%d lines", len(lines)))
	}
	records := 0
	for _, l := range lines {
		if utf8.RuneCountInString(l) != 94 {
			fail(g, name, i, "line-width", fmt.Sprintf("%d runes: %q", utf8.RuneCountInString(l), l))
			return
		}
		if !strings.HasPrefix(l, "99999") {
			records++
		}
		if len(l) != 94 {
			// counted once per file below
			continue
		}
	}
	if len(lf) != len([]rune(lf)) {
		g.NonASCIIFiles++
	}
	g.Residues[records%10]++
	if strings.ReplaceAll(crlf, "\r\n", "\n") != lf {
		fail(g, name, i, "crlf-differs", "")
	}

	for _, txt := range []struct{ stage, s string }{{"read", lf}, {"read-crlf", crlf}} {
		back, err := gen.Parse(txt.s)
		if err != nil {
			fail(g, name, i, txt.stage, err)
			return
		}
		if len(back.Batches) != len(f.Batches) || len(back.IATBatches) != len(f.IATBatches) {
			fail(g, name, i, txt.stage+"-shape", fmt.Sprintf("batches %d/%d iat %d/%d", len(back.Batches), len(f.Batches), len(back.IATBatches), len(f.IATBatches)))
			return
		}
		if txt.stage == "read" {
			if back.Validate() == nil {
				g.ReadBackValid++
			}
			// not required, but cheap to know: does the parsed file render to the same text?
			if again, err := gen.Text(back, false); err != nil {
				fail(g, name, i, "re-write", err)
			} else if again != lf {
				g.Addenda["rewrite_differs_files"]++
			}
		}
	}

	// Clone: equal rendering, equal JSON, and independent of the original
	c := gen.Clone(f)
	ct, err := gen.Text(c, false)
	if err != nil || ct != lf {
		fail(g, name, i, "clone-text", err)
		return
	}
	j1, e1 := json.Marshal(f)
	j2, e2 := json.Marshal(c)
	if e1 != nil || e2 != nil || string(j1) != string(j2) {
		fail(g, name, i, "clone-json", fmt.Sprint(e1, e2))
		return
	}
	for _, b := range c.Batches {
		for _, e := range b.GetEntries() {
			e.Amount++
			e.IndividualName = "changed"
		}
		for _, e := range b.GetADVEntries() {
			e.Amount++
		}
		b.GetHeader().CompanyName = "changed"
	}
	for k := range c.IATBatches {
		for _, e := range c.IATBatches[k].Entries {
			e.Amount++
		}
	}
	c.Header.ImmediateOriginName = "changed"
	if again, err := gen.Text(f, false); err != nil || again != lf {
		fail(g, name, i, "clone-aliasing", err)
	}
}

func account(g *group, f *ach.File) {
	for _, b := range f.Batches {
		g.Batches++
		g.ServiceClasses[b.GetHeader().ServiceClassCode]++
		for _, e := range b.GetEntries() {
			g.Entries++
			g.TxCodes[e.TransactionCode]++
			g.Categories[e.Category]++
			if e.Amount == 0 {
				g.ZeroAmounts++
			}
			if e.Amount > g.MaxAmount {
				g.MaxAmount = e.Amount
			}
			if e.IndividualName == "OFFSET" {
				g.OffsetEntries++
			}
			if e.Addenda02 != nil {
				g.Addenda["02"]++
			}
			g.Addenda["05"] += len(e.Addenda05)
			if e.Addenda98 != nil {
				g.Addenda["98"]++
			}
			if e.Addenda98Refused != nil {
				g.Addenda["98refused"]++
			}
			if e.Addenda99 != nil {
				g.Addenda["99"]++
			}
			if e.Addenda99Dishonored != nil {
				g.Addenda["99dishonored"]++
			}
			if e.Addenda99Contested != nil {
				g.Addenda["99contested"]++
			}
		}
		for _, e := range b.GetADVEntries() {
			g.Entries++
			g.TxCodes[e.TransactionCode]++
			g.Categories[e.Category]++
			if e.Amount > g.MaxAmount {
				g.MaxAmount = e.Amount
			}
		}
	}
	for i := range f.IATBatches {
		b := &f.IATBatches[i]
		g.Batches++
		g.ServiceClasses[b.Header.ServiceClassCode]++
		for _, e := range b.Entries {
			g.Entries++
			g.TxCodes[e.TransactionCode]++
			g.Categories["IAT/"+e.Category]++
			if e.Amount == 0 {
				g.ZeroAmounts++
			}
			if e.Amount > g.MaxAmount {
				g.MaxAmount = e.Amount
			}
			g.Addenda["17"] += len(e.Addenda17)
			g.Addenda["18"] += len(e.Addenda18)
			if e.Addenda98 != nil {
				g.Addenda["IAT98"]++
			}
			if e.Addenda99 != nil {
				g.Addenda["IAT99"]++
			}
		}
	}
}

// Command c13: correspondence cases and direct oracle for property C13
// (Reversal flips every entry and yields a valid reversing file).
package main

import (
	"encoding/json"
	"flag"
	"fmt"
	"os"
	"path/filepath"
	"sort"
	"strconv"
	"strings"
	"time"

	"github.com/moov-io/ach"

	g "verifharness/internal/c1113"
	"verifharness/internal/hx"
	"verifharness/internal/rng"
)

func main() {
	if len(os.Args) < 2 {
		fmt.Fprintln(os.Stderr, "usage: c13 corr|oracle|replay ...")
		os.Exit(2)
	}
	switch os.Args[1] {
	case "corr":
		corr(os.Args[2:])
	case "oracle":
		oracle(os.Args[2:])
	case "replay":
		replay(os.Args[2:])
	default:
		fmt.Fprintln(os.Stderr, "unknown mode")
		os.Exit(2)
	}
}

// ---------------------------------------------------------------- cases

// Case: a forward file and the requested reversal date (minutes since 2020-01-01 UTC).
type Case struct {
	File g.FileSpec `json:"file"`
	When int        `json:"when"`
}

func (c Case) date() time.Time {
	return time.Date(2020, 1, 1, 0, 0, 0, 0, time.UTC).Add(time.Duration(c.When) * time.Minute)
}

var bothSEC = []string{ach.PPD, ach.CCD, ach.CTX, ach.WEB}

// every standard entry code
var entryCodes = []int{21, 22, 23, 24, 26, 27, 28, 29, 31, 32, 33, 34, 36, 37, 38, 39, 41, 42, 43, 44, 46, 47, 48, 49, 51, 52, 53, 54, 55, 56}

func isCredit(code int) bool { u := code % 10; return u >= 1 && u <= 4 }
func isDebit(code int) bool  { return code%10 >= 5 }
func isPrenote(code int) bool {
	switch code {
	case 23, 28, 33, 38, 43, 48, 53:
		return true
	}
	return false
}
func reversibleCode(code int) bool { return code != 53 && code != 54 }

func admits(scc, code int) bool {
	switch scc {
	case 220:
		return isCredit(code)
	case 225:
		return isDebit(code)
	}
	return true
}

func amountFor(r *rng.R, code int) int {
	if isPrenote(code) {
		return 0
	}
	switch r.Intn(6) {
	case 0:
		return 1
	case 1:
		return 99999999 // 8 digits: sums of a few stay inside the 12-digit control field
	}
	return 1 + r.Intn(500000)
}

// genFile: 1..maxB batches, each of a both-direction SEC, a service class and 1..maxE admissible codes.
func genFile(r *rng.R, maxB, maxE int, onlyReversible bool) g.FileSpec {
	var fs g.FileSpec
	tag := 1
	nb := r.Range(1, maxB)
	for b := 0; b < nb; b++ {
		scc := rng.Pick(r, []int{200, 220, 225})
		bs := g.BatchSpec{Kind: "std", SEC: rng.Pick(r, bothSEC), SCC: scc, Number: b + 1, Company: "121042882", Trace0: 1 + r.Intn(50)}
		if r.Chance(1, 60) {
			bs.Desc = rng.Pick(r, []string{"PRENOTE", "Prenote"}) // every amount must then be zero
		}
		ne := r.Range(1, maxE)
		// a batch is often drawn from one or two codes only, so single-direction outcomes of mixed batches occur
		pool := entryCodes
		if r.Chance(1, 3) {
			pool = []int{rng.Pick(r, entryCodes), rng.Pick(r, entryCodes)}
		}
		for e := 0; e < ne; e++ {
			var code int
			for tries := 0; ; tries++ {
				code = rng.Pick(r, pool)
				if tries > 20 {
					code = rng.Pick(r, entryCodes)
				}
				if admits(scc, code) && (!onlyReversible || reversibleCode(code)) {
					break
				}
			}
			es := g.EntrySpec{Code: code, Amount: amountFor(r, code), Tag: tag}
			if bs.Desc != "" {
				es.Amount = 0
			}
			if bs.SEC == ach.CTX {
				es.Addenda = r.Intn(3)
			} else if r.Chance(1, 4) {
				es.Addenda = 1
			}
			tag++
			bs.Entries = append(bs.Entries, es)
		}
		fs.Batches = append(fs.Batches, bs)
	}
	return fs
}

// sweep: every both-direction SEC x service class x admissible code, alone and next to a second code.
func sweep(onlyReversible bool) []Case {
	var out []Case
	when := 1000
	for _, sec := range bothSEC {
		for _, scc := range []int{200, 220, 225} {
			for _, code := range entryCodes {
				if !admits(scc, code) || (onlyReversible && !reversibleCode(code)) {
					continue
				}
				amt := 1234
				if isPrenote(code) {
					amt = 0
				}
				one := g.BatchSpec{Kind: "std", SEC: sec, SCC: scc, Number: 1, Company: "121042882", Entries: []g.EntrySpec{{Code: code, Amount: amt, Tag: 1}}}
				out = append(out, Case{File: g.FileSpec{Batches: []g.BatchSpec{one}}, When: when})
				when += 1441
				for _, other := range []int{22, 27, 52, 55} {
					if !admits(scc, other) {
						continue
					}
					two := one
					two.Entries = []g.EntrySpec{{Code: code, Amount: amt, Tag: 1}, {Code: other, Amount: 77, Tag: 2}}
					out = append(out, Case{File: g.FileSpec{Batches: []g.BatchSpec{two}}, When: when})
				}
			}
		}
	}
	return out
}

// ---------------------------------------------------------------- observation (shared by model and implementation)

func traceSeq(tn string) int {
	s := strings.TrimSpace(tn)
	if len(s) > 7 {
		s = s[len(s)-7:]
	}
	n, _ := strconv.Atoi(s)
	return n
}

// modelInput renders the built file the way the OCaml driver reads it.
func modelInput(f *ach.File, when time.Time) string {
	var b strings.Builder
	fmt.Fprintf(&b, "%s %s %d", hx.Enc(when.Format("060102")), hx.Enc(when.Format("1504")), len(f.Batches))
	for _, bt := range f.Batches {
		h, c := bt.GetHeader(), bt.GetControl()
		fmt.Fprintf(&b, " %d %d %s %s %d %d %d", h.ServiceClassCode, c.ServiceClassCode, hx.Enc(h.CompanyEntryDescription), hx.Enc(h.EffectiveEntryDate),
			c.TotalDebitEntryDollarAmount, c.TotalCreditEntryDollarAmount, len(bt.GetEntries()))
		for _, e := range bt.GetEntries() {
			fmt.Fprintf(&b, " %d %d %d %d", e.TransactionCode, e.Amount, g.TagOf(e.DFIAccountNumber), traceSeq(e.TraceNumber))
		}
	}
	return b.String()
}

func observe(f *ach.File) string {
	var b strings.Builder
	fmt.Fprintf(&b, "OK %s %s %d %d %d", hx.Enc(f.Header.FileCreationDate), hx.Enc(f.Header.FileCreationTime),
		f.Control.TotalDebitEntryDollarAmountInFile, f.Control.TotalCreditEntryDollarAmountInFile, len(f.Batches))
	for _, bt := range f.Batches {
		h, c := bt.GetHeader(), bt.GetControl()
		fmt.Fprintf(&b, " %d %d %s %s %d %d %d", h.ServiceClassCode, c.ServiceClassCode, hx.Enc(h.CompanyEntryDescription), hx.Enc(h.EffectiveEntryDate),
			c.TotalDebitEntryDollarAmount, c.TotalCreditEntryDollarAmount, len(bt.GetEntries()))
		for _, e := range bt.GetEntries() {
			fmt.Fprintf(&b, " %d %d %d %d", e.TransactionCode, e.Amount, g.TagOf(e.DFIAccountNumber), traceSeq(e.TraceNumber))
		}
	}
	return b.String()
}

func corr(args []string) {
	fs := flag.NewFlagSet("corr", flag.ExitOnError)
	out := fs.String("out", "", "output directory")
	n := fs.Int("n", 1500, "random files")
	fs.Parse(args)
	cases := hx.Create(filepath.Join(*out, "cases.txt"))
	impl := hx.Create(filepath.Join(*out, "impl.txt"))
	specs := hx.Create(filepath.Join(*out, "specs.jsonl"))
	count, skipped := 0, 0
	emit := func(c Case) {
		f, err := g.Build(c.File)
		if err != nil || f.Validate() != nil {
			skipped++
			return
		}
		cases.Printf("%s\n", modelInput(f, c.date()))
		j, _ := json.Marshal(c)
		specs.Printf("%s\n", j)
		err, panicked := g.Protect(func() error { return f.Reversal(c.date()) })
		switch {
		case panicked:
			impl.Printf("PANIC\n")
		case err != nil:
			impl.Printf("ERR other\n")
		default:
			impl.Printf("%s\n", observe(f))
		}
		count++
	}
	for _, c := range sweep(false) {
		emit(c)
	}
	r := rng.FromEnv(1301)
	for i := 0; i < *n; i++ {
		emit(Case{File: genFile(r, 4, 7, false), When: r.Intn(5000000) - 1500000})
	}
	cases.Close()
	impl.Close()
	specs.Close()
	fmt.Printf("{\"cases\":%d,\"skipped\":%d}\n", count, skipped)
}

// ---------------------------------------------------------------- oracle

type failure struct {
	Kind string `json:"kind"`
	Key  string `json:"key"`
	What string `json:"what"`
	Case Case   `json:"case"`
}

type entrySnap struct {
	code, amount, addenda                     int
	acct, trace, name, rdfi, ident, disc, cat string
}

type batchSnap struct {
	debit, credit int
	sec, company  string
	entries       []entrySnap
}

func snapshot(f *ach.File) []batchSnap {
	var out []batchSnap
	for _, bt := range f.Batches {
		bs := batchSnap{debit: bt.GetControl().TotalDebitEntryDollarAmount, credit: bt.GetControl().TotalCreditEntryDollarAmount,
			sec: bt.GetHeader().StandardEntryClassCode, company: bt.GetHeader().CompanyIdentification}
		for _, e := range bt.GetEntries() {
			bs.entries = append(bs.entries, entrySnap{code: e.TransactionCode, amount: e.Amount, addenda: len(e.Addenda05), acct: e.DFIAccountNumber,
				trace: e.TraceNumber, name: e.IndividualName, rdfi: e.RDFIIdentification + e.CheckDigit, ident: e.IdentificationNumber,
				disc: e.DiscretionaryData, cat: e.Category})
		}
		out = append(out, bs)
	}
	return out
}

func classOf(hasC, hasD bool) int {
	switch {
	case hasC && hasD:
		return 200
	case hasC:
		return 220
	case hasD:
		return 225
	}
	return 0
}

// checkCase evaluates the property directly on the implementation.
func checkCase(c Case) (fails []failure, trivial bool) {
	add := func(key, what string) {
		fails = append(fails, failure{Kind: "fail", Key: key, What: what, Case: c})
	}
	f, err := g.Build(c.File)
	if err != nil || f.Validate() != nil {
		return nil, true // not a valid forward file: outside the property
	}
	before := snapshot(f)
	fileDebit, fileCredit := f.Control.TotalDebitEntryDollarAmountInFile, f.Control.TotalCreditEntryDollarAmountInFile
	when := c.date()
	err, panicked := g.Protect(func() error { return f.Reversal(when) })
	if panicked {
		add("reversal:panic", fmt.Sprint(err))
		return fails, false
	}
	if err != nil {
		add("reversal:error", "Reversal of a valid forward file returned an error: "+errClass(err))
		return fails, false
	}
	after := snapshot(f)
	if len(after) != len(before) {
		add("reversal:batch-count", "number of batches changed")
		return fails, false
	}
	for i, bt := range f.Batches {
		b0, b1 := before[i], after[i]
		if len(b0.entries) != len(b1.entries) {
			add("reversal:entry-count", "number of entries changed")
			continue
		}
		hasC, hasD := false, false
		for j := range b0.entries {
			e0, e1 := b0.entries[j], b1.entries[j]
			if e1.code/10 != e0.code/10 {
				add(fmt.Sprintf("reversal:account-type:%d", e0.code), fmt.Sprintf("code %d became %d: different account type", e0.code, e1.code))
			}
			if !(isCredit(e0.code) && isDebit(e1.code) || isDebit(e0.code) && isCredit(e1.code)) {
				add(fmt.Sprintf("reversal:direction:%d", e0.code), fmt.Sprintf("code %d became %d: direction not flipped", e0.code, e1.code))
			}
			if ach.StandardTransactionCode(e1.code) != nil {
				add(fmt.Sprintf("reversal:invalid-code:%d", e0.code), fmt.Sprintf("code %d became %d, not a transaction code", e0.code, e1.code))
			}
			e0.code, e1.code = 0, 0
			if e0 != e1 {
				add("reversal:field-changed", fmt.Sprintf("an entry field other than the transaction code changed: %+v -> %+v", e0, e1))
			}
			hasC = hasC || isCredit(b1.entries[j].code)
			hasD = hasD || isDebit(b1.entries[j].code)
		}
		if b1.debit != b0.credit || b1.credit != b0.debit {
			add("reversal:totals", fmt.Sprintf("batch totals not swapped: debit %d credit %d -> debit %d credit %d", b0.debit, b0.credit, b1.debit, b1.credit))
		}
		h, ctl := bt.GetHeader(), bt.GetControl()
		if want := classOf(hasC, hasD); h.ServiceClassCode != want || ctl.ServiceClassCode != want {
			add("reversal:service-class", fmt.Sprintf("service class header %d control %d, directions of the reversed entries need %d", h.ServiceClassCode, ctl.ServiceClassCode, want))
		}
		if h.CompanyEntryDescription != "REVERSAL" {
			add("reversal:description", "CompanyEntryDescription is "+strconv.Quote(h.CompanyEntryDescription))
		}
		if h.EffectiveEntryDate != when.Format("060102") {
			add("reversal:date", "EffectiveEntryDate is "+strconv.Quote(h.EffectiveEntryDate))
		}
		if h.StandardEntryClassCode != b0.sec || h.CompanyIdentification != b0.company {
			add("reversal:header-changed", "SEC code or company identification changed")
		}
	}
	if f.Control.TotalDebitEntryDollarAmountInFile != fileCredit || f.Control.TotalCreditEntryDollarAmountInFile != fileDebit {
		add("reversal:file-totals", "file control totals not swapped")
	}
	if err := f.Validate(); err != nil {
		if errClass(err) == "amount" && hasPrenoteDesc(c) {
			add("reversal:prenote-description-zero-amount", "the reversed file fails Validate: a batch described PRENOTE carried zero amounts on ordinary codes; with the description REVERSAL they are rejected")
		} else {
			add("reversal:invalid-result:"+errClass(err), "the reversed file fails Validate: "+errClass(err))
		}
	}
	// reversing twice restores the transaction codes
	err, panicked = g.Protect(func() error { return f.Reversal(when) })
	if panicked || err != nil {
		add("reversal:twice-error", "second Reversal failed")
	} else {
		again := snapshot(f)
		for i := range before {
			for j := range before[i].entries {
				if i < len(again) && j < len(again[i].entries) && again[i].entries[j].code != before[i].entries[j].code {
					add(fmt.Sprintf("reversal:twice:%d", before[i].entries[j].code), fmt.Sprintf("code %d is %d after two reversals", before[i].entries[j].code, again[i].entries[j].code))
				}
			}
		}
	}
	return dedup(fails), false
}

func hasPrenoteDesc(c Case) bool {
	for _, b := range c.File.Batches {
		if strings.EqualFold(b.Desc, "PRENOTE") {
			return true
		}
	}
	return false
}

func dedup(fs []failure) []failure {
	seen := map[string]bool{}
	var out []failure
	for _, f := range fs {
		if !seen[f.Key] {
			seen[f.Key] = true
			out = append(out, f)
		}
	}
	return out
}

// errClass maps an error to a small enum (never compared as text beyond these markers).
func errClass(err error) string {
	s := err.Error()
	switch {
	case strings.Contains(s, "service class code"):
		return "service-class-vs-code"
	case strings.Contains(s, "TotalDebitEntryDollarAmount") || strings.Contains(s, "TotalCreditEntryDollarAmount"):
		return "totals"
	case strings.Contains(s, "TransactionCode"):
		return "transaction-code"
	case strings.Contains(s, "Amount"):
		return "amount"
	case strings.Contains(s, "ascending"):
		return "ascending"
	}
	return "other"
}

type summary struct {
	Kind        string         `json:"kind"`
	Evaluations int            `json:"evaluations"`
	Distinct    int            `json:"distinct_nontrivial"`
	Rule        string         `json:"rule"`
	Dist        map[string]int `json:"distribution"`
	Samples     []Case         `json:"samples"`
}

func shape(c Case) string {
	var parts []string
	for _, b := range c.File.Batches {
		var codes []string
		for _, e := range b.Entries {
			codes = append(codes, strconv.Itoa(e.Code))
		}
		parts = append(parts, fmt.Sprintf("%s/%d/%s", b.SEC, b.SCC, strings.Join(codes, ",")))
	}
	return strings.Join(parts, "|")
}

func oracle(args []string) {
	fs := flag.NewFlagSet("oracle", flag.ExitOnError)
	out := fs.String("out", "", "output directory")
	n := fs.Int("n", 1500, "generated files")
	corpus := fs.String("corpus", "", "corpus directory (cases run first)")
	fs.Parse(args)
	res := hx.Create(filepath.Join(*out, "oracle.jsonl"))
	enc := func(v any) {
		b, _ := json.Marshal(v)
		res.Printf("%s\n", b)
	}
	sum := summary{Kind: "summary", Dist: map[string]int{}, Rule: "valid forward files of PPD/CCD/CTX/WEB batches (every service class, every reversible code admitted by it, 1..5 batches of 1..9 entries, 0..2 addenda), File.Reversal then the property evaluated on the result (directions, unchanged fields, totals, service class, description, date, Validate, double reversal); non-trivial = the forward file validates; distinct by (SEC, class, code sequence) of all batches"}
	seen := map[string]bool{}
	run := func(c Case) {
		sum.Evaluations++
		fails, trivial := checkCase(c)
		if trivial {
			sum.Dist["skipped-invalid-forward"]++
			return
		}
		for _, b := range c.File.Batches {
			sum.Dist[fmt.Sprintf("%s/%d", b.SEC, b.SCC)]++
			for _, e := range b.Entries {
				sum.Dist[fmt.Sprintf("code-%d", e.Code)]++
			}
		}
		if k := shape(c); !seen[k] {
			seen[k] = true
			sum.Distinct++
		}
		for _, f := range fails {
			enc(f)
		}
		if len(sum.Samples) < 4 && sum.Evaluations%211 == 1 {
			sum.Samples = append(sum.Samples, c)
		}
	}
	for _, c := range corpusCases(*corpus) {
		run(c)
	}
	for _, c := range sweep(true) {
		run(c)
	}
	r := rng.FromEnv(1313)
	for i := 0; i < *n; i++ {
		run(Case{File: genFile(r, 5, 9, true), When: r.Intn(5000000) - 1500000})
	}
	enc(sum)
	res.Close()
}

func corpusCases(dir string) []Case {
	var out []Case
	if dir == "" {
		return out
	}
	names, _ := filepath.Glob(filepath.Join(dir, "*.json"))
	sort.Strings(names)
	for _, p := range names {
		b, err := os.ReadFile(p)
		if err != nil {
			continue
		}
		var rp struct {
			Input Case `json:"input"`
		}
		if json.Unmarshal(b, &rp) == nil && len(rp.Input.File.Batches) > 0 {
			out = append(out, rp.Input)
		}
	}
	return out
}

func replay(args []string) {
	if len(args) < 1 {
		fmt.Fprintln(os.Stderr, "usage: c13 replay <file>")
		os.Exit(2)
	}
	b, err := os.ReadFile(args[0])
	if err != nil {
		fmt.Fprintln(os.Stderr, err)
		os.Exit(2)
	}
	var rp struct {
		Input Case `json:"input"`
	}
	if err := json.Unmarshal(b, &rp); err != nil || len(rp.Input.File.Batches) == 0 {
		fmt.Println("replay file carries no input (obligation / correspondence failure): nothing to run")
		os.Exit(0)
	}
	fails, trivial := checkCase(rp.Input)
	if trivial {
		fmt.Println("the forward file of this input does not validate: outside the property")
		os.Exit(0)
	}
	for _, f := range fails {
		j, _ := json.Marshal(f)
		fmt.Println(string(j))
	}
	if len(fails) > 0 {
		os.Exit(1)
	}
	fmt.Println("no failure on this input")
}

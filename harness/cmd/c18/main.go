// Command c18: correspondence cases and direct oracle for property C18
// (the in-memory file repository is linearizable under concurrent clients).
//
//	corr   -out dir -maxlen n [-alphabet full|core]   exhaustive sequential op sequences on the real repository
//	oracle -out dir -n histories -stress k -corpus dir  concurrent histories checked with porcupine + stress runs
//	replay file                                       re-run one recorded case
package main

import (
	"encoding/json"
	"flag"
	"fmt"
	"os"
	"path/filepath"
	"runtime"
	"sort"
	"strconv"
	"strings"
	"sync"
	"sync/atomic"
	"time"

	"github.com/anishathalye/porcupine"
	"github.com/moov-io/ach"
	"github.com/moov-io/ach/server"

	"verifharness/internal/hx"
	"verifharness/internal/rng"
)

func main() {
	if len(os.Args) < 2 {
		fmt.Fprintln(os.Stderr, "usage: c18 corr|oracle|replay ...")
		os.Exit(2)
	}
	switch os.Args[1] {
	case "corr":
		corr(os.Args[2:])
	case "oracle":
		oracle(os.Args[2:])
	case "replay":
		replay(os.Args[2:])
	default:
		fmt.Fprintln(os.Stderr, "unknown mode")
		os.Exit(2)
	}
}

// ---------------------------------------------------------------- operations

const (
	opStoreFile = iota
	opFindFile
	opFindAllFiles
	opDeleteFile
	opStoreBatch
	opFindBatch
	opFindAllBatches
	opDeleteBatch
	opSweep
	nOps
)

var opNames = [nOps]string{"StoreFile", "FindFile", "FindAllFiles", "DeleteFile", "StoreBatch", "FindBatch", "FindAllBatches", "DeleteBatch", "Sweep"}

// Call is one invocation; Tok identifies the *ach.File object a StoreFile passes in.
type Call struct {
	Op  int  `json:"op"`
	Fid int  `json:"fid,omitempty"`
	Bid int  `json:"bid,omitempty"`
	Old bool `json:"old,omitempty"`
	Tok int  `json:"tok,omitempty"`
}

func (c Call) String() string {
	switch c.Op {
	case opStoreFile:
		o := ""
		if c.Old {
			o = ",old"
		}
		return fmt.Sprintf("StoreFile(f%d#%d%s)", c.Fid, c.Tok, o)
	case opFindFile, opDeleteFile, opFindAllBatches:
		return fmt.Sprintf("%s(f%d)", opNames[c.Op], c.Fid)
	case opFindAllFiles, opSweep:
		return opNames[c.Op] + "()"
	default:
		return fmt.Sprintf("%s(f%d,b%d)", opNames[c.Op], c.Fid, c.Bid)
	}
}

// token of the interchange format: op letter, fid digit, bid digit, old flag
func (c Call) token() string {
	o := 0
	if c.Old {
		o = 1
	}
	return fmt.Sprintf("%c%d%d%d", 'a'+c.Op, c.Fid, c.Bid, o)
}

func usesFid(op int) bool { return op != opFindAllFiles && op != opSweep }
func usesBid(op int) bool { return op == opStoreBatch || op == opFindBatch || op == opDeleteBatch }
func isWrite(op int) bool {
	return op == opStoreFile || op == opDeleteFile || op == opStoreBatch || op == opDeleteBatch || op == opSweep
}

// ---------------------------------------------------------------- the real repository

type env struct {
	repo server.Repository
	tok  map[*ach.File]int // read-only while clients run
}

func newEnv() *env {
	return &env{repo: server.NewRepositoryInMemory(0, nil), tok: map[*ach.File]int{}}
}

func fileID(fid int) string  { return "f" + strconv.Itoa(fid) }
func batchID(bid int) string { return "b" + strconv.Itoa(bid) }

// newFile builds the object a StoreFile call passes; "old" files predate any TTL cut-off.
func (e *env) newFile(c Call) *ach.File {
	f := ach.NewFile()
	f.ID = fileID(c.Fid)
	f.Header.ImmediateOriginName = "tok" + strconv.Itoa(c.Tok)
	if c.Old {
		f.Header.FileCreationDate = "000101"
	} else {
		f.Header.FileCreationDate = "991231"
	}
	e.tok[f] = c.Tok
	return f
}

func newBatch(bid int) ach.Batcher {
	bh := ach.NewBatchHeader()
	bh.ServiceClassCode = ach.CreditsOnly
	bh.StandardEntryClassCode = ach.PPD
	bh.CompanyName = "Payee Co"
	bh.CompanyIdentification = "121042882"
	bh.CompanyEntryDescription = "PAYROLL"
	bh.ODFIIdentification = "12104288"
	b, err := ach.NewBatch(bh)
	if err != nil {
		panic(err)
	}
	b.SetID(batchID(bid))
	return b
}

type prepared struct {
	c Call
	f *ach.File
	b ach.Batcher
}

func (e *env) prepare(c Call) prepared {
	p := prepared{c: c}
	if c.Op == opStoreFile {
		p.f = e.newFile(c)
	}
	if c.Op == opStoreBatch {
		p.b = newBatch(c.Bid)
	}
	return p
}

func errClass(err error) string {
	switch err {
	case nil:
		return "ok"
	case server.ErrNotFound:
		return "E:notfound"
	case server.ErrAlreadyExists:
		return "E:exists"
	default:
		return "E:other"
	}
}

func trimID(s, prefix string) string {
	if strings.HasPrefix(s, prefix) {
		return s[len(prefix):]
	}
	return "?" + s
}

func obsToks(ts []int) string {
	sort.Ints(ts)
	parts := make([]string, len(ts))
	for i, t := range ts {
		if t < 0 {
			parts[i] = "nil"
		} else {
			parts[i] = strconv.Itoa(t)
		}
	}
	return "files:" + strings.Join(parts, ",")
}

// do performs the call on the real repository and returns the canonical observation.
func (e *env) do(p prepared) (obs string) {
	defer func() {
		if r := recover(); r != nil {
			obs = "panic:" + fmt.Sprint(r)
		}
	}()
	c := p.c
	switch c.Op {
	case opStoreFile:
		return errClass(e.repo.StoreFile(p.f))
	case opFindFile:
		f, err := e.repo.FindFile(fileID(c.Fid))
		if err != nil {
			return errClass(err)
		}
		if f == nil {
			return "file:nil"
		}
		if f.ID != fileID(c.Fid) {
			return "file:wrong-id"
		}
		t, ok := e.tok[f]
		if !ok {
			return "file:unknown-object"
		}
		return "file:" + strconv.Itoa(t)
	case opFindAllFiles:
		fs := e.repo.FindAllFiles()
		ts := make([]int, 0, len(fs))
		for _, f := range fs {
			if f == nil {
				ts = append(ts, -1)
			} else if t, ok := e.tok[f]; ok {
				ts = append(ts, t)
			} else {
				ts = append(ts, -2)
			}
		}
		return obsToks(ts)
	case opDeleteFile:
		return errClass(e.repo.DeleteFile(fileID(c.Fid)))
	case opStoreBatch:
		return errClass(e.repo.StoreBatch(fileID(c.Fid), p.b))
	case opFindBatch:
		b, err := e.repo.FindBatch(fileID(c.Fid), batchID(c.Bid))
		if err != nil {
			return errClass(err)
		}
		if b == nil {
			return "batch:nil"
		}
		return "batch:" + trimID(b.ID(), "b")
	case opFindAllBatches:
		bs := e.repo.FindAllBatches(fileID(c.Fid))
		if bs == nil {
			return "nil"
		}
		parts := make([]string, len(bs))
		for i, b := range bs {
			if b == nil {
				parts[i] = "nil"
			} else {
				parts[i] = trimID(b.ID(), "b")
			}
		}
		return "batches:" + strings.Join(parts, ",")
	case opDeleteBatch:
		return errClass(e.repo.DeleteBatch(fileID(c.Fid), batchID(c.Bid)))
	case opSweep:
		server.VerifCleanupOldFiles(e.repo)
		return "ok"
	}
	return "?"
}

// dump observes the whole state through the public list operations.
func (e *env) dump(nf int) string {
	var b strings.Builder
	b.WriteString(e.do(prepared{c: Call{Op: opFindAllFiles}}))
	for f := 1; f <= nf; f++ {
		b.WriteString("|")
		b.WriteString(e.do(prepared{c: Call{Op: opFindAllBatches, Fid: f}}))
	}
	return b.String()
}

// ---------------------------------------------------------------- sequential specification in Go
// (the porcupine model; validated against the extracted Coq Repo.spec by `corr`)

type gfile struct {
	fid, tok int
	old      bool
	batches  []int
}

type gstate []gfile // ordered by fid

func (s gstate) find(fid int) int {
	for i := range s {
		if s[i].fid == fid {
			return i
		}
	}
	return -1
}

func (s gstate) clone() gstate {
	t := make(gstate, len(s))
	copy(t, s)
	return t
}

func (s gstate) key() string {
	var b strings.Builder
	for _, f := range s {
		fmt.Fprintf(&b, "%d:%d:%v:%v;", f.fid, f.tok, f.old, f.batches)
	}
	return b.String()
}

func specStep(s gstate, c Call) (gstate, string) {
	i := -1
	if usesFid(c.Op) {
		i = s.find(c.Fid)
	}
	has := func(bs []int, b int) int {
		for k := len(bs) - 1; k >= 0; k-- {
			if bs[k] == b {
				return k
			}
		}
		return -1
	}
	switch c.Op {
	case opStoreFile:
		if i >= 0 {
			return s, "E:exists"
		}
		t := append(s.clone(), gfile{fid: c.Fid, tok: c.Tok, old: c.Old})
		sort.Slice(t, func(a, b int) bool { return t[a].fid < t[b].fid })
		return t, "ok"
	case opFindFile:
		if i < 0 {
			return s, "E:notfound"
		}
		return s, "file:" + strconv.Itoa(s[i].tok)
	case opFindAllFiles:
		ts := make([]int, len(s))
		for k, f := range s {
			ts[k] = f.tok
		}
		return s, obsToks(ts)
	case opDeleteFile:
		if i < 0 {
			return s, "ok"
		}
		t := append(s[:i:i], s[i+1:]...)
		return t, "ok"
	case opStoreBatch:
		if i < 0 {
			return s, "E:notfound"
		}
		if has(s[i].batches, c.Bid) >= 0 {
			return s, "E:exists"
		}
		t := s.clone()
		t[i].batches = append(append([]int{}, s[i].batches...), c.Bid)
		return t, "ok"
	case opFindBatch:
		if i < 0 || has(s[i].batches, c.Bid) < 0 {
			return s, "E:notfound"
		}
		return s, "batch:" + strconv.Itoa(c.Bid)
	case opFindAllBatches:
		if i < 0 {
			return s, "nil"
		}
		parts := make([]string, len(s[i].batches))
		for k, b := range s[i].batches {
			parts[k] = strconv.Itoa(b)
		}
		return s, "batches:" + strings.Join(parts, ",")
	case opDeleteBatch:
		if i < 0 {
			return s, "E:other"
		}
		k := has(s[i].batches, c.Bid)
		if k < 0 {
			return s, "E:notfound"
		}
		t := s.clone()
		nb := append([]int{}, s[i].batches[:k]...)
		t[i].batches = append(nb, s[i].batches[k+1:]...)
		return t, "ok"
	case opSweep:
		var t gstate
		for _, f := range s {
			if !f.old {
				t = append(t, f)
			}
		}
		return t, "ok"
	}
	return s, "?"
}

func specDump(s gstate, nf int) string {
	var b strings.Builder
	_, o := specStep(s, Call{Op: opFindAllFiles})
	b.WriteString(o)
	for f := 1; f <= nf; f++ {
		_, o = specStep(s, Call{Op: opFindAllBatches, Fid: f})
		b.WriteString("|" + o)
	}
	return b.String()
}

// ---------------------------------------------------------------- correspondence

func alphabet(kind string, nf, nb int) []Call {
	var a []Call
	for op := 0; op < nOps; op++ {
		if kind == "core" && op == opSweep {
			continue
		}
		fids := []int{0}
		if usesFid(op) {
			fids = nil
			for f := 1; f <= nf; f++ {
				fids = append(fids, f)
			}
		}
		bids := []int{0}
		if usesBid(op) {
			bids = nil
			for b := 1; b <= nb; b++ {
				bids = append(bids, b)
			}
		}
		for _, f := range fids {
			for _, b := range bids {
				a = append(a, Call{Op: op, Fid: f, Bid: b})
				if op == opStoreFile && kind != "core" {
					a = append(a, Call{Op: op, Fid: f, Bid: b, Old: true})
				}
			}
		}
	}
	return a
}

// runSeq replays a sequence on a fresh real repository; tokens are positions 1..n.
func runSeq(seq []Call) (*env, []string) {
	e := newEnv()
	obs := make([]string, len(seq))
	for i, c := range seq {
		c.Tok = i + 1
		obs[i] = e.do(e.prepare(c))
	}
	return e, obs
}

func runSpec(seq []Call) (gstate, []string) {
	var s gstate
	obs := make([]string, len(seq))
	for i, c := range seq {
		c.Tok = i + 1
		s, obs[i] = specStep(s, c)
	}
	return s, obs
}

func corr(args []string) {
	fs := flag.NewFlagSet("corr", flag.ExitOnError)
	out := fs.String("out", "", "output directory")
	maxlen := fs.Int("maxlen", 3, "all sequences up to this length")
	kind := fs.String("alphabet", "full", "full (with TTL sweep and old files) or core")
	nf := fs.Int("files", 2, "file ids")
	nb := fs.Int("batches", 2, "batch ids")
	fs.Parse(args)
	alpha := alphabet(*kind, *nf, *nb)
	cases := hx.Create(filepath.Join(*out, "cases.txt"))
	impl := hx.Create(filepath.Join(*out, "impl.txt"))
	gospec := hx.Create(filepath.Join(*out, "gospec.txt"))
	n := 0
	seq := make([]Call, 0, *maxlen)
	toks := make([]string, 0, *maxlen)
	var rec func()
	rec = func() {
		if len(seq) > 0 {
			e, obs := runSeq(seq)
			s, sobs := runSpec(seq)
			last := len(seq) - 1
			kindTag := "L"
			if len(seq) == *maxlen {
				kindTag = "D"
			}
			cases.Printf("%s %d %s\n", kindTag, *nf, strings.Join(toks, " "))
			if len(seq) == *maxlen {
				impl.Printf("%s # %s\n", obs[last], e.dump(*nf))
				gospec.Printf("%s # %s\n", sobs[last], specDump(s, *nf))
			} else {
				impl.Printf("%s\n", obs[last])
				gospec.Printf("%s\n", sobs[last])
			}
			n++
		}
		if len(seq) == *maxlen {
			return
		}
		for _, c := range alpha {
			seq = append(seq, c)
			toks = append(toks, c.token())
			rec()
			seq = seq[:len(seq)-1]
			toks = toks[:len(toks)-1]
		}
	}
	rec()
	cases.Close()
	impl.Close()
	gospec.Close()
	fmt.Printf("{\"cases\":%d,\"alphabet\":%d,\"maxlen\":%d}\n", n, len(alpha), *maxlen)
}

// ---------------------------------------------------------------- oracle

// Case is what a failure record carries and what replay consumes.
type Case struct {
	Mode    string   `json:"mode"`              // seq | history | stress
	Seq     []Call   `json:"seq,omitempty"`     // mode seq
	Clients [][]Call `json:"clients,omitempty"` // mode history: one op list per client
	Setup   []Call   `json:"setup,omitempty"`   // mode history/stress: sequential prefix before the clients start
	Workers int      `json:"workers,omitempty"` // mode stress
	Ops     int      `json:"ops,omitempty"`     // mode stress: operations per worker
	Seed    uint64   `json:"seed,omitempty"`    // mode stress
}

type failure struct {
	Kind string `json:"kind"`
	Key  string `json:"key"`
	What string `json:"what"`
	Case Case   `json:"case"`
}

type histOp struct {
	c        Call
	obs      string
	call, rt int64
	client   int
}

var model = porcupine.Model{
	Init: func() interface{} { return gstate(nil) },
	Step: func(state, input, output interface{}) (bool, interface{}) {
		s2, want := specStep(state.(gstate), input.(Call))
		return want == output.(string), s2
	},
	Equal: func(a, b interface{}) bool { return a.(gstate).key() == b.(gstate).key() },
	DescribeOperation: func(input, output interface{}) string {
		return input.(Call).String() + " -> " + output.(string)
	},
}

// runHistory executes the per-client op lists concurrently on one fresh repository.
func runHistory(cs Case) (ops []histOp, overlapped bool) {
	e := newEnv()
	tok := 1
	var setupOps []histOp
	for _, c := range cs.Setup {
		if c.Op == opStoreFile && c.Tok == 0 {
			c.Tok = tok
		}
		tok++
		o := e.do(e.prepare(c))
		setupOps = append(setupOps, histOp{c: c, obs: o, client: -1})
	}
	prep := make([][]prepared, len(cs.Clients))
	for ci, l := range cs.Clients {
		for _, c := range l {
			if c.Op == opStoreFile && c.Tok == 0 {
				c.Tok = 1000*(ci+1) + tok
			}
			tok++
			prep[ci] = append(prep[ci], e.prepare(c))
		}
	}
	res := make([][]histOp, len(cs.Clients))
	var arrived int32
	var wg sync.WaitGroup
	start := time.Now()
	n := int32(len(cs.Clients))
	for ci := range cs.Clients {
		wg.Add(1)
		go func(ci int) {
			defer wg.Done()
			out := make([]histOp, 0, len(prep[ci]))
			atomic.AddInt32(&arrived, 1)
			for spins := 0; atomic.LoadInt32(&arrived) < n; spins++ {
				if spins > 1000 {
					runtime.Gosched()
				}
			}
			for _, p := range prep[ci] {
				t0 := int64(time.Since(start))
				o := e.do(p)
				t1 := int64(time.Since(start))
				out = append(out, histOp{c: p.c, obs: o, call: t0, rt: t1, client: ci})
			}
			res[ci] = out
		}(ci)
	}
	wg.Wait()
	// setup operations strictly precede everything else
	for i := range setupOps {
		setupOps[i].call = int64(-2*len(setupOps) + 2*i)
		setupOps[i].rt = setupOps[i].call + 1
	}
	ops = append(ops, setupOps...)
	for _, l := range res {
		ops = append(ops, l...)
	}
	for i := range ops {
		for j := range ops {
			if ops[i].client >= 0 && ops[j].client > ops[i].client && ops[i].call < ops[j].rt && ops[j].call < ops[i].rt {
				overlapped = true
			}
		}
	}
	return ops, overlapped
}

func checkHistory(ops []histOp) (porcupine.CheckResult, string) {
	h := make([]porcupine.Operation, len(ops))
	for i, o := range ops {
		h[i] = porcupine.Operation{ClientId: o.client + 1, Input: o.c, Call: o.call, Output: o.obs, Return: o.rt}
	}
	for _, o := range ops {
		if strings.HasPrefix(o.obs, "panic:") {
			return porcupine.Illegal, "panic:" + opNames[o.c.Op] + "|" + o.c.String() + " " + o.obs
		}
	}
	r := porcupine.CheckOperationsTimeout(model, h, 5*time.Second)
	return r, "history:not-linearizable"
}

func describeHistory(ops []histOp) string {
	sorted := append([]histOp{}, ops...)
	sort.Slice(sorted, func(i, j int) bool { return sorted[i].call < sorted[j].call })
	var b strings.Builder
	for _, o := range sorted {
		fmt.Fprintf(&b, "c%d [%d,%d] %s -> %s; ", o.client, o.call, o.rt, o.c, o.obs)
	}
	return b.String()
}

// seqCheck compares a sequential run of the real repository with the specification.
func seqCheck(seq []Call, nf int) *failure {
	e, obs := runSeq(seq)
	s, want := runSpec(seq)
	seq = append([]Call{}, seq...)
	for i := range seq {
		seq[i].Tok = i + 1
	}
	for i := range seq {
		if strings.HasPrefix(obs[i], "panic:") {
			return &failure{Kind: "fail", Key: "panic:" + opNames[seq[i].Op], What: obs[i], Case: Case{Mode: "seq", Seq: seq[:i+1]}}
		}
		if obs[i] != want[i] {
			cls := func(s string) string {
				if k := strings.IndexByte(s, ':'); k >= 0 && !strings.HasPrefix(s, "E:") {
					return s[:k]
				}
				return s
			}
			return &failure{Kind: "fail", Key: fmt.Sprintf("sequential:%s:%s->%s", opNames[seq[i].Op], cls(want[i]), cls(obs[i])),
				What: fmt.Sprintf("operation %d %s returned %q, sequential map semantics give %q", i+1, seq[i], obs[i], want[i]),
				Case: Case{Mode: "seq", Seq: seq[:i+1]}}
		}
	}
	if d, w := e.dump(nf), specDump(s, nf); d != w {
		return &failure{Kind: "fail", Key: "sequential:final-state", What: fmt.Sprintf("final state %q, specification %q", d, w), Case: Case{Mode: "seq", Seq: seq}}
	}
	return nil
}

func genCall(r *rng.R, nf, nb int, weights []int) Call {
	total := 0
	for _, w := range weights {
		total += w
	}
	x := r.Intn(total)
	op := 0
	for i, w := range weights {
		if x < w {
			op = i
			break
		}
		x -= w
	}
	c := Call{Op: op}
	if usesFid(op) {
		c.Fid = r.Range(1, nf)
	}
	if usesBid(op) {
		c.Bid = r.Range(1, nb)
	}
	if op == opStoreFile {
		c.Old = r.Chance(1, 4)
	}
	return c
}

var weightProfiles = [][]int{
	{3, 2, 2, 2, 3, 2, 2, 2, 1}, // everything
	{1, 0, 1, 0, 6, 2, 3, 5, 0}, // batch churn
	{5, 3, 4, 4, 0, 0, 0, 0, 2}, // file churn
	{2, 1, 1, 1, 5, 1, 1, 4, 1}, // writers
}

func genHistory(r *rng.R) Case {
	nf, nb := r.Range(1, 3), r.Range(1, 3)
	w := rng.Pick(r, weightProfiles)
	cs := Case{Mode: "history"}
	// half of the histories start from a repository that already holds the files
	if r.Bool() {
		for f := 1; f <= nf; f++ {
			cs.Setup = append(cs.Setup, Call{Op: opStoreFile, Fid: f, Old: r.Chance(1, 4)})
		}
	}
	clients := r.Range(2, 8)
	for i := 0; i < clients; i++ {
		n := r.Range(1, 6)
		var l []Call
		for j := 0; j < n; j++ {
			l = append(l, genCall(r, nf, nb, w))
		}
		cs.Clients = append(cs.Clients, l)
	}
	return cs
}

// stress: many workers hammer batch operations of files that stay stored; afterwards the number of
// successful stores minus successful deletes of every batch id must be its final presence (0 or 1).
func runStress(cs Case) *failure {
	e := newEnv()
	nf, nb := 2, 3
	for f := 1; f <= nf; f++ {
		e.do(e.prepare(Call{Op: opStoreFile, Fid: f, Tok: f}))
	}
	type cnt struct{ stores, deletes int64 }
	counts := make([][]cnt, cs.Workers)
	bad := make([]string, cs.Workers)
	var arrived int32
	var wg sync.WaitGroup
	for wi := 0; wi < cs.Workers; wi++ {
		counts[wi] = make([]cnt, (nf+1)*(nb+1))
		wg.Add(1)
		go func(wi int) {
			defer wg.Done()
			r := rng.New(cs.Seed*1000003 + uint64(wi))
			ps := make([]prepared, cs.Ops)
			for i := range ps {
				ps[i] = e.prepare(genCall(r, nf, nb, []int{0, 1, 1, 0, 6, 2, 2, 6, 0}))
			}
			atomic.AddInt32(&arrived, 1)
			for spins := 0; atomic.LoadInt32(&arrived) < int32(cs.Workers); spins++ {
				if spins > 1000 {
					runtime.Gosched()
				}
			}
			for _, p := range ps {
				o := e.do(p)
				k := p.c.Fid*(nb+1) + p.c.Bid
				switch {
				case strings.HasPrefix(o, "panic:"):
					bad[wi] = opNames[p.c.Op] + " " + o
				case p.c.Op == opStoreBatch && o == "ok":
					counts[wi][k].stores++
				case p.c.Op == opDeleteBatch && o == "ok":
					counts[wi][k].deletes++
				case (p.c.Op == opStoreBatch || p.c.Op == opDeleteBatch) && o != "E:exists" && o != "E:notfound":
					bad[wi] = fmt.Sprintf("%s returned %s although the file is stored", p.c, o)
				case p.c.Op == opFindAllFiles && o != "files:1,2":
					bad[wi] = fmt.Sprintf("FindAllFiles returned %s", o)
				case p.c.Op == opFindAllBatches:
					// a snapshot never shows one batch id twice
					seen := map[string]bool{}
					for _, id := range strings.Split(strings.TrimPrefix(o, "batches:"), ",") {
						if id != "" && seen[id] {
							bad[wi] = fmt.Sprintf("FindAllBatches returned %s", o)
						}
						seen[id] = true
					}
				}
			}
		}(wi)
	}
	wg.Wait()
	for _, b := range bad {
		if strings.Contains(b, "panic:") {
			return &failure{Kind: "fail", Key: "panic:stress", What: b, Case: cs}
		}
		if b != "" {
			return &failure{Kind: "fail", Key: "stress:impossible-result", What: b, Case: cs}
		}
	}
	for f := 1; f <= nf; f++ {
		final := e.do(prepared{c: Call{Op: opFindAllBatches, Fid: f}})
		ids := strings.Split(strings.TrimPrefix(final, "batches:"), ",")
		for b := 1; b <= nb; b++ {
			var st, de int64
			for wi := range counts {
				st += counts[wi][f*(nb+1)+b].stores
				de += counts[wi][f*(nb+1)+b].deletes
			}
			present := int64(0)
			for _, id := range ids {
				if id == strconv.Itoa(b) {
					present++
				}
			}
			if st-de != present || present > 1 {
				return &failure{Kind: "fail", Key: "stress:batch-conservation",
					What: fmt.Sprintf("file f%d batch b%d: %d successful stores, %d successful deletes, %d copies finally present (%s)", f, b, st, de, present, final), Case: cs}
			}
		}
	}
	return nil
}

func loadCorpus(dir string) []Case {
	var out []Case
	names, _ := filepath.Glob(filepath.Join(dir, "*.json"))
	sort.Strings(names)
	for _, p := range names {
		raw, err := os.ReadFile(p)
		if err != nil {
			continue
		}
		var w struct {
			Input Case `json:"input"`
		}
		if json.Unmarshal(raw, &w) == nil && w.Input.Mode != "" {
			out = append(out, w.Input)
		}
	}
	return out
}

func historyKey(cs Case) string {
	raw, _ := json.Marshal(cs)
	return string(raw)
}

func oracle(args []string) {
	fs := flag.NewFlagSet("oracle", flag.ExitOnError)
	out := fs.String("out", "", "output directory")
	n := fs.Int("n", 2000, "concurrent histories")
	nseq := fs.Int("seq", 2000, "random sequential sequences")
	stress := fs.Int("stress", 20, "stress runs")
	stressOps := fs.Int("stress-ops", 400, "operations per stress worker")
	reps := fs.Int("reps", 3, "executions of every history")
	corpus := fs.String("corpus", "", "corpus directory")
	fs.Parse(args)
	w := hx.Create(filepath.Join(*out, "oracle.jsonl"))
	emit := func(v any) {
		raw, _ := json.Marshal(v)
		w.Printf("%s\n", raw)
	}
	r := rng.FromEnv(18)
	evaluations, executions, overlappedRuns, unknown := 0, 0, 0, 0
	distinct := map[string]bool{}
	dist := map[string]int{}
	var samples []any
	fails := 0
	report := func(f *failure) {
		if f != nil && fails < 50 {
			emit(f)
			fails++
		}
	}
	runCase := func(cs Case, times int) {
		switch cs.Mode {
		case "seq":
			evaluations++
			dist["sequential"]++
			if len(cs.Seq) >= 2 && !distinct[historyKey(cs)] {
				distinct[historyKey(cs)] = true
			}
			report(seqCheck(cs.Seq, 3))
		case "history":
			evaluations++
			dist[fmt.Sprintf("clients=%d", len(cs.Clients))]++
			nontrivial := false
			for i := 0; i < times; i++ {
				ops, ov := runHistory(cs)
				executions++
				if ov {
					overlappedRuns++
					nontrivial = true
				}
				res, key := checkHistory(ops)
				if res == porcupine.Unknown {
					unknown++
				}
				if res == porcupine.Illegal {
					what := "no sequential order of the completed operations explains the results: "
					if k := strings.IndexByte(key, '|'); k >= 0 {
						key, what = key[:k], key[k+1:]+" in history: "
					}
					report(&failure{Kind: "fail", Key: key, What: what + describeHistory(ops), Case: cs})
					break
				}
			}
			hasWrite := false
			for _, l := range cs.Clients {
				for _, c := range l {
					if isWrite(c.Op) {
						hasWrite = true
					}
				}
			}
			if nontrivial && hasWrite {
				distinct[historyKey(cs)] = true
			}
		case "stress":
			evaluations++
			dist["stress"]++
			executions++
			report(runStress(cs))
		}
	}
	for _, cs := range loadCorpus(*corpus) {
		runCase(cs, 20)
		if len(samples) < 2 {
			samples = append(samples, cs)
		}
	}
	for i := 0; i < *nseq; i++ {
		l := r.Range(2, 14)
		nf, nb := r.Range(1, 3), r.Range(1, 3)
		w := rng.Pick(r, weightProfiles)
		var seq []Call
		for j := 0; j < l; j++ {
			seq = append(seq, genCall(r, nf, nb, w))
		}
		runCase(Case{Mode: "seq", Seq: seq}, 1)
	}
	for i := 0; i < *n; i++ {
		cs := genHistory(r)
		runCase(cs, *reps)
		if i < 2 {
			samples = append(samples, cs)
		}
	}
	for i := 0; i < *stress; i++ {
		cs := Case{Mode: "stress", Workers: r.Range(2, 8), Ops: *stressOps, Seed: r.U64() >> 16}
		runCase(cs, 1)
		if i == 0 {
			samples = append(samples, cs)
		}
	}
	emit(map[string]any{
		"kind": "summary", "evaluations": evaluations, "distinct_nontrivial": len(distinct),
		"rule": "cases = corpus + random sequential sequences (2..14 ops, compared with the sequential map semantics) + concurrent histories (2..8 clients x 1..6 ops over 1..3 file ids x 1..3 batch ids, each executed several times, every execution checked with porcupine) + stress runs (2..8 workers x many batch operations, conservation of successful stores/deletes); non-trivial = a history containing a write whose execution had operations of two clients overlapping in time (measured), or a sequential sequence of >= 2 ops; distinct by content",
		"distribution": dist, "samples": samples,
		"executions": executions, "overlapped_executions": overlappedRuns, "porcupine_unknown": unknown,
	})
	w.Close()
	fmt.Printf("{\"evaluations\":%d,\"executions\":%d,\"overlapped\":%d,\"fails\":%d}\n", evaluations, executions, overlappedRuns, fails)
}

// ---------------------------------------------------------------- replay

func replay(args []string) {
	if len(args) < 1 {
		fmt.Fprintln(os.Stderr, "usage: c18 replay file")
		os.Exit(2)
	}
	raw, err := os.ReadFile(args[0])
	if err != nil {
		fmt.Fprintln(os.Stderr, err)
		os.Exit(2)
	}
	var w struct {
		Key   string `json:"key"`
		Input Case   `json:"input"`
	}
	if err := json.Unmarshal(raw, &w); err != nil || w.Input.Mode == "" {
		fmt.Println("replay file carries no executable case (obligation-only violation): re-run ./check C18")
		os.Exit(1)
	}
	cs := w.Input
	var f *failure
	switch cs.Mode {
	case "seq":
		f = seqCheck(cs.Seq, 3)
	case "history":
		for i := 0; i < 5000 && f == nil; i++ {
			ops, _ := runHistory(cs)
			if res, key := checkHistory(ops); res == porcupine.Illegal {
				if k := strings.IndexByte(key, '|'); k >= 0 {
					key = key[:k]
				}
				f = &failure{Kind: "fail", Key: key, What: describeHistory(ops), Case: cs}
			}
		}
	case "stress":
		for i := 0; i < 20 && f == nil; i++ {
			f = runStress(cs)
		}
	}
	if f != nil {
		out, _ := json.MarshalIndent(f, "", " ")
		fmt.Printf("REPRODUCED %s\n%s\n", f.Key, out)
		os.Exit(1)
	}
	fmt.Println("not reproduced: the recorded case passes on this tree (concurrent cases were re-executed many times; data races show only under the -race build)")
}

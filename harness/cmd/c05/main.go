// Command c05: correspondence cases and direct oracle for property C05
// (Create tabulates a valid, stable file; offsets balance every batch).
//
// A case is a history: 1..3 batches assembled through the public constructors
// (not yet created), then 1..n operations Batch.Create / AddEntry / File.Create.
//
//	corr    runs every history on the real code with the tabulation step of Create
//	        (Batch.build, verif hook) and writes the abstract initial state + ops for
//	        the extracted Coq model and the implementation's observation after each op
//	oracle  runs every history through the public API (Create = build + Validate) and
//	        evaluates the property directly
//	replay  runs the oracle on one case file
package main

import (
	"bytes"
	"encoding/json"
	"flag"
	"fmt"
	"os"
	"path/filepath"
	"sort"
	"strconv"
	"strings"
	"time"

	"github.com/moov-io/ach"

	"verifharness/internal/gen"
	"verifharness/internal/hx"
	"verifharness/internal/rng"
)

func main() {
	if len(os.Args) < 2 {
		fmt.Fprintln(os.Stderr, "usage: c05 corr|oracle|replay ...")
		os.Exit(2)
	}
	switch os.Args[1] {
	case "corr":
		corr(os.Args[2:])
	case "oracle":
		oracle(os.Args[2:])
	case "replay":
		replay(os.Args[2:])
	default:
		fmt.Fprintln(os.Stderr, "unknown mode")
		os.Exit(2)
	}
}

// ---------------------------------------------------------------- case description

type batchSpec struct {
	SEC        string `json:"sec"`
	GSeed      uint64 `json:"gseed"`       // seed of the entry generator
	MaxEntries int    `json:"max_entries"` // 1..n entries
	Addenda    bool   `json:"addenda"`     // optional addenda where the SEC allows
	Num        int    `json:"num"`         // header batch number as provided by the caller (0/1 = absent)
	SCC200     bool   `json:"scc200"`      // header service class forced to 200
	Offset     string `json:"offset"`      // "", checking, savings, badtype, badrouting
	Desc       string `json:"desc"`        // offset description
	Traces     string `json:"traces"`      // empty | keep | foreign | mixed
	Rename     int    `json:"rename"`      // index of the entry whose IndividualName becomes RenameAs (-1: none)
	RenameAs   string `json:"rename_as"`
	RenameCode int    `json:"rename_code"` // 0: keep the entry's transaction code
}

type opSpec struct {
	Op    string `json:"op"` // C (Batch.Create) | A (AddEntry) | F (File.Create)
	I     int    `json:"i"`
	ESeed uint64 `json:"eseed,omitempty"`
	Trace string `json:"trace,omitempty"` // A: empty | next
	Name  string `json:"name,omitempty"`  // A: "" or a name equal to OFFSET under EqualFold
}

type caseSpec struct {
	Kind    string      `json:"kind"` // std | iat | adv
	HdrBad  bool        `json:"hdr_bad,omitempty"`
	Batches []batchSpec `json:"batches"`
	Ops     []opSpec    `json:"ops"`
}

var offsetFriendly = map[string]bool{ach.PPD: true, ach.CCD: true, ach.WEB: true, ach.CTX: true,
	ach.ACK: true, ach.ATX: true, ach.COR: true, ach.DNE: true, ach.ENR: true}

// SEC codes whose IndividualName is free text (renaming an entry OFFSET keeps it valid)
var plainName = map[string]bool{ach.PPD: true, ach.CCD: true, ach.WEB: true, ach.TEL: true, ach.CIE: true, ach.ARC: true, ach.BOC: true}

// expectOK: every Create of the history must succeed (the history is valid by construction).
func (c caseSpec) expectOK() bool {
	if c.Kind != "std" {
		for _, b := range c.Batches {
			if b.Offset != "" {
				return false // offsets exist for standard batches only (ADV: Create returns an error)
			}
		}
		return true
	}
	adds := map[int]bool{}
	for _, o := range c.Ops {
		if o.Op == "A" {
			adds[o.I] = true
			if o.Trace != "empty" || o.Name != "" {
				return false
			}
		}
	}
	for i, b := range c.Batches {
		switch b.Offset {
		case "":
		case "checking", "savings":
			if !offsetFriendly[b.SEC] || b.Desc != "OFFSET" {
				return false
			}
		default:
			return false
		}
		switch b.Traces {
		case "empty", "foreign":
		case "keep":
			if adds[i] {
				return false
			}
		default:
			return false
		}
		if adds[i] && !b.SCC200 {
			return false
		}
		if b.Rename >= 0 && (b.RenameCode != 0 || !plainName[b.SEC]) {
			return false
		}
		// removing an entry the caller named OFFSET shifts the positions from which build numbers
		// entries added later: their trace numbers may collide (Create then returns an error)
		if b.Rename >= 0 && b.Offset != "" && adds[i] {
			return false
		}
	}
	return true
}

// ---------------------------------------------------------------- building the real objects

type world struct {
	c       caseSpec
	file    *ach.File
	batches []ach.Batcher
	iat     bool
	offs    []*ach.Offset // per batch
}

const validRouting = "121042882"

func countAddenda(e *ach.EntryDetail) int {
	n := 0
	if e.Addenda02 != nil {
		n++
	}
	for _, a := range e.Addenda05 {
		if a != nil {
			n++
		}
	}
	if e.Addenda98 != nil {
		n++
	}
	if e.Addenda98Refused != nil {
		n++
	}
	if e.Addenda99 != nil {
		n++
	}
	if e.Addenda99Dishonored != nil {
		n++
	}
	if e.Addenda99Contested != nil {
		n++
	}
	return n
}

func isOffsetName(s string) bool { return strings.EqualFold(s, "OFFSET") }

// freshEntries: valid entries of the SEC from the shared generator, taken out of a created
// batch (OFFSET rows dropped); the caller decides about the trace numbers.
func freshEntries(sec string, seed uint64, odfi string, max int, addenda bool) (hdr *ach.BatchHeader, out []*ach.EntryDetail) {
	defer func() {
		// the shared generator panics when it cannot get its batch through Create (it is written
		// for a working library): fall back to plain hand-made entries so that the oracle still
		// runs and can name a concrete failing history
		if p := recover(); p != nil {
			degraded++
			hdr, out = plainEntries(sec, seed, odfi, max, addenda)
		}
	}()
	r := rng.New(seed)
	b := gen.BatchOfKind(r, sec, odfi, 1, gen.KindForward, gen.Opts{MaxEntries: max, Addenda: addenda})
	var es []*ach.EntryDetail
	for _, e := range b.GetEntries() {
		if !isOffsetName(e.IndividualName) {
			es = append(es, e)
		}
	}
	h := *b.GetHeader()
	return &h, es
}

var degraded int
var lastDegraded string

// safely runs a call into the shared generator; false when it panicked (library broken)
func safely(f func()) (ok bool) {
	defer func() {
		if p := recover(); p != nil {
			degraded++
			lastDegraded = fmt.Sprint(p)
			ok = false
		}
	}()
	f()
	return true
}

// plainEntries: PPD / CCD / WEB style entries built without calling Create (see freshEntries).
func plainEntries(sec string, seed uint64, odfi string, max int, addenda bool) (*ach.BatchHeader, []*ach.EntryDetail) {
	r := rng.New(seed ^ 0x5bd1e995)
	if sec != ach.PPD && sec != ach.CCD && sec != ach.WEB {
		sec = ach.PPD
	}
	if odfi == "" {
		odfi = "12104288"
	}
	bh := ach.NewBatchHeader()
	bh.ServiceClassCode = ach.MixedDebitsAndCredits
	bh.StandardEntryClassCode = sec
	bh.CompanyName = "Payee Co"
	bh.CompanyIdentification = "121042882"
	bh.CompanyEntryDescription = "PAYMENT"
	bh.EffectiveEntryDate = "190816"
	bh.ODFIIdentification = odfi
	var es []*ach.EntryDetail
	n := r.Range(1, max)
	for i := 0; i < n; i++ {
		e := ach.NewEntryDetail()
		e.TransactionCode = rng.Pick(r, []int{ach.CheckingCredit, ach.CheckingDebit, ach.SavingsCredit, ach.SavingsDebit})
		e.SetRDFI(rng.Pick(r, []string{"231380104", "121042882", "091000019"}))
		e.DFIAccountNumber = strconv.Itoa(r.Range(1000, 99999999))
		e.Amount = r.Range(1, 5000000)
		e.IndividualName = "Receiver " + strconv.Itoa(i)
		e.SetTraceNumber(odfi, i+1)
		if sec == ach.WEB {
			e.SetPaymentType("S")
		}
		if addenda && r.Bool() {
			a := ach.NewAddenda05()
			a.PaymentRelatedInformation = "invoice " + strconv.Itoa(r.Range(1, 9999))
			a.SequenceNumber = 1
			a.EntryDetailSequenceNumber = i + 1
			e.AddAddenda05(a)
			e.AddendaRecordIndicator = 1
		}
		es = append(es, e)
	}
	return bh, es
}

func clearTrace(e *ach.EntryDetail) {
	e.TraceNumber = ""
	if e.Addenda02 != nil {
		e.Addenda02.TraceNumber = ""
	}
	if e.Addenda98 != nil {
		e.Addenda98.TraceNumber = ""
	}
}

func build(c caseSpec) *world {
	w := &world{c: c}
	f := ach.NewFile()
	hr := rng.New(77)
	f.SetHeader(gen.Header(hr, gen.Opts{}))
	if c.HdrBad {
		f.Header.ImmediateDestination = ""
	}
	w.file = f
	switch c.Kind {
	case "adv":
		for _, bs := range c.Batches {
			var af *ach.File
			if !safely(func() {
				af = gen.FileOfSEC(rng.New(bs.GSeed), ach.ADV, gen.Opts{MinBatches: 1, MaxBatches: 1, MaxEntries: bs.MaxEntries})
			}) {
				continue
			}
			src := af.Batches[0]
			h := *src.GetHeader()
			h.BatchNumber = bs.Num
			nb := ach.NewBatchADV(&h)
			for _, e := range src.GetADVEntries() {
				ce := *e
				ce.SequenceNumber = 0
				nb.AddADVEntry(&ce)
			}
			w.offs = append(w.offs, offsetOf(bs, nb))
			w.batches = append(w.batches, nb)
			f.AddBatch(nb)
		}
	case "iat":
		w.iat = true
		for _, bs := range c.Batches {
			var ib ach.IATBatch
			if !safely(func() {
				ib = gen.IATBatch(rng.New(bs.GSeed), "", bs.Num, gen.Opts{MaxEntries: bs.MaxEntries, Addenda: bs.Addenda, ForwardOnly: true})
			}) {
				continue
			}
			nb := ach.NewIATBatch(ib.GetHeader())
			nb.Header.BatchNumber = bs.Num
			for i, e := range ib.GetEntries() {
				switch bs.Traces {
				case "empty":
					e.TraceNumber = ""
				case "foreign":
					e.TraceNumber = "99999999" + fmt.Sprintf("%07d", 5+i)
				}
				nb.AddEntry(e)
			}
			f.AddIATBatch(nb)
		}
	default:
		for _, bs := range c.Batches {
			h, es := freshEntries(bs.SEC, bs.GSeed, "", bs.MaxEntries, bs.Addenda)
			h.BatchNumber = bs.Num
			if bs.SCC200 {
				h.ServiceClassCode = ach.MixedDebitsAndCredits
				// a batch described as PRENOTE admits zero amounts only; entries added later are arbitrary
				if strings.EqualFold(h.CompanyEntryDescription, "PRENOTE") {
					h.CompanyEntryDescription = "PAYMENT"
				}
			}
			nb, err := ach.NewBatch(h)
			if err != nil {
				panic(err)
			}
			for i, e := range es {
				switch bs.Traces {
				case "empty":
					clearTrace(e)
				case "foreign":
					e.SetTraceNumber("99999999", 5+i)
				case "mixed":
					if i%2 == 1 {
						clearTrace(e)
					}
				}
				if i == bs.Rename {
					e.IndividualName = bs.RenameAs
					if bs.RenameCode != 0 {
						e.TransactionCode = bs.RenameCode
					}
				}
				nb.AddEntry(e)
			}
			w.offs = append(w.offs, offsetOf(bs, nb))
			w.batches = append(w.batches, nb)
			f.AddBatch(nb)
		}
	}
	return w
}

func offsetOf(bs batchSpec, b ach.Batcher) *ach.Offset {
	if bs.Offset == "" {
		return nil
	}
	o := &ach.Offset{RoutingNumber: validRouting, AccountNumber: "8675309", AccountType: ach.OffsetAccountType(bs.Offset), Description: bs.Desc}
	switch bs.Offset {
	case "badtype":
		o.AccountType = "loan"
	case "badrouting":
		o.AccountType = ach.OffsetChecking
		o.RoutingNumber = "121042883"
	}
	b.WithOffset(o)
	return o
}

// addEntry builds the entry of an A operation (valid for the batch's SEC).
func (w *world) addEntry(o opSpec) *ach.EntryDetail {
	b := w.batches[o.I]
	bs := w.c.Batches[o.I]
	_, es := freshEntries(bs.SEC, o.ESeed, b.GetHeader().ODFIIdentification, 1, bs.Addenda)
	e := es[0]
	switch o.Trace {
	case "next":
		last := 0
		if cur := b.GetEntries(); len(cur) > 0 {
			last, _ = strconv.Atoi(cur[len(cur)-1].TraceNumber)
		}
		t := fmt.Sprintf("%015d", last+1)
		e.TraceNumber = t
		if e.Addenda02 != nil {
			e.Addenda02.TraceNumber = t
		}
	default:
		clearTrace(e)
	}
	if o.Name != "" {
		e.IndividualName = o.Name
	}
	return e
}

// ---------------------------------------------------------------- guarded execution

type outcome string

const (
	outOK    outcome = "OK"
	outERR   outcome = "ERR"
	outPANIC outcome = "PANIC"
	outHANG  outcome = "HANG"
)

var hangs int

// watchdog: generous for the first hang (operations normally take well under a millisecond),
// short once a hang has been seen in this run
func watchdog() time.Duration {
	if hangs == 0 {
		return 20 * time.Second
	}
	return 3 * time.Second
}

func guarded(f func() error) (out outcome, detail string) {
	type res struct {
		err error
		p   any
	}
	ch := make(chan res, 1)
	go func() {
		defer func() {
			if p := recover(); p != nil {
				ch <- res{p: p}
			}
		}()
		ch <- res{err: f()}
	}()
	select {
	case r := <-ch:
		if r.p != nil {
			return outPANIC, fmt.Sprint(r.p)
		}
		if r.err != nil {
			return outERR, r.err.Error()
		}
		return outOK, ""
	case <-time.After(watchdog()):
		hangs++
		return outHANG, "no return within the watchdog time"
	}
}

type builder interface{ VerifBuild() error }

// apply performs one operation; hook = true uses Batch.build instead of Create.
func (w *world) apply(o opSpec, hook bool) (outcome, string, *ach.EntryDetail) {
	switch o.Op {
	case "F":
		out, d := guarded(w.file.Create)
		return out, d, nil
	case "A":
		if w.c.Kind != "std" || o.I >= len(w.batches) {
			return outOK, "", nil
		}
		e := w.addEntry(o)
		w.batches[o.I].AddEntry(e)
		return outOK, "", e
	default:
		if w.iat {
			if o.I >= len(w.file.IATBatches) {
				return outOK, "", nil
			}
			b := &w.file.IATBatches[o.I]
			if hook {
				out, d := guarded(b.VerifBuild)
				return out, d, nil
			}
			out, d := guarded(b.Create)
			return out, d, nil
		}
		if o.I >= len(w.batches) {
			return outOK, "", nil
		}
		b := w.batches[o.I]
		if hook {
			out, d := guarded(b.(builder).VerifBuild)
			return out, d, nil
		}
		out, d := guarded(b.Create)
		return out, d, nil
	}
}

// ---------------------------------------------------------------- abstraction (what the Coq model sees)

func atoiOr0(s string) int {
	n, err := strconv.Atoi(s)
	if err != nil {
		return 0
	}
	return n
}

func rdfiOf(s string) int {
	if len(s) > 8 {
		s = s[:8]
	}
	return atoiOr0(s)
}

func b2i(b bool) int {
	if b {
		return 1
	}
	return 0
}

func absEntry(e *ach.EntryDetail) string {
	return fmt.Sprintf("%d:%d:%d:%d:%d:%d", e.TransactionCode, e.Amount, b2i(isOffsetName(e.IndividualName)),
		atoiOr0(e.TraceNumber), countAddenda(e), rdfiOf(e.RDFIIdentification))
}

func absCtl(c *ach.BatchControl) string {
	if c == nil {
		return "nil"
	}
	return fmt.Sprintf("%d,%d,%d,%d,%d,%d", c.ServiceClassCode, c.BatchNumber, c.EntryAddendaCount, c.EntryHash,
		c.TotalCreditEntryDollarAmount, c.TotalDebitEntryDollarAmount)
}

func absBatch(b ach.Batcher) string {
	var es []string
	for _, e := range b.GetEntries() {
		es = append(es, absEntry(e))
	}
	h := b.GetHeader()
	return fmt.Sprintf("B:%d,%d|%s|%s", h.ServiceClassCode, h.BatchNumber, absCtl(b.GetControl()), strings.Join(es, ";"))
}

func absFctl(c *ach.FileControl) string {
	return fmt.Sprintf("%d,%d,%d,%d,%d,%d", c.BatchCount, c.BlockCount, c.EntryAddendaCount, c.EntryHash,
		c.TotalDebitEntryDollarAmountInFile, c.TotalCreditEntryDollarAmountInFile)
}

func (w *world) abs() string {
	parts := []string{"F:" + absFctl(&w.file.Control)}
	for _, b := range w.batches {
		parts = append(parts, absBatch(b))
	}
	return strings.Join(parts, " ")
}

// ---------------------------------------------------------------- rendering

func (w *world) render() string {
	var buf bytes.Buffer
	out, d := guarded(func() error {
		wr := ach.NewWriter(&buf)
		wr.BypassValidation = true
		return wr.Write(w.file)
	})
	if out != outOK {
		return "<" + string(out) + " " + d + ">"
	}
	return buf.String()
}

func renderBatch(b ach.Batcher) string {
	var sb strings.Builder
	out, d := guarded(func() error {
		sb.WriteString(b.GetHeader().String() + "\n")
		for _, e := range b.GetEntries() {
			sb.WriteString(e.String() + "\n")
			if e.Addenda02 != nil {
				sb.WriteString(e.Addenda02.String() + "\n")
			}
			for _, a := range e.Addenda05 {
				sb.WriteString(a.String() + "\n")
			}
			if e.Addenda98 != nil {
				sb.WriteString(e.Addenda98.String() + "\n")
			}
			if e.Addenda99 != nil {
				sb.WriteString(e.Addenda99.String() + "\n")
			}
		}
		for _, e := range b.GetADVEntries() {
			sb.WriteString(e.String() + "\n")
		}
		if c := b.GetControl(); c != nil {
			sb.WriteString(c.String() + "\n")
		}
		if c := b.GetADVControl(); c != nil {
			sb.WriteString(c.String() + "\n")
		}
		return nil
	})
	if out != outOK {
		return "<" + string(out) + " " + d + ">"
	}
	return sb.String()
}

func renderIAT(b *ach.IATBatch) string {
	f := ach.NewFile()
	f.AddIATBatch(*b)
	var buf bytes.Buffer
	out, d := guarded(func() error {
		wr := ach.NewWriter(&buf)
		wr.BypassValidation = true
		return wr.Write(f)
	})
	if out != outOK {
		return "<" + string(out) + " " + d + ">"
	}
	return buf.String()
}

// ---------------------------------------------------------------- case generation

var stdSECs = gen.AllSECs()

func genCase(r *rng.R, maxOps int) caseSpec {
	k := r.Intn(100)
	switch {
	case k < 6:
		return genSpecial(r, "adv", maxOps)
	case k < 14:
		return genSpecial(r, "iat", maxOps)
	}
	c := caseSpec{Kind: "std"}
	nb := 1
	if r.Chance(1, 3) {
		nb = r.Range(2, 3)
	}
	for i := 0; i < nb; i++ {
		bs := batchSpec{SEC: rng.Pick(r, stdSECs), GSeed: r.U64() >> 1, MaxEntries: r.Range(1, 6), Addenda: r.Chance(1, 3), Rename: -1, Desc: "OFFSET"}
		if r.Chance(1, 2) {
			bs.SEC = rng.Pick(r, []string{ach.PPD, ach.CCD, ach.WEB, ach.CTX})
		}
		// batch numbers: absent almost always (0 or 1); sometimes provided
		switch r.Intn(8) {
		case 0:
			bs.Num = 1
		case 1:
			bs.Num = r.Range(2, 40)
		}
		switch r.Intn(10) {
		case 0, 1, 2, 3:
			bs.Offset = "checking"
		case 4, 5:
			bs.Offset = "savings"
		case 6:
			if r.Chance(1, 3) {
				bs.Offset = rng.Pick(r, []string{"badtype", "badrouting"})
			}
		}
		if bs.Offset != "" && r.Chance(1, 12) {
			bs.Desc = rng.Pick(r, []string{"01", "PAYROLL", ""})
		}
		switch r.Intn(10) {
		case 0, 1, 2, 3, 4:
			bs.Traces = "empty"
		case 5, 6, 7:
			bs.Traces = "keep"
		case 8:
			bs.Traces = "foreign"
		default:
			bs.Traces = "mixed"
		}
		if r.Chance(1, 6) {
			bs.Rename = r.Intn(bs.MaxEntries)
			bs.RenameAs = rng.Pick(r, []string{"OFFSET", "OFFSET", "offset", "Offset"})
			if !plainName[bs.SEC] {
				bs.SEC = rng.Pick(r, []string{ach.PPD, ach.CCD, ach.WEB})
			}
			if r.Chance(1, 5) {
				bs.RenameCode = rng.Pick(r, []int{ach.GLCredit, ach.LoanCredit, ach.CheckingPrenoteCredit, ach.GLDebit})
			}
		}
		c.Batches = append(c.Batches, bs)
	}
	n := r.Range(1, maxOps)
	hasAdd := map[int]bool{}
	for j := 0; j < n; j++ {
		o := opSpec{I: r.Intn(nb)}
		switch x := r.Intn(100); {
		case x < 60 || j == 0:
			o.Op = "C"
		case x < 85:
			o.Op = "A"
			o.ESeed = r.U64() >> 1
			o.Trace = "empty"
			if r.Chance(1, 5) {
				o.Trace = "next"
			}
			if r.Chance(1, 10) && plainName[c.Batches[o.I].SEC] {
				o.Name = rng.Pick(r, []string{"OFFSET", "offset"})
			}
			hasAdd[o.I] = true
		default:
			o.Op = "F"
			o.I = 0
		}
		c.Ops = append(c.Ops, o)
	}
	for i := range c.Batches {
		if hasAdd[i] && r.Chance(9, 10) {
			c.Batches[i].SCC200 = true
		}
	}
	// histories usually end with the tabulation of everything
	if r.Chance(1, 2) {
		for i := range c.Batches {
			c.Ops = append(c.Ops, opSpec{Op: "C", I: i})
		}
		c.Ops = append(c.Ops, opSpec{Op: "F"})
		if r.Chance(1, 2) {
			c.Ops = append(c.Ops, opSpec{Op: "F"})
		}
	}
	c.HdrBad = r.Chance(1, 40)
	return c
}

func genSpecial(r *rng.R, kind string, maxOps int) caseSpec {
	c := caseSpec{Kind: kind}
	nb := r.Range(1, 2)
	for i := 0; i < nb; i++ {
		bs := batchSpec{SEC: strings.ToUpper(kind), GSeed: r.U64() >> 1, MaxEntries: r.Range(1, 4), Addenda: r.Bool(), Rename: -1,
			Traces: rng.Pick(r, []string{"empty", "keep", "foreign"})}
		if r.Chance(1, 4) {
			bs.Num = r.Range(1, 9)
		}
		c.Batches = append(c.Batches, bs)
	}
	n := r.Range(1, maxOps)
	for j := 0; j < n; j++ {
		if r.Chance(3, 4) {
			c.Ops = append(c.Ops, opSpec{Op: "C", I: r.Intn(nb)})
		} else {
			c.Ops = append(c.Ops, opSpec{Op: "F"})
		}
	}
	for i := 0; i < nb; i++ {
		c.Ops = append(c.Ops, opSpec{Op: "C", I: i})
	}
	c.Ops = append(c.Ops, opSpec{Op: "F"}, opSpec{Op: "F"})
	return c
}

// sweep: the shapes the anticipated defect depends on — position of an existing OFFSET
// entry x number of entries x repetitions, for both account types.
func sweepCases() []caseSpec {
	var out []caseSpec
	seed := uint64(1000)
	for _, sec := range []string{ach.PPD, ach.CCD, ach.WEB, ach.CTX} {
		for n := 1; n <= 6; n++ {
			for _, kind := range []string{"checking", "savings"} {
				seed++
				c := caseSpec{Kind: "std", Batches: []batchSpec{{SEC: sec, GSeed: seed, MaxEntries: n, Offset: kind, Desc: "OFFSET", Traces: "empty", Rename: -1}},
					Ops: []opSpec{{Op: "C"}, {Op: "C"}, {Op: "F"}, {Op: "C"}, {Op: "F"}}}
				out = append(out, c)
			}
		}
	}
	for n := 1; n <= 6; n++ {
		for pos := 0; pos < n; pos++ {
			seed++
			out = append(out, caseSpec{Kind: "std", Batches: []batchSpec{{SEC: ach.PPD, GSeed: seed, MaxEntries: n, Offset: "checking", Desc: "OFFSET",
				Traces: "empty", Rename: pos, RenameAs: "OFFSET"}}, Ops: []opSpec{{Op: "C"}, {Op: "C"}}})
		}
	}
	// every SEC with an offset configured, created twice
	for _, sec := range stdSECs {
		seed++
		out = append(out, caseSpec{Kind: "std", Batches: []batchSpec{{SEC: sec, GSeed: seed, MaxEntries: 3, Offset: "checking", Desc: "OFFSET", Traces: "empty", Rename: -1}},
			Ops: []opSpec{{Op: "C"}, {Op: "C"}, {Op: "F"}, {Op: "F"}}})
		seed++
		out = append(out, caseSpec{Kind: "std", Batches: []batchSpec{{SEC: sec, GSeed: seed, MaxEntries: 3, Traces: "empty", Rename: -1}, {SEC: sec, GSeed: seed + 500, MaxEntries: 2, Traces: "keep", Rename: -1}},
			Ops: []opSpec{{Op: "C"}, {Op: "C", I: 1}, {Op: "F"}, {Op: "C"}, {Op: "F"}}})
	}
	for _, kind := range []string{"checking", "savings"} {
		seed++
		out = append(out, caseSpec{Kind: "adv", Batches: []batchSpec{{SEC: ach.ADV, GSeed: seed, MaxEntries: 2, Offset: kind, Desc: "OFFSET", Traces: "keep", Rename: -1}},
			Ops: []opSpec{{Op: "C"}, {Op: "C"}, {Op: "F"}}})
	}
	return out
}

func corpusCases(dir string) []caseSpec {
	var out []caseSpec
	if dir == "" {
		return out
	}
	names, _ := filepath.Glob(filepath.Join(dir, "*.json"))
	sort.Strings(names)
	for _, p := range names {
		b, err := os.ReadFile(p)
		if err != nil {
			continue
		}
		var rp struct {
			Input caseSpec `json:"input"`
		}
		if json.Unmarshal(b, &rp) == nil && rp.Input.Kind != "" {
			out = append(out, rp.Input)
		}
	}
	return out
}

func allCases(corpus string, n, maxOps int, salt uint64) []caseSpec {
	cs := corpusCases(corpus)
	cs = append(cs, sweepCases()...)
	r := rng.FromEnv(salt)
	for i := 0; i < n; i++ {
		cs = append(cs, genCase(r, maxOps))
	}
	return cs
}

// ---------------------------------------------------------------- correspondence

func corr(args []string) {
	fs := flag.NewFlagSet("corr", flag.ExitOnError)
	out := fs.String("out", "", "output directory")
	n := fs.Int("n", 1500, "generated histories")
	maxOps := fs.Int("maxops", 4, "longest random part of a history")
	corpus := fs.String("corpus", "", "corpus directory")
	fs.Parse(args)
	cases := hx.Create(filepath.Join(*out, "cases.txt"))
	impl := hx.Create(filepath.Join(*out, "impl.txt"))
	total, lines := 0, 0
	for id, c := range allCases(*corpus, *n, *maxOps, 505) {
		if c.Kind != "std" || hangs > 1 {
			continue
		}
		total++
		w := build(c)
		cases.Printf("CASE %d %d %s\n", id, b2i(w.file.Header.Validate() == nil), absFctl(&w.file.Control))
		for i, b := range w.batches {
			h := b.GetHeader()
			kind, rok, ordfi := "none", 0, 0
			if o := w.offs[i]; o != nil {
				switch o.AccountType {
				case ach.OffsetChecking:
					kind = "checking"
				case ach.OffsetSavings:
					kind = "savings"
				default:
					kind = "bad"
				}
				rok = b2i(ach.CheckRoutingNumber(o.RoutingNumber) == nil)
				ordfi = rdfiOf(o.RoutingNumber)
			}
			var es []string
			for _, e := range b.GetEntries() {
				es = append(es, absEntry(e))
			}
			cases.Printf("B %d %d %d %d %s %d %d %s %s\n", b2i(h.Validate() == nil), atoiOr0(h.ODFIIdentificationField()[:8]),
				h.ServiceClassCode, h.BatchNumber, kind, rok, ordfi, absCtl(b.GetControl()), strings.Join(append(es, "."), ";"))
		}
		stopped := false
		for k, o := range c.Ops {
			if stopped {
				break
			}
			res, _, added := w.apply(o, true)
			switch o.Op {
			case "A":
				if added != nil {
					cases.Printf("O A %d %s\n", o.I, absEntry(added))
				} else {
					cases.Printf("O N\n")
				}
			case "F":
				cases.Printf("O F\n")
			default:
				cases.Printf("O C %d\n", o.I)
			}
			if res == outPANIC || res == outHANG {
				impl.Printf("c%d o%d %s\n", id, k, res)
				stopped = true
			} else {
				impl.Printf("c%d o%d %s %s\n", id, k, res, w.abs())
			}
			lines++
		}
		cases.Printf("END\n")
	}
	cases.Close()
	impl.Close()
	fmt.Printf("{\"histories\":%d,\"observations\":%d}\n", total, lines)
}

// ---------------------------------------------------------------- oracle

type failure struct {
	Kind string   `json:"kind"`
	Key  string   `json:"key"`
	What string   `json:"what"`
	Op   int      `json:"op"`
	Case caseSpec `json:"case"`
}

func secClass(c caseSpec, i int) string {
	if i < len(c.Batches) {
		return c.Batches[i].SEC
	}
	return "?"
}

// independent recomputation of a batch control from the entries (NACHA rule: second digit
// of the transaction code 1..4 credit, 5..9 debit)
func recompute(b ach.Batcher) (count, hash, credit, debit int) {
	for _, e := range b.GetEntries() {
		count += 1 + countAddenda(e)
		hash += rdfiOf(e.RDFIIdentification)
		switch d := e.TransactionCode % 10; {
		case d >= 1 && d <= 4:
			credit += e.Amount
		case d >= 5:
			debit += e.Amount
		}
	}
	return count, hash % 10000000000, credit, debit
}

func userEntries(b ach.Batcher) []string {
	var out []string
	for _, e := range b.GetEntries() {
		if !isOffsetName(e.IndividualName) {
			out = append(out, fmt.Sprintf("%d/%d/%s/%s", e.TransactionCode, e.Amount, e.DFIAccountNumber, e.IndividualName))
		}
	}
	return out
}

// checkCreated: what must hold of a standard batch right after Create() returned nil.
func checkCreated(w *world, i int, before []string) (string, string) {
	b := w.batches[i]
	if out, d := guarded(b.Validate); out != outOK {
		return "create:ok-but-invalid", fmt.Sprintf("Validate after a successful Create: %s %s", out, d)
	}
	c := b.GetControl()
	cnt, hash, cr, db := recompute(b)
	if c.EntryAddendaCount != cnt || c.EntryHash != hash || c.TotalCreditEntryDollarAmount != cr || c.TotalDebitEntryDollarAmount != db {
		return "create:control-mismatch", fmt.Sprintf("control %s, recomputed count=%d hash=%d credit=%d debit=%d", absCtl(c), cnt, hash, cr, db)
	}
	h := b.GetHeader()
	if c.ServiceClassCode != h.ServiceClassCode || c.BatchNumber != h.BatchNumber {
		return "create:control-mismatch", "service class / batch number of control and header differ"
	}
	odfi := h.ODFIIdentificationField()
	last := ""
	for _, e := range b.GetEntries() {
		if len(e.TraceNumber) != 15 || e.TraceNumber[:8] != odfi {
			return "create:sequence", fmt.Sprintf("trace number %q does not carry ODFI %s", e.TraceNumber, odfi)
		}
		if e.TraceNumber <= last {
			return "create:sequence", fmt.Sprintf("trace numbers not ascending: %q after %q", e.TraceNumber, last)
		}
		last = e.TraceNumber
		for k, a := range e.Addenda05 {
			if a.SequenceNumber != k+1 || a.EntryDetailSequenceNumber != atoiOr0(e.TraceNumber[8:]) {
				return "create:sequence", fmt.Sprintf("addenda05 %d of entry %s has sequence %d / entry sequence %d", k, e.TraceNumber, a.SequenceNumber, a.EntryDetailSequenceNumber)
			}
		}
	}
	after := userEntries(b)
	if w.offs[i] == nil {
		if strings.Join(entriesAll(b), "|") != strings.Join(before, "|") {
			return "create:entries-changed", "Create without offset changed the list of entries"
		}
	} else {
		if strings.Join(after, "|") != strings.Join(filterUser(before), "|") {
			return "create:entries-lost", fmt.Sprintf("entries not named OFFSET before %d, after %d", len(filterUser(before)), len(after))
		}
		if cr != db {
			return "offset:unbalanced", fmt.Sprintf("credits %d debits %d", cr, db)
		}
		nc, nd := 0, 0
		for _, e := range b.GetEntries() {
			if isOffsetName(e.IndividualName) {
				if d := e.TransactionCode % 10; d >= 1 && d <= 4 {
					nc++
				} else {
					nd++
				}
			}
		}
		if nc > 1 || nd > 1 {
			return "offset:more-than-one-per-direction", fmt.Sprintf("%d credit and %d debit OFFSET entries", nc, nd)
		}
		if h.ServiceClassCode != ach.MixedDebitsAndCredits {
			return "offset:service-class", "header service class is not 200"
		}
	}
	return "", ""
}

func entriesAll(b ach.Batcher) []string {
	var out []string
	for _, e := range b.GetEntries() {
		out = append(out, fmt.Sprintf("%d/%d/%s/%s", e.TransactionCode, e.Amount, e.DFIAccountNumber, e.IndividualName))
	}
	return out
}

func filterUser(all []string) []string {
	var out []string
	for _, s := range all {
		if !isOffsetName(s[strings.LastIndex(s, "/")+1:]) {
			out = append(out, s)
		}
	}
	return out
}

func checkFileCreated(w *world) (string, string) {
	f := w.file
	if f.IsADV() {
		return "", ""
	}
	var cnt, hash, db, cr, recs int
	recs = 2
	add := func(c *ach.BatchControl) {
		cnt += c.EntryAddendaCount
		hash += c.EntryHash
		db += c.TotalDebitEntryDollarAmount
		cr += c.TotalCreditEntryDollarAmount
		recs += 2 + c.EntryAddendaCount
	}
	for _, b := range f.Batches {
		add(b.GetControl())
	}
	for i := range f.IATBatches {
		add(f.IATBatches[i].GetControl())
	}
	c := f.Control
	blocks := (recs + 9) / 10
	if c.BatchCount != len(f.Batches)+len(f.IATBatches) || c.BlockCount != blocks || c.EntryAddendaCount != cnt ||
		c.EntryHash != hash%10000000000 || c.TotalDebitEntryDollarAmountInFile != db || c.TotalCreditEntryDollarAmountInFile != cr {
		return "file:control-mismatch", fmt.Sprintf("file control %s, recomputed batches=%d blocks=%d count=%d hash=%d debit=%d credit=%d",
			absFctl(&c), len(f.Batches)+len(f.IATBatches), blocks, cnt, hash%10000000000, db, cr)
	}
	return "", ""
}

// runOracle evaluates the property on one history; it returns the failures and whether
// some Create succeeded (the history is then counted as non-trivial).
func runOracle(c caseSpec) (fails []failure, created bool, outs []outcome) {
	d0 := degraded
	w := build(c)
	if c.Kind != "std" && degraded > d0 {
		// the shared generator's ADV / IAT batch (valid by construction) did not get through Create
		fails = append(fails, failure{Kind: "fail", Key: "create:unexpected-error", What: c.Kind + " batch, valid by construction: " + lastDegraded, Case: c})
		return
	}
	twin := build(c) // same history with Batch.build (hook) in place of Create
	expect := c.expectOK()
	if c.Kind == "std" {
		for i, b := range w.batches {
			// a batch all of whose entries are named OFFSET is emptied by the offset logic
			if w.offs[i] != nil && len(userEntries(b)) == 0 {
				expect = false
			}
			// an entry the caller named OFFSET is outside the property's domain unless the removal
			// loop books it the way calculateBatchAmounts counted it (codes 22/32 or a debit code, no addenda)
			for _, e := range b.GetEntries() {
				if w.offs[i] != nil && isOffsetName(e.IndividualName) {
					if countAddenda(e) != 0 || !(e.TransactionCode == 22 || e.TransactionCode == 32 || e.TransactionCode%10 >= 5) {
						expect = false
					}
				}
			}
		}
	}
	absent := true
	for _, b := range c.Batches {
		if b.Num > 1 {
			absent = false
		}
	}
	fail := func(k int, key, what string) {
		fails = append(fails, failure{Kind: "fail", Key: key, What: what, Op: k, Case: c})
	}
	okBatches := map[int]bool{}
	for k, o := range c.Ops {
		var before []string
		if o.Op == "C" && c.Kind == "std" && o.I < len(w.batches) {
			before = entriesAll(w.batches[o.I])
		}
		out, detail, _ := w.apply(o, false)
		outs = append(outs, out)
		if out == outPANIC || out == outHANG {
			fail(k, fmt.Sprintf("%s:%s:%s", map[string]string{"C": "create", "F": "file-create", "A": "add"}[o.Op], strings.ToLower(string(out)), panicClass(c, o, detail)), detail)
			return
		}
		tout, _, _ := twin.apply(o, true)
		if tout == outPANIC || tout == outHANG {
			fail(k, "build:"+strings.ToLower(string(tout)), "Batch.build (hook) did not return")
			return
		}
		if c.Kind == "std" && w.abs() != twin.abs() {
			fail(k, "create:differs-from-build", "state after Create differs from state after Batch.build on the same history")
			return
		}
		switch o.Op {
		case "C":
			if out == outOK {
				created = true
				switch c.Kind {
				case "std":
					if o.I < len(w.batches) {
						okBatches[o.I] = true
						if key, what := checkCreated(w, o.I, before); key != "" {
							fail(k, key, what)
							return
						}
						// again: nothing changes
						r1 := renderBatch(w.batches[o.I])
						out2, d2 := guarded(w.batches[o.I].Create)
						if out2 != outOK {
							fail(k, "create:second-create-"+strings.ToLower(string(out2)), "Create right after a successful Create: "+d2)
							return
						}
						if r2 := renderBatch(w.batches[o.I]); r1 != r2 {
							fail(k, "create:not-idempotent", "rendered batch differs after a second Create:\n"+r1+"---\n"+r2)
							return
						}
						guarded(twin.batches[o.I].(builder).VerifBuild)
					}
				case "iat":
					if o.I < len(w.file.IATBatches) {
						b := &w.file.IATBatches[o.I]
						okBatches[o.I] = true
						if vo, vd := guarded(b.Validate); vo != outOK {
							fail(k, "create:ok-but-invalid", "IAT "+vd)
							return
						}
						r1 := renderIAT(b)
						if out2, d2 := guarded(b.Create); out2 != outOK {
							fail(k, "create:second-create-"+strings.ToLower(string(out2)), "IAT "+d2)
							return
						}
						if r2 := renderIAT(b); r1 != r2 {
							fail(k, "create:not-idempotent", "rendered IAT batch differs after a second Create")
							return
						}
						guarded(twin.file.IATBatches[o.I].VerifBuild)
					}
				case "adv":
					if o.I < len(w.batches) {
						b := w.batches[o.I]
						okBatches[o.I] = true
						if vo, vd := guarded(b.Validate); vo != outOK {
							fail(k, "create:ok-but-invalid", "ADV "+vd)
							return
						}
						r1 := renderBatch(b)
						if out2, d2 := guarded(b.Create); out2 != outOK {
							fail(k, "create:second-create-"+strings.ToLower(string(out2)), "ADV "+d2)
							return
						}
						if r2 := renderBatch(b); r1 != r2 {
							fail(k, "create:not-idempotent", "rendered ADV batch differs after a second Create")
							return
						}
						guarded(twin.batches[o.I].(builder).VerifBuild)
					}
				}
			} else if expect {
				fail(k, "create:unexpected-error", fmt.Sprintf("%s batch, valid by construction: %s", secClass(c, o.I), detail))
				return
			} else {
				delete(okBatches, o.I)
			}
		case "A":
			delete(okBatches, o.I)
		case "F":
			if out == outOK {
				if key, what := checkFileCreated(w); key != "" {
					fail(k, key, what)
					return
				}
				r1 := w.render()
				if out2, d2 := guarded(w.file.Create); out2 != outOK {
					fail(k, "file:second-create-"+strings.ToLower(string(out2)), d2)
					return
				}
				if r2 := w.render(); r1 != r2 {
					fail(k, "file:not-idempotent", "rendered file differs after a second File.Create")
					return
				}
				guarded(twin.file.Create)
				// every batch tabulated and valid, numbers absent: the file validates, numbers ascend
				all := len(okBatches) == len(c.Batches) && c.Kind == "std"
				if all && absent {
					prev := 0
					for _, b := range w.file.Batches {
						if n := b.GetHeader().BatchNumber; n <= prev {
							fail(k, "file:batch-numbers-not-ascending", fmt.Sprintf("batch number %d after %d", n, prev))
							return
						} else {
							prev = n
						}
						if b.GetHeader().BatchNumber != b.GetControl().BatchNumber {
							fail(k, "file:batch-numbers-not-ascending", "header and control batch number differ")
							return
						}
					}
					if vo, vd := guarded(w.file.Validate); vo != outOK {
						fail(k, "file:invalid-after-create", vd)
						return
					}
				}
				// IAT and ADV files: the same statement (numbers ascend and agree, every tabulated batch still
				// validates after File.Create, the ADV file control is the sum over the ADV batch controls)
				if len(okBatches) == len(c.Batches) && c.Kind != "std" {
					prev := 0
					for i := range w.file.IATBatches {
						b := &w.file.IATBatches[i]
						n := b.GetHeader().BatchNumber
						if absent && n <= prev {
							fail(k, "file:batch-numbers-not-ascending", fmt.Sprintf("IAT batch number %d after %d", n, prev))
							return
						}
						prev = n
						if n != b.GetControl().BatchNumber {
							fail(k, "file:batch-number-header-control-differ", fmt.Sprintf("IAT batch %d: header %d, control %d", i, n, b.GetControl().BatchNumber))
							return
						}
						if vo, vd := guarded(b.Validate); vo != outOK {
							fail(k, "file:batch-invalid-after-file-create", "IAT "+vd)
							return
						}
					}
					var cnt, hash, db, cr int
					for i, b := range w.file.Batches {
						ac := b.GetADVControl()
						if b.GetHeader().StandardEntryClassCode != ach.ADV || ac == nil {
							continue
						}
						n := b.GetHeader().BatchNumber
						if absent && n <= prev {
							fail(k, "file:batch-numbers-not-ascending", fmt.Sprintf("ADV batch number %d after %d", n, prev))
							return
						}
						prev = n
						if n != ac.BatchNumber {
							fail(k, "file:batch-number-header-control-differ", fmt.Sprintf("ADV batch %d: header %d, control %d", i, n, ac.BatchNumber))
							return
						}
						if vo, vd := guarded(b.Validate); vo != outOK {
							fail(k, "file:batch-invalid-after-file-create", "ADV "+vd)
							return
						}
						cnt += ac.EntryAddendaCount
						hash += ac.EntryHash
						db += ac.TotalDebitEntryDollarAmount
						cr += ac.TotalCreditEntryDollarAmount
					}
					if w.file.IsADV() {
						fc := w.file.ADVControl
						if fc.BatchCount != len(w.file.Batches) || fc.EntryAddendaCount != cnt || fc.EntryHash != hash%10000000000 ||
							fc.TotalDebitEntryDollarAmountInFile != db || fc.TotalCreditEntryDollarAmountInFile != cr {
							fail(k, "file:adv-control-mismatch", fmt.Sprintf("ADV file control %d,%d,%d,%d,%d recomputed batches=%d count=%d hash=%d debit=%d credit=%d",
								fc.BatchCount, fc.EntryAddendaCount, fc.EntryHash, fc.TotalDebitEntryDollarAmountInFile, fc.TotalCreditEntryDollarAmountInFile,
								len(w.file.Batches), cnt, hash%10000000000, db, cr))
							return
						}
					}
				}
			} else if expect && !c.HdrBad {
				fail(k, "file:unexpected-error", detail)
				return
			}
		}
	}
	return
}

// panicClass makes the failure key narrow: SEC code and the circumstance.
func panicClass(c caseSpec, o opSpec, detail string) string {
	cls := secClass(c, o.I)
	if o.Op == "F" {
		cls = c.Kind
	}
	if o.I < len(c.Batches) && c.Batches[o.I].Offset != "" {
		cls += "+offset"
		if c.Batches[o.I].Desc != "OFFSET" {
			cls += "-desc"
		}
	}
	if o.I < len(c.Batches) && c.Batches[o.I].Rename >= 0 {
		cls += "+renamed"
	}
	return cls
}

type summary struct {
	Kind        string         `json:"kind"`
	Evaluations int            `json:"evaluations"`
	Distinct    int            `json:"distinct_nontrivial"`
	Rule        string         `json:"rule"`
	Dist        map[string]int `json:"distribution"`
	Samples     []caseSpec     `json:"samples"`
}

func oracle(args []string) {
	fs := flag.NewFlagSet("oracle", flag.ExitOnError)
	out := fs.String("out", "", "output directory")
	n := fs.Int("n", 1500, "generated histories")
	maxOps := fs.Int("maxops", 4, "longest random part of a history")
	corpus := fs.String("corpus", "", "corpus directory")
	salt := fs.Uint64("salt", 505, "stream of the generator (505 = the histories of the correspondence run)")
	fs.Parse(args)
	res := hx.Create(filepath.Join(*out, "oracle.jsonl"))
	enc := func(v any) {
		b, _ := json.Marshal(v)
		res.Printf("%s\n", b)
	}
	sum := summary{Kind: "summary", Dist: map[string]int{}, Rule: "one evaluation = one operation of a history run through the public API (Create / AddEntry / File.Create) with all checks after it; a history is non-trivial when at least one Create in it succeeded; distinct by the JSON of the case"}
	seen := map[string]bool{}
	for _, c := range allCases(*corpus, *n, *maxOps, *salt) {
		if hangs > 1 {
			break
		}
		fails, created, outs := runOracle(c)
		sum.Evaluations += len(outs)
		sum.Dist["kind:"+c.Kind]++
		for _, b := range c.Batches {
			sum.Dist["sec:"+b.SEC]++
			if b.Offset != "" {
				sum.Dist["offset:"+b.Offset]++
			}
			sum.Dist["traces:"+b.Traces]++
		}
		for _, o := range outs {
			sum.Dist["outcome:"+string(o)]++
		}
		if c.expectOK() {
			sum.Dist["valid-by-construction"]++
		}
		sum.Dist[fmt.Sprintf("ops:%d", len(c.Ops))]++
		if created {
			j, _ := json.Marshal(c)
			if !seen[string(j)] {
				seen[string(j)] = true
				sum.Distinct++
			}
		}
		for _, f := range fails {
			enc(f)
		}
		if len(sum.Samples) < 5 && sum.Dist["kind:"+c.Kind]%211 == 1 {
			sum.Samples = append(sum.Samples, c)
		}
	}
	if degraded > 0 {
		sum.Dist["generator-degraded"] = degraded
	}
	enc(sum)
	res.Close()
}

func replay(args []string) {
	if len(args) < 1 {
		fmt.Fprintln(os.Stderr, "usage: c05 replay <file>")
		os.Exit(2)
	}
	b, err := os.ReadFile(args[0])
	if err != nil {
		fmt.Fprintln(os.Stderr, err)
		os.Exit(2)
	}
	var rp struct {
		Input caseSpec `json:"input"`
	}
	if err := json.Unmarshal(b, &rp); err != nil || rp.Input.Kind == "" {
		fmt.Println("replay file carries no input (obligation / correspondence failure): nothing to run")
		os.Exit(0)
	}
	fails, _, outs := runOracle(rp.Input)
	fmt.Println("outcomes:", outs)
	for _, f := range fails {
		j, _ := json.Marshal(f)
		fmt.Println(string(j))
	}
	if len(fails) > 0 {
		os.Exit(1)
	}
	fmt.Println("no failure on this input")
}

package main

import (
	"fmt"
	"strings"
	"time"

	"verifharness/internal/gen"
	"verifharness/internal/rng"
)

// probe: development aid, prints what the real code does on the two boundary inputs of the counts theorems.
func probe(args []string) {
	r := rng.FromEnv(77)
	// 1. ADV file that also carries an IAT batch
	f := gen.FileOfSEC(r, "ADV", gen.Opts{})
	ib := gen.IATBatch(r, "", 7, gen.Opts{})
	f.AddIATBatch(ib)
	err := f.Create()
	fmt.Println("ADV+IAT create:", err)
	fmt.Println("ADV+IAT validate:", f.Validate())
	text, werr := gen.Text(f, false)
	fmt.Println("ADV+IAT write err:", werr)
	if werr == nil {
		ls := strings.Split(strings.TrimSuffix(text, "\n"), "\n")
		fmt.Println("lines", len(ls), "declared blocks", f.ADVControl.BlockCount, "batchcount", f.ADVControl.BatchCount, "entrycount", f.ADVControl.EntryAddendaCount)
		for _, l := range ls {
			fmt.Println(l[:30])
		}
	}
	if len(args) > 0 {
		// 2. a batch of 10^6 entries
		t0 := time.Now()
		g := gen.FileOfSEC(r, "PPD", gen.Opts{MinBatches: 1, MaxBatches: 1, MaxEntries: 1, ForwardOnly: true})
		b := g.Batches[0]
		e0 := b.GetEntries()[0]
		for i := 1; i < 1000000; i++ {
			e := *e0
			e.TraceNumber = ""
			b.AddEntry(&e)
		}
		for _, e := range b.GetEntries() {
			e.TraceNumber = ""
		}
		err := b.Create()
		fmt.Println("big create:", err, time.Since(t0))
		err = g.Create()
		fmt.Println("big file create:", err, time.Since(t0))
		fmt.Println("big validate:", g.Validate(), time.Since(t0))
		text, werr := gen.Text(g, false)
		fmt.Println("big write:", werr, time.Since(t0), len(text))
		if werr == nil {
			ls := strings.Split(strings.TrimSuffix(text, "\n"), "\n")
			fmt.Println("lines", len(ls), "control int", b.GetControl().EntryAddendaCount)
			for _, l := range ls {
				if l[0] == '8' || (l[0] == '9' && l != strings.Repeat("9", 94)) {
					fmt.Println(l)
				}
			}
			_, rerr := gen.Parse(text)
			fmt.Println("read back:", rerr, time.Since(t0))
		}
	}
}

// Command c02counts: correspondence for the counts theorems of C02 (Props/C02Counts.v).
package main

import (
	"fmt"
	"os"
)

func main() {
	if len(os.Args) < 2 {
		fmt.Fprintln(os.Stderr, "usage: c02counts corr|probe ...")
		os.Exit(2)
	}
	switch os.Args[1] {
	case "probe":
		probe(os.Args[2:])
	default:
		os.Exit(2)
	}
}

// Command c02counts: correspondence and oracle for the counts theorems of C02
// (Props/C02Counts.v): the control records of a file tabulated by Create declare
// what is physically written.
//
//	corr   -out dir -n N      cases.txt (record-by-record dump of real files) and impl.txt
//	                          (quantities measured on the real writer's output text)
//	oracle -out dir -n N -corpus dir
//	                          the property evaluated directly on the real code
//	replay <file>
package main

import (
	"bytes"
	"encoding/json"
	"flag"
	"fmt"
	"os"
	"path/filepath"
	"reflect"
	"sort"
	"strconv"
	"strings"
	"unicode/utf8"

	"github.com/moov-io/ach"

	"verifharness/internal/gen"
	"verifharness/internal/hx"
	"verifharness/internal/rng"
)

func main() {
	if len(os.Args) < 2 {
		fmt.Fprintln(os.Stderr, "usage: c02counts corr|oracle|replay ...")
		os.Exit(2)
	}
	switch os.Args[1] {
	case "corr":
		corr(os.Args[2:])
	case "oracle":
		oracle(os.Args[2:])
	case "replay":
		replay(os.Args[2:])
	default:
		os.Exit(2)
	}
}

var nines = strings.Repeat("9", 94)

// ---------------------------------------------------------------- the file as a tree of records

var skipField = map[string]bool{"ID": true, "LineNumber": true, "Category": true}

// dumpRec renders the string/int fields as name=s:<hex> / name=i:<n>, sorted by name.
func dumpRec(v any) string {
	rv := reflect.ValueOf(v)
	for rv.Kind() == reflect.Ptr {
		rv = rv.Elem()
	}
	t := rv.Type()
	var parts []string
	for i := 0; i < t.NumField(); i++ {
		f := t.Field(i)
		if skipField[f.Name] {
			continue
		}
		switch f.Type.Kind() {
		case reflect.String:
			parts = append(parts, f.Name+"=s:"+hx.Enc(rv.Field(i).String()))
		case reflect.Int:
			parts = append(parts, f.Name+"=i:"+strconv.FormatInt(rv.Field(i).Int(), 10))
		}
	}
	sort.Strings(parts)
	if len(parts) == 0 {
		return "-"
	}
	return strings.Join(parts, ",")
}

func kindOf(v any) string {
	rv := reflect.ValueOf(v)
	for rv.Kind() == reflect.Ptr {
		rv = rv.Elem()
	}
	return rv.Type().Name()
}

func isNil(v any) bool {
	rv := reflect.ValueOf(v)
	return !rv.IsValid() || (rv.Kind() == reflect.Ptr && rv.IsNil())
}

type caseW struct{ w *hx.W }

func (c caseW) rec(role string, v any) {
	if isNil(v) {
		return
	}
	c.w.Printf("%s %s %s\n", role, kindOf(v), dumpRec(v))
}

// dumpCase writes the file as the tree of Codec/Dispatch.v: per batch the entries of the batch's own
// sort (ADV entries for an ADV header), addenda in the writer's order.
func dumpCase(w *hx.W, f *ach.File) {
	c := caseW{w}
	w.Printf("CASE\n")
	c.rec("H", &f.Header)
	for _, b := range f.Batches {
		w.Printf("B\n")
		c.rec("h", b.GetHeader())
		if b.GetHeader() != nil && b.GetHeader().StandardEntryClassCode == ach.ADV {
			for _, e := range b.GetADVEntries() {
				c.rec("e", e)
				c.rec("a", e.Addenda99)
			}
			c.rec("c", b.GetADVControl())
		} else {
			for _, e := range b.GetEntries() {
				c.rec("e", e)
				c.rec("a", e.Addenda02)
				for _, a := range e.Addenda05 {
					c.rec("a", a)
				}
				c.rec("a", e.Addenda98)
				c.rec("a", e.Addenda98Refused)
				c.rec("a", e.Addenda99)
				c.rec("a", e.Addenda99Dishonored)
				c.rec("a", e.Addenda99Contested)
			}
			c.rec("c", b.GetControl())
		}
	}
	for _, b := range f.IATBatches {
		w.Printf("I\n")
		c.rec("h", b.GetHeader())
		for _, e := range b.GetEntries() {
			c.rec("e", e)
			c.rec("a", e.Addenda10)
			c.rec("a", e.Addenda11)
			c.rec("a", e.Addenda12)
			c.rec("a", e.Addenda13)
			c.rec("a", e.Addenda14)
			c.rec("a", e.Addenda15)
			c.rec("a", e.Addenda16)
			for _, a := range e.Addenda17 {
				c.rec("a", a)
			}
			for _, a := range e.Addenda18 {
				c.rec("a", a)
			}
			c.rec("a", e.Addenda98)
			c.rec("a", e.Addenda99)
		}
		c.rec("c", b.GetControl())
	}
	if f.IsADV() {
		c.rec("F", &f.ADVControl)
	} else {
		c.rec("F", &f.Control)
	}
	w.Printf("END\n")
}

// ---------------------------------------------------------------- quantities measured on the written text

// numAt is parseNumField(string([]rune(line)[lo:hi])): blanks trimmed, strconv.Atoi, 0 on a syntax error.
func numAt(line string, lo, hi int) int {
	rs := []rune(line)
	if hi > len(rs) {
		return 0
	}
	v, _ := strconv.Atoi(strings.TrimSpace(string(rs[lo:hi])))
	return v
}

type measured struct {
	lines, records, n5, n67 int
	segs                    [][2]int // per '5'..'8' segment: '6'/'7' lines inside, declared count of the '8' line
	fc                      [3]int   // declared batch count, block count, entry/addenda count of the last record
	widths                  bool     // every line has 94 characters
}

func measure(text string) measured {
	var m measured
	ls := strings.Split(strings.TrimSuffix(text, "\n"), "\n")
	m.lines = len(ls)
	m.records = len(ls)
	for m.records > 0 && ls[m.records-1] == nines {
		m.records--
	}
	m.widths = true
	open := false
	inner := 0
	for _, l := range ls {
		if utf8.RuneCountInString(l) != 94 {
			m.widths = false
		}
		t := byte(0)
		if len(l) > 0 {
			t = l[0]
		}
		switch t {
		case '5':
			m.n5++
			open, inner = true, 0
		case '8':
			if open {
				m.segs = append(m.segs, [2]int{inner, numAt(l, 4, 10)})
			}
			open = false
		case '6', '7':
			m.n67++
			if open {
				inner++
			}
		}
	}
	if m.records > 0 {
		fc := ls[m.records-1]
		m.fc = [3]int{numAt(fc, 1, 7), numAt(fc, 7, 13), numAt(fc, 13, 21)}
	}
	return m
}

func b01(b bool) string {
	if b {
		return "1"
	}
	return "0"
}

// recreate runs every batch's Create and File.Create (again) on the real objects and reports the count
// fields they leave: what the model's [tabulate] computes from the dumped tree.
func recreate(f *ach.File) (out string) {
	defer func() {
		if e := recover(); e != nil {
			out = "panic"
		}
	}()
	for _, b := range f.Batches {
		_ = b.Create() // the control is built before the batch is validated
	}
	for i := range f.IATBatches {
		_ = f.IATBatches[i].Create()
	}
	if err := f.Create(); err != nil {
		return "refused"
	}
	var cs []string
	for _, b := range f.Batches {
		if b.GetHeader().StandardEntryClassCode == ach.ADV {
			cs = append(cs, strconv.Itoa(b.GetADVControl().EntryAddendaCount))
		} else {
			cs = append(cs, strconv.Itoa(b.GetControl().EntryAddendaCount))
		}
	}
	for i := range f.IATBatches {
		cs = append(cs, strconv.Itoa(f.IATBatches[i].GetControl().EntryAddendaCount))
	}
	if f.IsADV() {
		return fmt.Sprintf("[%s]%d/%d/%d", strings.Join(cs, ","), f.ADVControl.BatchCount, f.ADVControl.BlockCount, f.ADVControl.EntryAddendaCount)
	}
	return fmt.Sprintf("[%s]%d/%d/%d", strings.Join(cs, ","), f.Control.BatchCount, f.Control.BlockCount, f.Control.EntryAddendaCount)
}

func (m measured) line(tab, bounds, noiat bool) string {
	var ss []string
	for _, s := range m.segs {
		ss = append(ss, fmt.Sprintf("%d:%d", s[0], s[1]))
	}
	return fmt.Sprintf("lines=%d records=%d n5=%d n67=%d segs=[%s] fc=%d/%d/%d tab=%s fit=%s shape=1 bounds=%s noiat=%s",
		m.lines, m.records, m.n5, m.n67, strings.Join(ss, ","), m.fc[0], m.fc[1], m.fc[2], b01(tab), b01(m.widths), b01(bounds), b01(noiat))
}

// inBounds: what the file declares fits the count columns (6 digits per batch, 6 / 6 / 8 in the file control);
// evaluated on the tabulated values, as count_boundsb is.
func inBounds(m measured) bool {
	for _, s := range m.segs {
		if s[0] >= 1000000 {
			return false
		}
	}
	return m.n5 < 1000000 && m.lines/10 < 1000000 && m.n67 < 100000000
}

// ---------------------------------------------------------------- writing

func write(f *ach.File, bypass bool) (s string, err error) {
	defer func() {
		if r := recover(); r != nil {
			err = fmt.Errorf("panic: %v", r)
		}
	}()
	var buf bytes.Buffer
	w := ach.NewWriter(&buf)
	w.BypassValidation = bypass
	if err := w.Write(f); err != nil {
		return "", err
	}
	return buf.String(), nil
}

// ---------------------------------------------------------------- generated files

func genOpts(i int) gen.Opts {
	o := gen.Opts{Addenda: true}
	switch i % 7 {
	case 1:
		o.Returns, o.NOC, o.ADVReturns = true, true, true
	case 2:
		o.IAT = true
	case 3:
		o.NonASCII = true
	case 4:
		o.NonASCII, o.Returns, o.NOC, o.IAT, o.ADVReturns = true, true, true, true, true
	case 5:
		o.Offset = true
		o.MaxBatches, o.MaxEntries = 6, 9
	case 6:
		o.MinBatches, o.MaxBatches, o.MaxEntries = 1, 2, 12
	}
	return o
}

var genFailures = map[string]string{}

// genFile never panics: a generator failure (Create or Validate refusing a file that is valid by
// construction) is recorded and nil returned.
func genFile(r *rng.R, i int) (f *ach.File, sec string) {
	o := genOpts(i)
	secs := append(gen.AllSECs(), "IAT", "ADV")
	sec = "mixed"
	if i%3 != 2 {
		sec = secs[(i/3)%len(secs)]
	}
	defer func() {
		if e := recover(); e != nil {
			genFailures[sec] = fmt.Sprint(e)
			f = nil
		}
	}()
	if sec == "mixed" {
		return gen.File(r, o), sec
	}
	return gen.FileOfSEC(r, sec, o), sec
}

// advWithIAT: an ADV file to which an IAT batch is added before File.Create.
func advWithIAT(r *rng.R) (f *ach.File) {
	defer func() {
		if e := recover(); e != nil {
			f = nil
		}
	}()
	f = gen.FileOfSEC(r, "ADV", gen.Opts{})
	f.AddIATBatch(gen.IATBatch(r, "", 7+r.Intn(50), gen.Opts{Addenda: true}))
	if err := f.Create(); err != nil {
		return nil
	}
	return f
}

// advMixed: an ADV file whose f.Batches also holds a standard batch (createFileADV refuses it with ErrFileADVOnly;
// the writer emits the standard batch's header and control but, the file being ADV, none of its entries).
func advMixed(r *rng.R) (f *ach.File) {
	defer func() {
		if e := recover(); e != nil {
			f = nil
		}
	}()
	f = gen.FileOfSEC(r, "ADV", gen.Opts{})
	g := gen.FileOfSEC(r, "PPD", gen.Opts{MinBatches: 1, MaxBatches: 1, Addenda: true})
	if r.Bool() {
		f.Batches = append([]ach.Batcher{g.Batches[0]}, f.Batches...)
	} else {
		f.AddBatch(g.Batches[0])
	}
	return f
}

// perturb changes one count field of one control record after Create (k selects which); it reports what it did.
func perturb(r *rng.R, f *ach.File) string {
	d := 1
	if r.Bool() {
		d = -1
	}
	type slot struct {
		name string
		p    *int
	}
	var slots []slot
	if f.IsADV() {
		slots = append(slots, slot{"ADVFileControl.BatchCount", &f.ADVControl.BatchCount}, slot{"ADVFileControl.BlockCount", &f.ADVControl.BlockCount},
			slot{"ADVFileControl.EntryAddendaCount", &f.ADVControl.EntryAddendaCount})
		for _, b := range f.Batches {
			if b.GetADVControl() != nil {
				slots = append(slots, slot{"ADVBatchControl.EntryAddendaCount", &b.GetADVControl().EntryAddendaCount})
			}
		}
	} else {
		slots = append(slots, slot{"FileControl.BatchCount", &f.Control.BatchCount}, slot{"FileControl.BlockCount", &f.Control.BlockCount},
			slot{"FileControl.EntryAddendaCount", &f.Control.EntryAddendaCount})
		for _, b := range f.Batches {
			if b.GetControl() != nil {
				slots = append(slots, slot{"BatchControl.EntryAddendaCount", &b.GetControl().EntryAddendaCount})
			}
		}
		for i := range f.IATBatches {
			if f.IATBatches[i].GetControl() != nil {
				slots = append(slots, slot{"IAT BatchControl.EntryAddendaCount", &f.IATBatches[i].GetControl().EntryAddendaCount})
			}
		}
	}
	s := slots[r.Intn(len(slots))]
	*s.p += d
	return fmt.Sprintf("%s%+d", s.name, d)
}

// appendEntry adds a copy of the first entry to the first standard batch without tabulating again.
func appendEntry(f *ach.File) bool {
	if f.IsADV() || len(f.Batches) == 0 || len(f.Batches[0].GetEntries()) == 0 {
		return false
	}
	e := *f.Batches[0].GetEntries()[0]
	f.Batches[0].AddEntry(&e)
	return true
}

func corr(args []string) {
	fs := flag.NewFlagSet("corr", flag.ExitOnError)
	out := fs.String("out", "", "output directory")
	n := fs.Int("n", 1800, "files")
	fs.Parse(args)
	cases := hx.Create(filepath.Join(*out, "cases.txt"))
	impl := hx.Create(filepath.Join(*out, "impl.txt"))
	desc := hx.Create(filepath.Join(*out, "desc.txt"))
	r := rng.FromEnv(2021)
	total := 0
	residues := map[int]int{}
	kinds := map[string]int{}
	secs := map[string]int{}
	emit := func(f *ach.File, bypass, tab bool, what string) {
		text, err := write(f, bypass)
		if err != nil {
			kinds["write-refused"]++
			return
		}
		m := measure(text)
		dumpCase(cases, f)
		noiat := !f.IsADV() || len(f.IATBatches) == 0
		impl.Printf("%s recreate=%s\n", m.line(tab, inBounds(m), noiat), recreate(f))
		desc.Printf("%s\n", what)
		residues[m.records%10]++
		kinds[strings.SplitN(what, " ", 2)[0]]++
		total++
	}
	for i := 0; i < *n; i++ {
		f, sec := genFile(r, i)
		if f == nil {
			kinds["generator-failed"]++
			continue
		}
		secs[sec]++
		switch {
		case i%5 == 3:
			what := perturb(r, f)
			emit(f, true, false, "perturbed "+sec+" "+what)
		case i%31 == 7:
			if appendEntry(f) {
				emit(f, true, false, "entry-appended-after-create "+sec)
			} else {
				emit(f, false, true, "created "+sec)
			}
		default:
			emit(f, false, true, "created "+sec)
		}
		if i%60 == 11 {
			if g := advWithIAT(r); g != nil {
				emit(g, false, true, "adv-with-iat")
			}
		}
		if i%60 == 41 {
			if g := advMixed(r); g != nil {
				emit(g, true, false, "adv-mixed-with-standard-batch")
			}
		}
	}
	cases.Close()
	impl.Close()
	desc.Close()
	b, _ := json.Marshal(map[string]any{"cases": total, "residues": residues, "kinds": kinds, "secs": secs, "generator_failures": genFailures})
	fmt.Println(string(b))
}

// ---------------------------------------------------------------- oracle

type fail struct {
	Kind string         `json:"kind"`
	Key  string         `json:"key"`
	What string         `json:"what"`
	Case map[string]any `json:"case"`
}

type summary struct {
	Kind        string           `json:"kind"`
	Evaluations int              `json:"evaluations"`
	Distinct    int              `json:"distinct_nontrivial"`
	Rule        string           `json:"rule"`
	Dist        map[string]int   `json:"distribution"`
	Samples     []map[string]any `json:"samples"`
}

// countsKey compares what the control records declare with what is physically present.
func countsKey(m measured) (key, what string) {
	for i, s := range m.segs {
		if s[0] != s[1] {
			return "c02:count:batch-entry-addenda", fmt.Sprintf("batch %d: control declares %d entry/addenda records, %d '6'/'7' lines between its header and itself", i+1, s[1], s[0])
		}
	}
	if len(m.segs) != m.n5 {
		return "c02:count:batch-without-control", fmt.Sprintf("%d batch headers, %d header..control segments", m.n5, len(m.segs))
	}
	if m.fc[0] != m.n5 {
		return "c02:count:batch", fmt.Sprintf("file control batch count %d, %d batch headers present", m.fc[0], m.n5)
	}
	if m.fc[2] != m.n67 {
		return "c02:count:entry-addenda", fmt.Sprintf("file control entry/addenda count %d, %d entry+addenda records present", m.fc[2], m.n67)
	}
	if m.fc[1]*10 != m.lines {
		return "c02:count:block", fmt.Sprintf("file control block count %d, %d records present", m.fc[1], m.lines)
	}
	want := (10 - m.records%10) % 10
	if m.lines-m.records != want {
		return "c02:count:filler", fmt.Sprintf("%d records, %d filler records, want %d", m.records, m.lines-m.records, want)
	}
	return "", ""
}

type witness struct {
	Source   string `json:"source"`
	Name     string `json:"name"`
	Kind     string `json:"kind"`     // adv-with-iat | big-batch
	Entries  int    `json:"entries"`  // big-batch
	Key      string `json:"key"`      // the known-finding key this witness is filed under ...
	Observed string `json:"observed"` // ... as long as the failure it shows is this one
}

func corpusWitnesses(dir string) []witness {
	var out []witness
	if dir == "" {
		return out
	}
	names, _ := filepath.Glob(filepath.Join(dir, "*.json"))
	sort.Strings(names)
	for _, p := range names {
		b, err := os.ReadFile(p)
		if err != nil {
			continue
		}
		var one struct {
			Input witness   `json:"input"`
			Cases []witness `json:"cases"`
		}
		if json.Unmarshal(b, &one) != nil {
			continue
		}
		if one.Input.Source == "counts" {
			out = append(out, one.Input)
		}
		for _, c := range one.Cases {
			if c.Source == "counts" {
				out = append(out, c)
			}
		}
	}
	return out
}

// bigBatch: one PPD batch of n copies of a generated entry, tabulated by Batch.Create and File.Create.
func bigBatch(r *rng.R, n int) (f *ach.File, err error) {
	defer func() {
		if e := recover(); e != nil {
			err = fmt.Errorf("panic: %v", e)
		}
	}()
	f = gen.FileOfSEC(r, "PPD", gen.Opts{MinBatches: 1, MaxBatches: 1, MaxEntries: 1, ForwardOnly: true})
	b := f.Batches[0]
	e0 := b.GetEntries()[0]
	e0.TraceNumber = ""
	for i := 1; i < n; i++ {
		e := *e0
		b.AddEntry(&e)
	}
	if err := b.Create(); err != nil {
		return nil, err
	}
	if err := f.Create(); err != nil {
		return nil, err
	}
	return f, nil
}

func runWitness(w witness, r *rng.R) (m measured, ok bool, note string) {
	switch w.Kind {
	case "adv-with-iat":
		f := advWithIAT(r)
		if f == nil {
			return m, false, "Create refuses an ADV file with an IAT batch"
		}
		text, err := write(f, false)
		if err != nil {
			return m, false, "the validating writer refuses the file: " + err.Error()
		}
		return measure(text), true, ""
	case "big-batch":
		f, err := bigBatch(r, w.Entries)
		if err != nil {
			return m, false, "Create refuses the batch: " + err.Error()
		}
		text, err := write(f, false)
		if err != nil {
			return m, false, "the validating writer refuses the file: " + err.Error()
		}
		return measure(text), true, ""
	}
	return m, false, "unknown witness kind"
}

func oracle(args []string) {
	fs := flag.NewFlagSet("oracle", flag.ExitOnError)
	out := fs.String("out", "", "output directory")
	n := fs.Int("n", 600, "generated files")
	corpus := fs.String("corpus", "", "corpus directory")
	fs.Parse(args)
	res := hx.Create(filepath.Join(*out, "oracle.jsonl"))
	enc := func(v any) {
		b, _ := json.Marshal(v)
		res.Printf("%s\n", b)
	}
	sum := summary{Kind: "summary", Dist: map[string]int{}, Rule: "files tabulated by Batch.Create / File.Create (gen: every SEC, IAT, ADV, returns / NOC, offsets; corpus witnesses first: an ADV file with an IAT batch, a batch of 10^6 entries) written by the validating writer; the text is split and the numbers in the count columns of every '8' line and of the '9' line are compared with the '6'/'7' lines between the batch's header and control, the '5' lines, the '6'/'7' lines, lines/10 and the filler for the residue; non-trivial = the writer reported success; distinct by output text"}
	r := rng.FromEnv(2022)
	for _, w := range corpusWitnesses(*corpus) {
		m, ok, note := runWitness(w, r.Fork())
		sum.Evaluations++
		if !ok {
			sum.Dist["witness-not-reproduced"]++
			sum.Samples = append(sum.Samples, map[string]any{"witness": w.Name, "note": note})
			continue
		}
		sum.Distinct++
		if key, what := countsKey(m); key != "" {
			k := key
			if w.Key != "" && key == w.Observed {
				k = w.Key
			}
			enc(fail{Kind: "fail", Key: k, What: what, Case: map[string]any{"source": "counts", "name": w.Name, "kind": w.Kind, "entries": w.Entries, "key": w.Key, "observed": key}})
			sum.Dist["witness-reproduced"]++
		} else {
			sum.Dist["witness-no-longer-fails"]++
		}
	}
	seen := map[string]bool{}
	for i := 0; i < *n; i++ {
		f, sec := genFile(r, i)
		sum.Evaluations++
		if f == nil {
			sum.Dist["generator-failed"]++
			continue
		}
		text, err := write(f, false)
		if err != nil {
			sum.Dist["write-refused"]++
			enc(fail{Kind: "fail", Key: "c02:count:valid-file-refused", What: "the validating writer refuses a generated, tabulated file: " + err.Error(), Case: map[string]any{"source": "counts-gen", "sec": sec, "index": i}})
			continue
		}
		sum.Dist["written"]++
		if !seen[text] {
			seen[text] = true
			sum.Distinct++
		}
		m := measure(text)
		sum.Dist["residue-"+strconv.Itoa(m.records%10)]++
		if key, what := countsKey(m); key != "" {
			enc(fail{Kind: "fail", Key: key, What: what, Case: map[string]any{"source": "counts-gen", "sec": sec, "index": i, "output": hx.Enc(text)}})
		}
		if len(sum.Samples) < 3 && i%211 == 5 {
			sum.Samples = append(sum.Samples, map[string]any{"sec": sec, "records": m.records, "segments": m.segs, "file_control": m.fc})
		}
	}
	// a file that is valid by construction must be tabulated: a generator failure is Create or Validate refusing it
	for sec, why := range genFailures {
		enc(fail{Kind: "fail", Key: "c02:count:create-refused:" + sec, What: "Create / Validate refuse a file that is valid by construction: " + why, Case: map[string]any{"source": "counts-gen", "sec": sec}})
	}
	enc(sum)
	res.Close()
}

func replay(args []string) {
	if len(args) < 1 {
		os.Exit(2)
	}
	b, err := os.ReadFile(args[0])
	if err != nil {
		fmt.Fprintln(os.Stderr, err)
		os.Exit(2)
	}
	var rp struct {
		Input map[string]any `json:"input"`
	}
	if json.Unmarshal(b, &rp) != nil || rp.Input == nil {
		fmt.Println("replay file carries no input: nothing to run")
		return
	}
	if t, _ := rp.Input["output"].(string); t != "" {
		// the text the writer produced: the failure is a property of the text
		if key, what := countsKey(measure(hx.Dec(t))); key != "" {
			fmt.Println(key, what)
			os.Exit(1)
		}
		fmt.Println("no failure on this text")
		return
	}
	kind, _ := rp.Input["kind"].(string)
	entries, _ := rp.Input["entries"].(float64)
	name, _ := rp.Input["name"].(string)
	m, ok, note := runWitness(witness{Kind: kind, Entries: int(entries), Name: name}, rng.FromEnv(2022))
	if !ok {
		fmt.Println("not reproduced:", note)
		return
	}
	if key, what := countsKey(m); key != "" {
		fmt.Println(key, what)
		os.Exit(1)
	}
	fmt.Println("no failure on this input")
}

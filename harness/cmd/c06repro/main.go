package main

import (
	"bytes"
	"encoding/json"
	"fmt"
	"time"

	"github.com/moov-io/ach"
	"verifharness/internal/gen"
	"verifharness/internal/rng"
)

func try(name string, f func()) {
	defer func() {
		if r := recover(); r != nil {
			fmt.Printf("%-28s PANIC %v\n", name, r)
		}
	}()
	f()
	fmt.Printf("%-28s ok\n", name)
}

func jsonWith(sec string, edit func(e map[string]any)) []byte {
	f := gen.FileOfSEC(rng.New(5), sec, gen.Opts{ForwardOnly: true})
	b, _ := json.Marshal(f)
	var doc map[string]any
	json.Unmarshal(b, &doc)
	for _, bt := range doc["batches"].([]any) {
		for _, e := range bt.(map[string]any)["entryDetails"].([]any) {
			edit(e.(map[string]any))
		}
	}
	out, _ := json.Marshal(doc)
	return out
}

func main() {
	try("TRC short name", func() {
		_, err := ach.FileFromJSON(jsonWith("TRC", func(e map[string]any) { e["individualName"] = "AB" }))
		fmt.Println("   err:", err)
	})
	try("TRC 10-byte name", func() {
		_, err := ach.FileFromJSON(jsonWith("TRC", func(e map[string]any) { e["individualName"] = "CHECK1 123" }))
		fmt.Println("   err:", err)
	})
	try("XCK short name", func() {
		_, err := ach.FileFromJSON(jsonWith("XCK", func(e map[string]any) { e["individualName"] = "AB" }))
		fmt.Println("   err:", err)
	})
	try("SHR short ident", func() {
		_, err := ach.FileFromJSON(jsonWith("SHR", func(e map[string]any) { e["identificationNumber"] = "12" }))
		fmt.Println("   err:", err)
	})
	try("POP short ident", func() {
		_, err := ach.FileFromJSON(jsonWith("POP", func(e map[string]any) { e["identificationNumber"] = "12" }))
		fmt.Println("   err:", err)
	})
	try("CTX short name", func() {
		_, err := ach.FileFromJSON(jsonWith("CTX", func(e map[string]any) { e["individualName"] = "1" }))
		fmt.Println("   err:", err)
	})
	try("ADV reversal", func() {
		f := gen.ADVFile(rng.New(3))
		fmt.Println("   err:", f.Reversal(time.Now()))
	})
	try("ADV text reversal", func() {
		f := gen.ADVFile(rng.New(3))
		t, _ := gen.Text(f, false)
		g, err := ach.NewReader(bytes.NewReader([]byte(t))).Read()
		fmt.Println("   read err:", err)
		fmt.Println("   err:", g.Reversal(time.Now()))
	})
}

// Command c11: correspondence cases and direct oracle for property C11
// (SegmentFile partitions a file into credits and debits without loss).
package main

import (
	"encoding/json"
	"errors"
	"flag"
	"fmt"
	"os"
	"path/filepath"
	"sort"
	"strconv"
	"strings"

	"github.com/moov-io/ach"

	g "verifharness/internal/c1113"
	"verifharness/internal/hx"
	"verifharness/internal/rng"
)

func main() {
	if len(os.Args) < 2 {
		fmt.Fprintln(os.Stderr, "usage: c11 corr|oracle|replay ...")
		os.Exit(2)
	}
	switch os.Args[1] {
	case "corr":
		corr(os.Args[2:])
	case "oracle":
		oracle(os.Args[2:])
	case "replay":
		replay(os.Args[2:])
	default:
		fmt.Fprintln(os.Stderr, "unknown mode")
		os.Exit(2)
	}
}

// ---------------------------------------------------------------- generators

type Case struct {
	File g.FileSpec `json:"file"`
}

var entryCodes = []int{21, 22, 23, 24, 26, 27, 28, 29, 31, 32, 33, 34, 36, 37, 38, 39, 41, 42, 43, 44, 46, 47, 48, 49, 51, 52, 53, 54, 55, 56}
var advCodes = []int{81, 82, 83, 84, 85, 86, 87, 88}

// SEC codes by the directions they admit
var bothSEC = []string{ach.PPD, ach.CCD, ach.CTX, ach.WEB}
var debitSEC = []string{ach.TEL, ach.ARC, ach.BOC, ach.POP}
var creditSEC = []string{ach.CIE}

func isCredit(code int) bool {
	if code >= 80 {
		return code%2 == 1 // ADV: 81 83 85 87 are credits
	}
	u := code % 10
	return u >= 1 && u <= 4
}
func isPrenote(code int) bool {
	switch code {
	case 23, 28, 33, 38, 43, 48, 53:
		return true
	}
	return false
}

func secAdmits(sec string, code int) bool {
	for _, s := range debitSEC {
		if s == sec {
			return !isCredit(code)
		}
	}
	for _, s := range creditSEC {
		if s == sec {
			return isCredit(code)
		}
	}
	return true
}

func sccAdmits(scc, code int) bool {
	switch scc {
	case 220:
		return isCredit(code)
	case 225:
		return !isCredit(code)
	}
	return true
}

func amountFor(r *rng.R, code int) int {
	if isPrenote(code) {
		return 0
	}
	if r.Intn(5) == 0 {
		return 99999999
	}
	return 1 + r.Intn(500000)
}

type tagger struct{ next int }

func (t *tagger) tag() int { t.next++; return t.next }

func entry(r *rng.R, t *tagger, sec string, code int) g.EntrySpec {
	es := g.EntrySpec{Code: code, Amount: amountFor(r, code), Tag: t.tag()}
	switch sec {
	case ach.ARC, ach.BOC, ach.POP:
		if es.Amount > 2500000 { // these SEC codes cap the amount at $25,000
			es.Amount = 2500000
		}
	}
	switch sec {
	case ach.CTX:
		es.Addenda = r.Intn(3)
	case ach.PPD, ach.CCD, ach.WEB, ach.CIE:
		if r.Chance(1, 4) {
			es.Addenda = 1
		}
	}
	return es
}

func pickCode(r *rng.R, pool []int, ok func(int) bool) int {
	for tries := 0; tries < 200; tries++ {
		c := rng.Pick(r, pool)
		if ok(c) {
			return c
		}
	}
	for _, c := range pool {
		if ok(c) {
			return c
		}
	}
	return pool[0]
}

// stdBatch: a standard batch of the given SEC and class with n admissible entries.
func stdBatch(r *rng.R, t *tagger, sec string, scc, number, n int) g.BatchSpec {
	b := g.BatchSpec{Kind: "std", SEC: sec, SCC: scc, Number: number, Company: rng.Pick(r, []string{"121042882", "231380104", "076401251"}), Trace0: 1 + r.Intn(40)}
	ok := func(c int) bool { return secAdmits(sec, c) && sccAdmits(scc, c) }
	for i := 0; i < n; i++ {
		b.Entries = append(b.Entries, entry(r, t, sec, pickCode(r, entryCodes, ok)))
	}
	return b
}

func iatBatch(r *rng.R, t *tagger, scc, number, n int) g.BatchSpec {
	b := g.BatchSpec{Kind: "iat", SEC: ach.IAT, SCC: scc, Number: number, Company: "123456789", Trace0: 1 + r.Intn(40)}
	ok := func(c int) bool { return sccAdmits(scc, c) }
	for i := 0; i < n; i++ {
		b.Entries = append(b.Entries, entry(r, t, ach.IAT, pickCode(r, entryCodes, ok)))
	}
	return b
}

func advBatch(r *rng.R, t *tagger, number, n int) g.BatchSpec {
	b := g.BatchSpec{Kind: "adv", SEC: ach.ADV, SCC: 280, Number: number, Company: "121042882", Trace0: 1}
	pool := advCodes
	switch r.Intn(4) {
	case 0:
		pool = []int{81, 83, 85, 87}
	case 1:
		pool = []int{82, 84, 86, 88}
	}
	for i := 0; i < n; i++ {
		b.Entries = append(b.Entries, g.EntrySpec{Code: rng.Pick(r, pool), Amount: 1 + r.Intn(90000), Tag: t.tag()})
	}
	return b
}

func secFor(r *rng.R, scc int) string {
	switch scc {
	case 220:
		return rng.Pick(r, append(append([]string{}, bothSEC...), creditSEC...))
	case 225:
		return rng.Pick(r, append(append([]string{}, bothSEC...), debitSEC...))
	}
	return rng.Pick(r, append(append(append([]string{}, bothSEC...), debitSEC...), creditSEC...))
}

// numbers: consecutive from 1, or pre-set ascending with gaps, or all zero (Create numbers them)
func numbering(r *rng.R, n int) []int {
	out := make([]int, n)
	switch r.Intn(4) {
	case 0:
		cur := 0
		for i := range out {
			cur += 1 + r.Intn(4)
			out[i] = cur
		}
	case 1:
		// all left to Create
	default:
		for i := range out {
			out[i] = i + 1
		}
	}
	return out
}

func genFile(r *rng.R) g.FileSpec {
	var fs g.FileSpec
	t := &tagger{}
	if r.Chance(1, 8) {
		nb := r.Range(1, 3)
		nums := numbering(r, nb)
		for i := 0; i < nb; i++ {
			fs.Batches = append(fs.Batches, advBatch(r, t, nums[i], r.Range(1, 6)))
		}
		return fs
	}
	nb := r.Range(1, 5)
	ni := 0
	if r.Chance(1, 3) {
		ni = r.Range(1, 3)
	}
	nums := numbering(r, nb+ni)
	for i := 0; i < nb; i++ {
		scc := rng.Pick(r, []int{200, 200, 220, 225})
		fs.Batches = append(fs.Batches, stdBatch(r, t, secFor(r, scc), scc, nums[i], r.Range(1, 7)))
	}
	for i := 0; i < ni; i++ {
		scc := rng.Pick(r, []int{200, 200, 220, 225})
		fs.Batches = append(fs.Batches, iatBatch(r, t, scc, nums[nb+i], r.Range(1, 5)))
	}
	return fs
}

// classOrders: PPD batches in every order of service classes up to the given length, with
// consecutive numbers and with pre-set gapped numbers.
func classOrders(maxLen int) []Case {
	var out []Case
	r := rng.New(11)
	var rec func(prefix []int)
	rec = func(prefix []int) {
		if len(prefix) > 0 {
			for variant := 0; variant < 2; variant++ {
				var fs g.FileSpec
				t := &tagger{}
				for i, scc := range prefix {
					num := i + 1
					if variant == 1 {
						num = 3*i + 2
					}
					b := g.BatchSpec{Kind: "std", SEC: ach.PPD, SCC: scc, Number: num, Company: "121042882", Trace0: 1}
					if scc != 225 {
						b.Entries = append(b.Entries, g.EntrySpec{Code: 22, Amount: 100 + i, Tag: t.tag()})
					}
					if scc != 220 {
						b.Entries = append(b.Entries, g.EntrySpec{Code: 27, Amount: 200 + i, Tag: t.tag()})
					}
					fs.Batches = append(fs.Batches, b)
				}
				out = append(out, Case{File: fs})
			}
		}
		if len(prefix) == maxLen {
			return
		}
		for _, scc := range []int{200, 220, 225} {
			rec(append(append([]int{}, prefix...), scc))
		}
	}
	rec(nil)
	_ = r
	return out
}

// codeSweep: every SEC x every code it admits, in a mixed batch next to a partner of the
// other direction (where the SEC admits one) and in a single-direction batch; IAT and ADV too.
func codeSweep() []Case {
	var out []Case
	r := rng.New(12)
	all := append(append(append([]string{}, bothSEC...), debitSEC...), creditSEC...)
	for _, sec := range all {
		for _, code := range entryCodes {
			if !secAdmits(sec, code) {
				continue
			}
			t := &tagger{}
			mixed := g.BatchSpec{Kind: "std", SEC: sec, SCC: 200, Number: 1, Company: "121042882", Trace0: 1}
			mixed.Entries = append(mixed.Entries, entry(r, t, sec, code))
			partner := 27
			if !isCredit(code) {
				partner = 22
			}
			if secAdmits(sec, partner) {
				mixed.Entries = append(mixed.Entries, entry(r, t, sec, partner))
			}
			single := g.BatchSpec{Kind: "std", SEC: sec, SCC: 225, Number: 2, Company: "121042882", Trace0: 1}
			if isCredit(code) {
				single.SCC = 220
			}
			single.Entries = append(single.Entries, entry(r, t, sec, code))
			out = append(out, Case{File: g.FileSpec{Batches: []g.BatchSpec{mixed, single}}})
		}
	}
	for _, code := range entryCodes {
		t := &tagger{}
		mixed := g.BatchSpec{Kind: "iat", SEC: ach.IAT, SCC: 200, Number: 1, Company: "123456789", Trace0: 5}
		partner := 27
		if !isCredit(code) {
			partner = 22
		}
		mixed.Entries = []g.EntrySpec{entry(r, t, ach.IAT, code), entry(r, t, ach.IAT, partner), entry(r, t, ach.IAT, code)}
		single := g.BatchSpec{Kind: "iat", SEC: ach.IAT, SCC: 225, Number: 2, Company: "123456789", Trace0: 9}
		if isCredit(code) {
			single.SCC = 220
		}
		single.Entries = []g.EntrySpec{entry(r, t, ach.IAT, code)}
		out = append(out, Case{File: g.FileSpec{Batches: []g.BatchSpec{mixed, single}}})
	}
	for _, code := range advCodes {
		t := &tagger{}
		b := g.BatchSpec{Kind: "adv", SEC: ach.ADV, SCC: 280, Number: 1, Company: "121042882", Trace0: 1}
		b.Entries = []g.EntrySpec{{Code: code, Amount: 500, Tag: t.tag()}, {Code: 81 + (code % 2), Amount: 700, Tag: t.tag()}}
		out = append(out, Case{File: g.FileSpec{Batches: []g.BatchSpec{b}}})
		b1 := b
		b1.Entries = []g.EntrySpec{{Code: code, Amount: 500, Tag: t.tag()}}
		out = append(out, Case{File: g.FileSpec{Batches: []g.BatchSpec{b1}}})
	}
	return out
}

// ---------------------------------------------------------------- canonical dump (shared shape with the OCaml driver)

func traceSeq(tn string) int {
	s := strings.TrimSpace(tn)
	if len(s) > 7 {
		s = s[len(s)-7:]
	}
	n, _ := strconv.Atoi(s)
	return n
}

func num(s string) int {
	n, _ := strconv.Atoi(strings.TrimSpace(s))
	return n
}

func dumpFile(f *ach.File) string {
	var b strings.Builder
	credit, debit := 0, 0
	if f.IsADV() {
		credit, debit = f.ADVControl.TotalCreditEntryDollarAmountInFile, f.ADVControl.TotalDebitEntryDollarAmountInFile
	} else {
		credit, debit = f.Control.TotalCreditEntryDollarAmountInFile, f.Control.TotalDebitEntryDollarAmountInFile
	}
	fmt.Fprintf(&b, "%d %d %d %d %d", num(f.Header.ImmediateOrigin), num(f.Header.ImmediateDestination), credit, debit, len(f.Batches))
	for _, bt := range f.Batches {
		h := bt.GetHeader()
		if h.StandardEntryClassCode == ach.ADV {
			c := bt.GetADVControl()
			fmt.Fprintf(&b, " 1 %d %d %d %d %d %d", h.ServiceClassCode, h.BatchNumber, num(h.CompanyIdentification), c.TotalCreditEntryDollarAmount, c.TotalDebitEntryDollarAmount, len(bt.GetADVEntries()))
			for _, e := range bt.GetADVEntries() {
				fmt.Fprintf(&b, " %d %d %d 0", e.TransactionCode, e.Amount, g.TagOf(e.DFIAccountNumber))
			}
			continue
		}
		c := bt.GetControl()
		fmt.Fprintf(&b, " 0 %d %d %d %d %d %d", h.ServiceClassCode, h.BatchNumber, num(h.CompanyIdentification), c.TotalCreditEntryDollarAmount, c.TotalDebitEntryDollarAmount, len(bt.GetEntries()))
		for _, e := range bt.GetEntries() {
			fmt.Fprintf(&b, " %d %d %d %d", e.TransactionCode, e.Amount, g.TagOf(e.DFIAccountNumber), traceSeq(e.TraceNumber))
		}
	}
	fmt.Fprintf(&b, " %d", len(f.IATBatches))
	for i := range f.IATBatches {
		bt := &f.IATBatches[i]
		h, c := bt.GetHeader(), bt.GetControl()
		fmt.Fprintf(&b, " 0 %d %d %d %d %d %d", h.ServiceClassCode, h.BatchNumber, num(h.OriginatorIdentification), c.TotalCreditEntryDollarAmount, c.TotalDebitEntryDollarAmount, len(bt.GetEntries()))
		for _, e := range bt.GetEntries() {
			fmt.Fprintf(&b, " %d %d %d %d", e.TransactionCode, e.Amount, g.TagOf(e.DFIAccountNumber), traceSeq(e.TraceNumber))
		}
	}
	return b.String()
}

func errClass(err error) string {
	var asc ach.ErrFileBatchNumberAscending
	var tot ach.ErrFileCalculatedControlEquality
	switch {
	case errors.As(err, &asc):
		return "output-ascending"
	case errors.Is(err, ach.ErrFileADVOnly):
		return "advonly"
	case errors.As(err, &tot):
		return "output-totals"
	}
	return "output-batch"
}

func segment(f *ach.File) (cf, df *ach.File, err error, panicked bool) {
	err, panicked = g.Protect(func() error {
		var e error
		cf, df, e = f.SegmentFile(ach.NewSegmentFileConfiguration())
		return e
	})
	return
}

func corr(args []string) {
	fs := flag.NewFlagSet("corr", flag.ExitOnError)
	out := fs.String("out", "", "output directory")
	n := fs.Int("n", 1500, "random files")
	fs.Parse(args)
	cases := hx.Create(filepath.Join(*out, "cases.txt"))
	impl := hx.Create(filepath.Join(*out, "impl.txt"))
	specs := hx.Create(filepath.Join(*out, "specs.jsonl"))
	skips := hx.Create(filepath.Join(*out, "skipped.jsonl"))
	defer skips.Close()
	count, skipped := 0, 0
	emit := func(c Case) {
		j, _ := json.Marshal(c)
		f, err := g.Build(c.File)
		if err != nil || f.Validate() != nil {
			skipped++
			skips.Printf("%s\n", j)
			return
		}
		cases.Printf("%s\n", dumpFile(f))
		specs.Printf("%s\n", j)
		cf, df, err, panicked := segment(f)
		switch {
		case panicked:
			impl.Printf("PANIC\n")
		case err != nil:
			impl.Printf("ERR %s\n", errClass(err))
		default:
			impl.Printf("OK %s | %s\n", dumpFile(cf), dumpFile(df))
		}
		count++
	}
	for _, c := range classOrders(4) {
		emit(c)
	}
	for _, c := range codeSweep() {
		emit(c)
	}
	r := rng.FromEnv(1101)
	for i := 0; i < *n; i++ {
		emit(Case{File: genFile(r)})
	}
	cases.Close()
	impl.Close()
	specs.Close()
	fmt.Printf("{\"cases\":%d,\"skipped\":%d}\n", count, skipped)
}

// ---------------------------------------------------------------- oracle

type failure struct {
	Kind string `json:"kind"`
	Key  string `json:"key"`
	What string `json:"what"`
	Case Case   `json:"case"`
}

// identity of an entry together with its addenda; trace numbers (and the sequence fields
// derived from them) are left out for entries of IAT batches, which SegmentFile re-sequences.
func stdIdentity(e *ach.EntryDetail) string {
	var b strings.Builder
	b.WriteString("S|" + e.String())
	if e.Addenda02 != nil {
		b.WriteString("|" + e.Addenda02.String())
	}
	for _, a := range e.Addenda05 {
		b.WriteString("|" + a.String())
	}
	if e.Addenda98 != nil {
		b.WriteString("|" + e.Addenda98.String())
	}
	if e.Addenda99 != nil {
		b.WriteString("|" + e.Addenda99.String())
	}
	return b.String()
}

func advIdentity(e *ach.ADVEntryDetail) string {
	return fmt.Sprintf("A|%d|%d|%s|%s|%s|%s|%s|%d", e.TransactionCode, e.Amount, e.DFIAccountNumber, e.RDFIIdentification, e.AdviceRoutingNumber, e.FileIdentification, e.IndividualName, e.JulianDay)
}

func iatIdentity(e *ach.IATEntryDetail) string {
	var b strings.Builder
	fmt.Fprintf(&b, "I|%d|%d|%s|%s|%d|%s", e.TransactionCode, e.Amount, e.DFIAccountNumber, e.RDFIIdentification, e.AddendaRecords, e.Category)
	if e.Addenda10 != nil {
		fmt.Fprintf(&b, "|10:%s:%d:%s:%s", e.Addenda10.TransactionTypeCode, e.Addenda10.ForeignPaymentAmount, e.Addenda10.ForeignTraceNumber, e.Addenda10.Name)
	}
	if e.Addenda11 != nil {
		fmt.Fprintf(&b, "|11:%s:%s", e.Addenda11.OriginatorName, e.Addenda11.OriginatorStreetAddress)
	}
	if e.Addenda12 != nil {
		fmt.Fprintf(&b, "|12:%s:%s", e.Addenda12.OriginatorCityStateProvince, e.Addenda12.OriginatorCountryPostalCode)
	}
	if e.Addenda13 != nil {
		fmt.Fprintf(&b, "|13:%s:%s", e.Addenda13.ODFIName, e.Addenda13.ODFIIdentification)
	}
	if e.Addenda14 != nil {
		fmt.Fprintf(&b, "|14:%s:%s", e.Addenda14.RDFIName, e.Addenda14.RDFIIdentification)
	}
	if e.Addenda15 != nil {
		fmt.Fprintf(&b, "|15:%s:%s", e.Addenda15.ReceiverIDNumber, e.Addenda15.ReceiverStreetAddress)
	}
	if e.Addenda16 != nil {
		fmt.Fprintf(&b, "|16:%s:%s", e.Addenda16.ReceiverCityStateProvince, e.Addenda16.ReceiverCountryPostalCode)
	}
	fmt.Fprintf(&b, "|17x%d|18x%d", len(e.Addenda17), len(e.Addenda18))
	return b.String()
}

type fileView struct {
	ids            []string
	codes          []int
	credit, debit  int
	batchIdents    []string
	origin, dest   string
	originN, destN string
	empty          bool
}

func batchIdent(h *ach.BatchHeader) string {
	return strings.Join([]string{h.StandardEntryClassCode, h.CompanyName, h.CompanyIdentification, h.CompanyEntryDescription, h.ODFIIdentification, h.EffectiveEntryDate, h.CompanyDiscretionaryData}, "|")
}

func iatIdent(h *ach.IATBatchHeader) string {
	return strings.Join([]string{h.StandardEntryClassCode, h.OriginatorIdentification, h.CompanyEntryDescription, h.ODFIIdentification, h.ISODestinationCountryCode, h.ISOOriginatingCurrencyCode, h.ISODestinationCurrencyCode, h.ForeignExchangeIndicator}, "|")
}

func view(f *ach.File) fileView {
	v := fileView{origin: f.Header.ImmediateOrigin, dest: f.Header.ImmediateDestination, originN: f.Header.ImmediateOriginName, destN: f.Header.ImmediateDestinationName}
	v.empty = len(f.Batches) == 0 && len(f.IATBatches) == 0
	if f.IsADV() {
		v.credit, v.debit = f.ADVControl.TotalCreditEntryDollarAmountInFile, f.ADVControl.TotalDebitEntryDollarAmountInFile
	} else {
		v.credit, v.debit = f.Control.TotalCreditEntryDollarAmountInFile, f.Control.TotalDebitEntryDollarAmountInFile
	}
	for _, bt := range f.Batches {
		v.batchIdents = append(v.batchIdents, batchIdent(bt.GetHeader()))
		for _, e := range bt.GetEntries() {
			v.ids = append(v.ids, stdIdentity(e))
			v.codes = append(v.codes, e.TransactionCode)
		}
		for _, e := range bt.GetADVEntries() {
			v.ids = append(v.ids, advIdentity(e))
			v.codes = append(v.codes, e.TransactionCode)
		}
	}
	for i := range f.IATBatches {
		v.batchIdents = append(v.batchIdents, iatIdent(f.IATBatches[i].GetHeader()))
		for _, e := range f.IATBatches[i].GetEntries() {
			v.ids = append(v.ids, iatIdentity(e))
			v.codes = append(v.codes, e.TransactionCode)
		}
	}
	return v
}

// collisionShape: a single-direction batch is followed by a mixed batch (the reused batch keeps
// its number, the batch split off later is numbered by position).
func collisionShape(c Case) bool {
	single := false
	for _, b := range c.File.Batches {
		if b.Kind != "std" {
			continue
		}
		if b.SCC == 220 || b.SCC == 225 {
			single = true
		} else if b.SCC == 200 && single {
			return true
		}
	}
	return false
}

func checkCase(c Case) (fails []failure, trivial bool) {
	add := func(key, what string) {
		fails = append(fails, failure{Kind: "fail", Key: key, What: what, Case: c})
	}
	f, err := g.Build(c.File)
	if err != nil || f.Validate() != nil {
		return nil, true
	}
	in := view(f)
	cf, df, err, panicked := segment(f)
	if panicked {
		add("segment:panic", fmt.Sprint(err))
		return fails, false
	}
	if err != nil {
		cl := errClass(err)
		if cl == "output-ascending" && collisionShape(c) {
			add("segment:batch-number-collision", "SegmentFile of a valid file fails: batch numbers must be ascending (a reused single-direction batch keeps its number, a batch split off later is numbered by position)")
		} else {
			add("segment:error:"+cl, "SegmentFile of a valid file returned an error of class "+cl)
		}
		return fails, false
	}
	if cf == nil || df == nil {
		add("segment:nil-file", "nil output without error")
		return fails, false
	}
	cv, dv := view(cf), view(df)
	for _, code := range cv.codes {
		if !isCredit(code) {
			add(fmt.Sprintf("segment:debit-in-credit-file:%d", code), fmt.Sprintf("credit file holds code %d", code))
		}
	}
	for _, code := range dv.codes {
		if isCredit(code) {
			add(fmt.Sprintf("segment:credit-in-debit-file:%d", code), fmt.Sprintf("debit file holds code %d", code))
		}
	}
	// multiset of entries with their addenda
	want := append([]string{}, in.ids...)
	got := append(append([]string{}, cv.ids...), dv.ids...)
	sort.Strings(want)
	sort.Strings(got)
	if strings.Join(want, "\n") != strings.Join(got, "\n") {
		key := "segment:entries-not-conserved"
		if len(got) < len(want) {
			key = "segment:entries-lost"
		}
		add(key, fmt.Sprintf("input holds %d entries, outputs %d; multisets differ", len(want), len(got)))
	}
	if cv.credit+dv.credit != in.credit || cv.debit+dv.debit != in.debit {
		add("segment:totals", fmt.Sprintf("totals do not add up: credit %d+%d vs %d, debit %d+%d vs %d", cv.credit, dv.credit, in.credit, cv.debit, dv.debit, in.debit))
	}
	if cv.debit != 0 || dv.credit != 0 {
		add("segment:cross-total", "credit file has a debit total or debit file a credit total")
	}
	inIdents := map[string]bool{}
	for _, s := range in.batchIdents {
		inIdents[s] = true
	}
	for name, pair := range map[string]struct {
		v fileView
		f *ach.File
	}{"credit": {cv, cf}, "debit": {dv, df}} {
		if pair.v.empty {
			continue
		}
		if err := pair.f.Validate(); err != nil {
			add("segment:invalid-output", name+" file fails Validate")
		}
		for i := range pair.f.IATBatches {
			if err := pair.f.IATBatches[i].Validate(); err != nil {
				add("segment:invalid-iat-batch", name+" file holds an IAT batch failing Validate")
			}
		}
		if pair.f.IsADV() {
			for _, bt := range pair.f.Batches {
				if err := bt.Validate(); err != nil {
					add("segment:invalid-adv-batch", name+" file holds an ADV batch failing Validate")
				}
			}
		}
		if pair.v.origin != in.origin || pair.v.dest != in.dest || pair.v.originN != in.originN || pair.v.destN != in.destN {
			add("segment:file-header", name+" file does not carry the input's origin/destination")
		}
		for _, s := range pair.v.batchIdents {
			if !inIdents[s] {
				add("segment:batch-identification", name+" file holds a batch whose identification is not one of the input's")
			}
		}
	}
	if cv.empty && dv.empty {
		add("segment:both-empty", "both outputs empty for a valid file")
	}
	return dedup(fails), false
}

func dedup(fs []failure) []failure {
	seen := map[string]bool{}
	var out []failure
	for _, f := range fs {
		if !seen[f.Key] {
			seen[f.Key] = true
			out = append(out, f)
		}
	}
	return out
}

type summary struct {
	Kind        string         `json:"kind"`
	Evaluations int            `json:"evaluations"`
	Distinct    int            `json:"distinct_nontrivial"`
	Rule        string         `json:"rule"`
	Dist        map[string]int `json:"distribution"`
	Samples     []Case         `json:"samples"`
}

func shape(c Case) string {
	var parts []string
	for _, b := range c.File.Batches {
		var codes []string
		for _, e := range b.Entries {
			codes = append(codes, strconv.Itoa(e.Code))
		}
		parts = append(parts, fmt.Sprintf("%s/%s/%d/%d/%s", b.Kind, b.SEC, b.SCC, b.Number, strings.Join(codes, ",")))
	}
	return strings.Join(parts, "|")
}

func oracle(args []string) {
	fs := flag.NewFlagSet("oracle", flag.ExitOnError)
	out := fs.String("out", "", "output directory")
	n := fs.Int("n", 1500, "generated files")
	corpus := fs.String("corpus", "", "corpus directory (cases run first)")
	fs.Parse(args)
	res := hx.Create(filepath.Join(*out, "oracle.jsonl"))
	enc := func(v any) {
		b, _ := json.Marshal(v)
		res.Printf("%s\n", b)
	}
	sum := summary{Kind: "summary", Dist: map[string]int{}, Rule: "valid files (PPD batches in every order of service classes up to length 4 with consecutive and gapped numbers; every SEC x admitted code in mixed and single-direction batches; IAT and ADV; random files of 1..5 standard + 0..3 IAT batches or 1..3 ADV batches), File.SegmentFile then the property evaluated on the outputs (directions, multiset of entries with addenda, totals, Validate, header and batch identification); non-trivial = the input validates; distinct by (kind, SEC, class, number, code sequence) of all batches"}
	seen := map[string]bool{}
	run := func(c Case) {
		sum.Evaluations++
		fails, trivial := checkCase(c)
		if trivial {
			sum.Dist["skipped-invalid-input"]++
			return
		}
		for _, b := range c.File.Batches {
			sum.Dist[fmt.Sprintf("%s/%d", b.SEC, b.SCC)]++
		}
		if k := shape(c); !seen[k] {
			seen[k] = true
			sum.Distinct++
		}
		for _, f := range fails {
			enc(f)
		}
		if len(sum.Samples) < 4 && sum.Evaluations%173 == 1 {
			sum.Samples = append(sum.Samples, c)
		}
	}
	for _, c := range corpusCases(*corpus) {
		run(c)
	}
	for _, c := range classOrders(4) {
		run(c)
	}
	for _, c := range codeSweep() {
		run(c)
	}
	r := rng.FromEnv(1111)
	for i := 0; i < *n; i++ {
		run(Case{File: genFile(r)})
	}
	enc(sum)
	res.Close()
}

func corpusCases(dir string) []Case {
	var out []Case
	if dir == "" {
		return out
	}
	names, _ := filepath.Glob(filepath.Join(dir, "*.json"))
	sort.Strings(names)
	for _, p := range names {
		b, err := os.ReadFile(p)
		if err != nil {
			continue
		}
		var rp struct {
			Input Case `json:"input"`
		}
		if json.Unmarshal(b, &rp) == nil && len(rp.Input.File.Batches) > 0 {
			out = append(out, rp.Input)
		}
	}
	return out
}

func replay(args []string) {
	if len(args) < 1 {
		fmt.Fprintln(os.Stderr, "usage: c11 replay <file>")
		os.Exit(2)
	}
	b, err := os.ReadFile(args[0])
	if err != nil {
		fmt.Fprintln(os.Stderr, err)
		os.Exit(2)
	}
	var rp struct {
		Input Case `json:"input"`
	}
	if err := json.Unmarshal(b, &rp); err != nil || len(rp.Input.File.Batches) == 0 {
		fmt.Println("replay file carries no input (obligation / correspondence failure): nothing to run")
		os.Exit(0)
	}
	fails, trivial := checkCase(rp.Input)
	if trivial {
		fmt.Println("the file of this input does not validate: outside the property")
		os.Exit(0)
	}
	for _, f := range fails {
		j, _ := json.Marshal(f)
		fmt.Println(string(j))
	}
	if len(fails) > 0 {
		os.Exit(1)
	}
	fmt.Println("no failure on this input")
}

// Command c04text: correspondence cases for the text-level model of C04
// (coq/Model/TamperText.v, extracted): the model's reading of a text (framing, padding
// of short lines, record dispatch, Parse through the regenerated layouts, skeleton of
// protected fields, read_validate) against ach.NewReader(...).Read() + File.Validate()
// on the same bytes — originals (LF and CRLF), texts with one digit of a protected
// column replaced, and truncated texts.
package main

import (
	"flag"
	"fmt"
	"os"
	"path/filepath"
	"strings"

	"github.com/moov-io/ach"

	"verifharness/internal/arith"
	"verifharness/internal/gen"
	"verifharness/internal/hx"
	"verifharness/internal/rng"
)

type field struct {
	name   string
	lo, hi int
}

// the protected columns per record type (same table as cmd/c04; the model's table is
// coq/Model/TamperText.v protected_columns, checked against the regenerated layouts)
var (
	hdrFields      = []field{{"batch-header:odfi", 79, 87}, {"batch-header:batch-number", 87, 94}}
	entryFields    = []field{{"entry:rdfi", 3, 11}, {"entry:check-digit", 11, 12}, {"entry:amount", 29, 39}}
	advEntryFields = []field{{"adv-entry:rdfi", 3, 11}, {"adv-entry:check-digit", 11, 12}, {"adv-entry:amount", 27, 39}}
	bctlFields     = []field{{"batch-control:service-class", 1, 4}, {"batch-control:entry-count", 4, 10}, {"batch-control:hash", 10, 20},
		{"batch-control:debit", 20, 32}, {"batch-control:credit", 32, 44}, {"batch-control:odfi", 79, 87}, {"batch-control:batch-number", 87, 94}}
	advBctlFields = []field{{"adv-batch-control:service-class", 1, 4}, {"adv-batch-control:entry-count", 4, 10}, {"adv-batch-control:hash", 10, 20},
		{"adv-batch-control:debit", 20, 40}, {"adv-batch-control:credit", 40, 60}, {"adv-batch-control:odfi", 79, 87}, {"adv-batch-control:batch-number", 87, 94}}
	fctlFields    = []field{{"file-control:batch-count", 1, 7}, {"file-control:entry-count", 13, 21}, {"file-control:hash", 21, 31}, {"file-control:debit", 31, 43}, {"file-control:credit", 43, 55}}
	advFctlFields = []field{{"adv-file-control:batch-count", 1, 7}, {"adv-file-control:entry-count", 13, 21}, {"adv-file-control:hash", 21, 31}, {"adv-file-control:debit", 31, 51}, {"adv-file-control:credit", 51, 71}}
)

func protected(lines []string) (map[int][]field, int) {
	out := map[int][]field{}
	sec := ""
	adv := false
	ctl := -1
	for i, l := range lines {
		if len(l) < 94 {
			continue
		}
		switch l[0] {
		case '5':
			sec = l[50:53]
			if sec == "ADV" {
				adv = true
			}
			out[i] = hdrFields
		case '6':
			if sec == "ADV" {
				out[i] = advEntryFields
			} else {
				out[i] = entryFields
			}
		case '8':
			if sec == "ADV" {
				out[i] = advBctlFields
			} else {
				out[i] = bctlFields
			}
		case '9':
			if ctl < 0 && l != strings.Repeat("9", 94) {
				ctl = i
				if adv {
					out[i] = advFctlFields
				} else {
					out[i] = fctlFields
				}
			}
		}
	}
	return out, ctl
}

// verdict of the implementation: "A <skeleton>" when the text reads and validates, else "R"
func verdict(text string) string {
	var f *ach.File
	var perr error
	err := arith.Safe(func() error {
		f, perr = gen.Parse(text)
		return nil
	})
	if err != nil || perr != nil || f == nil {
		return "R"
	}
	if arith.Safe(f.Validate) != nil {
		return "R"
	}
	return "A " + arith.FromFile(f).Enc()
}

func ascii(s string) bool {
	for i := 0; i < len(s); i++ {
		if s[i] >= 0x80 {
			return false
		}
	}
	return true
}

func main() {
	if len(os.Args) < 2 || os.Args[1] != "corr" {
		fmt.Fprintln(os.Stderr, "usage: c04text corr -out dir -files n [-first i] [-stride s]")
		os.Exit(2)
	}
	fs := flag.NewFlagSet("corr", flag.ExitOnError)
	out := fs.String("out", "", "output directory")
	nfiles := fs.Int("files", 20, "generated files")
	first := fs.Int("first", 0, "index of the first generated file")
	stride := fs.Int("stride", 7, "truncation offsets outside the last three record lines: every stride-th")
	fs.Parse(os.Args[2:])
	cases := hx.Create(filepath.Join(*out, "cases.txt"))
	impl := hx.Create(filepath.Join(*out, "impl.txt"))
	desc := hx.Create(filepath.Join(*out, "desc.txt"))
	n := 0
	emitV := func(text, what string) {
		cases.Printf("V %s\n", hx.Enc(text))
		impl.Printf("%s\n", verdict(text))
		desc.Printf("%s\n", what)
		n++
	}
	// the model's table is accepted by its checker (also proved by reflection; here the
	// extracted code is run so that a stale extraction is noticed)
	cases.Printf("T\n")
	impl.Printf("46 true\n")
	desc.Printf("protected_columns rows / all pcol_ok\n")
	seed := rng.Seed()
	r := rng.New(seed*31 + 5)
	stats := map[string]int{}
	for i := 0; i < *nfiles; i++ {
		idx := *first + i
		f, what := arith.GenFile(seed, idx, true)
		if f == nil {
			stats["skipped: "+what]++
			continue
		}
		text, err := gen.Text(f, false)
		if err != nil || !ascii(text) {
			stats["skipped: not writable / non-ASCII"]++
			continue
		}
		if verdict(text) == "R" {
			stats["skipped: generated text not accepted"]++
			continue
		}
		stats["files "+what]++
		id := fmt.Sprintf("seed %d file %d (%s)", seed, idx, what)
		emitV(text, id+": original, LF")
		crlf := strings.ReplaceAll(text, "\n", "\r\n")
		emitV(crlf, id+": original, CRLF")
		lines := strings.Split(text, "\n")
		prot, ctl := protected(lines)
		// one digit of every protected field of every protected line (two samples per field)
		for li := 0; li < len(lines); li++ {
			for _, fd := range prot[li] {
				for s := 0; s < 2; s++ {
					col := fd.lo + r.Intn(fd.hi-fd.lo)
					orig := lines[li][col]
					if orig < '0' || orig > '9' {
						continue
					}
					d := byte('0' + (int(orig-'0')+1+r.Intn(9))%10)
					bs := []byte(lines[li])
					bs[col] = d
					// the model's set_digit on the line
					cases.Printf("D %s %d %d\n", hx.Enc(lines[li]), col, d)
					impl.Printf("%s\n", hx.Enc(string(bs)))
					desc.Printf("%s: set_digit line %d col %d\n", id, li+1, col+1)
					n++
					cp := append([]string{}, lines...)
					cp[li] = string(bs)
					emitV(strings.Join(cp, "\n"), fmt.Sprintf("%s: tamper %s line %d col %d %c->%c", id, fd.name, li+1, col+1, orig, d))
					stats["tamper "+fd.name]++
				}
			}
		}
		// a sign character in place of the first digit of a numeric protected field (strconv.Atoi
		// accepts one: "+0001" reads as 1, "-0001" as -1): ties parseNumField on non-digit input
		for li := 0; li < len(lines); li++ {
			for _, fd := range prot[li] {
				if strings.HasSuffix(fd.name, ":odfi") || strings.HasSuffix(fd.name, ":rdfi") || strings.HasSuffix(fd.name, ":check-digit") {
					continue
				}
				if r.Intn(3) != 0 {
					continue
				}
				for _, sign := range []byte{'+', '-'} {
					bs := []byte(lines[li])
					orig := bs[fd.lo]
					bs[fd.lo] = sign
					cp := append([]string{}, lines...)
					cp[li] = string(bs)
					emitV(strings.Join(cp, "\n"), fmt.Sprintf("%s: sign %s line %d col %d %c->%c", id, fd.name, li+1, fd.lo+1, orig, sign))
					stats["sign "+fd.name]++
				}
			}
		}
		// truncations: every offset of the file control line and its neighbours, a stride elsewhere; LF and CRLF
		for _, t := range []struct {
			text, le string
			w        int
		}{{text, "LF", 95}, {crlf, "CRLF", 96}} {
			lo, hi := (ctl-1)*t.w, (ctl+2)*t.w
			for k := 0; k < len(t.text); k++ {
				if (k >= lo && k < hi) || k%*stride == i%*stride {
					emitV(t.text[:k], fmt.Sprintf("%s: truncate %s at %d of %d", id, t.le, k, len(t.text)))
					stats["truncate "+t.le]++
				}
			}
		}
	}
	cases.Close()
	impl.Close()
	desc.Close()
	fmt.Printf("cases %d\n", n+1)
	for k, v := range stats {
		fmt.Printf("%s: %d\n", k, v)
	}
}

// Command c04x: correspondence cases for the UTF-8 truncation statements of C04
// (coq/Model/TruncUtf8.v, coq/Props/C04Utf8.v).
//
//   - V: valid files WITH multi-byte characters (generator option NonASCII: 2-byte
//     characters in alphanumeric fields; additionally 2-, 3- and 4-byte characters are spliced
//     into the last columns of the file header and into the unparsed reserved area of the
//     file control record), written with LF and CRLF, cut at EVERY byte offset inside a
//     multi-byte character (and at the character boundaries around it), at every offset of
//     the file control record, and at a stride elsewhere: the extracted
//     text model (framing with U+FFFD per leftover byte, padding, dispatch, Parse through
//     the regenerated layouts, read_validate) against ach.NewReader(...).Read() +
//     File.Validate() on the same bytes.
//   - P: the characters bufio.ScanRunes (the split function Reader.Read installs) yields
//     for every byte prefix of random well-formed strings, against the model's chars and
//     its closed form (complete characters + one U+FFFD per leftover byte).
//   - L: the closed form of the lines handed to readLine for a cut record.
package main

import (
	"bufio"
	"encoding/hex"
	"encoding/json"
	"flag"
	"fmt"
	"os"
	"path/filepath"
	"strings"
	"unicode/utf8"

	"github.com/moov-io/ach"

	"verifharness/internal/arith"
	"verifharness/internal/gen"
	"verifharness/internal/hx"
	"verifharness/internal/rng"
)

// verdict of the implementation: "A <skeleton>" when the text reads and validates, else "R"
func verdict(text string) string {
	var f *ach.File
	var perr error
	err := arith.Safe(func() error {
		f, perr = gen.Parse(text)
		return nil
	})
	if err != nil || perr != nil || f == nil {
		return "R"
	}
	if arith.Safe(f.Validate) != nil {
		return "R"
	}
	return "A " + arith.FromFile(f).Enc()
}

func scanRunes(s string) string {
	sc := bufio.NewScanner(strings.NewReader(s))
	sc.Split(bufio.ScanRunes)
	var toks []string
	for sc.Scan() {
		toks = append(toks, hex.EncodeToString(sc.Bytes()))
	}
	return strings.Join(toks, ",")
}

var samples = []string{"é", "ñ", "Ü", "€", "中", "�", "😀", "𝄞", "\u0080", "߿", "ࠀ", "￿", "\U00010000", "\U0010ffff"}

func genFile(seed uint64, idx int) (*ach.File, string) {
	r := rng.New(seed*0x9E3779B97F4A7C15 + uint64(idx)*0xD1B54A32D192ED03 + 77)
	secs := gen.AllSECs()
	n := len(secs) + 3
	var f *ach.File
	var what string
	err := arith.Safe(func() error {
		switch k := idx % n; {
		case k < len(secs):
			what = secs[k]
			f = gen.FileOfSEC(r, what, gen.Opts{NonASCII: true, Addenda: r.Bool(), Returns: r.Chance(1, 4), MaxBatches: 2, MaxEntries: 3})
		case k == len(secs):
			what = "IAT"
			f = gen.FileOfSEC(r, "IAT", gen.Opts{NonASCII: true, IAT: true, Addenda: r.Bool(), MaxBatches: 2, MaxEntries: 3})
		default:
			what = "MIX"
			f = gen.File(r, gen.Opts{NonASCII: true, IAT: true, Returns: true, NOC: true, Addenda: true, MaxBatches: 3, MaxEntries: 3})
		}
		return nil
	})
	if err != nil {
		return nil, what + ": generator panic"
	}
	return f, what
}

// index of the file control line (first line starting with 9 that is not the 9-filler)
func ctlLine(lines []string) int {
	for i, l := range lines {
		if strings.HasPrefix(l, "9") && l != strings.Repeat("9", 94) {
			return i
		}
	}
	return -1
}

// replaceLastRunes replaces the last n characters of a line by s
func replaceLastRunes(line string, n int, s string) string {
	rs := []rune(line)
	if len(rs) < n {
		return line
	}
	return string(rs[:len(rs)-n]) + s
}

// replay re-runs a recorded case (evidence/replays/*.json with input.mode = "utf8"): the
// truncated text and the text it was cut from through Reader.Read + Validate; exit 1 when the
// truncated text is accepted with protected fields that differ from the original's.
func replay(path string) {
	raw, err := os.ReadFile(path)
	if err != nil {
		fmt.Println(err)
		os.Exit(2)
	}
	var doc struct {
		Input struct {
			TextHex     string `json:"text_hex"`
			OriginalHex string `json:"original_hex"`
		} `json:"input"`
	}
	if err := json.Unmarshal(raw, &doc); err != nil || doc.Input.TextHex == "" {
		fmt.Println("not a utf8 truncation case")
		os.Exit(2)
	}
	text, orig := hx.Dec(doc.Input.TextHex), hx.Dec(doc.Input.OriginalHex)
	vt, vo := verdict(text), verdict(orig)
	fmt.Printf("original  (%d bytes): %s\ntruncated (%d bytes): %s\n", len(orig), vo, len(text), vt)
	if strings.HasPrefix(vt, "A") && vt != vo {
		fmt.Println("FAIL: the truncated text is accepted as a different file")
		os.Exit(1)
	}
	fmt.Println("ok: rejected, or accepted with the original's protected fields")
}

func main() {
	if len(os.Args) >= 3 && os.Args[1] == "replay" {
		replay(os.Args[2])
		return
	}
	if len(os.Args) < 2 || os.Args[1] != "corr" {
		fmt.Fprintln(os.Stderr, "usage: c04x corr -out dir -files n [-stride s] [-strings m] | c04x replay file")
		os.Exit(2)
	}
	fs := flag.NewFlagSet("corr", flag.ExitOnError)
	out := fs.String("out", "", "output directory")
	nfiles := fs.Int("files", 24, "generated files")
	stride := fs.Int("stride", 37, "truncation offsets that are neither inside/next to a multi-byte character nor near the file control: every stride-th")
	nstr := fs.Int("strings", 150, "random well-formed strings for the scanner cases")
	fs.Parse(os.Args[2:])
	cases := hx.Create(filepath.Join(*out, "cases.txt"))
	impl := hx.Create(filepath.Join(*out, "impl.txt"))
	desc := hx.Create(filepath.Join(*out, "desc.txt"))
	stats := map[string]int{}
	n := 0
	emitV := func(text, what string) string {
		v := verdict(text)
		cases.Printf("V %s\n", hx.Enc(text))
		impl.Printf("%s\n", v)
		desc.Printf("%s\n", what)
		n++
		return v
	}
	cases.Printf("N\n")
	impl.Printf("true\n")
	desc.Printf("numeric_layout of the two file control layouts (extracted)\n")
	n++
	seed := rng.Seed()
	r := rng.New(seed*131 + 9)

	// truncations of one text
	truncate := func(text, id, le string, w int) {
		lines := strings.Split(text, le)
		ctl := ctlLine(lines)
		// byte offset of the file control line
		lo := 0
		for i := 0; i < ctl && i < len(lines); i++ {
			lo += len(lines[i]) + len(le)
		}
		hi := lo
		if ctl >= 0 && ctl < len(lines) {
			hi += len(lines[ctl]) + len(le) + 1
		}
		_ = w
		for k := 0; k < len(text); k++ {
			inside := k > 0 && !utf8.RuneStart(text[k]) // the cut leaves 1..3 bytes of a character
			near := (k < len(text) && text[k] >= 0x80) || (k > 0 && text[k-1] >= 0x80)
			switch {
			case inside:
				v := emitV(text[:k], fmt.Sprintf("%s: truncate %s at %d of %d (inside a multi-byte character)", id, le2s(le), k, len(text)))
				stats["truncate inside a character "+le2s(le)]++
				if strings.HasPrefix(v, "A") {
					stats["truncate inside a character, accepted "+le2s(le)]++
				}
			case near:
				emitV(text[:k], fmt.Sprintf("%s: truncate %s at %d of %d (character boundary)", id, le2s(le), k, len(text)))
				stats["truncate at a multi-byte character boundary "+le2s(le)]++
			case k >= lo && k < hi:
				emitV(text[:k], fmt.Sprintf("%s: truncate %s at %d of %d (around the file control)", id, le2s(le), k, len(text)))
				stats["truncate around the file control "+le2s(le)]++
			case k%*stride == 0:
				emitV(text[:k], fmt.Sprintf("%s: truncate %s at %d of %d", id, le2s(le), k, len(text)))
				stats["truncate elsewhere "+le2s(le)]++
			}
		}
	}

	for i := 0; i < *nfiles; i++ {
		f, what := genFile(seed, i)
		if f == nil {
			stats["skipped: "+what]++
			continue
		}
		text, err := gen.Text(f, false)
		if err != nil {
			stats["skipped: not writable"]++
			continue
		}
		if verdict(text) == "R" {
			stats["skipped: generated text not accepted"]++
			continue
		}
		multi := 0
		for _, c := range text {
			if c >= 0x80 {
				multi++
			}
		}
		if multi == 0 {
			stats["skipped: no multi-byte character"]++
			continue
		}
		stats["files "+what]++
		stats["multi-byte characters in generated files"] += multi
		id := fmt.Sprintf("seed %d file %d (%s)", seed, i, what)
		emitV(text, id+": original, LF")
		crlf := strings.ReplaceAll(text, "\n", "\r\n")
		emitV(crlf, id+": original, CRLF")
		truncate(text, id, "\n", 95)
		truncate(crlf, id, "\r\n", 96)

		// 3- and 4-byte characters: in the last columns of the file header (ReferenceCode,
		// alphanumeric) and in the last columns of the file control record (reserved, not parsed)
		lines := strings.Split(text, "\n")
		ctl := ctlLine(lines)
		if ctl < 0 {
			continue
		}
		for v := 0; v < 3; v++ {
			a, b := rng.Pick(r, samples), rng.Pick(r, samples)
			cp := append([]string{}, lines...)
			var where string
			switch v {
			case 0:
				cp[ctl] = replaceLastRunes(cp[ctl], 1, a)
				where = fmt.Sprintf("file control last column %q", a)
			case 1:
				cp[ctl] = replaceLastRunes(cp[ctl], 2, a+b)
				where = fmt.Sprintf("file control last two columns %q", a+b)
			default:
				cp[0] = replaceLastRunes(cp[0], 2, a+b)
				where = fmt.Sprintf("file header last two columns %q", a+b)
			}
			t2 := strings.Join(cp, "\n")
			id2 := id + ", " + where
			// (a file header with such characters is refused by FileHeader.Validate, a rule outside
			// the model: only its truncations are compared)
			if v != 2 {
				ov := emitV(t2, id2+": original, LF")
				stats["spliced originals"]++
				if strings.HasPrefix(ov, "A") {
					stats["spliced originals accepted"]++
				}
			}
			le, w := "\n", 95
			if r.Bool() {
				t2, le, w = strings.ReplaceAll(t2, "\n", "\r\n"), "\r\n", 96
			}
			// only the offsets inside / next to multi-byte characters of the changed line and the
			// control record region
			lines2 := strings.Split(t2, le)
			off := 0
			target := ctl
			if v == 2 {
				target = 0
			}
			for li := 0; li < target; li++ {
				off += len(lines2[li]) + len(le)
			}
			end := off + len(lines2[target]) + len(le)
			_ = w
			for k := off; k <= end && k < len(t2); k++ {
				inside := k > 0 && !utf8.RuneStart(t2[k])
				if inside || (target == ctl) || k >= end-12 {
					vv := emitV(t2[:k], fmt.Sprintf("%s: truncate %s at %d of %d (spliced line)", id2, le2s(le), k, len(t2)))
					if inside {
						stats["truncate inside a spliced character"]++
						if strings.HasPrefix(vv, "A") {
							stats["truncate inside a spliced character, accepted"]++
						}
					} else {
						stats["truncate in a spliced line"]++
					}
				}
			}
		}
	}

	// the scanner on byte prefixes of well-formed strings
	emitP := func(s string, k int) {
		cases.Printf("P %s %d\n", hx.Enc(s), k)
		impl.Printf("%s true\n", scanRunes(s[:k]))
		desc.Printf("scanner on the first %d bytes of %q\n", k, s)
		n++
		stats["scanner prefixes"]++
	}
	for i := 0; i < *nstr; i++ {
		var sb strings.Builder
		m := 1 + r.Intn(8)
		for j := 0; j < m; j++ {
			if r.Chance(1, 3) {
				sb.WriteByte(byte(' ' + r.Intn(95)))
			} else {
				sb.WriteString(rng.Pick(r, samples))
			}
		}
		s := sb.String()
		for k := 0; k <= len(s); k++ {
			emitP(s, k)
		}
	}
	// the lines handed to readLine for a cut record of 94 characters
	for i := 0; i < *nstr/3+1; i++ {
		rs := make([]rune, 0, 94)
		for len(rs) < 94 {
			if r.Chance(1, 6) {
				rs = append(rs, []rune(rng.Pick(r, samples))[0])
			} else {
				rs = append(rs, rune('A'+r.Intn(26)))
			}
		}
		// multi-byte characters in the last columns: the spill-over case
		if r.Bool() {
			rs[93] = []rune(rng.Pick(r, samples))[0]
		}
		if r.Bool() {
			rs[92] = []rune(rng.Pick(r, samples))[0]
		}
		l := string(rs)
		for k := 0; k <= len(l); k++ {
			if !utf8.RuneStart(l[min(k, len(l)-1)]) || k%11 == 0 || k >= len(l)-9 {
				cases.Printf("L %s %d\n", hx.Enc(l), k)
				impl.Printf("true\n")
				desc.Printf("lines for the first %d bytes of a 94 character record\n", k)
				n++
				stats["cut record closed form"]++
			}
		}
	}
	cases.Close()
	impl.Close()
	desc.Close()
	fmt.Printf("cases %d\n", n)
	for k, v := range stats {
		fmt.Printf("%s: %d\n", k, v)
	}
}

func le2s(le string) string {
	if le == "\n" {
		return "LF"
	}
	return "CRLF"
}

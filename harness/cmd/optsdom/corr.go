package main

// corr: correspondence of the option models of FlattenBatches (coq/Model/FlattenOpts.v, extracted
// flatten_o_stable_view, ocaml/c12opts) and SegmentFile (coq/Model/SegmentOpts.v, extracted
// segment_opts_view over the tables of this run, ocaml/c11opts) with the real code.
//
//	optsdom corr -prop C12|C11 -out DIR -n N
//
// Inputs: valid generated files of every kind whose batches are cut into several batches with
// the same header (so that FlattenBatches consolidates) and whose file and batches carry
// DIFFERENT option values: nil, the file's pointer, or an own random set of relaxation flags
// with or without one of three CheckTransactionCode functions.  Relaxation flags only relax, so
// the file stays valid.  Observed: the option value (all boolean fields in declaration order +
// identity of the function) stored on the derived file(s) and on every batch of them, in file
// order, through the verif hooks VerifBatchValidation / VerifIATBatchValidation.
//
// cases.txt / impl.txt / specs.jsonl as for every correspondence (lib/common.py Ctx.compare).

import (
	"encoding/json"
	"flag"
	"fmt"
	"os"
	"path/filepath"
	"reflect"
	"strings"
	"unicode/utf8"

	"github.com/moov-io/ach"

	"verifharness/internal/gen"
	"verifharness/internal/hx"
	"verifharness/internal/optsdom"
	"verifharness/internal/rng"
)

func ctc1(code int) error {
	if code == 91 {
		return fmt.Errorf("refused by function 1")
	}
	return nil
}
func ctc2(code int) error {
	if code == 92 {
		return fmt.Errorf("refused by function 2")
	}
	return nil
}
func ctc3(code int) error {
	if code == 93 {
		return fmt.Errorf("refused by function 3")
	}
	return nil
}

var ctcs = []func(int) error{nil, ctc1, ctc2, ctc3}

// ctcID identifies the function by its behaviour (0 = nil, 9 = another function).
func ctcID(f func(int) error) int {
	if f == nil {
		return 0
	}
	for i := 1; i <= 3; i++ {
		if f(90+i) != nil && f(90+(i%3)+1) == nil {
			return i
		}
	}
	return 9
}

// relaxations: the boolean fields a valid file may carry without changing what Create does to it
// or whether it validates (SkipAll switches validation off, RequireABAOrigin tightens).
func relaxations() []int {
	var out []int
	t := reflect.TypeOf(ach.ValidateOpts{})
	k := 0
	for i := 0; i < t.NumField(); i++ {
		if t.Field(i).Type.Kind() != reflect.Bool {
			continue
		}
		if n := t.Field(i).Name; n != "SkipAll" && n != "RequireABAOrigin" {
			out = append(out, k)
		}
		k++
	}
	return out
}

func setBool(o *ach.ValidateOpts, k int) {
	v := reflect.ValueOf(o).Elem()
	j := 0
	for i := 0; i < v.NumField(); i++ {
		if v.Field(i).Kind() != reflect.Bool {
			continue
		}
		if j == k {
			v.Field(i).SetBool(true)
			return
		}
		j++
	}
}

func token(o *ach.ValidateOpts) string {
	if o == nil {
		return "-"
	}
	var b strings.Builder
	v := reflect.ValueOf(*o)
	for i := 0; i < v.NumField(); i++ {
		if v.Field(i).Kind() == reflect.Bool {
			if v.Field(i).Bool() {
				b.WriteByte('1')
			} else {
				b.WriteByte('0')
			}
		}
	}
	return fmt.Sprintf("%s:%d", b.String(), ctcID(o.CheckTransactionCode))
}

func randOpts(r *rng.R) *ach.ValidateOpts {
	if r.Chance(1, 4) {
		return nil
	}
	o := &ach.ValidateOpts{}
	rel := relaxations()
	for _, k := range rel {
		if r.Chance(1, 6) {
			setBool(o, k)
		}
	}
	if r.Chance(1, 4) {
		o.CheckTransactionCode = ctcs[r.Range(1, 3)]
	}
	return o
}

// cutFile cuts batches with at least two entries into two or three batches with the same header
// (disjoint entries), sometimes repeating a part (same trace numbers: cannot be consolidated).
func cutFile(r *rng.R, f *ach.File) *ach.File {
	nf := ach.NewFile()
	nf.Header = f.Header
	num := 1
	for i := range f.Batches {
		b := f.Batches[i]
		n := len(b.GetEntries()) + len(b.GetADVEntries())
		k := 1
		if n >= 2 && r.Chance(2, 3) {
			k = r.Range(2, 3)
			if k > n {
				k = n
			}
		}
		for j := 0; j < k; j++ {
			c := gen.Clone(f).Batches[i]
			idx := 0
			c.DeleteEntries(func(*ach.EntryDetail) bool { idx++; return (idx-1)%k != j })
			idx = 0
			c.DeleteADVEntries(func(*ach.ADVEntryDetail) bool { idx++; return (idx-1)%k != j })
			c.GetHeader().BatchNumber = num
			num++
			if c.Create() != nil {
				return nil
			}
			nf.AddBatch(c)
			if r.Chance(1, 8) {
				d := gen.Clone(nf).Batches[len(nf.Batches)-1]
				d.GetHeader().BatchNumber = num
				num++
				if d.Create() != nil {
					return nil
				}
				nf.AddBatch(d)
			}
		}
	}
	for i := range f.IATBatches {
		n := len(f.IATBatches[i].Entries)
		k := 1
		if n >= 2 && r.Chance(2, 3) {
			k = 2
		}
		for j := 0; j < k; j++ {
			c := gen.Clone(f).IATBatches[i]
			idx := 0
			c.DeleteEntries(func(*ach.IATEntryDetail) bool { idx++; return (idx-1)%k != j })
			c.Header.BatchNumber = num
			num++
			if c.Create() != nil {
				return nil
			}
			nf.AddIATBatch(c)
		}
	}
	if nf.Create() != nil || gen.ValidAll(nf) != nil {
		return nil
	}
	return nf
}

type corrCase struct {
	Prop string `json:"prop"`
	Seed uint64 `json:"corrseed"`
}

// corrFile builds the input of one correspondence case (nil: the seed gives none).
func corrFile(c corrCase) (f *ach.File) {
	defer func() {
		if recover() != nil {
			f = nil
		}
	}()
	r := rng.New(c.Seed)
	var base *ach.File
	switch {
	case c.Prop == "C11" && r.Chance(1, 8):
		base = gen.ADVFile(r)
	default:
		base = gen.File(r, gen.Opts{IAT: r.Chance(1, 2), Returns: r.Chance(1, 4), NOC: r.Chance(1, 5), Addenda: r.Bool(), MaxBatches: 4, MaxEntries: 4})
	}
	f = cutFile(r, base)
	if f == nil || len(f.Batches)+len(f.IATBatches) > 12 {
		return nil
	}
	fo := randOpts(r)
	if fo != nil {
		f.SetValidation(fo)
	}
	pick := func() *ach.ValidateOpts {
		switch r.Intn(4) {
		case 0:
			return nil
		case 1:
			return fo
		}
		return randOpts(r)
	}
	for _, b := range f.Batches {
		b.SetValidation(pick())
	}
	for i := range f.IATBatches {
		f.IATBatches[i].SetValidation(pick())
	}
	if gen.ValidAll(f) != nil {
		return nil
	}
	return f
}

func cutCols(s string, n int) string {
	if utf8.RuneCountInString(s) <= n {
		return s
	}
	return string([]rune(s)[:n])
}

func flattenCase(f *ach.File) (caseLine, implLine string) {
	var b strings.Builder
	fmt.Fprintf(&b, "F %s N %d", token(f.GetValidation()), len(f.Batches)+len(f.IATBatches))
	for _, bt := range f.Batches {
		fmt.Fprintf(&b, " B S %s %d %s %d %d", hx.Enc(cutCols(bt.GetHeader().String(), 87)), bt.GetHeader().BatchNumber,
			token(optsdom.BatchOpts(bt)), len(bt.GetEntries()), len(bt.GetADVEntries()))
		for _, e := range bt.GetEntries() {
			b.WriteString(" " + hx.Enc(e.TraceNumber))
		}
	}
	for i := range f.IATBatches {
		bt := &f.IATBatches[i]
		fmt.Fprintf(&b, " B I %s %d %s %d 0", hx.Enc(cutCols(bt.Header.String(), 87)), bt.Header.BatchNumber,
			token(optsdom.IATOpts(bt)), len(bt.Entries))
		for _, e := range bt.Entries {
			b.WriteString(" " + hx.Enc(e.TraceNumber))
		}
	}
	caseLine = b.String()
	var g *ach.File
	var err error
	func() {
		defer func() {
			if p := recover(); p != nil {
				err = fmt.Errorf("panic: %v", p)
			}
		}()
		g, err = f.FlattenBatches()
	}()
	if err != nil {
		return caseLine, "ERR"
	}
	var o strings.Builder
	fmt.Fprintf(&o, "F %s N %d", token(g.GetValidation()), len(g.Batches)+len(g.IATBatches))
	for _, bt := range g.Batches {
		o.WriteString(" " + token(optsdom.BatchOpts(bt)))
	}
	for i := range g.IATBatches {
		o.WriteString(" " + token(optsdom.IATOpts(&g.IATBatches[i])))
	}
	return caseLine, o.String()
}

func segmentCase(f *ach.File) (caseLine, implLine string) {
	var b strings.Builder
	fmt.Fprintf(&b, "F %s NB %d", token(f.GetValidation()), len(f.Batches))
	for _, bt := range f.Batches {
		adv := 0
		if bt.GetHeader().StandardEntryClassCode == ach.ADV {
			adv = 1
		}
		fmt.Fprintf(&b, " %d %d %s %d", adv, bt.GetHeader().ServiceClassCode, token(optsdom.BatchOpts(bt)), len(bt.GetEntries())+len(bt.GetADVEntries()))
		for _, e := range bt.GetEntries() {
			fmt.Fprintf(&b, " %d", e.TransactionCode)
		}
		for _, e := range bt.GetADVEntries() {
			fmt.Fprintf(&b, " %d", e.TransactionCode)
		}
	}
	fmt.Fprintf(&b, " NI %d", len(f.IATBatches))
	for i := range f.IATBatches {
		bt := &f.IATBatches[i]
		fmt.Fprintf(&b, " 0 %d %s %d", bt.Header.ServiceClassCode, token(optsdom.IATOpts(bt)), len(bt.Entries))
		for _, e := range bt.Entries {
			fmt.Fprintf(&b, " %d", e.TransactionCode)
		}
	}
	caseLine = b.String()
	var cf, df *ach.File
	var err error
	func() {
		defer func() {
			if p := recover(); p != nil {
				err = fmt.Errorf("panic: %v", p)
			}
		}()
		cf, df, err = f.SegmentFile(ach.NewSegmentFileConfiguration())
	}()
	if err != nil {
		return caseLine, "ERR"
	}
	side := func(tag string, g *ach.File) string {
		var o strings.Builder
		// an output without batches is a fresh file: it still carries the input's options when they are not nil
		fmt.Fprintf(&o, "%s %s %d", tag, token(g.GetValidation()), len(g.Batches))
		for _, bt := range g.Batches {
			o.WriteString(" " + token(optsdom.BatchOpts(bt)))
		}
		fmt.Fprintf(&o, " %d", len(g.IATBatches))
		for i := range g.IATBatches {
			o.WriteString(" " + token(optsdom.IATOpts(&g.IATBatches[i])))
		}
		return o.String()
	}
	return caseLine, side("C", cf) + " | " + side("D", df)
}

func corr(args []string) {
	fs := flag.NewFlagSet("corr", flag.ExitOnError)
	prop := fs.String("prop", "", "C12 (FlattenBatches) or C11 (SegmentFile)")
	out := fs.String("out", "", "output directory")
	n := fs.Int("n", 1500, "cases")
	fs.Parse(args)
	if *prop != "C11" && *prop != "C12" {
		fmt.Fprintln(os.Stderr, "corr: -prop must be C11 or C12")
		os.Exit(2)
	}
	cases := hx.Create(filepath.Join(*out, "cases.txt"))
	impl := hx.Create(filepath.Join(*out, "impl.txt"))
	specs := hx.Create(filepath.Join(*out, "specs.jsonl"))
	r := rng.New(rng.FromEnv(0x0c0c).U64())
	count, skipped, errs := 0, 0, 0
	dist := map[string]int{}
	for i := 0; i < *n; i++ {
		c := corrCase{Prop: *prop, Seed: r.U64() >> 1}
		f := corrFile(c)
		if f == nil {
			skipped++
			continue
		}
		var cl, il string
		if *prop == "C12" {
			if f.IsADV() {
				skipped++
				continue
			}
			cl, il = flattenCase(f)
		} else {
			cl, il = segmentCase(f)
		}
		if il == "ERR" {
			// the operation's own failures are the subject of the property's other checks
			errs++
			continue
		}
		distinct := map[string]bool{token(f.GetValidation()): true}
		for _, b := range f.Batches {
			distinct[token(optsdom.BatchOpts(b))] = true
		}
		dist[fmt.Sprintf("distinct-option-values:%d", len(distinct))]++
		js, _ := json.Marshal(c)
		cases.Printf("%s\n", cl)
		impl.Printf("%s\n", il)
		specs.Printf("%s\n", js)
		count++
	}
	cases.Close()
	impl.Close()
	specs.Close()
	dj, _ := json.Marshal(dist)
	fmt.Printf("{\"cases\":%d,\"skipped\":%d,\"operation_errors\":%d,\"distribution\":%s}\n", count, skipped, errs, dj)
}

// Command optsdom evaluates, for one property, what its operation owes a file that is valid
// ONLY under the ValidateOpts stored on it (package internal/optsdom; files from gen.NeedsOpts,
// one variant per relaxation flag).
//
//	optsdom oracle -prop C12 -out DIR -n N [-corpus DIR]   oracle.jsonl: failure records + one summary
//	optsdom replay FILE                                       re-evaluates the case of a replay / corpus file
//
// Cases are {"optsdom": <variant>, "seed": <n>, "prop": <Cxx>}.
package main

import (
	"encoding/json"
	"flag"
	"fmt"
	"os"
	"path/filepath"
	"sort"
	"strings"

	"github.com/moov-io/ach"

	"verifharness/internal/gen"
	"verifharness/internal/hx"
	"verifharness/internal/optsdom"
	"verifharness/internal/rng"
)

type failure struct {
	Kind string       `json:"kind"`
	Key  string       `json:"key"`
	What string       `json:"what"`
	Case optsdom.Case `json:"case"`
}

var rules = map[string]string{
	"C05": "files valid only under stored options (one variant per relaxation flag): histories of Batch.Create / File.Create never fail, are idempotent, keep entries and trace numbers, leave the file valid under its options, controls = arithmetic of the entries; non-trivial = file of a distinct (variant, seed)",
	"C07": "files valid only under stored options: FileFromJSON(json.Marshal(f)) succeeds, validates, carries the flags on file and batches, same entries; Writer text read back under the flags has the same entries; text -> JSON -> text is the identity",
	"C08": "files valid only under stored options: MergeFilesWith over two such files (+ a plain file): outputs validate under the options they carry, hold at least the flags of the inputs of their routing pair, standard entries incl. trace numbers conserved, MaxLines respected",
	"C11": "files valid only under stored options: SegmentFile succeeds (or refuses an unknown transaction code), outputs validate under and carry the input's flags (file and batches), entries incl. trace numbers conserved, input unchanged",
	"C12": "files valid only under stored options: FlattenBatches succeeds, the result validates under and carries the input's flags (file and batches), entries incl. trace numbers conserved, input unchanged",
	"C13": "reversible files valid only under stored options: Reversal succeeds, result validates under the unchanged flags, trace numbers / amounts / accounts unchanged, directions flipped, two reversals restore the codes",
	"C14": "files valid only under stored options: histories of read-only operations leave records, controls and stored options unchanged and the Validate verdict stable",
	"C17": "files valid only under stored options created through POST /files/create (text + query flags or JSON + validateOpts): stored, flattened and segmented files carry the flags, validate, render readable contents and hold the entries; the stored file is unchanged afterwards",
}

func eval(prop string, c optsdom.Case) (fails []optsdom.Fail, label string, ok bool) {
	if strings.HasPrefix(c.Variant, "text:") {
		// reader side (C17 only): a text the Reader accepts only under the option
		if prop != "C17" {
			return nil, "", false
		}
		r := rng.New(c.Seed)
		f := gen.File(r, gen.Opts{Addenda: true, IAT: r.Chance(1, 3), Returns: r.Chance(1, 3), NOC: r.Chance(1, 4), MaxBatches: 3})
		if r.Chance(1, 8) {
			f = gen.ADVFile(r)
		}
		return optsdom.ServerText(f, c.Variant, r), c.Variant, true
	}
	g, v := c.Build()
	if g == nil {
		return nil, "", false
	}
	r := rng.New(c.Seed ^ 0x5eed)
	label = c.Variant
	switch prop {
	case "C05":
		fails = optsdom.Create(g, v, r)
	case "C07":
		if v.NoJSON {
			return nil, "", false
		}
		fails = optsdom.JSON(g, v)
	case "C08", "C09":
		if g.IsADV() {
			return nil, "", false
		}
		fails = optsdom.Merge(g, v, r)
	case "C11":
		fails = optsdom.Segment(g, v)
	case "C12":
		if g.IsADV() {
			return nil, "", false
		}
		fails = optsdom.Flatten(g, v)
	case "C13":
		if !optsdom.Reversible(g) {
			// the variant's own base file rarely is reversible: draw the base from the both-direction SECs
			g = reversibleOf(c, v)
			if g == nil {
				return nil, "", false
			}
		}
		fails = optsdom.Reversal(g, v)
	case "C14":
		fails = optsdom.Pure(g, v, r)
	case "C17":
		if v.NoJSON {
			return nil, "", false
		}
		fails = optsdom.Server(g, v, r)
	default:
		fmt.Fprintln(os.Stderr, "unknown property", prop)
		os.Exit(2)
	}
	return fails, label, true
}

// reversibleOf damages a forward file of the both-direction SEC codes with the variant.
func reversibleOf(c optsdom.Case, v *gen.OptVariant) *ach.File {
	r := rng.New(c.Seed ^ 0x13)
	for i := 0; i < 6; i++ {
		f := gen.File(r, gen.Opts{SECs: []string{ach.PPD, ach.CCD, ach.CTX, ach.WEB}, ForwardOnly: true, Addenda: true, MinBatches: 1, MaxBatches: 3, MaxEntries: 4})
		if g := gen.NeedsOptsVariant(r, f, v); g != nil && optsdom.Reversible(g) {
			return g
		}
	}
	return nil
}

func main() {
	if len(os.Args) < 2 {
		fmt.Fprintln(os.Stderr, "usage: optsdom oracle|corr|replay ...")
		os.Exit(2)
	}
	switch os.Args[1] {
	case "oracle":
		oracle(os.Args[2:])
	case "replay":
		replay(os.Args[2:])
	case "corr":
		corr(os.Args[2:])
	default:
		fmt.Fprintln(os.Stderr, "unknown mode", os.Args[1])
		os.Exit(2)
	}
}

func corpusCases(dir, prop string) []optsdom.Case {
	var out []optsdom.Case
	if dir == "" {
		return out
	}
	names, _ := filepath.Glob(filepath.Join(dir, "*.json"))
	sort.Strings(names)
	for _, p := range names {
		if c, ok := loadCase(p); ok && (c.Prop == "" || c.Prop == prop) {
			out = append(out, c)
		}
	}
	return out
}

func loadCase(path string) (optsdom.Case, bool) {
	raw, err := os.ReadFile(path)
	if err != nil {
		return optsdom.Case{}, false
	}
	var doc struct {
		Property string        `json:"property"`
		Input    *optsdom.Case `json:"input"`
		Case     *optsdom.Case `json:"case"`
	}
	if json.Unmarshal(raw, &doc) != nil {
		return optsdom.Case{}, false
	}
	c := doc.Input
	if c == nil {
		c = doc.Case
	}
	if c == nil || c.Variant == "" {
		return optsdom.Case{}, false
	}
	if c.Prop == "" {
		c.Prop = doc.Property
	}
	return *c, true
}

func oracle(args []string) {
	fs := flag.NewFlagSet("oracle", flag.ExitOnError)
	prop := fs.String("prop", "", "property id (C05 C07 C08 C11 C12 C13 C14 C17)")
	out := fs.String("out", "", "output directory")
	n := fs.Int("n", 600, "cases")
	corpus := fs.String("corpus", "", "directory of committed seed cases (run first)")
	fs.Parse(args)
	w := hx.Create(filepath.Join(*out, "oracle.jsonl"))
	gen.AllowBatchOnly = *prop != "C07" && *prop != "C17"
	todo := corpusCases(*corpus, *prop)
	r := rng.New(rng.FromEnv(0x0d0d).U64())
	todo = append(todo, optsdom.Cases(r, *n)...)
	if *prop == "C17" {
		for i := 0; i < *n/9; i++ {
			todo = append(todo, optsdom.Case{Variant: gen.TextVariants[i%len(gen.TextVariants)], Seed: r.U64() >> 1})
		}
	}
	dist := map[string]int{}
	evals := 0
	samples := []any{}
	for _, c := range todo {
		c.Prop = *prop
		fails, label, ok := eval(*prop, c)
		if !ok {
			dist["not-applicable:"+c.Variant]++
			continue
		}
		evals++
		dist[label]++
		if len(samples) < 3 && evals%7 == 1 {
			samples = append(samples, map[string]any{"case": c, "failures": len(fails)})
		}
		for _, f := range fails {
			// one root cause, many paths: with short trace numbers the Reader refuses the Writer's own output
			// (stored strings ascend, written zero-padded fields do not); wherever a text of such a file is read
			// back (Reader, POST /files/create with text, GET contents re-read) the failure carries this key
			if c.Variant == "short-trace-numbers" && strings.Contains(f.What, "must be in ascending order") && strings.Contains(f.What, "00000000") {
				f.Key = "text:opts:short-trace-numbers:written-order-differs"
			}
			js, _ := json.Marshal(failure{Kind: "fail", Key: f.Key, What: f.What, Case: c})
			w.Printf("%s\n", js)
		}
	}
	summ := map[string]any{"kind": "summary", "evaluations": evals, "distinct_nontrivial": evals,
		"rule": rules[*prop], "distribution": dist, "samples": samples}
	js, _ := json.Marshal(summ)
	w.Printf("%s\n", js)
	w.Close()
	fmt.Printf("{\"evaluations\":%d}\n", evals)
}

func replay(args []string) {
	if len(args) < 1 {
		fmt.Fprintln(os.Stderr, "usage: optsdom replay FILE")
		os.Exit(2)
	}
	c, ok := loadCase(args[0])
	if !ok || c.Prop == "" {
		fmt.Fprintln(os.Stderr, "not an optsdom case")
		os.Exit(2)
	}
	fails, label, ok := eval(c.Prop, c)
	if !ok {
		fmt.Println("the case does not produce a file of the domain on this tree")
		return
	}
	fmt.Println("property:", c.Prop, " variant:", label, " seed:", c.Seed)
	if len(fails) == 0 {
		fmt.Println("property holds on this input")
		return
	}
	for _, f := range fails {
		fmt.Printf("FAIL %s: %s\n", f.Key, f.What)
	}
	os.Exit(1)
}

package main

// c07 post -out DIR -n N -hidden FILE
//
// Correspondence for the model of what FileFromJSONWith does after the struct decode
// (coq/Model/JsonFile.v): for generated files of every kind the JSON document is written,
// optionally damaged in the parts the post-processing recomputes or infers (controls, trace
// numbers, type codes, batch numbers, addenda sequence numbers, CTX/ATX names, RFC 3339 and
// near-miss timestamps), and given to ach.FileFromJSONWith together with an options argument.
// cases.txt holds "P <passed> <json tree>", impl.txt the tree of the returned file (every field
// that is not in the hidden list, unexported ones by reflection) and the writer's text.

import (
	"encoding/json"
	"flag"
	"fmt"
	"os"
	"path/filepath"
	"reflect"
	"sort"
	"strconv"
	"strings"

	"github.com/moov-io/ach"

	"verifharness/internal/gen"
	"verifharness/internal/hx"
	"verifharness/internal/rng"
)

type hiddenSet map[string]bool

func readHidden(path string) hiddenSet {
	h := hiddenSet{}
	bs, err := os.ReadFile(path)
	if err != nil {
		fmt.Fprintln(os.Stderr, err)
		os.Exit(2)
	}
	for _, l := range strings.Split(string(bs), "\n") {
		fs := strings.Fields(l)
		if len(fs) == 2 {
			h[fs[0]+"."+fs[1]] = true
		}
	}
	return h
}

// treeNodes prints the nodes a value stands for (struct: one node; nil pointer: none; slice: its elements' nodes).
func treeNodes(v reflect.Value, h hiddenSet, b *strings.Builder) {
	switch v.Kind() {
	case reflect.Ptr, reflect.Interface:
		if !v.IsNil() {
			treeNodes(v.Elem(), h, b)
		}
	case reflect.Slice:
		for i := 0; i < v.Len(); i++ {
			treeNodes(v.Index(i), h, b)
		}
	case reflect.Struct:
		t := v.Type()
		name := t.Name()
		goType := ""
		// the concrete batch types are struct{Batch}
		if t.NumField() == 1 && t.Field(0).Anonymous && t.Field(0).Type.Name() == "Batch" && name != "Batch" {
			goType = name
			v = v.Field(0)
			t = v.Type()
			name = "Batch"
		} else if name == "Batch" {
			goType = "Batch"
		}
		type kv struct{ k, v string }
		var scal []kv
		var kids []kv
		isADV := false
		if name == "Batch" {
			if hd := v.FieldByName("Header"); hd.IsValid() && !hd.IsNil() {
				isADV = hd.Elem().FieldByName("StandardEntryClassCode").String() == "ADV"
			}
		}
		for i := 0; i < t.NumField(); i++ {
			f := t.Field(i)
			if h[name+"."+f.Name] && !(name == "Batch" && f.Name == "ADVControl" && isADV) {
				continue
			}
			fv := v.Field(i)
			switch fv.Kind() {
			case reflect.String:
				scal = append(scal, kv{f.Name, "S:" + hx.Enc(fv.String())})
			case reflect.Int, reflect.Int64, reflect.Int32:
				scal = append(scal, kv{f.Name, "I:" + strconv.FormatInt(fv.Int(), 10)})
			case reflect.Bool:
				if fv.Bool() {
					scal = append(scal, kv{f.Name, "I:1"})
				} else {
					scal = append(scal, kv{f.Name, "I:0"})
				}
			case reflect.Struct:
				if fv.NumField() == 0 {
					continue
				}
				var kb strings.Builder
				treeNodes(fv, h, &kb)
				kids = append(kids, kv{f.Name, kb.String()})
			case reflect.Ptr, reflect.Slice, reflect.Interface:
				var kb strings.Builder
				treeNodes(fv, h, &kb)
				kids = append(kids, kv{f.Name, kb.String()})
			}
		}
		if goType != "" {
			scal = append(scal, kv{"@type", "S:" + hx.Enc(goType)})
		}
		sort.SliceStable(scal, func(i, j int) bool { return scal[i].k < scal[j].k })
		sort.SliceStable(kids, func(i, j int) bool { return kids[i].k < kids[j].k })
		b.WriteString("{" + name)
		for _, s := range scal {
			b.WriteString(" " + s.k + "=" + s.v)
		}
		b.WriteString(" |")
		for _, k := range kids {
			b.WriteString(" " + k.k + ":[" + k.v + "]")
		}
		b.WriteString("}")
	}
}

var isoStamps = []string{
	"2019-09-23T21:50:52-07:00", "2021-01-31T23:59:00+05:30", "2020-02-29T00:10:00Z", "2022-12-31T22:15:07-10:00",
	"2018-07-04T03:04:05+09:00", "2023-03-05T7:08:09Z", "2024-02-29T12:30:45.123Z", "2017-11-30T01:02:03,5+00:00",
	"2016-06-15T23:00:00.000000001-01:00", "1999-12-31T23:59:59+24:00", "0001-01-01T00:00:00Z", "0001-01-01T01:00:00+01:00",
	"2000-01-01T00:00:00+00:60",
}

var nearStamps = []string{
	"2020-13-01T00:00:00Z", "2021-02-29T10:00:00Z", "2020-01-01t00:00:00Z", "2020-01-01T24:00:00Z", "2020-01-01T00:60:00Z",
	"2020-01-01T00:00:60Z", "2020-01-01T00:00:00", "2020-01-01T00:00:00+0100", "2020-01-01T00:00:00+25:00", "2020-1-01T00:00:00Z",
	"2020-01-01T00:00:00.Z", "2020-01-01T00:00:00Zx", "20-01-01T00:00:00Z", "2020-01-01 00:00:00Z", "2020-00-10T00:00:00Z",
	"2020-01-00T00:00:00Z", "2020-01-01T00:00:00*01:00", "2020-01-01T00:00:00+01:61", "+020-01-01T00:00:00Z",
}

func pickStamp(r *rng.R) string {
	if r.Chance(1, 3) {
		return rng.Pick(r, nearStamps)
	}
	return rng.Pick(r, isoStamps)
}

func eachBatch(doc map[string]any, key string, f func(b map[string]any)) {
	bs, _ := doc[key].([]any)
	for _, x := range bs {
		if b, ok := x.(map[string]any); ok {
			f(b)
		}
	}
}

func eachEntry(b map[string]any, f func(e map[string]any)) {
	for _, key := range []string{"entryDetails", "IATEntryDetails", "advEntryDetails"} {
		es, _ := b[key].([]any)
		for _, x := range es {
			if e, ok := x.(map[string]any); ok {
				f(e)
			}
		}
	}
}

func eachAddenda(e map[string]any, f func(key string, a map[string]any)) {
	for k, x := range e {
		if !strings.HasPrefix(k, "addenda") || k == "addendaRecordIndicator" || k == "addendaRecords" {
			continue
		}
		switch t := x.(type) {
		case map[string]any:
			f(k, t)
		case []any:
			for _, y := range t {
				if a, ok := y.(map[string]any); ok {
					f(k, a)
				}
			}
		}
	}
}

// damage applies the modifications selected by the bits of mask to the parsed document.
func damage(r *rng.R, doc map[string]any, mask int) []string {
	var did []string
	both := func(f func(b map[string]any)) {
		eachBatch(doc, "batches", f)
		eachBatch(doc, "IATBatches", f)
	}
	if mask&1 != 0 {
		did = append(did, "controls")
		delete(doc, "fileControl")
		delete(doc, "fileADVControl")
		both(func(b map[string]any) { delete(b, "batchControl"); delete(b, "advBatchControl") })
	}
	if mask&2 != 0 {
		did = append(did, "traces")
		both(func(b map[string]any) {
			eachEntry(b, func(e map[string]any) {
				if e["addenda99"] == nil && e["addenda98"] == nil && e["addenda99Dishonored"] == nil && e["addenda99Contested"] == nil && e["addenda98Refused"] == nil {
					if r.Chance(1, 2) {
						delete(e, "traceNumber")
					} else {
						e["traceNumber"] = "9" + strconv.Itoa(r.Range(1000, 99999999))
					}
				}
			})
		})
	}
	if mask&4 != 0 {
		did = append(did, "typecodes")
		both(func(b map[string]any) {
			eachEntry(b, func(e map[string]any) {
				eachAddenda(e, func(_ string, a map[string]any) {
					if r.Chance(1, 2) {
						delete(a, "typeCode")
					} else {
						a["typeCode"] = "77"
					}
				})
			})
		})
	}
	if mask&8 != 0 {
		did = append(did, "dates")
		if fh, ok := doc["fileHeader"].(map[string]any); ok {
			if r.Chance(1, 2) {
				fh["fileCreationDate"] = rng.Pick(r, isoStamps[:len(isoStamps)-3])
			}
			if r.Chance(1, 2) {
				fh["fileCreationTime"] = rng.Pick(r, isoStamps[:len(isoStamps)-3])
			}
		}
		eachBatch(doc, "batches", func(b map[string]any) {
			if bh, ok := b["batchHeader"].(map[string]any); ok {
				if r.Chance(1, 2) {
					bh["effectiveEntryDate"] = pickStamp(r)
				}
				switch r.Intn(4) {
				case 0:
					bh["companyDescriptiveDate"] = "SD" + pickStamp(r)
				case 1:
					bh["companyDescriptiveDate"] = pickStamp(r)
				}
			}
		})
		eachBatch(doc, "IATBatches", func(b map[string]any) {
			if bh, ok := b["IATBatchHeader"].(map[string]any); ok && r.Chance(1, 2) {
				bh["effectiveEntryDate"] = pickStamp(r)
			}
		})
	}
	if mask&16 != 0 {
		did = append(did, "catx")
		eachBatch(doc, "batches", func(b map[string]any) {
			bh, _ := b["batchHeader"].(map[string]any)
			if bh == nil || (bh["standardEntryClassCode"] != "CTX" && bh["standardEntryClassCode"] != "ATX") {
				return
			}
			eachEntry(b, func(e map[string]any) {
				name, _ := e["individualName"].(string)
				switch r.Intn(4) {
				case 0: // bare company name, as API users send it
					if len(name) > 4 {
						e["individualName"] = strings.TrimSpace(name[4:])
					}
				case 1: // count zeroed
					if len(name) > 4 {
						e["individualName"] = "0000" + name[4:]
					}
				case 2: // indicator dropped
					delete(e, "addendaRecordIndicator")
				case 3:
					e["individualName"] = rng.Pick(r, []string{"", "12", "ACME", "0003", " 002 Receiver Co", "-001Negative", "12345678901234567890123456", "0001One Addenda"})
					if r.Chance(1, 2) {
						delete(e, "addendaRecordIndicator")
					}
				}
			})
		})
	}
	if mask&32 != 0 {
		did = append(did, "numbers")
		both(func(b map[string]any) {
			for _, hk := range []string{"batchHeader", "IATBatchHeader"} {
				if bh, ok := b[hk].(map[string]any); ok {
					bh["batchNumber"] = json.Number(strconv.Itoa(r.Intn(2)))
				}
			}
			eachEntry(b, func(e map[string]any) {
				eachAddenda(e, func(_ string, a map[string]any) {
					delete(a, "sequenceNumber")
					delete(a, "entryDetailSequenceNumber")
				})
			})
		})
	}
	if mask&64 != 0 {
		did = append(did, "ids")
		doc["id"] = "file-" + strconv.Itoa(r.Intn(1000))
		both(func(b map[string]any) {
			for _, hk := range []string{"batchHeader", "IATBatchHeader"} {
				if bh, ok := b[hk].(map[string]any); ok {
					bh["id"] = "bh-" + strconv.Itoa(r.Intn(1000))
				}
			}
		})
	}
	if mask&128 != 0 {
		did = append(did, "errors")
		both(func(b map[string]any) {
			switch r.Intn(8) {
			case 0:
				delete(b, "entryDetails")
				delete(b, "IATEntryDetails")
				delete(b, "advEntryDetails")
			case 1:
				eachEntry(b, func(e map[string]any) {
					if r.Chance(1, 2) {
						e["traceNumber"] = rng.Pick(r, []string{"ABCDEFGH1234567", "1234567 1234567", "+1234567", "-12345670000001", "12345678"})
					}
				})
			case 2:
				eachEntry(b, func(e map[string]any) { delete(e, rng.Pick(r, []string{"addenda10", "addenda13", "addenda16", "addenda05"})) })
			case 3:
				b["batchHeader"] = nil
				b["IATBatchHeader"] = nil
			case 4:
				if bh, ok := b["batchHeader"].(map[string]any); ok {
					bh["ODFIIdentification"] = rng.Pick(r, []string{"1234567", "12345678", "ABCDEFGH", "123456789"})
				}
			case 5:
				if o, ok := b["offset"].(map[string]any); ok {
					switch r.Intn(3) {
					case 0:
						o["routingNumber"] = "123456789"
					case 1:
						o["accountType"] = "loan"
					case 2:
						o["routingNumber"] = ""
					}
				}
			}
		})
	}
	return did
}

func passedString(o *ach.ValidateOpts) string {
	if o == nil {
		return "N"
	}
	v := reflect.ValueOf(o).Elem()
	var b strings.Builder
	for i := 0; i < v.NumField(); i++ {
		if v.Field(i).Kind() == reflect.Bool {
			if v.Field(i).Bool() {
				b.WriteByte('1')
			} else {
				b.WriteByte('0')
			}
		}
	}
	return b.String()
}

func post(args []string) {
	fs := flag.NewFlagSet("post", flag.ExitOnError)
	out := fs.String("out", "", "output directory")
	n := fs.Int("n", 100, "number of generated files")
	hiddenPath := fs.String("hidden", "", "file with the hidden (struct field) pairs, from the model")
	repo := fs.String("repo", "", "library working tree (IAT fixtures to graft)")
	fs.Parse(args)
	h := readHidden(*hiddenPath)
	r := rng.FromEnv(0xC07F11E)
	cases := hx.Create(filepath.Join(*out, "cases.txt"))
	impl := hx.Create(filepath.Join(*out, "impl.txt"))
	defer cases.Close()
	defer impl.Close()
	stats := map[string]int{}
	var graft []any // IAT batches of an earlier document, grafted into later ones (bypasses the generator's own validation)
	if *repo != "" {
		// start from a fixture, so that mixed files exist even when the generator cannot build one
		names, _ := filepath.Glob(filepath.Join(*repo, "test", "testdata", "*.ach"))
		sort.Strings(names)
		for _, n := range names {
			if !strings.Contains(strings.ToLower(filepath.Base(n)), "iat") {
				continue
			}
			var file ach.File
			guard(func() {
				fd, err := os.Open(n)
				if err != nil {
					return
				}
				defer fd.Close()
				file, _ = ach.NewReader(fd).Read()
			})
			if len(file.IATBatches) == 0 {
				continue
			}
			bs, err := json.Marshal(file.IATBatches)
			if err != nil {
				continue
			}
			if x, err := parseTree(bs); err == nil {
				if l, ok := x.([]any); ok && len(l) > 0 {
					graft = l
					stats["graft-fixture"]++
					break
				}
			}
		}
	}
	for i := 0; i < *n; i++ {
		var f *ach.File
		if i%6 == 5 {
			// CTX / ATX carry the name-packing heuristic: over-represent them
			guard(func() {
				f = gen.FileOfSEC(r, rng.Pick(r, []string{ach.CTX, ach.ATX}), gen.Opts{MaxBatches: 2, MaxEntries: r.Range(1, 4), Addenda: r.Chance(2, 3), Returns: r.Chance(1, 4)})
			})
		} else {
			f = genFile(r, i)
		}
		if f == nil {
			stats["gen-failed"]++
			continue
		}
		if r.Chance(1, 4) {
			applyOpts(f, randOpts(r))
		}
		bs, err := json.Marshal(f)
		if err != nil {
			stats["marshal-failed"]++
			continue
		}
		// the round-trip theorem's prediction: where its conditions hold (evaluated by the model on the
		// file value), FileFromJSONWith(Marshal(f)) writes the text of f
		{
			var passed *ach.ValidateOpts
			if r.Chance(1, 6) {
				passed = &ach.ValidateOpts{}
			}
			verdict, hv := "ne", "1"
			before, e1 := writeTextBypass(f)
			var res *ach.File
			guard(func() { res, _ = ach.FileFromJSONWith(bs, passed) })
			if res != nil && e1 == nil {
				guard(func() {
					if res.Header.Validate() != nil {
						hv = "0"
					}
				})
				if after, e2 := writeTextBypass(res); e2 == nil && after == before {
					verdict = "eq"
				}
			}
			// the writer on the tree of the file value itself (File.ADVControl is not part of a tree: no ADV files here)
			// (and the layout model renders FileCreationDate/Time in their YYMMDD / HHmm forms only)
			if e1 == nil && !f.IsADV() && len(f.Header.FileCreationDate) == 6 && len(f.Header.FileCreationTime) == 4 {
				cases.Printf("%s\n", "W "+dumpStr(reflect.ValueOf(f)))
				impl.Printf("%s\n", hx.Enc(before))
				stats["writer-on-tree"]++
			}
			stats["roundtrip:"+verdict]++
			cases.Printf("%s\n", "R "+passedString(passed)+" "+hv+" "+verdict+" "+dumpStr(reflect.ValueOf(f)))
			impl.Printf("%s\n", verdict)
		}
		masks := []int{0, 1 << uint(r.Intn(8)), r.Intn(256)}
		for _, mask := range masks {
			x, err := parseTree(bs)
			if err != nil {
				continue
			}
			doc, ok := x.(map[string]any)
			if !ok {
				continue
			}
			for _, d := range damage(r, doc, mask) {
				stats["damage:"+d]++
			}
			if ib, ok := doc["IATBatches"].([]any); ok && len(ib) > 0 {
				graft = ib
			} else if graft != nil && !f.IsADV() && r.Chance(1, 5) {
				stats["damage:graft-iat"]++
				doc["IATBatches"] = graft
			}
			var passed *ach.ValidateOpts
			switch r.Intn(5) {
			case 0:
				passed = randOpts(r)
				passed.SkipAll = false
			case 1:
				passed = &ach.ValidateOpts{}
			}
			text, err := json.Marshal(doc)
			if err != nil {
				continue
			}
			var cb strings.Builder
			canon(doc, &cb)
			var res *ach.File
			var ferr error
			if p := guard(func() { res, ferr = ach.FileFromJSONWith(text, passed) }); p != nil {
				stats["panic"]++
				cases.Printf("%s\n", "P "+passedString(passed)+" 1 "+strings.TrimSpace(cb.String()))
				impl.Printf("%s\n", "PANIC")
				continue
			}
			// the verdict of FileHeader.Validate (an abstract predicate of the model) on the returned header
			hv := "1"
			if res != nil {
				guard(func() {
					if res.Header.Validate() != nil {
						hv = "0"
					}
				})
			}
			cases.Printf("%s\n", "P "+passedString(passed)+" "+hv+" "+strings.TrimSpace(cb.String()))
			if res == nil {
				stats["result:error"]++
				impl.Printf("%s\n", "ERR")
				continue
			}
			if ferr != nil {
				stats["result:file+error"]++
			} else {
				stats["result:ok"]++
			}
			var tb strings.Builder
			treeNodes(reflect.ValueOf(res), h, &tb)
			txt, werr := writeTextBypass(res)
			if werr != nil {
				txt = ""
				stats["write-failed"]++
			}
			impl.Printf("%s\n", "OK " + tb.String() + " TEXT " + hx.Enc(txt))
		}
	}
	sb, _ := json.Marshal(stats)
	os.WriteFile(filepath.Join(*out, "stats.json"), sb, 0o644)
	fmt.Println(string(sb))
}

// the writer without its validation pass (the tree is compared whether or not the file is valid)
func writeTextBypass(f *ach.File) (s string, err error) {
	defer func() {
		if p := recover(); p != nil {
			err = fmt.Errorf("panic: %v", p)
		}
	}()
	var b strings.Builder
	w := ach.NewWriter(&b)
	w.BypassValidation = true
	if err := w.Write(f); err != nil {
		return "", err
	}
	return b.String(), nil
}

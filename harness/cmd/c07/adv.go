package main

// c07 adv -out DIR -n N
//
// Correspondence for the phase-7 ADV model (coq/Model/JsonFullADV.v): ADV documents only — forward advices,
// returned advices (every entry of a batch with an Addenda99; gen.Opts{ADVReturns: true}), ADV files valid only
// under the options stored on them (gen.NeedsOptsVariant over the variants that apply to ADV content), files
// whose tabulation was damaged on purpose (the hypotheses must fail, the model must still follow the code) and
// one file whose ADV file control hash exceeds ten digits.
//
//	W <val>                          the real writer against write_full (tree_full v)
//	A <hv> <kind> <verdict> <val>    C07_roundtrip_adv's prediction: where the EXPLICIT hypotheses hold of the value,
//	                                 FileFromJSONWith(Marshal(f), nil) gives back text, options, header options, offsets
//	F <hv> 0 N <val>                 FileFromJSONWith(Marshal(f), nil) against the model's from_json
//	U <hv> <fvv> <cur> <val>         (*File).UnmarshalJSON(Marshal(f)) on a receiver holding options <cur> (N: none)
//	                                 against unmarshal_file; on any error the receiver keeps its batches and holds
//	                                 its own options or, if it had none, the document's ("ERR receiver-options ...")
//
// c07 advwitness prints small deterministic ADV file values for Oblig/C07FullADVObl.v.

import (
	"encoding/json"
	"flag"
	"fmt"
	"os"
	"path/filepath"
	"reflect"
	"strings"

	"github.com/moov-io/ach"

	"verifharness/internal/gen"
	"verifharness/internal/hx"
	"verifharness/internal/rng"
)

// the needs-opts variants that apply to ADV content and leave every batch a fixed point of Batch.Create
var advVariants = []string{"bypass-destination", "special-characters", "custom-return-codes", "invalid-amounts"}

func advHasReturns(f *ach.File) bool {
	for _, b := range f.Batches {
		for _, e := range b.GetADVEntries() {
			if e.Addenda99 != nil {
				return true
			}
		}
	}
	return false
}

// advDamage breaks one of the tabulation conditions of an ADV file (what Batch.build / createFileADV recompute).
func advDamage(r *rng.R, f *ach.File) string {
	if len(f.Batches) == 0 {
		return "none"
	}
	b := f.Batches[r.Intn(len(f.Batches))]
	switch r.Intn(5) {
	case 0:
		es := b.GetADVEntries()
		es[r.Intn(len(es))].SequenceNumber += 1 + r.Intn(7)
		return "sequence-number"
	case 1:
		b.GetADVControl().ACHOperatorData = "OTHER OPERATOR"
		return "control-operator-data"
	case 2:
		b.GetHeader().BatchNumber = 0
		b.GetADVControl().BatchNumber = 0
		return "batch-number-zero"
	case 3:
		f.ADVControl.TotalDebitEntryDollarAmountInFile += 1 + r.Intn(100)
		return "file-control-total"
	default:
		b.GetADVControl().EntryAddendaCount += 1
		return "control-count"
	}
}

// bigHashADV: two batches of 60 advices whose RDFI is 99999999: the sum of the two batch hashes has eleven digits.
func bigHashADV(r *rng.R) (f *ach.File) {
	defer func() {
		if recover() != nil {
			f = nil
		}
	}()
	f = gen.FileOfSEC(r, ach.ADV, gen.Opts{MinBatches: 2, MaxBatches: 2, MaxEntries: 1})
	if f == nil {
		return nil
	}
	for _, b := range f.Batches {
		e0 := b.GetADVEntries()[0]
		for k := 0; k < 59; k++ {
			e := *e0
			b.AddADVEntry(&e)
		}
		for _, e := range b.GetADVEntries() {
			e.SetRDFI("999999992")
		}
		if err := b.Create(); err != nil {
			fmt.Fprintln(os.Stderr, "bigHashADV: batch:", err)
			return nil
		}
	}
	if err := f.Create(); err != nil {
		fmt.Fprintln(os.Stderr, "bigHashADV: file:", err)
		return nil
	}
	return f
}

func advCorr(args []string) {
	fs := flag.NewFlagSet("adv", flag.ExitOnError)
	out := fs.String("out", "", "output directory")
	n := fs.Int("n", 340, "number of generated ADV files")
	fs.Parse(args)
	r := rng.FromEnv(0xC07AD701)
	cases := hx.Create(filepath.Join(*out, "cases.txt"))
	impl := hx.Create(filepath.Join(*out, "impl.txt"))
	defer cases.Close()
	defer impl.Close()
	stats := map[string]int{}

	for i := 0; i < *n; i++ {
		var f *ach.File
		kind := "adv"
		if i == 5 {
			f = bigHashADV(r)
			kind = "adv+big-hash"
		} else {
			guard(func() {
				f = gen.FileOfSEC(r, ach.ADV, gen.Opts{ADVReturns: true, MaxBatches: 3, MaxEntries: 4})
			})
		}
		if f == nil {
			stats["gen-failed"]++
			continue
		}
		switch {
		case i%3 == 1:
			name := advVariants[(i/3)%len(advVariants)]
			if g := gen.NeedsOptsVariant(r, f, gen.OptVariantByName(name)); g != nil {
				f = g
				kind += "+needs-opts:" + name
			} else {
				applyOpts(f, randOpts(r))
				kind += "+opts"
			}
		case i%10 == 7:
			kind += "+damaged:" + advDamage(r, f)
		case i%10 == 9:
			f.SetValidation(&ach.ValidateOpts{})
			kind += "+empty-opts"
		}
		if advHasReturns(f) {
			kind += "+returns"
			stats["files-with-returned-advices"]++
		}
		if !f.IsADV() {
			stats["not-adv"]++
			continue
		}
		stats["kind:"+kind]++
		stats["adv-files"]++
		bs, err := json.Marshal(f)
		if err != nil {
			stats["marshal-failed"]++
			continue
		}
		before, e1 := writeTextBypass(f)
		val := dumpStr(reflect.ValueOf(f))
		short := len(f.Header.FileCreationDate) == 6 && len(f.Header.FileCreationTime) == 4
		if e1 == nil && short {
			cases.Printf("W %s\n", val)
			impl.Printf("%s\n", hx.Enc(before))
			stats["cases"]++
		}
		// A: the theorem's prediction; F: the model's from_json
		var res *ach.File
		pn := guard(func() { res, _ = ach.FileFromJSONWith(bs, nil) })
		hv := "1"
		if res != nil {
			guard(func() {
				if res.Header.Validate() != nil {
					hv = "0"
				}
			})
		}
		verdict := "ne"
		if res != nil && e1 == nil {
			after, e2 := writeTextBypass(res)
			switch {
			case e2 != nil || after != before:
				verdict = "ne:text"
			case !sameOpts(res.GetValidation(), f.GetValidation()):
				verdict = "ne:opts"
			case !sameOpts(headerOpts(res), f.GetValidation()):
				verdict = "ne:header-opts"
			case offsetsStr(offsetsOf(res)) != offsetsStr(offsetsOf(f)):
				verdict = "ne:offsets"
			default:
				verdict = "eq"
			}
		}
		stats["roundtrip:"+verdict]++
		cases.Printf("A %s %s %s %s\n", hv, kind, verdict, val)
		impl.Printf("%s\n", verdict)
		stats["cases"]++

		cases.Printf("F %s 0 N %s\n", hv, val)
		switch {
		case pn != nil:
			impl.Printf("PANIC\n")
		case res == nil:
			impl.Printf("ERR\n")
		default:
			if o, ok := observeFile(res); ok {
				impl.Printf("%s\n", o)
			} else {
				impl.Printf("WRITE-FAILED\n")
			}
		}
		stats["cases"]++

		// U: (*File).UnmarshalJSON on a receiver without options, and (every third file) with a set of its own
		for k := 0; k < 2; k++ {
			if k == 1 && i%3 != 0 {
				continue
			}
			var cur *ach.ValidateOpts
			if k == 1 {
				cur = randOpts(r)
				cur.SkipAll = false
			}
			recv := ach.NewFile()
			if cur != nil {
				recv.SetValidation(cur)
			}
			// the verdicts the abstract validators of the model need, under the options the receiver passes
			uhv, ufv := "1", "0"
			var direct *ach.File
			guard(func() {
				passed := cur
				if passed == nil {
					var aux struct {
						ValidateOpts *ach.ValidateOpts `json:"validateOpts"`
					}
					if json.Unmarshal(bs, &aux) == nil {
						passed = aux.ValidateOpts
					}
				}
				direct, _ = ach.FileFromJSONWith(bs, passed)
			})
			if direct != nil {
				guard(func() {
					if direct.Header.Validate() != nil {
						uhv = "0"
					}
				})
				guard(func() {
					if direct.Validate() == nil {
						ufv = "1"
					}
				})
			}
			var uerr error
			up := guard(func() { uerr = recv.UnmarshalJSON(bs) })
			cases.Printf("U %s %s %s %s\n", uhv, ufv, passedString(cur), val)
			switch {
			case up != nil:
				impl.Printf("PANIC\n")
			case uerr != nil:
				// the receiver is what it was, except that a receiver without options has taken the document's
				if len(recv.Batches) != 0 {
					impl.Printf("ERR-BUT-RECEIVER-CHANGED\n")
				} else {
					impl.Printf("ERR receiver-options %s\n", passedString(recv.GetValidation()))
				}
				stats["unmarshal:error"]++
			default:
				if o, ok := observeFile(recv); ok {
					impl.Printf("%s\n", o)
				} else {
					impl.Printf("WRITE-FAILED\n")
				}
				stats["unmarshal:ok"]++
			}
			stats["cases"]++
		}
	}
	sb, _ := json.Marshal(stats)
	os.WriteFile(filepath.Join(*out, "stats.json"), sb, 0o644)
	fmt.Println(string(sb))
}

// advWitness prints small deterministic ADV file values (val tokens).
func advWitness(args []string) {
	r := rng.New(0xC07AD702)
	emit := func(name string, f *ach.File) { fmt.Printf("%s %s\n", name, dumpStr(reflect.ValueOf(f))) }
	// one batch of two returned advices
	for i := 0; i < 400; i++ {
		var f *ach.File
		guard(func() { f = gen.FileOfSEC(r, ach.ADV, gen.Opts{ADVReturns: true, MaxBatches: 1, MaxEntries: 2}) })
		if f != nil && len(f.Batches) == 1 && len(f.Batches[0].GetADVEntries()) == 2 && advHasReturns(f) &&
			len(f.Header.FileCreationDate) == 6 && len(f.Header.FileCreationTime) == 4 {
			emit("advret", f)
			break
		}
	}
	// an ADV file valid only under the options stored on it
	for i := 0; i < 400; i++ {
		var f *ach.File
		guard(func() { f = gen.FileOfSEC(r, ach.ADV, gen.Opts{MaxBatches: 1, MaxEntries: 1}) })
		if f == nil || len(f.Header.FileCreationDate) != 6 || len(f.Header.FileCreationTime) != 4 {
			continue
		}
		if g := gen.NeedsOptsVariant(r, f, gen.OptVariantByName("bypass-destination")); g != nil {
			emit("advopts", g)
			break
		}
	}
	_ = strings.TrimSpace
}

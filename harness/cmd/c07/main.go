// Command c07 is the harness of property C07 (JSON and NACHA text are
// interchangeable representations of a file).
//
//	c07 corr   -out DIR -n N          cases.txt + impl.txt for the extracted model (enc / dec / survives)
//	c07 oracle -out DIR -n N -corpus DIR [-repo DIR]   the property evaluated on the real code
//	c07 cli    -out DIR -n N -achcli BIN              achcli -reformat json|ach against the library path
//	c07 replay FILE
package main

import (
	"bytes"
	"encoding/json"
	"flag"
	"fmt"
	"os"
	"os/exec"
	"path/filepath"
	"reflect"
	"regexp"
	"sort"
	"strconv"
	"strings"

	"github.com/moov-io/ach"

	"verifharness/internal/gen"
	"verifharness/internal/hx"
	"verifharness/internal/rng"
)

func main() {
	if len(os.Args) < 2 {
		fmt.Fprintln(os.Stderr, "usage: c07 corr|oracle|cli|replay ...")
		os.Exit(2)
	}
	switch os.Args[1] {
	case "corr":
		corr(os.Args[2:])
	case "oracle":
		oracle(os.Args[2:])
	case "cli":
		cli(os.Args[2:])
	case "replay":
		replay(os.Args[2:])
	case "post":
		post(os.Args[2:])
	case "full":
		full(os.Args[2:])
	case "witness":
		witness(os.Args[2:])
	case "adv":
		advCorr(os.Args[2:])
	case "advwitness":
		advWitness(os.Args[2:])
	default:
		fmt.Fprintln(os.Stderr, "unknown mode")
		os.Exit(2)
	}
}

// ---------------------------------------------------------------- value / JSON interchange

// dump renders a Go value as the model's val term (prefix tokens).
func dump(v reflect.Value, b *strings.Builder) {
	switch v.Kind() {
	case reflect.String:
		b.WriteString("S " + hx.Enc(v.String()) + " ")
	case reflect.Int, reflect.Int64, reflect.Int32:
		b.WriteString("I " + strconv.FormatInt(v.Int(), 10) + " ")
	case reflect.Bool:
		if v.Bool() {
			b.WriteString("B 1 ")
		} else {
			b.WriteString("B 0 ")
		}
	case reflect.Ptr, reflect.Interface:
		if v.IsNil() {
			b.WriteString("N ")
		} else {
			dump(v.Elem(), b)
		}
	case reflect.Func:
		if v.IsNil() {
			b.WriteString("N ")
		} else {
			b.WriteString("F ")
		}
	case reflect.Slice:
		fmt.Fprintf(b, "A %d ", v.Len())
		for i := 0; i < v.Len(); i++ {
			dump(v.Index(i), b)
		}
	case reflect.Struct:
		// BatchPPD{Batch} etc. are their Batch
		if v.NumField() == 1 && v.Type().Field(0).Anonymous && v.Type().Field(0).Name == "Batch" {
			dump(v.Field(0), b)
			return
		}
		fmt.Fprintf(b, "R %d ", v.NumField())
		for i := 0; i < v.NumField(); i++ {
			dump(v.Field(i), b)
		}
	default:
		b.WriteString("F ")
	}
}

func dumpStr(v reflect.Value) string {
	var b strings.Builder
	dump(v, &b)
	return strings.TrimSpace(b.String())
}

// canon renders a parsed JSON tree as the model's json term (sorted keys; the empty
// array and null are printed alike because the model identifies nil and empty slices).
func canon(x any, b *strings.Builder) {
	switch t := x.(type) {
	case nil:
		b.WriteString("z ")
	case bool:
		if t {
			b.WriteString("t ")
		} else {
			b.WriteString("f ")
		}
	case json.Number:
		if _, err := strconv.ParseInt(t.String(), 10, 64); err == nil {
			b.WriteString("n " + t.String() + " ")
		} else {
			b.WriteString("x ")
		}
	case string:
		b.WriteString("s " + hx.Enc(t) + " ")
	case []any:
		if len(t) == 0 {
			b.WriteString("z ")
			return
		}
		fmt.Fprintf(b, "a %d ", len(t))
		for _, e := range t {
			canon(e, b)
		}
	case map[string]any:
		keys := make([]string, 0, len(t))
		for k := range t {
			keys = append(keys, k)
		}
		sort.Strings(keys)
		fmt.Fprintf(b, "o %d ", len(keys))
		for _, k := range keys {
			b.WriteString(hx.Enc(k) + " ")
			canon(t[k], b)
		}
	default:
		b.WriteString("x ")
	}
}

func parseTree(bs []byte) (any, error) {
	d := json.NewDecoder(bytes.NewReader(bs))
	d.UseNumber()
	var x any
	err := d.Decode(&x)
	return x, err
}

func canonBytes(bs []byte) string {
	x, err := parseTree(bs)
	if err != nil {
		return "error"
	}
	var b strings.Builder
	canon(x, &b)
	return strings.TrimSpace(b.String())
}

// records collects (pointer to) every struct value of package ach reachable from v.
func records(v reflect.Value, out *[]reflect.Value) {
	switch v.Kind() {
	case reflect.Ptr, reflect.Interface:
		if !v.IsNil() {
			records(v.Elem(), out)
		}
	case reflect.Slice:
		for i := 0; i < v.Len(); i++ {
			records(v.Index(i), out)
		}
	case reflect.Struct:
		if v.NumField() == 1 && v.Type().Field(0).Anonymous && v.Type().Field(0).Name == "Batch" {
			// keep the concrete batch type for Marshal (it promotes Batch.MarshalJSON)
			if v.CanAddr() {
				*out = append(*out, v.Addr())
			}
			inner := v.Field(0)
			for i := 0; i < inner.NumField(); i++ {
				if inner.Type().Field(i).IsExported() {
					records(inner.Field(i), out)
				}
			}
			return
		}
		n := v.Type().Name()
		if n == "validator" || n == "converters" || n == "" {
			return
		}
		if v.CanAddr() {
			*out = append(*out, v.Addr())
		}
		for i := 0; i < v.NumField(); i++ {
			if v.Type().Field(i).IsExported() {
				records(v.Field(i), out)
			}
		}
	}
}

func modelTypeName(t reflect.Type) string {
	if t.Kind() == reflect.Ptr {
		t = t.Elem()
	}
	if t.Kind() == reflect.Struct && t.NumField() == 1 && t.Field(0).Anonymous && t.Field(0).Name == "Batch" {
		return "Batch"
	}
	return t.Name()
}

// decodeType is the Go type json.Unmarshal decodes a record of this model type into.
func decodeType(p reflect.Value) reflect.Type {
	t := p.Type().Elem()
	if modelTypeName(t) == "Batch" {
		return reflect.TypeOf(ach.Batch{})
	}
	return t
}

func mutateTree(r *rng.R, x any) any {
	m, ok := x.(map[string]any)
	if !ok || len(m) == 0 {
		return x
	}
	keys := make([]string, 0, len(m))
	for k := range m {
		keys = append(keys, k)
	}
	sort.Strings(keys)
	k := rng.Pick(r, keys)
	switch r.Intn(5) {
	case 0: // drop a key
		delete(m, k)
	case 1: // key in another case (the decoder matches case-insensitively)
		v := m[k]
		delete(m, k)
		if r.Bool() {
			m[strings.ToUpper(k)] = v
		} else {
			m[strings.ToLower(k)] = v
		}
	case 2: // null
		m[k] = nil
	default: // descend
		switch c := m[k].(type) {
		case map[string]any:
			m[k] = mutateTree(r, c)
		case []any:
			if len(c) > 0 {
				i := r.Intn(len(c))
				c[i] = mutateTree(r, c[i])
			}
		default:
			delete(m, k)
		}
	}
	return m
}

func guard(f func()) (p any) {
	defer func() { p = recover() }()
	f()
	return nil
}

func corr(args []string) {
	fs := flag.NewFlagSet("corr", flag.ExitOnError)
	out := fs.String("out", "", "output directory")
	n := fs.Int("n", 60, "generated files")
	fs.Parse(args)
	cases := hx.Create(filepath.Join(*out, "cases.txt"))
	impl := hx.Create(filepath.Join(*out, "impl.txt"))
	defer cases.Close()
	defer impl.Close()
	r := rng.FromEnv(0xC07C)
	emit := func(c, i string) {
		cases.Printf("%s\n", c)
		impl.Printf("%s\n", i)
	}
	perType := map[string]int{}
	for i := 0; i < *n; i++ {
		f := genFile(r, i)
		if f == nil {
			continue
		}
		if i%3 == 1 {
			applyOpts(f, randOpts(r))
		}
		// whole file: encoder only (the decoder of a File is FileFromJSONWith, which also tabulates and validates)
		if p := guard(func() {
			js, err := json.Marshal(f)
			if err != nil {
				emit("E File "+dumpStr(reflect.ValueOf(f)), "marshal-error")
				return
			}
			emit("E File "+dumpStr(reflect.ValueOf(f)), canonBytes(js))
		}); p != nil {
			emit("E File ?", fmt.Sprintf("panic %v", p))
		}
		var recs []reflect.Value
		records(reflect.ValueOf(f), &recs)
		for _, p := range recs {
			name := modelTypeName(p.Type())
			if name == "File" {
				continue
			}
			// bound the work per type and file, keep every type represented
			perType[name]++
			if perType[name] > 40*(i+1) {
				continue
			}
			js, err := json.Marshal(p.Interface())
			if err != nil {
				emit("E "+name+" "+dumpStr(p), "marshal-error")
				continue
			}
			emit("E "+name+" "+dumpStr(p), canonBytes(js))
			// decode what was written
			decode := func(bs []byte) string {
				x := reflect.New(decodeType(p))
				if err := json.Unmarshal(bs, x.Interface()); err != nil {
					return "error"
				}
				return dumpStr(x)
			}
			emit("D "+name+" "+canonBytes(js), decode(js))
			// does the value survive?  (the model's safeb against the real round trip)
			same := "0"
			if decode(js) == dumpStr(p) {
				same = "1"
			}
			emit("S "+name+" "+dumpStr(p), same)
			// a batch rebuilt from its exported fields only (no id / category / options): survives iff
			// its ADVControl is what Batch.UnmarshalJSON pre-populates or it is written
			if name == "Batch" {
				src := batchOf(p.Interface().(ach.Batcher)).Addr().Interface().(*ach.Batch)
				for variant := 0; variant < 2; variant++ {
					bare := &ach.Batch{Header: src.Header, Entries: src.Entries, Control: src.Control, ADVEntries: src.ADVEntries, ADVControl: src.ADVControl}
					if variant == 1 {
						if bare.ADVControl != nil {
							continue
						}
						bare.ADVControl = ach.NewADVBatchControl()
					}
					bp := reflect.ValueOf(bare)
					bjs, err := json.Marshal(bare)
					if err != nil {
						continue
					}
					emit("E Batch "+dumpStr(bp), canonBytes(bjs))
					x := &ach.Batch{}
					same := "0"
					if json.Unmarshal(bjs, x) == nil && dumpStr(reflect.ValueOf(x)) == dumpStr(bp) {
						same = "1"
					}
					emit("S Batch "+dumpStr(bp), same)
				}
			}
			// decode a damaged document: absent keys, other case, nulls
			if tree, err := parseTree(js); err == nil {
				for k := 0; k < 2; k++ {
					tree = mutateTree(r, tree)
					bs, err := json.Marshal(tree)
					if err != nil {
						break
					}
					emit("D "+name+" "+canonBytes(bs), decode(bs))
				}
			}
		}
	}
}

// ---------------------------------------------------------------- generator

var allKinds = append(append([]string{}, gen.AllSECs()...), ach.IAT, ach.ADV, "MIX")

func genFile(r *rng.R, i int) (f *ach.File) {
	defer func() {
		if p := recover(); p != nil {
			f = nil
		}
	}()
	kind := allKinds[i%len(allKinds)]
	o := gen.Opts{
		MaxBatches: r.Range(1, 3),
		MaxEntries: r.Range(1, 4),
		Returns:    r.Chance(1, 3),
		NOC:        r.Chance(1, 3),
		NonASCII:   r.Chance(1, 4),
		Addenda:    r.Chance(1, 2),
		Offset:     r.Chance(1, 4),
		// return batches balanced with an offset too (moov-io/ach issue 1010)
		OffsetReturns: true,
	}
	switch kind {
	case "MIX":
		o.IAT = true
		f = gen.File(r, o)
	default:
		f = gen.FileOfSEC(r, kind, o)
	}
	// values with leading blanks (right-justified account numbers, identification numbers): JSON carries
	// them verbatim and the writer emits them as they are
	if f != nil && r.Chance(1, 5) {
		for _, b := range f.Batches {
			for _, e := range b.GetEntries() {
				if !r.Chance(1, 2) || strings.EqualFold(strings.TrimSpace(e.IndividualName), "OFFSET") {
					continue // a generated offset entry is rebuilt from the Offset configuration by every Create
				}
				if n := len([]rune(e.DFIAccountNumber)); n > 0 && n < 17 && r.Bool() {
					e.DFIAccountNumber = strings.Repeat(" ", r.Range(1, 17-n)) + e.DFIAccountNumber
				} else if n := len([]rune(e.IdentificationNumber)); n > 0 && n < 15 && b.GetHeader().StandardEntryClassCode == ach.PPD {
					e.IdentificationNumber = strings.Repeat(" ", r.Range(1, 15-n)) + e.IdentificationNumber
				}
			}
		}
		if f.Create() != nil || f.Validate() != nil {
			return nil
		}
	}
	// the file header admits RFC 3339 timestamps for its creation date and time (any zone offset)
	if f != nil && r.Chance(1, 6) {
		ts := rng.Pick(r, []string{"2019-09-23T21:50:52-07:00", "2021-01-31T23:59:00+05:30", "2020-02-29T00:10:00Z", "2022-12-31T22:15:07-10:00", "2018-07-04T03:04:05+09:00"})
		f.Header.FileCreationDate, f.Header.FileCreationTime = ts, ts
		if f.Create() != nil || f.Validate() != nil {
			return nil
		}
	}
	return f
}

var optNames = []string{"SkipAll", "RequireABAOrigin", "BypassOriginValidation", "BypassDestinationValidation", "CustomTraceNumbers",
	"AllowZeroBatches", "AllowMissingFileHeader", "AllowMissingFileControl", "BypassCompanyIdentificationMatch", "CustomReturnCodes",
	"UnequalServiceClassCode", "AllowUnorderedBatchNumbers", "AllowInvalidCheckDigit", "UnequalAddendaCounts", "PreserveSpaces",
	"AllowInvalidAmounts", "AllowZeroEntryAmount", "AllowSpecialCharacters"}

// randOpts sets every boolean field of ValidateOpts (found by reflection, so a new flag is covered) with probability 1/4.
func randOpts(r *rng.R) *ach.ValidateOpts {
	o := &ach.ValidateOpts{}
	v := reflect.ValueOf(o).Elem()
	for i := 0; i < v.NumField(); i++ {
		if v.Field(i).Kind() == reflect.Bool && r.Chance(1, 4) {
			v.Field(i).SetBool(true)
		}
	}
	return o
}

func applyOpts(f *ach.File, o *ach.ValidateOpts) {
	f.SetValidation(o)
	for _, b := range f.Batches {
		b.SetValidation(o)
	}
	for i := range f.IATBatches {
		f.IATBatches[i].SetValidation(o)
	}
}

// ---------------------------------------------------------------- oracle

type testCase struct {
	Label   string          `json:"label,omitempty"`
	ACH     string          `json:"ach"`            // NACHA text of the file (writer output)
	JSON    string          `json:"json,omitempty"` // json.Marshal of the file the text was written from
	Opts    json.RawMessage `json:"opts,omitempty"` // ValidateOpts stored on the file
	Offsets []*ach.Offset   `json:"offsets,omitempty"`
}

type failure struct {
	Kind string   `json:"kind"`
	Key  string   `json:"key"`
	What string   `json:"what"`
	Case testCase `json:"case"`
}

func writeText(f *ach.File) (s string, err error) {
	defer func() {
		if p := recover(); p != nil {
			err = fmt.Errorf("panic: %v", p)
		}
	}()
	var b bytes.Buffer
	if err := ach.NewWriter(&b).Write(f); err != nil {
		return "", err
	}
	return b.String(), nil
}

func optsOf(f *ach.File) string {
	o := f.GetValidation()
	if o == nil {
		return "nil"
	}
	return dumpStr(reflect.ValueOf(o))
}

func batchOf(b ach.Batcher) reflect.Value {
	v := reflect.ValueOf(b)
	for v.Kind() == reflect.Ptr || v.Kind() == reflect.Interface {
		v = v.Elem()
	}
	if v.Kind() == reflect.Struct && v.NumField() == 1 && v.Type().Field(0).Name == "Batch" {
		v = v.Field(0)
	}
	return v
}

func offsetOf(b ach.Batcher) *ach.Offset {
	v := batchOf(b).FieldByName("offset")
	if !v.IsValid() || v.IsNil() {
		return nil
	}
	e := v.Elem()
	return &ach.Offset{RoutingNumber: e.FieldByName("RoutingNumber").String(), AccountNumber: e.FieldByName("AccountNumber").String(),
		AccountType: ach.OffsetAccountType(e.FieldByName("AccountType").String()), Description: e.FieldByName("Description").String()}
}

func offsetsOf(f *ach.File) []*ach.Offset {
	var out []*ach.Offset
	any := false
	for _, b := range f.Batches {
		o := offsetOf(b)
		any = any || o != nil
		out = append(out, o)
	}
	if !any {
		return nil
	}
	return out
}

func offsetsStr(os []*ach.Offset) string {
	b, _ := json.Marshal(os)
	return string(b)
}

func hasOffsetEntries(f *ach.File) bool {
	for _, b := range f.Batches {
		if offsetOf(b) == nil {
			continue
		}
		for _, e := range b.GetEntries() {
			if strings.EqualFold(e.IndividualName, "OFFSET") {
				return true
			}
		}
	}
	return false
}

var catxNameCols = regexp.MustCompile(`^text-diff:rec6:col(5[5-9]|6[0-9]|7[0-6])$`)

// hasCATXZeroAddenda: some CTX/ATX entry carries 0000 in the addenda-records part of IndividualName.
func hasCATXZeroAddenda(f *ach.File) bool {
	for _, b := range f.Batches {
		if s := b.GetHeader().StandardEntryClassCode; s != ach.CTX && s != ach.ATX {
			continue
		}
		for _, e := range b.GetEntries() {
			if n, err := strconv.Atoi(e.CATXAddendaRecordsField()); err == nil && n == 0 {
				return true
			}
		}
	}
	return false
}

// hasCATXCountWithoutIndicator: a CTX / ATX entry whose name carries an addenda count above zero while its
// AddendaRecordIndicator is 0 (valid only under UnequalAddendaCounts, and only without addenda records):
// setBatchesFromJSON then sets the indicator to the count (SetCATXAddendaRecords), column 79 of the entry changes
func hasCATXCountWithoutIndicator(f *ach.File) bool {
	for _, b := range f.Batches {
		if s := b.GetHeader().StandardEntryClassCode; s != ach.CTX && s != ach.ATX {
			continue
		}
		for _, e := range b.GetEntries() {
			if n, err := strconv.Atoi(e.CATXAddendaRecordsField()); err == nil && n > 0 && e.AddendaRecordIndicator == 0 {
				return true
			}
		}
	}
	return false
}

// diffKey names the first difference between two renderings by record type and column.
func diffKey(a, b string) (string, string) {
	la, lb := strings.Split(a, "\n"), strings.Split(b, "\n")
	for i := range la {
		if i >= len(lb) {
			return "lines", fmt.Sprintf("line %d missing after the round trip: %q", i+1, la[i])
		}
		if la[i] == lb[i] {
			continue
		}
		ra, rb := []rune(la[i]), []rune(lb[i])
		col := 0
		for col < len(ra) && col < len(rb) && ra[col] == rb[col] {
			col++
		}
		rec := string(ra[:min(1, len(ra))])
		if rec == "7" && len(ra) >= 3 {
			rec = string(ra[:3])
		}
		what := fmt.Sprintf("line %d column %d: %q became %q", i+1, col+1, la[i], lb[i])
		switch {
		case rec == "5" && col+1 == 79:
			return "json:omitempty:BatchHeader.OriginatorStatusCode", what
		case rec == "798" && col+1 >= 65 && col+1 <= 70:
			return "json:unexported:Addenda98.iatCorrectedData", what
		}
		return fmt.Sprintf("rec%s:col%d", rec, col+1), what
	}
	if len(lb) > len(la) {
		return "lines", fmt.Sprintf("%d extra line(s) after the round trip", len(lb)-len(la))
	}
	return "", ""
}

func errClass(err error) string {
	s := err.Error()
	switch {
	case strings.HasPrefix(s, "panic"):
		return "panic"
	default:
		return "error"
	}
}

type evalStats struct {
	paths map[string]int
}

// check evaluates the property on one tabulated valid file.
func check(f *ach.File, label string, st *evalStats, tmpdir string, deep bool) []failure {
	var fails []failure
	t1, err := writeText(f)
	if err != nil {
		return nil // not a valid file: outside the property
	}
	tc := testCase{Label: label, ACH: t1, Offsets: offsetsOf(f)}
	if o := f.GetValidation(); o != nil {
		tc.Opts, _ = json.Marshal(o)
	}
	catxZero := hasCATXZeroAddenda(f)
	catxOffset := hasCATXOffsetEntry(f)
	catxNoInd := hasCATXCountWithoutIndicator(f)
	fail := func(path, key, what string) {
		if catxOffset && (catxNameCols.MatchString(key) || key == "error") {
			key = "json:catx:offset-entry-repacked"
		} else if catxNoInd && key == "text-diff:rec6:col79" {
			key = "json:catx:count-sets-indicator"
		} else if catxZero && (catxNameCols.MatchString(key) || (key == "error" && strings.Contains(what, "AddendaCount"))) {
			key = "json:catx:zero-addenda-records"
		} else if !strings.HasPrefix(key, "json:") {
			key = "roundtrip:" + path + ":" + key
		}
		fails = append(fails, failure{Kind: "fail", Key: key, What: path + ": " + what, Case: tc})
	}
	var js []byte
	if p := guard(func() { js, err = json.Marshal(f) }); p != nil {
		err = fmt.Errorf("panic: %v", p)
	}
	if err != nil {
		fail("marshal", errClass(err), err.Error())
		return fails
	}
	tc.JSON = string(js)
	wantOpts, wantOffsets := optsOf(f), offsetsStr(offsetsOf(f))

	ref := t1 // the text the round trip must reproduce
	compare := func(path string, g *ach.File, err error) {
		st.paths[path]++
		if err != nil {
			fail(path, errClass(err), firstLine(err.Error()))
			return
		}
		t2, err := writeText(g)
		if err != nil {
			fail(path, "write-"+errClass(err), firstLine(err.Error()))
			return
		}
		a, b := ref, t2
		if f.Header.FileCreationDate == "" || f.Header.FileCreationTime == "" {
			a, b = maskCreation(a), maskCreation(b)
		}
		if a != b {
			k, what := diffKey(a, b)
			if !strings.HasPrefix(k, "json:") {
				k = "text-diff:" + k
			}
			fail(path, k, what)
		}
		if got := optsOf(g); got != wantOpts {
			fail(path, "opts-lost", fmt.Sprintf("validate options %s became %s", wantOpts, got))
		}
		if got := offsetsStr(offsetsOf(g)); got != wantOffsets && path != "text-json-text" {
			fail(path, "opts-offset-lost", fmt.Sprintf("batch offsets %s became %s", wantOffsets, got))
		}
	}
	call := func(fn func() (*ach.File, error)) (g *ach.File, err error) {
		defer func() {
			if p := recover(); p != nil {
				err = fmt.Errorf("panic: %v", p)
			}
		}()
		return fn()
	}

	g, err := call(func() (*ach.File, error) { return ach.FileFromJSON(js) })
	compare("fromjson", g, err)

	g, err = call(func() (*ach.File, error) {
		var h ach.File
		if err := json.Unmarshal(js, &h); err != nil {
			return nil, err
		}
		return &h, nil
	})
	compare("unmarshal", g, err)

	if deep && tmpdir != "" {
		p := filepath.Join(tmpdir, "f.json")
		if err := os.WriteFile(p, js, 0o600); err == nil {
			g, err = call(func() (*ach.File, error) { return ach.ReadJSONFile(p) })
			compare("readjsonfile", g, err)
		}
	}

	// text -> Read -> JSON -> FileFromJSON -> text (the reader gets the file's options; offsets are a
	// configuration of the in-memory batch, not part of the text)
	g, err = call(func() (*ach.File, error) {
		rd := ach.NewReader(strings.NewReader(t1))
		if o := f.GetValidation(); o != nil {
			rd.SetValidation(o)
		}
		rf, err := rd.Read()
		if err != nil {
			return nil, fmt.Errorf("reader rejects the writer's output: %v", err)
		}
		if rf.GetValidation() == nil && f.GetValidation() != nil {
			rf.SetValidation(f.GetValidation())
		}
		// what the Reader itself loses (leading blanks of trimmed fields, ...) is C01's matter: the JSON
		// of the file read must decode to a file that writes what the file read writes
		if tr, err := writeText(&rf); err == nil {
			if tr != t1 {
				st.paths["text-json-text:reader-changed-the-text"]++
			}
			ref = tr
		}
		js2, err := json.Marshal(&rf)
		if err != nil {
			return nil, err
		}
		return ach.FileFromJSON(js2)
	})
	if err != nil && strings.Contains(err.Error(), "reader rejects") {
		// a C01 matter (write/read), not a JSON one
		st.paths["text-json-text:reader-rejects"]++
	} else {
		compare("text-json-text", g, err)
	}
	return fails
}

func firstLine(s string) string {
	if i := strings.IndexByte(s, '\n'); i >= 0 {
		s = s[:i]
	}
	if len(s) > 300 {
		s = s[:300]
	}
	return s
}

// maskCreation blanks FileCreationDate/Time (columns 24-33 of the file header): the
// decoder fills them with the current time when the source left them empty.
func maskCreation(t string) string {
	rs := []rune(t)
	if len(rs) >= 33 && rs[0] == '1' {
		for i := 23; i < 33; i++ {
			rs[i] = '#'
		}
	}
	return string(rs)
}

// tabulate brings a file read from a fixture into tabulated form (every batch's
// Create, then the file's) and reports whether it is valid.
func tabulate(f *ach.File) (ok bool) {
	defer func() {
		if recover() != nil {
			ok = false
		}
	}()
	for _, b := range f.Batches {
		if err := b.Create(); err != nil {
			return false
		}
	}
	for i := range f.IATBatches {
		if err := f.IATBatches[i].Create(); err != nil {
			return false
		}
	}
	if err := f.Create(); err != nil {
		return false
	}
	if err := f.Validate(); err != nil {
		return false
	}
	for i := range f.IATBatches {
		if err := f.IATBatches[i].Validate(); err != nil {
			return false
		}
	}
	return true
}

func fromCase(tc testCase) (*ach.File, error) {
	rd := ach.NewReader(strings.NewReader(tc.ACH))
	var o *ach.ValidateOpts
	if len(tc.Opts) > 0 && string(tc.Opts) != "null" {
		o = &ach.ValidateOpts{}
		if err := json.Unmarshal(tc.Opts, o); err != nil {
			return nil, err
		}
		rd.SetValidation(o)
	}
	f, err := rd.Read()
	if err != nil {
		return nil, err
	}
	if o != nil {
		applyOpts(&f, o)
	}
	for i, off := range tc.Offsets {
		if off != nil && i < len(f.Batches) {
			f.Batches[i].WithOffset(off)
		}
	}
	return &f, nil
}

type summary struct {
	Kind        string         `json:"kind"`
	Evaluations int            `json:"evaluations"`
	Distinct    int            `json:"distinct_nontrivial"`
	Rule        string         `json:"rule"`
	Dist        map[string]int `json:"distribution"`
	Samples     []any          `json:"samples"`
}

func secsOf(f *ach.File) string {
	m := map[string]bool{}
	for _, b := range f.Batches {
		s := b.GetHeader().StandardEntryClassCode
		if b.Category() != ach.CategoryForward {
			s += "/" + b.Category()
		}
		m[s] = true
	}
	for i := range f.IATBatches {
		s := "IAT"
		if c := f.IATBatches[i].Category(); c != ach.CategoryForward {
			s += "/" + c
		}
		m[s] = true
	}
	var ks []string
	for k := range m {
		ks = append(ks, k)
	}
	sort.Strings(ks)
	return strings.Join(ks, "+")
}

func oracle(args []string) {
	fs := flag.NewFlagSet("oracle", flag.ExitOnError)
	out := fs.String("out", "", "output directory")
	n := fs.Int("n", 400, "generated files")
	corpus := fs.String("corpus", "", "corpus directory (cases run first)")
	repo := fs.String("repo", os.Getenv("VERIF_REPO"), "moov-io/ach tree (fixtures)")
	fs.Parse(args)
	res := hx.Create(filepath.Join(*out, "oracle.jsonl"))
	defer res.Close()
	tmp, _ := os.MkdirTemp("", "c07_")
	defer os.RemoveAll(tmp)
	put := func(v any) {
		b, _ := json.Marshal(v)
		res.Printf("%s\n", b)
	}
	sum := summary{Kind: "summary", Dist: map[string]int{}, Samples: []any{}, Rule: "one evaluation = one tabulated valid file taken through json.Marshal and back by ach.FileFromJSON, (*File).UnmarshalJSON, (every 5th) ReadJSONFile and text->Read->JSON->FileFromJSON, writer output compared byte for byte, stored ValidateOpts and batch offsets compared; non-trivial = the writer accepts the file (it is valid) ; distinct by NACHA text + options + offsets"}
	st := &evalStats{paths: map[string]int{}}
	seen := map[string]bool{}
	run := func(f *ach.File, label string) {
		sum.Evaluations++
		t, err := writeText(f)
		if err != nil {
			sum.Dist["invalid:"+strings.SplitN(label, ":", 2)[0]]++
			return
		}
		k := t + "\x00" + optsOf(f) + "\x00" + offsetsStr(offsetsOf(f))
		if !seen[k] {
			seen[k] = true
			sum.Distinct++
		}
		sum.Dist[secsOf(f)]++
		if f.GetValidation() != nil {
			sum.Dist["with-opts"]++
		}
		if offsetsOf(f) != nil {
			sum.Dist["with-offset"]++
		}
		for _, fl := range check(f, label, st, tmp, sum.Evaluations%5 == 0) {
			put(fl)
		}
		if len(sum.Samples) < 4 && sum.Evaluations%53 == 7 {
			sum.Samples = append(sum.Samples, map[string]any{"label": label, "kinds": secsOf(f), "bytes": len(t), "opts": f.GetValidation() != nil})
		}
	}
	// 1. corpus
	if *corpus != "" {
		paths, _ := filepath.Glob(filepath.Join(*corpus, "*.json"))
		sort.Strings(paths)
		for _, p := range paths {
			bs, err := os.ReadFile(p)
			if err != nil {
				continue
			}
			var c struct {
				Input testCase `json:"input"`
			}
			if json.Unmarshal(bs, &c) != nil {
				continue
			}
			f, err := fromCase(c.Input)
			if err != nil {
				fmt.Fprintf(os.Stderr, "corpus %s: %v\n", p, err)
				continue
			}
			if len(c.Input.Offsets) == 0 && !tabulate(f) {
				fmt.Fprintf(os.Stderr, "corpus %s: not a valid file\n", p)
				continue
			}
			run(f, "corpus:"+filepath.Base(p))
		}
	}
	// 2. fixtures of the library, as read and after tabulation
	if *repo != "" {
		achFiles, jsonFiles := gen.Fixtures(*repo)
		for _, p := range achFiles {
			fd, err := os.Open(p)
			if err != nil {
				continue
			}
			f, err := ach.NewReader(fd).Read()
			fd.Close()
			if err != nil {
				continue
			}
			if tabulate(&f) {
				run(&f, "fixture:"+filepath.Base(p))
			}
		}
		for _, p := range jsonFiles {
			var f *ach.File
			if guard(func() { f, _ = ach.ReadJSONFile(p) }) != nil || f == nil {
				continue
			}
			if tabulate(f) {
				run(f, "fixture:"+filepath.Base(p))
			}
		}
	}
	// 3. generated files of every kind, a third with random option sets
	r := rng.FromEnv(0xC070)
	for i := 0; i < *n; i++ {
		f := genFile(r, i)
		if f == nil {
			sum.Dist["generator-gave-up"]++
			continue
		}
		label := fmt.Sprintf("gen:%s:%d", allKinds[i%len(allKinds)], i)
		if (i%6 == 4 || (len(f.IATBatches) > 0 && (i/len(allKinds))%2 == 0)) && !hasOffsetEntries(f) {
			// a file that is valid only under the options stored on it
			if g := needsOpts(f, r); g != nil {
				sum.Dist["needs-opts"]++
				if len(g.IATBatches) > 0 {
					sum.Dist["needs-opts-iat"]++
				}
				run(g, label+":needs-opts")
				continue
			}
		}
		if i%11 == 5 {
			// a file whose header line depends on the header's own copy of the options (10-character origin / destination under the bypass flags)
			if g := bypassValid(r, f); g != nil {
				sum.Dist["header-bypass"]++
				run(g, label+":header-bypass")
				continue
			}
		}
		if i%3 == 2 {
			o := randOpts(r)
			applyOpts(f, o)
			if !retabulate(f) {
				// the option set changed what Create does to this file (e.g. RequireABAOrigin): use it without options
				applyOpts(f, nil)
			}
		} else if i%7 == 3 {
			applyOpts(f, &ach.ValidateOpts{}) // an explicit all-false option set must survive too
		}
		run(f, label)
	}
	for k, v := range st.paths {
		sum.Dist["path:"+k] = v
	}
	for k, v := range needsOptsVariants {
		sum.Dist["needs-opts:"+k] = v
	}
	put(sum)
}

// needsOpts turns a generated file into one that is valid only under the option set stored on
// it: gen.NeedsOpts, one variant per relaxation flag (the private copy of this command knew custom
// trace numbers and wrong check digits only).  Left out: CheckTransactionCode (a function is not
// serialised) and the variants whose damage sits in a batch control record, which FileFromJSON
// recomputes (the optsdom oracle of C07 states what they are owed).
func needsOpts(f *ach.File, r *rng.R) (out *ach.File) {
	var vs []*gen.OptVariant
	for _, v := range gen.OptVariants() {
		if !v.NoJSON && !v.Stale {
			vs = append(vs, v)
		}
	}
	for i := 0; i < 3; i++ {
		v := vs[r.Intn(len(vs))]
		if g := gen.NeedsOptsVariant(r, f, v); g != nil {
			needsOptsVariants[v.Name]++
			return g
		}
	}
	return nil
}

var needsOptsVariants = map[string]int{}

// retabulate re-creates the file under its new options without touching batches that
// carry OFFSET entries (Batch.Create on those is a C05 matter).
func retabulate(f *ach.File) (ok bool) {
	defer func() {
		if recover() != nil {
			ok = false
		}
	}()
	if err := f.Create(); err != nil {
		return false
	}
	if err := f.Validate(); err != nil {
		return false
	}
	_, err := writeText(f)
	return err == nil
}

func replay(args []string) {
	if len(args) < 1 {
		fmt.Fprintln(os.Stderr, "usage: c07 replay FILE")
		os.Exit(2)
	}
	bs, err := os.ReadFile(args[0])
	if err != nil {
		fmt.Fprintln(os.Stderr, err)
		os.Exit(2)
	}
	var c struct {
		Key   string   `json:"key"`
		Input testCase `json:"input"`
	}
	if err := json.Unmarshal(bs, &c); err != nil {
		fmt.Fprintln(os.Stderr, err)
		os.Exit(2)
	}
	// the stored JSON is informational (it was written by the tree under test at the time);
	// the case is re-evaluated from its NACHA text, options and offsets
	bad := 0
	f, err := fromCase(c.Input)
	if err != nil {
		fmt.Printf("case text does not read back: %v\n", firstLine(err.Error()))
	} else if len(c.Input.Offsets) == 0 && !hasOffsetEntries(f) && !tabulate(f) {
		fmt.Println("case is not a valid file")
	} else {
		st := &evalStats{paths: map[string]int{}}
		tmp, _ := os.MkdirTemp("", "c07_")
		defer os.RemoveAll(tmp)
		for _, fl := range check(f, "replay", st, tmp, true) {
			fmt.Printf("FAIL %s: %s\n", fl.Key, fl.What)
			bad++
		}
		if bin := os.Getenv("VERIF_ACHCLI"); bin != "" && strings.HasPrefix(c.Key, "cli:") {
			if t1, err := writeText(f); err == nil {
				for _, fl := range cliCheck(bin, tmp, f, t1, c.Input) {
					fmt.Printf("FAIL %s: %s\n", fl.Key, fl.What)
					bad++
				}
			}
		}
	}
	if bad > 0 {
		os.Exit(1)
	}
	fmt.Println("ok: property holds on this case")
}

// ---------------------------------------------------------------- achcli glue

func cli(args []string) {
	fs := flag.NewFlagSet("cli", flag.ExitOnError)
	out := fs.String("out", "", "output directory")
	n := fs.Int("n", 20, "files")
	bin := fs.String("achcli", "", "built achcli binary")
	fs.Parse(args)
	res := hx.Create(filepath.Join(*out, "cli.jsonl"))
	defer res.Close()
	put := func(v any) {
		b, _ := json.Marshal(v)
		res.Printf("%s\n", b)
	}
	tmp, _ := os.MkdirTemp("", "c07_cli_")
	defer os.RemoveAll(tmp)
	sum := summary{Kind: "summary", Dist: map[string]int{}, Samples: []any{}, Rule: "achcli -reformat json FILE.ach | achcli -reformat ach: output equals the library writer's text; for a file carrying validation options (a third of the cases; half of those valid only under them): achcli -reformat ach of its JSON equals the library writer's text and achcli -reformat json of its JSON still carries the options; distinct by text"}
	r := rng.FromEnv(0xC1C1)
	seen := map[string]bool{}
	for i := 0; i < *n; i++ {
		f := genFile(r, i*5+i/4)
		if f == nil || hasOffsetEntries(f) {
			continue
		}
		label := fmt.Sprintf("cli:%d", i)
		switch i % 3 {
		case 1:
			if g := needsOpts(f, r); g != nil {
				f = g
				sum.Dist["needs-opts"]++
				label += ":needs-opts"
			}
		case 2:
			o := randOpts(r)
			applyOpts(f, o)
			if !retabulate(f) {
				applyOpts(f, nil)
			} else {
				sum.Dist["random-opts"]++
			}
		}
		t1, err := writeText(f)
		if err != nil {
			continue
		}
		sum.Evaluations++
		if !seen[t1] {
			seen[t1] = true
			sum.Distinct++
		}
		sum.Dist[secsOf(f)]++
		tc := testCase{Label: label, ACH: t1}
		if o := f.GetValidation(); o != nil {
			tc.Opts, _ = json.Marshal(o)
		}
		if len(sum.Samples) < 3 {
			sum.Samples = append(sum.Samples, map[string]any{"label": tc.Label, "kinds": secsOf(f), "bytes": len(t1)})
		}
		for _, fl := range cliCheck(*bin, tmp, f, t1, tc) {
			put(fl)
		}
	}
	put(sum)
}

// cliCheck drives the built achcli binary: text -> JSON -> text for a file without stored
// options, and JSON -> text / JSON -> JSON for one that carries options (achcli reads them
// from the JSON document; -validate is not given).
func cliCheck(bin, tmp string, f *ach.File, t1 string, tc testCase) (fails []failure) {
	put := func(fl failure) { fails = append(fails, fl) }
	pa, pj := filepath.Join(tmp, "in.ach"), filepath.Join(tmp, "mid.json")
	ref := t1
	classify := func(t2 string) {
		if t2 != ref {
			k, what := diffKey(ref, t2)
			switch {
			case hasCATXZeroAddenda(f) && catxNameCols.MatchString("text-diff:"+k):
				k = "json:catx:zero-addenda-records"
			case hasCATXCountWithoutIndicator(f) && k == "rec6:col79":
				k = "json:catx:count-sets-indicator"
			case !strings.HasPrefix(k, "json:"):
				k = "cli:text-diff:" + k
			}
			put(failure{Kind: "fail", Key: k, What: what, Case: tc})
		}
	}
	achErrKey := func() string {
		if hasCATXZeroAddenda(f) {
			return "json:catx:zero-addenda-records" // the return variant: the re-packed count makes the batch invalid
		}
		return "cli:reformat-ach:error"
	}
	if f.GetValidation() == nil {
		// achcli starts from the text: what the Reader itself loses (leading blanks of trimmed fields) is
		// C01's matter, the reference is the text the library writes for the file it reads
		if rf, err := ach.NewReader(strings.NewReader(t1)).Read(); err == nil {
			if tr, err := writeText(&rf); err == nil {
				ref = tr
			}
		}
		os.WriteFile(pa, []byte(t1), 0o600)
		js, err := exec.Command(bin, "-reformat", "json", pa).Output()
		if err != nil {
			put(failure{Kind: "fail", Key: "cli:reformat-json:error", What: firstLine(err.Error() + " " + string(js)), Case: tc})
			return
		}
		os.WriteFile(pj, js, 0o600)
		t2, err := exec.Command(bin, "-reformat", "ach", pj).Output()
		if err != nil {
			put(failure{Kind: "fail", Key: achErrKey(), What: firstLine(err.Error() + " " + string(t2)), Case: tc})
			return
		}
		classify(string(t2))
		return
	}
	// a file with stored options: its JSON (library encoder) is what achcli is given
	js, err := json.Marshal(f)
	if err != nil {
		return
	}
	os.WriteFile(pj, js, 0o600)
	t2, err := exec.Command(bin, "-reformat", "ach", pj).Output()
	if err != nil {
		k := achErrKey()
		if k == "cli:reformat-ach:error" {
			k = "cli:opts:reformat-ach:error"
		}
		put(failure{Kind: "fail", Key: k, What: "achcli -reformat ach refuses the JSON of a file valid under its stored options: " + firstLine(err.Error()+" "+string(t2)), Case: tc})
	} else {
		classify(string(t2))
	}
	js2, err := exec.Command(bin, "-reformat", "json", pj).Output()
	if err != nil {
		k := "cli:opts:reformat-json:error"
		if hasCATXZeroAddenda(f) {
			k = "json:catx:zero-addenda-records" // the known CTX/ATX re-packing finding, reached through the CLI
		}
		put(failure{Kind: "fail", Key: k, What: "achcli -reformat json refuses the JSON of a file valid under its stored options: " + firstLine(err.Error()+" "+string(js2)), Case: tc})
		return
	}
	var doc struct {
		ValidateOpts *ach.ValidateOpts `json:"validateOpts"`
	}
	if err := json.Unmarshal(js2, &doc); err != nil {
		put(failure{Kind: "fail", Key: "cli:opts:reformat-json:not-json", What: firstLine(err.Error()), Case: tc})
		return
	}
	want, _ := json.Marshal(f.GetValidation())
	got, _ := json.Marshal(doc.ValidateOpts)
	if string(want) != string(got) {
		put(failure{Kind: "fail", Key: "cli:opts:lost", What: fmt.Sprintf("validateOpts after achcli -reformat json: %s, stored on the file: %s", got, want), Case: tc})
	}
	return
}

// setIATAddendaSeq points the mandatory IAT addenda of an entry at a new entry sequence number.
func setIATAddendaSeq(e *ach.IATEntryDetail, seq int) {
	if e.Addenda10 != nil {
		e.Addenda10.EntryDetailSequenceNumber = seq
	}
	if e.Addenda11 != nil {
		e.Addenda11.EntryDetailSequenceNumber = seq
	}
	if e.Addenda12 != nil {
		e.Addenda12.EntryDetailSequenceNumber = seq
	}
	if e.Addenda13 != nil {
		e.Addenda13.EntryDetailSequenceNumber = seq
	}
	if e.Addenda14 != nil {
		e.Addenda14.EntryDetailSequenceNumber = seq
	}
	if e.Addenda15 != nil {
		e.Addenda15.EntryDetailSequenceNumber = seq
	}
	if e.Addenda16 != nil {
		e.Addenda16.EntryDetailSequenceNumber = seq
	}
	for _, a := range e.Addenda17 {
		a.EntryDetailSequenceNumber = seq
	}
	for _, a := range e.Addenda18 {
		a.EntryDetailSequenceNumber = seq
	}
}

// hasCATXOffsetEntry: a CTX/ATX batch holding an entry named OFFSET (its IndividualName carries no addenda count)
func hasCATXOffsetEntry(f *ach.File) bool {
	for _, b := range f.Batches {
		if s := b.GetHeader().StandardEntryClassCode; s != ach.CTX && s != ach.ATX {
			continue
		}
		for _, e := range b.GetEntries() {
			if strings.EqualFold(strings.TrimSpace(e.IndividualName), "OFFSET") {
				return true
			}
		}
	}
	return false
}

package main

// c07 full -out DIR -n N [-achcli BIN]
//
// Correspondence for the phase-4 model (coq/Model/JsonFull.v, Gen/JsonDefaults.v):
//
//	W <val>                      the real writer on the file value (incl. ADV files and 10-character origins /
//	                             destinations under the bypass options) against write_full (tree_full v)
//	V <val>                      the same text against the generic view (tree_full_view)
//	T <hv> <verdict> <val>       C07_roundtrip's prediction: where its hypotheses hold of the file value,
//	                             FileFromJSONWith(Marshal(f), nil) writes the text of f, keeps the options of the file,
//	                             stores them on the header too and keeps every batch offset ("eq")
//	F <hv> <skip> <passed> <val> FileFromJSONWith(Marshal(f), <the value achcli would pass>): text, file options,
//	                             header options, offsets, against the model's from_json
//	C <skip> <vfile> <doc>       the achcli binary: -reformat json of a document carrying <doc> options, run with
//	                             -skip-validation / -validate <vfile>: the options of the output
//	K <struct>                   the value of New<struct>() against the regenerated constructor value
//
// Options are written as N (nil) or the boolean fields of ValidateOpts in declaration order as 0/1.

import (
	"encoding/json"
	"flag"
	"fmt"
	"os"
	"os/exec"
	"path/filepath"
	"reflect"
	"strconv"
	"strings"
	"unsafe"

	"github.com/moov-io/ach"

	"verifharness/internal/gen"
	"verifharness/internal/hx"
	"verifharness/internal/recs"
	"verifharness/internal/rng"
)

// headerOpts reads the unexported FileHeader.validateOpts.
func headerOpts(f *ach.File) *ach.ValidateOpts {
	v := reflect.ValueOf(&f.Header).Elem().FieldByName("validateOpts")
	if !v.IsValid() || v.IsNil() {
		return nil
	}
	return (*ach.ValidateOpts)(unsafe.Pointer(v.Pointer()))
}

func offsetStr(o *ach.Offset) string {
	if o == nil {
		return "N"
	}
	return "RoutingNumber=" + hx.Enc(o.RoutingNumber) + ",AccountNumber=" + hx.Enc(o.AccountNumber) + ",AccountType=" + hx.Enc(string(o.AccountType)) + ",Description=" + hx.Enc(o.Description)
}

func observeFile(f *ach.File) (string, bool) {
	txt, err := writeTextBypass(f)
	if err != nil {
		return "", false
	}
	var offs []string
	for _, b := range f.Batches {
		offs = append(offs, offsetStr(offsetOf(b)))
	}
	return "TEXT " + hx.Enc(txt) + " OPTS " + passedString(f.GetValidation()) + " HDR " + passedString(headerOpts(f)) + " OFFS " + strings.Join(offs, "/"), true
}

func sameOpts(a, b *ach.ValidateOpts) bool { return passedString(a) == passedString(b) }

func digits(r *rng.R, n int) string {
	var b strings.Builder
	for i := 0; i < n; i++ {
		b.WriteByte(byte('0' + r.Intn(10)))
	}
	return b.String()
}

// bypassFile stores bypass options on the file and gives the header 10-character origin / destination values,
// which the header line writes verbatim only under the header's own copy of the options.
func bypassFile(r *rng.R, f *ach.File) {
	o := &ach.ValidateOpts{}
	switch r.Intn(4) {
	case 0:
		o.BypassOriginValidation = true
	case 1:
		o.BypassDestinationValidation = true
	default:
		o.BypassOriginValidation, o.BypassDestinationValidation = true, true
	}
	if r.Chance(1, 4) {
		o.CustomTraceNumbers = true
	}
	gen.ApplyOpts(f, o)
	if r.Chance(4, 5) {
		f.Header.ImmediateOrigin = "1" + digits(r, 9)
	}
	if r.Chance(3, 5) {
		f.Header.ImmediateDestination = rng.Pick(r, []string{"0", "1", "9"}) + digits(r, 9)
	}
}

// bypassValid returns a clone of f with the bypass options stored on it and 10-character origin / destination values
// exactly where the matching flag is set (the file stays valid under its options); nil if it does not tabulate.
func bypassValid(r *rng.R, f *ach.File) (out *ach.File) {
	defer func() {
		if recover() != nil {
			out = nil
		}
	}()
	if f.IsADV() {
		return nil
	}
	g := gen.Clone(f)
	o := &ach.ValidateOpts{}
	switch r.Intn(3) {
	case 0:
		o.BypassOriginValidation = true
	case 1:
		o.BypassDestinationValidation = true
	default:
		o.BypassOriginValidation, o.BypassDestinationValidation = true, true
	}
	gen.ApplyOpts(g, o)
	if o.BypassOriginValidation {
		g.Header.ImmediateOrigin = "1" + digits(r, 9)
	}
	if o.BypassDestinationValidation {
		g.Header.ImmediateDestination = "9" + digits(r, 9)
	}
	if !retabulate(g) {
		return nil
	}
	return g
}

func flagsString(o *ach.ValidateOpts) string { return passedString(o) }

func optsFromFlags(s string) *ach.ValidateOpts {
	if s == "N" {
		return nil
	}
	o := &ach.ValidateOpts{}
	v := reflect.ValueOf(o).Elem()
	k := 0
	for i := 0; i < v.NumField(); i++ {
		if v.Field(i).Kind() == reflect.Bool {
			if k < len(s) && s[k] == '1' {
				v.Field(i).SetBool(true)
			}
			k++
		}
	}
	return o
}

func full(args []string) {
	fs := flag.NewFlagSet("full", flag.ExitOnError)
	out := fs.String("out", "", "output directory")
	n := fs.Int("n", 300, "number of generated files")
	achcli := fs.String("achcli", "", "achcli binary (C cases)")
	ncli := fs.Int("ncli", 36, "number of achcli runs")
	fs.Parse(args)
	r := rng.FromEnv(0xC07F0114)
	cases := hx.Create(filepath.Join(*out, "cases.txt"))
	impl := hx.Create(filepath.Join(*out, "impl.txt"))
	defer cases.Close()
	defer impl.Close()
	stats := map[string]int{}

	// ---- K: constructors
	for _, name := range append(append([]string{}, recs.Names...), "File") {
		var v reflect.Value
		if name == "File" {
			v = reflect.ValueOf(ach.NewFile())
		} else if rec := recs.New(name); rec != nil {
			v = reflect.ValueOf(rec)
		} else {
			continue
		}
		cases.Printf("K %s\n", name)
		impl.Printf("%s\n", dumpStr(v))
		stats["ctor"]++
	}

	// ---- W / V / T / F: generated files
	var docs []*ach.File
	for i := 0; i < *n; i++ {
		var f *ach.File
		kind := "gen"
		switch {
		case i%7 == 3:
			guard(func() { f = gen.ADVFile(r) })
			kind = "adv"
		default:
			f = genFile(r, i)
		}
		if f == nil {
			stats["gen-failed"]++
			continue
		}
		switch {
		case i%5 == 1:
			bypassFile(r, f)
			kind += "+bypass"
		case i%5 == 2:
			applyOpts(f, randOpts(r))
			kind += "+opts"
		case i%11 == 4:
			// options on the file only: the header copy is what File.SetValidation makes it
			f.SetValidation(&ach.ValidateOpts{})
		}
		if i%13 == 6 {
			// a file whose header carries options the file does not (FileHeader.SetValidation alone): outside the theorem's domain
			f.Header.SetValidation(&ach.ValidateOpts{BypassOriginValidation: true})
			f.Header.ImmediateOrigin = "1" + digits(r, 9)
			kind += "+header-only-opts"
		}
		stats["kind:"+kind]++
		bs, err := json.Marshal(f)
		if err != nil {
			stats["marshal-failed"]++
			continue
		}
		before, e1 := writeTextBypass(f)
		val := dumpStr(reflect.ValueOf(f))
		short := len(f.Header.FileCreationDate) == 6 && len(f.Header.FileCreationTime) == 4
		if e1 == nil && short {
			cases.Printf("W %s\n", val)
			impl.Printf("%s\n", hx.Enc(before))
			stats["writer-on-full-tree"]++
			if i%4 == 0 {
				cases.Printf("V %s\n", val)
				impl.Printf("%s\n", hx.Enc(before))
				stats["writer-on-generic-view"]++
			}
		}
		// T: the theorem's prediction
		{
			verdict, hv := "ne", "1"
			var res *ach.File
			guard(func() { res, _ = ach.FileFromJSONWith(bs, nil) })
			if res != nil && e1 == nil {
				guard(func() {
					if res.Header.Validate() != nil {
						hv = "0"
					}
				})
				after, e2 := writeTextBypass(res)
				switch {
				case e2 != nil || after != before:
					verdict = "ne:text"
				case !sameOpts(res.GetValidation(), f.GetValidation()):
					verdict = "ne:opts"
				case !sameOpts(headerOpts(res), f.GetValidation()):
					verdict = "ne:header-opts"
				case offsetsStr(offsetsOf(res)) != offsetsStr(offsetsOf(f)):
					verdict = "ne:offsets"
				default:
					verdict = "eq"
				}
			}
			stats["roundtrip:"+verdict]++
			cases.Printf("T %s %s %s\n", hv, verdict, val)
			impl.Printf("%s\n", verdict)
		}
		// F: the model's from_json against the real function under the three kinds of values achcli passes
		for k := 0; k < 3; k++ {
			var passed *ach.ValidateOpts
			skip := "0"
			switch k {
			case 1:
				passed = &ach.ValidateOpts{SkipAll: true}
				skip = "1"
			case 2:
				passed = randOpts(r)
				passed.SkipAll = false
			}
			if k > 0 && i%3 != 0 {
				continue
			}
			var res *ach.File
			pn := guard(func() { res, _ = ach.FileFromJSONWith(bs, passed) })
			hv := "1"
			if res != nil {
				guard(func() {
					if res.Header.Validate() != nil {
						hv = "0"
					}
				})
			}
			ps := "N"
			if k == 2 {
				ps = passedString(passed)
			}
			cases.Printf("F %s %s %s %s\n", hv, skip, ps, val)
			switch {
			case pn != nil:
				impl.Printf("PANIC\n")
			case res == nil:
				impl.Printf("ERR\n")
			default:
				if o, ok := observeFile(res); ok {
					impl.Printf("%s\n", o)
				} else {
					impl.Printf("WRITE-FAILED\n")
				}
			}
			stats["from-json:"+strconv.Itoa(k)]++
		}
		if len(docs) < *ncli && !f.IsADV() && short && (i%5 == 1 || i%5 == 2 || len(docs) < *ncli/3) {
			docs = append(docs, f)
		}
	}

	// ---- C: the achcli binary
	if *achcli != "" {
		tmp, err := os.MkdirTemp("", "c07full")
		if err == nil {
			defer os.RemoveAll(tmp)
			for i, f := range docs {
				bs, err := json.Marshal(f)
				if err != nil {
					continue
				}
				doc := filepath.Join(tmp, fmt.Sprintf("d%d.json", i))
				if os.WriteFile(doc, bs, 0o644) != nil {
					continue
				}
				skip, vfile := "0", "N"
				argv := []string{}
				var libPassed *ach.ValidateOpts
				switch i % 3 {
				case 1:
					skip = "1"
					argv = append(argv, "-skip-validation")
					libPassed = &ach.ValidateOpts{SkipAll: true}
				case 2:
					vo := randOpts(r)
					vo.SkipAll = true // so that any stored file reads whatever the set is
					libPassed = vo
					vfile = flagsString(vo)
					vb, _ := json.Marshal(vo)
					vp := filepath.Join(tmp, fmt.Sprintf("v%d.json", i))
					os.WriteFile(vp, vb, 0o644)
					argv = append(argv, "-validate", vp)
				}
				argv = append(argv, "-reformat", "json", doc)
				// the case is about which options arrive, not about validation: only documents the library accepts under that value
				var lerr error
				guard(func() { _, lerr = ach.FileFromJSONWith(bs, libPassed) })
				if lerr != nil {
					stats["achcli-skipped:library-rejects-document"]++
					continue
				}
				outb, err := exec.Command(*achcli, argv...).Output()
				got := "ERR"
				if err != nil {
					msg := strings.TrimSpace(string(outb))
					if len(msg) > 120 {
						msg = msg[:120]
					}
					stats["achcli-error:"+msg]++
				}
				if err == nil {
					var aux struct {
						ValidateOpts *ach.ValidateOpts `json:"validateOpts"`
					}
					if json.Unmarshal(outb, &aux) == nil {
						got = flagsString(aux.ValidateOpts)
					}
				}
				cases.Printf("C %s %s %s\n", skip, vfile, flagsString(f.GetValidation()))
				impl.Printf("%s\n", got)
				stats["achcli:"+skip+":"+map[bool]string{true: "validate", false: "-"}[vfile != "N"]]++
			}
		}
	}
	sb, _ := json.Marshal(stats)
	os.WriteFile(filepath.Join(*out, "stats.json"), sb, 0o644)
	fmt.Println(string(sb))
}

// witness prints small deterministic file values (val tokens) for the non-vacuity / refuted examples of Oblig/C07FullObl.v.
func witness(args []string) {
	r := rng.New(0xC07F0115)
	small := gen.Opts{MaxBatches: 1, MaxEntries: 1}
	emit := func(name string, f *ach.File) {
		if f != nil {
			fmt.Printf("%s %s\n", name, dumpStr(reflect.ValueOf(f)))
		}
	}
	// an ADV file
	for i := 0; i < 50; i++ {
		var f *ach.File
		guard(func() { f = gen.ADVFile(r) })
		if f != nil && len(f.Batches) == 2 && len(f.Batches[0].GetADVEntries()) == 1 && len(f.Batches[1].GetADVEntries()) == 1 {
			emit("adv", f)
			break
		}
	}
	// a file valid only with its header's copy of the options: 10-character origin under BypassOriginValidation
	for i := 0; i < 50; i++ {
		var f *ach.File
		guard(func() { f = gen.FileOfSEC(r, ach.PPD, small) })
		if f == nil || len(f.Header.FileCreationDate) != 6 || len(f.Batches) != 1 {
			continue
		}
		g := gen.Clone(f)
		gen.ApplyOpts(f, &ach.ValidateOpts{BypassOriginValidation: true})
		f.Header.ImmediateOrigin = "1234567890"
		emit("bypass", f)
		// the same header value with the options on the header only
		g.Header.SetValidation(&ach.ValidateOpts{BypassOriginValidation: true})
		g.Header.ImmediateOrigin = "1234567890"
		emit("headeronly", g)
		break
	}
	// a CTX batch balanced with an offset: the OFFSET entry's name carries no addenda count
	for i := 0; i < 400; i++ {
		var f *ach.File
		guard(func() {
			f = gen.FileOfSEC(r, ach.CTX, gen.Opts{MaxBatches: 1, MaxEntries: 1, Offset: true, Addenda: true})
		})
		if f != nil && len(f.Batches) == 1 && hasCATXOffsetEntry(f) && !hasCATXZeroAddenda(f) && len(f.Header.FileCreationDate) == 6 {
			emit("catxoffset", f)
			break
		}
	}
}

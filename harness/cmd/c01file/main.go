// Command c01file: whole-file correspondence between the typed reader model
// (coq/Codec/Dispatch.v, extracted) and ach.Reader.
//
//	files   -out DIR -n N   generated valid files of every SEC code (and IAT, ADV, returns, NOC, …):
//	                        the text ach.NewWriter produces is read by ach.NewReader (default
//	                        validation) and every record of the result is dumped field by field;
//	                        the model reads the same text.  Then structural variants of those
//	                        texts (addenda retyped / recoded / swapped / duplicated / dropped,
//	                        stray and repeated records), read with ValidateOpts.SkipAll — the
//	                        reader the model describes when the records themselves are not valid.
//	coqfile -sec SEC        development aid: prints a generated file as a Coq term (fileR).
//
// Interchange (one line per case):
//
//	D <Kind> <fields>       what a record of this type holds before Parse (constructor defaults)
//	T <hex text>            a text to read (all validation skipped when the line starts with TS)
//
// observation: OK <tree> | ERR
package main

import (
	"flag"
	"fmt"
	"os"
	"path/filepath"
	"reflect"
	"sort"
	"strconv"
	"strings"

	"github.com/moov-io/ach"

	"verifharness/internal/gen"
	"verifharness/internal/hx"
	"verifharness/internal/recs"
	"verifharness/internal/rng"
)

func main() {
	if len(os.Args) < 2 {
		fmt.Fprintln(os.Stderr, "usage: c01file files|coqfile|replay ...")
		os.Exit(2)
	}
	switch os.Args[1] {
	case "files":
		files(os.Args[2:])
	case "coqfile":
		coqfile(os.Args[2:])
	case "replay":
		replay(os.Args[2:])
	default:
		fmt.Fprintln(os.Stderr, "unknown mode")
		os.Exit(2)
	}
}

// fields the reader sets outside Parse (line numbers, the entry category) or that no codec touches
var skipField = map[string]bool{"ID": true, "LineNumber": true, "Category": true}

// dumpRec renders the string/int fields as name=s:<hex> / name=i:<n>, sorted by name.
func dumpRec(v any) string {
	rv := reflect.ValueOf(v)
	for rv.Kind() == reflect.Ptr {
		rv = rv.Elem()
	}
	t := rv.Type()
	var parts []string
	for i := 0; i < t.NumField(); i++ {
		f := t.Field(i)
		if skipField[f.Name] {
			continue
		}
		switch f.Type.Kind() {
		case reflect.String:
			parts = append(parts, f.Name+"=s:"+hx.Enc(rv.Field(i).String()))
		case reflect.Int:
			parts = append(parts, f.Name+"=i:"+strconv.FormatInt(rv.Field(i).Int(), 10))
		}
	}
	sort.Strings(parts)
	return strings.Join(parts, ",")
}

func kindOf(v any) string {
	rv := reflect.ValueOf(v)
	for rv.Kind() == reflect.Ptr {
		rv = rv.Elem()
	}
	return rv.Type().Name()
}

func isNil(v any) bool {
	rv := reflect.ValueOf(v)
	return !rv.IsValid() || (rv.Kind() == reflect.Ptr && rv.IsNil())
}

type treeW struct{ b strings.Builder }

func (w *treeW) rec(role string, v any) {
	if isNil(v) {
		return
	}
	fmt.Fprintf(&w.b, " %s/%s[%s]", role, kindOf(v), dumpRec(v))
}

// dumpFile renders the file as the tree the model builds: per batch the entries
// of the batch's own sort (ADV entries for an ADV header), addenda in slot order.
func dumpFile(f *ach.File) string {
	w := &treeW{}
	w.rec("H", &f.Header)
	for _, b := range f.Batches {
		w.b.WriteString(" B{")
		w.rec("h", b.GetHeader())
		adv := b.GetHeader() != nil && b.GetHeader().StandardEntryClassCode == ach.ADV
		if adv {
			for _, e := range b.GetADVEntries() {
				w.b.WriteString(" E{")
				w.rec("e", e)
				w.rec("a", e.Addenda99)
				w.b.WriteString(" }")
			}
			w.rec("c", b.GetADVControl())
		} else {
			for _, e := range b.GetEntries() {
				w.b.WriteString(" E{")
				w.rec("e", e)
				w.rec("a", e.Addenda02)
				for _, a := range e.Addenda05 {
					w.rec("a", a)
				}
				w.rec("a", e.Addenda98)
				w.rec("a", e.Addenda98Refused)
				w.rec("a", e.Addenda99)
				w.rec("a", e.Addenda99Dishonored)
				w.rec("a", e.Addenda99Contested)
				w.b.WriteString(" }")
			}
			w.rec("c", b.GetControl())
		}
		w.b.WriteString(" }")
	}
	for _, b := range f.IATBatches {
		w.b.WriteString(" I{")
		w.rec("h", b.GetHeader())
		for _, e := range b.GetEntries() {
			w.b.WriteString(" E{")
			w.rec("e", e)
			w.rec("a", e.Addenda10)
			w.rec("a", e.Addenda11)
			w.rec("a", e.Addenda12)
			w.rec("a", e.Addenda13)
			w.rec("a", e.Addenda14)
			w.rec("a", e.Addenda15)
			w.rec("a", e.Addenda16)
			for _, a := range e.Addenda17 {
				w.rec("a", a)
			}
			for _, a := range e.Addenda18 {
				w.rec("a", a)
			}
			w.rec("a", e.Addenda98)
			w.rec("a", e.Addenda99)
			w.b.WriteString(" }")
		}
		w.rec("c", b.GetControl())
		w.b.WriteString(" }")
	}
	if f.IsADV() {
		w.rec("F", &f.ADVControl)
	} else {
		w.rec("F", &f.Control)
	}
	return strings.TrimSpace(w.b.String())
}

// observe reads the text with the real reader.
func observe(text string, skipAll bool) (out string) {
	defer func() {
		if e := recover(); e != nil {
			out = "PANIC"
		}
	}()
	r := ach.NewReaderWithContentType(strings.NewReader(text), "text/plain; charset=utf-8")
	if skipAll {
		r.SetValidation(&ach.ValidateOpts{SkipAll: true})
	}
	f, err := r.Read()
	if err != nil {
		return "ERR"
	}
	return "OK " + dumpFile(&f)
}

// defaults: what each record type holds before Parse runs in the reader
// (File.Header / File.Control / File.ADVControl are zero values, everything else comes from NewX()).
func defaults() []string {
	var out []string
	for _, name := range recs.Names {
		var v any
		switch name {
		case "FileHeader":
			v = &ach.FileHeader{}
		case "FileControl":
			v = &ach.FileControl{}
		case "ADVFileControl":
			v = &ach.ADVFileControl{}
		default:
			v = recs.New(name)
		}
		out = append(out, fmt.Sprintf("D %s %s", name, dumpRec(v)))
	}
	return out
}

type optSet struct {
	name string
	o    gen.Opts
}

func optSets() []optSet {
	return []optSet{
		{"plain", gen.Opts{}},
		{"addenda", gen.Opts{Addenda: true, MaxEntries: 3}},
		{"returns", gen.Opts{Returns: true, Addenda: true}},
		{"noc", gen.Opts{NOC: true}},
		{"iat", gen.Opts{IAT: true, Returns: true, NOC: true, Addenda: true, MaxBatches: 4}},
		{"nonascii", gen.Opts{NonASCII: true, Addenda: true, IAT: true}},
		{"offset", gen.Opts{Offset: true, Addenda: true}},
	}
}

func splitLines(text string) []string {
	text = strings.ReplaceAll(text, "\r\n", "\n")
	ls := strings.Split(text, "\n")
	for len(ls) > 0 && ls[len(ls)-1] == "" {
		ls = ls[:len(ls)-1]
	}
	return ls
}

func indicesOf(ls []string, first byte) []int {
	var out []int
	for i, l := range ls {
		if len(l) > 0 && l[0] == first {
			out = append(out, i)
		}
	}
	return out
}

func setCols(l string, lo int, s string) string {
	if len(l) < lo+len(s) {
		return l
	}
	return l[:lo] + s + l[lo+len(s):]
}

var typeCodes = []string{"02", "05", "10", "11", "12", "13", "14", "15", "16", "17", "18", "98", "99", "03", "00", "5 ", "AB"}
var codes = []string{"C01", "C61", "c61", "C69", "C70", "R01", "R61", "R62", "R67", "R70", "R71", "R76", "R77", "r61", "   "}

// variant applies one structural change that keeps every batch closed by its control
// (the model does not cover batches without control, which Go accumulates anyway).
func variant(r *rng.R, ls []string) (out []string, what string) {
	out = append([]string(nil), ls...)
	adds := indicesOf(out, '7')
	ents := indicesOf(out, '6')
	switch k := r.Intn(15); {
	case k == 0 && len(adds) > 0: // retype an addenda
		i := rng.Pick(r, adds)
		out[i] = setCols(out[i], 1, rng.Pick(r, typeCodes))
		return out, "retype"
	case k <= 2 && len(adds) > 0: // recode an addenda (columns 3..6 choose 98/98Refused, 99/Dishonored/Contested)
		i := rng.Pick(r, adds)
		out[i] = setCols(out[i], 3, rng.Pick(r, codes))
		if r.Bool() {
			out[i] = setCols(out[i], 1, rng.Pick(r, []string{"98", "99"}))
		}
		return out, "recode"
	case k == 3 && len(adds) > 0: // duplicate an addenda (single slots are overwritten, slices appended)
		i := rng.Pick(r, adds)
		out = append(out[:i+1], append([]string{ls[i]}, ls[i+1:]...)...)
		return out, "dup-addenda"
	case k == 4 && len(adds) > 1: // swap two addenda lines of the file
		i, j := rng.Pick(r, adds), rng.Pick(r, adds)
		out[i], out[j] = out[j], out[i]
		return out, "swap-addenda"
	case k == 5 && len(adds) > 0: // drop an addenda
		i := rng.Pick(r, adds)
		out = append(out[:i], ls[i+1:]...)
		return out, "drop-addenda"
	case k == 6 && len(ents) > 0: // clear or set the addenda record indicator of an entry (column 78)
		i := rng.Pick(r, ents)
		out[i] = setCols(out[i], 78, rng.Pick(r, []string{"0", "1", " ", "2"}))
		return out, "indicator"
	case k == 7 && len(ents) > 0: // a stray addenda right after an entry
		i := rng.Pick(r, ents)
		stray := "7" + rng.Pick(r, typeCodes) + strings.Repeat("X", 80) + "00000000001"
		out = append(out[:i+1], append([]string{stray}, ls[i+1:]...)...)
		return out, "stray-addenda"
	case k == 8: // repeat the file header or the file control
		i := 0
		if nine := indicesOf(out, '9'); r.Bool() && len(nine) > 0 {
			i = nine[0]
		}
		out = append(out[:i+1], append([]string{ls[i]}, ls[i+1:]...)...)
		return out, "repeat-file-record"
	case k == 9 && len(ents) > 0: // an addenda directly after the batch header (no entry yet) / an entry moved
		hs := indicesOf(out, '5')
		i := rng.Pick(r, hs)
		stray := "705" + strings.Repeat("Y", 80) + "00010000001"
		out = append(out[:i+1], append([]string{stray}, ls[i+1:]...)...)
		return out, "addenda-before-entry"
	case k == 10: // unknown record type
		i := r.Intn(len(out))
		out[i] = setCols(out[i], 0, rng.Pick(r, []string{"2", "0", "A", " "}))
		return out, "unknown-type"
	case k == 11: // batch header: SEC columns 50..53 (IAT detection, ADV, NewBatch's SEC list)
		hs := indicesOf(out, '5')
		if len(hs) == 0 {
			return out, "none"
		}
		i := rng.Pick(r, hs)
		out[i] = setCols(out[i], 50, rng.Pick(r, []string{"IAT", "ADV", "PPD", "XXX", "iat", "COR", "CCD"}))
		return out, "sec-columns"
	case k == 12: // batch header: company name columns 4..20 (IATCOR detection)
		hs := indicesOf(out, '5')
		if len(hs) == 0 {
			return out, "none"
		}
		i := rng.Pick(r, hs)
		out[i] = setCols(out[i], 4, rng.Pick(r, []string{"IATCOR          ", "  IATCOR        ", "IATCORX         ", "iatcor          "}))
		return out, "company-name"
	case k == 13: // swap two whole batches (the reader sorts them into Batches / IATBatches)
		hs, cs := indicesOf(out, '5'), indicesOf(out, '8')
		if len(hs) < 2 || len(hs) != len(cs) {
			return out, "none"
		}
		a := r.Intn(len(hs) - 1)
		b := a + 1 + r.Intn(len(hs)-a-1)
		var res []string
		res = append(res, ls[:hs[a]]...)
		res = append(res, ls[hs[b]:cs[b]+1]...)
		res = append(res, ls[cs[a]+1:hs[b]]...)
		res = append(res, ls[hs[a]:cs[a]+1]...)
		res = append(res, ls[cs[b]+1:]...)
		return res, "swap-batches"
	default: // more or fewer filler records
		n := r.Range(0, 12)
		for len(out) > 0 && strings.HasPrefix(out[len(out)-1], "99") {
			out = out[:len(out)-1]
		}
		for i := 0; i < n; i++ {
			out = append(out, strings.Repeat("9", 94))
		}
		return out, "fillers"
	}
}

func files(args []string) {
	fs := flag.NewFlagSet("files", flag.ExitOnError)
	out := fs.String("out", "", "output directory")
	n := fs.Int("n", 4, "generated files per SEC code and option set")
	nvar := fs.Int("nvar", 3, "structural variants per generated file")
	fs.Parse(args)
	cases := hx.Create(filepath.Join(*out, "filecases.txt"))
	impl := hx.Create(filepath.Join(*out, "fileimpl.txt"))
	for _, d := range defaults() {
		cases.Printf("%s\n", d)
		impl.Printf("D\n")
	}
	r := rng.FromEnv(707)
	dist := map[string]int{}
	total, okCount := 0, 0
	emit := func(text string, skipAll bool, label string) {
		tag := "T"
		if skipAll {
			tag = "TS"
		}
		obs := observe(text, skipAll)
		cases.Printf("%s %s\n", tag, hx.Enc(text))
		impl.Printf("%s\n", obs)
		total++
		if strings.HasPrefix(obs, "OK") {
			okCount++
			dist[label+":ok"]++
		} else {
			dist[label+":"+obs]++
		}
	}
	// directed: multi-byte characters in front of the SEC columns, company identification ending in "IAT"
	// (bytes 50..53 of the header read "IAT"; the detection counts characters since the fix 272ca522),
	// and the same with an ASCII name (bytes = characters)
	for _, tc := range [][2]string{{"Café Ñandú SA", "1234567IAT"}, {"Cafe Nandu SA", "1234567IAT"}, {"É", "12345678IA"}, {"IATCOR", "123456789"}} {
		for _, sec := range []string{ach.PPD, ach.ATX, ach.CCD} {
			f := gen.FileOfSEC(r, sec, gen.Opts{MinBatches: 1, MaxBatches: 2, NonASCII: true})
			b := f.Batches[0]
			b.GetHeader().CompanyName = tc[0]
			b.GetHeader().CompanyIdentification = tc[1]
			if b.Create() != nil || f.Create() != nil || f.Validate() != nil {
				dist["directed:not-valid"]++
				continue
			}
			text, err := gen.Text(f, false)
			if err != nil {
				dist["directed:writer-error"]++
				continue
			}
			// a company named IATCOR is taken for an IAT header, whose validation then fails: compare with validation skipped
			emit(text, tc[0] == "IATCOR", "directed:company")
		}
	}
	secs := append(gen.AllSECs(), ach.IAT, ach.ADV)
	for _, sec := range secs {
		for _, ops := range optSets() {
			for i := 0; i < *n; i++ {
				var f *ach.File
				if i == 0 || sec == ach.ADV {
					f = gen.FileOfSEC(r, sec, ops.o)
				} else {
					f = gen.File(r, ops.o)
				}
				text, err := gen.Text(f, i%2 == 1)
				if err != nil {
					dist["writer-error"]++
					continue
				}
				emit(text, false, "written:"+ops.name)
				ls := splitLines(text)
				for v := 0; v < *nvar; v++ {
					vl, what := variant(r, ls)
					sep := "\n"
					if r.Chance(1, 4) {
						sep = "\r\n"
					}
					emit(strings.Join(vl, sep)+sep, true, "variant:"+what)
				}
			}
		}
	}
	cases.Close()
	impl.Close()
	var keys []string
	for k := range dist {
		keys = append(keys, k)
	}
	sort.Strings(keys)
	var parts []string
	for _, k := range keys {
		parts = append(parts, fmt.Sprintf("%q:%d", k, dist[k]))
	}
	fmt.Printf("{\"cases\":%d,\"read_ok\":%d,\"distribution\":{%s}}\n", total, okCount, strings.Join(parts, ","))
}

func replay(args []string) {
	if len(args) < 1 {
		fmt.Fprintln(os.Stderr, "usage: c01file replay <hex text> [skipall]")
		os.Exit(2)
	}
	fmt.Println(observe(hx.Dec(args[0]), len(args) > 1))
}

// ---------------------------------------------------------------- development aid: a file as a Coq term

func coqBytesLit(s string) string {
	printable := true
	for i := 0; i < len(s); i++ {
		if s[i] < 32 || s[i] > 126 || s[i] == '"' {
			printable = false
		}
	}
	if printable {
		return fmt.Sprintf("bstr \"%s\"", s)
	}
	var items []string
	for i := 0; i < len(s); i++ {
		items = append(items, strconv.Itoa(int(s[i])))
	}
	return "[" + strings.Join(items, "; ") + "]%N"
}

func coqRec(v any) string {
	rv := reflect.ValueOf(v)
	for rv.Kind() == reflect.Ptr {
		rv = rv.Elem()
	}
	t := rv.Type()
	var parts []string
	for i := 0; i < t.NumField(); i++ {
		f := t.Field(i)
		if skipField[f.Name] {
			continue
		}
		switch f.Type.Kind() {
		case reflect.String:
			parts = append(parts, fmt.Sprintf("(\"%s\", VS (%s))", f.Name, coqBytesLit(rv.Field(i).String())))
		case reflect.Int:
			parts = append(parts, fmt.Sprintf("(\"%s\", VI %d)", f.Name, rv.Field(i).Int()))
		}
	}
	return fmt.Sprintf("mkRec \"%s\" [%s]", t.Name(), strings.Join(parts, "; "))
}

func coqEntry(e any, addenda ...any) string {
	var as []string
	for _, a := range addenda {
		if !isNil(a) {
			as = append(as, coqRec(a))
		}
	}
	return fmt.Sprintf("mkEnt (%s)\n        [%s]", coqRec(e), strings.Join(as, ";\n         "))
}

func coqfile(args []string) {
	fs := flag.NewFlagSet("coqfile", flag.ExitOnError)
	sec := fs.String("sec", "PPD", "SEC code (or IAT / ADV / MIX)")
	name := fs.String("name", "ex_file", "Coq identifier")
	seed := fs.Int("salt", 1, "generator salt")
	fs.Parse(args)
	r := rng.FromEnv(uint64(*seed))
	var f *ach.File
	switch *sec {
	case "MIX":
		f = gen.File(r, gen.Opts{SECs: []string{ach.PPD, ach.CCD, ach.WEB}, Returns: true, NOC: true, Addenda: true, MinBatches: 2, MaxBatches: 2, MaxEntries: 2})
	default:
		f = gen.FileOfSEC(r, *sec, gen.Opts{Addenda: true, Returns: true, MinBatches: 2, MaxBatches: 2, MaxEntries: 2})
	}
	var std, iat []string
	for _, b := range f.Batches {
		var es []string
		var ctl any
		if b.GetHeader().StandardEntryClassCode == ach.ADV {
			for _, e := range b.GetADVEntries() {
				es = append(es, coqEntry(e, e.Addenda99))
			}
			ctl = b.GetADVControl()
		} else {
			for _, e := range b.GetEntries() {
				var as []any
				as = append(as, e.Addenda02)
				for _, a := range e.Addenda05 {
					as = append(as, a)
				}
				as = append(as, e.Addenda98, e.Addenda98Refused, e.Addenda99, e.Addenda99Dishonored, e.Addenda99Contested)
				es = append(es, coqEntry(e, as...))
			}
			ctl = b.GetControl()
		}
		std = append(std, fmt.Sprintf("mkBat (%s)\n      [%s]\n      (%s)", coqRec(b.GetHeader()), strings.Join(es, ";\n       "), coqRec(ctl)))
	}
	for _, b := range f.IATBatches {
		var es []string
		for _, e := range b.GetEntries() {
			as := []any{e.Addenda10, e.Addenda11, e.Addenda12, e.Addenda13, e.Addenda14, e.Addenda15, e.Addenda16}
			for _, a := range e.Addenda17 {
				as = append(as, a)
			}
			for _, a := range e.Addenda18 {
				as = append(as, a)
			}
			as = append(as, e.Addenda98, e.Addenda99)
			es = append(es, coqEntry(e, as...))
		}
		iat = append(iat, fmt.Sprintf("mkBat (%s)\n      [%s]\n      (%s)", coqRec(b.GetHeader()), strings.Join(es, ";\n       "), coqRec(b.GetControl())))
	}
	var ctl any = &f.Control
	if f.IsADV() {
		ctl = &f.ADVControl
	}
	fmt.Printf("Definition %s : fileR :=\n  mkFil (%s)\n    [%s]\n    [%s]\n    (%s).\n", *name, coqRec(&f.Header),
		strings.Join(std, ";\n     "), strings.Join(iat, ";\n     "), coqRec(ctl))
	text, _ := gen.Text(f, false)
	fmt.Printf("(* written by ach.NewWriter:\n%s*)\n", text)
}

// Command c03x: correspondence cases for the GENERAL C03 statements
// (coq/Model/ArithGen.v, coq/Props/C03General.v): the declarative general totals
// (gen_credit / gen_debit / foreign_amount: by units digit, ADV codes 81..88, codes of
// the other family in neither total) and the general hash (Σ atoi(aba8 RDFI) rem 10^10,
// closed form on digit strings, the number in the written 8 column field) against
// Batch.calculateBatchAmounts / calculateADVBatchAmounts / IATBatch.calculateBatchAmounts,
// calculateEntryHash, aba8 and RDFIIdentificationField of the real library — on batches
// whose entries carry ARBITRARY accepted transaction codes and ARBITRARY routing strings.
package main

import (
	"flag"
	"fmt"
	"os"
	"path/filepath"
	"strconv"
	"strings"

	"github.com/moov-io/ach"

	"verifharness/internal/arith"
	"verifharness/internal/hx"
	"verifharness/internal/rng"
)

// every code StandardTransactionCode accepts
func validCodes() (all, nonADV []int) {
	for c := -1; c <= 120; c++ {
		if ach.StandardTransactionCode(c) == nil {
			all = append(all, c)
			if c < 81 || c > 88 {
				nonADV = append(nonADV, c)
			}
		}
	}
	return
}

var pool = []string{"0", "1", "2", "3", "4", "5", "6", "7", "8", "9", " ", "x", "-", "+", "é", "\xff", "€"}

func routing(r *rng.R) string {
	n := rng.Pick(r, []int{8, 8, 8, 9, 9, 10, 10, 7, 0, 1, 11, 12, 6})
	var sb strings.Builder
	noise := r.Chance(1, 5)
	for k := 0; k < n; k++ {
		if noise && r.Chance(1, 4) {
			sb.WriteString(pool[10+r.Intn(len(pool)-10)])
		} else if k == 0 && n == 10 && r.Chance(2, 3) {
			sb.WriteString(pool[r.Intn(2)])
		} else {
			sb.WriteString(pool[r.Intn(10)])
		}
	}
	return sb.String()
}

func atoi0(s string) int {
	v, err := strconv.Atoi(s)
	if err != nil {
		if ne, ok := err.(*strconv.NumError); ok && ne.Err == strconv.ErrRange {
			return v
		}
		return 0
	}
	return v
}

func allDigits(s string) bool {
	for i := 0; i < len(s); i++ {
		if s[i] < '0' || s[i] > '9' {
			return false
		}
	}
	return true
}

func main() {
	if len(os.Args) < 2 || os.Args[1] != "corr" {
		fmt.Fprintln(os.Stderr, "usage: c03x corr -out dir -files n -rounds m")
		os.Exit(2)
	}
	fs := flag.NewFlagSet("corr", flag.ExitOnError)
	out := fs.String("out", "", "output directory")
	nfiles := fs.Int("files", 60, "generated files")
	rounds := fs.Int("rounds", 6, "re-codings per batch")
	nh := fs.Int("strings", 4000, "routing strings")
	fs.Parse(os.Args[2:])
	cases := hx.Create(filepath.Join(*out, "cases.txt"))
	impl := hx.Create(filepath.Join(*out, "impl.txt"))
	desc := hx.Create(filepath.Join(*out, "desc.txt"))
	stats := map[string]int{}
	n := 0
	cases.Printf("T\n")
	impl.Printf("true\n")
	desc.Printf("advcodes_ok on the extracted tables\n")
	n++
	all, nonADV := validCodes()
	seed := rng.Seed()
	r := rng.New(seed*977 + 41)
	emit := func(kind int, codes []int, amounts []int, rdfis []string, credit, debit, hash int, what string) {
		total := 0
		var sb strings.Builder
		fmt.Fprintf(&sb, "G %d %d", kind, len(codes))
		for i := range codes {
			total += amounts[i]
			fmt.Fprintf(&sb, " %d %d %s", codes[i], amounts[i], hx.Enc(rdfis[i]))
			if codes[i] >= 81 && codes[i] <= 88 {
				stats[fmt.Sprintf("kind %d entries with ADV code", kind)]++
			} else {
				stats[fmt.Sprintf("kind %d entries with other code", kind)]++
			}
		}
		cases.Printf("%s\n", sb.String())
		impl.Printf("%d %d %d %d\n", credit, debit, total-credit-debit, hash)
		desc.Printf("%s\n", what)
		n++
	}
	// the round robin of arith.GenFile (21 SEC codes, IAT, ADV, 2 mixed, 1 large) for the first
	// nfiles indices, then only the IAT / ADV / mixed files of the next 6*nfiles indices
	for i := 0; i < 7**nfiles; i++ {
		if k := i % 26; i >= *nfiles && (k < 21 || k == 25) {
			continue
		}
		f, what := arith.GenFile(seed, i, false)
		if f == nil {
			stats["generator-failed"]++
			continue
		}
		stats["files "+what]++
		for round := 0; round < *rounds; round++ {
			for bi, b := range f.Batches {
				sb := arith.StdBatch(b)
				if sb == nil {
					continue
				}
				var codes, amounts []int
				var rdfis []string
				kind := arith.KStd
				if b.GetHeader().StandardEntryClassCode == ach.ADV {
					kind = arith.KADV
					for _, e := range sb.ADVEntries {
						if round > 0 {
							e.TransactionCode = rng.Pick(r, all)
							if r.Chance(1, 2) {
								e.TransactionCode = 81 + r.Intn(8)
							}
							e.Amount = r.Intn(1000000)
							e.RDFIIdentification = routing(r)
						}
						codes, amounts, rdfis = append(codes, e.TransactionCode), append(amounts, e.Amount), append(rdfis, e.RDFIIdentification)
					}
				} else {
					for _, e := range sb.Entries {
						if round > 0 {
							e.TransactionCode = rng.Pick(r, nonADV)
							e.Amount = r.Intn(1000000)
							e.RDFIIdentification = routing(r)
						}
						codes, amounts, rdfis = append(codes, e.TransactionCode), append(amounts, e.Amount), append(rdfis, e.RDFIIdentification)
					}
				}
				credit, debit, hash := ach.VerifBatchCalc(sb)
				emit(kind, codes, amounts, rdfis, credit, debit, hash, fmt.Sprintf("%s file %d batch %d round %d", what, i, bi, round))
			}
			for bi := range f.IATBatches {
				b := &f.IATBatches[bi]
				var codes, amounts []int
				var rdfis []string
				for _, e := range b.Entries {
					if round > 0 {
						e.TransactionCode = rng.Pick(r, all)
						if r.Chance(1, 4) {
							e.TransactionCode = 81 + r.Intn(8)
						}
						e.Amount = r.Intn(1000000)
						e.RDFIIdentification = routing(r)
					}
					codes, amounts, rdfis = append(codes, e.TransactionCode), append(amounts, e.Amount), append(rdfis, e.RDFIIdentification)
				}
				_, credit, debit, hash := ach.VerifIATBatchCalc(b)
				emit(arith.KIAT, codes, amounts, rdfis, credit, debit, hash, fmt.Sprintf("%s file %d IAT batch %d round %d", what, i, bi, round))
			}
		}
	}
	// the hash summand and the written field on single strings
	emitH := func(s string) {
		cases.Printf("H %s\n", hx.Enc(s))
		if allDigits(s) {
			e := ach.NewEntryDetail()
			e.RDFIIdentification = s
			impl.Printf("d %d %d\n", atoi0(ach.VerifABA8(s)), atoi0(e.RDFIIdentificationField()))
			stats[fmt.Sprintf("digit strings of length %d", len(s))]++
		} else {
			impl.Printf("s %d\n", atoi0(ach.VerifABA8(s)))
			stats["other strings"]++
		}
		desc.Printf("routing string %q\n", s)
		n++
	}
	for _, s := range []string{"", "0", "1234567", "12345678", "123456789", "0123456789", "1123456789", "2123456789", "12345678901",
		"-1234567", "+1234567", " 1234567", "1234567 ", "-12345678", "é2345678", "1234567é", "\xff2345678", "0é23456789", "00000000", "99999999", "999999999", "0999999999"} {
		emitH(s)
	}
	for i := 0; i < *nh; i++ {
		emitH(routing(r))
	}
	cases.Close()
	impl.Close()
	desc.Close()
	fmt.Printf("cases %d\n", n)
	for k, v := range stats {
		fmt.Printf("%s: %d\n", k, v)
	}
}

// Command c20: correspondence cases and direct oracle for property C20
// (achcli masking never reveals protected account data or names).
package main

import (
	"bytes"
	"encoding/json"
	"flag"
	"fmt"
	"os"
	"path/filepath"
	"sort"
	"strings"
	"unicode/utf8"

	"github.com/moov-io/ach"
	"github.com/moov-io/ach/cmd/achcli/describe"

	"verifharness/internal/hx"
	"verifharness/internal/rng"
)

func main() {
	if len(os.Args) < 2 {
		fmt.Fprintln(os.Stderr, "usage: c20 corr|oracle|replay ...")
		os.Exit(2)
	}
	switch os.Args[1] {
	case "corr":
		corr(os.Args[2:])
	case "oracle":
		oracle(os.Args[2:])
	case "cli":
		cli(os.Args[2:])
	case "replay":
		replay(os.Args[2:])
	default:
		fmt.Fprintln(os.Stderr, "unknown mode")
		os.Exit(2)
	}
}

// ---------------------------------------------------------------- correspondence

// alphabet of the exhaustive sweep: digit, letter, blank, '*', 2-byte rune, 3-byte rune,
// plus a lone continuation byte (invalid UTF-8) in the thorough tier
var sweep = []string{"7", "k", " ", "*", "é", "€"}

func corr(args []string) {
	fs := flag.NewFlagSet("corr", flag.ExitOnError)
	out := fs.String("out", "", "output directory")
	maxlen := fs.Int("maxlen", 6, "exhaustive up to this many symbols")
	random := fs.Int("random", 2000, "random strings up to field width")
	invalid := fs.Bool("invalid", false, "add an invalid UTF-8 byte to the alphabet")
	fs.Parse(args)
	alpha := sweep
	if *invalid {
		alpha = append(append([]string{}, sweep...), "\x93")
	}
	cases := hx.Create(filepath.Join(*out, "cases.txt"))
	impl := hx.Create(filepath.Join(*out, "impl.txt"))
	n := 0
	emit := func(s string) {
		cases.Printf("N %s\n", hx.Enc(s))
		impl.Printf("%s\n", hx.Enc(describe.VerifMaskNumber(s)))
		cases.Printf("M %s\n", hx.Enc(s))
		impl.Printf("%s\n", hx.Enc(describe.VerifMaskName(s)))
		n += 2
	}
	var rec func(prefix string, depth int)
	rec = func(prefix string, depth int) {
		emit(prefix)
		if depth == *maxlen {
			return
		}
		for _, a := range alpha {
			rec(prefix+a, depth+1)
		}
	}
	rec("", 0)
	r := rng.FromEnv(20)
	pool := []string{"0", "1", "2", "9", "A", "z", " ", " ", "*", "-", "\t", "é", "ñ", "€", " ", "\xff", "\xc3"}
	for i := 0; i < *random; i++ {
		l := r.Range(0, 40)
		var b strings.Builder
		for j := 0; j < l; j++ {
			b.WriteString(rng.Pick(r, pool))
		}
		emit(b.String())
	}
	cases.Close()
	impl.Close()
	fmt.Printf("{\"cases\":%d}\n", n)
}

// ---------------------------------------------------------------- oracle

type secretCase struct {
	Class string `json:"class"` // account | iat-account | name | corrected | enr-account | enr-ident | enr-name | dne-ssn
	Value string `json:"value"` // the raw field value set on the file
	// which file shape carries the value: for account / name 1 = CTX batch, 2 = ATX batch (else PPD); for corrected data
	// the index of the change code (C01 … C09).  Kept by the placeholder case, so that the reference output has the same shape
	Shape int `json:"shape,omitempty"`
}

type failure struct {
	Kind   string     `json:"kind"`
	Key    string     `json:"key"`
	What   string     `json:"what"`
	Flags  [3]bool    `json:"flags"` // names, accounts, corrections
	CLI    int        `json:"cli,omitempty"` // achcli run: bit set of -mask.names, -mask.accounts, -mask.corrections, -mask
	Case   secretCase `json:"case"`
	Secret string     `json:"secret"`
}

var valueAlphabet = []string{"0", "1", "2", "3", "4", "5", "6", "7", "8", "9", "A", "B", "q", "Z", " ", " ", "*", "-", ".", "é", "Ñ", "€"}
var enrAlphabet = []string{"0", "1", "2", "3", "4", "5", "6", "7", "8", "9", "A", "B", "q", "Z", " ", "-", ".", "é"}

func randValue(r *rng.R, alpha []string, maxRunes int) string {
	l := r.Range(1, maxRunes)
	var b strings.Builder
	shape := r.Intn(6)
	for j := 0; j < l; j++ {
		switch {
		case shape == 0 && j < 3:
			b.WriteString(" ") // leading blanks
		case shape == 1:
			b.WriteString(rng.Pick(r, alpha[:10])) // digits only
		case shape == 2 && j%5 == 4:
			b.WriteString(" ")
		default:
			b.WriteString(rng.Pick(r, alpha))
		}
	}
	return b.String()
}

func baseHeader(sec string) *ach.BatchHeader {
	bh := ach.NewBatchHeader()
	bh.ServiceClassCode = ach.MixedDebitsAndCredits
	bh.CompanyName = "Payee Co"
	bh.CompanyIdentification = "121042882"
	bh.StandardEntryClassCode = sec
	bh.CompanyEntryDescription = "PAYROLL"
	bh.EffectiveEntryDate = "190816"
	bh.ODFIIdentification = "12104288"
	return bh
}

func baseFile() *ach.File {
	f := ach.NewFile()
	f.Header.ImmediateDestination = "231380104"
	f.Header.ImmediateOrigin = "121042882"
	f.Header.FileCreationDate = "190816"
	f.Header.FileCreationTime = "1055"
	f.Header.ImmediateDestinationName = "Federal Reserve Bank"
	f.Header.ImmediateOriginName = "My Bank Name"
	return f
}

func baseEntry(code int) *ach.EntryDetail {
	e := ach.NewEntryDetail()
	e.TransactionCode = code
	e.SetRDFI("231380104")
	e.DFIAccountNumber = "xxxxxxxx"
	e.Amount = 100
	e.IndividualName = "xxxx"
	e.SetTraceNumber("12104288", 1)
	return e
}

// buildFile places the case's value into a file of the matching shape.
func buildFile(c secretCase) *ach.File {
	f := baseFile()
	switch c.Class {
	case "account", "name":
		sec := ach.PPD
		switch c.Shape % 4 {
		case 1:
			// corporate batches: the name column of CTX / ATX entries starts with the four-digit addenda count when
			// the entry is built by the library, but it is the same 22 columns of the record
			sec = ach.CTX
		case 2:
			sec = ach.ATX
		}
		b, _ := ach.NewBatch(baseHeader(sec))
		e := baseEntry(ach.CheckingCredit)
		if c.Class == "account" {
			e.DFIAccountNumber = c.Value
		} else {
			e.IndividualName = c.Value
		}
		b.AddEntry(e)
		f.AddBatch(b)
	case "corrected":
		b, _ := ach.NewBatch(baseHeader(ach.COR))
		e := baseEntry(ach.CheckingReturnNOCCredit)
		e.Amount = 0
		a := ach.NewAddenda98()
		a.ChangeCode = []string{"C01", "C02", "C03", "C04", "C05", "C06", "C07", "C09"}[c.Shape%8]
		a.OriginalTrace = "121042880000001"
		a.OriginalDFI = "12104288"
		a.CorrectedData = c.Value
		a.TraceNumber = "121042880000001"
		e.Addenda98 = a
		e.Category = ach.CategoryNOC
		e.AddendaRecordIndicator = 1
		b.AddEntry(e)
		f.AddBatch(b)
	case "enr-account", "enr-ident", "enr-name":
		b, _ := ach.NewBatch(baseHeader(ach.ENR))
		e := baseEntry(ach.CheckingPrenoteCredit)
		e.Amount = 0
		acct, ident, sur, first := "xxxxxxxxx", "yyyyyyyyy", "wwwww", "vvvvv"
		switch c.Class {
		case "enr-account":
			acct = c.Value
		case "enr-ident":
			ident = c.Value
		case "enr-name":
			parts := strings.SplitN(c.Value, "|", 2)
			sur = parts[0]
			if len(parts) > 1 {
				first = parts[1]
			}
		}
		a := ach.NewAddenda05()
		a.PaymentRelatedInformation = fmt.Sprintf(`22*12200004*3*%s*%s*%s*%s*A\`, acct, ident, sur, first)
		a.SequenceNumber = 1
		a.EntryDetailSequenceNumber = 1
		e.AddAddenda05(a)
		e.AddendaRecordIndicator = 1
		b.AddEntry(e)
		f.AddBatch(b)
	case "dne-ssn":
		b, _ := ach.NewBatch(baseHeader(ach.DNE))
		e := baseEntry(ach.CheckingReturnNOCCredit)
		e.Amount = 0
		a := ach.NewAddenda05()
		a.PaymentRelatedInformation = fmt.Sprintf(`DATE OF DEATH*010218*CUSTOMER SSN*%s*AMOUNT*$$$$.cc\`, c.Value)
		a.SequenceNumber = 1
		a.EntryDetailSequenceNumber = 1
		e.AddAddenda05(a)
		e.AddendaRecordIndicator = 1
		b.AddEntry(e)
		f.AddBatch(b)
	case "iat-account":
		bh := ach.NewIATBatchHeader()
		bh.ServiceClassCode = ach.CreditsOnly
		bh.ForeignExchangeIndicator = "FF"
		bh.ForeignExchangeReferenceIndicator = 3
		bh.ISODestinationCountryCode = "US"
		bh.OriginatorIdentification = "123456789"
		bh.StandardEntryClassCode = ach.IAT
		bh.CompanyEntryDescription = "TRADEPAYMT"
		bh.ISOOriginatingCurrencyCode = "CAD"
		bh.ISODestinationCurrencyCode = "USD"
		bh.ODFIIdentification = "23138010"
		b := ach.NewIATBatch(bh)
		e := ach.NewIATEntryDetail()
		e.TransactionCode = ach.CheckingCredit
		e.SetRDFI("121042882")
		e.AddendaRecords = 7
		e.DFIAccountNumber = c.Value
		e.Amount = 100000
		e.SetTraceNumber("23138010", 1)
		e.Category = ach.CategoryForward
		b.AddEntry(e)
		f.AddIATBatch(b)
	}
	return f
}

// governing flag index (0 names, 1 accounts, 2 corrections) and whether the value is name-like
func governs(class string) (int, bool) {
	switch class {
	case "name", "enr-name":
		return 0, true
	case "corrected":
		return 2, false
	default:
		return 1, false
	}
}

func describeWith(f *ach.File, flags [3]bool) (out string, panicked any) {
	defer func() {
		if r := recover(); r != nil {
			panicked = r
		}
	}()
	var buf bytes.Buffer
	describe.File(&buf, f, &describe.Opts{MaskNames: flags[0], MaskAccountNumbers: flags[1], MaskCorrectedData: flags[2]})
	return buf.String(), nil
}

func isSig(b byte) bool { return b != ' ' && b != '*' }

func countSig(s string) int {
	n := 0
	for i := 0; i < len(s); i++ {
		if isSig(s[i]) {
			n++
		}
	}
	return n
}

// secrets lists what must not be visible for the case.
func secrets(c secretCase) []string {
	_, nameLike := governs(c.Class)
	if !nameLike {
		v := strings.TrimSpace(c.Value)
		if countSig(v) == 0 {
			return nil // nothing to disclose (blank or made of asterisks)
		}
		return []string{v}
	}
	var out []string
	for _, part := range strings.Split(c.Value, "|") {
		for _, w := range strings.Fields(part) {
			if utf8.RuneCountInString(w) < 4 {
				continue
			}
			// a word that is all asterisks from its third byte on is its own mask
			if countSigFrom(w, 2) == 0 {
				continue
			}
			out = append(out, w)
		}
	}
	return out
}

func countSigFrom(w string, from int) int {
	n := 0
	for i := from; i < len(w); i++ {
		if w[i] != '*' {
			n++
		}
	}
	return n
}

func placeholder(c secretCase) secretCase {
	p := c
	switch c.Class {
	case "enr-name":
		p.Value = "wwwww|vvvvv"
	default:
		p.Value = "xxxxxxxx"
	}
	return p
}

// failureKey classifies a leak; the key is what known-findings.jsonl lists.
func failureKey(c secretCase, secret string) string {
	_, nameLike := governs(c.Class)
	if nameLike {
		return "mask:name:word-visible"
	}
	// what maskNumber received: padded field for the entry accessors, raw otherwise
	field := c.Value
	switch c.Class {
	case "account":
		field = pad(c.Value, 17)
	case "iat-account":
		field = pad(c.Value, 35)
	}
	first2 := 0
	for i := 0; i < 2 && i < len(field); i++ {
		if isSig(field[i]) {
			first2++
		}
	}
	if countSig(secret) <= 4 && first2 == 0 {
		return "mask:number:short-value-not-in-first-two-columns"
	}
	return "mask:number:value-visible"
}

func pad(s string, w int) string {
	n := utf8.RuneCountInString(s)
	if n >= w {
		return string([]rune(s)[:w])
	}
	return s + strings.Repeat(" ", w-n)
}

// checkCase runs describe.File under all 8 flag sets and reports leaks.
func checkCase(c secretCase) []failure {
	var fails []failure
	f := buildFile(c)
	g := buildFile(placeholder(c))
	gi, _ := governs(c.Class)
	for m := 0; m < 8; m++ {
		flags := [3]bool{m&1 != 0, m&2 != 0, m&4 != 0}
		out, p := describeWith(f, flags)
		if p != nil {
			fails = append(fails, failure{Kind: "fail", Key: "describe:panic", What: fmt.Sprint(p), Flags: flags, Case: c})
			continue
		}
		if !flags[gi] {
			continue
		}
		ref, _ := describeWith(g, flags)
		for _, s := range secrets(c) {
			if strings.Contains(out, s) && !strings.Contains(ref, s) {
				fails = append(fails, failure{Kind: "fail", Key: failureKey(c, s), What: "protected value visible in describe output with its mask flag on", Flags: flags, Case: c, Secret: s})
			}
		}
	}
	return fails
}

func genCase(r *rng.R) secretCase {
	classes := []string{"account", "account", "iat-account", "name", "name", "corrected", "enr-account", "enr-ident", "enr-name", "dne-ssn"}
	c := secretCase{Class: rng.Pick(r, classes), Shape: r.Intn(8)}
	switch c.Class {
	case "account":
		c.Value = randValue(r, valueAlphabet, 17)
	case "iat-account":
		c.Value = randValue(r, valueAlphabet, 35)
	case "name":
		c.Value = randName(r, valueAlphabet, 22)
	case "corrected":
		c.Value = randValue(r, valueAlphabet, 29)
	case "enr-account":
		c.Value = randValue(r, enrAlphabet, 17)
	case "enr-ident":
		c.Value = randValue(r, enrAlphabet, 9)
	case "enr-name":
		c.Value = randName(r, enrAlphabet, 15) + "|" + randName(r, enrAlphabet, 7)
	case "dne-ssn":
		c.Value = randValue(r, enrAlphabet, 9)
	}
	return c
}

func randName(r *rng.R, alpha []string, maxRunes int) string {
	var b strings.Builder
	n := 0
	for n < maxRunes {
		wl := r.Range(1, 9)
		if n > 0 {
			b.WriteString(" ")
			n++
		}
		for j := 0; j < wl && n < maxRunes; j++ {
			s := rng.Pick(r, alpha)
			if s == " " {
				s = "x"
			}
			b.WriteString(s)
			n++
		}
		if r.Chance(1, 3) {
			break
		}
	}
	return b.String()
}

type summary struct {
	Kind        string         `json:"kind"`
	Evaluations int            `json:"evaluations"`
	Distinct    int            `json:"distinct_nontrivial"`
	Rule        string         `json:"rule"`
	Dist        map[string]int `json:"distribution"`
	Samples     []secretCase   `json:"samples"`
}

func oracle(args []string) {
	fs := flag.NewFlagSet("oracle", flag.ExitOnError)
	out := fs.String("out", "", "output directory")
	n := fs.Int("n", 3000, "generated cases")
	corpus := fs.String("corpus", "", "corpus directory (cases run first)")
	fs.Parse(args)
	res := hx.Create(filepath.Join(*out, "oracle.jsonl"))
	enc := func(v any) {
		b, _ := json.Marshal(v)
		res.Printf("%s\n", b)
	}
	sum := summary{Kind: "summary", Dist: map[string]int{}, Rule: "one protected value per case placed in a file of the matching SEC shape, describe.File under all 8 Opts flag sets; non-trivial = the case has at least one secret (non-blank value / word of >= 4 runes); distinct by (class,value)"}
	seen := map[string]bool{}
	run := func(c secretCase) {
		sum.Evaluations++
		sum.Dist[c.Class]++
		if len(secrets(c)) > 0 {
			k := c.Class + "\x00" + c.Value
			if !seen[k] {
				seen[k] = true
				sum.Distinct++
			}
		}
		for _, f := range checkCase(c) {
			enc(f)
		}
		if len(sum.Samples) < 5 && sum.Evaluations%97 == 1 {
			sum.Samples = append(sum.Samples, c)
		}
	}
	for _, c := range corpusCases(*corpus) {
		run(c)
	}
	// boundary sweep: short values with 0..3 leading blanks for every number class
	for _, cl := range []string{"account", "iat-account", "corrected", "enr-account", "enr-ident", "dne-ssn"} {
		for lead := 0; lead <= 3; lead++ {
			for l := 1; l <= 7; l++ {
				run(secretCase{Class: cl, Value: strings.Repeat(" ", lead) + "8642975"[:l]})
			}
		}
	}
	r := rng.FromEnv(2020)
	for i := 0; i < *n; i++ {
		run(genCase(r))
	}
	enc(sum)
	res.Close()
}

func corpusCases(dir string) []secretCase {
	var out []secretCase
	if dir == "" {
		return out
	}
	names, _ := filepath.Glob(filepath.Join(dir, "*.json"))
	sort.Strings(names)
	for _, p := range names {
		b, err := os.ReadFile(p)
		if err != nil {
			continue
		}
		var rp struct {
			Input secretCase `json:"input"`
		}
		if json.Unmarshal(b, &rp) == nil && rp.Input.Class != "" {
			out = append(out, rp.Input)
		}
	}
	return out
}

func replay(args []string) {
	if len(args) < 1 {
		fmt.Fprintln(os.Stderr, "usage: c20 replay <file>")
		os.Exit(2)
	}
	b, err := os.ReadFile(args[0])
	if err != nil {
		fmt.Fprintln(os.Stderr, err)
		os.Exit(2)
	}
	var rp struct {
		Input   secretCase `json:"input"`
		Failure struct {
			CLI int `json:"cli"`
		} `json:"failure"`
		Key string `json:"key"`
	}
	if err := json.Unmarshal(b, &rp); err != nil || rp.Input.Class == "" {
		fmt.Println("replay file carries no input (obligation / correspondence failure): nothing to run")
		os.Exit(0)
	}
	fails := checkCase(rp.Input)
	if strings.HasPrefix(rp.Key, "cli:") || rp.Failure.CLI > 0 {
		bin := os.Getenv("VERIF_ACHCLI")
		dir, err := os.MkdirTemp("", "c20cli")
		if bin == "" || err != nil {
			fmt.Fprintln(os.Stderr, "replay of an achcli run needs VERIF_ACHCLI")
			os.Exit(2)
		}
		defer os.RemoveAll(dir)
		only := -1
		if rp.Failure.CLI > 0 {
			only = rp.Failure.CLI
		}
		fails, _ = cliCheck(bin, dir, rp.Input, only)
	}
	for _, f := range fails {
		j, _ := json.Marshal(f)
		fmt.Println(string(j))
	}
	if len(fails) > 0 {
		os.Exit(1)
	}
	fmt.Println("no failure on this input")
}

package main

import (
	"encoding/json"
	"flag"
	"fmt"
	"os"
	"os/exec"
	"path/filepath"
	"strings"

	"verifharness/internal/hx"
	"verifharness/internal/rng"
)

// The built achcli binary under every combination of its four masking flags (the flag wiring of
// cmd/achcli/main.go and cmd/achcli/describe.go, which describe.File called with an Opts value does not exercise).
// The file is handed over as JSON and read with -skip-validation, so that the protected value arrives as it is.

var cliFlagNames = [4]string{"-mask.names", "-mask.accounts", "-mask.corrections", "-mask"}

// flags in force for a combination: -mask stands for all of them
func cliEffective(m int) [3]bool {
	all := m&8 != 0
	return [3]bool{all || m&1 != 0, all || m&2 != 0, all || m&4 != 0}
}

func cliArgs(m int) []string {
	var a []string
	for i, n := range cliFlagNames {
		if m&(1<<i) != 0 {
			a = append(a, n)
		}
	}
	return a
}

func runCLI(bin, dir string, c secretCase, m int) (string, error) {
	bs, err := json.Marshal(buildFile(c))
	if err != nil {
		return "", err
	}
	p := filepath.Join(dir, "case.json")
	if err := os.WriteFile(p, bs, 0o600); err != nil {
		return "", err
	}
	args := append([]string{"-skip-validation"}, cliArgs(m)...)
	out, err := exec.Command(bin, append(args, p)...).CombinedOutput()
	return string(out), err
}

func cliCheck(bin, dir string, c secretCase, only int) (fails []failure, ran int) {
	gi, _ := governs(c.Class)
	for m := 1; m < 16; m++ {
		if only >= 0 && m != only {
			continue
		}
		eff := cliEffective(m)
		if !eff[gi] {
			continue
		}
		out, err := runCLI(bin, dir, c, m)
		if err != nil {
			fails = append(fails, failure{Kind: "fail", Key: "cli:achcli-failed", What: fmt.Sprintf("achcli %s: %v: %.200s", strings.Join(cliArgs(m), " "), err, out), Flags: eff, CLI: m, Case: c})
			continue
		}
		if strings.Contains(out, "WARN: problem reading") {
			continue // the tool could not read the document: nothing is described
		}
		ran++
		ref, _ := runCLI(bin, dir, placeholder(c), m)
		for _, s := range secrets(c) {
			if strings.Contains(out, s) && !strings.Contains(ref, s) {
				// the same key as for describe.File called directly: it is the same masking seen through the binary (a
				// listed finding stays the listed finding); the flag combination is in the record
				fails = append(fails, failure{Kind: "fail", Key: failureKey(c, s), What: "protected value visible in the output of achcli " + strings.Join(cliArgs(m), " "), Flags: eff, CLI: m, Case: c, Secret: s})
			}
		}
	}
	return fails, ran
}

func cli(args []string) {
	fs := flag.NewFlagSet("cli", flag.ExitOnError)
	out := fs.String("out", "", "output directory")
	n := fs.Int("n", 20, "generated cases")
	bin := fs.String("achcli", "", "built achcli binary")
	fs.Parse(args)
	res := hx.Create(filepath.Join(*out, "cli.jsonl"))
	sum := summary{Kind: "summary", Dist: map[string]int{}, Rule: "one protected value per case, JSON document read by the built achcli with -skip-validation under the flag combinations (of -mask, -mask.names, -mask.accounts, -mask.corrections) that put the value's mask in force; non-trivial = a described run of a case with at least one secret"}
	dir, err := os.MkdirTemp("", "c20cli")
	if err != nil {
		fmt.Fprintln(os.Stderr, err)
		os.Exit(2)
	}
	defer os.RemoveAll(dir)
	run := func(c secretCase) {
		fl, ran := cliCheck(*bin, dir, c, -1)
		sum.Evaluations += ran
		sum.Dist[c.Class] += ran
		if len(secrets(c)) > 0 {
			sum.Distinct += ran
		}
		for _, f := range fl {
			b, _ := json.Marshal(f)
			res.Printf("%s\n", b)
		}
	}
	for _, c := range []secretCase{
		{Class: "account", Value: "5566778899001"}, {Class: "iat-account", Value: "998877665544332211"},
		{Class: "name", Value: "Bartholomew Featherstone"}, {Class: "name", Value: "Bartholomew Featherstone", Shape: 1}, {Class: "corrected", Value: "1918171615141312"}, {Class: "corrected", Value: "1918171615141312", Shape: 3},
		{Class: "enr-account", Value: "7766554433"}, {Class: "enr-ident", Value: "554433221"},
		{Class: "enr-name", Value: "Featherstone|Bartholomew"}, {Class: "dne-ssn", Value: "443322110"},
	} {
		run(c)
	}
	r := rng.FromEnv(2021)
	for i := 0; i < *n; i++ {
		run(genCase(r))
	}
	b, _ := json.Marshal(sum)
	res.Printf("%s\n", b)
	res.Close()
}

// Command validout (phase 2 of C05/C09/C11/C12/C13): cross-model correspondence for the
// clause "the result passes validation".
//
// For outputs of the REAL Batch.Create/File.Create, File.Reversal, FlattenBatches,
// MergeFiles and SegmentFile on generated valid files it writes
//
//	cases.txt   the numeric skeleton of the output (file: "F ...", each batch: "B ..."), in the
//	            syntax of ocaml/c03/driver.ml, which runs the extracted Arith.validate_file /
//	            read_validate / validate_batch and the recomputation functions on it;
//	impl.txt    what the real Validate() says of the same object (rule enum), the five hooked
//	            checks and the library's own recomputation;
//	expect.txt  "1" when the hypotheses of the Coq theorem for that transformation hold of the
//	            input (valid input, transformation returned no error, ...): the extracted
//	            validator must then ACCEPT the skeleton — the theorem's conclusion observed on
//	            the implementation; "0" otherwise (comparison with Validate() only);
//	desc.txt    one description per line (transformation, generator kind, file index).
//
// So "Arith-valid" (what the theorems conclude) is tied to "Validate() passes" on exactly the
// outputs the theorems speak about, and the `tabulated` assumption (control = recomputation
// after Create) is observed on every output batch through the B lines.
package main

import (
	"encoding/json"
	"flag"
	"fmt"
	"os"
	"path/filepath"
	"strings"
	"time"

	"github.com/moov-io/ach"

	"verifharness/internal/arith"
	"verifharness/internal/gen"
	"verifharness/internal/hx"
	"verifharness/internal/rng"
)

func main() {
	if len(os.Args) < 2 || os.Args[1] != "corr" {
		fmt.Fprintln(os.Stderr, "usage: validout corr -out DIR [-files N] [-only create,reversal,flatten,merge,segment]")
		os.Exit(2)
	}
	corr(os.Args[2:])
}

func b2i(b bool) int {
	if b {
		return 1
	}
	return 0
}

// ---------------------------------------------------------------- observations (as cmd/c03)

func implBatchStd(b ach.Batcher) (arith.Batch, string) {
	sk := arith.FromBatcher(b)
	rule := arith.Classify(arith.Safe(b.Validate), sk.Kind)
	var c, a, m, h, o bool
	var credit, debit, hash int
	if perr := arith.Safe(func() error {
		sb := arith.StdBatch(b)
		c, a, m, h, o = ach.VerifBatchChecks(sb)
		credit, debit, hash = ach.VerifBatchCalc(sb)
		return nil
	}); perr != nil {
		return sk, "panic " + perr.Error()
	}
	return sk, fmt.Sprintf("%d %d %d %d %d %d %d %d %d", rule, b2i(c), b2i(a), b2i(m), b2i(h), b2i(o), credit, debit, hash)
}

func implBatchIAT(b *ach.IATBatch) (arith.Batch, string) {
	sk := arith.FromIAT(b)
	rule := arith.Classify(arith.Safe(b.Validate), sk.Kind)
	var c, a, m, h, o bool
	var credit, debit, hash int
	if perr := arith.Safe(func() error {
		c, a, m, h, o = ach.VerifIATBatchChecks(b)
		_, credit, debit, hash = ach.VerifIATBatchCalc(b)
		return nil
	}); perr != nil {
		return sk, "panic " + perr.Error()
	}
	return sk, fmt.Sprintf("%d %d %d %d %d %d %d %d %d", rule, b2i(c), b2i(a), b2i(m), b2i(h), b2i(o), credit, debit, hash)
}

func implFile(f *ach.File) string {
	vf := arith.Classify(arith.Safe(f.Validate), arith.KStd)
	rv := arith.ROk
	for _, b := range f.Batches {
		if err := arith.Safe(b.Validate); err != nil {
			k := arith.KStd
			if b.GetHeader().StandardEntryClassCode == ach.ADV {
				k = arith.KADV
			}
			rv = arith.Classify(err, k)
			break
		}
	}
	if rv == arith.ROk {
		for i := range f.IATBatches {
			if err := arith.Safe(f.IATBatches[i].Validate); err != nil {
				rv = arith.Classify(err, arith.KIAT)
				break
			}
		}
	}
	if rv == arith.ROk {
		rv = vf
	}
	return fmt.Sprintf("%d %d", vf, rv)
}

// ---------------------------------------------------------------- helpers on files

func isForwardStd(b ach.Batcher) bool {
	h := b.GetHeader()
	if h == nil || h.StandardEntryClassCode == ach.ADV || h.StandardEntryClassCode == ach.COR {
		return false
	}
	for _, e := range b.GetEntries() {
		if e.Category != ach.CategoryForward || e.Addenda98 != nil || e.Addenda99 != nil ||
			e.Addenda99Dishonored != nil || e.Addenda99Contested != nil || e.Addenda98Refused != nil {
			return false
		}
	}
	return len(b.GetEntries()) > 0
}

func hasOffsetEntries(b ach.Batcher) bool {
	for _, e := range b.GetEntries() {
		if strings.EqualFold(strings.TrimSpace(e.IndividualName), "OFFSET") {
			return true
		}
	}
	return false
}

func validInput(f *ach.File) bool {
	if f == nil || arith.Safe(f.Validate) != nil {
		return false
	}
	for i := range f.IATBatches {
		if arith.Safe(f.IATBatches[i].Validate) != nil {
			return false
		}
	}
	return true
}

// newFileLike starts a file with a copy of f's header.
func newFileLike(f *ach.File) *ach.File {
	nf := ach.NewFile()
	nf.SetHeader(f.Header)
	return nf
}

// ---------------------------------------------------------------- the transformations

// recreate strips what Create tabulates (trace numbers of forward entries, batch controls,
// batch numbers, file control) and lets Batch.Create / File.Create write it again.
func recreate(f *ach.File) (*ach.File, error) {
	g := gen.Clone(f)
	for _, b := range g.Batches {
		if isForwardStd(b) && !hasOffsetEntries(b) {
			for _, e := range b.GetEntries() {
				e.TraceNumber = ""
			}
		}
		if b.GetHeader().StandardEntryClassCode != ach.ADV {
			b.SetControl(ach.NewBatchControl())
		}
		b.GetHeader().BatchNumber = 0
		if err := b.Create(); err != nil {
			return nil, fmt.Errorf("batch.Create: %w", err)
		}
	}
	for i := range g.IATBatches {
		g.IATBatches[i].Header.BatchNumber = 0
		g.IATBatches[i].Control = ach.NewBatchControl()
		if err := g.IATBatches[i].Create(); err != nil {
			return nil, fmt.Errorf("iatBatch.Create: %w", err)
		}
	}
	g.Control = ach.NewFileControl()
	if err := g.Create(); err != nil {
		return nil, fmt.Errorf("file.Create: %w", err)
	}
	return g, nil
}

// split turns every forward standard batch with at least two entries into two batches with the
// same header holding the entries at even resp. odd positions (trace numbers kept), so that
// Flatten / Merge have something to consolidate.  parts[i] tells which half a batch is (0 = not split).
func split(f *ach.File) (*ach.File, []int, error) {
	g := gen.Clone(f)
	nf := newFileLike(g)
	var parts []int
	for _, b := range g.Batches {
		es := b.GetEntries()
		if !isForwardStd(b) || hasOffsetEntries(b) || len(es) < 2 {
			b.GetHeader().BatchNumber = 0
			nf.AddBatch(b)
			parts = append(parts, 0)
			continue
		}
		for half := 0; half < 2; half++ {
			h := *b.GetHeader()
			h.BatchNumber = 0
			nb, err := ach.NewBatch(&h)
			if err != nil {
				return nil, nil, err
			}
			for i, e := range es {
				if i%2 == half {
					nb.AddEntry(e)
				}
			}
			if err := nb.Create(); err != nil {
				return nil, nil, fmt.Errorf("split Create: %w", err)
			}
			nf.AddBatch(nb)
			parts = append(parts, half+1)
		}
	}
	for i := range g.IATBatches {
		g.IATBatches[i].Header.BatchNumber = 0
		nf.AddIATBatch(g.IATBatches[i])
	}
	if err := nf.Create(); err != nil {
		return nil, nil, fmt.Errorf("split file.Create: %w", err)
	}
	return nf, parts, nil
}

// twoFiles distributes the batches of a split file over two files with the same header: the
// first halves (and unsplit batches) in one, the second halves in the other.
func twoFiles(f *ach.File, parts []int) ([]*ach.File, error) {
	a, b := newFileLike(f), newFileLike(f)
	for i, bt := range f.Batches {
		bt.GetHeader().BatchNumber = 0
		if c := bt.GetControl(); c != nil {
			c.BatchNumber = 0
		}
		if parts[i] == 2 {
			b.AddBatch(bt)
		} else {
			a.AddBatch(bt)
		}
	}
	var out []*ach.File
	for _, x := range []*ach.File{a, b} {
		if len(x.Batches) == 0 {
			continue
		}
		if err := x.Create(); err != nil {
			return nil, err
		}
		out = append(out, x)
	}
	return out, nil
}

func reversible(f *ach.File) bool {
	if len(f.IATBatches) > 0 || len(f.Batches) == 0 {
		return false
	}
	for _, b := range f.Batches {
		if !isForwardStd(b) {
			return false
		}
		// the SEC codes whose own Validate admits both directions (as the C13 oracle): ARC, BOC,
		// TEL, CIE ... fix the service class, a rule outside Arith
		switch b.GetHeader().StandardEntryClassCode {
		case ach.PPD, ach.CCD, ach.CTX, ach.WEB:
		default:
			return false
		}
		for _, e := range b.GetEntries() {
			switch e.TransactionCode {
			case ach.LoanPrenoteCredit, ach.LoanZeroDollarRemittanceCredit: // 53, 54 -> 58, 59: no such codes
				return false
			}
		}
	}
	return true
}

// hashHeavy concatenates the batches of generated PPD files until they hold 1500 entries.  The
// parts are small enough for their own file hash to stay below 10^10, so the generator (which
// validates what it returns) does not depend on the truncation under test.
func hashHeavy(seed uint64) (f *ach.File) {
	defer func() {
		if recover() != nil {
			f = nil
		}
	}()
	var nf *ach.File
	total := 0
	for j := 0; j < 200 && total < 1500; j++ {
		r := rng.New(seed*977 + uint64(j)*131 + 5)
		p := gen.FileOfSEC(r, ach.PPD, gen.Opts{ForwardOnly: true, MinBatches: 1, MaxBatches: 2, MaxEntries: 60})
		if nf == nil {
			nf = newFileLike(p)
		}
		for _, b := range p.Batches {
			b.GetHeader().BatchNumber = 0
			nf.AddBatch(b)
			total += len(b.GetEntries())
		}
	}
	return nf
}

// ---------------------------------------------------------------- driver

type emitter struct {
	cases, impl, expect, desc *hx.W
	stats                     map[string]int
}

func (m *emitter) file(what string, g *ach.File, expect bool) {
	m.cases.Printf("F %s\n", arith.FromFile(g).Enc())
	m.impl.Printf("%s\n", implFile(g))
	m.expect.Printf("%d\n", b2i(expect))
	m.desc.Printf("%s (file)\n", what)
	m.stats[what[:strings.Index(what, " ")]+":files"]++
	for j, b := range g.Batches {
		sk, obs := implBatchStd(b)
		m.cases.Printf("B %s\n", sk.Enc())
		m.impl.Printf("%s\n", obs)
		m.expect.Printf("%d\n", b2i(expect && sk.Kind == arith.KStd))
		m.desc.Printf("%s (batch %d)\n", what, j)
	}
	for j := range g.IATBatches {
		sk, obs := implBatchIAT(&g.IATBatches[j])
		m.cases.Printf("B %s\n", sk.Enc())
		m.impl.Printf("%s\n", obs)
		m.expect.Printf("0\n")
		m.desc.Printf("%s (IAT batch %d)\n", what, j)
	}
}

func corr(args []string) {
	fs := flag.NewFlagSet("corr", flag.ExitOnError)
	out := fs.String("out", "", "output directory")
	nfiles := fs.Int("files", 120, "generated input files")
	only := fs.String("only", "create,reversal,flatten,merge,segment", "transformations to run")
	fs.Parse(args)
	want := map[string]bool{}
	for _, s := range strings.Split(*only, ",") {
		want[strings.TrimSpace(s)] = true
	}
	m := &emitter{cases: hx.Create(filepath.Join(*out, "cases.txt")), impl: hx.Create(filepath.Join(*out, "impl.txt")),
		expect: hx.Create(filepath.Join(*out, "expect.txt")), desc: hx.Create(filepath.Join(*out, "desc.txt")), stats: map[string]int{}}
	seed := rng.Seed()
	when := time.Date(2026, 9, 30, 10, 30, 0, 0, time.UTC)
	forwardSECs := []string{ach.PPD, ach.CCD, ach.WEB, ach.CTX, ach.TEL, ach.CIE}
	for i := 0; i < *nfiles; i++ {
		r := rng.New(seed*0x9E3779B97F4A7C15 + uint64(i)*0xD1B54A32D192ED03 + 77)
		// inputs: the round robin of C03 (every SEC, IAT, ADV, mixed, big) and, every other
		// file, a forward file of the SEC codes the transformations are mostly used with
		var f *ach.File
		var kind string
		if i%2 == 0 {
			f, kind = arith.GenFile(seed+1000, i/2, false)
		} else {
			kind = rng.Pick(r, forwardSECs)
			func() {
				defer func() {
					if recover() != nil {
						f = nil
					}
				}()
				f = gen.FileOfSEC(r, kind, gen.Opts{ForwardOnly: true, Addenda: r.Bool(), Offset: r.Chance(1, 3), MinBatches: 1, MaxBatches: 4, MaxEntries: 6})
			}()
		}
		if f == nil {
			m.stats["generator-failed"]++
			continue
		}
		okIn := validInput(f)
		if !okIn {
			m.stats["input-invalid"]++
		}
		tag := func(t string) string { return fmt.Sprintf("%s %s file %d", t, kind, i) }
		adv := f.IsADV()

		if want["create"] {
			g, err := recreate(f)
			if err != nil {
				m.stats["create:error"]++
			} else {
				m.file(tag("create"), g, okIn && !adv)
			}
		}
		if want["reversal"] && reversible(f) {
			g := gen.Clone(f)
			if err := arith.Safe(func() error { return g.Reversal(when) }); err != nil {
				m.stats["reversal:error"]++
			} else {
				m.file(tag("reversal"), g, okIn)
			}
		}
		if (want["flatten"] || want["merge"]) && !adv {
			sp, parts, err := split(f)
			if err != nil || !validInput(sp) {
				m.stats["split:failed"]++
			} else {
				if want["flatten"] {
					var g *ach.File
					err := arith.Safe(func() error { var e error; g, e = gen.Clone(sp).FlattenBatches(); return e })
					if err != nil || g == nil {
						m.stats["flatten:error"]++
					} else {
						m.file(tag("flatten"), g, true)
					}
				}
				if want["merge"] && len(sp.IATBatches) == 0 {
					ins, err := twoFiles(gen.Clone(sp), parts)
					allOK := err == nil
					for _, x := range ins {
						allOK = allOK && validInput(x)
					}
					if !allOK {
						m.stats["merge:inputs-failed"]++
					} else {
						var outs []*ach.File
						err := arith.Safe(func() error { var e error; outs, e = ach.MergeFiles(ins); return e })
						if err != nil {
							m.stats["merge:error"]++
						} else {
							for k, g := range outs {
								m.file(fmt.Sprintf("%s out %d", tag("merge"), k), g, true)
							}
						}
					}
				}
			}
		}
		if want["segment"] && okIn {
			var cf, df *ach.File
			err := arith.Safe(func() error {
				var e error
				cf, df, e = gen.Clone(f).SegmentFile(ach.NewSegmentFileConfiguration())
				return e
			})
			if err != nil {
				// segment:batch-number-collision is fixed in the repository (split batches keep the
				// number of their source): every error on a generated valid input counts against the run
				m.stats["segment:error"]++
			} else {
				for k, g := range []*ach.File{cf, df} {
					if g != nil && (len(g.Batches) > 0 || len(g.IATBatches) > 0) {
						m.file(fmt.Sprintf("%s half %d", tag("segment"), k), g, !adv)
					}
				}
			}
		}
	}
	if want["create"] {
		// File.Create truncates the file's entry hash to ten digits: a file whose batch hashes add up
		// to more than 10^10 (some 1500 entries) exercises that path of tab_fctl / file_control
		if g := hashHeavy(seed); g != nil {
			if h, err := recreate(g); err != nil {
				m.stats["create:error"]++
			} else {
				sum := 0
				for _, b := range h.Batches {
					sum += b.GetControl().EntryHash
				}
				if sum >= 10000000000 {
					m.stats["create:file-hash-truncated"]++
				}
				m.file("create hash-heavy file -1", h, true)
			}
		} else {
			m.stats["generator-failed"]++
		}
	}
	m.cases.Close()
	m.impl.Close()
	m.expect.Close()
	m.desc.Close()
	js, _ := json.Marshal(m.stats)
	fmt.Println(string(js))
}

// Command c15: correspondence cases and direct oracle for property C15
// (relaxation options only ever relax).
//
//	accept(O, text) := Reader with SetValidation(O) reads text without error
//	                   AND file.ValidateWith(O) passes
//
// oracle: texts x random maximal chains {} = O0 < O1 < ... < O15 over the 15
// relaxation flags; an accept -> reject step along a chain is a failure keyed by
// the flag that was added.
// corr: for each text the observations accept(T \ G) for every guard clause G of
// the Coq model (T = all 15 flags on) plus accept(O) for sampled O; the extracted
// model predicts accept(O) from the observations (CNF theorem) and the two are diffed.
package main

import (
	"encoding/json"
	"flag"
	"fmt"
	"os"
	"path/filepath"
	"sort"
	"strings"

	"github.com/moov-io/ach"

	"verifharness/internal/gen"
	"verifharness/internal/hx"
	"verifharness/internal/rng"
)

// The 15 relaxation flags in the order of the Coq enumeration (Model/OptMono.v).
var flagNames = []string{
	"BypassOriginValidation",
	"BypassDestinationValidation",
	"CustomTraceNumbers",
	"AllowZeroBatches",
	"AllowMissingFileHeader",
	"AllowMissingFileControl",
	"BypassCompanyIdentificationMatch",
	"CustomReturnCodes",
	"UnequalServiceClassCode",
	"AllowUnorderedBatchNumbers",
	"AllowInvalidCheckDigit",
	"UnequalAddendaCounts",
	"AllowInvalidAmounts",
	"AllowZeroEntryAmount",
	"AllowSpecialCharacters",
}

const nflags = 15
const top = (1 << nflags) - 1

func mkOpts(mask int) *ach.ValidateOpts {
	b := func(i int) bool { return mask&(1<<i) != 0 }
	return &ach.ValidateOpts{
		BypassOriginValidation:           b(0),
		BypassDestinationValidation:      b(1),
		CustomTraceNumbers:               b(2),
		AllowZeroBatches:                 b(3),
		AllowMissingFileHeader:           b(4),
		AllowMissingFileControl:          b(5),
		BypassCompanyIdentificationMatch: b(6),
		CustomReturnCodes:                b(7),
		UnequalServiceClassCode:          b(8),
		AllowUnorderedBatchNumbers:       b(9),
		AllowInvalidCheckDigit:           b(10),
		UnequalAddendaCounts:             b(11),
		AllowInvalidAmounts:              b(12),
		AllowZeroEntryAmount:             b(13),
		AllowSpecialCharacters:           b(14),
	}
}

// verdicts
const (
	vAccept   = 0
	vRead     = 1 // Reader.Read returned an error
	vValidate = 2 // File.ValidateWith returned an error
	vPanic    = 3
)

var vname = []string{"accept", "read-error", "validate-error", "panic"}

func accept(text string, mask int) (v int) {
	defer func() {
		if p := recover(); p != nil {
			v = vPanic
		}
	}()
	opts := mkOpts(mask)
	r := ach.NewReader(strings.NewReader(text))
	r.SetValidation(opts)
	f, err := r.Read()
	if err != nil {
		return vRead
	}
	if err := f.ValidateWith(opts); err != nil {
		return vValidate
	}
	return vAccept
}

func main() {
	if len(os.Args) < 2 {
		fmt.Fprintln(os.Stderr, "usage: c15 corr|oracle|replay ...")
		os.Exit(2)
	}
	switch os.Args[1] {
	case "corr":
		corr(os.Args[2:])
	case "oracle":
		oracle(os.Args[2:])
	case "replay":
		replay(os.Args[2:])
	default:
		fmt.Fprintln(os.Stderr, "unknown mode")
		os.Exit(2)
	}
}

// ---------------------------------------------------------------- texts

type fixture struct {
	name string
	text string
}

func loadFixtures() []fixture {
	repo := os.Getenv("VERIF_REPO")
	if repo == "" {
		repo = "/repo"
	}
	var paths []string
	for _, pat := range []string{"test/testdata/*.ach", "test/testdata/*.txt", "test/ach-*/*.ach", "test/issues/testdata/*.ach", "examples/testdata/*.ach"} {
		m, _ := filepath.Glob(filepath.Join(repo, pat))
		paths = append(paths, m...)
	}
	sort.Strings(paths)
	var out []fixture
	for _, p := range paths {
		b, err := os.ReadFile(p)
		if err != nil || len(b) == 0 || len(b) > 200000 {
			continue
		}
		rel, _ := filepath.Rel(repo, p)
		out = append(out, fixture{rel, string(b)})
	}
	return append(out, genFixtures(40)...)
}

// genFixtures renders valid files from the shared generator: every SEC code, IAT, ADV,
// returns, NOC, optional addenda, non-ASCII names.
func genFixtures(n int) []fixture {
	var out []fixture
	r := rng.FromEnv(15)
	one := func(name string, mk func() *ach.File) {
		defer func() { recover() }()
		f := mk()
		if f == nil {
			return
		}
		txt, err := gen.Text(f, false)
		if err != nil || txt == "" {
			return
		}
		out = append(out, fixture{name, txt})
	}
	secs := append(gen.AllSECs(), "IAT", ach.ADV, ach.COR)
	for i, sec := range secs {
		sec := sec
		one(fmt.Sprintf("gen:%s#%d", sec, i), func() *ach.File {
			return gen.FileOfSEC(r, sec, gen.Opts{Addenda: true, Returns: i%2 == 0, NOC: sec == ach.COR, IAT: sec == "IAT"})
		})
	}
	for i := 0; i < n; i++ {
		o := gen.Opts{IAT: r.Bool(), Returns: r.Bool(), NOC: r.Chance(1, 3), Addenda: r.Bool(), NonASCII: r.Chance(1, 4), Offset: r.Chance(1, 4), MaxBatches: r.Range(1, 4)}
		one(fmt.Sprintf("gen:mixed#%d", i), func() *ach.File { return gen.File(r, o) })
	}
	return out
}

func splitLines(text string) ([]string, string) {
	sep := "\n"
	if strings.Contains(text, "\r\n") {
		sep = "\r\n"
	}
	ls := strings.Split(text, sep)
	for len(ls) > 0 && ls[len(ls)-1] == "" {
		ls = ls[:len(ls)-1]
	}
	return ls, sep
}

// a text whose first line is longer than 94 columns is a fixed-width file with no
// line breaks: cut it so that record-level mutators apply.
func normalise(text string) string {
	ls, _ := splitLines(text)
	if len(ls) == 1 && len(ls[0]) > 94 && len(ls[0])%94 == 0 {
		var b strings.Builder
		for i := 0; i+94 <= len(ls[0]); i += 94 {
			b.WriteString(ls[0][i:i+94] + "\n")
		}
		return b.String()
	}
	return text
}

type span struct {
	rec    byte
	lo, hi int // 0-based [lo,hi)
	what   string
}

// columns whose corruption meets an option guard (plus a few that never do)
var spans = []span{
	{'1', 3, 13, "ImmediateDestination"}, {'1', 13, 23, "ImmediateOrigin"}, {'1', 33, 34, "FileIDModifier"},
	{'1', 40, 63, "ImmediateDestinationName"}, {'1', 63, 86, "ImmediateOriginName"}, {'1', 86, 94, "ReferenceCode"},
	{'5', 1, 4, "ServiceClassCode"}, {'5', 4, 20, "CompanyName"}, {'5', 20, 40, "CompanyDiscretionaryData"},
	{'5', 40, 50, "CompanyIdentification"}, {'5', 50, 53, "SEC"}, {'5', 53, 63, "CompanyEntryDescription"},
	{'5', 78, 79, "OriginatorStatusCode"}, {'5', 79, 87, "ODFIIdentification"}, {'5', 87, 94, "BatchNumber"},
	{'6', 1, 3, "TransactionCode"}, {'6', 3, 11, "RDFIIdentification"}, {'6', 11, 12, "CheckDigit"},
	{'6', 12, 29, "DFIAccountNumber"}, {'6', 29, 39, "Amount"}, {'6', 39, 54, "IdentificationNumber"},
	{'6', 54, 76, "IndividualName"}, {'6', 76, 78, "DiscretionaryData"}, {'6', 78, 79, "AddendaRecordIndicator"},
	{'6', 79, 87, "TraceODFI"}, {'6', 87, 94, "TraceSeq"},
	{'7', 1, 3, "TypeCode"}, {'7', 3, 6, "ReturnCode"}, {'7', 3, 83, "PaymentRelatedInformation"},
	{'7', 83, 87, "SequenceNumber"}, {'7', 87, 94, "EntryDetailSequenceNumber"},
	{'8', 1, 4, "ServiceClassCode"}, {'8', 4, 10, "EntryAddendaCount"}, {'8', 10, 20, "EntryHash"},
	{'8', 20, 32, "TotalDebit"}, {'8', 32, 44, "TotalCredit"}, {'8', 44, 54, "CompanyIdentification"},
	{'8', 54, 73, "MessageAuthenticationCode"}, {'8', 79, 87, "ODFIIdentification"}, {'8', 87, 94, "BatchNumber"},
	{'9', 1, 7, "BatchCount"}, {'9', 7, 13, "BlockCount"}, {'9', 13, 21, "EntryAddendaCount"},
	{'9', 21, 31, "EntryHash"}, {'9', 31, 43, "TotalDebit"}, {'9', 43, 55, "TotalCredit"},
}

var fillers = []string{"0", "1", "2", "5", "7", "9", " ", "A", "Z", "q", "@", "~", "\x7f", "-", "*", "R", "é", "ñ", "€", "¿", "\x93", "\xff"}

func setCols(line string, lo, hi int, val string) string {
	if hi > len(line) {
		return line
	}
	return line[:lo] + val + line[hi:]
}

// mutate applies one mutation to the line list and returns a short description.
func mutate(r *rng.R, ls []string, donors [][]string) ([]string, string) {
	if len(ls) == 0 {
		return []string{"1"}, "empty->1"
	}
	pickRec := func(rec byte) int {
		var idx []int
		for i, l := range ls {
			if len(l) > 0 && l[0] == rec {
				idx = append(idx, i)
			}
		}
		if len(idx) == 0 {
			return -1
		}
		return rng.Pick(r, idx)
	}
	switch k := r.Intn(25); {
	case k < 8 || k == 21: // field-aware corruption
		sp := rng.Pick(r, spans)
		i := pickRec(sp.rec)
		if i < 0 || len(ls[i]) < sp.hi {
			return ls, "noop"
		}
		w := sp.hi - sp.lo
		old := ls[i][sp.lo:sp.hi]
		var val string
		switch r.Intn(7) {
		case 0: // one character replaced
			p := r.Intn(w)
			val = old[:p] + rng.Pick(r, fillers) + old[p+1:]
		case 1: // zero filled
			val = strings.Repeat("0", w)
		case 2: // blank
			val = strings.Repeat(" ", w)
		case 3: // numeric +-1 on last digit
			b := []byte(old)
			c := b[w-1]
			if c >= '0' && c <= '9' {
				b[w-1] = '0' + (c-'0'+byte(r.Range(1, 9)))%10
			} else {
				b[w-1] = '3'
			}
			val = string(b)
		case 4: // value of the same field of another record of this kind
			j := pickRec(sp.rec)
			if j >= 0 && len(ls[j]) >= sp.hi {
				val = ls[j][sp.lo:sp.hi]
			} else {
				val = old
			}
		case 5: // shifted by one column
			val = " " + old[:w-1]
		default: // random digits
			var b strings.Builder
			for q := 0; q < w; q++ {
				b.WriteByte(byte('0' + r.Intn(10)))
			}
			val = b.String()
		}
		out := append([]string{}, ls...)
		out[i] = setCols(ls[i], sp.lo, sp.hi, val)
		return out, fmt.Sprintf("field %c.%s line %d", sp.rec, sp.what, i+1)
	case k < 10: // random column, random filler
		i := r.Intn(len(ls))
		if len(ls[i]) == 0 {
			return ls, "noop"
		}
		p := r.Intn(len(ls[i]))
		out := append([]string{}, ls...)
		out[i] = ls[i][:p] + rng.Pick(r, fillers) + ls[i][p+1:]
		return out, fmt.Sprintf("col %d line %d", p+1, i+1)
	case k < 12: // drop a record
		i := r.Intn(len(ls))
		out := append(append([]string{}, ls[:i]...), ls[i+1:]...)
		return out, fmt.Sprintf("drop line %d (%s)", i+1, first(ls[i]))
	case k == 12: // duplicate a record
		i := r.Intn(len(ls))
		out := append([]string{}, ls[:i+1]...)
		out = append(out, ls[i:]...)
		return out, fmt.Sprintf("dup line %d (%s)", i+1, first(ls[i]))
	case k == 13: // swap two records
		i, j := r.Intn(len(ls)), r.Intn(len(ls))
		out := append([]string{}, ls...)
		out[i], out[j] = out[j], out[i]
		return out, fmt.Sprintf("swap lines %d,%d", i+1, j+1)
	case k == 14: // drop file header and/or control
		var out []string
		mode := r.Intn(3)
		for _, l := range ls {
			if len(l) > 0 && ((l[0] == '1' && mode != 1) || (l[0] == '9' && mode != 0)) {
				continue
			}
			out = append(out, l)
		}
		return out, fmt.Sprintf("drop header/control mode %d", mode)
	case k == 15: // drop every batch (zero batches) or one whole batch
		var out []string
		if r.Bool() {
			for _, l := range ls {
				if len(l) > 0 && (l[0] == '1' || l[0] == '9') {
					out = append(out, l)
				}
			}
			return out, "drop all batches"
		}
		i := pickRec('5')
		if i < 0 {
			return ls, "noop"
		}
		j := i
		for j < len(ls) && !(len(ls[j]) > 0 && ls[j][0] == '8') {
			j++
		}
		out = append(append([]string{}, ls[:i]...), ls[min(j+1, len(ls)):]...)
		return out, fmt.Sprintf("drop batch lines %d-%d", i+1, j+1)
	case k == 16: // drop a batch control / batch header only
		i := pickRec(rng.Pick(r, []byte{'8', '5'}))
		if i < 0 {
			return ls, "noop"
		}
		out := append(append([]string{}, ls[:i]...), ls[i+1:]...)
		return out, fmt.Sprintf("drop line %d (%s)", i+1, first(ls[i]))
	case k == 17: // splice a batch of another fixture in before the file control
		if len(donors) == 0 {
			return ls, "noop"
		}
		d := rng.Pick(r, donors)
		var blk []string
		in := false
		for _, l := range d {
			if len(l) > 0 && l[0] == '5' && !in {
				in = true
			}
			if in {
				blk = append(blk, l)
			}
			if in && len(l) > 0 && l[0] == '8' {
				break
			}
		}
		i := pickRec('9')
		if i < 0 {
			i = len(ls)
		}
		out := append([]string{}, ls[:i]...)
		out = append(out, blk...)
		out = append(out, ls[i:]...)
		return out, "splice foreign batch"
	case k == 18: // truncate or extend a line
		i := r.Intn(len(ls))
		out := append([]string{}, ls...)
		if r.Bool() && len(ls[i]) > 2 {
			out[i] = ls[i][:r.Range(1, len(ls[i])-1)]
		} else {
			out[i] = ls[i] + strings.Repeat(rng.Pick(r, fillers), r.Range(1, 3))
		}
		return out, fmt.Sprintf("resize line %d", i+1)
	case k == 19 || k >= 22: // consistent semantic edits that reach the deeper guards
		switch r.Intn(8) {
		case 7:
			// the four-column addenda count in front of the receiving company of a CTX entry without addenda records,
			// blank or not a number: it counts as zero addenda
			var idx []int
			ctx := false
			for k, l := range ls {
				if len(l) >= 53 && l[0] == '5' {
					ctx = l[50:53] == "CTX"
				}
				if ctx && len(l) >= 79 && l[0] == '6' && l[78] == '0' {
					idx = append(idx, k)
				}
			}
			if len(idx) == 0 {
				return ls, "noop"
			}
			i := rng.Pick(r, idx)
			for q := 0; q < 58; q++ {
				if ls[i][q] >= 0x80 {
					return ls, "noop"
				}
			}
			out := append([]string{}, ls...)
			v := rng.Pick(r, []string{"    ", "    ", "ABCD", "00 0", "-001"})
			out[i] = setCols(ls[i], 54, 58, v)
			return out, fmt.Sprintf("CTX addenda count of line %d -> %q", i+1, v)
		case 5:
			// a routing number of the file header written zero-filled ("0231380104") instead of blank-filled
			// (" 231380104"): ten characters that the header parser trims back to nine
			i := pickRec('1')
			if i >= 0 && len(ls[i]) >= 23 {
				lo := rng.Pick(r, []int{3, 13})
				if ls[i][lo] == ' ' {
					out := append([]string{}, ls...)
					out[i] = setCols(ls[i], lo, lo+1, "0")
					return out, fmt.Sprintf("file header routing number at column %d zero-filled", lo+1)
				}
			}
			return ls, "noop"
		case 6:
			// the return code of one return addenda replaced by a dishonored / contested return code (R61..R77):
			// the batch then mixes return families
			var idx []int
			for k, l := range ls {
				if strings.HasPrefix(l, "799") && len(l) >= 6 {
					idx = append(idx, k)
				}
			}
			if len(idx) == 0 {
				return ls, "noop"
			}
			i := rng.Pick(r, idx)
			out := append([]string{}, ls...)
			code := rng.Pick(r, []string{"R61", "R62", "R67", "R68", "R69", "R70", "R71", "R72", "R73", "R74", "R75", "R76", "R77", "R01"})
			out[i] = setCols(ls[i], 3, 6, code)
			return out, fmt.Sprintf("return code of line %d -> %s", i+1, code)
		case 4:
			// white space other than the blank in a padding column next to the value: strings.TrimSpace removes it,
			// a parser that only strips blanks keeps it as part of the value
			sp := rng.Pick(r, []span{{'5', 40, 50, "CompanyIdentification"}, {'5', 40, 50, "CompanyIdentification"}, {'8', 44, 54, "CompanyIdentification"},
				{'5', 53, 63, "CompanyEntryDescription"}, {'5', 4, 20, "CompanyName"}, {'6', 54, 76, "IndividualName"}, {'6', 39, 54, "IdentificationNumber"},
				{'6', 12, 29, "DFIAccountNumber"}, {'1', 40, 63, "ImmediateDestinationName"}, {'1', 63, 86, "ImmediateOriginName"}, {'5', 20, 40, "CompanyDiscretionaryData"}})
			i := pickRec(sp.rec)
			if i < 0 || len(ls[i]) < sp.hi {
				return ls, "noop"
			}
			for q := 0; q < sp.hi; q++ {
				if ls[i][q] >= 0x80 {
					return ls, "noop" // byte columns are not character columns here
				}
			}
			fld := ls[i][sp.lo:sp.hi]
			t := strings.TrimRight(fld, " ")
			at := sp.lo + len(t) // first padding column behind the value
			if len(t) == len(fld) || len(t) == 0 || r.Chance(1, 4) {
				lead := len(fld) - len(strings.TrimLeft(fld, " "))
				if lead == 0 || lead == len(fld) {
					return ls, "noop"
				}
				at = sp.lo + lead - 1 // last padding column in front of the value
			}
			out := append([]string{}, ls...)
			ws := rng.Pick(r, []string{"\t", "\u00a0", "\u3000", "\v", "\u2003", "\u0085"})
			out[i] = ls[i][:at] + ws + ls[i][at+1:]
			return out, fmt.Sprintf("white space %q in the padding of %s line %d", ws, sp.what, i+1)
		case 0:
			if out, ok := zeroAmount(r, ls); ok {
				return out, "zero one entry amount, totals rebalanced"
			}
		case 1:
			if out, ok := swapBatches(r, ls); ok {
				return out, "swap two whole batches"
			}
		case 2:
			i := pickRec(rng.Pick(r, []byte{'8', '5'}))
			if i >= 0 && len(ls[i]) >= 4 {
				out := append([]string{}, ls...)
				out[i] = setCols(ls[i], 1, 4, rng.Pick(r, []string{"200", "220", "225"}))
				return out, fmt.Sprintf("service class code line %d", i+1)
			}
		default:
			if out, ok := prenoteAmount(r, ls); ok {
				return out, "transaction code <-> amount mismatch, totals rebalanced"
			}
		}
		return ls, "noop"
	default: // fuzzed bytes
		txt := []byte(strings.Join(ls, "\n"))
		n := r.Range(1, 6)
		for q := 0; q < n && len(txt) > 0; q++ {
			p := r.Intn(len(txt))
			switch r.Intn(3) {
			case 0:
				txt[p] = byte(r.Intn(256))
			case 1:
				txt = append(txt[:p], txt[p+1:]...)
			default:
				txt = append(txt[:p], append([]byte{byte(r.Intn(256))}, txt[p:]...)...)
			}
		}
		out, _ := splitLines(string(txt))
		return out, fmt.Sprintf("fuzz %d bytes", n)
	}
}


// ---- consistent edits

func atoiCols(l string, lo, hi int) (int, bool) {
	if len(l) < hi {
		return 0, false
	}
	n := 0
	for _, c := range strings.TrimSpace(l[lo:hi]) {
		if c < '0' || c > '9' {
			return 0, false
		}
		n = n*10 + int(c-'0')
	}
	return n, true
}

func putNum(l string, lo, hi, v int) string {
	if v < 0 {
		v = 0
	}
	return setCols(l, lo, hi, fmt.Sprintf("%0*d", hi-lo, v))
}

// addToTotals adds delta to the debit or credit total of the batch control that
// follows entry line i and of the file control.
func addToTotals(ls []string, i int, debit bool, delta int) bool {
	done := 0
	for j := i; j < len(ls); j++ {
		if len(ls[j]) == 0 {
			continue
		}
		if ls[j][0] == '8' && done == 0 {
			lo, hi := 32, 44
			if debit {
				lo, hi = 20, 32
			}
			v, ok := atoiCols(ls[j], lo, hi)
			if !ok {
				return false
			}
			ls[j] = putNum(ls[j], lo, hi, v+delta)
			done = 1
		}
		if ls[j][0] == '9' && done == 1 && !strings.HasPrefix(ls[j], "99") {
			lo, hi := 43, 55
			if debit {
				lo, hi = 31, 43
			}
			v, ok := atoiCols(ls[j], lo, hi)
			if !ok {
				return false
			}
			ls[j] = putNum(ls[j], lo, hi, v+delta)
			done = 2
			break
		}
	}
	return done == 2
}

func entryLines(ls []string) []int {
	var idx []int
	for i, l := range ls {
		if len(l) == 94 && l[0] == '6' {
			idx = append(idx, i)
		}
	}
	return idx
}

func zeroAmount(r *rng.R, ls []string) ([]string, bool) {
	idx := entryLines(ls)
	if len(idx) == 0 {
		return ls, false
	}
	i := rng.Pick(r, idx)
	a, ok := atoiCols(ls[i], 29, 39)
	if !ok {
		return ls, false
	}
	out := append([]string{}, ls...)
	debit := out[i][2] >= '5'
	out[i] = putNum(out[i], 29, 39, 0)
	if !addToTotals(out, i, debit, -a) {
		return ls, false
	}
	return out, true
}

// prenoteAmount turns an entry into a prenote (x3 / x8) keeping its amount, or gives
// a prenote an amount: ValidAmountForCodes then objects unless AllowInvalidAmounts.
func prenoteAmount(r *rng.R, ls []string) ([]string, bool) {
	idx := entryLines(ls)
	if len(idx) == 0 {
		return ls, false
	}
	i := rng.Pick(r, idx)
	out := append([]string{}, ls...)
	c := out[i][2]
	switch c {
	case '2':
		out[i] = setCols(out[i], 2, 3, "3")
	case '7':
		out[i] = setCols(out[i], 2, 3, "8")
	case '3', '8':
		a, ok := atoiCols(out[i], 29, 39)
		if !ok || a != 0 {
			return ls, false
		}
		out[i] = putNum(out[i], 29, 39, 100)
		if !addToTotals(out, i, c == '8', 100) {
			return ls, false
		}
	default:
		return ls, false
	}
	return out, true
}

func swapBatches(r *rng.R, ls []string) ([]string, bool) {
	type blk struct{ lo, hi int }
	var bs []blk
	start := -1
	for i, l := range ls {
		if len(l) == 0 {
			continue
		}
		if l[0] == '5' {
			start = i
		}
		if l[0] == '8' && start >= 0 {
			bs = append(bs, blk{start, i + 1})
			start = -1
		}
	}
	if len(bs) < 2 {
		return ls, false
	}
	a := r.Intn(len(bs) - 1)
	b := r.Range(a+1, len(bs)-1)
	var out []string
	out = append(out, ls[:bs[a].lo]...)
	out = append(out, ls[bs[b].lo:bs[b].hi]...)
	out = append(out, ls[bs[a].hi:bs[b].lo]...)
	out = append(out, ls[bs[a].lo:bs[a].hi]...)
	out = append(out, ls[bs[b].hi:]...)
	return out, true
}

func first(l string) string {
	if len(l) == 0 {
		return ""
	}
	return l[:1]
}

type tcase struct {
	Src   string `json:"src"`             // fixture and mutations (description only)
	Text  string `json:"text_hex"`        // the text, hex
	Order []int  `json:"order,omitempty"` // permutation of 0..14: the chain adds flags in this order
}

// good lists the fixtures accepted with every relaxation flag on (filled by prepare).
var good []int

func prepare(fx []fixture) [][]string {
	lines := make([][]string, len(fx))
	good = nil
	for i := range fx {
		lines[i], _ = splitLines(normalise(fx[i].text))
		if accept(fx[i].text, top) == vAccept {
			good = append(good, i)
		}
	}
	return lines
}

func genText(r *rng.R, fx []fixture, lines [][]string) tcase {
	i := r.Intn(len(fx))
	if len(good) > 0 && !r.Chance(1, 5) {
		i = rng.Pick(r, good)
	}
	ls := lines[i]
	desc := fx[i].name
	nm := 0
	switch k := r.Intn(10); {
	case k == 0:
		nm = 0
	case k < 6:
		nm = 1
	case k < 9:
		nm = 2
	default:
		nm = r.Range(3, 5)
	}
	for q := 0; q < nm; q++ {
		var d string
		ls, d = mutate(r, ls, lines)
		desc += "; " + d
	}
	sep := "\n"
	if r.Chance(1, 8) {
		sep = "\r\n"
	}
	text := strings.Join(ls, sep)
	if !r.Chance(1, 10) {
		text += sep
	}
	if nm == 0 {
		text = fx[i].text
	}
	return tcase{Src: desc, Text: hx.Enc(text)}
}

func perm(r *rng.R) []int {
	p := make([]int, nflags)
	for i := range p {
		p[i] = i
	}
	for i := nflags - 1; i > 0; i-- {
		j := r.Intn(i + 1)
		p[i], p[j] = p[j], p[i]
	}
	return p
}

// ---------------------------------------------------------------- oracle

type failure struct {
	Kind  string `json:"kind"`
	Key   string `json:"key"`
	What  string `json:"what"`
	Case  tcase  `json:"case"`
	From  int    `json:"accepted_under"`
	To    int    `json:"rejected_under"`
	Added string `json:"flag_added"`
}

// checkChain evaluates the 16 option sets of the chain; returns failures, the
// verdict vector and the flags whose addition turned reject into accept.
func checkChain(c tcase) ([]failure, []int) {
	text := hx.Dec(c.Text)
	var fails []failure
	vs := make([]int, 0, nflags+1)
	mask := 0
	vs = append(vs, accept(text, mask))
	for _, f := range c.Order {
		prev := mask
		mask |= 1 << f
		v := accept(text, mask)
		pv := vs[len(vs)-1]
		vs = append(vs, v)
		if pv == vAccept && v != vAccept {
			fails = append(fails, failure{Kind: "fail", Key: "mono:" + flagNames[f] + ":" + vname[v],
				What: fmt.Sprintf("text accepted under option set %s is rejected (%s) after additionally turning on %s", maskStr(prev), vname[v], flagNames[f]),
				Case: c, From: prev, To: mask, Added: flagNames[f]})
		}
	}
	// no options at all (nil) must agree with the empty option set
	if v := acceptNil(text); (v == vAccept) != (vs[0] == vAccept) {
		fails = append(fails, failure{Kind: "fail", Key: "mono:nil-vs-empty", What: "no SetValidation / Validate() disagrees with the empty ValidateOpts", Case: c})
	}
	return fails, vs
}

func acceptNil(text string) (v int) {
	defer func() {
		if p := recover(); p != nil {
			v = vPanic
		}
	}()
	r := ach.NewReader(strings.NewReader(text))
	f, err := r.Read()
	if err != nil {
		return vRead
	}
	if err := f.Validate(); err != nil {
		return vValidate
	}
	return vAccept
}

func maskStr(m int) string {
	if m == 0 {
		return "{}"
	}
	var s []string
	for i := 0; i < nflags; i++ {
		if m&(1<<i) != 0 {
			s = append(s, flagNames[i])
		}
	}
	return "{" + strings.Join(s, ",") + "}"
}

type sample struct {
	Src      string `json:"src"`
	Order    []int  `json:"order"`
	Verdicts []int  `json:"verdicts"`
}

type summary struct {
	Kind        string         `json:"kind"`
	Evaluations int            `json:"evaluations"`
	Distinct    int            `json:"distinct_nontrivial"`
	Rule        string         `json:"rule"`
	Dist        map[string]int `json:"distribution"`
	Samples     []sample       `json:"samples"`
}

func oracle(args []string) {
	fs := flag.NewFlagSet("oracle", flag.ExitOnError)
	out := fs.String("out", "", "output directory")
	n := fs.Int("n", 3000, "generated texts")
	corpus := fs.String("corpus", "", "corpus directory (cases run first)")
	fs.Parse(args)
	res := hx.Create(filepath.Join(*out, "oracle.jsonl"))
	enc := func(v any) {
		b, _ := json.Marshal(v)
		res.Printf("%s\n", b)
	}
	sum := summary{Kind: "summary", Dist: map[string]int{}, Rule: "one evaluation = one (text, option set) pair: Reader.SetValidation(O)+Read then File.ValidateWith(O); every text is evaluated on the 16 sets of a random maximal chain over the 15 relaxation flags; a text is non-trivial when its chain is not constant (it is rejected under {} and accepted further up), distinct by text bytes"}
	seen := map[string]bool{}
	run := func(c tcase) {
		fails, vs := checkChain(c)
		sum.Evaluations += len(vs) + 1
		for _, f := range fails {
			enc(f)
		}
		nontriv := false
		for i := 1; i < len(vs); i++ {
			if vs[i-1] != vAccept && vs[i] == vAccept {
				sum.Dist["relaxed-by:"+flagNames[c.Order[i-1]]]++
				nontriv = true
			}
		}
		switch {
		case vs[0] == vAccept:
			sum.Dist["accepted-under-empty"]++
		case vs[len(vs)-1] != vAccept:
			sum.Dist["rejected-under-all"]++
		default:
			sum.Dist["rejected-under-empty-accepted-under-all"]++
		}
		for _, v := range vs {
			if v == vPanic {
				sum.Dist["panic"]++
				break
			}
		}
		if nontriv && !seen[c.Text] {
			seen[c.Text] = true
			sum.Distinct++
			if len(sum.Samples) < 5 && sum.Distinct%23 == 1 {
				sum.Samples = append(sum.Samples, sample{c.Src, c.Order, vs})
			}
		}
	}
	r := rng.FromEnv(1515)
	for _, c := range corpusCases(*corpus) {
		if len(c.Order) == nflags {
			run(c)
		}
		for q := 0; q < 3; q++ {
			c.Order = perm(r)
			run(c)
		}
	}
	fx := loadFixtures()
	if len(fx) == 0 {
		fmt.Fprintln(os.Stderr, "no fixtures found under $VERIF_REPO/test")
		os.Exit(3)
	}
	lines := prepare(fx)
	// every fixture unchanged, two chains each
	for i := range fx {
		for q := 0; q < 2; q++ {
			run(tcase{Src: fx[i].name, Text: hx.Enc(fx[i].text), Order: perm(r)})
		}
	}
	for i := 0; i < *n; i++ {
		c := genText(r, fx, lines)
		c.Order = perm(r)
		run(c)
	}
	sum.Dist["fixtures"] = len(fx)
	enc(sum)
	res.Close()
}

func corpusCases(dir string) []tcase {
	var out []tcase
	if dir == "" {
		return out
	}
	names, _ := filepath.Glob(filepath.Join(dir, "*.json"))
	sort.Strings(names)
	for _, p := range names {
		b, err := os.ReadFile(p)
		if err != nil {
			continue
		}
		var rp struct {
			Input tcase `json:"input"`
		}
		if json.Unmarshal(b, &rp) == nil && rp.Input.Text != "" {
			out = append(out, rp.Input)
		}
	}
	return out
}

// ---------------------------------------------------------------- correspondence

// corr writes cases.txt for the extracted model and impl.txt with the implementation's
// answers, line by line:
//
//	T <bits>   one text: bits[j] = accept(T \ G_j) for the j-th clause of the model's family
//	           (clauses file: one mask per line, printed by the extracted model); impl: "T"
//	M <mask>   impl: accept(mask) as 0/1; the model predicts it from the last T line
func corr(args []string) {
	fs := flag.NewFlagSet("corr", flag.ExitOnError)
	out := fs.String("out", "", "output directory")
	clausesFile := fs.String("clauses", "", "file with the model's guard clauses (one mask per line)")
	n := fs.Int("n", 300, "texts")
	per := fs.Int("per", 24, "random option sets per text")
	full := fs.Int("full", 0, "texts evaluated on all 2^15 option sets")
	corpus := fs.String("corpus", "", "corpus directory")
	fs.Parse(args)
	var clauses []int
	b, err := os.ReadFile(*clausesFile)
	if err != nil {
		fmt.Fprintln(os.Stderr, err)
		os.Exit(2)
	}
	for _, l := range strings.Fields(string(b)) {
		var m int
		fmt.Sscanf(l, "%d", &m)
		clauses = append(clauses, m)
	}
	cases := hx.Create(filepath.Join(*out, "cases.txt"))
	impl := hx.Create(filepath.Join(*out, "impl.txt"))
	texts := hx.Create(filepath.Join(*out, "texts.txt"))
	fx := loadFixtures()
	lines := prepare(fx)
	r := rng.FromEnv(151515)
	total, nontrivial, evals := 0, 0, 0
	one := func(c tcase, all bool) {
		text := hx.Dec(c.Text)
		cache := map[int]bool{}
		acc := func(mask int) bool {
			if v, ok := cache[mask]; ok {
				return v
			}
			evals++
			v := accept(text, mask) == vAccept
			cache[mask] = v
			return v
		}
		bits := make([]byte, len(clauses))
		differ := false
		for j, g := range clauses {
			bits[j] = '0'
			if acc(top &^ g) {
				bits[j] = '1'
			}
			if bits[j] != bits[0] {
				differ = true
			}
		}
		if differ {
			nontrivial++
		}
		cases.Printf("T %s\n", bits)
		impl.Printf("T\n")
		texts.Printf("%s %s\n", c.Text, hx.Enc(c.Src))
		emit := func(mask int) {
			cases.Printf("M %d\n", mask)
			if acc(mask) {
				impl.Printf("1\n")
			} else {
				impl.Printf("0\n")
			}
			texts.Printf("-\n")
			total++
		}
		if all {
			for m := 0; m <= top; m++ {
				emit(m)
			}
			return
		}
		emit(0)
		emit(top)
		mask := 0
		for _, f := range perm(r) {
			mask |= 1 << f
			emit(mask)
		}
		for f := 0; f < nflags; f++ {
			emit(1 << f)
		}
		for q := 0; q < *per; q++ {
			m := int(r.U64() & top)
			if r.Bool() {
				m |= int(r.U64() & top)
			}
			emit(m)
		}
	}
	for _, c := range corpusCases(*corpus) {
		one(c, false)
	}
	for i := range fx {
		one(tcase{Src: fx[i].name, Text: hx.Enc(fx[i].text)}, false)
	}
	for i := 0; i < *n; i++ {
		one(genText(r, fx, lines), i < *full)
	}
	cases.Close()
	impl.Close()
	texts.Close()
	fmt.Printf("{\"cases\":%d,\"texts_where_options_matter\":%d,\"clauses\":%d,\"evaluations\":%d}\n", total, nontrivial, len(clauses), evals)
}

// ---------------------------------------------------------------- replay

func replay(args []string) {
	if len(args) < 1 {
		fmt.Fprintln(os.Stderr, "usage: c15 replay <file>")
		os.Exit(2)
	}
	b, err := os.ReadFile(args[0])
	if err != nil {
		fmt.Fprintln(os.Stderr, err)
		os.Exit(2)
	}
	var rp struct {
		Input tcase `json:"input"`
	}
	if err := json.Unmarshal(b, &rp); err != nil || rp.Input.Text == "" {
		fmt.Println("replay file carries no input (obligation / correspondence failure): nothing to run")
		os.Exit(0)
	}
	c := rp.Input
	if len(c.Order) != nflags {
		c.Order = perm(rng.FromEnv(1515))
	}
	fails, vs := checkChain(c)
	fmt.Printf("chain order %v verdicts %v\n", c.Order, vs)
	for _, f := range fails {
		f.Case.Text = fmt.Sprintf("<%d bytes>", len(hx.Dec(c.Text)))
		j, _ := json.Marshal(f)
		fmt.Println(string(j))
	}
	if len(fails) > 0 {
		os.Exit(1)
	}
	fmt.Println("no failure on this input")
}

package main

// Phase 4 of C16: the per-call-site model and sinks / sources that answer with an
// arbitrary sequence of responses (coq/Proto/BufIOSeq.v).  One pass (`c16 seq`)
// produces the correspondence cases for ocaml/c16seq/driver.ml together with the
// observations of the real Writer / Reader, and judges the property directly on
// every observation (oracle.jsonl).

import (
	"bytes"
	"encoding/json"
	"errors"
	"flag"
	"fmt"
	"io"
	"path/filepath"
	"sort"
	"strconv"
	"strings"
	"sync"

	"github.com/moov-io/ach"
	"github.com/moov-io/base"

	"verifharness/internal/gen"
	"verifharness/internal/hx"
	"verifharness/internal/rng"
)

// ---------------------------------------------------------------- the writeLine calls of one Write

type siteLine struct {
	Site int
	Line string
}

// callSeq mirrors the iteration of writer.go: every writeLine call of Write,
// writeBatch and writeIATBatch in order, with the ordinal of its call site in source
// order (coq/Model/WriterSiteTable.v pins what each ordinal stands for).  Absent
// records (String() == "") are listed too: the call is made and returns at once.
type callSeq struct {
	Hdr, Ctl   string
	Batch, IAT []siteLine
	ADV        bool
}

func lineOf(e interface{ String() string }) (s string) {
	defer func() {
		if r := recover(); r != nil {
			s = ""
		}
	}()
	if e == nil {
		return ""
	}
	return e.String()
}

func callSequence(f *ach.File) callSeq {
	cs := callSeq{Hdr: lineOf(&f.Header), ADV: f.IsADV()}
	b := func(site int, e interface{ String() string }) { cs.Batch = append(cs.Batch, siteLine{site, lineOf(e)}) }
	for _, batch := range f.Batches {
		b(0, batch.GetHeader())
		if !cs.ADV {
			for _, entry := range batch.GetEntries() {
				b(1, entry)
				b(2, entry.Addenda02)
				for _, a := range entry.Addenda05 {
					b(3, a)
				}
				b(4, entry.Addenda98)
				b(5, entry.Addenda98Refused)
				b(6, entry.Addenda99)
				b(7, entry.Addenda99Dishonored)
				b(8, entry.Addenda99Contested)
			}
		} else {
			for _, entry := range batch.GetADVEntries() {
				b(9, entry)
				b(10, entry.Addenda99)
			}
		}
		if batch.GetHeader().StandardEntryClassCode != ach.ADV {
			b(11, batch.GetControl())
		} else {
			b(12, batch.GetADVControl())
		}
	}
	i := func(site int, e interface{ String() string }) { cs.IAT = append(cs.IAT, siteLine{site, lineOf(e)}) }
	for _, ib := range f.IATBatches {
		i(0, ib.GetHeader())
		for _, entry := range ib.GetEntries() {
			i(1, entry)
			i(2, entry.Addenda10)
			i(3, entry.Addenda11)
			i(4, entry.Addenda12)
			i(5, entry.Addenda13)
			i(6, entry.Addenda14)
			i(7, entry.Addenda15)
			i(8, entry.Addenda16)
			for _, a := range entry.Addenda17 {
				i(9, a)
			}
			for _, a := range entry.Addenda18 {
				i(10, a)
			}
			i(11, entry.Addenda98)
			i(12, entry.Addenda99)
		}
		i(13, ib.GetControl())
	}
	if !cs.ADV {
		cs.Ctl = lineOf(&f.Control)
	} else {
		cs.Ctl = lineOf(&f.ADVControl)
	}
	return cs
}

// G <le> <adv> <header> <control> <nb> <ni> (<site> <line>)*
func (cs callSeq) caseLine(le string) string {
	var sb strings.Builder
	adv := 0
	if cs.ADV {
		adv = 1
	}
	fmt.Fprintf(&sb, "G %s %d %s %s %d %d", hx.Enc(le), adv, hx.Enc(cs.Hdr), hx.Enc(cs.Ctl), len(cs.Batch), len(cs.IAT))
	for _, l := range cs.Batch {
		fmt.Fprintf(&sb, " %d %s", l.Site, hx.Enc(l.Line))
	}
	for _, l := range cs.IAT {
		fmt.Fprintf(&sb, " %d %s", l.Site, hx.Enc(l.Line))
	}
	return sb.String()
}

// ---------------------------------------------------------------- scripted io.Writer

// sresp is the answer to one Write(p): min(Take, len p) bytes are taken, Err returned.
type sresp struct {
	Take int
	Err  string // "", "inj", "short"
}

func (r sresp) String() string {
	if r.Err == "" {
		return strconv.Itoa(r.Take)
	}
	return fmt.Sprintf("%d:%s", r.Take, r.Err)
}

func scriptString(s []sresp) string {
	var p []string
	for _, r := range s {
		p = append(p, r.String())
	}
	if len(p) == 0 {
		return "-"
	}
	return strings.Join(p, ",")
}

func parseScript(s string) []sresp {
	var out []sresp
	if s == "-" || s == "" {
		return out
	}
	for _, t := range strings.Split(s, ",") {
		r := sresp{}
		if i := strings.IndexByte(t, ':'); i >= 0 {
			r.Err = t[i+1:]
			t = t[:i]
		}
		r.Take, _ = strconv.Atoi(t)
		out = append(out, r)
	}
	return out
}

// scriptSink answers its i-th Write call with script[i]; after the script it is healthy.
type scriptSink struct {
	script []sresp
	got    []byte
	calls  int
	bad    bool // some answer so far was an error or a short count
	late   int  // calls received after such an answer
}

func (s *scriptSink) Write(p []byte) (int, error) {
	if s.bad {
		s.late++
	}
	s.calls++
	if len(s.script) == 0 {
		s.got = append(s.got, p...)
		return len(p), nil
	}
	r := s.script[0]
	s.script = s.script[1:]
	n := r.Take
	if n > len(p) {
		n = len(p)
	}
	if n < 0 {
		n = 0
	}
	s.got = append(s.got, p[:n]...)
	var err error
	switch r.Err {
	case "inj":
		err = errInjected
	case "short":
		err = io.ErrShortWrite
	}
	if err != nil || n < len(p) {
		s.bad = true
	}
	return n, err
}

type sqobs struct {
	Out, Flush string
	Got, Calls int
	Prefix     bool
	Bad        bool
	Late       int
	Rest       int // answers of the script never asked for
	Full       bool
}

func (o sqobs) line() string {
	p, b := 0, 0
	if o.Prefix {
		p = 1
	}
	if o.Bad {
		b = 1
	}
	return fmt.Sprintf("%s %s %d %d p%d b%d l%d r%d", o.Out, o.Flush, o.Got, o.Calls, p, b, o.Late, o.Rest)
}

func runSeqWrite(f *ach.File, bypass bool, le string, script []sresp, clean []byte) (o sqobs) {
	sink := &scriptSink{script: append([]sresp(nil), script...)}
	func() {
		defer func() {
			if r := recover(); r != nil {
				o.Out = "panic"
			}
		}()
		w := ach.NewWriterWithOpts(sink, &ach.WriteOpts{LineEnding: le})
		w.BypassValidation = bypass
		o.Out = class(w.Write(f))
		o.Flush = class(w.Flush())
	}()
	o.Got, o.Calls, o.Bad, o.Late, o.Rest = len(sink.got), sink.calls, sink.bad, sink.late, len(sink.script)
	o.Prefix = bytes.HasPrefix(clean, sink.got)
	o.Full = bytes.Equal(clean, sink.got)
	return o
}

func judgeSeqWrite(o sqobs) (key, what string) {
	switch {
	case o.Out == "panic":
		return "seqwrite:panic", "Writer.Write panicked under a scripted io.Writer"
	case o.Bad && o.Out == "ok":
		return "seqwrite:nil-error", fmt.Sprintf("Write returned nil although an answer of the io.Writer was an error or a short count; the sink holds %d bytes", o.Got)
	case o.Bad && o.Flush == "ok":
		return "seqflush:nil-error-after-failed-write", "Flush returned nil although an answer of the io.Writer was an error or a short count"
	case o.Out == "ok" && !o.Full:
		return "seqwrite:nil-error:incomplete-output", "Write returned nil but the sink does not hold the complete output"
	case !o.Bad && (o.Out != "ok" || o.Flush != "ok"):
		return "seqwrite:false-error", "Write / Flush failed although every answer of the io.Writer was complete and error free"
	case !o.Prefix:
		return "seqwrite:garbled-output", "the bytes delivered to the sink are not a prefix of the healthy output"
	}
	return "", ""
}

// scripts for one target: sizes = the Write calls a healthy sink sees.
func seqWriteScripts(sizes []int, level int, r *rng.R) [][]sresp {
	var out [][]sresp
	good := func(n int) []sresp {
		s := make([]sresp, n)
		for i := range s {
			s[i] = sresp{Take: 4096}
		}
		return s
	}
	stride := 5
	if level > 0 {
		stride = 2
	}
	for i, sz := range sizes {
		for n := 0; n <= sz; n++ {
			// the i-th answer fails once, the sink is healthy afterwards: every byte offset
			out = append(out, append(good(i), sresp{n, "inj"}))
			if n%stride == i%stride {
				out = append(out, append(good(i), sresp{n, ""}), append(good(i), sresp{n, "short"}))
			}
		}
	}
	// several faulty answers, good ones in between
	nr := 150 + 450*level
	for k := 0; k < nr; k++ {
		var s []sresp
		for i := 0; i < len(sizes)+2; i++ {
			switch r.Intn(6) {
			case 0:
				s = append(s, sresp{r.Intn(4200), "inj"})
			case 1:
				s = append(s, sresp{r.Intn(4096), ""})
			case 2:
				s = append(s, sresp{r.Intn(4200), "short"})
			default:
				s = append(s, sresp{Take: 4096 + r.Intn(3)})
			}
		}
		out = append(out, s)
	}
	out = append(out, nil)
	return out
}

// ---------------------------------------------------------------- scripted io.Reader

// rresp: text[From:To] is delivered (over several calls when the caller's buffer is
// smaller) and Ev, if any, is returned together with its last byte.
type rresp struct {
	From, To int
	Ev       string // "", "eof", "inj", "ueof"
}

func (r rresp) String() string {
	if r.Ev == "" {
		return fmt.Sprintf("%d-%d", r.From, r.To)
	}
	return fmt.Sprintf("%d-%d:%s", r.From, r.To, r.Ev)
}

func rscriptString(s []rresp) string {
	var p []string
	for _, r := range s {
		p = append(p, r.String())
	}
	if len(p) == 0 {
		return "-"
	}
	return strings.Join(p, ",")
}

func parseRScript(s string) []rresp {
	var out []rresp
	if s == "-" || s == "" {
		return out
	}
	for _, t := range strings.Split(s, ",") {
		r := rresp{}
		if i := strings.IndexByte(t, ':'); i >= 0 {
			r.Ev = t[i+1:]
			t = t[:i]
		}
		fmt.Sscanf(t, "%d-%d", &r.From, &r.To)
		out = append(out, r)
	}
	return out
}

type revent struct {
	Kind  string
	Total int // bytes delivered up to and including this response
	N     int // bytes delivered by the call that returned the event
}

// scriptSrc never repeats an event: what follows a response is the next response.
type scriptSrc struct {
	text   []byte
	rs     []rresp
	idx    int
	off    int
	used   int
	total  int
	events []revent
}

func (s *scriptSrc) Read(p []byte) (int, error) {
	for {
		if s.idx >= len(s.rs) {
			return 0, io.EOF
		}
		r := s.rs[s.idx]
		data := s.text[r.From+s.off : r.To]
		if len(data) > len(p) {
			n := copy(p, data)
			s.off += n
			s.total += n
			return n, nil
		}
		n := copy(p, data)
		s.total += n
		s.idx++
		s.off = 0
		s.used++
		switch r.Ev {
		case "":
			if n == 0 {
				continue
			}
			return n, nil
		case "eof":
			s.events = append(s.events, revent{"eof", s.total, n})
			return n, io.EOF
		case "ueof":
			s.events = append(s.events, revent{"ueof", s.total, n})
			return n, io.ErrUnexpectedEOF
		default:
			s.events = append(s.events, revent{"inj", s.total, n})
			return n, errInjected
		}
	}
}

func classSeq(err error) string {
	switch {
	case err == nil:
		return "ok"
	case errors.Is(err, errInjected):
		return "inj"
	case errors.Is(err, io.ErrUnexpectedEOF):
		return "ueof"
	}
	if _, ok := err.(base.ErrorList); ok {
		if base.Has(err, ach.ErrFileTooLong) {
			return "toolong"
		}
		return "list" // the errors collected while parsing
	}
	return "plain" // "nil scanner"
}

type srobs struct {
	Class  string
	Used   int
	Events []revent
}

// m <= 0: the default maxLines.
func runSeqRead(text []byte, rs []rresp, m int, perm bool) (o srobs) {
	src := &scriptSrc{text: text, rs: rs}
	func() {
		defer func() {
			if r := recover(); r != nil {
				o.Class = "panic"
			}
		}()
		rd := ach.NewReader(src)
		if m > 0 {
			rd.SetMaxLines(m)
		}
		if perm {
			opts := permissiveOpts
			rd.SetValidation(&opts)
		}
		_, err := rd.Read()
		o.Class = classSeq(err)
	}()
	o.Used, o.Events = src.used, src.events
	return o
}

func (o srobs) line(m int) string {
	// how far the scanner had read ahead when the maxLines return fired depends on buffer sizes
	if m > 0 {
		return o.Class + " c-"
	}
	return fmt.Sprintf("%s c%d", o.Class, o.Used)
}

// judgeSeqRead: the property evaluated on one observation.
func judgeSeqRead(rs []rresp, m int, o srobs) (key, what string) {
	if o.Class == "panic" {
		return "seqread:panic", "Reader.Read panicked under a scripted io.Reader"
	}
	if o.Class != "ok" {
		return "", ""
	}
	for _, e := range o.Events {
		if e.Kind == "eof" {
			continue
		}
		switch {
		case e.N > 0 && e.Total == 1024:
			return "read:nil-error:preview-boundary:error-with-data", fmt.Sprintf("Read returned a nil error although the io.Reader returned an error (%s) together with the byte that completes charset's 1024-byte preview; io.ReadFull drops it", e.Kind)
		case e.Kind == "ueof" && e.Total < 1024:
			return "read:nil-error:charset-preview:unexpected-eof", "Read returned a nil error although the io.Reader failed with io.ErrUnexpectedEOF inside the 1024-byte preview"
		default:
			where := "stream"
			if e.Total < 1024 {
				where = "charset-preview"
			}
			return "seqread:nil-error:" + where + ":" + e.Kind, fmt.Sprintf("Read returned a nil error although a Read call of the io.Reader returned an error after %d bytes", e.Total)
		}
	}
	// no error was consumed; did Read stop in front of one?
	for _, r := range rs {
		if r.Ev == "eof" {
			break
		}
		if r.Ev != "" {
			if m > 0 {
				return "seqread:nil-error:maxlines:source-failure-never-reached", "Read returned a nil error without reading up to the failure of the io.Reader (maxLines set)"
			}
			return "seqread:nil-error:source-failure-never-reached", "Read returned a nil error without reading up to the failure of the io.Reader"
		}
	}
	return "", ""
}

type rcase struct {
	RS   []rresp
	M    int
	Perm bool
}

func lineCount(text []byte) int {
	n := 0
	for _, l := range bytes.FieldsFunc(text, func(c rune) bool { return c == '\n' || c == '\r' }) {
		n += (len([]rune(string(l))) + 93) / 94
	}
	return n
}

func seqReadCases(text []byte, level int, r *rng.R) []rcase {
	n := len(text)
	var out []rcase
	once := func(k int, ev string) []rresp { return []rresp{{0, k, ""}, {k, k, ev}, {k, n, ""}} }
	with := func(k int, ev string) []rresp { return []rresp{{0, k, ev}, {k, n, ""}} }
	for k := 0; k <= n; k++ {
		// fails once after k bytes, then delivers the rest / the error comes with the last bytes
		out = append(out, rcase{once(k, "inj"), 0, k%2 == 0}, rcase{with(k, "inj"), 0, k%2 == 1})
		if level > 0 || k%3 == 0 || (k > 1000 && k < 1050) {
			out = append(out, rcase{once(k, "ueof"), 0, k%2 == 1}, rcase{with(k, "ueof"), 0, k%2 == 0})
		}
		if k%7 == 0 || (k > 1000 && k < 1050) {
			out = append(out, rcase{once(k, "eof"), 0, true}, rcase{with(k, "eof"), 0, k%2 == 0})
		}
	}
	// maxLines around the number of lines of the text
	L := lineCount(text)
	for _, m := range []int{3, L - 1, L} {
		if m < 1 {
			continue
		}
		out = append(out, rcase{[]rresp{{0, n, ""}}, m, false}, rcase{[]rresp{{0, n, ""}}, m, true})
		for k := 0; k <= n; k += 5 {
			out = append(out, rcase{once(k, "inj"), m, k%2 == 0})
		}
		for k := 1000; k <= n && k < 1050; k++ {
			out = append(out, rcase{with(k, "inj"), m, true})
		}
	}
	// several events, arbitrary chunking
	nr := 300 + 900*level
	for i := 0; i < nr; i++ {
		cuts := map[int]bool{}
		for j := r.Range(1, 6); j > 0; j-- {
			cuts[r.Intn(n+1)] = true
		}
		if n >= 1024 && r.Intn(3) == 0 {
			cuts[1024] = true
		}
		var ks []int
		for k := range cuts {
			ks = append(ks, k)
		}
		sort.Ints(ks)
		ks = append(ks, n)
		var rs []rresp
		from := 0
		for _, k := range ks {
			ev := ""
			switch r.Intn(8) {
			case 0, 1:
				ev = "inj"
			case 2:
				ev = "ueof"
			case 3:
				ev = "eof"
			}
			switch {
			case ev != "" && r.Bool():
				rs = append(rs, rresp{from, k, ""}, rresp{k, k, ev})
			case k > from || ev != "":
				rs = append(rs, rresp{from, k, ev})
			}
			from = k
		}
		m := 0
		if r.Intn(4) == 0 {
			m = r.Range(1, L+1)
		}
		out = append(out, rcase{rs, m, r.Bool()})
	}
	return out
}

// ---------------------------------------------------------------- the pass

type seqTarget struct {
	S     *sample
	LE    string
	Light bool // only the fault-at-offset sweep: the file is there to reach one call site with a failing flush
}

// lines: the records Write emits before the padding.
func (cs callSeq) lines() int {
	n := 2
	for _, l := range cs.Batch {
		if l.Line != "" {
			n++
		}
	}
	for _, l := range cs.IAT {
		if l.Line != "" {
			n++
		}
	}
	return n
}

// advOfLines draws ADV files until one has exactly `lines` records: with 43 (LF) / 42 (CRLF)
// records the `Available() < 94` flush of writeLine happens inside the call that writes
// the file control, the only way to make the `&file.ADVControl` call site see an error.
func advOfLines(r *rng.R, lines int) *sample {
	for try := 0; try < 3000; try++ {
		s := genSample(fmt.Sprintf("ADV:%d-lines", lines), func() *ach.File {
			return gen.FileOfSEC(r.Fork(), "ADV", gen.Opts{MinBatches: 1, MaxBatches: 2, MaxEntries: 40})
		})
		if s == nil {
			continue
		}
		if f, _ := parse(s.Text); f != nil && callSequence(f).lines() == lines {
			return s
		}
	}
	return nil
}

func seqTargets(level int, r *rng.R) []seqTarget {
	var out []seqTarget
	add := func(s *sample, les ...string) {
		if s == nil {
			return
		}
		for _, le := range les {
			out = append(out, seqTarget{s, le, false})
		}
	}
	adv := genSample("ADV", func() *ach.File { return gen.ADVFile(r.Fork()) })
	mixed := genSample("mixed", func() *ach.File {
		return gen.File(r.Fork(), gen.Opts{IAT: true, Returns: true, NOC: true, Addenda: true, MaxBatches: 2, MaxEntries: 2})
	})
	add(fixture("test/testdata/ppd-debit.ach"), "\n")
	add(adv, "\n", "\r\n")
	add(mixed, "\n")
	add(fixture("test/testdata/iat-debit.ach"), "\r\n")
	add(genPPD([]int{2, 1}, true), "\n")
	add(genPPD([]int{r.Range(45, 58)}, false), "\n") // a mid-stream flush inside writeBatch
	// files whose 43rd (LF) / 42nd (CRLF) record is the file control, ADV and not, and an IAT file
	// long enough for a flush inside writeIATBatch: each reaches one call site of Write with a failing flush
	light := func(s *sample, le string) {
		if s != nil {
			out = append(out, seqTarget{s, le, true})
		}
	}
	light(advOfLines(r, 43), "\n")
	light(advOfLines(r, 42), "\r\n")
	light(genPPD([]int{39}, false), "\n")
	light(genPPD([]int{38}, false), "\r\n")
	light(genSample("IAT:long", func() *ach.File {
		return gen.FileOfSEC(r.Fork(), "IAT", gen.Opts{Addenda: true, MinBatches: 3, MaxBatches: 3, MaxEntries: 3})
	}), "\n")
	if level == 0 {
		return out
	}
	add(genPPD([]int{37}, false), "\n", "\r\n")
	secs := gen.AllSECs()
	for i := 0; i < 4*level; i++ {
		sec := secs[r.Intn(len(secs))]
		add(genSample(sec, func() *ach.File {
			return gen.FileOfSEC(r.Fork(), sec, gen.Opts{Returns: true, Addenda: true, NonASCII: i%2 == 0, MaxBatches: 2, MaxEntries: 3})
		}), "\n")
	}
	add(genSample("IAT", func() *ach.File {
		return gen.FileOfSEC(r.Fork(), "IAT", gen.Opts{Addenda: true, MaxBatches: 2, MaxEntries: 2})
	}), "\n", "\r\n")
	add(genPPD([]int{20, 20, 41}, true), "\n")
	return out
}

func seqPass(args []string) {
	fs := flag.NewFlagSet("seq", flag.ExitOnError)
	out := fs.String("out", "", "output directory")
	level := fs.Int("level", 0, "0 quick, 1 thorough, 2 extended search")
	shards := fs.Int("shards", 16, "number of self-contained case files (cases-NN.txt / impl-NN.txt)")
	corpus := fs.String("corpus", "", "corpus directory (seq cases run first)")
	fs.Parse(args)
	res := hx.Create(filepath.Join(*out, "oracle.jsonl"))
	var mu sync.Mutex
	perKey := map[string]int{}
	emit := func(f failure) {
		mu.Lock()
		defer mu.Unlock()
		perKey[f.Key]++
		if perKey[f.Key] > 3 {
			return
		}
		b, _ := json.Marshal(f)
		res.Printf("%s\n", b)
	}
	sum := summary{Kind: "summary", Dist: map[string]int{}, Exhaustive: true,
		Rule: "each sampled file x (a) every Write call of the sink x every number of bytes taken 0..len(p) answered once with an error (then healthy), short counts with and without io.ErrShortWrite at a stride, random scripts with several faulty answers, through ach.NewWriterWithOpts(scriptSink).Write+Flush; (b) every offset k: the io.Reader fails once after k bytes and then delivers the rest / returns the error together with the last bytes, kinds {error, unexpected-eof, eof}, SetMaxLines around the line count, random scripts with several events and chunkings, default and permissive ValidateOpts, through ach.NewReader(scriptSrc).Read; non-trivial = a faulty answer / an event was actually consumed; distinct by (file, line ending, script)"}

	for _, c := range corpusCases(*corpus) {
		if c.Side != "seqwrite" && c.Side != "seqread" {
			continue
		}
		sum.Evaluations++
		sum.Dist["corpus"]++
		for _, f := range replayCase(c) {
			emit(f)
		}
	}

	r := rng.FromEnv(1640 + uint64(*level))
	var ctxs []corrEntry
	var entries []corrEntry
	for _, tg := range seqTargets(*level, r) {
		s, le := tg.S, tg.LE
		t := newTarget(s, le)
		if t == nil {
			continue
		}
		f0, _ := parse(s.Text)
		cs := callSequence(f0)
		name := s.Name + "/" + leName(le)
		sum.Files = append(sum.Files, fmt.Sprintf("%s (%d bytes, %d+%d batch/IAT calls)", name, len(t.Clean), len(cs.Batch), len(cs.IAT)))
		ctxs = append(ctxs, corrEntry{0, cs.caseLine(le), "full " + hx.Enc(string(t.Clean))})
		fctx := len(ctxs) - 1

		// (1) per-site model, fault-at-offset sink: every offset for a transient hard
		// fault, the other kinds at a stride
		var fls []wfault
		stride := 11
		if *level > 0 {
			stride = 3
		}
		if tg.Light {
			stride *= 4
		}
		for k := 0; k <= len(t.Clean); k++ {
			fls = append(fls, wfault{"hard", true, k})
			for i, kind := range sinkKinds {
				for j, tr := range []bool{false, true} {
					if (kind != "hard" || !tr) && k%stride == (2*i+j)%stride {
						fls = append(fls, wfault{kind, tr, k})
					}
				}
			}
		}
		obs := make([]wobs, len(fls))
		parallel(len(fls), func() func(int) {
			f, _ := parse(s.Text)
			return func(i int) { obs[i] = runWrite(f, s.Bypass, le, fls[i].K, fls[i].Kind, fls[i].Transient, t.Clean) }
		})
		for i, fl := range fls {
			tr := 0
			if fl.Transient {
				tr = 1
			}
			entries = append(entries, corrEntry{fctx, fmt.Sprintf("O %s %d %d", fl.Kind, tr, fl.K), obs[i].line()})
			sum.Evaluations++
			sum.Dist["site-write:"+fl.Kind]++
			if obs[i].Tripped {
				sum.Distinct++
			}
			if key, what := judgeWrite(t, fl, obs[i]); key != "" {
				emit(failure{"fail", key, what, caseW{Side: "write", File: s.Name, TextHex: hx.Enc(string(s.Text)), Bypass: s.Bypass, LE: leName(le), Kind: fl.Kind, Transient: fl.Transient, K: fl.K, Len: len(t.Clean)}, obs[i]})
			}
		}

		if tg.Light {
			continue
		}

		// (2) scripted sink
		scripts := seqWriteScripts(t.Sizes, *level, r)
		sobs := make([]sqobs, len(scripts))
		parallel(len(scripts), func() func(int) {
			f, _ := parse(s.Text)
			return func(i int) { sobs[i] = runSeqWrite(f, s.Bypass, le, scripts[i], t.Clean) }
		})
		for i, sc := range scripts {
			entries = append(entries, corrEntry{fctx, "Q " + scriptString(sc), sobs[i].line()})
			sum.Evaluations++
			sum.Dist["seq-write"]++
			if sobs[i].Bad {
				sum.Distinct++
			}
			mk := func(withText bool) caseW {
				c := caseW{Side: "seqwrite", File: s.Name, Bypass: s.Bypass, LE: leName(le), Script: scriptString(sc), Len: len(t.Clean)}
				if withText {
					c.TextHex = hx.Enc(string(s.Text))
				}
				return c
			}
			if key, what := judgeSeqWrite(sobs[i]); key != "" {
				emit(failure{"fail", key, what, mk(true), sobs[i]})
			}
			if len(sum.Samples) < 3 && i%2503 == 700 {
				sum.Samples = append(sum.Samples, mk(false))
			}
		}

		// (3) scripted source over this output
		text := t.Clean
		if len(text) > 2600 && *level == 0 {
			continue
		}
		ctxs = append(ctxs, corrEntry{0, "T " + hx.Enc(string(text)), fmt.Sprintf("text %d", len(text))})
		tctx := len(ctxs) - 1
		rcs := seqReadCases(text, *level, r)
		ro := make([]srobs, len(rcs))
		hcs := make([]string, len(rcs))
		var hmu sync.Mutex
		hcache := map[string]string{}
		healthy := func(b, m int, perm bool) string {
			k := fmt.Sprintf("%d/%d/%v", b, m, perm)
			hmu.Lock()
			v, ok := hcache[k]
			hmu.Unlock()
			if ok {
				return v
			}
			v = runSeqRead(text, []rresp{{0, b, ""}}, m, perm).Class
			hmu.Lock()
			hcache[k] = v
			hmu.Unlock()
			return v
		}
		parallel(len(rcs), func() func(int) {
			return func(i int) {
				c := rcs[i]
				ro[i] = runSeqRead(text, c.RS, c.M, c.Perm)
				// what a healthy read of text[:b] reports, for every response boundary b
				var hs []string
				seen := map[int]bool{}
				for _, rr := range c.RS {
					if !seen[rr.To] {
						seen[rr.To] = true
						hs = append(hs, fmt.Sprintf("%d=%s", rr.To, healthy(rr.To, c.M, c.Perm)))
					}
				}
				if !seen[0] {
					hs = append(hs, fmt.Sprintf("0=%s", healthy(0, c.M, c.Perm)))
				}
				hcs[i] = strings.Join(hs, ",")
			}
		})
		for i, c := range rcs {
			entries = append(entries, corrEntry{tctx, fmt.Sprintf("S %d %s %s", c.M, rscriptString(c.RS), hcs[i]), ro[i].line(c.M)})
			sum.Evaluations++
			sum.Dist["seq-read"]++
			if len(ro[i].Events) > 0 {
				sum.Distinct++
			}
			mk := func(withText bool) caseW {
				cw := caseW{Side: "seqread", File: name, Script: rscriptString(c.RS), MaxLines: c.M, Perm: c.Perm, Len: len(text)}
				if withText {
					cw.TextHex = hx.Enc(string(text))
				}
				return cw
			}
			if key, what := judgeSeqRead(c.RS, c.M, ro[i]); key != "" {
				emit(failure{"fail", key, what, mk(true), ro[i]})
			}
			if len(sum.Samples) < 6 && i%1999 == 1200 {
				sum.Samples = append(sum.Samples, mk(false))
			}
		}
	}

	if *shards < 1 {
		*shards = 1
	}
	n := 0
	per := (len(entries) + *shards - 1) / *shards
	for sh := 0; sh < *shards; sh++ {
		cases := hx.Create(filepath.Join(*out, fmt.Sprintf("cases-%02d.txt", sh)))
		impl := hx.Create(filepath.Join(*out, fmt.Sprintf("impl-%02d.txt", sh)))
		cur := -1
		lo, hi := sh*per, (sh+1)*per
		if hi > len(entries) {
			hi = len(entries)
		}
		for i := lo; i < hi; i++ {
			e := entries[i]
			if e.ctx != cur {
				// a T line needs the G line of its file in front of it only for readability; both are self-contained
				cur = e.ctx
				cases.Printf("%s\n", ctxs[cur].cas)
				impl.Printf("%s\n", ctxs[cur].obs)
				n++
			}
			cases.Printf("%s\n", e.cas)
			impl.Printf("%s\n", e.obs)
			n++
		}
		cases.Close()
		impl.Close()
	}
	b, _ := json.Marshal(sum)
	res.Printf("%s\n", b)
	res.Close()
	fmt.Printf("{\"cases\":%d,\"shards\":%d}\n", n, *shards)
}

// replaySeq re-runs one seqwrite / seqread case (needs the embedded text).
func replaySeq(c caseW) []failure {
	var out []failure
	if c.TextHex == "" {
		return nil
	}
	text := []byte(hx.Dec(c.TextHex))
	switch c.Side {
	case "seqwrite":
		s := &sample{Name: c.File, Text: text, Raw: text, Bypass: c.Bypass}
		t := newTarget(s, leOf(c.LE))
		if t == nil {
			return nil
		}
		f, _ := parse(s.Text)
		o := runSeqWrite(f, s.Bypass, t.LE, parseScript(c.Script), t.Clean)
		if key, what := judgeSeqWrite(o); key != "" {
			out = append(out, failure{"fail", key, what, c, o})
		}
	case "seqread":
		rs := parseRScript(c.Script)
		o := runSeqRead(text, rs, c.MaxLines, c.Perm)
		if key, what := judgeSeqRead(rs, c.MaxLines, o); key != "" {
			out = append(out, failure{"fail", key, what, c, o})
		}
	}
	return out
}

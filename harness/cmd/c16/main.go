// Command c16: correspondence cases and direct oracle for property C16
// (I/O failures are reported, never swallowed): real ach.Writer / ach.Reader
// around failing io.Writer / io.Reader wrappers, every byte offset of each
// sampled file.
package main

import (
	"bytes"
	"encoding/json"
	"errors"
	"flag"
	"fmt"
	"io"
	"os"
	"path/filepath"
	"runtime"
	"sort"
	"strings"
	"sync"

	"github.com/moov-io/ach"

	"verifharness/internal/hx"
	"verifharness/internal/rng"
)

func main() {
	if len(os.Args) < 2 {
		fmt.Fprintln(os.Stderr, "usage: c16 corr|oracle|replay ...")
		os.Exit(2)
	}
	switch os.Args[1] {
	case "corr":
		corr(os.Args[2:])
	case "oracle":
		oracle(os.Args[2:])
	case "replay":
		replay(os.Args[2:])
	case "seq": // phase 4: per-site model, scripted sinks and sources (seq.go)
		seqPass(os.Args[2:])
	default:
		fmt.Fprintln(os.Stderr, "unknown mode")
		os.Exit(2)
	}
}

// ---------------------------------------------------------------- running the implementation

func class(err error) string {
	switch {
	case err == nil:
		return "ok"
	case errors.Is(err, errInjected):
		return "inj"
	case errors.Is(err, io.ErrShortWrite):
		return "short"
	default:
		return "other"
	}
}

type wobs struct {
	Out     string // class of Write's result
	Flush   string // class of the Flush() that follows
	Got     int    // bytes the sink holds
	Calls   int    // Write calls the sink saw
	Prefix  bool   // sink content is a prefix of the healthy output
	Tripped bool
	Full    bool // sink content equals the healthy output
}

func (o wobs) line() string {
	p := 0
	if o.Prefix {
		p = 1
	}
	return fmt.Sprintf("%s %s %d %d p%d", o.Out, o.Flush, o.Got, o.Calls, p)
}

func runWrite(f *ach.File, bypass bool, le string, k int, kind string, transient bool, clean []byte) (o wobs) {
	sink := &faultSink{k: k, kind: kind, transient: transient}
	func() {
		defer func() {
			if r := recover(); r != nil {
				o.Out = "panic"
			}
		}()
		w := ach.NewWriterWithOpts(sink, &ach.WriteOpts{LineEnding: le})
		w.BypassValidation = bypass
		o.Out = class(w.Write(f))
		o.Flush = class(w.Flush())
	}()
	o.Got, o.Calls, o.Tripped = len(sink.got), sink.calls, sink.tripped
	o.Prefix = bytes.HasPrefix(clean, sink.got)
	o.Full = bytes.Equal(clean, sink.got)
	return o
}

type robs struct {
	Class   string // ok | inj | other | panic
	Tripped bool
	Pos     int
}

// permissive: the caller allows files without header / control records
// (Reader.SetValidation), so that even an empty or cut input can parse without error.
var permissiveOpts = ach.ValidateOpts{AllowMissingFileHeader: true, AllowMissingFileControl: true}

func runRead(text []byte, k int, kind string, chunk int, together, perm bool) (o robs) {
	src := &faultSrc{data: text, k: k, kind: kind, chunk: chunk, together: together}
	func() {
		defer func() {
			if r := recover(); r != nil {
				o.Class = "panic"
			}
		}()
		rd := ach.NewReader(src)
		if perm {
			opts := permissiveOpts
			rd.SetValidation(&opts)
		}
		_, err := rd.Read()
		o.Class = class(err)
	}()
	o.Tripped, o.Pos = src.tripped, src.pos
	return o
}

// healthyClass: what reading exactly text[:k] from a healthy source reports.
func healthyClass(text []byte, k int, perm bool) string {
	return runRead(text[:k], -1, "", 0, false, perm).Class
}

// parallel runs fn(i) for i in [0,n) on all CPUs; results must be written to slot i.
func parallel(n int, mk func() func(i int)) {
	workers := runtime.NumCPU()
	if workers > n {
		workers = n
	}
	if workers < 1 {
		workers = 1
	}
	var wg sync.WaitGroup
	next := make(chan int, 256)
	for w := 0; w < workers; w++ {
		wg.Add(1)
		go func() {
			defer wg.Done()
			fn := mk()
			for i := range next {
				fn(i)
			}
		}()
	}
	for i := 0; i < n; i++ {
		next <- i
	}
	close(next)
	wg.Wait()
}

// ---------------------------------------------------------------- sweep definitions

type wfault struct {
	Kind      string
	Transient bool
	K         int
}

type wtarget struct {
	S     *sample
	LE    string
	Clean []byte
	Sizes []int // sink write sizes of the healthy run
	Recs  [][]byte
}

func leName(le string) string {
	if le == "\r\n" {
		return "crlf"
	}
	return "lf"
}

func leOf(name string) string {
	if name == "crlf" {
		return "\r\n"
	}
	return "\n"
}

func newTarget(s *sample, le string) *wtarget {
	f, _ := parse(s.Text)
	sink := &faultSink{k: -1}
	w := ach.NewWriterWithOpts(sink, &ach.WriteOpts{LineEnding: le})
	w.BypassValidation = s.Bypass
	if err := w.Write(f); err != nil {
		return nil
	}
	t := &wtarget{S: s, LE: le, Clean: sink.got, Sizes: sink.sizes}
	for _, l := range strings.Split(strings.TrimSuffix(string(s.Text), "\n"), "\n") {
		if l != strings.Repeat("9", 94) {
			t.Recs = append(t.Recs, []byte(l))
		}
	}
	return t
}

// region names the part of the call sequence an offset falls in (failure key).
func (t *wtarget) region(k int) string {
	recBytes := 0
	for _, r := range t.Recs {
		recBytes += len(r) + len(t.LE)
	}
	part := "records"
	if k >= recBytes {
		part = "padding"
	}
	before := 0
	for _, n := range t.Sizes[:len(t.Sizes)-1] {
		before += n
	}
	if k >= before {
		return part + ":final-flush"
	}
	return part + ":mid-stream-flush"
}

func (t *wtarget) faults(all bool, r *rng.R) []wfault {
	var out []wfault
	n := len(t.Clean)
	for _, kind := range sinkKinds {
		for _, tr := range []bool{false, true} {
			for k := 0; k <= n; k++ {
				out = append(out, wfault{kind, tr, k})
			}
		}
	}
	return out
}

type rfault struct {
	Kind     string
	K        int
	Chunk    int
	Together bool
	Perm     bool
}

// reader faults: every offset 0..len for both kinds with whole-buffer reads, plus
// chunked / data-with-error variants at a stride and around the 1024-byte preview.
func readFaults(n int, r *rng.R) []rfault {
	var out []rfault
	for _, kind := range srcKinds {
		for _, perm := range []bool{false, true} {
			for k := 0; k <= n; k++ {
				out = append(out, rfault{kind, k, 0, false, perm})
			}
		}
	}
	pts := map[int]bool{0: true, 1: true, n - 1: true, n: true}
	for _, b := range []int{1023, 1024, 1025, 2048, 4095, 4096, 4097} {
		if b <= n {
			pts[b] = true
		}
	}
	for i := 0; i < 40; i++ {
		pts[r.Intn(n+1)] = true
	}
	var ks []int
	for k := range pts {
		if k >= 0 && k <= n {
			ks = append(ks, k)
		}
	}
	sort.Ints(ks)
	for _, kind := range srcKinds {
		for _, k := range ks {
			for _, c := range []int{1, 7, 512} {
				out = append(out, rfault{kind, k, c, false, c == 7}, rfault{kind, k, c, true, c == 1})
			}
			out = append(out, rfault{kind, k, 0, true, false})
		}
	}
	return out
}

// ---------------------------------------------------------------- oracle

type caseW struct {
	Side      string `json:"side"` // "write"
	File      string `json:"file"`
	TextHex   string `json:"text_hex,omitempty"`
	Bypass    bool   `json:"bypass,omitempty"`
	LE        string `json:"le"`
	Kind      string `json:"kind"`
	Transient bool   `json:"transient"`
	K         int    `json:"k"`
	Len       int    `json:"len"`
	// read side
	Chunk    int    `json:"chunk,omitempty"`
	Together bool   `json:"together,omitempty"`
	Perm     bool   `json:"permissive,omitempty"`
	Path     string `json:"path,omitempty"`
	// scripted sink / source (sides "seqwrite", "seqread"; seq.go)
	Script   string `json:"script,omitempty"`
	MaxLines int    `json:"max_lines,omitempty"`
}

type failure struct {
	Kind string `json:"kind"`
	Key  string `json:"key"`
	What string `json:"what"`
	Case caseW  `json:"case"`
	Obs  any    `json:"obs"`
}

type summary struct {
	Kind        string         `json:"kind"`
	Evaluations int            `json:"evaluations"`
	Distinct    int            `json:"distinct_nontrivial"`
	Rule        string         `json:"rule"`
	Dist        map[string]int `json:"distribution"`
	Samples     []caseW        `json:"samples"`
	Files       []string       `json:"files"`
	Exhaustive  bool           `json:"exhaustive_offsets"`
}

// judgeWrite evaluates the property on one observation; "" = holds.
func judgeWrite(t *wtarget, fl wfault, o wobs) (key, what string) {
	reached := fl.K < len(t.Clean)
	switch {
	case o.Out == "panic":
		return "write:panic", "Writer.Write panicked under a failing io.Writer"
	case reached && o.Out == "ok":
		return "write:nil-error:" + t.region(fl.K), fmt.Sprintf("Write returned nil although the io.Writer failed (%s) at offset %d of %d; the sink holds %d bytes", fl.Kind, fl.K, len(t.Clean), o.Got)
	case reached && o.Flush == "ok":
		return "flush:nil-error-after-failed-write:" + t.region(fl.K), fmt.Sprintf("Flush returned nil although the io.Writer failed (%s) at offset %d and %d of %d bytes arrived", fl.Kind, fl.K, o.Got, len(t.Clean))
	case o.Out == "ok" && !o.Full:
		return "write:nil-error:incomplete-output", "Write returned nil but the sink does not hold the complete output"
	case !reached && o.Out != "ok":
		return "write:false-error", "Write failed although the io.Writer never failed"
	case !reached && o.Flush != "ok":
		return "flush:false-error", "Flush failed although the io.Writer never failed"
	case !o.Prefix:
		return "write:garbled-output", "the bytes delivered to the sink are not a prefix of the healthy output"
	}
	return "", ""
}

func judgeRead(fl rfault, o robs) (key, what string) {
	where := "stream"
	if fl.K < 1024 {
		where = "charset-preview"
	}
	kind := "error"
	if fl.Kind == "ueof" {
		kind = "unexpected-eof"
	}
	switch {
	case o.Class == "panic":
		return "read:panic", "Reader.Read panicked under a failing io.Reader"
	case o.Class == "ok":
		return "read:nil-error:" + where + ":" + kind, fmt.Sprintf("Read returned a nil error although the io.Reader failed at offset %d: the file is silently cut to the bytes before the failure", fl.K)
	case !o.Tripped:
		return "read:fault-not-reached", "Read stopped before consuming the input up to the failure"
	}
	return "", ""
}

func oracle(args []string) {
	fs := flag.NewFlagSet("oracle", flag.ExitOnError)
	out := fs.String("out", "", "output directory")
	level := fs.Int("level", 0, "0 quick, 1 thorough, 2 extended search")
	corpus := fs.String("corpus", "", "corpus directory (cases run first)")
	fs.Parse(args)
	res := hx.Create(filepath.Join(*out, "oracle.jsonl"))
	var mu sync.Mutex
	perKey := map[string]int{}
	emit := func(f failure) {
		mu.Lock()
		defer mu.Unlock()
		perKey[f.Key]++
		if perKey[f.Key] > 3 { // a broken call site fails at thousands of offsets: keep the first few per key
			return
		}
		b, _ := json.Marshal(f)
		res.Printf("%s\n", b)
	}
	sum := summary{Kind: "summary", Dist: map[string]int{}, Exhaustive: true,
		Rule: "each sampled file (fixtures, constructor-built PPD files sized so that the 4096-byte buffer boundary falls into the records / the padding, files of internal/gen; LF and CRLF) x every byte offset 0..len x sink kinds {hard, short, shortnil, full} x {persistent, transient} through ach.NewWriterWithOpts(sink).Write+Flush, and every offset 0..len x source kinds {error, unexpected-eof} x {default, permissive ValidateOpts} (+ chunked and data-with-error reads at sampled offsets) through ach.NewReader(src).Read; ReadFile on an unopenable and an unreadable path; non-trivial = the fault was actually hit (sink/source tripped); distinct by (file, line ending, kind, persistence, chunking, offset)"}

	for _, c := range corpusCases(*corpus) {
		sum.Evaluations++
		sum.Dist["corpus"]++
		for _, f := range replayCase(c) {
			emit(f)
		}
	}

	r := rng.FromEnv(1600 + uint64(*level))
	samples := sampleSet(*level, r)
	for _, s := range samples {
		sum.Files = append(sum.Files, fmt.Sprintf("%s (%d bytes)", s.Name, len(s.Text)))
		for _, le := range []string{"\n", "\r\n"} {
			t := newTarget(s, le)
			if t == nil {
				continue
			}
			fls := t.faults(true, r)
			obs := make([]wobs, len(fls))
			parallel(len(fls), func() func(int) {
				f, _ := parse(s.Text)
				return func(i int) { obs[i] = runWrite(f, s.Bypass, le, fls[i].K, fls[i].Kind, fls[i].Transient, t.Clean) }
			})
			for i, fl := range fls {
				sum.Evaluations++
				sum.Dist["write:"+fl.Kind]++
				if obs[i].Tripped {
					sum.Distinct++
				}
				mk := func(withText bool) caseW {
					c := caseW{Side: "write", File: s.Name, Bypass: s.Bypass, LE: leName(le), Kind: fl.Kind, Transient: fl.Transient, K: fl.K, Len: len(t.Clean)}
					if withText {
						c.TextHex = hx.Enc(string(s.Text))
					}
					return c
				}
				if key, what := judgeWrite(t, fl, obs[i]); key != "" {
					emit(failure{"fail", key, what, mk(true), obs[i]})
				}
				if len(sum.Samples) < 3 && i%1777 == 1000 {
					sum.Samples = append(sum.Samples, mk(false))
				}
			}
			// reader: the writer's output in this line ending is the input
			readSweep(s.Name+"/"+leName(le), t.Clean, r, &sum, emit)
		}
		if !bytes.Equal(s.Raw, s.Text) {
			readSweep(s.Name+"/raw", s.Raw, r, &sum, emit)
		}
	}
	readFileChecks(&sum, emit)
	b, _ := json.Marshal(sum)
	res.Printf("%s\n", b)
	res.Close()
}

func readSweep(name string, text []byte, r *rng.R, sum *summary, emit func(failure)) {
	fls := readFaults(len(text), r)
	obs := make([]robs, len(fls))
	parallel(len(fls), func() func(int) {
		return func(i int) { obs[i] = runRead(text, fls[i].K, fls[i].Kind, fls[i].Chunk, fls[i].Together, fls[i].Perm) }
	})
	for i, fl := range fls {
		sum.Evaluations++
		sum.Dist["read:"+fl.Kind]++
		if obs[i].Tripped {
			sum.Distinct++
		}
		mk := func(withText bool) caseW {
			c := caseW{Side: "read", File: name, Kind: fl.Kind, K: fl.K, Len: len(text), Chunk: fl.Chunk, Together: fl.Together, Perm: fl.Perm}
			if withText {
				c.TextHex = hx.Enc(string(text))
			}
			return c
		}
		if key, what := judgeRead(fl, obs[i]); key != "" {
			emit(failure{"fail", key, what, mk(true), obs[i]})
		}
		if len(sum.Samples) < 6 && i%1999 == 1200 {
			sum.Samples = append(sum.Samples, mk(false))
		}
	}
}

// ReadFile: a path that cannot be opened and a path whose reads fail (a directory).
func readFileChecks(sum *summary, emit func(failure)) {
	for _, p := range []string{filepath.Join(repoDir(), "test/testdata/does-not-exist.ach"), filepath.Join(repoDir(), "test/testdata")} {
		sum.Evaluations++
		sum.Dist["readfile"]++
		sum.Distinct++
		var err error
		func() {
			defer func() {
				if r := recover(); r != nil {
					err = nil
				}
			}()
			_, err = ach.ReadFile(p)
		}()
		if err == nil {
			emit(failure{"fail", "readfile:nil-error", "ReadFile returned nil for a path whose open/read fails", caseW{Side: "readfile", Path: p}, nil})
		}
	}
}

// ---------------------------------------------------------------- replay / corpus

func replayCase(c caseW) []failure {
	var out []failure
	switch c.Side {
	case "seqwrite", "seqread":
		return replaySeq(c)
	case "write":
		var s *sample
		if c.TextHex != "" {
			text := []byte(hx.Dec(c.TextHex))
			s = &sample{Name: c.File, Text: text, Raw: text, Bypass: c.Bypass}
		} else if strings.HasPrefix(c.File, "fixture:") {
			s = fixture(strings.TrimPrefix(c.File, "fixture:"))
		} else {
			s = parseGen(c.File)
		}
		if s == nil {
			return nil
		}
		t := newTarget(s, leOf(c.LE))
		if t == nil {
			return nil
		}
		f, _ := parse(s.Text)
		fl := wfault{c.Kind, c.Transient, c.K}
		o := runWrite(f, s.Bypass, t.LE, c.K, c.Kind, c.Transient, t.Clean)
		if key, what := judgeWrite(t, fl, o); key != "" {
			out = append(out, failure{"fail", key, what, c, o})
		}
	case "read":
		var text []byte
		if c.TextHex != "" {
			text = []byte(hx.Dec(c.TextHex))
		} else {
			name := c.File
			le := "\n"
			if i := strings.LastIndex(name, "/"); i >= 0 && (name[i+1:] == "lf" || name[i+1:] == "crlf" || name[i+1:] == "raw") {
				le = leOf(name[i+1:])
				raw := name[i+1:] == "raw"
				name = name[:i]
				var s *sample
				if strings.HasPrefix(name, "fixture:") {
					s = fixture(strings.TrimPrefix(name, "fixture:"))
				} else {
					s = parseGen(name)
				}
				if s == nil {
					return nil
				}
				if raw {
					text = s.Raw
				} else if t := newTarget(s, le); t != nil {
					text = t.Clean
				}
			}
		}
		if text == nil {
			return nil
		}
		fl := rfault{c.Kind, c.K, c.Chunk, c.Together, c.Perm}
		o := runRead(text, c.K, c.Kind, c.Chunk, c.Together, c.Perm)
		if key, what := judgeRead(fl, o); key != "" {
			out = append(out, failure{"fail", key, what, c, o})
		}
	case "readfile":
		if _, err := ach.ReadFile(c.Path); err == nil {
			out = append(out, failure{"fail", "readfile:nil-error", "ReadFile returned nil for a path whose open/read fails", c, nil})
		}
	}
	return out
}

func loadCase(p string) (caseW, bool) {
	var c caseW
	b, err := os.ReadFile(p)
	if err != nil {
		return c, false
	}
	var rp struct {
		Input *caseW `json:"input"`
	}
	if json.Unmarshal(b, &rp) == nil && rp.Input != nil && rp.Input.Side != "" {
		return *rp.Input, true
	}
	if json.Unmarshal(b, &c) == nil && c.Side != "" {
		return c, true
	}
	return c, false
}

func corpusCases(dir string) []caseW {
	var out []caseW
	if dir == "" {
		return out
	}
	names, _ := filepath.Glob(filepath.Join(dir, "*.json"))
	sort.Strings(names)
	for _, p := range names {
		if c, ok := loadCase(p); ok {
			out = append(out, c)
		}
	}
	return out
}

func replay(args []string) {
	if len(args) < 1 {
		fmt.Fprintln(os.Stderr, "usage: c16 replay <file>")
		os.Exit(2)
	}
	c, ok := loadCase(args[0])
	if !ok {
		fmt.Fprintln(os.Stderr, "replay: cannot read a case from", args[0])
		os.Exit(2)
	}
	fails := replayCase(c)
	c.TextHex = ""
	b, _ := json.Marshal(c)
	fmt.Printf("case %s\n", b)
	for _, f := range fails {
		f.Case.TextHex = ""
		fb, _ := json.Marshal(f)
		fmt.Printf("FAIL %s\n", fb)
	}
	if len(fails) > 0 {
		os.Exit(1)
	}
	fmt.Println("property holds on this case")
}

// ---------------------------------------------------------------- correspondence

// corrEntry is one line of the case file with the implementation's observation; ctx
// is the index of the F/T line (file or text definition) it refers to.
type corrEntry struct {
	ctx      int
	cas, obs string
}

func corr(args []string) {
	fs := flag.NewFlagSet("corr", flag.ExitOnError)
	out := fs.String("out", "", "output directory")
	level := fs.Int("level", 0, "0 quick, 1 thorough")
	shards := fs.Int("shards", 16, "number of self-contained case files (cases-NN.txt / impl-NN.txt)")
	fs.Parse(args)
	r := rng.FromEnv(1600 + uint64(*level))
	var ctxs []corrEntry // the F / T lines
	var entries []corrEntry
	for _, s := range sampleSet(*level, r) {
		for _, le := range []string{"\n", "\r\n"} {
			t := newTarget(s, le)
			if t == nil || len(t.Recs) < 2 {
				continue
			}
			// F <le> <header> <control> <body...>
			var sb strings.Builder
			sb.WriteString("F " + hx.Enc(le) + " " + hx.Enc(string(t.Recs[0])) + " " + hx.Enc(string(t.Recs[len(t.Recs)-1])))
			for _, b := range t.Recs[1 : len(t.Recs)-1] {
				sb.WriteString(" " + hx.Enc(string(b)))
			}
			ctxs = append(ctxs, corrEntry{0, sb.String(), "full " + hx.Enc(string(t.Clean))})
			fctx := len(ctxs) - 1
			fls := t.faults(true, r)
			obs := make([]wobs, len(fls))
			parallel(len(fls), func() func(int) {
				f, _ := parse(s.Text)
				return func(i int) { obs[i] = runWrite(f, s.Bypass, le, fls[i].K, fls[i].Kind, fls[i].Transient, t.Clean) }
			})
			for i, fl := range fls {
				tr := 0
				if fl.Transient {
					tr = 1
				}
				entries = append(entries, corrEntry{fctx, fmt.Sprintf("W %s %d %d", fl.Kind, tr, fl.K), obs[i].line()})
			}
			// reader on this output
			text := t.Clean
			ctxs = append(ctxs, corrEntry{0, "T " + hx.Enc(string(text)), fmt.Sprintf("text %d", len(text))})
			tctx := len(ctxs) - 1
			rfl := readFaults(len(text), r)
			ro := make([]robs, len(rfl))
			hc := make([]string, len(rfl))
			parallel(len(rfl), func() func(int) {
				return func(i int) {
					ro[i] = runRead(text, rfl[i].K, rfl[i].Kind, rfl[i].Chunk, rfl[i].Together, rfl[i].Perm)
					hc[i] = healthyClass(text, rfl[i].K, rfl[i].Perm)
				}
			})
			for i, fl := range rfl {
				// R <kind> <k> <chunk> <healthy class of the k-byte prefix> <healthy class of the empty input>
				entries = append(entries, corrEntry{tctx, fmt.Sprintf("R %s %d %d %s %s", fl.Kind, fl.K, fl.Chunk, hc[i], healthyClass(text, 0, fl.Perm)), ro[i].Class})
			}
		}
	}
	if *shards < 1 {
		*shards = 1
	}
	n := 0
	per := (len(entries) + *shards - 1) / *shards
	for sh := 0; sh < *shards; sh++ {
		cases := hx.Create(filepath.Join(*out, fmt.Sprintf("cases-%02d.txt", sh)))
		impl := hx.Create(filepath.Join(*out, fmt.Sprintf("impl-%02d.txt", sh)))
		cur := -1
		lo, hi := sh*per, (sh+1)*per
		if hi > len(entries) {
			hi = len(entries)
		}
		for i := lo; i < hi; i++ {
			e := entries[i]
			if e.ctx != cur {
				cur = e.ctx
				cases.Printf("%s\n", ctxs[cur].cas)
				impl.Printf("%s\n", ctxs[cur].obs)
				n++
			}
			cases.Printf("%s\n", e.cas)
			impl.Printf("%s\n", e.obs)
			n++
		}
		cases.Close()
		impl.Close()
	}
	fmt.Printf("{\"cases\":%d,\"shards\":%d}\n", n, *shards)
}

package main

import (
	"errors"
	"io"
)

// errInjected is the error every injected hard fault returns.
var errInjected = errors.New("c16: injected I/O failure")

// ---------------------------------------------------------------- failing io.Writer

// faultSink accepts bytes until offset k (the byte with index k cannot be written);
// the Write call that would cross k trips the fault:
//
//	hard      n = k-pos bytes taken, errInjected
//	short     n = k-pos bytes taken, io.ErrShortWrite
//	shortnil  n = k-pos bytes taken, nil error (contract violation bufio repairs)
//	full      all bytes taken, errInjected (failure reported by a downstream flush)
//
// A persistent sink keeps failing; a transient one works again after the first failure.
type faultSink struct {
	k         int // -1: healthy
	kind      string
	transient bool
	got       []byte
	calls     int
	sizes     []int
	tripped   bool
}

func (s *faultSink) Write(p []byte) (int, error) {
	s.calls++
	s.sizes = append(s.sizes, len(p))
	if s.k < 0 || (s.transient && s.tripped) || len(s.got)+len(p) <= s.k {
		s.got = append(s.got, p...)
		return len(p), nil
	}
	s.tripped = true
	n := s.k - len(s.got)
	if n < 0 {
		n = 0
	}
	switch s.kind {
	case "full":
		s.got = append(s.got, p...)
		return len(p), errInjected
	case "short":
		s.got = append(s.got, p[:n]...)
		return n, io.ErrShortWrite
	case "shortnil":
		s.got = append(s.got, p[:n]...)
		return n, nil
	default:
		s.got = append(s.got, p[:n]...)
		return n, errInjected
	}
}

var sinkKinds = []string{"hard", "short", "shortnil", "full"}

// ---------------------------------------------------------------- failing io.Reader

// faultSrc yields data[:k] and then fails with a non-EOF error on every further
// call (k = -1: healthy, io.EOF after the data).  chunk > 0 bounds the bytes per
// call; together = the last data bytes and the error arrive in the same call.
//
//	err   errInjected
//	ueof  io.ErrUnexpectedEOF (what net/http and compress/* report for a cut stream)
type faultSrc struct {
	data     []byte
	k        int
	kind     string
	chunk    int
	together bool
	pos      int
	tripped  bool
	reads    int
}

func (s *faultSrc) fail() error {
	s.tripped = true
	if s.kind == "ueof" {
		return io.ErrUnexpectedEOF
	}
	return errInjected
}

func (s *faultSrc) Read(p []byte) (int, error) {
	s.reads++
	limit := len(s.data)
	if s.k >= 0 && s.k < limit {
		limit = s.k
	}
	n := limit - s.pos
	if n > len(p) {
		n = len(p)
	}
	if s.chunk > 0 && n > s.chunk {
		n = s.chunk
	}
	if n <= 0 {
		if s.k >= 0 {
			return 0, s.fail()
		}
		return 0, io.EOF
	}
	copy(p, s.data[s.pos:s.pos+n])
	s.pos += n
	if s.together && s.k >= 0 && s.pos == limit {
		return n, s.fail()
	}
	return n, nil
}

var srcKinds = []string{"err", "ueof"}

package main

import (
	"bytes"
	"fmt"
	"os"
	"path/filepath"
	"sort"
	"strings"

	"github.com/moov-io/ach"

	"verifharness/internal/gen"
	"verifharness/internal/rng"
)

// sample is one file of the sweep: the LF text a healthy writer produces for it
// (from which every worker re-parses its own *ach.File) and how it was obtained.
type sample struct {
	Name   string
	Text   []byte // healthy LF output
	Raw    []byte // bytes as found on disk (fixtures) or Text (generated) — reader input
	Bypass bool   // file does not pass Validate: written with BypassValidation
}

func repoDir() string {
	if d := os.Getenv("VERIF_REPO"); d != "" {
		return d
	}
	return "/repo"
}

func parse(text []byte) (*ach.File, error) {
	f, err := ach.NewReader(bytes.NewReader(text)).Read()
	return &f, err
}

func healthyWrite(f *ach.File, le string, bypass bool) (out []byte, err error) {
	defer func() {
		if r := recover(); r != nil {
			err = fmt.Errorf("panic: %v", r)
		}
	}()
	var buf bytes.Buffer
	w := ach.NewWriterWithOpts(&buf, &ach.WriteOpts{LineEnding: le})
	w.BypassValidation = bypass
	if err := w.Write(f); err != nil {
		return nil, err
	}
	return buf.Bytes(), nil
}

// fromFile turns a parsed file into a sample (nil when it cannot be written at all
// or does not survive a write/read/write cycle, which C01/C02 deal with).
func fromFile(name string, f *ach.File, raw []byte) *sample {
	bypass := false
	out, err := healthyWrite(f, "\n", false)
	if err != nil {
		bypass = true
		out, err = healthyWrite(f, "\n", true)
		if err != nil {
			return nil
		}
	}
	g, _ := parse(out)
	out2, err := healthyWrite(g, "\n", bypass)
	if err != nil || !bytes.Equal(out, out2) {
		return nil
	}
	if raw == nil {
		raw = out
	}
	return &sample{Name: name, Text: out, Raw: raw, Bypass: bypass}
}

func fixture(rel string) *sample {
	raw, err := os.ReadFile(filepath.Join(repoDir(), rel))
	if err != nil {
		return nil
	}
	f, _ := parse(raw)
	if f == nil || len(f.Batches)+len(f.IATBatches) == 0 {
		return nil
	}
	return fromFile("fixture:"+rel, f, raw)
}

func allFixtures() []string {
	var out []string
	for _, pat := range []string{"test/testdata/*.ach", "test/ach-*-read/*.ach", "test/issues/testdata/*.ach"} {
		m, _ := filepath.Glob(filepath.Join(repoDir(), pat))
		for _, p := range m {
			rel, _ := filepath.Rel(repoDir(), p)
			out = append(out, rel)
		}
	}
	sort.Strings(out)
	return out
}

// genPPD builds a valid PPD file with the given number of entries per batch through
// the public constructors; names carry the index so lines differ.
func genPPD(entries []int, wide bool) *sample {
	fh := ach.NewFileHeader()
	fh.ImmediateDestination = "231380104"
	fh.ImmediateOrigin = "121042882"
	fh.FileCreationDate = "190816"
	fh.FileCreationTime = "1055"
	fh.ImmediateDestinationName = "Federal Reserve Bank"
	fh.ImmediateOriginName = "My Bank Name"
	file := ach.NewFile()
	file.SetHeader(fh)
	seq := 0
	for bi, n := range entries {
		bh := ach.NewBatchHeader()
		bh.ServiceClassCode = ach.CreditsOnly
		bh.CompanyName = "Name on Account"
		bh.CompanyIdentification = "121042882"
		bh.StandardEntryClassCode = ach.PPD
		bh.CompanyEntryDescription = "REG.SALARY"
		bh.EffectiveEntryDate = "190817"
		bh.ODFIIdentification = "12104288"
		b := ach.NewBatchPPD(bh)
		for i := 0; i < n; i++ {
			seq++
			e := ach.NewEntryDetail()
			e.TransactionCode = ach.CheckingCredit
			e.SetRDFI("231380104")
			e.DFIAccountNumber = fmt.Sprintf("%d%06d", bi+1, i)
			e.Amount = 100 + i
			e.SetTraceNumber(bh.ODFIIdentification, seq)
			if wide && i%3 == 0 {
				e.IndividualName = fmt.Sprintf("Zoë Ünal %d", i) // 2-byte runes: line longer than 94 bytes
			} else {
				e.IndividualName = fmt.Sprintf("Receiver %d", i)
			}
			b.AddEntry(e)
		}
		if err := b.Create(); err != nil {
			return nil
		}
		file.AddBatch(b)
	}
	if err := file.Create(); err != nil {
		return nil
	}
	name := fmt.Sprintf("gen:ppd:%v", entries)
	if wide {
		name += ":utf8"
	}
	return fromFile(name, file, nil)
}

func parseGen(name string) *sample {
	// gen:ppd:[3 4] or gen:ppd:[3 4]:utf8
	rest := strings.TrimPrefix(name, "gen:ppd:")
	wide := strings.HasSuffix(rest, ":utf8")
	rest = strings.TrimSuffix(rest, ":utf8")
	rest = strings.Trim(rest, "[]")
	var ns []int
	for _, f := range strings.Fields(rest) {
		var n int
		fmt.Sscanf(f, "%d", &n)
		ns = append(ns, n)
	}
	return genPPD(ns, wide)
}

// genSample draws a valid file from the shared generator (all SEC codes, IAT, ADV,
// returns, NOC, addenda, non-ASCII).  Its failures replay from the embedded text.
func genSample(label string, build func() *ach.File) (s *sample) {
	defer func() {
		if r := recover(); r != nil {
			s = nil
		}
	}()
	f := build()
	if f == nil {
		return nil
	}
	return fromFile("gen:"+label, f, nil)
}

// sampleSet returns the files of a tier.  level 0 = quick, 1 = thorough, 2+ = extended search.
func sampleSet(level int, r *rng.R) []*sample {
	var out []*sample
	add := func(s *sample) {
		if s != nil {
			out = append(out, s)
		}
	}
	// 37 entries + 4 = 41 records: the nine padding lines cross the 4096-byte buffer (LF);
	// 39 entries = 43 records: mid-stream flush exactly before the control records.
	add(fixture("test/testdata/ppd-debit.ach"))
	add(genPPD([]int{37}, false))
	add(genPPD([]int{2, 1}, true))
	if level == 0 {
		add(fixture("test/testdata/iat-debit.ach"))
		// one more size from the seed so different runs look at different buffer alignments
		add(genPPD([]int{r.Range(45, 58)}, r.Bool())) // at least one mid-stream flush inside writeBatch
		add(genSample("mixed", func() *ach.File {
			return gen.File(r.Fork(), gen.Opts{IAT: true, Returns: true, NOC: true, Addenda: true, MaxBatches: 2, MaxEntries: 2})
		}))
		return out
	}
	for _, rel := range allFixtures() {
		if rel == "test/testdata/ppd-debit.ach" {
			continue
		}
		s := fixture(rel)
		if s == nil || (len(s.Text) > 6000 && level < 2) {
			continue
		}
		// the thorough tier looks at every larger fixture and at a seed-dependent half of
		// the many one-block (950 byte) fixtures; the extended search takes them all
		if level < 2 && len(s.Text) <= 950 && (len(rel)+int(rng.Seed()))%2 == 1 {
			continue
		}
		add(s)
	}
	secs := gen.AllSECs()
	for i := 0; i < 6+6*level; i++ {
		sec := secs[r.Intn(len(secs))]
		add(genSample(sec, func() *ach.File {
			return gen.FileOfSEC(r.Fork(), sec, gen.Opts{Returns: true, Addenda: true, NonASCII: i%2 == 0, MaxBatches: 2, MaxEntries: 3})
		}))
	}
	add(genSample("IAT", func() *ach.File {
		return gen.FileOfSEC(r.Fork(), "IAT", gen.Opts{Addenda: true, MaxBatches: 2, MaxEntries: 2})
	}))
	add(genSample("ADV", func() *ach.File { return gen.ADVFile(r.Fork()) }))
	add(genSample("mixed", func() *ach.File {
		return gen.File(r.Fork(), gen.Opts{IAT: true, Returns: true, NOC: true, Addenda: true, NonASCII: true, Offset: true})
	}))
	add(genPPD([]int{39}, false))
	add(genPPD([]int{20, 20, 41}, true))
	add(genPPD([]int{120}, false))
	n := 3
	if level >= 2 {
		n = 12
	}
	for i := 0; i < n; i++ {
		k := r.Range(1, 3)
		var es []int
		for j := 0; j < k; j++ {
			es = append(es, r.Range(1, 60))
		}
		add(genPPD(es, r.Bool()))
	}
	return out
}

package main

import (
	"bytes"
	"encoding/json"
	"flag"
	"fmt"
	"os"
	"path/filepath"
	"sort"
	"strings"
	"time"

	"github.com/moov-io/ach"

	"verifharness/internal/fdump"
	"verifharness/internal/gen"
	"verifharness/internal/hx"
	"verifharness/internal/rng"
)

type fail struct {
	Kind string         `json:"kind"`
	Key  string         `json:"key"`
	What string         `json:"what"`
	Case map[string]any `json:"case"`
}

// the 8 layouts of the property and two combinations of them (short lines in front of CR and CRLF terminators)
var variants = []string{"lf", "crlf", "cr", "unbroken", "trimmed", "blanklines", "nofillers", "morefillers", "cr-trimmed", "crlf-trimmed"}

var nines = strings.Repeat("9", 94)

// layout re-arranges the record lines of a written file into one of the 8 physical layouts.
func layout(lines []string, v string) string {
	var b strings.Builder
	switch v {
	case "lf":
		for _, l := range lines {
			b.WriteString(l + "\n")
		}
	case "crlf":
		for _, l := range lines {
			b.WriteString(l + "\r\n")
		}
	case "cr":
		for _, l := range lines {
			b.WriteString(l + "\r")
		}
	case "unbroken":
		for _, l := range lines {
			b.WriteString(l)
		}
	case "trimmed":
		for _, l := range lines {
			b.WriteString(strings.TrimRight(l, " ") + "\n")
		}
	case "cr-trimmed":
		for _, l := range lines {
			b.WriteString(strings.TrimRight(l, " ") + "\r")
		}
	case "crlf-trimmed":
		for _, l := range lines {
			b.WriteString(strings.TrimRight(l, " ") + "\r\n")
		}
	case "blanklines":
		b.WriteString("\n   \n")
		for i, l := range lines {
			b.WriteString(l + "\n")
			switch i % 3 {
			case 0:
				b.WriteString("\n")
			case 1:
				b.WriteString("      \r\n\n")
			}
		}
	case "nofillers":
		for _, l := range lines {
			if l != nines {
				b.WriteString(l + "\n")
			}
		}
	case "morefillers":
		for _, l := range lines {
			b.WriteString(l + "\n")
		}
		for i := 0; i < 13; i++ {
			b.WriteString(nines + "\n")
		}
	}
	return b.String()
}

func write(f *ach.File, crlf bool) (s string, err error) {
	defer func() {
		if r := recover(); r != nil {
			err = fmt.Errorf("panic: %v", r)
		}
	}()
	return gen.Text(f, crlf)
}

func read(text string) (f *ach.File, err error) {
	defer func() {
		if r := recover(); r != nil {
			err = fmt.Errorf("panic: %v", r)
		}
	}()
	done := make(chan struct{})
	go func() {
		defer close(done)
		defer func() {
			if r := recover(); r != nil {
				err = fmt.Errorf("panic: %v", r)
			}
		}()
		f, err = gen.Parse(text)
	}()
	select {
	case <-done:
	case <-time.After(30 * time.Second):
		return nil, fmt.Errorf("hang")
	}
	return f, err
}

func hasNonASCII(s string) bool {
	for i := 0; i < len(s); i++ {
		if s[i] >= 0x80 {
			return true
		}
	}
	return false
}

// classify narrows a failure of the write/read/write chain to a key (what known-findings.jsonl lists).
func classify(text string, what string) string {
	first := -1
	for i := 0; i < len(text); i++ {
		if text[i] >= 0x80 {
			first = i
			break
		}
	}
	if first >= 1024 {
		return "decode:late-nonascii:" + what // charset sniffing only looks at the first 1024 bytes
	}
	// a standard batch header whose company name reads IATCOR: Reader.parseBH takes it for an IAT header
	// (searched as text so that every physical layout of the same records gets the same key)
	rs := []rune(text)
	pat := []rune("IATCOR          ")
	for i := 0; i+53 <= len(rs); i++ {
		if rs[i] != '5' || string(rs[i+4:i+20]) != string(pat) {
			continue
		}
		if sec := string(rs[i+50 : i+53]); sec != "COR" && sec != "IAT" && rs[i+1] >= '0' && rs[i+1] <= '9' {
			return "dispatch:company-name-iatcor:" + what
		}
	}
	return what
}

// outcome of one layout: "" when the property holds, otherwise what failed
func tryLayout(want []fdump.Rec, base string, in string) (what string, msg string) {
	f2, err := read(in)
	if err != nil {
		return classify(in, "read-error"), "reading the writer's own output failed: " + firstLine(err.Error())
	}
	if d, idx := fdump.DiffAt(want, fdump.Records(f2)); d != "" {
		if d == "BatchHeader.EffectiveEntryDate" && idx >= 0 && want[idx].Fields["StandardEntryClassCode"] == "ENR" && want[idx].Fields["CompanyEntryDescription"] == "AUTOENROLL" {
			return "canon:enr-autoenroll-effective-date-blanked", "EffectiveEntryDate of an ENR/AUTOENROLL batch header is rendered as blanks and read back empty"
		}
		if idx >= 0 && strings.HasSuffix(d, "Date") {
			fld := d[strings.IndexByte(d, '.')+1:]
			got := fdump.Records(f2)
			if _, perr := time.Parse("060102", want[idx].Fields[fld]); perr != nil && idx < len(got) && got[idx].Fields[fld] == "" {
				return "canon:invalid-date-blanked:" + d, "a date field that is not a YYMMDD calendar date passes validation but is read back empty: " + d
			}
		}
		return classify(in, "field:"+d), "record read back differs from the record written (modulo blank padding) at " + d
	}
	again, err := write(f2, false)
	if err != nil {
		return classify(in, "rewrite-error"), "the file read back is rejected by the writer: " + firstLine(err.Error())
	}
	if again != base {
		// attribute the difference to a record; a left-justified field starting with a blank is trimmed by the parser
		la, lb := strings.Split(base, "\n"), strings.Split(again, "\n")
		for i := 0; i < len(la) && i < len(lb) && i < len(want); i++ {
			if la[i] != lb[i] {
				if len(want[i].Lead) > 0 {
					return "canon:leading-blank:" + want[i].Kind + "." + want[i].Lead[0], "a field starting with a blank is not reproduced byte for byte (the parser trims it): " + want[i].Kind + "." + want[i].Lead[0]
				}
				return classify(in, "text-diff:"+want[i].Kind), "writing the file read back does not reproduce the text byte for byte (first difference in a " + want[i].Kind + " record)"
			}
		}
		return classify(in, "text-diff"), "writing the file read back does not reproduce the text byte for byte"
	}
	return "", ""
}

// checkFile runs the property on one valid file; desc describes how it was made (for the replay).
func checkFile(f *ach.File, desc map[string]any) []fail {
	var fails []fail
	mk := func(key, what string, extra map[string]any) {
		c := map[string]any{}
		for k, v := range desc {
			c[k] = v
		}
		for k, v := range extra {
			c[k] = v
		}
		fails = append(fails, fail{Kind: "fail", Key: key, What: what, Case: c})
	}
	want := fdump.Records(f)
	base, err := write(f, false)
	if err != nil {
		mk("write:error", "writer rejected a generated valid file: "+firstLine(err.Error()), nil)
		return fails
	}
	baseWhat := ""
	for _, crlf := range []bool{false, true} {
		text, err := write(f, crlf)
		if err != nil {
			mk("write:error", "writer rejected a generated valid file: "+firstLine(err.Error()), nil)
			return fails
		}
		le := "\n"
		if crlf {
			le = "\r\n"
		}
		lines := strings.Split(strings.TrimSuffix(text, le), le)
		for _, v := range variants {
			in := layout(lines, v)
			what, msg := tryLayout(want, base, in)
			if v == "lf" && !crlf {
				baseWhat = what
				if what != "" {
					mk("roundtrip:"+what, msg, map[string]any{"variant": v, "crlf": crlf, "text": hx.Enc(in)})
				}
				continue
			}
			// a layout is reported on its own only when it behaves differently from the plain LF text
			if what != "" && what != baseWhat {
				mk("roundtrip:"+v+":"+what, msg, map[string]any{"variant": v, "crlf": crlf, "text": hx.Enc(in)})
			}
		}
	}
	return fails
}

func firstLine(s string) string {
	if i := strings.IndexByte(s, '\n'); i >= 0 {
		s = s[:i]
	}
	if len(s) > 200 {
		s = s[:200]
	}
	return s
}

// checkText: for a text the reader accepts and the writer accepts, write/read/write is a fixed point.
func checkText(text string, desc map[string]any) (nontrivial bool, fails []fail) {
	f1, err := read(text)
	if err != nil || f1 == nil {
		return false, nil
	}
	t1, err := write(f1, false)
	if err != nil {
		return false, nil
	}
	mk := func(key, what string) {
		c := map[string]any{"text": hx.Enc(text)}
		for k, v := range desc {
			c[k] = v
		}
		fails = append(fails, fail{Kind: "fail", Key: key, What: what, Case: c})
	}
	f2, err := read(t1)
	if err != nil {
		mk("fixedpoint:"+classify(t1, "read-error"), "the writer's output for a file the reader accepted is rejected by the reader: "+firstLine(err.Error()))
		return true, fails
	}
	t2, err := write(f2, false)
	if err != nil {
		mk("fixedpoint:"+classify(t1, "rewrite-error"), "second write fails: "+firstLine(err.Error()))
		return true, fails
	}
	if t1 != t2 {
		mk("fixedpoint:"+classify(t1, "text-diff"), "write(read(write(f))) differs from write(f)")
	}
	return true, fails
}

type summary struct {
	Kind        string           `json:"kind"`
	Evaluations int              `json:"evaluations"`
	Distinct    int              `json:"distinct_nontrivial"`
	Rule        string           `json:"rule"`
	Dist        map[string]int   `json:"distribution"`
	Samples     []map[string]any `json:"samples"`
}

func genFile(r *rng.R, i int) (*ach.File, map[string]any) {
	seed := r.U64()
	return fileFromSeed(seed, i)
}

// fileFromSeed rebuilds the i-th style of file from a seed (used by replay).
func fileFromSeed(seed uint64, i int) (*ach.File, map[string]any) {
	r := rng.New(seed)
	o := gen.Opts{Addenda: true}
	style := i % 8
	switch style {
	case 0:
		o.ForwardOnly = true
	case 1:
		o.Returns, o.NOC = true, true
	case 2:
		o.IAT = true
	case 3:
		o.NonASCII = true
	case 4:
		o.NonASCII, o.Returns, o.NOC, o.IAT = true, true, true, true
	case 5:
		o.Offset, o.OffsetReturns, o.Returns = true, true, true
	case 6:
		o.IAT, o.OFAC = true, true
	case 7:
		o.MaxBatches, o.MaxEntries = 5, 7
	}
	var f *ach.File
	secs := append(gen.AllSECs(), "IAT", "ADV")
	desc := map[string]any{"seed": seed, "style": style}
	if i%3 == 0 {
		sec := secs[(i/3)%len(secs)]
		desc["sec"] = sec
		f = gen.FileOfSEC(r, sec, o)
	} else {
		f = gen.File(r, o)
	}
	return f, desc
}

func oracle(args []string) {
	fs := flag.NewFlagSet("oracle", flag.ExitOnError)
	out := fs.String("out", "", "output directory")
	n := fs.Int("n", 300, "generated files")
	ntext := fs.Int("ntext", 400, "mutated texts for the fixed-point check")
	corpus := fs.String("corpus", "", "corpus directory")
	repo := fs.String("repo", "/repo", "repository (fixtures)")
	fs.Parse(args)
	res := hx.Create(filepath.Join(*out, "oracle.jsonl"))
	enc := func(v any) {
		b, _ := json.Marshal(v)
		res.Printf("%s\n", b)
	}
	sum := summary{Kind: "summary", Dist: map[string]int{}, Rule: "generated valid files (gen: every SEC, IAT, ADV, returns/NOC/dishonored/contested, non-ASCII, offsets) x 8 physical layouts x LF/CRLF writer endings: read back, compare every field modulo blank padding, write again and compare bytes; plus write/read/write fixed point on fixtures and mutated texts the reader accepts; distinct = distinct rendered texts"}
	seen := map[string]bool{}
	count := func(text string, label string) {
		sum.Evaluations++
		sum.Dist[label]++
		if !seen[text] {
			seen[text] = true
			sum.Distinct++
		}
	}
	// corpus first
	for _, c := range corpusCases(*corpus) {
		for _, f := range runCase(c) {
			enc(f)
		}
		sum.Evaluations++
		sum.Dist["corpus"]++
	}
	// directed corner cases
	dnames := []string{}
	dfiles := directed()
	for k := range dfiles {
		dnames = append(dnames, k)
	}
	sort.Strings(dnames)
	for _, k := range dnames {
		t, _ := write(dfiles[k], false)
		count(t, "directed")
		for _, fl := range checkFile(dfiles[k], map[string]any{"directed": k}) {
			enc(fl)
		}
	}
	r := rng.FromEnv(1001)
	for i := 0; i < *n; i++ {
		f, desc := genFile(r, i)
		t, _ := write(f, false)
		count(t, fmt.Sprint("file-style-", desc["style"]))
		for _, fl := range checkFile(f, desc) {
			enc(fl)
		}
		if len(sum.Samples) < 4 && i%41 == 0 {
			s := map[string]any{"first_lines": strings.Split(t, "\n")[:min(3, len(strings.Split(t, "\n")))]}
			for k, v := range desc {
				s[k] = v
			}
			sum.Samples = append(sum.Samples, s)
		}
	}
	// fixed point on fixtures and mutated texts
	achFiles, _ := gen.Fixtures(*repo)
	var texts []string
	for _, p := range achFiles {
		if b, err := os.ReadFile(p); err == nil && len(b) < 200000 {
			texts = append(texts, string(b))
		}
	}
	for _, t := range texts {
		nt, fl := checkText(t, map[string]any{"source": "fixture"})
		if nt {
			count(t, "fixture-accepted")
		} else {
			sum.Evaluations++
			sum.Dist["fixture-rejected"]++
		}
		for _, x := range fl {
			enc(x)
		}
	}
	for i := 0; i < *ntext && len(texts) > 0; i++ {
		var base string
		if i%2 == 0 {
			f, _ := genFile(r, i)
			base, _ = write(f, false)
		} else {
			base = texts[r.Intn(len(texts))]
		}
		t := mutateText(r, base)
		nt, fl := checkText(t, map[string]any{"source": "mutant"})
		if nt {
			count(t, "mutant-accepted")
		} else {
			sum.Evaluations++
			sum.Dist["mutant-rejected"]++
		}
		for _, x := range fl {
			enc(x)
		}
	}
	enc(sum)
	res.Close()
}

// mutateText changes a few characters inside records without touching the framing.
func mutateText(r *rng.R, s string) string {
	rs := []rune(s)
	if len(rs) == 0 {
		return s
	}
	k := r.Range(1, 3)
	pool := []rune{' ', '0', '1', '5', '9', 'A', 'z', 'é'}
	for i := 0; i < k; i++ {
		p := r.Intn(len(rs))
		if rs[p] == '\n' || rs[p] == '\r' {
			continue
		}
		rs[p] = rng.Pick(r, pool)
	}
	return string(rs)
}

type corpusCase struct {
	Seed  *uint64 `json:"seed"`
	Style int     `json:"style"`
	Sec   string  `json:"sec"`
	Text  string  `json:"text"`   // hex: a text for the fixed-point check / a layout text
	Index int     `json:"index"`  // generator index (style/sec selection)
	Kind  string  `json:"replay"` // "file" | "text"
}

func runCase(c corpusCase) []fail {
	if c.Text != "" && c.Seed == nil {
		_, fl := checkText(hx.Dec(c.Text), map[string]any{"source": "corpus"})
		return fl
	}
	if c.Seed != nil {
		f, desc := fileFromSeed(*c.Seed, c.Index)
		return checkFile(f, desc)
	}
	return nil
}

func corpusCases(dir string) []corpusCase {
	var out []corpusCase
	if dir == "" {
		return out
	}
	names, _ := filepath.Glob(filepath.Join(dir, "*.json"))
	sort.Strings(names)
	for _, p := range names {
		b, err := os.ReadFile(p)
		if err != nil {
			continue
		}
		var rp struct {
			Input corpusCase `json:"input"`
		}
		if json.Unmarshal(b, &rp) == nil {
			out = append(out, rp.Input)
		}
	}
	return out
}

func replay(args []string) {
	if len(args) < 1 {
		fmt.Fprintln(os.Stderr, "usage: c01 replay <file>")
		os.Exit(2)
	}
	b, err := os.ReadFile(args[0])
	if err != nil {
		fmt.Fprintln(os.Stderr, err)
		os.Exit(2)
	}
	var rp struct {
		Input map[string]any `json:"input"`
	}
	if err := json.Unmarshal(b, &rp); err != nil || rp.Input == nil {
		fmt.Println("replay file carries no input (obligation / correspondence failure): nothing to run")
		return
	}
	var fails []fail
	if d, ok := rp.Input["directed"].(string); ok && d != "" {
		if f := directed()[d]; f != nil {
			fails = append(fails, checkFile(f, map[string]any{"directed": d})...)
		}
	} else if sd, ok := rp.Input["seed"].(float64); ok {
		st, _ := rp.Input["style"].(float64)
		_ = st
		fmt.Println("note: seeds above 2^53 lose precision in JSON; replaying from the recorded text instead")
		_ = sd
	}
	if t, ok := rp.Input["text"].(string); ok && t != "" && len(fails) == 0 {
		text := hx.Dec(t)
		if v, ok := rp.Input["variant"].(string); ok && v != "" {
			f2, err := read(text)
			if err != nil {
				fmt.Println("reader error on the recorded layout text:", firstLine(err.Error()))
				os.Exit(1)
			}
			t1, _ := write(f2, false)
			fmt.Printf("reader accepted the layout text; re-written text has %d bytes\n", len(t1))
		}
		_, fails = checkText(text, map[string]any{"source": "replay"})
	}
	var buf bytes.Buffer
	for _, f := range fails {
		j, _ := json.Marshal(f)
		buf.Write(j)
		buf.WriteByte('\n')
	}
	fmt.Print(buf.String())
	if len(fails) > 0 {
		os.Exit(1)
	}
	fmt.Println("no failure on this input")
}

package main

import (
	"errors"
	"flag"
	"fmt"
	"path/filepath"
	"strings"

	"github.com/moov-io/ach"
	"github.com/moov-io/base"

	"verifharness/internal/hx"
	"verifharness/internal/rng"
)

// framing correspondence: texts whose records start with characters that are not
// record types, so that Reader.Read reports, for every line it frames, either
// "unknown record type <first char>" or "wrong length <n>" with the line number.
// The sequence of those reports is the observable of the framing loop.
func framing(args []string) {
	fs := flag.NewFlagSet("framing", flag.ExitOnError)
	out := fs.String("out", "", "output directory")
	n := fs.Int("n", 1500, "cases")
	fs.Parse(args)
	cases := hx.Create(filepath.Join(*out, "fcases.txt"))
	impl := hx.Create(filepath.Join(*out, "fimpl.txt"))
	r := rng.FromEnv(303)
	for i := 0; i < *n; i++ {
		text := framingText(r)
		cases.Printf("F %s\n", hx.Enc(text))
		impl.Printf("%s\n", observeFraming(text))
	}
	cases.Close()
	impl.Close()
	fmt.Printf("{\"cases\":%d}\n", *n)
}

func framingText(r *rng.R) string {
	var b strings.Builder
	lines := r.Range(0, 6)
	first := []string{"A", "B", "C", "D", "E", "F", "G", "H", "é", "Ñ"}
	body := []string{"x", "y", " ", " ", "0", "é", "€"}
	for i := 0; i < lines; i++ {
		switch r.Intn(8) {
		case 0: // blank line of spaces
			b.WriteString(strings.Repeat(" ", r.Range(0, 100)))
		default:
			l := rng.Pick(r, []int{94, 94, 94, r.Range(1, 93), r.Range(95, 200), 188, 93, 95})
			b.WriteString(rng.Pick(r, first))
			for j := 1; j < l; j++ {
				b.WriteString(rng.Pick(r, body))
			}
		}
		switch r.Intn(6) {
		case 0:
			b.WriteString("\r\n")
		case 1:
			b.WriteString("\r")
		case 2:
			// unbroken
		case 3:
			b.WriteString("\n\n")
		default:
			b.WriteString("\n")
		}
	}
	return b.String()
}

func observeFraming(text string) (obs string) {
	defer func() {
		if e := recover(); e != nil {
			obs = "PANIC"
		}
	}()
	// explicit charset: the framing loop is what is compared here, not x/net's charset sniffing
	_, err := ach.NewReaderWithContentType(strings.NewReader(text), "text/plain; charset=utf-8").Read()
	var parts []string
	var list base.ErrorList
	if err != nil {
		if !errors.As(err, &list) {
			list = base.ErrorList{err}
		}
	}
	for _, e := range list {
		var pe *base.ParseError
		var ut ach.ErrUnknownRecordType
		switch {
		case errors.As(e, &pe):
			var wl ach.RecordWrongLengthErr
			if errors.As(pe.Err, &wl) {
				parts = append(parts, fmt.Sprintf("%d:len%d", pe.Line, wl.Length))
			} else {
				parts = append(parts, fmt.Sprintf("%d:other", pe.Line))
			}
		case errors.As(e, &ut):
			parts = append(parts, "type:"+hx.Enc(ut.Type))
		}
		// file-level errors (missing header/control) are the same for every text here
	}
	if len(parts) == 0 {
		return "-"
	}
	return strings.Join(parts, " ")
}

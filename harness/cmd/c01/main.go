// Command c01: record-level correspondence (layout interpreter vs real
// String()/Parse()), framing correspondence and the write/read round-trip oracle.
package main

import (
	"flag"
	"fmt"
	"os"
	"path/filepath"
	"strings"
	"unicode/utf8"

	"verifharness/internal/hx"
	"verifharness/internal/recs"
	"verifharness/internal/rng"
)

func main() {
	if len(os.Args) < 2 {
		fmt.Fprintln(os.Stderr, "usage: c01 records|framing|oracle|replay ...")
		os.Exit(2)
	}
	switch os.Args[1] {
	case "records":
		records(os.Args[2:])
	case "framing":
		framing(os.Args[2:])
	case "oracle":
		oracle(os.Args[2:])
	case "replay":
		replay(os.Args[2:])
	default:
		fmt.Fprintln(os.Stderr, "unknown mode")
		os.Exit(2)
	}
}

var strPool = []string{"0", "1", "2", "3", "4", "5", "6", "7", "8", "9", "A", "B", "c", "d", "Z", " ", "-", ".", "&", "é", "Ñ", "ÿ"}

func randString(r *rng.R, max int) string {
	shape := r.Intn(10)
	l := r.Range(0, max)
	var b strings.Builder
	switch shape {
	case 0:
		return ""
	case 1: // digits only
		for i := 0; i < l; i++ {
			b.WriteString(strPool[r.Intn(10)])
		}
	case 2: // leading blank
		b.WriteString(" ")
		for i := 1; i < l; i++ {
			b.WriteString(rng.Pick(r, strPool))
		}
	case 3: // ASCII alnum without blanks
		for i := 0; i < l; i++ {
			b.WriteString(strPool[r.Intn(15)])
		}
	default:
		for i := 0; i < l; i++ {
			b.WriteString(rng.Pick(r, strPool))
		}
	}
	return b.String()
}

var dates = []string{"190816", "000229", "990101", "210230", "191301", "19081", "1908166", "      ", "240229", "230229"}
var times = []string{"1055", "0000", "2359", "2460", "3000", "105", "10555", "    ", "1a55"}

func randInt(r *rng.R) int64 {
	switch r.Intn(8) {
	case 0:
		return 0
	case 1:
		return int64(r.Range(1, 9))
	case 2:
		return int64(r.Range(10, 99))
	case 3:
		return int64(r.Range(100, 999))
	case 4:
		return int64(r.U64() % 10000000000)
	case 5:
		return int64(r.U64() % 1000000000000000)
	case 6:
		return -int64(r.Range(1, 5000))
	default:
		return int64(r.Range(0, 99999))
	}
}

func randomize(r *rng.R, rec recs.Record) {
	for _, f := range recs.Fields(rec) {
		if !f.Exported || r.Chance(1, 6) {
			continue
		}
		if f.IsInt {
			recs.SetInt(rec, f.Name, randInt(r))
			continue
		}
		switch {
		case strings.Contains(f.Name, "CreationDate"):
			recs.SetString(rec, f.Name, rng.Pick(r, dates))
		case strings.Contains(f.Name, "CreationTime"):
			recs.SetString(rec, f.Name, rng.Pick(r, times))
		case strings.Contains(f.Name, "Date") && r.Chance(1, 2):
			recs.SetString(rec, f.Name, rng.Pick(r, dates))
		default:
			recs.SetString(rec, f.Name, randString(r, 40))
		}
	}
}

func mutateLine(r *rng.R, line string) string {
	rs := []rune(line)
	k := r.Range(0, 6)
	pool := []rune{' ', '0', '7', 'A', 'x', 'é', '\t', '-', 0xa0}
	for i := 0; i < k && len(rs) > 0; i++ {
		rs[r.Intn(len(rs))] = rng.Pick(r, pool)
	}
	return string(rs)
}

func records(args []string) {
	fs := flag.NewFlagSet("records", flag.ExitOnError)
	out := fs.String("out", "", "output directory")
	n := fs.Int("n", 150, "cases per record type")
	fs.Parse(args)
	cases := hx.Create(filepath.Join(*out, "cases.txt"))
	impl := hx.Create(filepath.Join(*out, "impl.txt"))
	r := rng.FromEnv(101)
	total := 0
	for _, name := range recs.Names {
		for i := 0; i < *n; i++ {
			rec := recs.New(name)
			if i > 0 {
				randomize(r, rec)
			}
			before := recs.Dump(rec)
			s, ok := recs.SafeString(rec)
			cases.Printf("S %s %s\n", name, before)
			if ok {
				impl.Printf("%s\n", hx.Enc(s))
			} else {
				impl.Printf("PANIC\n")
			}
			total++
			// parse the rendered line (if it is a record) and a mutated variant into a fresh value
			if ok && utf8.RuneCountInString(s) == 94 {
				for _, line := range []string{s, mutateLine(r, s)} {
					fresh := recs.New(name)
					init := recs.Dump(fresh)
					pok := recs.SafeParse(fresh, line)
					cases.Printf("P %s %s %s\n", name, hx.Enc(line), init)
					if pok {
						impl.Printf("%s\n", recs.Dump(fresh))
					} else {
						impl.Printf("PANIC\n")
					}
					total++
				}
			}
		}
	}
	cases.Close()
	impl.Close()
	fmt.Printf("{\"cases\":%d}\n", total)
}

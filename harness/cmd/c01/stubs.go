package main

func framing(args []string) {}
func oracle(args []string)  {}
func replay(args []string)  {}

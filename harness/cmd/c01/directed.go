package main

import (
	"fmt"

	"github.com/moov-io/ach"
)

// directed builds small valid files through the public constructors that exercise the
// corners the random generator avoids on purpose.
func directed() map[string]*ach.File {
	out := map[string]*ach.File{}
	mk := func(n int, edit func(i int, e *ach.EntryDetail), hdr func(bh *ach.BatchHeader)) *ach.File {
		f := ach.NewFile()
		f.Header.ImmediateDestination = "231380104"
		f.Header.ImmediateOrigin = "121042882"
		f.Header.FileCreationDate = "190816"
		f.Header.FileCreationTime = "1055"
		f.Header.ImmediateDestinationName = "Federal Reserve Bank"
		f.Header.ImmediateOriginName = "My Bank Name"
		bh := ach.NewBatchHeader()
		bh.ServiceClassCode = ach.CreditsOnly
		bh.CompanyName = "Name on Account"
		bh.CompanyIdentification = "121042882"
		bh.StandardEntryClassCode = ach.PPD
		bh.CompanyEntryDescription = "REG.SALARY"
		bh.EffectiveEntryDate = "190816"
		bh.ODFIIdentification = "12104288"
		if hdr != nil {
			hdr(bh)
		}
		b, err := ach.NewBatch(bh)
		if err != nil {
			return nil
		}
		for i := 0; i < n; i++ {
			e := ach.NewEntryDetail()
			e.TransactionCode = ach.CheckingCredit
			e.SetRDFI("231380104")
			e.DFIAccountNumber = fmt.Sprintf("%09d", 100000+i)
			e.Amount = 100 + i
			e.IndividualName = fmt.Sprintf("Receiver Name %d", i)
			e.SetTraceNumber(bh.ODFIIdentification, i+1)
			e.Category = ach.CategoryForward
			if edit != nil {
				edit(i, e)
			}
			b.AddEntry(e)
		}
		if err := b.Create(); err != nil {
			return nil
		}
		f.AddBatch(b)
		if err := f.Create(); err != nil {
			return nil
		}
		if f.Validate() != nil {
			return nil
		}
		return f
	}
	// a non-ASCII character first occurring after byte 1024 (charset sniffing window)
	out["late-nonascii"] = mk(14, func(i int, e *ach.EntryDetail) {
		if i == 13 {
			e.IndividualName = "José Ñandú"
		}
	}, nil)
	// a left-justified field starting with a blank
	out["leading-blank-name"] = mk(2, func(i int, e *ach.EntryDetail) {
		if i == 0 {
			e.IndividualName = " Indented Name"
		}
	}, nil)
	out["leading-blank-company"] = mk(1, nil, func(bh *ach.BatchHeader) { bh.CompanyName = "  Padded Co" })
	// an effective entry date that is not a calendar date
	out["effective-date-not-a-date"] = mk(1, nil, func(bh *ach.BatchHeader) { bh.EffectiveEntryDate = "191345" })
	out["effective-date-short"] = mk(1, nil, func(bh *ach.BatchHeader) { bh.EffectiveEntryDate = "19081" })
	// multi-byte characters in front of the SEC columns and a company identification ending in "IAT":
	// bytes 50..53 of the batch header read "IAT" (Reader.parseBH sliced bytes before the fix 272ca522)
	out["multibyte-company-iat-id"] = mk(2, nil, func(bh *ach.BatchHeader) {
		bh.CompanyName = "Café Ñandú SA"
		bh.CompanyIdentification = "1234567IAT"
	})
	// a company named IATCOR: the reader recognises IAT notification-of-change batches by that text in columns 4..20
	out["company-name-iatcor"] = mk(1, nil, func(bh *ach.BatchHeader) { bh.CompanyName = "IATCOR" })
	// discretionary data / identification with inner blanks only (control)
	out["plain"] = mk(3, nil, nil)
	for k, v := range out {
		if v == nil {
			delete(out, k)
		}
	}
	return out
}

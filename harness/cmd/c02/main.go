// Command c02: oracle and correspondence for property C02 (every successfully
// written file is physically well-formed NACHA).
package main

import (
	"bytes"
	"encoding/json"
	"flag"
	"fmt"
	"os"
	"path/filepath"
	"sort"
	"strconv"
	"strings"
	"unicode/utf8"

	"github.com/moov-io/ach"

	"verifharness/internal/gen"
	"verifharness/internal/hx"
	"verifharness/internal/rng"
)

func main() {
	if len(os.Args) < 2 {
		fmt.Fprintln(os.Stderr, "usage: c02 corr|oracle|replay ...")
		os.Exit(2)
	}
	switch os.Args[1] {
	case "corr":
		corr(os.Args[2:])
	case "oracle":
		oracle(os.Args[2:])
	case "replay":
		replay(os.Args[2:])
	default:
		os.Exit(2)
	}
}

var nines = strings.Repeat("9", 94)

type fail struct {
	Kind string         `json:"kind"`
	Key  string         `json:"key"`
	What string         `json:"what"`
	Case map[string]any `json:"case"`
}

func safeWrite(f *ach.File, crlf bool) (s string, err error) {
	defer func() {
		if r := recover(); r != nil {
			err = fmt.Errorf("panic: %v", r)
		}
	}()
	return gen.Text(f, crlf)
}

func safeWriteMode(f *ach.File, mode int) (s string, le string, err error) {
	defer func() {
		if r := recover(); r != nil {
			err = fmt.Errorf("panic: %v", r)
		}
	}()
	return gen.TextMode(f, mode)
}

func safeRead(text string) (f *ach.File, err error) {
	defer func() {
		if r := recover(); r != nil {
			err = fmt.Errorf("panic: %v", r)
		}
	}()
	return gen.Parse(text)
}

// physical checks the writer's output; created says the control counts must match what is physically present.
func physical(text string, le string, created bool, f *ach.File) (key, what string) {
	if text == "" {
		return "c02:empty", "writer reported success with empty output"
	}
	if !strings.HasSuffix(text, le) {
		return "c02:line-ending", "output does not end with the configured line ending"
	}
	lines := strings.Split(strings.TrimSuffix(text, le), le)
	for i, l := range lines {
		if strings.ContainsAny(l, "\r\n") {
			return "c02:line-ending", fmt.Sprintf("line %d contains a stray CR/LF", i+1)
		}
		if n := utf8.RuneCountInString(l); n != 94 {
			t := "?"
			if len(l) > 0 {
				t = l[:1]
			}
			if len(l) > 2 && t == "7" {
				t = "7" + l[1:3]
			}
			return "c02:line-width:" + t, fmt.Sprintf("record %d has %d characters: %q", i+1, n, l)
		}
	}
	if len(lines)%10 != 0 {
		return "c02:blocking", fmt.Sprintf("%d records, not a multiple of ten", len(lines))
	}
	// grammar 1 (5 (6 7*)* 8)* 9 filler*
	state := "start"
	n5, n67 := 0, 0
	for i, l := range lines {
		t := l[0]
		bad := func() (string, string) {
			return "c02:order", fmt.Sprintf("record %d of type %c not allowed after %s", i+1, t, state)
		}
		switch state {
		case "start":
			if t != '1' {
				return bad()
			}
			state = "file"
		case "file":
			switch t {
			case '5':
				state = "batch"
				n5++
			case '9':
				state = "done"
			default:
				return bad()
			}
		case "batch":
			switch t {
			case '6':
				state = "entry"
				n67++
			case '8':
				state = "file"
			default:
				return bad()
			}
		case "entry":
			switch t {
			case '6', '7':
				n67++
			case '8':
				state = "file"
			default:
				return bad()
			}
		case "done":
			if l != nines {
				return "c02:filler", fmt.Sprintf("record %d after the file control is not all-9 filler", i+1)
			}
		}
	}
	if state != "done" {
		return "c02:order", "no file control record"
	}
	if created && f != nil {
		if !f.IsADV() {
			if f.Control.BatchCount != n5 {
				return "c02:count:batch", fmt.Sprintf("file control batch count %d, %d batch headers present", f.Control.BatchCount, n5)
			}
			if f.Control.BlockCount != len(lines)/10 {
				return "c02:count:block", fmt.Sprintf("file control block count %d, %d records present", f.Control.BlockCount, len(lines))
			}
			if f.Control.EntryAddendaCount != n67 {
				return "c02:count:entry-addenda", fmt.Sprintf("file control entry/addenda count %d, %d entry+addenda records present", f.Control.EntryAddendaCount, n67)
			}
		} else {
			if f.ADVControl.BatchCount != n5 || f.ADVControl.BlockCount != len(lines)/10 || f.ADVControl.EntryAddendaCount != n67 {
				return "c02:count:adv", "ADV file control counts differ from what is physically present"
			}
		}
	}
	return "", ""
}

type summary struct {
	Kind        string           `json:"kind"`
	Evaluations int              `json:"evaluations"`
	Distinct    int              `json:"distinct_nontrivial"`
	Rule        string           `json:"rule"`
	Dist        map[string]int   `json:"distribution"`
	Samples     []map[string]any `json:"samples"`
}

func genOpts(i int) gen.Opts {
	o := gen.Opts{Addenda: true}
	switch i % 6 {
	case 1:
		o.Returns, o.NOC, o.ADVReturns = true, true, true
	case 2:
		o.IAT = true
	case 3:
		o.NonASCII = true
	case 4:
		o.NonASCII, o.Returns, o.NOC, o.IAT, o.ADVReturns = true, true, true, true, true
	case 5:
		o.Offset = true
		o.MaxBatches, o.MaxEntries = 6, 9
	}
	return o
}

func genFile(r *rng.R, i int) (*ach.File, string) {
	o := genOpts(i)
	secs := append(gen.AllSECs(), "IAT", "ADV")
	if i%3 == 0 {
		sec := secs[(i/3)%len(secs)]
		return gen.FileOfSEC(r, sec, o), sec
	}
	return gen.File(r, o), "mixed"
}

// recreate re-tabulates every batch and the file and reports whether the result validates.
func recreate(f *ach.File) (ok bool) {
	defer func() {
		if recover() != nil {
			ok = false
		}
	}()
	for _, b := range f.Batches {
		if err := b.Create(); err != nil {
			return false
		}
	}
	for i := range f.IATBatches {
		if err := f.IATBatches[i].Create(); err != nil {
			return false
		}
	}
	if err := f.Create(); err != nil {
		return false
	}
	return f.Validate() == nil
}

func mutateText(r *rng.R, s string) string {
	rs := []rune(s)
	if len(rs) == 0 {
		return s
	}
	k := r.Range(1, 4)
	pool := []rune{' ', '0', '1', '5', '9', 'A', 'z', 'é', 'I', 'T'}
	for i := 0; i < k; i++ {
		p := r.Intn(len(rs))
		if rs[p] == '\n' || rs[p] == '\r' {
			continue
		}
		rs[p] = rng.Pick(r, pool)
	}
	return string(rs)
}

func oracle(args []string) {
	fs := flag.NewFlagSet("oracle", flag.ExitOnError)
	out := fs.String("out", "", "output directory")
	n := fs.Int("n", 400, "generated files")
	ntext := fs.Int("ntext", 1500, "texts read with default options")
	repo := fs.String("repo", "/repo", "repository (fixtures)")
	corpus := fs.String("corpus", "", "corpus directory")
	fs.Parse(args)
	res := hx.Create(filepath.Join(*out, "oracle.jsonl"))
	enc := func(v any) {
		b, _ := json.Marshal(v)
		res.Printf("%s\n", b)
	}
	sum := summary{Kind: "summary", Dist: map[string]int{}, Rule: "domain 1: files built by gen through the public constructors + Create (every SEC, IAT, ADV, returns/NOC, offsets; record-count residues mod 10 tallied); domain 2: files the Reader returns without error for fixtures, mutated valid texts and byte noise under default options; each written with LF and CRLF, the line ending configured through WriteOpts and through the Writer's exported LineEnding field (4 writer modes); a write that reports success is checked for 94-character records, line endings, blocking, filler, record order and (domain 1) control counts; non-trivial = the writer reported success; distinct by output text"}
	seen := map[string]bool{}
	residues := map[int]int{}
	check := func(f *ach.File, created bool, desc map[string]any) {
		for mode := 0; mode < 4; mode++ {
			text, le, err := safeWriteMode(f, mode)
			crlf := le == "\r\n"
			sum.Evaluations++
			if err != nil {
				sum.Dist["write-refused"]++
				continue
			}
			sum.Dist["written"]++
			if !seen[text] {
				seen[text] = true
				sum.Distinct++
			}
			if created && mode == 0 {
				residues[strings.Count(strings.ReplaceAll(text, nines+le, ""), le)%10]++
			}
			if key, what := physical(text, le, created, f); key != "" {
				c := map[string]any{"crlf": crlf, "writer_mode": mode, "output": hx.Enc(text)}
				for k, v := range desc {
					c[k] = v
				}
				enc(fail{Kind: "fail", Key: key, What: what, Case: c})
			}
		}
	}
	for _, t := range corpusTexts(*corpus) {
		if f, err := safeRead(t); err == nil && f != nil {
			check(f, false, map[string]any{"text": hx.Enc(t), "source": "corpus"})
		}
	}
	r := rng.FromEnv(2002)
	var texts []string
	for i := 0; i < *n; i++ {
		f, sec := genFile(r, i)
		check(f, true, map[string]any{"source": "gen", "sec": sec, "index": i})
		if t, err := safeWrite(f, false); err == nil {
			texts = append(texts, t)
			if len(sum.Samples) < 3 && i%97 == 0 {
				sum.Samples = append(sum.Samples, map[string]any{"sec": sec, "records": strings.Count(t, "\n"), "first": strings.SplitN(t, "\n", 2)[0]})
			}
		}
	}
	for i, f := range apiFiles(r, *n/2) {
		check(f, true, map[string]any{"source": "api", "index": i})
		sum.Dist["api-built"]++
	}
	// unusual addenda shapes: an addenda record of another type attached to one entry of a generated
	// file (second NOC record, return addenda of another family, IAT Addenda99/98/18), re-tabulated with
	// Create; kept when the library still accepts the file
	ro := rng.FromEnv(2102)
	for i := 0; i < *n; i++ {
		f, sec := genFile(ro, i)
		if f == nil {
			continue
		}
		g := gen.Clone(f)
		desc, ok := gen.OddAddenda(ro, g)
		if !ok || !recreate(g) {
			sum.Dist["odd-addenda-refused"]++
			continue
		}
		sum.Dist["odd-addenda-accepted"]++
		check(g, true, map[string]any{"source": "gen+odd-addenda", "sec": sec, "index": i, "change": desc})
	}
	achFiles, _ := gen.Fixtures(*repo)
	for _, p := range achFiles {
		if b, err := os.ReadFile(p); err == nil && len(b) < 300000 {
			texts = append(texts, string(b))
		}
	}
	for i := 0; i < *ntext && len(texts) > 0; i++ {
		t := texts[r.Intn(len(texts))]
		switch i % 5 {
		case 4: // fill the reserved / rarely used columns of addenda records (IAT corrected-data extension of 798 records, …)
			ls := strings.Split(t, "\n")
			for j, l := range ls {
				if strings.HasPrefix(l, "798") && utf8.RuneCountInString(l) == 94 && len(l) == 94 {
					ls[j] = l[:64] + "IATX1 " + l[70:]
				}
			}
			t = strings.Join(ls, "\n")
		case 0: // as is
		case 1, 2:
			t = mutateText(r, t)
		case 3: // byte noise
			b := []byte(t)
			for k := 0; k < 1+r.Intn(4) && len(b) > 0; k++ {
				b[r.Intn(len(b))] = byte(r.Intn(256))
			}
			t = string(b)
		}
		f, err := safeRead(t)
		if err != nil || f == nil {
			sum.Evaluations++
			sum.Dist["read-rejected"]++
			continue
		}
		check(f, false, map[string]any{"text": hx.Enc(t), "source": "read"})
	}
	for k, v := range residues {
		sum.Dist["residue-"+strconv.Itoa(k)] = v
	}
	enc(sum)
	res.Close()
}

func corpusTexts(dir string) []string {
	var out []string
	if dir == "" {
		return out
	}
	names, _ := filepath.Glob(filepath.Join(dir, "*.json"))
	sort.Strings(names)
	for _, p := range names {
		b, err := os.ReadFile(p)
		if err != nil {
			continue
		}
		var rp struct {
			Input struct {
				Text string `json:"text"`
			} `json:"input"`
		}
		if json.Unmarshal(b, &rp) == nil && rp.Input.Text != "" {
			out = append(out, hx.Dec(rp.Input.Text))
		}
	}
	return out
}

func replay(args []string) {
	if len(args) < 1 {
		os.Exit(2)
	}
	b, err := os.ReadFile(args[0])
	if err != nil {
		fmt.Fprintln(os.Stderr, err)
		os.Exit(2)
	}
	var rp struct {
		Input map[string]any `json:"input"`
	}
	if json.Unmarshal(b, &rp) != nil || rp.Input == nil {
		fmt.Println("replay file carries no input: nothing to run")
		return
	}
	t, _ := rp.Input["text"].(string)
	if t == "" {
		fmt.Println("this replay records a generated file by index; its output text is in the replay file (field output)")
		return
	}
	f, err := safeRead(hx.Dec(t))
	if err != nil {
		fmt.Println("reader rejects the text:", err)
		return
	}
	rc := 0
	for mode := 0; mode < 4; mode++ {
		text, le, err := safeWriteMode(f, mode)
		if err != nil {
			continue
		}
		if key, what := physical(text, le, false, f); key != "" {
			fmt.Println(key, what)
			rc = 1
		}
	}
	if rc == 0 {
		fmt.Println("no failure on this input")
	}
	os.Exit(rc)
}

// ---------------------------------------------------------------- correspondence (structural model)

func structure(f *ach.File) string {
	var b bytes.Buffer
	for _, bt := range f.Batches {
		b.WriteString("B[")
		if f.IsADV() {
			for _, e := range bt.GetADVEntries() {
				n := 0
				if e.Addenda99 != nil {
					n++
				}
				fmt.Fprintf(&b, "%d,", n)
			}
		} else {
			for _, e := range bt.GetEntries() {
				n := len(e.Addenda05)
				for _, p := range []bool{e.Addenda02 != nil, e.Addenda98 != nil, e.Addenda98Refused != nil, e.Addenda99 != nil, e.Addenda99Dishonored != nil, e.Addenda99Contested != nil} {
					if p {
						n++
					}
				}
				fmt.Fprintf(&b, "%d,", n)
			}
		}
		b.WriteString("]")
	}
	for _, bt := range f.IATBatches {
		b.WriteString("I[")
		for _, e := range bt.GetEntries() {
			n := len(e.Addenda17) + len(e.Addenda18)
			for _, p := range []bool{e.Addenda10 != nil, e.Addenda11 != nil, e.Addenda12 != nil, e.Addenda13 != nil, e.Addenda14 != nil, e.Addenda15 != nil, e.Addenda16 != nil, e.Addenda98 != nil, e.Addenda99 != nil} {
				if p {
					n++
				}
			}
			fmt.Fprintf(&b, "%d,", n)
		}
		b.WriteString("]")
	}
	return b.String()
}

func corr(args []string) {
	fs := flag.NewFlagSet("corr", flag.ExitOnError)
	out := fs.String("out", "", "output directory")
	n := fs.Int("n", 300, "files")
	fs.Parse(args)
	cases := hx.Create(filepath.Join(*out, "cases.txt"))
	impl := hx.Create(filepath.Join(*out, "impl.txt"))
	r := rng.FromEnv(2003)
	total := 0
	for i := 0; i < *n; i++ {
		f, _ := genFile(r, i)
		text, err := safeWrite(f, false)
		if err != nil {
			continue
		}
		lines := strings.Split(strings.TrimSuffix(text, "\n"), "\n")
		// the writer's own line list, then with fillers removed / added
		var nof []string
		for _, l := range lines {
			if l != nines {
				nof = append(nof, l)
			}
		}
		more := append(append([]string{}, lines...), nines, nines, nines)
		for vi, ls := range [][]string{lines, nof, more} {
			f2, err := safeRead(strings.Join(ls, "\n") + "\n")
			var hexes []string
			for _, l := range ls {
				hexes = append(hexes, hx.Enc(l))
			}
			cases.Printf("G %d %s\n", vi, strings.Join(hexes, " "))
			if err != nil {
				impl.Printf("ERR\n")
			} else {
				// batches and IAT batches are kept in separate lists by the library; the model keeps file order
				impl.Printf("OK %s\n", strings.NewReplacer("I[", "B[").Replace(structure(f2)))
			}
			total++
		}
	}
	cases.Close()
	impl.Close()
	fmt.Printf("{\"cases\":%d}\n", total)
}

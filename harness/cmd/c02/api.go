package main

import (
	"fmt"
	"reflect"
	"strings"

	"github.com/moov-io/ach"

	"verifharness/internal/gen"
	"verifharness/internal/rng"
)

// apiFiles builds files through the public constructors and setters only, with
// argument values inside the NACHA width of the (sub-)field they fill, re-tabulated
// with Create.  They are in the first domain of C02: if Create and the validating
// writer both succeed, the output must be physically well formed.
func apiFiles(r *rng.R, n int) []*ach.File {
	var out []*ach.File
	// (1) corporate batches whose entries carry many addenda, counted with the documented setter
	for _, sec := range []string{ach.CTX, ach.ATX, ach.TRX} {
		for _, k := range []int{0, 1, 2, 9, 10, 11, 12, 25, 99, 100} {
			if f := corporate(r, sec, k, false); f != nil {
				out = append(out, f)
			}
			if f := corporate(r, sec, k, true); f != nil {
				out = append(out, f)
			}
		}
	}
	// (2) random setter calls on the entries of generated files, then Create again
	for i := 0; i < n; i++ {
		f := gen.File(r, gen.Opts{Addenda: true, ForwardOnly: i%2 == 0, Returns: true})
		if g := perturbWithSetters(r, f); g != nil {
			out = append(out, g)
		}
	}
	return out
}

func corporate(r *rng.R, sec string, addenda int, resetIndicator bool) *ach.File {
	f := ach.NewFile()
	f.Header = gen.Header(r, gen.Opts{})
	bh := ach.NewBatchHeader()
	bh.ServiceClassCode = ach.DebitsOnly
	bh.CompanyName = "Name on Account"
	bh.CompanyIdentification = "121042882"
	bh.StandardEntryClassCode = sec
	bh.CompanyEntryDescription = "ACH " + sec
	bh.EffectiveEntryDate = "190816"
	bh.ODFIIdentification = "12104288"
	b, err := ach.NewBatch(bh)
	if err != nil {
		return nil
	}
	e := ach.NewEntryDetail()
	e.TransactionCode = ach.CheckingDebit
	if sec == ach.ATX {
		bh.ServiceClassCode = ach.CreditsOnly
		e.TransactionCode = ach.CheckingZeroDollarRemittanceCredit
	}
	e.SetRDFI("231380104")
	e.DFIAccountNumber = "12345678"
	e.Amount = 100000
	if sec == ach.ATX {
		e.Amount = 0
	}
	e.IdentificationNumber = "45689033"
	e.SetCATXAddendaRecords(addenda)
	e.SetCATXReceivingCompany("Receiver Company")
	e.SetTraceNumber(bh.ODFIIdentification, 1)
	e.DiscretionaryData = "01"
	if sec == ach.TRX {
		e.SetItemTypeIndicator("01")
	}
	if resetIndicator && addenda > 0 {
		e.AddendaRecordIndicator = 1
	}
	for i := 1; i <= addenda; i++ {
		a := ach.NewAddenda05()
		a.PaymentRelatedInformation = fmt.Sprintf("Invoice %04d", i)
		a.SequenceNumber = i
		a.EntryDetailSequenceNumber = 1
		e.AddAddenda05(a)
	}
	b.AddEntry(e)
	if err := safeCreateBatch(b); err != nil {
		return nil
	}
	f.AddBatch(b)
	if err := safeCreateFile(f); err != nil {
		return nil
	}
	return f
}

func safeCreateBatch(b ach.Batcher) (err error) {
	defer func() {
		if r := recover(); r != nil {
			err = fmt.Errorf("panic: %v", r)
		}
	}()
	return b.Create()
}

func safeCreateFile(f *ach.File) (err error) {
	defer func() {
		if r := recover(); r != nil {
			err = fmt.Errorf("panic: %v", r)
		}
	}()
	return f.Create()
}

var setterArgs = []string{"", "0", "1", "S", "R", "01", "12", "AB", "123", "0123", "1299", "12345", "123456", "ABCDEFGHI", "123456789012345", "1234567890123456", "Some Company Name 1234", "X"}

// perturbWithSetters calls one or two exported Set… methods (string or int argument) on a random
// entry of the file and re-runs Create; nil when Create then rejects the file.
func perturbWithSetters(r *rng.R, f *ach.File) (out *ach.File) {
	defer func() {
		if e := recover(); e != nil {
			out = nil
		}
	}()
	if len(f.Batches) == 0 {
		return nil
	}
	b := f.Batches[r.Intn(len(f.Batches))]
	es := b.GetEntries()
	if len(es) == 0 {
		return nil
	}
	e := es[r.Intn(len(es))]
	v := reflect.ValueOf(e)
	t := v.Type()
	sec := ""
	if b.GetHeader() != nil {
		sec = b.GetHeader().StandardEntryClassCode
	}
	var cands []int
	for i := 0; i < t.NumMethod(); i++ {
		m := t.Method(i)
		if !strings.HasPrefix(m.Name, "Set") || m.Name == "SetValidation" || m.Name == "SetTraceNumber" || m.Name == "SetRDFI" {
			continue
		}
		// only the setters documented for this SEC code: calling e.g. the CTX addenda-count setter on a
		// TEL entry stores an out-of-width AddendaRecordIndicator, which C02 leaves to C06
		if !setterApplies(m.Name, sec) {
			continue
		}
		if m.Type.NumIn() == 2 && (m.Type.In(1).Kind() == reflect.String || m.Type.In(1).Kind() == reflect.Int) {
			cands = append(cands, i)
		}
	}
	if len(cands) == 0 {
		return nil
	}
	for k := 0; k < r.Range(1, 2); k++ {
		m := t.Method(rng.Pick(r, cands))
		var arg reflect.Value
		if m.Type.In(1).Kind() == reflect.Int {
			arg = reflect.ValueOf(rng.Pick(r, []int{0, 1, 2, 9, 10, 11, 99, 100, 999, 1000, 9999}))
		} else {
			arg = reflect.ValueOf(rng.Pick(r, setterArgs))
		}
		v.Method(m.Index).Call([]reflect.Value{arg})
	}
	if err := safeCreateBatch(b); err != nil {
		return nil
	}
	if err := safeCreateFile(f); err != nil {
		return nil
	}
	return f
}

func setterApplies(name, sec string) bool {
	in := func(xs ...string) bool {
		for _, x := range xs {
			if x == sec {
				return true
			}
		}
		return false
	}
	switch {
	case strings.HasPrefix(name, "SetCATX"):
		return in(ach.CTX, ach.ATX, ach.TRX)
	case strings.HasPrefix(name, "SetPOP"):
		return in(ach.POP)
	case strings.HasPrefix(name, "SetSHR"):
		return in(ach.SHR)
	case name == "SetProcessControlField" || name == "SetItemResearchNumber":
		return in(ach.TRC, ach.XCK)
	case name == "SetItemTypeIndicator":
		return in(ach.TRC, ach.TRX)
	case name == "SetPaymentType":
		return in(ach.WEB, ach.TEL)
	case name == "SetCheckSerialNumber":
		return in(ach.ARC, ach.BOC, ach.RCK)
	case name == "SetOriginalTraceNumber":
		return in(ach.ACK, ach.ATX)
	case name == "SetReceivingCompany":
		return in(ach.CCD, ach.ACK)
	}
	return false
}

// Command optstest is the self test of gen.NeedsOpts (files that are valid ONLY under the
// ValidateOpts stored on them): table-driven over gen.OptVariants(), it draws N files per
// variant from the variant's own base generator and N mixed files through gen.NeedsOpts, checks
// each result (validates with its options, does not validate without, is a fixed point of
// File.Create, clone equality, the option set is where the variant says it is) and reports the
// production rate per variant and per content kind (standard / IAT / ADV / return / NOC).
// Exit status 1 when a variant is produced at less than the required rate or a check failed.
package main

import (
	"encoding/json"
	"flag"
	"fmt"
	"os"

	"github.com/moov-io/ach"

	"verifharness/internal/gen"
	"verifharness/internal/rng"
)

type row struct {
	Flag     string         `json:"flag"`
	Level    string         `json:"level"`
	Stale    bool           `json:"stale,omitempty"`
	Tries    int            `json:"tries"`
	Produced int            `json:"produced"`
	Kinds    map[string]int `json:"kinds"`
	Failures []string       `json:"failures,omitempty"`
}

type summary struct {
	Seed     uint64                    `json:"seed"`
	N        int                       `json:"n_per_variant"`
	MinRate  float64                   `json:"min_rate"`
	Variants map[string]*row           `json:"variants"`
	Mixed    map[string]int            `json:"mixed_draws"`
	MixedNil int                       `json:"mixed_not_applicable"`
	Rejects  map[string]map[string]int `json:"rejected_draws"`
	Failed   []string                  `json:"failed,omitempty"`
}

// wantKinds: the content kinds each variant must be seen with (the flag applies there).
var wantKinds = map[string][]string{
	"bypass-origin":                   {"std", "iat", "return", "noc"},
	"bypass-origin-traces":            {"std", "iat"},
	"short-trace-numbers":             {"std"},
	"bypass-destination":              {"std", "iat", "adv", "return", "noc"},
	"custom-trace-numbers":            {"std", "iat"},
	"allow-zero-batches":              {"empty"},
	"allow-missing-file-header":       {"std", "iat", "return", "noc"},
	"unordered-batch-numbers":         {"std"},
	"company-identification-mismatch": {"std", "return", "noc"},
	"unequal-service-class":           {"std", "iat", "adv", "return", "noc"},
	"unequal-addenda-counts-control":  {"std", "iat", "adv", "return", "noc"},
	"unequal-addenda-counts-ctx":      {"std"},
	"invalid-amounts":                 {"std", "return"},
	"zero-entry-amount":               {"std"},
	"invalid-check-digit":             {"std", "return", "noc"},
	"custom-return-codes":             {"return"},
	"special-characters":              {"std", "iat", "adv", "return", "noc"},
	"check-transaction-code":          {"std"},
}

func kinds(f *ach.File) []string {
	m := map[string]bool{}
	if len(f.Batches)+len(f.IATBatches) == 0 {
		m["empty"] = true
	}
	for _, b := range f.Batches {
		switch {
		case b.GetHeader().StandardEntryClassCode == ach.ADV:
			m["adv"] = true
		case b.Category() == ach.CategoryNOC:
			m["noc"] = true
		case b.Category() != ach.CategoryForward:
			m["return"] = true
		default:
			m["std"] = true
		}
	}
	if len(f.IATBatches) > 0 {
		m["iat"] = true
	}
	var out []string
	for k := range m {
		out = append(out, k)
	}
	return out
}

func main() {
	n := flag.Int("n", 150, "draws per variant")
	minRate := flag.Float64("min-rate", 0.5, "least fraction of draws per variant that must yield a file")
	flag.Parse()
	sum := summary{Seed: rng.Seed(), N: *n, MinRate: *minRate, Variants: map[string]*row{}, Mixed: map[string]int{}}
	r := rng.FromEnv(0x6f707473) // "opts"

	for _, v := range gen.OptVariants() {
		rw := &row{Flag: v.Flag, Level: v.Level, Stale: v.Stale, Kinds: map[string]int{}}
		sum.Variants[v.Name] = rw
		fr := r.Fork()
		for i := 0; i < *n; i++ {
			rw.Tries++
			g := gen.NeedsOptsOf(fr, v)
			if g == nil {
				continue
			}
			rw.Produced++
			for _, k := range kinds(g) {
				rw.Kinds[k]++
			}
			for _, msg := range verify(g, v) {
				if len(rw.Failures) < 5 {
					rw.Failures = append(rw.Failures, msg)
				}
			}
		}
		if float64(rw.Produced) < *minRate*float64(rw.Tries) {
			sum.Failed = append(sum.Failed, fmt.Sprintf("%s: produced %d of %d", v.Name, rw.Produced, rw.Tries))
		}
		for _, k := range wantKinds[v.Name] {
			if rw.Kinds[k] == 0 {
				sum.Failed = append(sum.Failed, fmt.Sprintf("%s: never produced with %s content", v.Name, k))
			}
		}
		if _, ok := wantKinds[v.Name]; !ok {
			sum.Failed = append(sum.Failed, v.Name+": no expected content kinds listed in optstest")
		}
		if len(rw.Failures) > 0 {
			sum.Failed = append(sum.Failed, v.Name+": "+rw.Failures[0])
		}
	}

	// the reader-side variants: a text the Reader accepts only under the option
	for _, name := range gen.TextVariants {
		rw := &row{Flag: map[string]string{"text:missing-file-header-record": "AllowMissingFileHeader", "text:missing-file-control-record": "AllowMissingFileControl"}[name],
			Level: "reader", Kinds: map[string]int{}}
		sum.Variants[name] = rw
		fr := r.Fork()
		for i := 0; i < *n; i++ {
			rw.Tries++
			f := gen.File(fr, gen.Opts{Addenda: true, IAT: i%3 == 0, Returns: i%2 == 0, NOC: i%5 == 0, MaxBatches: 3})
			if i%7 == 0 {
				f = gen.ADVFile(fr)
			}
			if _, _, ok := gen.TextNeedsOpts(fr, f, name); ok {
				rw.Produced++
				for _, k := range kinds(f) {
					rw.Kinds[k]++
				}
			}
		}
		if float64(rw.Produced) < *minRate*float64(rw.Tries) {
			sum.Failed = append(sum.Failed, fmt.Sprintf("%s: produced %d of %d", name, rw.Produced, rw.Tries))
		}
		for _, k := range []string{"std", "iat", "adv", "return", "noc"} {
			if rw.Kinds[k] == 0 {
				sum.Failed = append(sum.Failed, fmt.Sprintf("%s: never produced with %s content", name, k))
			}
		}
	}

	// the mixed entry point on files the variant was not chosen for
	fr := r.Fork()
	for i := 0; i < *n*4; i++ {
		f := gen.File(fr, gen.Opts{Addenda: true, IAT: i%3 == 0, Returns: i%2 == 0, NOC: i%5 == 0, MaxBatches: 4})
		g, name := gen.NeedsOpts(fr, f)
		if g == nil {
			sum.MixedNil++
			continue
		}
		sum.Mixed[name]++
		if msgs := verify(g, gen.OptVariantByName(name)); len(msgs) > 0 {
			sum.Failed = append(sum.Failed, "mixed "+name+": "+msgs[0])
		}
	}
	if sum.MixedNil*2 > *n*4 {
		sum.Failed = append(sum.Failed, fmt.Sprintf("gen.NeedsOpts gave up on %d of %d mixed files", sum.MixedNil, *n*4))
	}

	sum.Rejects = gen.Rejects()
	out, _ := json.MarshalIndent(sum, "", " ")
	fmt.Println(string(out))
	if len(sum.Failed) > 0 {
		os.Exit(1)
	}
}

func verify(g *ach.File, v *gen.OptVariant) (msgs []string) {
	defer func() {
		if p := recover(); p != nil {
			msgs = append(msgs, fmt.Sprint("panic: ", p))
		}
	}()
	if v == nil {
		return []string{"unknown variant"}
	}
	// the options are stored on the file and its batches, or (batch-level variants, one time in four) on the
	// batches only
	want := g.GetValidation()
	if want == nil {
		if v.Level != "batch" || v.Stale || len(g.Batches)+len(g.IATBatches) == 0 {
			return []string{"no options stored on the file"}
		}
		if len(g.Batches) > 0 {
			want = ach.VerifBatchValidation(g.Batches[0])
		} else {
			want = ach.VerifIATBatchValidation(&g.IATBatches[0])
		}
		if want == nil {
			return []string{"no options stored on the file nor on its batches"}
		}
	}
	if err := gen.ValidAll(g); err != nil {
		msgs = append(msgs, "does not validate under its options: "+err.Error())
	}
	for _, b := range g.Batches {
		if ach.VerifBatchValidation(b) != want {
			msgs = append(msgs, "a batch does not carry the file's option set")
		}
	}
	// without the options: invalid
	h := gen.Clone(g)
	gen.ApplyOptsDeep(h, nil)
	if h.Create() == nil && gen.ValidAll(h) == nil {
		msgs = append(msgs, "validates without its options")
	}
	// File.Create is a no-op on it
	c := gen.Clone(g)
	j1, _ := json.Marshal(c)
	if err := c.Create(); err != nil {
		msgs = append(msgs, "second File.Create fails: "+err.Error())
	}
	j2, _ := json.Marshal(c)
	if string(j1) != string(j2) {
		msgs = append(msgs, "File.Create changes the file")
	}
	if !v.Stale {
		for _, b := range c.Batches {
			if err := b.Create(); err != nil {
				msgs = append(msgs, "Batch.Create fails: "+err.Error())
			}
		}
		for i := range c.IATBatches {
			if err := c.IATBatches[i].Create(); err != nil {
				msgs = append(msgs, "IATBatch.Create fails: "+err.Error())
			}
		}
		_ = c.Create()
		j3, _ := json.Marshal(c)
		if string(j1) != string(j3) {
			msgs = append(msgs, "Batch.Create changes the file")
		}
	}
	// the clone is equal and keeps the options where they are
	if err := gen.ValidAll(gen.Clone(g)); err != nil {
		msgs = append(msgs, "clone does not validate: "+err.Error())
	}
	return msgs
}

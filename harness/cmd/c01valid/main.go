// Command c01valid: correspondence between the model of the DEFAULT reader
// (coq/Codec/ReaderValid.v: record dispatch + regenerated record rules + batch
// arithmetic, extracted) and ach.NewReader(...).Read() with default validation.
//
//	corr -out DIR -n N -nmut M -nline K
//	    (a) generated valid files of every SEC code (21 standard, IAT, ADV) x 7 option sets, written by
//	        ach.NewWriter (LF / CR LF);
//	    (b) single-field changes: one string/int field of one record of such a file set to a boundary or
//	        invalid value (empty, blank, one character more / less, lower case, non-ASCII, sign, 0, -1, +-1,
//	        x10, 10^w-1 ...), the file rendered record by record with String() (the Writer would refuse it),
//	        with and without re-tabulating the controls;
//	    (c) line-level changes of the written text: digits of control / amount / routing columns replaced,
//	        lines dropped (batch control, file control, header, entries), duplicated, swapped, retyped,
//	        stray addenda, unknown record types, fillers missing / in excess, the text cut short.
//	    Every text is read with the default reader; on acceptance the file is dumped record by record and
//	    File.Validate() is classified with the rule enum of Model/Arith.v.
//	witness -out DIR   the `_refuted` witnesses of Props/C01Valid.v on the real code
//	replay <hex text>
//
// Interchange (one line per case):
//
//	D <Kind> <fields>               constructor defaults of a record type
//	T <hex text> <Kind> <Field>     a text, and the record type / field that was varied ("-" "-" otherwise)
//
// observation: OK <rule> <tree> | LINGER <rule> <tree> | ERR <error classes> | PANIC
// (LINGER: the file holds a batch that was never closed by a control record, or the reader dropped an
// unfinished IAT batch; error classes: B<rule> a batch validation error mapped to the rule enum, 99 = a
// rule the arithmetic model does not have; R:<field> a record validation error; S any other error.)
package main

import (
	"errors"
	"flag"
	"fmt"
	"os"
	"path/filepath"
	"reflect"
	"sort"
	"strconv"
	"strings"
	"unicode/utf8"

	"github.com/moov-io/ach"
	"github.com/moov-io/base"

	"verifharness/internal/arith"
	"verifharness/internal/gen"
	"verifharness/internal/hx"
	"verifharness/internal/rng"
	"verifharness/internal/treedump"
)

func main() {
	if len(os.Args) < 2 {
		fmt.Fprintln(os.Stderr, "usage: c01valid corr|witness|replay ...")
		os.Exit(2)
	}
	switch os.Args[1] {
	case "corr":
		corr(os.Args[2:])
	case "witness":
		witness(os.Args[2:])
	case "replay":
		if len(os.Args) < 3 {
			fmt.Fprintln(os.Stderr, "usage: c01valid replay <hex text>")
			os.Exit(2)
		}
		fmt.Println(observe(hx.Dec(os.Args[2])))
	default:
		fmt.Fprintln(os.Stderr, "unknown mode")
		os.Exit(2)
	}
}

func batchKind(be *ach.BatchError) int {
	switch be.BatchType {
	case ach.IAT:
		return arith.KIAT
	case ach.ADV:
		return arith.KADV
	}
	return arith.KStd
}

// classes maps the reader's error list to a sorted set of classes.
func classes(err error) string {
	set := map[string]bool{}
	one := func(e error) {
		var be *ach.BatchError
		var fe *ach.FieldError
		var pe *base.ParseError
		// parseLine sets the record name "Batches" for the error of maybeValidate(batch): SEC specific
		// rules report plain field errors there (ValidAmountForCodes ...)
		inBatch := errors.As(e, &pe) && pe.Record == "Batches"
		switch {
		case inBatch && errors.As(e, &be):
			set["B"+strconv.Itoa(arith.Classify(be, batchKind(be)))] = true
		case inBatch:
			set["B"+strconv.Itoa(arith.Classify(pe.Err, arith.KStd))] = true
		case errors.As(e, &be):
			set["S"] = true // a batch error outside batch validation: the addenda indicator test of parseAddenda
		case errors.As(e, &fe):
			set["R:"+fe.FieldName] = true
		default:
			set["S"] = true
		}
	}
	if el, ok := err.(base.ErrorList); ok {
		for _, e := range el {
			one(e)
		}
	} else {
		one(err)
	}
	var ks []string
	for k := range set {
		ks = append(ks, k)
	}
	sort.Strings(ks)
	return strings.Join(ks, " ")
}

// lingering: a batch that was added without its control record having been read (the control's
// line number is set by parseBatchControl), or an IAT batch still open when the input ended.
func lingering(r *ach.Reader, f *ach.File) bool {
	for _, b := range f.Batches {
		if h := b.GetHeader(); h != nil && h.StandardEntryClassCode == ach.ADV {
			if c := b.GetADVControl(); c == nil || c.LineNumber == 0 {
				return true
			}
		} else if c := b.GetControl(); c == nil || c.LineNumber == 0 {
			return true
		}
	}
	return r.IATCurrentBatch.Header != nil
}

// observe reads the text with the real default reader.
func observe(text string) (out string) {
	defer func() {
		if e := recover(); e != nil {
			out = "PANIC"
		}
	}()
	r := ach.NewReaderWithContentType(strings.NewReader(text), "text/plain; charset=utf-8")
	f, err := r.Read()
	if err != nil {
		return "ERR " + classes(err)
	}
	tagw := "OK"
	if lingering(r, &f) {
		tagw = "LINGER"
	}
	rule := arith.Classify(arith.Safe(f.Validate), arith.KStd)
	return fmt.Sprintf("%s %d %s", tagw, rule, treedump.File(&f))
}

type optSet struct {
	name string
	o    gen.Opts
}

func optSets() []optSet {
	return []optSet{
		{"plain", gen.Opts{}},
		{"addenda", gen.Opts{Addenda: true, MaxEntries: 3}},
		{"returns", gen.Opts{Returns: true, Addenda: true}},
		{"noc", gen.Opts{NOC: true}},
		{"iat", gen.Opts{IAT: true, Returns: true, NOC: true, Addenda: true, MaxBatches: 4}},
		{"nonascii", gen.Opts{NonASCII: true, Addenda: true, IAT: true}},
		{"offset", gen.Opts{Offset: true, Addenda: true}},
	}
}

// ---------------------------------------------------------------- (b) single-field changes

type fieldRef struct {
	rec   any
	kind  string
	name  string
	isInt bool
}

func fieldsOf(f *ach.File) []fieldRef {
	var out []fieldRef
	for _, v := range treedump.Records(f) {
		rv := reflect.ValueOf(v).Elem()
		t := rv.Type()
		for i := 0; i < t.NumField(); i++ {
			sf := t.Field(i)
			if treedump.SkipField[sf.Name] || !sf.IsExported() {
				continue
			}
			switch sf.Type.Kind() {
			case reflect.String:
				out = append(out, fieldRef{v, t.Name(), sf.Name, false})
			case reflect.Int:
				out = append(out, fieldRef{v, t.Name(), sf.Name, true})
			}
		}
	}
	return out
}

func pow10(n int) int64 {
	p := int64(1)
	for i := 0; i < n; i++ {
		p *= 10
	}
	return p
}

func mutate(r *rng.R, fr fieldRef) string {
	fv := reflect.ValueOf(fr.rec).Elem().FieldByName(fr.name)
	if fr.isInt {
		cur := fv.Int()
		cands := []int64{0, -1, 1, cur + 1, cur - 1, cur * 10, cur / 10, cur + 10, 9, 10, 99, 100, 200, 220, 225, 280, 999,
			pow10(r.Range(1, 12)) - 1, pow10(r.Range(1, 12)), -cur, 21 + int64(r.Intn(40)), 80 + int64(r.Intn(10))}
		v := rng.Pick(r, cands)
		if r.Chance(1, 4) { // the field-inclusion rules: a zero value
			v = 0
		}
		fv.SetInt(v)
		return strconv.FormatInt(v, 10)
	}
	cur := fv.String()
	rs := []rune(cur)
	cands := []string{"", " ", strings.Repeat(" ", len(rs)), cur + "x", cur + "1", " " + cur, cur + " ", strings.ToLower(cur), strings.ToUpper(cur),
		"0", "00", "1", "A", "é", strings.Repeat("9", len(rs)), strings.Repeat("0", len(rs)), strings.Repeat("Z", len(rs)+1), "+" + cur, "-" + cur,
		" ", "~", "\x7f", "ı", "R61", "R71", "C61", "C01", "R01", "IAT", "ADV", "PPD", "COR", "IATCOR", "FF", "FV", "01", "02", "05", "98", "99"}
	if len(rs) > 0 {
		cands = append(cands, string(rs[:len(rs)-1]), string(rs[1:]), string(rs[:len(rs)-1])+"é", string(rs[:len(rs)-1])+"x", "x"+string(rs[1:]))
		i := r.Intn(len(rs))
		d := []rune(rng.Pick(r, []string{"0", "1", "5", "9", "A", "a", " ", "é", "-"}))[0]
		m := append([]rune(nil), rs...)
		m[i] = d
		cands = append(cands, string(m), string(m), string(m))
	}
	v := rng.Pick(r, cands)
	if r.Chance(1, 5) { // the field-inclusion rules: an empty value
		v = ""
	}
	fv.SetString(v)
	return v
}

// render: every record's String() in writer order, padded with 9-lines to a multiple of ten.
func render(f *ach.File, sep string) (text string, ok bool) {
	defer func() {
		if e := recover(); e != nil {
			text, ok = "", false
		}
	}()
	var ls []string
	for _, v := range treedump.Records(f) {
		ls = append(ls, v.(interface{ String() string }).String())
	}
	for len(ls)%10 != 0 {
		ls = append(ls, strings.Repeat("9", 94))
	}
	return strings.Join(ls, sep) + sep, true
}

func retabulate(f *ach.File) bool {
	ok := true
	func() {
		defer func() {
			if e := recover(); e != nil {
				ok = false
			}
		}()
		for _, b := range f.Batches {
			if b.Create() != nil {
				ok = false
			}
		}
		for i := range f.IATBatches {
			if f.IATBatches[i].Create() != nil {
				ok = false
			}
		}
		if f.Create() != nil {
			ok = false
		}
	}()
	return ok
}

// ---------------------------------------------------------------- (c) line-level changes

func splitLines(text string) []string {
	text = strings.ReplaceAll(text, "\r\n", "\n")
	ls := strings.Split(text, "\n")
	for len(ls) > 0 && ls[len(ls)-1] == "" {
		ls = ls[:len(ls)-1]
	}
	return ls
}

func indicesOf(ls []string, first byte) []int {
	var out []int
	for i, l := range ls {
		if len(l) > 0 && l[0] == first {
			out = append(out, i)
		}
	}
	return out
}

// setCols replaces characters (not bytes) lo.. of l by s
func setCols(l string, lo int, s string) string {
	rs := []rune(l)
	ss := []rune(s)
	if len(rs) < lo+len(ss) {
		return l
	}
	copy(rs[lo:], ss)
	return string(rs)
}

func insert(ls []string, i int, l string) []string {
	out := append([]string(nil), ls[:i]...)
	out = append(out, l)
	return append(out, ls[i:]...)
}

func remove(ls []string, i int) []string {
	out := append([]string(nil), ls[:i]...)
	return append(out, ls[i+1:]...)
}

var typeCodes = []string{"02", "05", "10", "11", "12", "13", "14", "15", "16", "17", "18", "98", "99", "03", "00", "5 ", "AB"}
var codes = []string{"C01", "C61", "c61", "C69", "C70", "R01", "R61", "R62", "R67", "R70", "R71", "R76", "R77", "r61", "   "}

// protected numeric / routing columns per record type (first character of the line): lo, hi
var digitCols = map[byte][][2]int{
	'5': {{1, 4}, {79, 87}, {87, 94}, {78, 79}, {69, 75}},
	'6': {{1, 3}, {3, 11}, {11, 12}, {29, 39}, {78, 79}, {79, 94}, {12, 29}},
	'7': {{83, 87}, {87, 94}, {3, 6}, {1, 3}},
	'8': {{1, 4}, {4, 10}, {10, 20}, {20, 32}, {32, 44}, {79, 87}, {87, 94}, {44, 54}},
	'9': {{1, 7}, {7, 13}, {13, 21}, {21, 31}, {31, 43}, {43, 55}},
	'1': {{1, 3}, {3, 13}, {13, 23}, {23, 29}, {29, 33}, {33, 34}, {34, 37}, {37, 39}, {39, 40}},
}

func lineVariant(r *rng.R, ls []string) (out []string, what string) {
	out = append([]string(nil), ls...)
	adds := indicesOf(out, '7')
	ents := indicesOf(out, '6')
	hs, cs := indicesOf(out, '5'), indicesOf(out, '8')
	switch k := r.Intn(26); {
	case k <= 5: // one character of a protected / coded column replaced
		i := r.Intn(len(out))
		cols := digitCols[out[i][0]]
		if len(cols) == 0 || strings.HasPrefix(out[i], "99") {
			return out, "none"
		}
		c := rng.Pick(r, cols)
		p := c[0] + r.Intn(c[1]-c[0])
		out[i] = setCols(out[i], p, rng.Pick(r, []string{"0", "1", "2", "5", "7", "9", " ", "A", "-"}))
		return out, "digit:" + string(out[i][0])
	case k == 6 && len(cs) > 0: // a batch control dropped: the batch is never closed
		return remove(out, rng.Pick(r, cs)), "drop-batch-control"
	case k == 7: // the file control dropped
		nine := indicesOf(out, '9')
		if len(nine) == 0 {
			return out, "none"
		}
		return remove(out, nine[0]), "drop-file-control"
	case k == 8 && len(hs) > 0: // a batch header dropped / duplicated
		i := rng.Pick(r, hs)
		if r.Bool() {
			return remove(out, i), "drop-batch-header"
		}
		return insert(out, i, out[i]), "dup-batch-header"
	case k == 9 && len(ents) > 0: // an entry dropped / duplicated
		i := rng.Pick(r, ents)
		if r.Bool() {
			return remove(out, i), "drop-entry"
		}
		return insert(out, i, out[i]), "dup-entry"
	case k == 10: // the text ends early
		n := r.Range(1, len(out))
		return out[:n], "cut-lines"
	case k == 11 && len(adds) > 0: // retype an addenda
		i := rng.Pick(r, adds)
		out[i] = setCols(out[i], 1, rng.Pick(r, typeCodes))
		return out, "retype"
	case k == 12 && len(adds) > 0: // recode an addenda
		i := rng.Pick(r, adds)
		out[i] = setCols(out[i], 3, rng.Pick(r, codes))
		if r.Bool() {
			out[i] = setCols(out[i], 1, rng.Pick(r, []string{"98", "99"}))
		}
		return out, "recode"
	case k == 13 && len(adds) > 0:
		i := rng.Pick(r, adds)
		return insert(out, i, out[i]), "dup-addenda"
	case k == 14 && len(adds) > 1:
		i, j := rng.Pick(r, adds), rng.Pick(r, adds)
		out[i], out[j] = out[j], out[i]
		return out, "swap-addenda"
	case k == 15 && len(adds) > 0:
		return remove(out, rng.Pick(r, adds)), "drop-addenda"
	case k == 16 && len(ents) > 0:
		i := rng.Pick(r, ents)
		out[i] = setCols(out[i], 78, rng.Pick(r, []string{"0", "1", " ", "2"}))
		return out, "indicator"
	case k == 17 && len(ents) > 0:
		i := rng.Pick(r, ents)
		stray := "7" + rng.Pick(r, typeCodes) + strings.Repeat("X", 80) + "00000000001"
		return insert(out, i+1, stray), "stray-addenda"
	case k == 18:
		i := 0
		if nine := indicesOf(out, '9'); r.Bool() && len(nine) > 0 {
			i = nine[0]
		}
		return insert(out, i+1, out[i]), "repeat-file-record"
	case k == 19 && len(hs) > 0:
		i := rng.Pick(r, hs)
		stray := "705" + strings.Repeat("Y", 80) + "00010000001"
		return insert(out, i+1, stray), "addenda-before-entry"
	case k == 20:
		i := r.Intn(len(out))
		out[i] = setCols(out[i], 0, rng.Pick(r, []string{"2", "0", "A", " "}))
		return out, "unknown-type"
	case k == 21 && len(hs) > 0:
		i := rng.Pick(r, hs)
		out[i] = setCols(out[i], 50, rng.Pick(r, []string{"IAT", "ADV", "PPD", "XXX", "iat", "COR", "CCD"}))
		return out, "sec-columns"
	case k == 22 && len(hs) > 0:
		i := rng.Pick(r, hs)
		out[i] = setCols(out[i], 4, rng.Pick(r, []string{"IATCOR          ", "  IATCOR        ", "IATCORX         ", "iatcor          "}))
		return out, "company-name"
	case k == 23 && len(hs) >= 2 && len(hs) == len(cs): // swap two whole batches
		a := r.Intn(len(hs) - 1)
		b := a + 1 + r.Intn(len(hs)-a-1)
		var res []string
		res = append(res, ls[:hs[a]]...)
		res = append(res, ls[hs[b]:cs[b]+1]...)
		res = append(res, ls[cs[a]+1:hs[b]]...)
		res = append(res, ls[hs[a]:cs[a]+1]...)
		res = append(res, ls[cs[b]+1:]...)
		return res, "swap-batches"
	case k == 24: // two lines swapped
		i, j := r.Intn(len(out)), r.Intn(len(out))
		out[i], out[j] = out[j], out[i]
		return out, "swap-lines"
	default: // more or fewer filler records
		n := r.Range(0, 12)
		for len(out) > 0 && strings.HasPrefix(out[len(out)-1], "99") {
			out = out[:len(out)-1]
		}
		for i := 0; i < n; i++ {
			out = append(out, strings.Repeat("9", 94))
		}
		return out, "fillers"
	}
}

func corr(args []string) {
	fs := flag.NewFlagSet("corr", flag.ExitOnError)
	out := fs.String("out", "", "output directory")
	n := fs.Int("n", 2, "generated files per SEC code and option set")
	nmut := fs.Int("nmut", 5, "single-field changes per generated file")
	nline := fs.Int("nline", 3, "line-level changes per generated file")
	fs.Parse(args)
	cases := hx.Create(filepath.Join(*out, "vcases.txt"))
	impl := hx.Create(filepath.Join(*out, "vimpl.txt"))
	desc := hx.Create(filepath.Join(*out, "vdesc.txt"))
	for _, d := range treedump.Defaults() {
		cases.Printf("%s\n", d)
		impl.Printf("D\n")
		desc.Printf("defaults\n")
	}
	cases.Printf("U\n")
	impl.Printf("U\n")
	desc.Printf("fields of unrecognised checks\n")
	r := rng.FromEnv(7311)
	dist := map[string]int{}
	total := 0
	emit := func(text, kind, field, label, what string) {
		obs := observe(text)
		cases.Printf("T %s %s %s\n", hx.Enc(text), kind, field)
		impl.Printf("%s\n", obs)
		desc.Printf("%s\n", what)
		total++
		dist[label+":"+strings.SplitN(obs, " ", 2)[0]]++
	}
	secs := append(gen.AllSECs(), ach.IAT, ach.ADV)
	for _, sec := range secs {
		for _, ops := range optSets() {
			for i := 0; i < *n; i++ {
				var f *ach.File
				if i == 0 || sec == ach.ADV {
					f = gen.FileOfSEC(r, sec, ops.o)
				} else {
					f = gen.File(r, ops.o)
				}
				text, err := gen.Text(f, i%2 == 1)
				if err != nil {
					dist["writer-error"]++
					continue
				}
				emit(text, "-", "-", "written", "written "+sec+" "+ops.name)
				// (b)
				for m := 0; m < *nmut; m++ {
					g := gen.Clone(f)
					frs := fieldsOf(g)
					if len(frs) == 0 {
						continue
					}
					fr := rng.Pick(r, frs)
					val := mutate(r, fr)
					retab := r.Chance(1, 3) && retabulate(g)
					sep := "\n"
					if r.Chance(1, 4) {
						sep = "\r\n"
					}
					t, ok := render(g, sep)
					if !ok || !utf8.ValidString(t) {
						dist["field:render-failed"]++
						continue
					}
					lab := "field"
					if retab {
						lab = "field+create"
					}
					emit(t, fr.kind, fr.name, lab, fmt.Sprintf("%s %s.%s := %q (%s %s)", lab, fr.kind, fr.name, val, sec, ops.name))
				}
				// (c)
				ls := splitLines(text)
				for v := 0; v < *nline; v++ {
					vl, what := lineVariant(r, ls)
					if what == "none" {
						continue
					}
					sep := "\n"
					if r.Chance(1, 4) {
						sep = "\r\n"
					}
					// a changed character of a file header: any of its fields (the driver's "*")
					kind, field := "-", "-"
					if what == "digit:1" {
						kind, field = "FileHeader", "*"
					}
					emit(strings.Join(vl, sep)+sep, kind, field, "line:"+what, "line "+what+" ("+sec+" "+ops.name+")")
				}
			}
		}
	}
	cases.Close()
	impl.Close()
	desc.Close()
	var keys []string
	for k := range dist {
		keys = append(keys, k)
	}
	sort.Strings(keys)
	var parts []string
	for _, k := range keys {
		parts = append(parts, fmt.Sprintf("%q:%d", k, dist[k]))
	}
	fmt.Printf("{\"cases\":%d,\"distribution\":{%s}}\n", total, strings.Join(parts, ","))
}

// witness replays the `_refuted` / `_needed` witnesses of coq/Props/C01Valid.v on the real code.
//
//	blank-only mandatory field: BatchHeader.CompanyName = " " (and Addenda02.TerminalCity = " "): the file
//	  validates, the Writer writes it, the default Reader rejects the text          -> C01 failure (known finding)
//	FileHeader.FileCreationDate of six characters that are no calendar date: same  -> C01 failure (known finding)
//	unclosed batch: a batch control line removed from a written file: Read (default) succeeds       -> sample
//	file arithmetic: the entry/addenda count of the file control changed: Read succeeds, Validate fails -> sample
func witness(args []string) {
	fs := flag.NewFlagSet("witness", flag.ExitOnError)
	out := fs.String("out", "", "output directory")
	n := fs.Int("n", 6, "files per witness class")
	fs.Parse(args)
	w := hx.Create(filepath.Join(*out, "witness.jsonl"))
	r := rng.FromEnv(9127)
	evals, nontrivial := 0, 0
	dist := map[string]int{}
	var samples []string
	sample := func(format string, a ...any) {
		if len(samples) < 6 {
			samples = append(samples, fmt.Sprintf(format, a...))
		}
	}
	jq := func(s string) string { return strconv.Quote(s) }
	blank := func(sec, what, key string, edit func(f *ach.File) bool) {
		for i := 0; i < *n; i++ {
			f := gen.FileOfSEC(r, sec, gen.Opts{MinBatches: 1, MaxBatches: 2, Addenda: true})
			if !edit(f) {
				dist[what+":not-applicable"]++
				continue
			}
			evals++
			if !retabulate(f) || arith.Safe(f.Validate) != nil {
				dist[what+":not-valid"]++
				continue
			}
			text, err := gen.Text(f, false)
			if err != nil {
				dist[what+":writer-error"]++
				continue
			}
			nontrivial++
			obs := observe(text)
			dist[what+":"+strings.SplitN(obs, " ", 2)[0]]++
			if strings.HasPrefix(obs, "ERR") {
				w.Printf("{\"kind\":\"fail\",\"key\":%s,\"what\":%s,\"case\":{\"mode\":\"text\",\"field\":%s,\"text\":%s}}\n", jq(key),
					jq("a file that validates is written by the Writer and rejected by the default Reader ("+what+"): "+obs), jq(what), jq(hx.Enc(text)))
			}
		}
	}
	const blankKey = "roundtrip:valid:blank-only-mandatory-field:read-error"
	blank(ach.PPD, "BatchHeader.CompanyName", blankKey, func(f *ach.File) bool {
		if len(f.Batches) == 0 {
			return false
		}
		f.Batches[0].GetHeader().CompanyName = " "
		return true
	})
	blank(ach.POS, "Addenda02.TerminalCity", blankKey, func(f *ach.File) bool {
		for _, b := range f.Batches {
			for _, e := range b.GetEntries() {
				if e.Addenda02 != nil {
					e.Addenda02.TerminalCity = " "
					return true
				}
			}
		}
		return false
	})
	// six characters that are no calendar date: FileHeader.Validate only wants the date non-empty, Parse blanks it
	blank(ach.CCD, "FileHeader.FileCreationDate", "roundtrip:valid:file-creation-date-not-calendar:read-error", func(f *ach.File) bool {
		f.Header.FileCreationDate = rng.Pick(r, []string{"250230", "ABCDEF", "991301", "240431"})
		return true
	})
	for i := 0; i < *n; i++ {
		f := gen.File(r, gen.Opts{MinBatches: 2, MaxBatches: 3, ForwardOnly: true})
		text, err := gen.Text(f, false)
		if err != nil {
			continue
		}
		ls := splitLines(text)
		// an unclosed batch
		if cs := indicesOf(ls, '8'); len(cs) > 0 {
			evals++
			nontrivial++
			t := strings.Join(remove(ls, cs[0]), "\n") + "\n"
			obs := observe(t)
			tagw := strings.SplitN(obs, " ", 3)
			dist["unclosed-batch:"+tagw[0]]++
			if tagw[0] == "LINGER" {
				sample("first batch control removed: Read (default validation) returns the file, File.Validate() rule %s", tagw[1])
			}
		}
		// file control entry/addenda count + 1 (columns 13..21)
		if nine := indicesOf(ls, '9'); len(nine) > 0 {
			evals++
			nontrivial++
			l := ls[nine[0]]
			c, _ := strconv.Atoi(l[13:21])
			m := append([]string(nil), ls...)
			m[nine[0]] = l[:13] + fmt.Sprintf("%08d", c+1) + l[21:]
			obs := observe(strings.Join(m, "\n") + "\n")
			tagw := strings.SplitN(obs, " ", 3)
			dist["file-count+1:"+tagw[0]]++
			if tagw[0] == "OK" {
				sample("file control entry/addenda count raised by one: Read (default validation) returns the file, File.Validate() rule %s", tagw[1])
			}
		}
	}
	var keys []string
	for k := range dist {
		keys = append(keys, k)
	}
	sort.Strings(keys)
	var parts, ss []string
	for _, k := range keys {
		parts = append(parts, fmt.Sprintf("%q:%d", k, dist[k]))
	}
	for _, s := range samples {
		ss = append(ss, fmt.Sprintf("{\"note\":%s}", jq(s)))
	}
	w.Printf("{\"kind\":\"summary\",\"evaluations\":%d,\"distinct_nontrivial\":%d,\"rule\":%s,\"distribution\":{%s},\"samples\":[%s]}\n",
		evals, nontrivial, jq("witnesses of Props/C01Valid.v on the real code: a file counts when it validated and was written (blank-only fields) or was written and edited (unclosed batch, file count)"),
		strings.Join(parts, ","), strings.Join(ss, ","))
	w.Close()
	fmt.Printf("{\"witness_evaluations\":%d}\n", evals)
}
